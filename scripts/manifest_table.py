check("C01", "exploration",
      "Differential runtime monitoring: thousands of seeded random pure programs and a classic-program family are executed on the real engine and on an independent reference SLD interpreter; whole answer sequences, termination and final status are compared. Held = held on the executions of this run.",
      "Trusts the reference interpreter (self-tested on pinned ISO examples each run) and the worker's term serializer; STO cases skipped; prefix comparison when the reference exceeds its step budget.",
      "differential testing against an executable reference interpreter (answer-sequence oracle) + step-clock termination oracle", "§3 C01")
