check("C01", "exploration",
      "Differential runtime monitoring: thousands of seeded random pure programs and a classic-program family are executed on the real engine and on an independent reference SLD interpreter; whole answer sequences, termination and final status are compared. Held = held on the executions of this run.",
      "Trusts the reference interpreter (self-tested on pinned ISO examples each run) and the worker's term serializer; STO cases skipped; prefix comparison when the reference exceeds its step budget.",
      "differential testing against an executable reference interpreter (answer-sequence oracle) + step-clock termination oracle", "§3 C01")
check("C03", "exploration",
      "Differential runtime monitoring of cut: every clause body of length <=3 over a 12-goal control alphabet is enumerated (exhaustive for one-clause predicates), pairs/triples and 3-level call chains are sampled; each program runs on the engine and on the reference interpreter inside an outer nondeterministic caller, and answer sequences + event logs must be equal. The VerifOnCut hook reports how many choice points each cut discarded.",
      "Trusts the reference interpreter's ISO cut semantics (self-tested). Cut placements outside the property's scope are not generated.",
      "differential testing against an executable reference interpreter over exhaustively enumerated control skeletons; cut hook for coverage", "§3 C03")
check("C04", "exploration",
      "Differential runtime monitoring of catch/throw: fixed skeletons for every situation the statement names (throw after exit, after redo, non-unifying catchers, shared variables, rethrow, built-in errors) plus seeded random compositions; event log, answers and final error compared with the reference interpreter. The VerifOnRecover hook reports unwinding depth and handled/unhandled counts.",
      "Trusts the reference interpreter's implementation of ISO 7.8.9/7.8.10 (self-tested); error Context is not compared.",
      "differential testing against an executable reference interpreter (event-log + answer-sequence oracle)", "§3 C04")
check("C09", "exploration",
      "Differential runtime monitoring of database histories: every history of <=2 statements over a statement pool (exhaustive) and seeded longer histories mixing asserta/assertz/retract/retractall/abolish with open calls, open retracts and open clause/2 enumerations (nested, and updates from inside the enumerated predicate); the event log of everything every open call saw, every update outcome and the final listing are compared with a generation-stamped reference database (logical update view).",
      "Trusts the reference database model (self-tested on ISO 7.5.4/8.9 examples); accepts both ISO-allowed behaviours of an open retract reaching an erased clause; abolish of a non-existent procedure not asserted.",
      "differential testing of recorded histories against a sequential reference model (logical update view)", "§3 C09")
check("C11", "exploration",
      "Differential runtime monitoring of findall/bagof/setof over seeded fact tables with variant/non-variant witnesses, arbitrary templates, ^-quantification, nested all-solutions calls, throwing goals and bound/partial/non-list instance arguments; answers compared with the reference interpreter (sequence for findall, multiset where group order is open).",
      "Trusts the reference implementation of ISO 8.10 (self-tested); group order and results hinging on the order of unbound variables are not asserted.",
      "differential testing against an executable reference interpreter (answer multiset/sequence oracle)", "§3 C11")
check("C17", "exploration",
      "Differential runtime monitoring of DCG translation: seeded random non-left-recursive grammars using every body construct (terminals, strings, non-terminals with arguments, sequence incl. left-nested, ';' '|', {}//1, \\+//1, !//0, call//N, if-then(-else), push-back), loaded through consult and through expand_term/2+assertz, are run on all 31 lists over {a,b} up to length 4 (+ lists with c) in recognition, remainder and generation mode; answer sequences must equal those of the reference interpreter running the ISO-draft translation.",
      "Trusts the reference translation (2019 draft) and interpreter (self-tested). Cut nested inside a parenthesised alternation that is an element of a sequence is not generated (C03's scope).",
      "differential testing against an executable reference translation + interpreter, exhaustive over short inputs", "§3 C17")
check("C10", "exploration",
      "Runtime monitoring of clause storage: each seeded clause term is added by assertz/asserta with variables bound in the calling environment and, separately, consulted from text; clause/2 and retract/1 must show a variant of the term in force, calling the predicate must give the reference interpreter's answers for that term on both paths, and the compiled form reported by the VerifCompile hook is decompiled by the controller and compared with the source (also for every clause of bootstrap.pl as read by the engine's reader and as stored in the loaded database).",
      "Trusts the controller's decompiler for the 15 opcodes (unknown sequences are inconclusive) and the reference interpreter; clauses whose execution is STO or non-terminating are not generated.",
      "round-trip oracle (variant check) + differential execution + translation check of the compiled form via hook", "§3 C10")
