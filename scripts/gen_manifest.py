#!/usr/bin/env python3
"""Writes MANIFEST.json from the table below (kept in one place so that it stays valid and consistent)."""
import json, subprocess

HOOK_COMMITS = subprocess.run(["git", "-C", "/repo", "log", "--format=%H %s", "--grep=^verif:"], capture_output=True, text=True).stdout.strip().splitlines()

CHECKS = {}
NOT_YET = {}

def check(pid, level, text, note, technique, design):
    CHECKS[pid] = dict(level=level, text=text, note=note, technique=technique, design=design)

exec(open("/verif/scripts/manifest_table.py").read())

ALL = ["C%02d" % i for i in range(1, 21)]
m = {
    "version": 1,
    "setup_cmd": "cd /verif && ./setup.sh",
    "hooks": {
        "guard": "verif",
        "enable": "go build -tags verif (the worker cmd/vworker is built with -modfile replacing github.com/ichiban/prolog by /repo)",
        "baseline_off_cmd": "/verif/scripts/baseline_off.sh",
        "source_commits": [l.split()[0] for l in HOOK_COMMITS],
        "add_only": True,
    },
    "engines": [
        {"name": "vcheck", "path": "/verif/cmd/vcheck", "serves_properties": sorted(CHECKS), "kind_free_text": "controller: generators, reference models and oracles; never links the code under test"},
        {"name": "vworker", "path": "/verif/cmd/vworker", "serves_properties": sorted(CHECKS), "kind_free_text": "worker process built from /repo's working tree on every run (build tag verif, -race where needed); executes cases through the public API and the verif hooks"},
        {"name": "ref", "path": "/verif/internal/ref", "serves_properties": [p for p in ["C01", "C03", "C04", "C09", "C10", "C11", "C17"] if p in CHECKS], "kind_free_text": "independent reference Prolog interpreter used as executable specification"},
    ],
    "checks": [],
    "not_applicable": [],
    "notes": "All checks are runtime monitors over executions of the real code (differential against executable reference models, invariant hooks, race detector, deadlock detector). See DESIGN.md.",
}
for pid in ALL:
    if pid in CHECKS:
        c = CHECKS[pid]
        m["checks"].append({
            "property_id": pid,
            "quick_cmd": f"cd /verif && bin/vcheck {pid} --tier quick",
            "thorough_cmd": f"cd /verif && bin/vcheck {pid} --tier thorough",
            "evidence_file": f"/verif/evidence/{pid}.json",
            "replay_cmd_template": f"cd /verif && bin/vcheck {pid} --replay {{path}}",
            "engine": "vcheck",
            "level_claimed": {"category": c["level"], "text": c["text"], "design_ref": c["design"]},
            "level_note": c["note"],
            "technique": c["technique"],
        })
    else:
        m["not_applicable"].append({"property_id": pid, "reason": NOT_YET.get(pid, "monitor designed (DESIGN.md §3) but not implemented yet; not claimed")})
json.dump(m, open("/verif/MANIFEST.json", "w"), indent=1)
print("checks:", sorted(CHECKS), "not claimed:", [x["property_id"] for x in m["not_applicable"]])
