#!/bin/bash
# usage: try_patch_on_fixed.sh <mutant.diff> <check> [<check>...]   (env TIER=quick|thorough, FIXES="fixes/C05_*.diff")
# Like try_patch.sh, but the scratch copy of /repo first receives the repair diffs named by FIXES (those that
# are not in /repo yet), so that a seeded change is judged against the repaired tree: on the unrepaired tree the
# check fires anyway and "CAUGHT" would say nothing about the mutant.
set -u
here=$(cd "$(dirname "$0")/.." && pwd)
patch=$(readlink -f "$1"); shift
d=$(mktemp -d /tmp/mut-XXXXXX)
rsync -a --exclude .git /repo/ "$d/"
for f in ${FIXES:-$here/fixes/C05_*.diff}; do
  [ -f "$f" ] || continue
  if (cd "$d" && patch -p1 -s --dry-run < "$f" >/dev/null 2>&1); then (cd "$d" && patch -p1 -s < "$f"); else echo "note: $(basename "$f") not applied (already in the tree?)"; fi
done
if ! (cd "$d" && patch -p1 -s < "$patch"); then echo "PATCH-FAILED $patch"; rm -rf "$d"; exit 3; fi
. "$here/scripts/env.sh"
if ! (cd "$d" && go build ./... ) ; then echo "DOES-NOT-BUILD $patch"; rm -rf "$d"; exit 3; fi
for c in "$@"; do
  out=$(VERIF_DIR=$here VERIF_REPO=$d timeout 6000 "$here/bin/vcheck" "$c" --tier "${TIER:-quick}" 2>&1); rc=$?
  nv=$(echo "$out" | grep -c '^VIOLATION')
  if [ $rc -eq 1 ] && [ "$nv" -gt 0 ]; then echo "CAUGHT $c rc=$rc violations=$nv :: $(echo "$out" | grep -A1 '^VIOLATION' | sed -n 2p | cut -c1-300)";
  else echo "MISSED $c rc=$rc :: $(echo "$out" | tail -1 | cut -c1-300)"; fi
  echo "$out" | grep -A1 '^VIOLATION' | grep -v '^VIOLATION\|^--' | sed 's/ on text.*//; s/goal .* \(returned\|raised\)/goal … \1/' | cut -c1-160 | sort | uniq -c | sort -rn | head -5
done
rm -rf "$d"
