#!/bin/bash
# usage: try_benign.sh <change.diff> [checks...]   (default: every check)
# Applies a behaviour-preserving change to a scratch copy of /repo, confirms that the repository suite still
# passes, and runs the checks against the copy: ANY alarm (exit != 0) is a false alarm to be investigated.
set -u
here=$(cd "$(dirname "$0")/.." && pwd)
patch=$(readlink -f "$1"); shift
checks=${*:-C01 C02 C03 C04 C05 C06 C07 C08 C09 C10 C11 C12 C13 C14 C15 C16 C17 C18 C19 C20}
d=$(mktemp -d /tmp/benignchk-XXXXXX)
rsync -a --exclude .git --exclude out /repo/ "$d/"
(cd "$d" && patch -p1 -s < "$patch") || { echo "PATCH-FAILED $patch"; rm -rf "$d"; exit 3; }
. "$here/scripts/env.sh"
(cd "$d" && go build ./... ) || { echo "DOES-NOT-BUILD $patch"; rm -rf "$d"; exit 3; }
echo "suite: $(VERIF_REPO=$d "$here/scripts/baseline_off.sh" | tail -1)"
for c in $checks; do
  [ -f "$here/cmd/vcheck/$(echo $c | tr 'C' 'c').go" ] || continue
  out=$(VERIF_DIR=$here VERIF_REPO=$d timeout 3000 "$here/bin/vcheck" "$c" --tier quick 2>&1); rc=$?
  if [ $rc -eq 0 ]; then echo "quiet $c :: $(echo "$out" | tail -1 | cut -c1-160)";
  else echo "ALARM $c rc=$rc :: $(echo "$out" | grep -A1 -E '^(VIOLATION|BROKEN)' | head -2 | tr '\n' ' ' | cut -c1-400)"; fi
done
rm -rf "$d"
