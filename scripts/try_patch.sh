#!/bin/bash
# usage: try_patch.sh <patch.diff> <check> [<check>...]   (env TIER=quick|thorough)
# Applies a seeded change to a scratch copy of /repo (never to /repo itself), runs the named checks against
# that copy and removes it. Prints one line per check: CAUGHT / MISSED.
set -u
here=$(cd "$(dirname "$0")/.." && pwd)
patch=$(readlink -f "$1"); shift
d=$(mktemp -d /tmp/mut-XXXXXX)
rsync -a --exclude .git /repo/ "$d/"
if ! (cd "$d" && patch -p1 -s < "$patch"); then echo "PATCH-FAILED $patch"; rm -rf "$d"; exit 3; fi
. "$here/scripts/env.sh"
if ! (cd "$d" && go build ./... ) ; then echo "DOES-NOT-BUILD $patch"; rm -rf "$d"; exit 3; fi
for c in "$@"; do
  out=$(VERIF_DIR=$here VERIF_REPO=$d timeout 3000 "$here/bin/vcheck" "$c" --tier "${TIER:-quick}" 2>&1); rc=$?
  nv=$(echo "$out" | grep -c '^VIOLATION')
  if [ $rc -eq 1 ] && [ "$nv" -gt 0 ]; then echo "CAUGHT $c rc=$rc violations=$nv :: $(echo "$out" | grep -A1 '^VIOLATION' | sed -n 2p | cut -c1-300)";
  else echo "MISSED $c rc=$rc :: $(echo "$out" | tail -1 | cut -c1-300)"; fi
done
rm -rf "$d"
