#!/usr/bin/env python3
"""Prints the markdown table of seeded changes (seeded/*/meta.json) for DESIGN.md §9."""
import json, glob, os, re
rows = []
for d in sorted(glob.glob('/verif/seeded/*')):
    m = json.load(open(os.path.join(d, 'meta.json')))
    notes = m.get('breaks', '')
    first = ' '.join(notes.strip().split('\n')[:3])
    first = re.sub(r'\s+', ' ', first)[:230]
    checks = m.get('checks_run', '')
    rows.append((os.path.basename(d), first, checks))
print('| id | what it is (from the seeding agent\'s notes) | checks run (quick tier) |')
print('|---|---|---|')
for r in rows:
    print('| %s | %s | %s |' % (r[0], r[1].replace('|', '/'), r[2]))
