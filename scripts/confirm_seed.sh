#!/bin/bash
# usage: confirm_seed.sh <property> <dir with changeN.diff demoN_test.go metaN.txt> <N> [checks...]
# Confirms a seeded change in a scratch copy of /repo: (1) it applies and builds, (2) the repository's
# baseline suite still passes with it, (3) the demonstration fails with the change and passes without,
# then runs the named checks against the changed copy. Stores the change under /verif/seeded/<property>-<N>/
# when (1)-(3) hold. Never touches /repo.
set -u
prop=$1; src=$2; n=$3; shift 3
here=$(cd "$(dirname "$0")/.." && pwd)
. "$here/scripts/env.sh"
d=$(mktemp -d /tmp/seedchk-XXXXXX)
rsync -a --exclude .git --exclude out /repo/ "$d/"
ok=1
(cd "$d" && patch -p1 -s < "$src/change$n.diff") || { echo "PATCH-FAILED"; rm -rf "$d"; exit 3; }
(cd "$d" && go build ./... ) || { echo "DOES-NOT-BUILD"; rm -rf "$d"; exit 3; }
suite=$(VERIF_REPO=$d "$here/scripts/baseline_off.sh" | tail -3); echo "suite with change: $suite"
echo "$suite" | grep -q "missing=0" || ok=0
cp "$src/demo${n}_test.go" "$d/zz_seed_demo_test.go"
with=$(cd "$d" && timeout 300 go test -vet=off -count=1 -run "TestSeedDemo$n" . 2>&1 | tail -1)
echo "demo with change: $with"
echo "$with" | grep -q "^ok" && ok=0
(cd "$d" && patch -p1 -R -s < "$src/change$n.diff")
without=$(cd "$d" && timeout 300 go test -vet=off -count=1 -run "TestSeedDemo$n" . 2>&1 | tail -1)
echo "demo without change: $without"
echo "$without" | grep -q "^ok" || ok=0
rm -f "$d/zz_seed_demo_test.go"
(cd "$d" && patch -p1 -s < "$src/change$n.diff")
results=""
for c in "$@"; do
  out=$(VERIF_DIR=$here VERIF_REPO=$d timeout 3000 "$here/bin/vcheck" "$c" --tier "${TIER:-quick}" 2>&1); rc=$?
  nv=$(echo "$out" | grep -c '^VIOLATION')
  if [ $rc -eq 1 ] && [ "$nv" -gt 0 ]; then r="CAUGHT"; else r="MISSED(rc=$rc)"; fi
  echo "$r $c :: $(echo "$out" | grep -A1 '^VIOLATION' | sed -n 2p | cut -c1-260)"
  results="$results $c=$r"
done
rm -rf "$d"
if [ $ok -eq 1 ]; then
  t="$here/seeded/$prop-$n"; mkdir -p "$t"
  cp "$src/change$n.diff" "$t/patch.diff"; cp "$src/demo${n}_test.go" "$t/demo_test.go"; cp "$src/meta$n.txt" "$t/notes.txt" 2>/dev/null
  python3 - "$t" "$prop" "$results" "$suite" "$with" "$without" <<'PY'
import json,sys,os
t,prop,results,suite,w,wo=sys.argv[1:7]
meta={"property":prop,"breaks":open(os.path.join(t,"notes.txt")).read() if os.path.exists(os.path.join(t,"notes.txt")) else "",
 "confirmed":{"suite_with_change":suite.strip(),"demo_with_change":w.strip(),"demo_without_change":wo.strip()},
 "checks_run":results.strip(),"how":"scripts/confirm_seed.sh (scratch copy of /repo, never /repo itself)"}
json.dump(meta,open(os.path.join(t,"meta.json"),"w"),indent=1)
PY
  echo "CONFIRMED -> $t ($results )"
else
  echo "NOT-CONFIRMED (kept nothing)"
fi
