import json,os,glob,re,sys,subprocess
props={}
for l in open('/verif/properties.jsonl'):
    p=json.loads(l); props[p['id']]=p
tmpl=open('/verif/docs/SEED_PROMPT.txt').read()
for pid in sys.argv[1:]:
    p=props[pid]; wt=os.environ.get('WAVE_PREFIX','/tmp/seed3-')+pid
    txt=tmpl.replace('{WT}',wt).replace('{PID}',pid).replace('{TITLE}',p['title']).replace('{STATEMENT}',p['statement']).replace('{QUANT}',p['quantifier']['text'])
    prev=[]
    for d in sorted(glob.glob('/verif/seeded/%s-*'%pid)):
        n=open(d+'/notes.txt').read().strip().replace('\n',' ')
        n=re.sub(r'\s+',' ',n)
        prev.append(n[:330])
    letters='abcdefghij'
    lst=' '.join('(%s) %s ...;'%(letters[i],x) for i,x in enumerate(prev))
    txt+='''

Additional constraints for this round: %d changes have already been produced for this property by other people; yours must differ from ALL of them in mechanism AND location: %s Look for other places where the property can break: other opcodes/builtins/data paths the statement covers, interactions between two features, state kept across calls, boundary sizes, rarely used API entry points. Run the suite as `go test -vet=off -count=1 . ./engine/... ./cmd/...` (so that out/ is not picked up as a package) and run it twice. Note that engine's TestEnv_Lookup depends on the global variable counter: a change that alters how many variables are created while an interpreter boots or a clause is called makes it fail - avoid such changes. The current HEAD already contains a number of recent `fix:` commits; do not simply revert one of them (see `git log`).
'''%(len(prev),lst)
    open(os.environ.get('PROMPT_DIR','/tmp/seedprompts3')+'/%s.txt'%pid,'w').write(txt)
    subprocess.run(['git','-C','/repo','worktree','add','--detach',wt,'HEAD'],capture_output=True)
    print(pid,len(txt),os.path.isdir(wt))
