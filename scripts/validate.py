#!/usr/bin/env python3
import json, sys, glob, jsonschema
jsonschema.validate(json.load(open('/verif/MANIFEST.json')), json.load(open('/root/.vp/MANIFEST.schema.json')))
print('manifest valid')
sch = json.load(open('/root/.vp/EVIDENCE.schema.json'))
for f in sorted(glob.glob('/verif/evidence/*.json')):
    try:
        jsonschema.validate(json.load(open(f)), sch); print(f, 'valid')
    except Exception as e:
        print(f, 'INVALID', str(e)[:300]); sys.exit(1)
