#!/bin/bash
# usage: c07_try_mutant.sh <mutant.diff>...   (env TIER=quick|thorough, SUITE=1 to also run the repo's tests)
# C07 fires on the unchanged tree (genuine defects), so a seeded change can only be judged on a REPAIRED
# copy: copies /repo to a scratch directory, applies every fixes/C07_*.diff, then the mutant, runs C07 against
# that copy and removes it. Prints CAUGHT / MISSED per mutant. With no argument it only checks that C07 is
# silent on the repaired copy.
set -u
here=$(cd "$(dirname "$0")/.." && pwd)
. "$here/scripts/env.sh"
export VERIF_DIR=$here
run_one() {
  local patch=$1 d
  d=$(mktemp -d /tmp/c07mut-XXXXXX)
  rsync -a --exclude .git /repo/ "$d/"
  for f in "$here"/fixes/C07_*.diff; do
    (cd "$d" && patch -p1 -s < "$f") || { echo "FIX-DOES-NOT-APPLY $f"; rm -rf "$d"; return 3; }
  done
  if [ -n "$patch" ]; then
    (cd "$d" && patch -p1 -s < "$patch") || { echo "PATCH-FAILED $patch"; rm -rf "$d"; return 3; }
  fi
  (cd "$d" && go build ./...) || { echo "DOES-NOT-BUILD $patch"; rm -rf "$d"; return 3; }
  local suite=""
  if [ "${SUITE:-0}" = 1 ]; then
    suite=" suite_failures=[$(cd "$d" && go test -count=1 ./... 2>&1 | grep -E '^ *--- FAIL' | grep -v TestOpen | sed 's/ *--- FAIL: //; s/ (.*//' | tr '\n' ' ')]"
  fi
  out=$(VERIF_REPO=$d timeout 3000 "$here/bin/vcheck" C07 --tier "${TIER:-quick}" 2>&1); rc=$?
  nv=$(echo "$out" | grep -c '^VIOLATION')
  name=$(basename "${patch:-<repaired copy, no mutant>}")
  if [ -z "$patch" ]; then
    if [ $rc -eq 0 ]; then echo "SILENT on the repaired copy :: $(echo "$out" | tail -1 | cut -c1-200)"; else echo "NOT-SILENT on the repaired copy rc=$rc violations=$nv :: $(echo "$out" | grep -A1 '^VIOLATION' | sed -n 2p | cut -c1-260)"; fi
  elif [ $rc -eq 1 ] && [ "$nv" -gt 0 ]; then echo "CAUGHT $name rc=$rc violations=$nv$suite :: $(echo "$out" | grep -A1 '^VIOLATION' | sed -n 2p | cut -c1-260)";
  else echo "MISSED $name rc=$rc$suite :: $(echo "$out" | tail -1 | cut -c1-200)"; fi
  rm -rf "$d"
}
if [ $# -eq 0 ]; then run_one ""; fi
for p in "$@"; do run_one "$(readlink -f "$p")"; done
