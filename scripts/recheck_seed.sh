#!/bin/bash
# usage: recheck_seed.sh <seeded/<id>> <check> [<check>...] — re-runs the named checks against a stored seeded change (scratch copy)
# and records the outcome in its meta.json ("checks_run").
here=$(cd "$(dirname "$0")/.." && pwd)
d=$(readlink -f "$1"); shift
res=""
for c in "$@"; do
  out=$("$here/scripts/try_patch.sh" "$d/patch.diff" "$c" 2>&1 | tail -1)
  echo "$(basename $d): $out" | cut -c1-300
  case "$out" in CAUGHT*) res="$res $c=CAUGHT";; *) res="$res $c=MISSED";; esac
done
python3 - "$d/meta.json" "$res" <<'PY'
import json,sys
p,res=sys.argv[1],sys.argv[2].strip()
m=json.load(open(p)); old=m.get("checks_run","")
if old and old!=res: m["checks_run_first"]=m.get("checks_run_first",old)
m["checks_run"]=res
json.dump(m,open(p,"w"),indent=1)
PY
