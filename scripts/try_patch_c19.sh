#!/bin/bash
# usage: try_patch_c19.sh <mutant.diff>   (env TIER=quick|thorough)
# The C19 mutants (selfcheck/c19_*.diff) are written against the REPAIRED tree: on the unchanged tree C19
# fires anyway, so a mutant could not be told from the defects already there. This script copies /repo,
# applies those of fixes/C19_*.diff that are not in the tree yet (in dependency order), then the mutant,
# runs C19 against the copy and removes it. Prints CAUGHT / MISSED like try_patch.sh.
set -u
here=$(cd "$(dirname "$0")/.." && pwd)
patch=$(readlink -f "$1")
d=$(mktemp -d /tmp/mut-XXXXXX)
rsync -a --exclude .git /repo/ "$d/"
for f in C19_deferred_unread C19_read_after_eof C19_unread_at_end_of_stream; do
  if (cd "$d" && patch -p1 -s --dry-run < "$here/fixes/$f.diff" >/dev/null 2>&1); then
    (cd "$d" && patch -p1 -s < "$here/fixes/$f.diff")
  fi
done
if ! (cd "$d" && patch -p1 -s < "$patch"); then echo "PATCH-FAILED $patch"; rm -rf "$d"; exit 3; fi
. "$here/scripts/env.sh"
if ! (cd "$d" && go build ./... ) ; then echo "DOES-NOT-BUILD $patch"; rm -rf "$d"; exit 3; fi
out=$(VERIF_DIR=$here VERIF_REPO=$d timeout 3000 "$here/bin/vcheck" C19 --tier "${TIER:-quick}" 2>&1); rc=$?
nv=$(echo "$out" | grep -c '^VIOLATION')
if [ $rc -eq 1 ] && [ "$nv" -gt 0 ]; then echo "CAUGHT C19 rc=$rc :: $(echo "$out" | tail -1 | cut -c1-200) :: $(echo "$out" | grep -A1 '^VIOLATION' | sed -n 2p | cut -c1-300)";
else echo "MISSED C19 rc=$rc :: $(echo "$out" | tail -1 | cut -c1-300)"; fi
rm -rf "$d"
