#!/bin/bash
# usage: confirm_wave.sh <worktree prefix, e.g. /tmp/seed3-> <property> [checks...] — the changes in <prefix><property>/out get
# the next free numbers under /verif/seeded/<property>-<n>
pre=$1; prop=$2; shift 2
checks=${*:-$prop}
here=$(cd "$(dirname "$0")/.." && pwd)
d=$pre$prop/out; w=$pre$prop/outw; mkdir -p $w
for i in 1 2; do [ -f $d/change$i.diff ] || continue
  j=1; while [ -d "$here/seeded/$prop-$j" ]; do j=$((j+1)); done
  cp $d/change$i.diff $w/change$j.diff; sed "s/TestSeedDemo$i\b/TestSeedDemo$j/g" $d/demo${i}_test.go > $w/demo${j}_test.go; cp $d/meta$i.txt $w/meta$j.txt
  echo "##### $prop-$j (change $i)"; "$here/scripts/confirm_seed.sh" $prop $w $j $checks 2>&1 | cut -c1-500
done
