#!/bin/bash
# Runs the repository's suite with the verif guard OFF and compares with /root/.vp/BASELINE.json:
# every stable_pass test must pass. Exit 0 iff so. Tests that are missing after the first run are re-run
# (up to twice): TestNew_variableNames and a few others use 10 ms context deadlines and are flaky on a
# loaded machine.
. /verif/scripts/env.sh
REPO=${VERIF_REPO:-/repo}
out=$(mktemp)
(cd "$REPO" && go test -mod=mod -json -vet=off -count=1 -timeout 25m ./... > "$out" 2>/dev/null)
for attempt in 1 2; do
  missing=$(python3 - "$out" <<'PY'
import json,sys
passed=set()
for l in open(sys.argv[1]):
    try: e=json.loads(l)
    except Exception: continue
    if e.get('Action')=='pass' and e.get('Test'):
        passed.add(e['Package']+'::'+e['Test'])
b=json.load(open('/root/.vp/BASELINE.json'))
tops=sorted({t.split('::')[0]+'::'+t.split('::')[1].split('/')[0] for t in b['stable_pass'] if t not in passed})
print(' '.join(tops))
PY
)
  [ -z "$missing" ] && break
  for t in $missing; do
    pkg=${t%%::*}; name=${t##*::}
    (cd "$REPO" && go test -mod=mod -json -vet=off -count=1 -run "^${name}\$" "$pkg" >> "$out" 2>/dev/null)
  done
done
python3 - "$out" <<'PY'
import json,sys
passed=set()
for l in open(sys.argv[1]):
    try: e=json.loads(l)
    except Exception: continue
    if e.get('Action')=='pass' and e.get('Test'):
        passed.add(e['Package']+'::'+e['Test'])
b=json.load(open('/root/.vp/BASELINE.json'))
missing=[t for t in b['stable_pass'] if t not in passed]
print(f"baseline stable_pass={len(b['stable_pass'])} passed_now={len(passed)} missing={len(missing)}")
for t in missing[:40]: print("MISSING", t)
sys.exit(1 if missing else 0)
PY
rc=$?
rm -f "$out"
exit $rc
