# offline Go environment for everything under /verif
export GOFLAGS=-mod=mod GOPROXY=off GOSUMDB=off GOTOOLCHAIN=local
export CGO_ENABLED=${CGO_ENABLED:-1}
