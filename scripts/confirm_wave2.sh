#!/bin/bash
# usage: confirm_wave2.sh <property> [checks...]  — second-wave seeds in /tmp/seed2-<property>/out become <property>-3 and -4
prop=$1; shift
checks=${*:-$prop}
d=/tmp/seed2-$prop/out; w=/tmp/seed2-$prop/outw2; mkdir -p $w
for i in 1 2; do j=$((i+2)); [ -f $d/change$i.diff ] || continue
  cp $d/change$i.diff $w/change$j.diff; sed "s/TestSeedDemo$i/TestSeedDemo$j/g" $d/demo${i}_test.go > $w/demo${j}_test.go; cp $d/meta$i.txt $w/meta$j.txt
  echo "##### $prop-$j"; "$(dirname "$0")/confirm_seed.sh" $prop $w $j $checks 2>&1 | cut -c1-420
done
