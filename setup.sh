#!/bin/bash
# Builds the controller from files on disk only (offline). The worker is rebuilt by every check from the
# current working tree of /repo.
set -e
cd "$(dirname "$0")"
. scripts/env.sh
mkdir -p bin evidence replay
go build -o bin/vcheck ./cmd/vcheck
