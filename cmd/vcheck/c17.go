package main

import (
	"fmt"
	"math/rand"

	"verif/internal/ref"
	"verif/internal/run"
	"verif/internal/term"
)

func init() { checks["C17"] = func() Check { return &c17{} } }

type c17 struct{}

func (*c17) ID() string    { return "C17" }
func (*c17) Level() string { return "exploration" }
func (*c17) Rule() string {
	return "seeded random grammars: 1-4 non-terminals (0-1 arguments building parse trees), 1-3 rules each, bodies over terminals [a] [b] [a,b] [c] [], double-quoted strings, non-terminal calls (rank-increasing on the left so that grammars are not left-recursive), ',' (left- and right-nested), ';', '|', {}//1, \\+//1, !//0 (as an element of the rule's top-level sequence or of a top-level alternative: the cut placements this engine supports, see C03), call//N, if-then(-else), push-back heads; each grammar is loaded as text (consult) or through expand_term/2+assertz/1 and run on ALL lists over {a,b} of length <=4 (31) plus lists containing c, in recognition mode phrase/2, remainder mode phrase/3 and generation mode (unbound elements, length <=3); engine answers must equal, as sequences, those of the reference interpreter running the ISO-draft translation. Non-trivial: the grammar uses >=2 constructs beyond sequence and accepts >=1 and rejects >=1 input; distinct by grammar hash."
}
func (*c17) Assumptions() []string {
	return []string{
		"reference DCG translation follows the 2019 ISO draft (dcg_rule/dcg_body) and runs on the reference interpreter where ',' is associative; self-tested on pinned examples each run",
		"!//0 nested inside a parenthesised alternation/if-then-else that is itself an element of a sequence is not generated (such cuts are local in this engine; placements outside the scope C03 states)",
	}
}

type c17Gen struct {
	r        *rand.Rand
	arity    []int // arity of n0..nk-1
	nv       int64
	used     map[string]bool
	consumed bool
}

func (g *c17Gen) use(c string) { g.used[c] = true }

func (g *c17Gen) terminal() *term.Term {
	switch g.r.Intn(8) {
	case 0, 1:
		return term.L(term.A("a"))
	case 2, 3:
		return term.L(term.A("b"))
	case 4:
		return term.L(term.A("a"), term.A("b"))
	case 5:
		return term.L(term.A("c"))
	case 6:
		g.use("string")
		return term.WithRep(term.L(term.A([]string{"a", "b"}[g.r.Intn(2)]), term.A([]string{"a", "b"}[g.r.Intn(2)])), "string")
	default:
		g.use("empty")
		return term.Nil
	}
}

func (g *c17Gen) v() *term.Term {
	if g.nv > 0 && g.r.Intn(3) > 0 {
		return term.V(int64(g.r.Intn(int(g.nv))))
	}
	g.nv++
	return term.V(g.nv - 1)
}

func (g *c17Gen) argTerm() *term.Term {
	switch g.r.Intn(5) {
	case 0:
		return term.A([]string{"x", "y"}[g.r.Intn(2)])
	case 1:
		return term.C("t", g.v(), g.v())
	default:
		return g.v()
	}
}

func (g *c17Gen) nt(rank int) *term.Term {
	var j int
	if g.consumed {
		j = g.r.Intn(len(g.arity))
	} else {
		if rank+1 >= len(g.arity) {
			g.consumed = true
			return g.terminal()
		}
		j = rank + 1 + g.r.Intn(len(g.arity)-rank-1)
	}
	args := make([]*term.Term, g.arity[j])
	for i := range args {
		args[i] = g.argTerm()
	}
	return term.C(fmt.Sprintf("n%d", j), args...)
}

func (g *c17Gen) curly() *term.Term {
	g.use("{}")
	switch g.r.Intn(6) {
	case 0:
		return term.C("{}", term.A("true"))
	case 1:
		return term.C("{}", term.A("fail"))
	case 2:
		return term.C("{}", term.C(",", term.C("=", g.v(), term.A("x")), term.C("=", g.v(), g.v())))
	default:
		return term.C("{}", term.C("=", g.v(), term.A([]string{"x", "y", "z"}[g.r.Intn(3)])))
	}
}

// elem is one element of a sequence; top tells whether a cut may be placed here.
func (g *c17Gen) elem(depth, rank int, top bool) *term.Term {
	k := g.r.Intn(100)
	switch {
	case k < 30:
		t := g.terminal()
		if !t.IsAtom("[]") {
			g.consumed = true
		}
		return t
	case k < 50:
		return g.nt(rank)
	case k < 58:
		return g.curly()
	case k < 64 && top:
		g.use("!")
		return term.A("!")
	case depth <= 0:
		t := g.terminal()
		if !t.IsAtom("[]") {
			g.consumed = true
		}
		return t
	case k < 74:
		g.use(";")
		c := g.consumed
		l := g.seq(depth-1, rank, false)
		cl := g.consumed
		g.consumed = c
		r := g.seq(depth-1, rank, false)
		g.consumed = cl && g.consumed
		op := ";"
		if g.r.Intn(3) == 0 {
			op = "|"
			g.use("|")
		}
		return term.C(op, l, r)
	case k < 80:
		g.use("\\+")
		c := g.consumed
		b := g.seq(depth-1, rank, false)
		g.consumed = c
		return term.C("\\+", b)
	case k < 87:
		g.use("->")
		c := g.consumed
		cond := g.seq(depth-1, rank, false)
		then := g.seq(depth-1, rank, false)
		ct := g.consumed
		if g.r.Intn(3) == 0 {
			g.consumed = c
			return term.C("->", cond, then)
		}
		g.consumed = c
		els := g.seq(depth-1, rank, false)
		g.consumed = ct && g.consumed
		return term.C(";", term.C("->", cond, then), els)
	case k < 94:
		g.use("call//N")
		n := g.nt(rank)
		if n.IsList() || n.IsAtom("[]") {
			return n
		}
		// call(Closure, ExtraArgs...): split the non-terminal's arguments
		cut := 0
		if len(n.Args) > 0 {
			cut = g.r.Intn(len(n.Args) + 1)
		}
		clos := term.C(n.S, n.Args[:cut]...)
		return term.C("call", append([]*term.Term{clos}, n.Args[cut:]...)...)
	default:
		g.use("nested,")
		return g.seq(depth-1, rank, false)
	}
}

func (g *c17Gen) seq(depth, rank int, top bool) *term.Term {
	n := 1 + g.r.Intn(3)
	es := make([]*term.Term, n)
	for i := range es {
		es[i] = g.elem(depth, rank, top)
	}
	if g.r.Intn(4) == 0 && n >= 3 {
		// left-nested conjunction
		t := es[0]
		for i := 1; i < n; i++ {
			t = term.C(",", t, es[i])
		}
		return t
	}
	t := es[n-1]
	for i := n - 2; i >= 0; i-- {
		t = term.C(",", es[i], t)
	}
	return t
}

func (g *c17Gen) grammar() []*term.Term {
	np := 1 + g.r.Intn(4)
	g.arity = make([]int, np)
	for i := 1; i < np; i++ {
		g.arity[i] = g.r.Intn(2)
	}
	g.arity[0] = 1
	var rules []*term.Term
	for i := 0; i < np; i++ {
		nr := 1 + g.r.Intn(3)
		for k := 0; k < nr; k++ {
			g.nv = 0
			g.consumed = false
			args := make([]*term.Term, g.arity[i])
			for j := range args {
				args[j] = g.argTerm()
			}
			head := term.C(fmt.Sprintf("n%d", i), args...)
			var body *term.Term
			pushback := g.r.Intn(8) == 0
			if g.r.Intn(5) == 0 && !pushback {
				// top-level alternatives, each a top-level sequence
				g.use(";")
				c := g.consumed
				l := g.seq(2, i, true)
				if l.IsCmp("->", 2) {
					// (C -> T) ; R would be an if-then-else, whose else branch is not a top-level alternative
					l = term.C(",", l, term.Nil)
				}
				g.consumed = c
				body = term.C(";", l, g.seq(2, i, true))
			} else {
				body = g.seq(2, i, true)
			}
			if pushback {
				g.use("pushback")
				head = term.C(",", head, term.L(term.A([]string{"a", "b"}[g.r.Intn(2)])))
			}
			rules = append(rules, term.C("-->", head, body))
		}
	}
	return rules
}

func c17Inputs() []*term.Term {
	var out []*term.Term
	var rec func(prefix []*term.Term, n int)
	rec = func(prefix []*term.Term, n int) {
		out = append(out, term.L(prefix...))
		if n == 0 {
			return
		}
		for _, s := range []string{"a", "b"} {
			rec(append(append([]*term.Term{}, prefix...), term.A(s)), n-1)
		}
	}
	rec(nil, 4)
	out = append(out, term.MustParse("[c]"), term.MustParse("[a,c]"), term.MustParse("[c,a,b]"), term.MustParse("[a,b,c]"))
	return out
}

type c17Meta struct {
	c01Meta
	Constructs []string `json:"constructs"`
}

func (c *c17) Generate(cx *Ctx, chunk int) []*Item {
	if chunk > 0 {
		return nil
	}
	if err := refSelfTest(); err != nil {
		cx.Note("reference self-test failed: " + err.Error())
		return nil
	}
	n := 3000
	if cx.Thorough() {
		n = 60000
	}
	inputs := term.L(c17Inputs()...)
	skeletons := term.MustParse("[[], [_], [_,_], [_,_,_]]")
	flags := [][2]string{{"double_quotes", "chars"}}
	var metas []*DiffMeta
	fixed := []string{
		"n0(x) --> [a], !, [b]. n0(y) --> [a], [c].",
		"n0(x) --> [a], n1(_). n1(1) --> [b]. n1(0) --> [c].",
		"n0(x) --> \\+ [a], [b].",
		"n0(x), [a] --> [b].",
		"n0(x) --> ([a] ; [b]), n1. n1 --> [] | [c].",
		"n0(X) --> call(n1, X). n1(x) --> [a]. n1(y) --> [b].",
		"n0(X) --> ([a] -> {X = x} ; {X = y}), [b].",
		"n0(X) --> {X = x}, [a] ; {X = y}, !, [b] ; {X = z}.",
	}
	for _, f := range fixed {
		rules := term.MustProgram(f)
		for mode := 0; mode < 3; mode++ {
			metas = append(metas, c17Query(rules, mode, inputs, skeletons, flags, false, "fixed"))
		}
	}
	for i := 0; i < n; i++ {
		g := &c17Gen{r: cx.Rng(fmt.Sprintf("c17/%d", i)), used: map[string]bool{}}
		rules := g.grammar()
		m := c17Query(rules, i%3, inputs, skeletons, flags, i%5 == 4, "random")
		metas = append(metas, m)
	}
	return prepareDiffItems(metas, 40000, ref.Options{})
}

func c17Query(rules []*term.Term, mode int, inputs, skeletons *term.Term, flags [][2]string, viaExpand bool, family string) *DiffMeta {
	L, T, R := term.V(0), term.V(1), term.V(2)
	var q *term.Term
	nv := 2
	switch mode {
	case 0: // recognition
		q = term.C(",", term.C("member", L, inputs), term.C("phrase", term.C("n0", T), L))
	case 1: // remainder
		q = term.C(",", term.C("member", L, inputs), term.C("phrase", term.C("n0", T), L, R))
		nv = 3
	default: // generation: list skeletons with unbound elements (variables numbered from 10)
		sk := term.Map(skeletons, func(id int64) *term.Term { return term.V(id + 10) })
		q = term.C(",", term.C("member", L, sk), term.C("phrase", term.C("n0", T), L))
	}
	return &DiffMeta{Program: rules, Query: q, NVars: nv, QVars: []int64{0, 1, 2}[:nv], Max: 400, Family: family, Assert: viaExpand, Flags: flags}
}

func c17Constructs(rules []*term.Term) map[string]bool {
	used := map[string]bool{}
	var walk func(t *term.Term)
	walk = func(t *term.Term) {
		if t.K != term.KCmp && t.K != term.KAtom {
			return
		}
		switch {
		case t.IsCmp(";", 2), t.IsCmp("|", 2), t.IsCmp("->", 2), t.IsCmp("\\+", 1), t.IsCmp("{}", 1):
			used[t.S] = true
		case t.IsAtom("!"):
			used["!"] = true
		case t.K == term.KCmp && t.S == "call":
			used["call//N"] = true
		case t.IsList() && t.Rep == "string":
			used["string"] = true
		}
		if t.IsList() {
			return
		}
		for _, a := range t.Args {
			walk(a)
		}
	}
	for _, r := range rules {
		if r.Args[0].IsCmp(",", 2) {
			used["pushback"] = true
		}
		walk(r.Args[1])
	}
	return used
}

func (c *c17) Judge(cx *Ctx, it *Item, outs []*run.Outcome) Verdict {
	var m c01Meta
	if err := decodeMeta(it, &m); err != nil {
		return Verdict{Status: Inconclusive, Msg: err.Error()}
	}
	o, err := m.refRun(m.RefBudget, ref.Options{})
	if err != nil {
		return Verdict{Status: Inconclusive, Msg: err.Error()}
	}
	r := compareRun(&m.DiffMeta, o, outs[0], false)
	v := Verdict{Status: r.Status, Msg: r.Msg}
	used := c17Constructs(m.Program)
	// accepted / rejected inputs
	accepted := map[string]bool{}
	for _, a := range o.Answers {
		accepted[a[0].String()] = true
	}
	v.NonTrivial = len(used) >= 2 && len(accepted) >= 1 && len(accepted) < 35
	v.Extra = map[string]int64{"answers_compared": int64(len(o.Answers)), "family_" + m.Family: 1}
	for k := range used {
		v.Extra["construct_"+k]++
	}
	if m.Assert {
		v.Extra["via_expand_term"] = 1
	}
	prog := programText(m.Program)
	v.Sample = map[string]interface{}{"grammar": prog, "query": term.Text(m.Query, qvar), "expected": r.Expected, "observed": r.Observed}
	if v.Status == Violated {
		v.Msg = fmt.Sprintf("%s | grammar: %s | query: %s", r.Msg, oneLine(prog), oneLine(term.Text(m.Query, qvar)))
	}
	return v
}
