package main

import (
	"bytes"
	"compress/gzip"
	"encoding/binary"
	"encoding/json"
	"fmt"
	"io"
	"os"
	"path/filepath"
	"regexp"
	"sort"
	"strings"
	"sync"
	"time"

	"verif/internal/proto"
	"verif/internal/run"
)

// C14 — separate interpreters are isolated and run concurrently without data races.
//
// Everything is decided from what the race-instrumented worker observed:
//  (1) the report blocks the Go race detector wrote while the case ran (zero expected),
//  (2) per interpreter, the answers / errors / output of every script step in every later pass against the
//      FIRST lone run of the same script in the same process (variables renamed canonically),
//  (3) the raw values engine.NewAtom / Atom.String / engine.NewVariable returned to the goroutines,
//  (4) for the isolation matrix, (2) applied to an observer battery in I2 while / after I1 mutates its state.

func init() { checks["C14"] = func() Check { return &c14{seenRace: map[string]bool{}} } }

type c14 struct {
	mu       sync.Mutex
	seenRace map[string]bool
}

func (*c14) ID() string                 { return "C14" }
func (*c14) Level() string              { return "exploration" }
func (*c14) WantsRace(tier string) bool { return true }

func (*c14) Rule() string {
	return "Worker built with -race (GORACE halt_on_error=0, reports shipped from the log file), one worker process per case. " +
		"WORKLOAD items (quick 75 = 300 rounds, thorough 1500 = 6000 rounds; a pure function of seed and tier): N in {2,4,8,16} interpreters, one goroutine each, GOMAXPROCS in {2,4,16}. " +
		"Every script is first run alone in a fresh interpreter (baseline), then all scripts run concurrently 4 times (= 4 rounds), released together by a spin barrier. " +
		"A script: prolog.New (bootstrap load), Exec of a generated C01-style program + its query, directives that define operators / double_quotes / unknown / char_conversion / dynamic clauses DIFFERENTLY per goroutine under IDENTICAL names, " +
		"atom minting from Prolog (atom_concat, atom_codes, atom_chars, sub_atom: names shared by all goroutines of the round and private names, all never interned before the round), variable-heavy goals (length, functor, copy_term, findall, setof, bagof, term_variables), " +
		"writing (writeq, write_canonical, write, write_term with variable_names / numbervars / ignore_ops, number_codes, number_chars, read_term from user_input), 10 kinds of errors rendered with Error() (shared default write options), answers scanned both through a Scanner and as TermString, " +
		"streams (open/close with the same alias in every interpreter, set_output, set_input on private files), consult; a rendezvous; then every goroutine observes its own operators, flags, clauses, conversions, aliases, current streams and re-runs its query. " +
		"After the script: 8 interning rounds (barrier, then engine.NewAtom + String on 3 never-seen names by ALL goroutines at once), 8 private names interned between script steps, a barrier-released tight loop of 256 engine.NewVariable calls, re-lookup of all shared names; " +
		"seed-determined runtime.Gosched injection from the step hook (state per API call, reached through the context). " +
		"MATRIX items (22, exhaustive): each mutator (assertz, asserta, retract, abolish, consult, Exec text, op define / redefine / remove, double_quotes atom / codes, unknown fail / warning, char_conversion flag on / off, char_conversion/2, both, open with alias, open+close with alias, set_input, set_output, all together) in I1 x each of 31 observers in I2 " +
		"(call, clause/2, current_predicate, current_op, writeq and read_term of terms using the operators, query text using =, flags and their behaviour, current_char_conversion, reading under conversion, stream aliases, writing to the alias, current_input/current_output, write, read, open files): " +
		"both scripts run alone (twice), sequentially in two orders (I1 then I2; I2 created after I1 finished), and concurrently 3 times with a rendezvous between I1's mutation and I2's second and third battery. " +
		"Oracles: zero race-report blocks (de-duplicated by the pair of innermost engine frames); every step of every later pass equals the FIRST lone run of the same script in that process after canonical variable renaming (answers, TermString, exception term, Error() text, output); NewAtom one id per name / one name per id / String() inverts, NewVariable values unique across goroutines and rounds. " +
		"Non-trivial (workload item): >=1 round in which >=2 goroutines overlapped (logical clock: one atomic counter read at release and at the end) AND >=1 fresh shared name was interned by >=2 goroutines after a common barrier. " +
		"Non-trivial (matrix item): the mutation is visible to >=1 observer inside I1 itself (observer answer in I1 after the mutation differs from the lone I2 answer) and >=1 concurrent round ran. " +
		"Fewer than 100 simultaneous-interning rounds in the whole run = broken check (exit 2)."
}

func (*c14) Assumptions() []string {
	return []string{
		"the Go race detector reports only true races (happens-before based); its absence of reports covers only the interleavings and code paths that were executed",
		"barriers and the logical clock use sync/atomic, which the detector treats as synchronisation: accesses of different goroutines are unordered only between two rendezvous points (all goroutines run the same kinds of steps in each phase)",
		"the baseline of a script is its first lone run in a fresh worker process, before any other interpreter of that process executed a lower-numbered script",
		"duplicate atom ids from a check-then-insert window need physical overlap: detection of such a defect is probabilistic per interning round (thousands of rounds per run)",
		"streams print as Go pointers (<stream>(0x..)): that text is normalised before comparison",
	}
}

func (c *c14) Tune(cx *Ctx) {
	cx.Pool.Batch = 1 // one process per case: clean global tables for the baseline, race log attributable
	if os.Getenv("VERIF_PAR") == "" {
		cx.Pool.Par = 8 // a case runs up to 16 busy goroutines itself
	}
	cx.Pool.CaseTimeout = 5 * time.Minute
	cx.Pool.MemLimit = "4GiB"
	cx.Pool.ExtraEnv = append(cx.Pool.ExtraEnv,
		"GORACE=halt_on_error=0 exitcode=0 log_path="+filepath.Join(cx.Worker.Dir, "race"))
}

// --- generation -----------------------------------------------------------------------------------------

type c14Meta struct {
	Family string           `json:"family"` // workload | matrix
	N      int              `json:"n"`
	Procs  int              `json:"procs"`
	Layout *c14MatrixLayout `json:"layout,omitempty"`
}

var c14Ns = []int{2, 4, 8, 16, 2, 4, 8, 2, 4, 2, 2, 4, 8, 2, 4, 2, 2, 4, 2, 2} // every N in every block of twenty items; small N more often (cost)
var c14Procs = []int{2, 4, 16}

const c14Reps = 4
const c14Chunk = 100
const c14MinCollisions = 100

func (c *c14) Generate(cx *Ctx, chunk int) []*Item {
	nWork := 75 // x 4 repetitions = 300 rounds
	if cx.Thorough() {
		nWork = 1500 // 6000 rounds
	}
	lo := chunk * c14Chunk
	if lo >= nWork {
		// end of the run: the interning contention the property is about must actually have been produced
		cx.mu.Lock()
		if cx.extra["simultaneous_interning_rounds"] < c14MinCollisions {
			cx.notes = append(cx.notes, fmt.Sprintf("BROKEN: only %d simultaneous-interning rounds were observed (need >= %d); non-trivial count reset", cx.extra["simultaneous_interning_rounds"], c14MinCollisions))
			cx.nontrivial = map[[8]byte]struct{}{}
		}
		cx.mu.Unlock()
		return nil
	}
	var items []*Item
	if chunk == 0 {
		items = append(items, c.matrixItems(cx)...)
		cx.exhaustive = true // the whole mutator x observer matrix is enumerated (the workload is sampled)
	}
	hi := lo + c14Chunk
	if hi > nWork {
		hi = nWork
	}
	for i := lo; i < hi; i++ {
		items = append(items, c.workloadItem(cx, i))
	}
	return items
}

func c14Item(pl *proto.ConcPayload, files map[string]string, meta *c14Meta, note string) *Item {
	p, _ := json.Marshal(pl)
	m, _ := json.Marshal(meta)
	return &Item{Cases: []*proto.Case{{Kind: "concurrent", Files: files, P: p}}, Meta: m, Note: note}
}

func (c *c14) workloadItem(cx *Ctx, i int) *Item {
	r := cx.Rng(fmt.Sprintf("c14/work/%d", i))
	n := c14Ns[i%len(c14Ns)]
	procs := c14Procs[(i/len(c14Ns)+i%len(c14Ns))%len(c14Procs)]
	pl := &proto.ConcPayload{Procs: procs, Reps: c14Reps, Tag: fmt.Sprintf("zq%dw%d", cx.Seed%1000, i),
		Micro: 8, Batch: 3, Private: 8, Vars: 256, Sched: int64(16 << uint(r.Intn(6))), Seed: r.Uint64(), Budget: 400_000}
	files := map[string]string{}
	for g := 0; g < n; g++ {
		sc, fs := c14WorkloadScript(r, g, n)
		pl.Scripts = append(pl.Scripts, sc)
		for k, v := range fs {
			files[k] = v
		}
	}
	return c14Item(pl, files, &c14Meta{Family: "workload", N: n, Procs: procs},
		fmt.Sprintf("workload: %d interpreters, GOMAXPROCS=%d", n, procs))
}

func (c *c14) matrixItems(cx *Ctx) []*Item {
	muts := append([]c14Named(nil), c14Mutators...)
	all := c14Named{Name: "all mutators"}
	for _, m := range c14Mutators {
		all.Steps = append(all.Steps, m.Steps...)
	}
	muts = append(muts, all)
	var items []*Item
	for i, m := range muts {
		r := cx.Rng(fmt.Sprintf("c14/matrix/%d", i))
		scripts, lay := c14MatrixScripts(m)
		procs := c14Procs[i%len(c14Procs)]
		pl := &proto.ConcPayload{Procs: procs, Reps: 3, Tag: fmt.Sprintf("zq%dm%d", cx.Seed%1000, i), Seq: true, Scripts: scripts,
			Micro: 2, Batch: 3, Private: 2, Vars: 32, Sched: 32, Seed: r.Uint64(), Budget: 400_000}
		items = append(items, c14Item(pl, c14MatrixFiles, &c14Meta{Family: "matrix", N: 2, Procs: procs, Layout: &lay},
			"isolation matrix: "+m.Name+" in I1 x observer battery in I2"))
	}
	// the standard streams, with interpreters that own a reader and a writer and with interpreters that have none
	for vi, nilIO := range []bool{false, true} {
		for i, m := range c14StdMutators {
			r := cx.Rng(fmt.Sprintf("c14/stdmatrix/%d/%d", vi, i))
			scripts, lay := c14MatrixScriptsOf(m, c14StdObservers, nilIO)
			procs := c14Procs[(i+vi)%len(c14Procs)]
			what := "own reader and writer"
			if nilIO {
				what = "prolog.New(nil, nil)"
			}
			pl := &proto.ConcPayload{Procs: procs, Reps: 3, Tag: fmt.Sprintf("zq%ds%d%d", cx.Seed%1000, vi, i), Seq: true, Scripts: scripts,
				Micro: 2, Batch: 3, Private: 2, Vars: 32, Sched: 32, Seed: r.Uint64(), Budget: 400_000}
			items = append(items, c14Item(pl, c14MatrixFiles, &c14Meta{Family: "matrix", N: 2, Procs: procs, Layout: &lay},
				"isolation matrix (standard streams, "+what+"): "+m.Name+" in I1 x observer battery in I2"))
		}
	}
	return items
}

// --- normalisation ------------------------------------------------------------------------------------------

var c14StreamRe = regexp.MustCompile(`<stream>\(0x[0-9a-f]+\)`)

func c14IsWord(b byte) bool {
	return b == '_' || b >= '0' && b <= '9' || b >= 'a' && b <= 'z' || b >= 'A' && b <= 'Z'
}

// c14CanonVars renames variable tokens — _G<n> in tree text, _<n> in text written by the engine — in order of
// first occurrence. Quoted atoms are left alone.
func c14CanonVars(s string) string {
	if !strings.Contains(s, "_") {
		return s
	}
	var sb strings.Builder
	names := map[string]int{}
	inQ := false
	for i := 0; i < len(s); {
		ch := s[i]
		if inQ {
			sb.WriteByte(ch)
			i++
			if ch == '\\' && i < len(s) {
				sb.WriteByte(s[i])
				i++
			} else if ch == '\'' {
				inQ = false
			}
			continue
		}
		if ch == '\'' {
			// 0'c is a character literal, not the start of a quoted atom
			if !(i > 0 && s[i-1] == '0' && (i < 2 || !c14IsWord(s[i-2]))) {
				inQ = true
			}
			sb.WriteByte(ch)
			i++
			continue
		}
		if ch == '_' && (i == 0 || !c14IsWord(s[i-1])) {
			j := i + 1
			if j < len(s) && s[j] == 'G' {
				j++
			}
			k := j
			for k < len(s) && s[k] >= '0' && s[k] <= '9' {
				k++
			}
			if k > j && (k == len(s) || !c14IsWord(s[k])) {
				tok := s[i:k]
				id, ok := names[tok]
				if !ok {
					id = len(names)
					names[tok] = id
				}
				fmt.Fprintf(&sb, "_V%d", id)
				i = k
				continue
			}
		}
		sb.WriteByte(ch)
		i++
	}
	return sb.String()
}

func c14Norm(s, tag string) string {
	s = strings.ReplaceAll(s, tag, proto.ConcTagMark)
	if strings.Contains(s, "<stream>(") {
		s = c14StreamRe.ReplaceAllString(s, "<stream>")
	}
	return c14CanonVars(s)
}

func c14NormObs(o *proto.ConcObs, tag string) proto.ConcObs {
	n := proto.ConcObs{Done: o.Done, Budget: o.Budget, CloseErr: o.CloseErr}
	for _, a := range o.Ans {
		n.Ans = append(n.Ans, c14Norm(a, tag))
	}
	for _, a := range o.TS {
		n.TS = append(n.TS, c14Norm(a, tag))
	}
	n.Exc, n.ErrText, n.Out = c14Norm(o.Exc, tag), c14Norm(o.ErrText, tag), c14Norm(o.Out, tag)
	return n
}

func c14ObsText(o *proto.ConcObs) string {
	b, _ := json.Marshal(o)
	return string(b)
}

// --- race reports -------------------------------------------------------------------------------------------

type c14Race struct {
	Key    string
	Text   string
	Engine bool // at least one frame of the code under test in one of the two access stacks
}

var c14AccessRe = regexp.MustCompile(`^(Read|Write|Previous read|Previous write|Atomic read|Atomic write|Previous atomic read|Previous atomic write) at 0x[0-9a-f]+ by `)

func c14RuntimeFrame(f string) bool {
	for _, p := range []string{"runtime.", "runtime/", "sync.", "sync/", "internal/", "reflect."} {
		if strings.HasPrefix(f, p) {
			return true
		}
	}
	return false
}

// c14ParseRaces splits a race log into report blocks and keys each by the pair of innermost frames of the code
// under test in the two conflicting access stacks (function names only: no addresses, no line numbers).
func c14ParseRaces(log string) []c14Race {
	var out []c14Race
	for _, blk := range strings.Split(log, "==================") {
		if !strings.Contains(blk, "WARNING: DATA RACE") {
			continue
		}
		var tops []string
		engine := false
		lines := strings.Split(blk, "\n")
		for i := 0; i < len(lines); i++ {
			if !c14AccessRe.MatchString(lines[i]) {
				continue
			}
			// the innermost frame of the code under test; failing that, the innermost non-runtime frame
			top, topEngine := "?", ""
			for j := i + 1; j < len(lines) && strings.TrimSpace(lines[j]) != ""; j++ {
				l := lines[j]
				if !strings.HasPrefix(l, "  ") || strings.HasPrefix(l, "   ") {
					continue // file:line rows are indented deeper
				}
				f := strings.TrimSpace(l)
				if k := strings.LastIndex(f, "("); k > 0 {
					f = f[:k]
				}
				if strings.Contains(f, "github.com/ichiban/prolog") {
					engine = true
					if topEngine == "" {
						topEngine = f
					}
				}
				if top == "?" && !c14RuntimeFrame(f) {
					top = f
				}
			}
			if topEngine != "" {
				top = topEngine
			}
			tops = append(tops, top)
		}
		sort.Strings(tops)
		txt := strings.TrimSpace(blk)
		if len(txt) > 5000 {
			txt = txt[:5000] + "\n…"
		}
		out = append(out, c14Race{Key: strings.Join(tops, " <-> "), Text: txt, Engine: engine})
	}
	return out
}

func c14Decode(raw json.RawMessage, res *proto.ConcResult) error {
	var w proto.ConcWire
	if err := json.Unmarshal(raw, &w); err != nil {
		return err
	}
	zr, err := gzip.NewReader(bytes.NewReader(w.GZ))
	if err != nil {
		return err
	}
	b, err := io.ReadAll(zr)
	if err != nil {
		return err
	}
	return json.Unmarshal(b, res)
}

// --- the oracle ---------------------------------------------------------------------------------------------

type c14Sample struct {
	Item      string      `json:"item"`
	Step      string      `json:"step,omitempty"`
	Expected  interface{} `json:"expected"`
	Observed  interface{} `json:"observed"`
	Rounds    int         `json:"rounds,omitempty"`
	Sensitive []string    `json:"observers_that_see_the_mutation_inside_I1,omitempty"`
}

func c14StepText(st *proto.ConcStep) string {
	switch {
	case st.Barrier:
		return "(rendezvous)"
	case st.Exec != "":
		return "Exec: " + oneLine(st.Exec)
	default:
		return "Query: " + st.Query
	}
}

func (c *c14) Judge(cx *Ctx, it *Item, outs []*run.Outcome) Verdict {
	var meta c14Meta
	var pl proto.ConcPayload
	if err := decodeMeta(it, &meta); err != nil {
		return Verdict{Status: Inconclusive, Msg: err.Error()}
	}
	if err := json.Unmarshal(it.Cases[0].P, &pl); err != nil {
		return Verdict{Status: Inconclusive, Msg: err.Error()}
	}
	o := outs[0]
	if o.Crash != nil {
		// A dead worker cannot ship its race log; whatever the detector wrote for this run is still in the log
		// directory (live workers ship theirs, so anything not yet listed is reported here once).
		var found []string
		if cx.Worker != nil {
			files, _ := filepath.Glob(filepath.Join(cx.Worker.Dir, "race.*"))
			for _, f := range files {
				b, _ := os.ReadFile(f)
				for _, rc := range c14ParseRaces(string(b)) {
					if !rc.Engine || len(found) >= 4 {
						continue
					}
					c.mu.Lock()
					dup := c.seenRace[rc.Key]
					c.seenRace[rc.Key] = true
					c.mu.Unlock()
					if !dup {
						found = append(found, "DATA RACE "+rc.Key+"\n"+rc.Text)
					}
				}
			}
		}
		st := o.Crash.Stderr
		for _, sig := range []string{"fatal error: concurrent map", "concurrent map read and map write", "concurrent map writes", "concurrent map iteration"} {
			if strings.Contains(st, sig) {
				return Verdict{Status: Violated, Key: "crash:concurrent-map", Msg: "the worker died of unsynchronised map access while interpreters ran concurrently (" + it.Note + "): " + firstLines(st, 40) + "\n" + strings.Join(found, "\n---\n")}
			}
		}
		if len(found) > 0 {
			return Verdict{Status: Violated, Key: "crash:with-race-reports", Msg: fmt.Sprintf("worker died (%s) during %s after the race detector had reported: %s", o.Crash.Exit, it.Note, strings.Join(found, "\n---\n"))}
		}
		return Verdict{Status: Inconclusive, Msg: fmt.Sprintf("worker died (%s, hung=%v) during %s: %s", o.Crash.Exit, o.Crash.Hung, it.Note, firstLines(st, 12))}
	}
	if o.Res == nil || o.Res.Fatal != "" || len(o.Res.R) == 0 {
		msg := "no result"
		if o.Res != nil {
			msg = o.Res.Fatal
		}
		return Verdict{Status: Inconclusive, Msg: "worker: " + msg}
	}
	var res proto.ConcResult
	if err := c14Decode(o.Res.R, &res); err != nil {
		return Verdict{Status: Inconclusive, Msg: "result: " + err.Error()}
	}
	if !res.Race || !res.LogPath {
		return Verdict{Status: Inconclusive, Msg: "the worker ran without the race detector or without a race log: nothing can be decided"}
	}
	if len(res.Passes) < 2 || res.Passes[0].Kind != "alone" {
		return Verdict{Status: Inconclusive, Msg: "incomplete result"}
	}

	extra := map[string]int64{}
	var problems []string
	var inconcl []string
	key := ""
	addProblem := func(k, msg string) {
		if key == "" {
			key = k
		}
		if len(problems) < 8 {
			problems = append(problems, msg)
		}
	}

	// (1) race reports
	races := c14ParseRaces(res.RaceLog)
	extra["race_report_blocks"] = int64(len(races))
	if res.RaceBytes > len(res.RaceLog) {
		extra["race_log_truncated"] = 1
	}
	inThisItem := map[string]bool{}
	for _, rc := range races {
		if inThisItem[rc.Key] {
			continue
		}
		inThisItem[rc.Key] = true
		if !rc.Engine {
			inconcl = append(inconcl, "race report without any frame of the code under test (harness?): "+rc.Key+"\n"+rc.Text)
			continue
		}
		c.mu.Lock()
		dup := c.seenRace[rc.Key]
		c.seenRace[rc.Key] = true
		c.mu.Unlock()
		if dup {
			extra["race_reports_already_listed"]++
			continue
		}
		extra["distinct_races"]++
		addProblem("race:"+rc.Key, fmt.Sprintf("DATA RACE between interpreters used from different goroutines (%s): %s\n%s", it.Note, rc.Key, rc.Text))
	}

	// (2) every pass against the first lone run
	base := &res.Passes[0]
	var sample *c14Sample
	budgetHit := false
	normBase := make([][]proto.ConcObs, len(base.G))
	for g := range base.G {
		for i := range base.G[g].Steps {
			normBase[g] = append(normBase[g], c14NormObs(&base.G[g].Steps[i], base.Tag))
			if base.G[g].Steps[i].Budget {
				budgetHit = true
			}
		}
	}
	if base.Aborted != "" {
		return Verdict{Status: Inconclusive, Msg: "the lone baseline run did not complete: " + base.Aborted}
	}
	rounds, overlapped := 0, 0
	for pi := 1; pi < len(res.Passes); pi++ {
		p := &res.Passes[pi]
		what := p.Kind
		switch p.Kind {
		case "alone":
			what = "second lone run, after other interpreters were used in this process"
		case "seq":
			what = "sequential run (all interpreters created, then used one after the other)"
		case "seq2":
			what = "sequential run (each interpreter created after the previous one finished)"
		case "conc":
			what = fmt.Sprintf("concurrent run %d", pi)
			rounds++
		}
		for g := range p.G {
			if p.G[g].Panic != "" {
				addProblem(fmt.Sprintf("panic:g%d", g), fmt.Sprintf("interpreter %d panicked in the %s but not alone (%s): %s", g, what, it.Note, firstLines(p.G[g].Panic, 30)))
			}
		}
		if p.Aborted != "" {
			if key == "" {
				inconcl = append(inconcl, "pass "+p.Kind+" aborted: "+p.Aborted)
			}
			continue
		}
		for g := range p.G {
			if len(p.G[g].Steps) != len(normBase[g]) {
				inconcl = append(inconcl, fmt.Sprintf("pass %s script %d: %d steps reported, %d expected", p.Kind, g, len(p.G[g].Steps), len(normBase[g])))
				continue
			}
			for i := range p.G[g].Steps {
				if pl.Scripts[g].Steps[i].Barrier {
					continue
				}
				if p.G[g].Steps[i].Budget {
					budgetHit = true
					continue
				}
				extra["steps_compared"]++
				got := c14NormObs(&p.G[g].Steps[i], p.Tag)
				want := normBase[g][i]
				if c14ObsText(&got) == c14ObsText(&want) {
					continue
				}
				stepText := c14StepText(&pl.Scripts[g].Steps[i])
				who := fmt.Sprintf("interpreter %d of %d", g, len(p.G))
				if meta.Family == "matrix" {
					who = []string{"I1 (the mutating interpreter)", "I2 (the observing interpreter)"}[g%2]
					if name := meta.Layout.observerAt(g, i); name != "" {
						who += ", observer '" + name + "'"
					}
				}
				if sample == nil {
					sample = &c14Sample{Item: it.Note, Step: stepText, Expected: want, Observed: got}
				}
				addProblem(fmt.Sprintf("diff:%s:%s:%d", meta.Family, p.Kind, i),
					fmt.Sprintf("%s: %s, step %d differs in the %s from its lone run | %s | alone: %s | now: %s",
						it.Note, who, i, what, stepText, c14ObsText(&want), c14ObsText(&got)))
			}
		}
		if p.Kind == "conc" {
			over := false
			for a := range p.G {
				for b := a + 1; b < len(p.G); b++ {
					if p.G[a].Start > 0 && p.G[b].Start > 0 && p.G[a].Start < p.G[b].End && p.G[b].Start < p.G[a].End {
						over = true
					}
				}
			}
			if over {
				overlapped++
			}
		}
	}
	extra["rounds"] = int64(rounds)
	extra["rounds_overlapped"] = int64(overlapped)
	extra[fmt.Sprintf("rounds_n%d", len(pl.Scripts))] = int64(rounds)
	extra[fmt.Sprintf("rounds_gomaxprocs%d", res.Procs)] = int64(rounds)
	extra["interpreters_created"] = int64(len(res.Passes) * len(pl.Scripts))

	// (3) the global tables
	collisions := c.judgeTables(&pl, &res, extra, addProblem, &inconcl)

	// (4) matrix bookkeeping: which observers see the mutation inside I1 (the pair is then sensitive)
	var sensitive []string
	if meta.Family == "matrix" && meta.Layout != nil && len(base.G) == 2 {
		lay := meta.Layout
		for j, name := range lay.ObsNames {
			i1, i2 := lay.I1Start[0]+lay.ObsIndex[j], lay.I2Start[0]+lay.ObsIndex[j]
			if i1 < len(normBase[0]) && i2 < len(normBase[1]) && c14ObsText(&normBase[0][i1]) != c14ObsText(&normBase[1][i2]) {
				sensitive = append(sensitive, name)
			}
		}
		nm := int64(1)
		if lay.Mutator == "all mutators" {
			nm = 0 // its pairs are already counted one by one
		}
		extra["matrix_pairs_checked"] = nm * int64(len(lay.ObsNames))
		extra["matrix_pairs_sensitive"] = nm * int64(len(sensitive))
		extra["matrix_items"] = 1
		if len(sensitive) == 0 {
			extra["matrix_mutators_invisible_even_in_I1"]++ // still asserted, but trivially (not counted as non-trivial)
		}
	}

	v := Verdict{Extra: extra, Key: key}
	switch {
	case len(problems) > 0:
		v.Status = Violated
		v.Msg = strings.Join(problems, "\n---\n")
	case budgetHit:
		v.Status = Inconclusive
		v.Msg = "a step ran out of its step budget: " + it.Note
	case len(inconcl) > 0:
		v.Status = Inconclusive
		v.Msg = strings.Join(inconcl, "\n")
	}
	if meta.Family == "matrix" {
		v.NonTrivial = len(sensitive) > 0 && rounds > 0
	} else {
		v.NonTrivial = overlapped > 0 && collisions > 0
	}
	if sample != nil {
		v.Sample = sample
	} else if len(base.G) > 0 {
		// show one compared step: the last observation of the highest-numbered interpreter
		g := len(base.G) - 1
		i := len(normBase[g]) - 1
		if meta.Family == "matrix" && meta.Layout != nil {
			i = meta.Layout.I2Start[len(meta.Layout.I2Start)-1]
		}
		last := &res.Passes[len(res.Passes)-1]
		if i >= 0 && g < len(last.G) && i < len(last.G[g].Steps) {
			got := c14NormObs(&last.G[g].Steps[i], last.Tag)
			v.Sample = &c14Sample{Item: it.Note, Step: c14StepText(&pl.Scripts[g].Steps[i]), Expected: normBase[g][i], Observed: got, Rounds: rounds, Sensitive: sensitive}
		}
	}
	return v
}

func (l *c14MatrixLayout) observerAt(g, i int) string {
	starts := l.I1Start
	if g == 1 {
		starts = l.I2Start
	}
	for _, s := range starts {
		if i < s || i >= s+l.BatteryLen {
			continue
		}
		for j := len(l.ObsIndex) - 1; j >= 0; j-- {
			if i-s >= l.ObsIndex[j] {
				return l.ObsNames[j]
			}
		}
	}
	return ""
}

// judgeTables checks the atom table and the variable counter from the raw values the goroutines received.
func (c *c14) judgeTables(pl *proto.ConcPayload, res *proto.ConcResult, extra map[string]int64,
	addProblem func(k, msg string), inconcl *[]string) (collisionRounds int) {
	byName := map[string]uint64{}
	byID := map[uint64]string{}
	who := map[string]string{}
	check := func(pass *proto.ConcPass, g int, name string, id uint64, str string, haveStr bool) {
		extra["atoms_checked"]++
		where := fmt.Sprintf("goroutine %d of pass %s", g, pass.Tag)
		if !haveStr {
			where += " (looked up again at the end of the round)"
		}
		if haveStr && str != name {
			addProblem("atom:string", fmt.Sprintf("NewAtom(%q).String() returned %q (%s)", name, str, where))
		}
		if old, ok := byName[name]; ok && old != id {
			addProblem("atom:two-ids", fmt.Sprintf("one name, two atoms: NewAtom(%q) returned %d to %s and %d to %s", name, old, who[name], id, where))
		} else if !ok {
			byName[name], who[name] = id, where
		}
		if old, ok := byID[id]; ok && old != name {
			addProblem("atom:shared-id", fmt.Sprintf("two names, one atom: id %d was returned for %q and for %q (%s)", id, old, name, where))
		} else if !ok {
			byID[id] = name
		}
	}
	seenVar := map[int64]string{}
	for pi := range res.Passes {
		p := &res.Passes[pi]
		if p.Kind != "conc" || p.Aborted != "" {
			continue
		}
		want := pl.Micro * pl.Batch
		complete := true
		for g := range p.G {
			gr := &p.G[g]
			if len(gr.Shared) != want || len(gr.SharedStr) != want || len(gr.Shared2) != want || len(gr.Priv) != pl.Private || len(gr.PrivStr) != pl.Private {
				*inconcl = append(*inconcl, fmt.Sprintf("pass %s goroutine %d reported an incomplete atom log", p.Tag, g))
				complete = false
				continue
			}
			for k := 0; k < want; k++ {
				name := fmt.Sprintf("sx_%s_%d_%d", p.Tag, k/pl.Batch, k%pl.Batch)
				check(p, g, name, gr.Shared[k], gr.SharedStr[k], true)
				check(p, g, name, gr.Shared2[k], "", false)
			}
			for k := 0; k < pl.Private; k++ {
				check(p, g, fmt.Sprintf("px_%s_g%d_%d", p.Tag, g, k), gr.Priv[k], gr.PrivStr[k], true)
			}
			// variables
			buf := gr.Vars
			var prev int64
			n := 0
			for len(buf) > 0 {
				d, k := binary.Varint(buf)
				if k <= 0 {
					*inconcl = append(*inconcl, "undecodable variable log")
					break
				}
				buf = buf[k:]
				prev += d
				n++
				where := fmt.Sprintf("goroutine %d of pass %s", g, p.Tag)
				if old, dup := seenVar[prev]; dup {
					addProblem("var:duplicate", fmt.Sprintf("engine.NewVariable() returned %d twice: to %s and to %s", prev, old, where))
				} else {
					seenVar[prev] = where
				}
			}
			extra["variables_checked"] += int64(n)
			if n != pl.Vars {
				*inconcl = append(*inconcl, fmt.Sprintf("pass %s goroutine %d minted %d variables, expected %d", p.Tag, g, n, pl.Vars))
			}
		}
		if complete && len(p.G) >= 2 {
			collisionRounds += pl.Micro
		}
	}
	extra["simultaneous_interning_rounds"] = int64(collisionRounds)
	return collisionRounds
}
