package main

import (
	"encoding/json"
	"fmt"
	"os"
	"regexp"
	"sort"
	"strings"
	"time"

	"verif/internal/proto"
	"verif/internal/run"
	"verif/internal/term"
)

// C05 — no input crashes or wedges the host; every failure is a Prolog error term.
//
// Workload A (c05text.go): byte strings handed to Exec and Query.  Workload B (c05goals.go): every
// registered predicate × argument shapes.  This file holds the oracle: what counts as a refuting event.

func init() { checks["C05"] = func() Check { return &c05{} } }

type c05 struct {
	procs      []c05Proc
	procSource string
	raceWorker *run.Worker
	stage      int
	pending    []*Item
}

func (*c05) ID() string    { return "C05" }
func (*c05) Level() string { return "exploration" }
func (*c05) Rule() string {
	return "Workload A (texts, each given to Exec, to Query as is and to Query with ' .' appended, on fresh interpreters, under the default and under extended/random operator tables, with and without placeholder arguments): " +
		"every byte-wise prefix of a corpus of ~660 valid clauses covering all token kinds (exhaustive under the default table), token-level mutations of the corpus (delete/duplicate/swap/insert/replace; thorough: all single deletions, duplications, adjacent swaps and insertions of 50 tokens at every position), " +
		"seeded byte fuzz <= 64 B over a token-biased alphabet incl. invalid UTF-8 and NUL, and deep nestings up to 10^4 nodes; thorough re-runs a sample on a -race (checkptr) build. " +
		"Workload B (goals p(t1..tn) built in Go and injected through verif_in/2, one fresh interpreter per goal, first 5 answers then Close, step budget 200000): " +
		"every procedure of a fresh interpreter (read from the running code through VerifProcedures; fallback: Register calls of interpreter.go + clause heads of bootstrap.pl) except halt/0,1, " +
		"x ~200 argument shapes (unbound, shared variable, atoms, integers incl. extremes, floats, compounds, clauses, option terms, proper/partial/improper lists in every engine representation, strings, open/closed text and binary streams, aliases, callable and non-callable goals, 10^4-element and depth-1000/5000 terms): " +
		"arity 1 all shapes; arity 2 all pairs of a reduced set (14; thorough 45) + the other shapes next to seeded partners; arity 3 pairwise-covering rows (quick) / all triples of a 16-shape set (thorough); arity 4-8 pairwise-covering rows + all combinations of 4 benign shapes (arity <= 5); a 5 % sample again as one term through call/1 and, for every predicate that takes a file name or a stream plus another 5 % sample, as catch(Goal, _, true) (host errors reach the catcher as error(system_error, _)); " +
		"plus a grid of evaluable functors x extreme numbers through is/2 and ~1150 hand-written corner goals. " +
		"Refuting: death of the worker process attributed to the case (stack overflow, unrecovered panic, deadlock, runtime throw, signal, checkptr, out of memory at the 3 GiB cap); no return after 45 CPU-seconds (kernel CPU-time limit per case) on an input <= 4 KiB; a goal of the procedure x shape matrix with <= 4 KiB of arguments, none of them a goal that runs forever (repeat), still running after 200000 trampoline steps; " +
		"for goals an error that is not an engine.Exception (host I/O errors excepted) or whose term is not error(Formal,_) with Formal in the ISO vocabulary (DESIGN Appendix C) - balls of throw/1 excepted; any returned error whose text/term shows a recovered Go panic. " +
		"Non-trivial: a text of >= 2 tokens that returned from every call / a goal that reached the predicate body (did not end in existence_error(procedure, P/N) for the predicate itself); distinct by text+table+arguments / by predicate+shapes."
}
func (*c05) Assumptions() []string {
	return []string{
		"stated memory bound: GOMEMLIMIT=1GiB, 256 MiB Go stack, generated terms <= 10^4 nodes (<= 10^7 cells for sizes passed as integers); address space of a worker capped at 3 GiB (RLIMIT_AS)",
		"a goal that does not return because one of its arguments is a goal that never terminates (findall(X, repeat, L)) is what ISO prescribes and is not a violation: such goals are ended by the step budget and counted (budget_hit); hand-written corner goals that hit the budget are only counted as well",
		"cyclic terms and halt/0,1 are never generated (excluded by the property); texts containing the letters 'halt' are dropped",
		"the clock for 'does not return' is the CPU time of the worker process (soft RLIMIT_CPU re-armed per case, SIGXCPU with its default action; linux/amd64); the wall-clock watchdog (10 min) alone is inconclusive unless the /proc CPU reading shows > 20 CPU-seconds on an input <= 4 KiB or the goroutine dump shows the main goroutine blocked in the library with nothing runnable",
		"work that is slow but finite on inputs > 4 KiB (the term writer and acyclic_term/1 are quadratic in list length / nesting depth) is inconclusive when it reaches the CPU limit, never a violation",
		"error Context terms are not asserted; for text handed to Exec/Query only 'returns, no crash, no panic residue' is asserted (the API returns reader errors as plain Go errors)",
		"errors of the operating system below a stream (*fs.PathError: name too long, is a directory, file already closed, invalid seek) are handed through by the engine as Go errors on purpose (its unit tests pin this; catch/3 shows them as error(system_error,_)) and are not asserted",
		"without the verif hooks there is no step clock: runaway Prolog programs are cancelled by a 20 s wall-clock timeout and wedge verdicts are disabled",
	}
}

// Tune: the deciding clock for "does not return" is the CPU time of the worker: the worker arms a kernel
// CPU-time limit of 45 s per case (RLIMIT_CPU, see c05ArmCPU in cmd/vworker/c05text.go), so a spinning case is
// ended after 45 CPU-seconds whatever the load of the machine. The wall-clock watchdog of the pool is only the
// backstop for a case that blocks without using CPU (and for hosts where the limit cannot be armed); it is set
// long enough (10 min) for 45 CPU-seconds to elapse first on a machine that is 10 x oversubscribed.
func (c *c05) Tune(cx *Ctx) {
	cx.Pool.CaseTimeout = 600 * time.Second
	cx.Pool.Batch = 50
	if os.Getenv("VERIF_PROGRESS") != "" {
		last := time.Now()
		cx.Pool.Progress = func(done, total int) {
			if time.Since(last) > 5*time.Second {
				last = time.Now()
				fmt.Fprintf(os.Stderr, "progress %d/%d\n", done, total)
			}
		}
	}
}

// c05Meta is what Judge needs besides the case itself.
type c05Meta struct {
	Family  string   `json:"family"`            // text-prefix | text-mutation | text-fuzz | text-deep | goal-matrix | goal-arith | goal-corner
	Origin  string   `json:"origin,omitempty"`  // corpus entry / mutation description
	Ops     string   `json:"ops,omitempty"`     // name of the operator-table prelude
	Pred    string   `json:"pred,omitempty"`    // name/arity under test (goals)
	Shapes  []string `json:"shapes,omitempty"`  // shape ids (goals)
	Goal    string   `json:"goal,omitempty"`    // readable goal
	Thrower bool     `json:"thrower,omitempty"` // an argument is the goal throw(c05_ball): that ball may come back
	NoVocab bool     `json:"novocab,omitempty"` // the goal text contains throw/1: the error term is the user's business
	Size    int      `json:"size,omitempty"`    // bytes of input (text length / size of the built arguments)
	Race    bool     `json:"race,omitempty"`    // executed by the -race (checkptr) build
}

const (
	c05TinyInput  = 4096 // bytes: inputs up to this size must return whatever they contain
	c05WedgeCPU   = 20.0 // CPU-seconds
	c05GoalBudget = 200000
	c05TextBudget = 100000
)

// ---- generation --------------------------------------------------------------------------------------

// Generate hands out the workload in slices of at most c05ChunkSize items: texts, then goals, then (thorough) the
// sample for the race build. The lists are pure functions of (seed, tier) and of the procedure table of the tree.
func (c *c05) Generate(cx *Ctx, chunk int) []*Item {
	only := os.Getenv("VERIF_C05_ONLY") // development aid: text | goals
	for len(c.pending) == 0 {
		switch c.stage {
		case 0:
			if only != "goals" {
				c.pending = c.genTexts(cx, true)
			}
		case 1:
			if only != "text" {
				c.loadProcs(cx)
				c.pending = c.genGoals(cx)
			}
		case 2:
			if cx.Thorough() && !cx.Race && only == "" {
				c.pending = c.genRaceSample(cx)
			}
		default:
			if c.raceWorker != nil {
				c.raceWorker.Cleanup()
				c.raceWorker = nil
			}
			return nil
		}
		c.stage++
	}
	n := len(c.pending)
	if n > c05ChunkSize {
		n = c05ChunkSize
	}
	out := c.pending[:n:n]
	c.pending = c.pending[n:]
	return out
}

const c05ChunkSize = 100000

// genRaceSample re-runs a sample (10 %; 2.5 % of the mutation family) of the text workload on a worker built with -race (which implies
// checkptr: the lexer aliases its byte buffer as a string through unsafe).
func (c *c05) genRaceSample(cx *Ctx) []*Item {
	w, err := run.BuildWorker(true)
	if err != nil {
		cx.Note("race build unavailable, checkptr sample skipped: " + firstLine(err.Error()))
		return []*Item{}
	}
	c.raceWorker = w
	p := run.NewPool(w)
	p.CaseTimeout = 600 * time.Second // the race build is ~10 x slower; its CPU limit is 360 s per case
	p.Batch = 50
	cx.Pool = p // the remaining chunk is executed by the race build
	r := cx.Rng("c05/race-sample")
	var out []*Item
	for _, it := range c.genTexts(cx, false) {
		var m c05Meta
		_ = decodeMeta(it, &m)
		rate := 10
		if m.Family == "text-mutation" {
			rate = 40 // the largest family: 2.5 %
		}
		if r.Intn(rate) != 0 {
			continue
		}
		m.Race = true
		it.Meta, _ = json.Marshal(&m)
		out = append(out, it)
	}
	return out
}

// ---- oracle ------------------------------------------------------------------------------------------

func (c *c05) Judge(cx *Ctx, it *Item, outs []*run.Outcome) Verdict {
	var m c05Meta
	if err := decodeMeta(it, &m); err != nil {
		return Verdict{Status: Inconclusive, Msg: err.Error()}
	}
	if strings.HasPrefix(m.Family, "text") {
		return c.judgeText(cx, &m, it, outs[0])
	}
	v := c.judgeGoal(cx, &m, it, outs[0])
	if v.Status == Held && !c05SampleGoals[m.Goal] {
		v.Sample = nil
	}
	return v
}

var c05Residue = []string{"panic:", "runtime error", "invalid memory address", "nil pointer dereference", "index out of range",
	"slice bounds", "interface conversion", "negative shift amount", "comparing uncomparable", "makeslice:", "goroutine stack"}

// c05HasResidue reports the trace of a recovered Go panic in an error, unless the input itself spelt it.
func c05HasResidue(e *proto.Err, input string) string {
	if e == nil {
		return ""
	}
	texts := []string{e.Text}
	if e.Exception != nil {
		texts = append(texts, e.Exception.String())
	}
	for _, t := range texts {
		for _, p := range c05Residue {
			if strings.Contains(t, p) && !strings.Contains(input, p) {
				return p
			}
		}
	}
	return ""
}

// judgeCrash turns the death of the worker process during a case into a verdict.
func c05JudgeCrash(cx *Ctx, cr *run.Crash, caseID string, inputSize int, what string) Verdict {
	tiny := inputSize <= c05TinyInput
	sizeNote := "not tiny: a slow algorithm is not a wedge"
	if cx.Worker != nil && !cx.Worker.Hooks {
		// without the hooks there is no step clock: a Prolog program that runs forever is cancelled by a wall-clock
		// timeout only, and until then it burns CPU exactly like a spin inside a built-in: no wedge verdicts
		tiny, sizeNote = false, "no step clock without the hooks: a Prolog loop cannot be told from a spin"
	}
	stage := c05LastMark(cr.Stderr, caseID)
	diag := c05StripMarks(cr.Stderr)
	at := ""
	if stage != "" {
		at = " during " + stage
	}
	if cr.Hung {
		switch {
		case cr.CPUSeconds > c05WedgeCPU && tiny:
			return Verdict{Status: Violated, Msg: fmt.Sprintf("wedge: no return%s after %.1f CPU-seconds on a %d-byte input (%s); spinning in %s",
				at, cr.CPUSeconds, inputSize, what, c05Frame(diag)), Extra: map[string]int64{"wedge": 1}}
		case c05BlockedForever(diag):
			return Verdict{Status: Violated, Msg: fmt.Sprintf("blocks: no return%s, %.1f CPU-seconds used, the main goroutine waits in %s and no goroutine can run (%s)",
				at, cr.CPUSeconds, c05Frame(diag), what), Extra: map[string]int64{"blocks": 1}}
		}
		return Verdict{Status: Inconclusive, Msg: fmt.Sprintf("watchdog fired%s after %.1f CPU-seconds (input %d bytes): %s", at, cr.CPUSeconds, inputSize, what)}
	}
	kind := ""
	switch {
	case strings.Contains(diag, "fatal error: stack overflow") || strings.Contains(diag, "goroutine stack exceeds"):
		kind = "fatal error: stack overflow"
	case strings.Contains(diag, "all goroutines are asleep"):
		kind = "fatal error: all goroutines are asleep - deadlock!"
	case strings.Contains(diag, "fatal error: checkptr") || strings.Contains(diag, "checkptr:"):
		kind = "fatal error: checkptr"
	case strings.Contains(diag, "out of memory") || strings.Contains(diag, "cannot allocate memory"):
		kind = "fatal error: out of memory (address-space cap reached)"
	case c05Line(diag, "panic: ") != "":
		kind = "unrecovered " + c05Line(diag, "panic: ")
	case strings.Contains(diag, "SIGSEGV") || strings.Contains(diag, "SIGBUS") || strings.Contains(diag, "unexpected signal"):
		kind = "fatal signal: " + c05Line(diag, "signal")
	case c05Line(diag, "fatal error: ") != "":
		kind = c05Line(diag, "fatal error: ")
	case strings.Contains(diag, "WARNING: DATA RACE"):
		kind = "data race reported by the race detector"
	}
	if kind == "" && strings.Contains(cr.Exit, "CPU time limit") {
		// SIGXCPU from the kernel's CPU-time limit armed per case: the case used 45 CPU-seconds without returning
		if tiny {
			return Verdict{Status: Violated, Msg: fmt.Sprintf("wedge: no return%s after 45 CPU-seconds (measured: %.1f) on a %d-byte input (%s); ended by the CPU-time limit (a replay under VERIF_C05_NOCPULIMIT=1 ends with a goroutine dump that names the spinning frame)",
				at, cr.CPUSeconds, inputSize, what), Extra: map[string]int64{"wedge": 1}}
		}
		return Verdict{Status: Inconclusive, Msg: fmt.Sprintf("CPU-time limit reached%s after 45 CPU-seconds (measured: %.1f) on a %d-byte input (%s): %s", at, cr.CPUSeconds, inputSize, sizeNote, what)}
	}
	if kind == "" {
		// no diagnostics: the process left through os.Exit (halt/1 reached by a generated text?) or was
		// killed from outside. Nothing can be concluded.
		return Verdict{Status: Inconclusive, Msg: fmt.Sprintf("worker ended without diagnostics (%s)%s: %s", cr.Exit, at, what)}
	}
	return Verdict{Status: Violated, Msg: fmt.Sprintf("process death%s: %s in %s (%s) on %s", at, kind, c05Frame(diag), cr.Exit, what),
		Extra: map[string]int64{"process_deaths": 1}}
}

var c05MarkRe = regexp.MustCompile(`(?m)^c05-(?:mark (\S+) (\S+)|note .*)\n?`)

func c05LastMark(stderr, id string) string {
	last := ""
	for _, m := range c05MarkRe.FindAllStringSubmatch(stderr, -1) {
		if m[1] == id {
			last = m[2]
		}
	}
	return last
}

func c05StripMarks(stderr string) string { return c05MarkRe.ReplaceAllString(stderr, "") }

func c05Line(s, prefix string) string {
	for _, l := range strings.Split(s, "\n") {
		if i := strings.Index(l, prefix); i >= 0 && (i == 0 || prefix == "signal") {
			if len(l) > 200 {
				l = l[:200]
			}
			return strings.TrimSpace(l)
		}
	}
	return ""
}

var c05FrameRe = regexp.MustCompile(`(?m)^(github\.com/ichiban/prolog[^\s(]*(?:\([^)]*\))?[^\s(]*)\(`)

// c05Frame names the innermost frames of the library in a Go traceback.
func c05Frame(diag string) string {
	ms := c05FrameRe.FindAllStringSubmatch(diag, 400)
	var fs []string
	seen := map[string]bool{}
	for _, m := range ms {
		f := strings.TrimPrefix(m[1], "github.com/ichiban/prolog")
		f = strings.TrimPrefix(f, "/")
		if seen[f] {
			continue
		}
		seen[f] = true
		fs = append(fs, f)
		if len(fs) == 4 {
			break
		}
	}
	if len(fs) == 0 {
		return "(no library frame in the traceback)"
	}
	return strings.Join(fs, " < ")
}

var c05GoroutineRe = regexp.MustCompile(`(?m)^goroutine (\d+)(?: gp=\S+ m=\S+(?: mp=\S+)?)? \[([^\]]*)\]:\n((?:.+\n)*)`)

// c05BlockedForever reads the SIGQUIT dump of a watchdog-ended worker: true only if the main goroutine sits
// in a channel operation or lock inside the library and no other goroutine is able to run.
func c05BlockedForever(dump string) bool {
	gs := c05GoroutineRe.FindAllStringSubmatch(dump, -1)
	if len(gs) == 0 {
		return false
	}
	mainBlocked := false
	for _, g := range gs {
		state := strings.SplitN(g[2], ",", 2)[0]
		body := g[3]
		waiting := false
		switch state {
		case "chan send", "chan receive", "select", "select (no cases)", "semacquire", "sync.Mutex.Lock", "sync.RWMutex.Lock",
			"sync.RWMutex.RLock", "sync.Cond.Wait", "sync.WaitGroup.Wait", "chan send (nil chan)", "chan receive (nil chan)":
			waiting = true
		}
		if g[1] == "1" {
			if !waiting || !strings.Contains(body, "github.com/ichiban/prolog") {
				return false
			}
			mainBlocked = true
			continue
		}
		if !waiting {
			// running, runnable, syscall, IO wait, sleep, GC workers …: something may still make progress
			if strings.Contains(body, "runtime.gopark") && !strings.Contains(body, "github.com/ichiban/prolog") && !strings.Contains(body, "main.") {
				continue // parked runtime helper (GC worker, finalizer, …)
			}
			return false
		}
	}
	return mainBlocked
}

// ---- ISO vocabulary (DESIGN Appendix C) -------------------------------------------------------------

func c05Set(s string) map[string]bool {
	m := map[string]bool{}
	for _, f := range strings.Fields(s) {
		m[f] = true
	}
	return m
}

var (
	c05Types   = c05Set("atom atomic byte callable character compound evaluable float in_byte in_character integer list number pair predicate_indicator variable")
	c05Domains = c05Set("character_code_list close_option flag_value io_mode non_empty_list not_less_than_zero operator_priority operator_specifier order prolog_flag read_option source_sink stream stream_option stream_or_alias stream_position stream_property write_option")
	c05Objects = c05Set("procedure source_sink stream")
	c05Actions = c05Set("access create input modify open output reposition")
	c05PTypes  = c05Set("binary_stream flag operator past_end_of_stream private_procedure static_procedure source_sink stream text_stream")
	c05Flags   = c05Set("character character_code in_character_code max_arity max_integer min_integer")
	c05Evals   = c05Set("float_overflow int_overflow undefined underflow zero_divisor")
)

// c05HostError: Go types of errors that come from the operating system, not from the engine.
var c05HostError = map[string]bool{"*fs.PathError": true, "*os.PathError": true, "*os.SyscallError": true, "syscall.Errno": true, "*os.LinkError": true}

// c05Formal checks error(Formal, _) against the ISO formal error terms; it returns the class for the
// coverage counters and "" + reason when the term is outside the vocabulary.
func c05Formal(t *term.Term) (class string, bad string) {
	if t == nil {
		return "", "no term"
	}
	if !t.IsCmp("error", 2) {
		return "", "the error term is not error(Formal, Context)"
	}
	f := t.Args[0]
	atomIn := func(a *term.Term, set map[string]bool) bool { return a.K == term.KAtom && set[a.S] }
	switch {
	case f.IsAtom("instantiation_error"), f.IsAtom("system_error"):
		return f.S, ""
	case f.IsCmp("type_error", 2):
		if atomIn(f.Args[0], c05Types) {
			return "type_error(" + f.Args[0].S + ")", ""
		}
		return "", "type_error with a ValidType outside ISO: " + f.Args[0].String()
	case f.IsCmp("domain_error", 2):
		if atomIn(f.Args[0], c05Domains) {
			return "domain_error(" + f.Args[0].S + ")", ""
		}
		return "", "domain_error with a ValidDomain outside ISO: " + f.Args[0].String()
	case f.IsCmp("existence_error", 2):
		if atomIn(f.Args[0], c05Objects) {
			return "existence_error(" + f.Args[0].S + ")", ""
		}
		return "", "existence_error with an ObjectType outside ISO: " + f.Args[0].String()
	case f.IsCmp("permission_error", 3):
		if atomIn(f.Args[0], c05Actions) && atomIn(f.Args[1], c05PTypes) {
			return "permission_error(" + f.Args[0].S + "," + f.Args[1].S + ")", ""
		}
		return "", "permission_error with Action/PermissionType outside ISO: " + f.Args[0].String() + ", " + f.Args[1].String()
	case f.IsCmp("representation_error", 1):
		if atomIn(f.Args[0], c05Flags) {
			return "representation_error(" + f.Args[0].S + ")", ""
		}
		return "", "representation_error with a Flag outside ISO: " + f.Args[0].String()
	case f.IsCmp("evaluation_error", 1):
		if atomIn(f.Args[0], c05Evals) {
			return "evaluation_error(" + f.Args[0].S + ")", ""
		}
		return "", "evaluation_error with an Error outside ISO: " + f.Args[0].String()
	case f.IsCmp("resource_error", 1):
		return "resource_error", ""
	case f.IsCmp("syntax_error", 1):
		return "syntax_error", ""
	}
	return "", "Formal is not an ISO formal error term: " + clipText(f.String(), 200)
}

func clipText(s string, n int) string {
	if len(s) <= n {
		return s
	}
	return s[:n] + "…"
}

// ---- text verdicts ----------------------------------------------------------------------------------

type c05TextP struct {
	Prelude []string    `json:"prelude,omitempty"`
	B       []byte      `json:"b"`
	Modes   []string    `json:"modes"`
	Args    []proto.Arg `json:"args,omitempty"`
	Budget  int64       `json:"budget,omitempty"`
	Max     int         `json:"max,omitempty"`
}

type c05Call struct {
	Mode      string     `json:"mode"`
	Prelude   []string   `json:"prelude_err,omitempty"`
	Answers   int        `json:"answers,omitempty"`
	Exhausted bool       `json:"exhausted,omitempty"`
	Err       *proto.Err `json:"err,omitempty"`
	CloseErr  string     `json:"close_err,omitempty"`
	BudgetHit bool       `json:"budget_hit,omitempty"`
	Steps     int64      `json:"nsteps,omitempty"`
	Lingering bool       `json:"lingering,omitempty"`
}

func (c *c05) judgeText(cx *Ctx, m *c05Meta, it *Item, o *run.Outcome) Verdict {
	var p c05TextP
	if err := json.Unmarshal(it.Cases[0].P, &p); err != nil {
		return Verdict{Status: Inconclusive, Msg: err.Error()}
	}
	what := fmt.Sprintf("text %q", clipText(string(p.B), 300))
	if m.Ops != "" {
		what += " under operator table " + m.Ops
	}
	if len(p.Args) > 0 {
		what += fmt.Sprintf(" with %d placeholder argument(s)", len(p.Args))
	}
	key := "text:" + m.Ops + ":" + string(p.B)
	if len(p.Args) > 0 {
		b, _ := json.Marshal(p.Args)
		key += ":" + string(b)
	}
	if m.Race {
		key = "race:" + key
	}
	ntok := c05CountTokens(p.B)
	extra := map[string]int64{"texts": 1, "family_" + m.Family: 1}
	if m.Race {
		extra["texts_under_race_checkptr"] = 1
	}
	sample := map[string]interface{}{"family": m.Family, "text": string(p.B), "tokens": ntok, "expected": "every call returns (answers, failure or error); no process death; no panic residue"}
	if o.Crash != nil {
		v := c05JudgeCrash(cx, o.Crash, o.Case.ID, len(p.B), what)
		v.Key, v.Sample = key, sample
		for k, n := range extra {
			if v.Extra == nil {
				v.Extra = map[string]int64{}
			}
			v.Extra[k] += n
		}
		sample["observed"] = firstLine(v.Msg)
		return v
	}
	if o.Res == nil || o.Res.Fatal != "" {
		msg := "no result"
		if o.Res != nil {
			msg = o.Res.Fatal
		}
		return Verdict{Status: Inconclusive, Msg: "worker: " + msg, Key: key}
	}
	var calls []c05Call
	if err := json.Unmarshal(o.Res.R, &calls); err != nil || len(calls) != len(p.Modes) {
		return Verdict{Status: Inconclusive, Msg: fmt.Sprintf("bad result: %v", err), Key: key}
	}
	v := Verdict{Status: Held, Key: key, Extra: extra, Sample: sample}
	var obs []string
	for _, cl := range calls {
		extra["calls_returned"]++
		extra["calls_"+cl.Mode]++
		switch {
		case cl.Err == nil && cl.Mode == "exec":
			obs = append(obs, cl.Mode+": ok")
			extra["exec_ok"]++
		case cl.Err == nil:
			obs = append(obs, fmt.Sprintf("%s: %d answer(s)", cl.Mode, cl.Answers))
			extra["query_ran"]++
		default:
			obs = append(obs, cl.Mode+": "+clipText(cl.Err.Text, 120))
			if cl.Err.Exception != nil {
				extra["errors_as_exception"]++
			} else {
				extra["errors_plain_go"]++ // not asserted for text: the API returns parser errors as Go errors
			}
		}
		if cl.BudgetHit {
			extra["budget_hit"]++
		}
		if cl.Lingering {
			extra["not_asserted_query_goroutine_alive_2s_after_close"]++
		}
		if r := c05HasResidue(cl.Err, string(p.B)); r != "" && v.Status != Violated {
			v.Status = Violated
			v.Msg = fmt.Sprintf("%s of %s returned the residue of a recovered Go panic (%q): %s", cl.Mode, what, r, clipText(cl.Err.Text, 300))
			extra["panic_residue"]++
		}
	}
	sample["observed"] = obs
	v.NonTrivial = ntok >= 2
	if v.Status == Held && !c05SampleTexts[string(p.B)] {
		v.Sample = nil // the evidence file shows a few designated texts (and every violation), not the first four
	}
	return v
}

// the texts and goals shown as samples in the evidence: the historical witnesses and a few ordinary cases
var c05SampleTexts = map[string]bool{"X = [-": true, "[**": true, "foo(X, Y) :- bar(X), baz(Y).": true, "X = 1.0e99999999999999999999.": true}
var c05SampleGoals = map[string]bool{"acyclic_term([a, b, c])": true, "X is 1 << -1": true, "sub_atom(abc, B, L, A, xyz)": true, "atom_length(<f(a)>, <var>)": true,
	"open(<long_atom>, <write>, <var>)": true, "functor(T, foo, 10000000)": true}

// ---- goal verdicts ----------------------------------------------------------------------------------

type c05GoalP struct {
	Setup  []string     `json:"setup,omitempty"`
	Name   string       `json:"name,omitempty"`
	Args   []*term.Term `json:"args,omitempty"`
	Via    string       `json:"via"`
	Text   string       `json:"text,omitempty"`
	Max    int          `json:"max,omitempty"`
	Budget int64        `json:"budget,omitempty"`
	Input  string       `json:"input,omitempty"`
}

type c05GoalR struct {
	Query     string     `json:"query"`
	SetupErr  []string   `json:"setup_err,omitempty"`
	Answers   int        `json:"answers,omitempty"`
	Exhausted bool       `json:"exhausted,omitempty"`
	Err       *proto.Err `json:"err,omitempty"`
	QueryErr  bool       `json:"query_err,omitempty"`
	CloseErr  string     `json:"close_err,omitempty"`
	BudgetHit bool       `json:"budget_hit,omitempty"`
	Steps     int64      `json:"nsteps,omitempty"`
	OutBytes  int        `json:"out_bytes,omitempty"`
	Lingering bool       `json:"lingering,omitempty"`
}

func (c *c05) judgeGoal(cx *Ctx, m *c05Meta, it *Item, o *run.Outcome) Verdict {
	var p c05GoalP
	if err := json.Unmarshal(it.Cases[0].P, &p); err != nil {
		return Verdict{Status: Inconclusive, Msg: err.Error()}
	}
	what := "goal " + m.Goal
	if p.Via == "call" {
		what += " (through call/1)"
	}
	if p.Via == "catch" {
		what += " (as catch(Goal, _, true))"
	}
	key := "goal:" + p.Via + ":" + m.Goal
	extra := map[string]int64{"goals": 1, "family_" + m.Family: 1}
	sample := map[string]interface{}{"family": m.Family, "goal": m.Goal, "via": p.Via,
		"expected": "returns; an error is error(Formal,_) with an ISO Formal; no process death; no panic residue"}
	if o.Crash != nil {
		v := c05JudgeCrash(cx, o.Crash, o.Case.ID, m.Size, what)
		v.Key, v.Sample = key, sample
		longSubAtom := (m.Pred == "sub_atom/5" && len(m.Shapes) == 5 && (m.Shapes[0] == "long_atom" || m.Shapes[0] == "atom_4000")) ||
			(strings.HasPrefix(m.Goal, "verif_in(0, A), sub_atom(A, ") && strings.Contains(m.Goal, "<long_atom "))
		if v.Status == Violated && longSubAtom && (v.Extra["wedge"] > 0 || strings.Contains(v.Msg, "out of memory")) {
			// exactly what eager enumeration of all n*n/2 sub atoms predicts for an atom of thousands of characters
			v.Class = "sub_atom_eager_enumeration"
		}
		if v.Extra == nil {
			v.Extra = map[string]int64{}
		}
		for k, n := range extra {
			v.Extra[k] += n
		}
		sample["observed"] = firstLine(v.Msg)
		return v
	}
	if o.Res == nil || o.Res.Fatal != "" {
		msg := "no result"
		if o.Res != nil {
			msg = o.Res.Fatal
		}
		return Verdict{Status: Inconclusive, Msg: "worker: " + msg, Key: key}
	}
	var r c05GoalR
	if err := json.Unmarshal(o.Res.R, &r); err != nil {
		return Verdict{Status: Inconclusive, Msg: "bad result: " + err.Error(), Key: key}
	}
	v := Verdict{Status: Held, Key: key, Extra: extra, Sample: sample, NonTrivial: true}
	extra["goals_returned"]++
	if r.Lingering {
		extra["not_asserted_query_goroutine_alive_2s_after_close"]++
	}
	if m.Pred != "" {
		extra["pred_"+m.Pred]++
	}
	switch {
	case r.BudgetHit:
		// the engine honoured the cancellation: the call returned; what it returned is context.Canceled
		extra["budget_hit"]++
		sample["observed"] = fmt.Sprintf("%d answer(s), then cancelled by the step budget after %d steps", r.Answers, r.Steps)
		if os.Getenv("C05_LIST_BUDGET") != "" {
			cx.Note(fmt.Sprintf("step budget: %s (%d answers before)", what, r.Answers))
		}
		// A goal of the matrix whose arguments are all finite data or goals that terminate (no shape runs forever:
		// the only such shape is repeat) and that is small must return by itself: the step budget (200000 trampoline steps) is three orders
		// of magnitude above what any library predicate needs on <= 4 KiB of arguments.
		endless := false
		for _, id := range m.Shapes {
			endless = endless || strings.Contains(id, "repeat")
		}
		if (m.Family == "goal-matrix" || m.Family == "goal-corner-finite") && !endless && m.Size <= c05TinyInput {
			v.Status = Violated
			v.Class = "no_return_on_finite_arguments"
			v.Msg = fmt.Sprintf("%s did not return: still running after %d trampoline steps (%d answers before); none of its arguments is a goal that runs forever", what, r.Steps, r.Answers)
			extra["no_return_on_finite_arguments"]++
			return v
		}
	case r.Err == nil:
		extra["outcome_answers_or_failure"]++
		sample["observed"] = fmt.Sprintf("%d answer(s), exhausted=%v", r.Answers, r.Exhausted)
	default:
		sample["observed"] = clipText(r.Err.Text, 200)
	}
	if res := c05HasResidue(r.Err, m.Goal); res != "" {
		v.Status = Violated
		v.Msg = fmt.Sprintf("%s returned the residue of a recovered Go panic (%q): %s", what, res, clipText(r.Err.Text, 300))
		extra["panic_residue"]++
		return v
	}
	if r.Err == nil || r.BudgetHit {
		return v
	}
	if r.QueryErr {
		// QueryContext refused the text: a reader error, returned as the API returns it; no predicate ran
		if p.Via != "text" {
			return Verdict{Status: Inconclusive, Msg: "the goal frame was not accepted by the reader: " + r.Query + ": " + r.Err.Text, Key: key}
		}
		extra["not_asserted_goal_text_rejected_by_reader"]++
		v.NonTrivial = false
		return v
	}
	ex := r.Err.Exception
	if ex == nil && c05HostError[r.Err.GoType] {
		// a failure of the operating system below a stream (name too long, is a directory, file already closed …):
		// the engine hands the Go error through on purpose (its own tests pin that) and catch/3 shows it as
		// error(system_error, _); it is not an error about the shape of an argument
		extra["not_asserted_host_io_error"]++
		return v
	}
	if ex == nil && strings.Contains(m.Goal, "c05_bad") && (strings.HasPrefix(r.Err.GoType, "engine.") || r.Err.Text == "EOF" || r.Err.Text == "unexpected EOF") {
		// the text of a loaded file was refused by the reader: returned as the API returns reader errors; not an
		// error about the arguments of consult/1
		extra["not_asserted_reader_error_of_a_loaded_text"]++
		return v
	}
	if ex == nil {
		v.Status = Violated
		v.Msg = fmt.Sprintf("%s raised an error that is not a Prolog error term (Go type %s): %s", what, r.Err.GoType, clipText(r.Err.Text, 300))
		extra["non_exception_error"]++
		return v
	}
	if m.NoVocab || (m.Thrower && strings.Contains(ex.String(), "c05_ball")) {
		extra["not_asserted_user_ball"]++
		return v
	}
	class, bad := c05Formal(ex)
	if bad != "" {
		v.Status = Violated
		v.Msg = fmt.Sprintf("%s raised %s: %s", what, clipText(ex.String(), 300), bad)
		extra["non_iso_error_term"]++
		return v
	}
	extra["error_"+class]++
	// trivial: the predicate itself does not exist (the call never reached a body)
	if f := ex.Args[0]; f.IsCmp("existence_error", 2) && f.Args[0].IsAtom("procedure") {
		if m.Pred == "" || f.Args[1].String() == c05PIText(m.Pred) {
			v.NonTrivial = false
		}
	}
	return v
}

// c05PIText renders "name/arity" the way term.String() prints the indicator term.
func c05PIText(pred string) string {
	i := strings.LastIndexByte(pred, '/')
	var n int64
	fmt.Sscan(pred[i+1:], &n)
	return term.C("/", term.A(pred[:i]), term.I(n)).String()
}

// ---- procedure list ---------------------------------------------------------------------------------

type c05Proc struct {
	Name  string `json:"name"`
	Arity int    `json:"arity"`
	User  bool   `json:"user"`
}

func (p c05Proc) pi() string { return fmt.Sprintf("%s/%d", p.Name, p.Arity) }

func (c *c05) loadProcs(cx *Ctx) {
	static, serr := c05StaticProcs()
	outs := cx.Pool.Run([]*proto.Case{{ID: "c05dump", Kind: "c05dump"}})
	if len(outs) == 1 && outs[0].Res != nil && outs[0].Res.Fatal == "" {
		var ps []c05Proc
		if err := json.Unmarshal(outs[0].Res.R, &ps); err == nil && len(ps) > 0 {
			c.procs, c.procSource = ps, "running code (VerifProcedures)"
		}
	}
	if c.procs == nil {
		if serr != nil {
			cx.Note("no procedure list: " + serr.Error())
			return
		}
		c.procs, c.procSource = static, "sources (Register calls of interpreter.go + clause heads of bootstrap.pl)"
	} else if serr == nil {
		// cross-check of the two derivations (information only)
		a, b := map[string]bool{}, map[string]bool{}
		for _, p := range c.procs {
			a[p.pi()] = true
		}
		for _, p := range static {
			b[p.pi()] = true
		}
		var diff []string
		for k := range a {
			if !b[k] {
				diff = append(diff, "+"+k)
			}
		}
		for k := range b {
			if !a[k] {
				diff = append(diff, "-"+k)
			}
		}
		sort.Strings(diff)
		if len(diff) > 0 {
			cx.Note("procedure list from the running code differs from the one read from the sources: " + strings.Join(diff, " "))
		}
	}
	sort.Slice(c.procs, func(i, j int) bool { return c.procs[i].pi() < c.procs[j].pi() })
	cx.AddExtra("procedures_under_test", int64(len(c.procs)))
	cx.Note("procedure list taken from: " + c.procSource)
}
