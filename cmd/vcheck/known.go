package main

import (
	"bufio"
	"os"
	"path/filepath"
	"strings"

	"verif/internal/run"
)

// knownFindings holds the `known:` lines of KNOWN_FINDINGS.txt for one property. The file is committed
// and never written at run time. `fixed:` lines are documentation only and suppress nothing.
//
//	known: property=C04 id=<slug> match=class:<deviation-model>|key:<witness-hash> <what fails>
type knownFindings struct {
	byClass map[string]string // class → id
	byKey   map[string]string // witness hash → id
	text    map[string]string // id → description
}

func loadKnownFindings(prop string) *knownFindings {
	kf := &knownFindings{byClass: map[string]string{}, byKey: map[string]string{}, text: map[string]string{}}
	f, err := os.Open(filepath.Join(run.VerifDir(), "KNOWN_FINDINGS.txt"))
	if err != nil {
		return kf
	}
	defer f.Close()
	sc := bufio.NewScanner(f)
	for sc.Scan() {
		line := strings.TrimSpace(sc.Text())
		if !strings.HasPrefix(line, "known:") {
			continue
		}
		fields := strings.Fields(strings.TrimPrefix(line, "known:"))
		var p, id, match string
		rest := []string{}
		for _, f := range fields {
			switch {
			case strings.HasPrefix(f, "property=") && p == "":
				p = strings.TrimPrefix(f, "property=")
			case strings.HasPrefix(f, "id=") && id == "":
				id = strings.TrimPrefix(f, "id=")
			case strings.HasPrefix(f, "match=") && match == "":
				match = strings.TrimPrefix(f, "match=")
			default:
				rest = append(rest, f)
			}
		}
		if p != prop || id == "" || match == "" {
			continue
		}
		kf.text[id] = strings.Join(rest, " ")
		switch {
		case strings.HasPrefix(match, "class:"):
			kf.byClass[strings.TrimPrefix(match, "class:")] = id
		case strings.HasPrefix(match, "key:"):
			kf.byKey[strings.TrimPrefix(match, "key:")] = id
		}
	}
	return kf
}

// match returns the id of the finding that covers this violation, or "".
func (kf *knownFindings) match(v Verdict) string {
	if v.Class != "" {
		if id, ok := kf.byClass[v.Class]; ok {
			return id
		}
	}
	if id, ok := kf.byKey[hash12(v.Key)]; ok {
		return id
	}
	return ""
}
