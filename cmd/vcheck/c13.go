package main

// C13 — cancelling the context stops any execution promptly; the interpreter stays usable.
//
// "Eventually returns" is restated on the logical clock of the engine (trampoline steps counted by the verif step
// hook): the worker cancels the context from the hook exactly at step N and counts the further steps, the further
// observable goals and the further answers until the pending call returns. The bound B on further steps follows
// from how the engine is specified to notice cancellation — every trampoline polls its context once per step —
// so after the cancellation the innermost trampoline returns at once and each enclosing one needs one more step:
// B = 2*d + 16 for d statically nested trampolines, far above the d (+1 for fail/0 = \+ true) that is needed.

import (
	"encoding/json"
	"fmt"
	"math"
	"math/rand"
	"regexp"
	"sort"
	"strings"

	"verif/internal/proto"
	"verif/internal/run"
	"verif/internal/term"
)

func init() { checks["C13"] = func() Check { return &c13{} } }

type c13 struct {
	items []*Item // the whole tier, generated once
}

func (*c13) ID() string    { return "C13" }
func (*c13) Level() string { return "exploration" }
func (*c13) Rule() string {
	return "programs = {infinite recursion, counting recursion, mutual recursion, repeat/fail, between/3 counting (failing, filtered in Go, logging), length/2 and append/3 enumeration, loops that log w(tick) or write one byte to user_output per iteration, loops re-entering a nested findall or \\+ in every iteration, infinite findall/bagof/setof collections} x {no wrapper, findall, bagof, setof, \\+, \\+ \\+, catch(G,_,true), catch(G,E,(w(caught(E)),loop)), call/1, call/2, once, if-then-else, disjunction, call_nth, backtracking conjunction} nested up to two deep, plus endless answer streams (repeat, between, length) and long finite runs (naive reverse of 200 elements, 2000-element findall, 300 logged iterations); each run through QueryContext+Next, QuerySolutionContext and ExecContext (directive, initialization/1, directive between clauses, consult/ensure_loaded/include of a file whose directive loops, consult called from a query). The context (WithCancel, a WithValue child of a cancelled ancestor, a Context implementation expiring with DeadlineExceeded, WithDeadline in the past) is cancelled from the step hook exactly at trampoline step N (N = 0 = already cancelled, 1..50, ~60 log-spaced values up to 10^6 as far as the program reaches), or by the caller between two answers, or by a second goroutine woken at step N, or by the program itself in the middle of a step (K-th execution of the host predicate cancel_at(K), K in {1,2,3,7,50,1000,20000}); runtime.Gosched() is injected from the hook with seed-determined probability. Oracle: at most B = 2*d+16 further steps (d = static trampoline nesting of the program incl. the API), at most B further logged goals and output bytes, no further answer, the error of the call is the context's error (errors.Is) — anything else from a program that cannot terminate is a violation, a finite program may instead finish within the bound — and six fixed follow-up calls on the same interpreter give their known answers. A cancellation that is ignored is decided by the step counter (B+100000 further steps) or, for loops inside Go that take no steps, by 6 CPU-seconds burnt after the cancellation without a single step and with a goroutine runnable inside the library (or, for a call parked for good, by an idle process whose library goroutines are all parked); wall-clock alone never decides. Non-trivial: the cancellation was reached before the call returned AND (it landed inside a nested trampoline: >=2 Promise.Force activations on the call stack at the cancel step, counted with runtime.Callers, OR it fell between two answers); distinct by hash of (program, call, instant, context kind)."
}
func (*c13) Assumptions() []string {
	return []string{
		"the logical clock is the verif step hook at the top of every Promise.Force iteration (before the context poll); a loop that never reaches a trampoline is invisible to it and is judged by CPU time + goroutine state instead",
		"a finite program that completes within the step bound after the cancellation is accepted (completion racing cancellation); a program that cannot terminate must return the context's error",
		"term_expansion/2 is forced with context.Background() by the engine; the property's list of constructs does not include it and it is not generated",
		"real-timer contexts are exercised as smoke only and never produce a violation",
	}
}

// Tune: with --race the first report ends the worker so that it is attributed to a case.
func (*c13) Tune(cx *Ctx) {
	if cx.Race {
		cx.Pool.ExtraEnv = append(cx.Pool.ExtraEnv, "GORACE=halt_on_error=1")
		cx.Pool.CaseTimeout *= 4
	}
}

// ---------------------------------------------------------------------------------------------------------
// workload

const c13Program = `
cbase(1). cbase(2). cbase(3).
loop :- loop.
loop(N) :- N1 is N+1, loop(N1).
ping(N) :- N1 is N+1, pong(N1).
pong(N) :- ping(N).
tick(N) :- w(N), N1 is N+1, tick(N1).
tickc(K) :- cancel_at(K), tickc(K).
app([], L, L).
app([H|T], L, [H|R]) :- app(T, L, R).
nrev([], []).
nrev([H|T], R) :- nrev(T, RT), app(RT, [H], R).
range(N, N, [N]) :- !.
range(I, N, [I|T]) :- I < N, I1 is I+1, range(I1, N, T).
nrev200(R) :- range(1, 200, L), nrev(L, R).
flen(N) :- findall(X, between(1, 2000, X), L), length(L, N).
`

// c13Core is a goal that loops (or runs long); variables carry the suffix 0.
type c13Core struct {
	Name  string
	Goal  string
	D     int   // trampolines statically nested inside the goal (fail/0 = \+ true is accounted separately)
	MaxN  int64 // largest cancellation instant used (what the program reaches at affordable cost)
	Multi bool  // an endless stream of answers instead of a loop without answers
	// finite cores
	Finite bool
	Expect []map[string]string // all answers, in order
}

const c13Big = 1_000_000

var c13Infinite = []c13Core{
	{Name: "rec", Goal: "loop", MaxN: 300000},
	{Name: "rec_count", Goal: "loop(0)", MaxN: 30000},
	{Name: "rec_mutual", Goal: "ping(0)", MaxN: 30000},
	{Name: "repeat_fail", Goal: "repeat, fail", MaxN: c13Big},
	{Name: "between_fail", Goal: "between(1, 1000000000, X0), fail", MaxN: c13Big},
	{Name: "between_filter", Goal: "between(1, 1000000000, X0), X0 < 0", MaxN: c13Big},
	{Name: "length_fail", Goal: "length(L0, _), fail", MaxN: 20000},
	{Name: "append_fail", Goal: "append(_, [a|_], _), fail", MaxN: 20000},
	{Name: "log_repeat", Goal: "repeat, w(tick), fail", MaxN: c13Big},
	{Name: "log_rec", Goal: "tick(0)", MaxN: 20000},
	{Name: "log_between", Goal: "between(1, 1000000000, X0), w(X0), fail", MaxN: c13Big},
	{Name: "out_repeat", Goal: "repeat, put_char(x), fail", MaxN: c13Big}, // one byte on user_output per iteration
	{Name: "repeat_neg_log", Goal: "repeat, \\+ w(tock)", D: 1, MaxN: c13Big},
	{Name: "repeat_findall", Goal: "repeat, findall(Y0, cbase(Y0), _), fail", D: 1, MaxN: c13Big},
	{Name: "repeat_ite", Goal: "repeat, (cbase(2) -> fail ; true)", MaxN: c13Big},
	{Name: "findall_repeat", Goal: "findall(Y0, repeat, L0)", D: 1, MaxN: 300000},
	{Name: "bagof_between", Goal: "bagof(Y0, between(1, 1000000000, Y0), L0)", D: 1, MaxN: 300000},
	{Name: "setof_length", Goal: "setof(N0, L0^length(L0, N0), S0)", D: 1, MaxN: 20000},
	{Name: "bagof_repeat_fail", Goal: "bagof(Y0, (repeat, Y0 = 1, fail), L0)", D: 1, MaxN: c13Big},
}

var c13Multi = []c13Core{
	{Name: "answers_repeat", Goal: "repeat", MaxN: 20000, Multi: true},
	{Name: "answers_between", Goal: "between(1, 1000000000, X0)", MaxN: 20000, Multi: true},
	{Name: "answers_length", Goal: "length(L0, N0)", MaxN: 3000, Multi: true},
	{Name: "answers_log", Goal: "repeat, w(tick)", MaxN: 20000, Multi: true},
}

// c13GoalCores cancel themselves: cancel_at(K) is a host predicate that cancels the context at its K-th execution,
// i.e. in the middle of a trampoline step (the rest of the step, including a loop inside Go, still runs).
// %[1]d = K.
var c13GoalCores = []c13Core{
	{Name: "goal_repeat", Goal: "repeat, cancel_at(%[1]d), fail", MaxN: 20000},
	{Name: "goal_between_filter", Goal: "between(1, 1000000000, X0), cancel_at(%[1]d), X0 < 0", MaxN: 20000},
	{Name: "goal_between_log", Goal: "between(1, 1000000000, X0), cancel_at(%[1]d), w(X0), fail", MaxN: 20000},
	{Name: "goal_rec", Goal: "tickc(%[1]d)", MaxN: 20000},
	{Name: "goal_length", Goal: "length(L0, _), cancel_at(%[1]d), fail", MaxN: 1000},
	{Name: "goal_findall_answers", Goal: "findall(Y0, (repeat, cancel_at(%[1]d)), L0)", D: 1, MaxN: 20000},
	{Name: "goal_then_loop", Goal: "between(1, %[1]d, X0), cancel_at(%[1]d), X0 >= %[1]d, loop", MaxN: 20000},
	{Name: "goal_neg", Goal: "repeat, \\+ cancel_at(%[1]d)", D: 1, MaxN: 20000},
}

func c13Finite() []c13Core {
	var down []*term.Term
	for i := 200; i >= 1; i-- {
		down = append(down, term.I(int64(i)))
	}
	rev := term.L(down...).String()
	var five []map[string]string
	for i := 1; i <= 5; i++ {
		five = append(five, map[string]string{"X0": fmt.Sprint(i)})
	}
	return []c13Core{
		{Name: "fin_nrev200", Goal: "nrev200(R0)", Finite: true, MaxN: 60000, Expect: []map[string]string{{"R0": rev}}},
		{Name: "fin_nrev200_catch", Goal: "catch(nrev200(R0), _, true)", Finite: true, MaxN: 60000, Expect: []map[string]string{{"R0": rev}}},
		{Name: "fin_nrev200_findall", Goal: "findall(R1, nrev200(R1), [R0]), R1 = x", D: 1, Finite: true, MaxN: 60000, Expect: []map[string]string{{"R0": rev, "R1": "x"}}},
		{Name: "fin_nrev200_negneg", Goal: "\\+ \\+ nrev200(_)", D: 2, Finite: true, MaxN: 60000, Expect: []map[string]string{{}}},
		{Name: "fin_between5", Goal: "between(1, 5, X0)", Finite: true, MaxN: 40, Expect: five},
		{Name: "fin_cbase", Goal: "cbase(X0)", Finite: true, MaxN: 20, Expect: []map[string]string{{"X0": "1"}, {"X0": "2"}, {"X0": "3"}}},
		{Name: "fin_log300", Goal: "between(1, 300, X0), w(X0), fail", Finite: true, MaxN: 3000, Expect: nil},
		{Name: "fin_flen", Goal: "flen(N0)", D: 1, Finite: true, MaxN: 10000, Expect: []map[string]string{{"N0": "2000"}}},
	}
}

// c13Wrapper embeds a goal into a control construct; %d is the nesting level (for fresh variable names).
type c13Wrapper struct {
	Name        string
	Fmt         string // %[1]s = goal, %[2]d = level
	D           int
	Transparent bool // answers of the goal stay answers of the wrapped goal
}

var c13Wrappers = []c13Wrapper{
	{Name: "none", Fmt: "%[1]s", Transparent: true},
	{Name: "findall", Fmt: "findall(V%[2]d, (%[1]s), W%[2]d)", D: 1},
	{Name: "bagof", Fmt: "bagof(V%[2]d, (%[1]s), W%[2]d)", D: 1},
	{Name: "setof", Fmt: "setof(V%[2]d, (%[1]s), W%[2]d)", D: 1},
	{Name: "neg", Fmt: "\\+ (%[1]s)", D: 1},
	{Name: "negneg", Fmt: "\\+ \\+ (%[1]s)", D: 2},
	{Name: "catch_any", Fmt: "catch((%[1]s), _, true)", Transparent: true},
	{Name: "catch_log", Fmt: "catch((%[1]s), E%[2]d, (w(caught(E%[2]d)), loop))", Transparent: true},
	{Name: "catch_findall", Fmt: "catch(findall(V%[2]d, (%[1]s), W%[2]d), _, true)", D: 1},
	{Name: "call1", Fmt: "call((%[1]s))", Transparent: true},
	{Name: "call2", Fmt: "call(call, (%[1]s))", Transparent: true},
	{Name: "once", Fmt: "once((%[1]s))"},
	{Name: "ite", Fmt: "((%[1]s) -> true ; true)"},
	{Name: "disj", Fmt: "(fail ; (%[1]s))", Transparent: true},
	{Name: "call_nth", Fmt: "call_nth((%[1]s), 3)"},
	{Name: "conj_bt", Fmt: "cbase(A%[2]d), (%[1]s)"},
	{Name: "findall_neg", Fmt: "findall(V%[2]d, \\+ (%[1]s), W%[2]d)", D: 2},
}

// c13API is one way of running a goal through the public API.
type c13API struct {
	Name string
	API  string // worker API
	D    int
	// text builds the call text and the files from the goal
	build func(goal string) (text string, files map[string]string)
}

var c13APIs = []c13API{
	{Name: "query", API: "query", build: func(g string) (string, map[string]string) { return g + ".", nil }},
	{Name: "solution", API: "solution", build: func(g string) (string, map[string]string) { return g + ".", nil }},
	{Name: "exec_directive", API: "exec", build: func(g string) (string, map[string]string) { return ":- " + g + ".", nil }},
	{Name: "exec_initialization", API: "exec", build: func(g string) (string, map[string]string) {
		return ":- initialization((" + g + ")).", nil
	}},
	{Name: "exec_between_clauses", API: "exec", build: func(g string) (string, map[string]string) {
		return "cp_a(1).\n:- " + g + ".\ncp_b(2).\n", nil
	}},
	{Name: "exec_consult", API: "exec", D: 1, build: func(g string) (string, map[string]string) {
		return ":- consult(cfile).", map[string]string{"cfile.pl": "cf_a(1).\n:- " + g + ".\ncf_b(2).\n"}
	}},
	{Name: "exec_consult_init", API: "exec", D: 1, build: func(g string) (string, map[string]string) {
		return ":- consult(cfile).", map[string]string{"cfile.pl": ":- initialization((" + g + ")).\ncf_a(1).\n"}
	}},
	{Name: "exec_ensure_loaded", API: "exec", D: 1, build: func(g string) (string, map[string]string) {
		return ":- ensure_loaded(cfile).", map[string]string{"cfile.pl": ":- " + g + ".\n"}
	}},
	{Name: "exec_include", API: "exec", D: 1, build: func(g string) (string, map[string]string) {
		return ":- include(cfile).", map[string]string{"cfile.pl": ":- " + g + ".\n"}
	}},
	{Name: "query_consult", API: "query", D: 1, build: func(g string) (string, map[string]string) {
		return "consult(cfile).", map[string]string{"cfile.pl": ":- " + g + ".\n"}
	}},
	{Name: "solution_consult", API: "solution", D: 1, build: func(g string) (string, map[string]string) {
		return "catch(consult(cfile), _, true).", map[string]string{"cfile.pl": ":- " + g + ".\n"}
	}},
}

// c13ReloadAPIs load a file whose directive runs the goal only while cgate/0 holds; after the cancelled load the
// follow-up calls drop the gate, load the same file again on the same interpreter and ask for what it defines: a file
// whose load was interrupted must not count as loaded (family "reload").
var c13ReloadAPIs = []c13API{
	{Name: "reload_exec_consult", API: "exec", D: 1, build: func(g string) (string, map[string]string) {
		return ":- consult(cfile).", map[string]string{"cfile.pl": "cf_a(1).\n:- (cgate -> " + g + " ; assertz(cf_ran(1))).\ncf_done(2).\n"}
	}},
	{Name: "reload_exec_consult_init", API: "exec", D: 1, build: func(g string) (string, map[string]string) {
		return ":- consult(cfile).", map[string]string{"cfile.pl": ":- initialization((cgate -> " + g + " ; assertz(cf_ran(1)))).\ncf_done(2).\n"}
	}},
	{Name: "reload_exec_ensure_loaded", API: "exec", D: 1, build: func(g string) (string, map[string]string) {
		return ":- ensure_loaded(cfile).", map[string]string{"cfile.pl": ":- (cgate -> " + g + " ; assertz(cf_ran(1))).\ncf_done(2).\n"}
	}},
	{Name: "reload_query_consult", API: "query", D: 1, build: func(g string) (string, map[string]string) {
		return "consult(cfile).", map[string]string{"cfile.pl": ":- (cgate -> " + g + " ; assertz(cf_ran(1))).\ncf_done(2).\n"}
	}},
	{Name: "reload_solution_list", API: "solution", D: 1, build: func(g string) (string, map[string]string) {
		return "[cfile].", map[string]string{"cfile.pl": "cf_a(1).\n:- (cgate -> " + g + " ; assertz(cf_ran(1))).\ncf_done(2).\n"}
	}},
}

const c13ReloadSetup = ":- dynamic(cgate/0).\n:- dynamic(cf_ran/1).\ncgate.\n"

var c13ReloadFollow = []proto.Step{
	{Exec: ":- retractall(cgate)."},
	{Query: "consult(cfile), cf_ran(X), cf_done(Y)."},
}

var c13ReloadExpect = [][]map[string]string{
	nil,
	{{"X": "1", "Y": "2"}},
}

// follow-up calls and their known answers
var c13Follow = []proto.Step{
	{Query: "X = f(Y), Y = 1."},
	{Query: "X is 2+3."},
	{Exec: "cancel_probe(1)."},
	{Query: "cancel_probe(X)."},
	{Query: "cbase(X)."},
	{Query: "findall(Z, (between(1, 3, Z), \\+ Z = 2), L), Z = z."},
}

var c13FollowExpect = [][]map[string]string{
	{{"X": "f(1)", "Y": "1"}},
	{{"X": "5"}},
	nil,
	{{"X": "1"}},
	{{"X": "1"}, {"X": "2"}, {"X": "3"}},
	{{"L": "[1,3]", "Z": "z"}},
}

// c13Meta is what Judge needs besides the outcome.
type c13Meta struct {
	Core     string              `json:"core"`
	Wrappers []string            `json:"wrappers,omitempty"`
	APIName  string              `json:"api"`
	Goal     string              `json:"goal"`
	D        int                 `json:"d"`
	B        int64               `json:"b"`
	Finite   bool                `json:"finite,omitempty"`
	Multi    bool                `json:"multi,omitempty"`
	Expect   []map[string]string `json:"expect,omitempty"`
	Family   string              `json:"family"`
	Reload   bool                `json:"reload,omitempty"`
}

func c13Grid() (small, logs []int64) {
	for n := int64(1); n <= 50; n++ {
		small = append(small, n)
	}
	seen := map[int64]bool{}
	for i := 0; i < 60; i++ {
		v := int64(math.Round(math.Pow(10, 1.75+float64(i)*(6-1.75)/59)))
		if v > 50 && !seen[v] {
			seen[v] = true
			logs = append(logs, v)
		}
	}
	return
}

type c13Builder struct {
	items []*Item
	seen  map[string]bool
}

func c13Wrap(core c13Core, ws []c13Wrapper) (goal string, d int, names []string) {
	goal, d = core.Goal, core.D
	for i, w := range ws {
		goal = fmt.Sprintf(w.Fmt, goal, i+1)
		d += w.D
		names = append(names, w.Name)
	}
	return
}

func (b *c13Builder) add(family string, core c13Core, ws []c13Wrapper, api c13API, mode string, n int64, ctxKind string, r *rand.Rand) {
	goal, d, names := c13Wrap(core, ws)
	d += api.D + 1 // +1: fail/0 is \+ true, and the bootstrap library may nest one trampoline of its own
	B := int64(2*d + 16)
	text, files := api.build(goal)
	pl := proto.CancelPayload{API: api.API, Setup: []string{c13Program}, Text: text, Mode: mode, N: n, Ctx: ctxKind,
		Limit: B + 100000, Follow: c13Follow, Seed: r.Uint64()}
	reload := strings.HasPrefix(api.Name, "reload_")
	if reload {
		pl.Setup = append(pl.Setup, c13ReloadSetup)
		pl.Follow = append(append([]proto.Step{}, c13Follow...), c13ReloadFollow...)
	}
	switch r.Intn(4) {
	case 0:
		pl.Gosched = 5
	case 1:
		pl.Gosched = 60
	}
	if api.API == "query" {
		switch {
		case core.Multi && mode == "between":
			pl.Max = int(n) + 3
		case core.Multi:
			pl.Max = int(n) + 2 // every answer costs at least one step: the instant is reached first
		case core.Finite:
			pl.Max = len(core.Expect) + 1
		default:
			pl.Max = 2
		}
	}
	p, _ := json.Marshal(&pl)
	c := &proto.Case{Kind: "cancel", P: p, Files: files}
	key := fmt.Sprintf("%s|%s|%s|%d|%s", goal, api.Name, mode, n, ctxKind)
	if b.seen[key] {
		return
	}
	b.seen[key] = true
	meta, _ := json.Marshal(&c13Meta{Core: core.Name, Wrappers: names, APIName: api.Name, Goal: goal, D: d, B: B,
		Finite: core.Finite, Multi: core.Multi, Expect: core.Expect, Family: family, Reload: reload})
	b.items = append(b.items, &Item{Cases: []*proto.Case{c}, Meta: meta,
		Note: fmt.Sprintf("%s via %s, %s at %d (%s)", goal, api.Name, mode, n, ctxKind)})
}

func c13CtxKind(r *rand.Rand) string {
	switch k := r.Intn(10); {
	case k < 5:
		return "cancel"
	case k < 7:
		return "child"
	default:
		return "deadline"
	}
}

// c13Instants picks k instants <= max, stratified over the grid (small values and log-spaced ones).
func c13Instants(r *rand.Rand, k int, max int64) []int64 {
	small, logs := c13Grid()
	var grid []int64
	for _, v := range append(small, logs...) {
		if v <= max {
			grid = append(grid, v)
		}
	}
	if k >= len(grid) {
		return grid
	}
	var out []int64
	for s := 0; s < k; s++ {
		lo, hi := s*len(grid)/k, (s+1)*len(grid)/k
		out = append(out, grid[lo+r.Intn(hi-lo)])
	}
	return out
}

func (c *c13) build(cx *Ctx) []*Item {
	b := &c13Builder{seen: map[string]bool{}}
	thorough := cx.Thorough()
	pick := func(q, t int) int {
		if thorough {
			return t
		}
		return q
	}
	goalAPIs := c13APIs
	apiOf := func(r *rand.Rand) c13API { return goalAPIs[r.Intn(len(goalAPIs))] }
	byName := func(name string) c13API {
		for _, a := range c13APIs {
			if a.Name == name {
				return a
			}
		}
		panic(name)
	}
	wrapper := func(name string) c13Wrapper {
		for _, w := range c13Wrappers {
			if w.Name == name {
				return w
			}
		}
		panic(name)
	}

	// 1. every looping core under every single wrapper, instants stratified over the grid
	for _, core := range c13Infinite {
		for _, w := range c13Wrappers {
			r := cx.Rng("c13/single/" + core.Name + "/" + w.Name)
			for _, n := range c13Instants(r, pick(6, 200), core.MaxN) {
				reps := pick(1, 2)
				if n > 100000 {
					reps = 1 // the long runs dominate the cost
				}
				for i := 0; i < reps; i++ {
					b.add("single", core, []c13Wrapper{w}, apiOf(r), "hook", n, c13CtxKind(r), r)
				}
			}
		}
	}
	// 2. two wrappers deep
	{
		r := cx.Rng("c13/double")
		for i, n := 0, pick(170, 9000); i < n; i++ {
			core := c13Infinite[r.Intn(len(c13Infinite))]
			ws := []c13Wrapper{c13Wrappers[1+r.Intn(len(c13Wrappers)-1)], c13Wrappers[1+r.Intn(len(c13Wrappers)-1)]}
			api := apiOf(r)
			max := core.MaxN
			if thorough && max > 100000 {
				max = 100000
			}
			for _, inst := range c13Instants(r, pick(4, 6), max) {
				b.add("double", core, ws, api, "hook", inst, c13CtxKind(r), r)
			}
		}
	}
	// 3. small instants 1..50 swept completely for shapes whose nesting changes from step to step
	{
		sweeps := []struct {
			core string
			ws   []string
			api  string
		}{
			{"repeat_fail", []string{"findall", "neg"}, "query"},
			{"repeat_findall", []string{"catch_any"}, "solution"},
			{"log_repeat", []string{"negneg"}, "exec_directive"},
			{"repeat_neg_log", []string{"bagof"}, "exec_consult"},
			{"rec_count", []string{"catch_log"}, "query"},
			{"between_fail", []string{"findall_neg"}, "exec_initialization"},
		}
		for _, s := range sweeps {
			var core c13Core
			for _, k := range c13Infinite {
				if k.Name == s.core {
					core = k
				}
			}
			var ws []c13Wrapper
			for _, w := range s.ws {
				ws = append(ws, wrapper(w))
			}
			r := cx.Rng("c13/sweep/" + s.core)
			for n := int64(1); n <= int64(pick(50, 400)); n++ {
				b.add("sweep", core, ws, byName(s.api), "hook", n, c13CtxKind(r), r)
			}
		}
	}
	// 4. already cancelled / already expired contexts (instant 0)
	{
		r := cx.Rng("c13/before")
		cores := append(append([]c13Core{}, c13Infinite...), c13Multi...)
		for _, core := range cores {
			for _, api := range c13APIs {
				if core.Multi && api.API != "query" {
					continue
				}
				for _, kind := range []string{"cancel", "deadline_past", "child"} {
					if !thorough && r.Intn(3) != 0 {
						continue
					}
					w := c13Wrappers[0]
					if r.Intn(2) == 0 && !core.Multi {
						w = c13Wrappers[r.Intn(len(c13Wrappers))]
					}
					b.add("before", core, []c13Wrapper{w}, api, "before", 0, kind, r)
				}
			}
		}
	}
	// 5. endless answer streams: cancelled by the caller between two answers, and from the hook while an answer
	//    is being computed
	{
		r := cx.Rng("c13/multi")
		var transparent []c13Wrapper
		for _, w := range c13Wrappers {
			if w.Transparent {
				transparent = append(transparent, w)
			}
		}
		counts := []int64{1, 2, 3, 5, 10, 100}
		if thorough {
			counts = append(counts, 4, 7, 20, 50, 400, 1000)
		}
		for _, core := range c13Multi {
			for _, w := range transparent {
				for _, k := range counts {
					if core.Name == "answers_length" && k > 100 {
						continue
					}
					kind := []string{"cancel", "deadline", "child"}[r.Intn(3)]
					b.add("between", core, []c13Wrapper{w}, byName("query"), "between", k, kind, r)
				}
				for _, n := range c13Instants(r, pick(5, 60), core.MaxN) {
					b.add("multi_hook", core, []c13Wrapper{w}, byName("query"), "hook", n, c13CtxKind(r), r)
				}
			}
		}
	}
	// 6. long finite runs: cancelled before the end the answer must not be delivered; past the end they finish first
	{
		r := cx.Rng("c13/finite")
		for _, core := range c13Finite() {
			for _, api := range []string{"query", "solution", "exec_directive", "exec_consult"} {
				if api == "exec_consult" && core.Name != "fin_nrev200" {
					continue
				}
				for _, n := range c13Instants(r, pick(9, 60), core.MaxN) {
					b.add("finite", core, nil, byName(api), "hook", n, c13CtxKind(r), r)
				}
				b.add("finite", core, nil, byName(api), "never", 0, "cancel", r)
			}
		}
	}
	// 6b. a load that was cancelled is loaded again afterwards on the same interpreter
	{
		r := cx.Rng("c13/reload")
		for _, api := range c13ReloadAPIs {
			for i, n := 0, pick(6, 60); i < n; i++ {
				core := c13Infinite[r.Intn(len(c13Infinite))]
				var ws []c13Wrapper
				if r.Intn(2) == 0 {
					ws = []c13Wrapper{c13Wrappers[r.Intn(len(c13Wrappers))]}
				}
				for _, inst := range c13Instants(r, pick(3, 8), core.MaxN) {
					b.add("reload", core, ws, api, "hook", inst, c13CtxKind(r), r)
				}
				if i%3 == 0 {
					b.add("reload", core, ws, api, "before", 0, []string{"cancel", "deadline_past", "child"}[r.Intn(3)], r)
				}
			}
		}
	}
	// 7. cancellation by a second goroutine woken at step N
	{
		r := cx.Rng("c13/async")
		for i, n := 0, pick(160, 4000); i < n; i++ {
			core := c13Infinite[r.Intn(len(c13Infinite))]
			w := c13Wrappers[r.Intn(len(c13Wrappers))]
			inst := c13Instants(r, 1, 2000)[0]
			b.add("async", core, []c13Wrapper{w}, apiOf(r), "async", inst, "cancel", r)
		}
	}
	// 8. the program cancels its own context in the middle of a step (cancel_at/1)
	{
		r := cx.Rng("c13/goal")
		ks := []int64{1, 2, 3, 7, 50, 1000, 20000}
		for _, gc := range c13GoalCores {
			for _, w := range c13Wrappers {
				for _, k := range ks {
					if k > gc.MaxN || (!thorough && r.Intn(3) != 0) {
						continue
					}
					core := gc
					core.Goal = fmt.Sprintf(gc.Goal, k)
					b.add("goal", core, []c13Wrapper{w}, apiOf(r), "goal", k, c13CtxKind(r), r)
				}
			}
		}
	}
	// 9. real timers: smoke
	{
		r := cx.Rng("c13/timer")
		b.add("timer", c13Infinite[3], []c13Wrapper{wrapper("findall")}, byName("query"), "timer", 3000, "timeout", r)
		b.add("timer", c13Infinite[8], []c13Wrapper{wrapper("none")}, byName("exec_directive"), "timer", 1500, "timeout", r)
	}
	return b.items
}

const c13Chunk = 20000

func (c *c13) Generate(cx *Ctx, chunk int) []*Item {
	if c.items == nil {
		c.items = c.build(cx)
	}
	lo := chunk * c13Chunk
	if lo >= len(c.items) {
		return nil
	}
	hi := lo + c13Chunk
	if hi > len(c.items) {
		hi = len(c.items)
	}
	return c.items[lo:hi]
}

// ---------------------------------------------------------------------------------------------------------
// oracle

var c13GoroutineHdr = regexp.MustCompile(`(?m)^goroutine (\d+) \[([^\],]+)[^\]]*\]:$`)

// c13Spinning looks for a goroutine that is executing (not parked) inside the library; it returns its top frames.
func c13Spinning(dump string) (string, bool) {
	locs := c13GoroutineHdr.FindAllStringSubmatchIndex(dump, -1)
	for i, m := range locs {
		end := len(dump)
		if i+1 < len(locs) {
			end = locs[i+1][0]
		}
		state := dump[m[4]:m[5]]
		body := dump[m[1]:end]
		if state != "running" && state != "runnable" {
			continue
		}
		if !strings.Contains(body, "github.com/ichiban/prolog") {
			continue
		}
		if strings.Contains(body, "(*cancelRun).abort") {
			continue // the goroutine that wrote the dump (hook or watchdog)
		}
		return c13TopFrames(body, 6), true
	}
	return "", false
}

// c13Blocked: the goroutine that made the call is parked inside the library and no goroutine is executing library
// code that could ever wake it (the library uses no timers): the call can never return.
func c13Blocked(dump string) (string, bool) {
	locs := c13GoroutineHdr.FindAllStringSubmatchIndex(dump, -1)
	where, parked := "", false
	for i, m := range locs {
		end := len(dump)
		if i+1 < len(locs) {
			end = locs[i+1][0]
		}
		state := dump[m[4]:m[5]]
		body := dump[m[1]:end]
		if !strings.Contains(body, "github.com/ichiban/prolog") || strings.Contains(body, "(*cancelRun).abort") {
			continue
		}
		switch state {
		case "chan receive", "chan send", "select", "semacquire", "sync.Cond.Wait", "sync.Mutex.Lock", "sync.RWMutex.Lock", "sync.RWMutex.RLock", "sync.WaitGroup.Wait":
			if strings.Contains(body, "(*cancelRun).call") {
				parked = true
				where = state + " in " + c13TopFrames(body, 4)
			}
		default:
			return "", false // some library goroutine is not parked: it may still wake the caller
		}
	}
	return where, parked
}

func c13TopFrames(body string, k int) string {
	var out []string
	for _, l := range strings.Split(body, "\n") {
		l = strings.TrimSpace(l)
		if l == "" || strings.HasPrefix(l, "/") || strings.HasPrefix(l, "goroutine ") || strings.HasPrefix(l, "created by") {
			continue
		}
		if i := strings.IndexByte(l, '('); i > 0 && strings.Contains(l, ".") {
			// keep the function name, drop the argument words
			if j := strings.LastIndex(l, "("); j > 0 {
				l = l[:j]
			}
		}
		out = append(out, l)
		if len(out) >= k {
			break
		}
	}
	return strings.Join(out, " < ")
}

// c13EngineFrames extracts the engine frames of the goroutine that hit the step limit (it is inside abort).
func c13EngineFrames(dump string) string {
	locs := c13GoroutineHdr.FindAllStringSubmatchIndex(dump, -1)
	for i, m := range locs {
		end := len(dump)
		if i+1 < len(locs) {
			end = locs[i+1][0]
		}
		body := dump[m[1]:end]
		if !strings.Contains(body, "(*cancelRun).abort") {
			continue
		}
		var out []string
		for _, l := range strings.Split(body, "\n") {
			l = strings.TrimSpace(l)
			if strings.HasPrefix(l, "github.com/ichiban/prolog") {
				if j := strings.LastIndex(l, "("); j > 0 {
					l = l[:j]
				}
				l = strings.TrimPrefix(l, "github.com/ichiban/prolog/")
				if len(out) == 0 || out[len(out)-1] != l {
					out = append(out, l)
				}
			}
			if len(out) >= 8 {
				break
			}
		}
		return strings.Join(out, " < ")
	}
	return ""
}

var c13RaceAccess = regexp.MustCompile(`(?m)^(?:Previous )?(?:[Aa]tomic )?(?:[Ww]rite|[Rr]ead) at 0x[0-9a-f]+ by [^\n]*\n\s+(\S+)\(`)

// c13RaceInMonitor: both accesses of the first race report are made by the worker's own code or by the verif
// call-through (the hook variable), i.e. the race is not in the library.
func c13RaceInMonitor(stderr string) bool {
	ms := c13RaceAccess.FindAllStringSubmatch(stderr, 2)
	if len(ms) < 2 {
		return false
	}
	for _, m := range ms {
		f := m[1]
		if !strings.HasPrefix(f, "main.") && !strings.HasPrefix(f, "github.com/ichiban/prolog/engine.verif") {
			return false
		}
	}
	return true
}

func c13AnswersText(as []map[string]string) string {
	var parts []string
	for _, a := range as {
		var ks []string
		for k := range a {
			ks = append(ks, k)
		}
		sort.Strings(ks)
		var kv []string
		for _, k := range ks {
			v := a[k]
			if len(v) > 40 {
				v = v[:40] + "…"
			}
			kv = append(kv, k+"="+v)
		}
		parts = append(parts, "{"+strings.Join(kv, ",")+"}")
		if len(parts) >= 6 {
			parts = append(parts, "…")
			break
		}
	}
	return "[" + strings.Join(parts, " ") + "]"
}

func c13SameAnswers(a, b []map[string]string) bool {
	if len(a) != len(b) {
		return false
	}
	for i := range a {
		if len(a[i]) != len(b[i]) {
			return false
		}
		for k, v := range a[i] {
			if w, ok := b[i][k]; !ok || w != v {
				return false
			}
		}
	}
	return true
}

// c13CheckFollow compares the follow-up calls with their known answers.
func c13CheckFollow(fs []proto.StepResult, reload bool) string {
	c13Follow, c13FollowExpect := c13Follow, c13FollowExpect
	if reload {
		c13Follow = append(append([]proto.Step{}, c13Follow...), c13ReloadFollow...)
		c13FollowExpect = append(append([][]map[string]string{}, c13FollowExpect...), c13ReloadExpect...)
	}
	if len(fs) != len(c13Follow) {
		return fmt.Sprintf("%d follow-up results for %d calls", len(fs), len(c13Follow))
	}
	for i, f := range fs {
		what := c13Follow[i].Query
		if what == "" {
			what = "Exec " + c13Follow[i].Exec
		}
		if f.Err != nil {
			return fmt.Sprintf("follow-up %q returned error %s", what, f.Err.Text)
		}
		if f.BudgetHit {
			return fmt.Sprintf("follow-up %q did not terminate", what)
		}
		if c13Follow[i].Exec != "" {
			continue
		}
		var got []map[string]string
		for _, a := range f.Answers {
			m := map[string]string{}
			for k, v := range a {
				m[k] = v.String()
			}
			got = append(got, m)
		}
		if !c13SameAnswers(got, c13FollowExpect[i]) || !f.Exhausted {
			return fmt.Sprintf("follow-up %q answered %s, expected %s", what, c13AnswersText(got), c13AnswersText(c13FollowExpect[i]))
		}
	}
	return ""
}

func c13Bucket(n int64) string {
	switch {
	case n <= 3:
		return fmt.Sprint(n)
	case n <= 8:
		return "4-8"
	default:
		return "9+"
	}
}

func (c *c13) Judge(cx *Ctx, it *Item, outs []*run.Outcome) Verdict {
	var m c13Meta
	if err := json.Unmarshal(it.Meta, &m); err != nil {
		return Verdict{Status: Inconclusive, Msg: "meta: " + err.Error()}
	}
	var pl proto.CancelPayload
	if err := json.Unmarshal(it.Cases[0].P, &pl); err != nil {
		return Verdict{Status: Inconclusive, Msg: "payload: " + err.Error()}
	}
	desc := fmt.Sprintf("%s | %s | %s at %d, ctx %s", pl.Text, m.APIName, pl.Mode, pl.N, pl.Ctx)
	if len(it.Cases[0].Files) > 0 {
		desc = fmt.Sprintf("%s [cfile.pl: %s]", desc, oneLine(it.Cases[0].Files["cfile.pl"]))
	}
	o := outs[0]
	if o.Crash != nil {
		st := o.Crash.Stderr
		switch {
		case o.Crash.Hung:
			return Verdict{Status: Inconclusive, Msg: "wall-clock watchdog of the pool fired: " + desc}
		case strings.Contains(st, "WARNING: DATA RACE") && c13RaceInMonitor(st):
			return Verdict{Status: Inconclusive, Msg: "race report on the monitor's own variables (hook installation), not on the library: " + desc}
		case strings.Contains(st, "WARNING: DATA RACE") && strings.Contains(st, "github.com/ichiban/prolog"):
			return Verdict{Status: Violated, Class: "data_race", Msg: "race detector report while cancelling: " + desc + "\n" + firstLines(st, 40),
				Sample: map[string]interface{}{"case": desc, "stderr": firstLines(st, 60)}}
		case (strings.Contains(st, "panic:") || strings.Contains(st, "fatal error: all goroutines are asleep")) && strings.Contains(st, "github.com/ichiban/prolog"):
			return Verdict{Status: Violated, Class: "crash", Msg: "the worker died instead of the call returning the context's error (" + o.Crash.Exit + "): " + desc + "\n" + firstLines(st, 30),
				Sample: map[string]interface{}{"case": desc, "stderr": firstLines(st, 60)}}
		}
		return Verdict{Status: Inconclusive, Msg: "worker ended (" + o.Crash.Exit + "): " + desc}
	}
	if o.Res == nil || o.Res.Fatal != "" || len(o.Res.R) == 0 {
		msg := "no result"
		if o.Res != nil {
			msg = o.Res.Fatal
		}
		return Verdict{Status: Inconclusive, Msg: "worker: " + msg + ": " + desc}
	}
	var r proto.CancelResult
	if err := json.Unmarshal(o.Res.R, &r); err != nil {
		return Verdict{Status: Inconclusive, Msg: "result: " + err.Error()}
	}
	for _, e := range r.SetupErr {
		if e != nil {
			return Verdict{Status: Inconclusive, Msg: "setup failed: " + e.Text}
		}
	}
	errText := "nil"
	if r.Err != nil {
		errText = r.Err.Text
	}
	observed := map[string]interface{}{
		"cancelled": r.Cancelled, "cancel_step": r.CancelStep, "force_nesting_at_cancel": r.ForceDepth, "promise_stack_depth_at_cancel": r.StackDepth,
		"steps_after_cancel": r.StepsAfter + r.StepsAfterReturn, "logged_goals_before": r.EventsBefore, "logged_goals_after": r.EventsAfter,
		"output_bytes_after": r.BytesAfter, "answers": len(r.Answers), "answers_after": r.AnswersAfter, "returned": r.Returned, "error": errText, "ctx_err": r.CtxErr,
		"latency_us_evidence_only": r.WallAfterNs / 1000,
	}
	sample := map[string]interface{}{
		"call": desc, "program": "c13Program + goal", "d": m.D, "bound_B": m.B,
		"expected": fmt.Sprintf("returns an error that is the context's error after <= %d further steps, <= %d further logged goals, no further answer; follow-ups answer %s", m.B, m.B, "f(1)/1, 5, ok, 1, 1 2 3, [1,3]"),
		"observed": observed,
	}
	v := Verdict{Status: Held, Sample: sample, Extra: map[string]int64{
		"family_" + m.Family: 1, "api_" + m.APIName: 1, "mode_" + pl.Mode: 1, "ctx_" + pl.Ctx: 1, "core_" + m.Core: 1,
	}}
	for _, w := range m.Wrappers {
		v.Extra["wrapper_"+w]++
	}
	if pl.Gosched > 0 {
		v.Extra["cases_with_gosched_injection"] = 1
		v.Extra["gosched_calls"] = r.Goscheds
	}
	fail := func(class, msg string) Verdict {
		v.Status, v.Class, v.Msg = Violated, class, msg+" | "+desc
		return v
	}
	inconclusive := func(msg string) Verdict {
		v.Status, v.Msg = Inconclusive, msg+" | "+desc
		return v
	}

	if !o.Res.Hooks {
		// no logical clock: only "looks fine" or "cannot tell"
		v.Extra["without_hooks"] = 1
		if r.Returned && (r.ErrIsCtx || !r.Cancelled || m.Finite) && c13CheckFollow(r.Follow, m.Reload) == "" {
			return v
		}
		return inconclusive("worker built without the verif hooks: observed error " + errText)
	}

	// the experiment had to be stopped
	if r.Ignored {
		v.NonTrivial = r.ForceDepth >= 2
		where := c13EngineFrames(r.Dump)
		sample["goroutines"] = firstLines(r.Dump, 60)
		return fail("cancellation_ignored", fmt.Sprintf("context cancelled at step %d but the call had not returned %d trampoline steps later (bound %d); it keeps running in: %s",
			r.CancelStep, r.StepsAfter, m.B, where))
	}
	if r.Stuck != "" {
		sample["goroutines"] = firstLines(r.Dump, 60)
		if where, ok := c13Spinning(r.Dump); ok && r.Stuck == "cpu" {
			return fail("spinning_without_poll", fmt.Sprintf("context cancelled at step %d; %.1f CPU-seconds later the call had not returned and had taken %d further trampoline steps; a goroutine is executing inside the library: %s",
				r.CancelStep, r.CPUAfter, r.StepsAfter, where))
		}
		if where, ok := c13Blocked(r.Dump); ok && r.Stuck == "idle" {
			return fail("blocked_forever", fmt.Sprintf("context cancelled at step %d; the call never returned: the calling goroutine is parked (%s), the process is idle (%.2f CPU-s in %.1f s) and every goroutine inside the library is parked as well",
				r.CancelStep, where, r.CPUAfter, float64(r.WallAfterNs)/1e9))
		}
		return inconclusive(fmt.Sprintf("call did not return after the cancellation (stopped by the %s limit, %.1f CPU-s, no runnable library goroutine identified)", r.Stuck, r.CPUAfter))
	}
	if !r.Returned {
		return inconclusive("worker reported no return")
	}
	if r.BudgetHit {
		return inconclusive("the worker's overall step budget ended the run before the cancellation instant")
	}
	if pl.Mode == "timer" {
		v.Extra["timer_smoke"] = 1
		if r.ErrIsCtx || !r.Cancelled {
			return v
		}
		return inconclusive("timer smoke case returned " + errText)
	}

	follow := c13CheckFollow(r.Follow, m.Reload)

	if !r.Cancelled {
		// the call returned before the instant
		if pl.Mode == "never" {
			v.Extra["controls_without_cancellation"] = 1
		} else {
			v.Extra["finished_before_instant"] = 1
		}
		if !m.Finite {
			return inconclusive("a program that cannot terminate returned (" + errText + ") before the cancellation instant")
		}
		// sanity of the generator: the uncancelled finite run gives the known result (not a C13 matter otherwise)
		ok := follow == ""
		switch pl.API {
		case "query":
			ok = ok && r.Err == nil && c13SameAnswers(r.Answers, m.Expect)
		case "solution":
			if len(m.Expect) == 0 {
				ok = ok && r.Err != nil && r.Err.Exception == nil
			} else {
				ok = ok && r.Err == nil && c13SameAnswers(r.Answers, m.Expect[:1])
			}
		default:
			ok = ok && (r.Err == nil) == (len(m.Expect) > 0) && (r.Err == nil || r.Err.Exception == nil)
		}
		if !ok {
			return inconclusive("uncancelled finite run gave an unexpected result: " + errText + " " + c13AnswersText(r.Answers) + " " + follow)
		}
		return v
	}

	// cancelled while the call was pending (or before it was made)
	after := r.StepsAfter + r.StepsAfterReturn
	v.Extra["cancelled_while_pending"] = 1
	v.Extra["steps_after_cancel_"+c13Bucket(after)] = 1
	v.Extra["force_nesting_at_cancel_"+c13Bucket(int64(r.ForceDepth))] = 1
	v.NonTrivial = r.ForceDepth >= 2 || pl.Mode == "between"
	if r.Forced {
		v.Extra["instant_forced_because_clock_stood_still"] = 1
		v.Extra["instant_forced_core_"+m.Core] = 1
	}
	if pl.Mode == "between" {
		v.Extra["cancelled_between_answers"] = 1
	}
	if r.ErrSame {
		v.Extra["error_identical_to_ctx_err"] = 1
	}
	if after > m.B {
		return fail("late", fmt.Sprintf("%d trampoline steps ran after the cancellation at step %d before the call was over (bound %d for nesting %d); returned %s",
			after, r.CancelStep, m.B, m.D, errText))
	}
	if int64(r.EventsAfter) > m.B {
		return fail("goals_after_cancel", fmt.Sprintf("%d logged goals ran after the cancellation at step %d (last: %v)", r.EventsAfter, r.CancelStep, r.LastEvents))
	}
	if int64(r.BytesAfter) > m.B {
		return fail("goals_after_cancel", fmt.Sprintf("%d bytes were written to user_output after the cancellation at step %d (the programs write one byte per goal)", r.BytesAfter, r.CancelStep))
	}
	if pl.Mode == "before" && r.EventsBefore+r.EventsAfter == 0 {
		v.Extra["already_cancelled_ran_no_goal"] = 1
	}
	switch {
	case r.ErrIsCtx:
		want := "context canceled"
		if pl.Ctx == "deadline" || pl.Ctx == "deadline_past" {
			want = "context deadline exceeded"
		}
		if r.CtxErr != want {
			return inconclusive("the worker's context reports " + r.CtxErr + ", expected " + want)
		}
		if r.AnswersAfter > 0 {
			return fail("answer_after_cancel", fmt.Sprintf("%d answers were delivered after the cancellation at step %d", r.AnswersAfter, r.CancelStep))
		}
		if pl.API == "query" && !r.Exhausted {
			return fail("answer_after_cancel", "Next returned true after the cancellation although Err() is the context's error")
		}
		v.Extra["returned_ctx_error"] = 1
	case m.Finite && (r.Err == nil || r.Err.Exception == nil):
		// completion racing cancellation: the run was over within the bound
		v.Extra["finite_completed_within_bound"] = 1
		v.NonTrivial = false
	default:
		class := "wrong_error"
		what := "returned " + errText + " (" + c13AnswersText(r.Answers) + ")"
		if r.Err != nil && r.Err.Exception != nil {
			class = "cancellation_as_prolog_error"
			what = "surfaced as the Prolog exception " + r.Err.Exception.String()
		} else if r.Err == nil {
			class = "cancellation_swallowed"
		}
		return fail(class, fmt.Sprintf("cancelled at step %d, the call %s instead of the context's error %q; logged after the cancellation: %d goals %v",
			r.CancelStep, what, r.CtxErr, r.EventsAfter, r.LastEvents))
	}
	if follow != "" {
		return fail("unusable_afterwards", "after the cancelled call, "+follow)
	}
	v.Extra["follow_up_calls_checked"] = int64(len(r.Follow))
	return v
}
