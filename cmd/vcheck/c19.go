package main

import (
	"bytes"
	"encoding/json"
	"fmt"
	"math/rand"
	"strconv"
	"strings"
	"unicode/utf8"

	"verif/internal/proto"
	"verif/internal/run"
	"verif/internal/term"
)

// C19 — a stream is one forward cursor.
//
// Input half: an operation sequence over one input stream is executed twice on the real engine — as ONE
// conjunction in a single query and split over one query per operation — and both executions must equal a
// sequential cursor model over the source BYTES (c19Model). Output half: sequences of output operations
// (also under backtracking and over two sinks) must deliver exactly the concatenation of the written texts.
func init() { checks["C19"] = func() Check { return &c19{} } }

type c19 struct{}

func (*c19) ID() string    { return "C19" }
func (*c19) Level() string { return "exploration" }
func (*c19) Rule() string {
	return "input: operation sequences over one input stream, each run (a) as ONE conjunction in a single query and (b) as one query per operation on the same interpreter; every result (char/code/byte/term/end_of_file/-1/error formal, position, end_of_stream, at_end_of_stream) of both runs must equal a cursor model over the source bytes. Exhaustive part: ALL sequences of length <=4 over {get_char, peek_char, read_term, at_end_of_stream, position} on user_input and over {get_char, peek_char, read_term, end_of_stream} on a file opened with eof_action(error) (quick) resp. over these plus {end_of_stream, get_code, peek_code} and length 5 over the core set (thorough; the 1-argument run uses the core set plus end_of_stream) on 14 fixed text sources (empty, layout only, raw text, terms with/without trailing layout, '%' right after the end dot, comments, multi-byte), and all sequences of length <=4 (thorough <=5) over {get_byte, peek_byte, at_end_of_stream, position[, end_of_stream]} on 3 binary sources. Seeded part: random sources built from known segments (layout* term '.'), random streams (host reader bytes|onebyte|eofwithdata|chunk3|erroring:n, text|binary; files via open/4 with eof_action error|eof_code|reset, alias / set_input, 1- and 2-argument forms), sequences of length <=10 plus a drain suffix that reads past the end. Sequences are cut at the first operation the property does not constrain (read_term from inside a term, invalid UTF-8, I/O error). output: seeded sequences of put_char/nl/write/writeq/write_canonical/put_byte/flush_output, backtracking constructs and set_output over user_output and a file, as one conjunction and split; the bytes received per step and the file read back must equal the concatenation of the written texts. Non-trivial: (input) the asserted part of the sequence mixes >=2 operation kinds and an operation was executed with the cursor at the end of the source; (output) >=2 kinds of output operations; distinct by case hash."
}
func (*c19) Assumptions() []string {
	return []string{
		"after read_term the cursor is right after the end '.' (ISO 6.4.8: the layout after the end char is not part of the end token); an implementation that consumes the single layout character following the '.' is accepted too, but only consistently within one item (both runs, all operations)",
		"end_of_stream exactly at the end (before end_of_file was delivered by a consuming read) may be not, at or past; after a peek on a stream with eof_action(reset) that already was past it is not asserted either",
		"a peek at the end delivers end_of_file/-1 and leaves the stream as it was (ISO 8.12.2/8.13.2): the next get still delivers end_of_file even with eof_action(error)",
		"the culprit of permission_error(input, past_end_of_stream, _) and all error contexts are not compared",
		"the eof_action of the host-provided user_input is read from stream_property/2 (implementation defined default)",
		"I/O errors of the host reader: only the operations that need no byte at or after the failure point are asserted",
		"file read-back in the output half goes through the engine's own get_byte/2",
	}
}

func (*c19) Tune(cx *Ctx) { cx.Pool.Batch = 300 }

// c19Max: every query is deterministic by construction; asking for a second answer makes the worker wait
// until the engine's solver goroutine has finished before the next step starts (Solutions.Close does not
// wait), so that no two steps ever overlap on the stream.
const c19Max = 2

// ---------------------------------------------------------------------------------------------------
// sources

// c19Span is one term of a source: text [Start, End) where End is the offset just after the end '.'.
type c19Span struct {
	Start int          `json:"start"`
	End   int          `json:"end"`
	Alts  []*term.Term `json:"alts"` // acceptable values (variants); >1 only where a flag decides ("str")
}

type c19Src struct {
	Name  string    `json:"name,omitempty"`
	B     []byte    `json:"b"`
	Spans []c19Span `json:"spans,omitempty"`
}

func (s *c19Src) lay(t string) *c19Src { s.B = append(s.B, t...); return s }
func (s *c19Src) term(text string, alts ...*term.Term) *c19Src {
	start := len(s.B)
	s.B = append(s.B, text...)
	s.B = append(s.B, '.')
	s.Spans = append(s.Spans, c19Span{Start: start, End: len(s.B), Alts: alts})
	return s
}

type c19TermSpec struct {
	Text string
	Alts []*term.Term
}

func c19T(text string, alts ...*term.Term) c19TermSpec { return c19TermSpec{text, alts} }

// terms whose value is known without a parser
var c19Terms = []c19TermSpec{
	c19T("a", term.A("a")),
	c19T("foo", term.A("foo")),
	c19T("42", term.I(42)),
	c19T("0", term.I(0)),
	c19T("f(a,b)", term.C("f", term.A("a"), term.A("b"))),
	c19T("[1,2]", term.L(term.I(1), term.I(2))),
	c19T("\"str\"", term.Chars("str"), term.Codes("str")),
	c19T("'quoted atom'", term.A("quoted atom")),
	c19T("'a.b'", term.A("a.b")),
	c19T("'it''s'", term.A("it's")),
	c19T("\"a. b\"", term.Chars("a. b"), term.Codes("a. b")),
	c19T("f(X,Y,X)", term.C("f", term.V(0), term.V(1), term.V(0))),
	c19T("g('.')", term.C("g", term.A("."))),
	c19T("1.5", term.F(1.5)),
	c19T("a:-b", term.C(":-", term.A("a"), term.A("b"))),
	c19T("{x}", term.C("{}", term.A("x"))),
	c19T("[a|T]", term.PL(term.V(0), term.A("a"))),
	c19T("'é'", term.A("é")),
	c19T("0'a", term.I(97)),
	c19T("'hello world'", term.A("hello world")),
	c19T("-3", term.I(-3)),
	c19T("1 ", term.I(1)), // layout before the end char
	c19T("a+b", term.C("+", term.A("a"), term.A("b"))),
	c19T("x = y", term.C("=", term.A("x"), term.A("y"))),
	c19T("'% no comment'", term.A("% no comment")),
	c19T("p :- q, r", term.C(":-", term.A("p"), term.C(",", term.A("q"), term.A("r")))),
	c19T("[]", term.A("[]")),
	c19T("f(/* in */ a)", term.C("f", term.A("a"))),
}

func c19Spec(text string) c19TermSpec {
	for _, t := range c19Terms {
		if t.Text == text {
			return t
		}
	}
	panic("c19: no term spec " + text)
}

func (s *c19Src) t(text string) *c19Src {
	sp := c19Spec(text)
	return s.term(sp.Text, sp.Alts...)
}

func c19FixedText() []*c19Src {
	n := func(name string) *c19Src { return &c19Src{Name: name} }
	return []*c19Src{
		n("empty"),
		n("raw a").lay("a"),
		n("a.").t("a"),
		n("a. ").t("a").lay(" "),
		n("a.\\nb. ").t("a").lay("\n").t("foo").lay(" "),
		n("comment between").lay(" ").t("a").lay(" % c\n ").t("42").lay("\n"),
		n("multibyte term").t("'é'"),
		n("raw multibyte").lay("é😀"),
		n("compound, list").t("f(a,b)").lay(" ").t("[1,2]").lay("\n"),
		n("dots in quotes").t("'a.b'").lay(" ").t("\"a. b\"").lay("\n"),
		n("bracketed comment, layout before end").lay("/* c */ ").t("1 ").lay(" \n"),
		n("percent after end").t("a").lay("%\n").t("foo"),
		n("layout only").lay("\n"),
		n("raw ab\\n").lay("ab\n"),
	}
}

func c19FixedBinary() []*c19Src {
	return []*c19Src{
		{Name: "empty"},
		{Name: "00 ff 41", B: []byte{0x00, 0xff, 0x41}},
		{Name: "ab", B: []byte("ab")},
	}
}

// file contents travel to the worker as JSON strings: valid UTF-8 only
func c19FixedBinaryFile() []*c19Src {
	return []*c19Src{
		{Name: "empty"},
		{Name: "00 7f 41", B: []byte{0x00, 0x7f, 0x41}},
		{Name: "c3 a9", B: []byte("é")},
	}
}

// ---------------------------------------------------------------------------------------------------
// the cursor model

// c19Stream is what the model needs to know about the stream under test.
type c19Stream struct {
	Src    c19Src `json:"src"`
	Binary bool   `json:"binary,omitempty"`
	Host   bool   `json:"host,omitempty"`   // user_input backed by a host reader; else a file opened by open/4
	Reader string `json:"reader,omitempty"` // host reader kind
	EOF    string `json:"eof"`              // eof_action: error | eof_code | reset (host: assumed, re-read from the engine)
	Access string `json:"access"`           // s2: stream term + 2-argument built-ins; a1: 1-argument forms on current input; alias; setin
}

// failAt is the offset at which the host reader reports an I/O error instead of data (-1: never).
func (s *c19Stream) failAt() int {
	if strings.HasPrefix(s.Reader, "erroring:") {
		n, _ := strconv.Atoi(strings.TrimPrefix(s.Reader, "erroring:"))
		if n > len(s.Src.B) {
			n = len(s.Src.B)
		}
		return n
	}
	return -1
}

const (
	c19PastNo = iota
	c19PastYes
	c19PastUnknown
)

// c19Exp is the model's expectation for one operation.
type c19Exp struct {
	Kind  string       // val | err | set | skip | wrongtype | dead
	Alts  []*term.Term // val
	Set   []string     // set: allowed atoms
	Why   string       // skip: why the property does not constrain it
	AtEnd bool         // the operation started with the cursor at the end of the source
}

func (e c19Exp) String() string {
	switch e.Kind {
	case "val":
		var ss []string
		for _, a := range e.Alts {
			ss = append(ss, a.String())
		}
		return strings.Join(ss, " | ")
	case "err":
		return "error(permission_error(input,past_end_of_stream,_),_)"
	case "set":
		return "one of " + strings.Join(e.Set, "/")
	case "skip":
		return "(not asserted: " + e.Why + ")"
	case "wrongtype":
		return "(an error; nothing consumed)"
	default:
		return "(not executed)"
	}
}

type c19Model struct {
	st      *c19Stream
	eof     string // effective eof_action
	endSkip bool   // convention: read_term also consumes one layout char after the end '.'
	cur     int
	past    int
}

func c19Val(alts ...*term.Term) c19Exp { return c19Exp{Kind: "val", Alts: alts} }
func c19Skip(why string) c19Exp        { return c19Exp{Kind: "skip", Why: why} }

var c19EOFAtom = term.A("end_of_file")

func c19IsLayout(b byte) bool { return b == ' ' || b == '\t' || b == '\n' || b == '\r' }

// c19SkipLayout skips complete layout text (white space, %-comments, bracketed comments) from i.
func c19SkipLayout(b []byte, i int) (int, bool) {
	for i < len(b) {
		switch {
		case c19IsLayout(b[i]):
			i++
		case b[i] == '%':
			j := bytes.IndexByte(b[i:], '\n')
			if j < 0 {
				return i, false
			}
			i += j + 1
		case b[i] == '/' && i+1 < len(b) && b[i+1] == '*':
			j := bytes.Index(b[i+2:], []byte("*/"))
			if j < 0 {
				return i, false
			}
			i += 2 + j + 2
		default:
			return i, true
		}
	}
	return i, true
}

// atEnd handles a read at the end of the source. eofVal is end_of_file or -1.
func (m *c19Model) atEnd(consuming bool, eofVal *term.Term) c19Exp {
	if m.st.failAt() >= 0 {
		return c19Skip("io_error")
	}
	if m.past == c19PastYes && m.eof == "error" {
		return c19Exp{Kind: "err", AtEnd: true}
	}
	switch {
	case consuming:
		m.past = c19PastYes
	case m.past == c19PastYes && m.eof == "reset":
		// "another attempt is made": whether the stream still counts as past after the peek is open
		m.past = c19PastUnknown
	}
	e := c19Val(eofVal)
	e.AtEnd = true
	return e
}

// Operations whose second argument is already instantiated (get_char(S, b), get_byte(S, 98) ...): the item is read - and,
// for get_*, consumed - exactly as with an unbound argument, then unified; the observation is matched / nomatch.
var c19BoundOps = map[string]string{"get_char_b": "get_char", "peek_char_b": "peek_char", "get_code_b": "get_code", "peek_code_b": "peek_code",
	"get_byte_b": "get_byte", "peek_byte_b": "peek_byte"}

func c19BoundProbe(op string) *term.Term {
	if strings.HasPrefix(c19BoundOps[op], "get_char") || strings.HasPrefix(c19BoundOps[op], "peek_char") {
		return term.A("b")
	}
	return term.I('b')
}

func (m *c19Model) step(op string) c19Exp {
	if base, ok := c19BoundOps[op]; ok {
		e := m.stepPlain(base)
		if e.Kind == "val" {
			hit := false
			for _, a := range e.Alts {
				hit = hit || term.VariantAll([]*term.Term{a}, []*term.Term{c19BoundProbe(op)})
			}
			at := e.AtEnd
			if hit {
				e = c19Val(term.A("matched"))
			} else {
				e = c19Val(term.A("nomatch"))
			}
			e.AtEnd = at
		}
		return e
	}
	return m.stepPlain(op)
}

func (m *c19Model) stepPlain(op string) c19Exp {
	src := m.st.Src.B
	fail := m.st.failAt()
	switch op {
	case "repos", "rewind":
		// set_stream_position/2 on a file: to the position just read from the stream (nothing changes) / to 0
		if m.st.Host {
			return c19Skip("not_repositionable")
		}
		if fail >= 0 {
			return c19Skip("io_error")
		}
		if op == "rewind" {
			m.cur = 0
			m.past = c19PastNo
			if len(src) == 0 {
				m.past = c19PastUnknown
			}
		} else if m.cur == len(src) {
			m.past = c19PastUnknown // whether the stream still counts as past its end after the call is open
		}
		return c19Val(term.A("ok"))
	case "position":
		e := c19Val(term.I(int64(m.cur)))
		e.AtEnd = m.cur == len(src)
		return e
	case "eos", "at_end":
		yes, no := "past", "not"
		all := []string{"not", "at", "past"}
		if op == "at_end" {
			yes, no = "true", "false"
			all = []string{"true", "false"}
		}
		switch {
		case fail >= 0 && m.cur >= fail:
			return c19Exp{Kind: "set", Set: all, AtEnd: m.cur == len(src)}
		case m.cur < len(src):
			return c19Exp{Kind: "set", Set: []string{no}}
		case m.past == c19PastYes:
			return c19Exp{Kind: "set", Set: []string{yes}, AtEnd: true}
		default:
			return c19Exp{Kind: "set", Set: all, AtEnd: true}
		}
	}
	textOp := op == "get_char" || op == "peek_char" || op == "get_code" || op == "peek_code" || op == "read_term" || op == "read"
	if textOp == m.st.Binary {
		// a character operation on a binary stream or vice versa: outside the statement except that it
		// must not move the cursor; with eof_action(reset) it may count as the "other attempt"
		if m.past == c19PastYes && m.eof == "reset" {
			m.past = c19PastUnknown
		}
		return c19Exp{Kind: "wrongtype", AtEnd: m.cur == len(src)}
	}
	if fail >= 0 && m.cur >= fail {
		return c19Skip("io_error")
	}
	switch op {
	case "get_byte", "peek_byte":
		if m.cur >= len(src) {
			return m.atEnd(op == "get_byte", term.I(-1))
		}
		e := c19Val(term.I(int64(src[m.cur])))
		if op == "get_byte" {
			m.cur++
		}
		return e
	case "get_char", "peek_char", "get_code", "peek_code":
		get := op == "get_char" || op == "get_code"
		code := op == "get_code" || op == "peek_code"
		if m.cur >= len(src) {
			if code {
				return m.atEnd(get, term.I(-1))
			}
			return m.atEnd(get, c19EOFAtom)
		}
		r, w := utf8.DecodeRune(src[m.cur:])
		if r == utf8.RuneError {
			if !get {
				// a peek at something that is not a character (invalid UTF-8, or U+FFFD, which this engine does not deliver):
				// if it raises, nothing is consumed; what a get does there is not asserted
				return c19Exp{Kind: "wrongtype"}
			}
			return c19Skip("invalid_utf8")
		}
		if fail >= 0 && m.cur+w > fail {
			return c19Skip("io_error")
		}
		var e c19Exp
		if code {
			e = c19Val(term.I(int64(r)))
		} else {
			e = c19Val(term.A(string(r)))
		}
		if get {
			m.cur += w
		}
		return e
	case "read_term", "read":
		p, ok := c19SkipLayout(src, m.cur)
		if !ok {
			return c19Skip("read_term_inside_comment")
		}
		if p == len(src) {
			if fail < 0 {
				m.cur = len(src) // the remaining layout is consumed
			}
			return m.atEnd(true, c19EOFAtom)
		}
		for _, sp := range m.st.Src.Spans {
			if sp.Start != p {
				continue
			}
			if fail >= 0 && sp.End >= fail {
				return c19Skip("io_error")
			}
			m.cur = sp.End
			if m.endSkip && sp.End < len(src) && c19IsLayout(src[sp.End]) {
				m.cur++
			}
			m.past = c19PastNo
			return c19Val(sp.Alts...)
		}
		return c19Skip("read_term_inside_term")
	}
	panic("c19: unknown op " + op)
}

// simulate runs the model over ops. wraps[i] tells whether op i is wrapped in catch/3 in the query text.
// In the conjunction form an unwrapped raising operation ends the query: the rest is dead.
func c19Simulate(st *c19Stream, eof string, endSkip bool, ops []string, wraps []bool, conj bool) []c19Exp {
	m := &c19Model{st: st, eof: eof, endSkip: endSkip}
	out := make([]c19Exp, len(ops))
	dead := false
	for i, op := range ops {
		if dead {
			out[i] = c19Exp{Kind: "dead"}
			continue
		}
		out[i] = m.step(op)
		if out[i].Kind == "skip" {
			dead = true
		}
		if out[i].Kind == "err" && conj && wraps != nil && !wraps[i] {
			dead = true
		}
	}
	return out
}

// c19Plan cuts ops after the first not-asserted operation and decides which operations are wrapped in
// catch/3 (those predicted to raise, the wrong-type ones and the final not-asserted one), using the
// primary convention (cursor right after the end '.') and the assumed eof_action.
func c19Plan(st *c19Stream, ops []string) ([]string, []bool) {
	exps := c19Simulate(st, st.EOF, false, ops, nil, false)
	var outOps []string
	var wraps []bool
	for i, e := range exps {
		if e.Kind == "dead" {
			break
		}
		outOps = append(outOps, ops[i])
		wraps = append(wraps, e.Kind == "err" || e.Kind == "skip" || e.Kind == "wrongtype")
	}
	return outOps, wraps
}

// ---------------------------------------------------------------------------------------------------
// query texts

func c19Goal(op string, i int, acc string, wrap bool) string {
	v := fmt.Sprintf("V%d", i)
	one := acc == "a1" || acc == "setin"
	sa := "S"
	if acc == "alias" {
		sa = "in"
	}
	var g string
	switch op {
	case "get_char_b", "peek_char_b", "get_code_b", "peek_code_b", "get_byte_b", "peek_byte_b":
		probe := "b"
		if c19BoundProbe(op).K == term.KInt {
			probe = "98"
		}
		call := c19BoundOps[op] + "(" + sa + ", " + probe + ")"
		if one {
			call = c19BoundOps[op] + "(" + probe + ")"
		}
		g = "(" + call + " -> " + v + " = matched ; " + v + " = nomatch)"
	case "get_char", "peek_char", "get_code", "peek_code", "get_byte", "peek_byte", "read":
		if one {
			g = op + "(" + v + ")"
		} else {
			g = op + "(" + sa + ", " + v + ")"
		}
	case "read_term":
		if one {
			g = "read_term(" + v + ", [])"
		} else {
			g = "read_term(" + sa + ", " + v + ", [])"
		}
	case "at_end":
		if one {
			g = "(at_end_of_stream -> " + v + " = true ; " + v + " = false)"
		} else {
			g = "(at_end_of_stream(S) -> " + v + " = true ; " + v + " = false)"
		}
	case "repos":
		g = fmt.Sprintf("stream_property(S, position(P%d)), set_stream_position(S, P%d), %s = ok", i, i, v)
	case "rewind":
		g = fmt.Sprintf("set_stream_position(S, 0), %s = ok", v)
	case "position":
		g = "stream_property(S, position(" + v + "))"
	case "eos":
		g = "stream_property(S, end_of_stream(" + v + "))"
	default:
		panic("c19: op " + op)
	}
	if wrap {
		g = fmt.Sprintf("catch(%s, error(E%d, _), %s = caught(E%d))", g, i, v, i)
	}
	return g
}

const c19InFile = "in.txt"

func (st *c19Stream) openGoal() string {
	typ := "text"
	if st.Binary {
		typ = "binary"
	}
	if st.Access == "alias" {
		return fmt.Sprintf("open('%s', read, _, [alias(in), type(%s), eof_action(%s)])", c19InFile, typ, st.EOF)
	}
	return fmt.Sprintf("open('%s', read, S0, [eof_action(%s), type(%s)]), set_input(S0)", c19InFile, st.EOF, typ)
}

func (st *c19Stream) prefix() string {
	if st.Access == "alias" {
		return "stream_property(S, alias(in))"
	}
	return "current_input(S)"
}

// c19InMeta is the meta of an input item.
type c19InMeta struct {
	Half   string    `json:"half"` // "in"
	Stream c19Stream `json:"stream"`
	Ops    []string  `json:"ops"`
	Wraps  []bool    `json:"wraps"`
	Family string    `json:"family"`
}

// steps builds the steps of one form and tells in which step each operation's variable is bound.
// probe = index of the eof_action probe step (-1: none).
func (m *c19InMeta) steps(conj bool) (steps []proto.Step, opStep []int, probe int) {
	st := &m.Stream
	probe = -1
	if st.Host {
		probe = 0
		steps = append(steps, proto.Step{Query: "current_input(S), stream_property(S, eof_action(A)).", Max: c19Max})
	}
	var goals []string
	for i, op := range m.Ops {
		goals = append(goals, c19Goal(op, i, st.Access, m.Wraps[i]))
	}
	if conj {
		var parts []string
		if !st.Host {
			parts = append(parts, st.openGoal())
		}
		parts = append(parts, st.prefix())
		parts = append(parts, goals...)
		steps = append(steps, proto.Step{Query: strings.Join(parts, ", ") + ".", Max: c19Max})
		for range m.Ops {
			opStep = append(opStep, len(steps)-1)
		}
	} else {
		if !st.Host {
			steps = append(steps, proto.Step{Query: st.openGoal() + ".", Max: c19Max})
		}
		for _, g := range goals {
			steps = append(steps, proto.Step{Query: st.prefix() + ", " + g + ".", Max: c19Max})
			opStep = append(opStep, len(steps)-1)
		}
	}
	if !st.Host {
		steps = append(steps, proto.Step{Query: st.prefix() + ", close(S).", Max: c19Max})
	}
	return
}

func (m *c19InMeta) item() *Item {
	var cases []*proto.Case
	for _, conj := range []bool{true, false} {
		c := &proto.Case{Kind: "prolog"}
		st := &m.Stream
		if st.Host {
			c.UserInput = &proto.Source{Data: st.Src.B, Reader: st.Reader, Binary: st.Binary}
			if c.UserInput.Data == nil {
				c.UserInput.Data = []byte{}
			}
		} else {
			c.Files = map[string]string{c19InFile: string(st.Src.B)}
		}
		c.Steps, _, _ = m.steps(conj)
		cases = append(cases, c)
	}
	meta, _ := json.Marshal(m)
	return &Item{Cases: cases, Meta: meta, Note: fmt.Sprintf("%s on %q", strings.Join(m.Ops, ","), m.Stream.Src.B)}
}

// c19InItem plans the sequence and builds the item; nil when the plan cut the sequence and dropShort is
// set (the shorter sequence is enumerated on its own).
func c19InItem(st c19Stream, ops []string, family string, dropShort bool) *Item {
	planned, wraps := c19Plan(&st, ops)
	if len(planned) == 0 || (dropShort && len(planned) < len(ops)) {
		return nil
	}
	m := &c19InMeta{Half: "in", Stream: st, Ops: planned, Wraps: wraps, Family: family}
	return m.item()
}

// ---------------------------------------------------------------------------------------------------
// generation

var (
	c19CoreText = []string{"get_char", "peek_char", "read_term", "at_end", "position", "get_char_b"}
	c19FullText = []string{"get_char", "peek_char", "read_term", "at_end", "position", "eos", "get_code", "peek_code"}
	c19FileText = []string{"get_char", "peek_char", "read_term", "eos", "get_char_b", "repos"}
	c19MidText  = []string{"get_char", "peek_char", "read_term", "at_end", "position", "eos"}
	c19CoreBin  = []string{"get_byte", "peek_byte", "at_end", "position", "get_byte_b"}
	c19FullBin  = []string{"get_byte", "peek_byte", "at_end", "position", "eos"}
)

// c19Part is a block of the workload: n candidate items, built on demand.
type c19Part struct {
	n    int
	make func(i int) *Item
}

// seqCount = number of sequences of length 1..L over an alphabet of a symbols.
func c19SeqCount(a, L int) int {
	n, p := 0, 1
	for l := 1; l <= L; l++ {
		p *= a
		n += p
	}
	return n
}

// c19Seq returns the i-th sequence over alpha, shorter ones first.
func c19Seq(alpha []string, i int) []string {
	a := len(alpha)
	l, p := 1, a
	for i >= p {
		i -= p
		l++
		p *= a
	}
	out := make([]string, l)
	for k := l - 1; k >= 0; k-- {
		out[k] = alpha[i%a]
		i /= a
	}
	return out
}

func c19Exhaustive(srcs []*c19Src, alpha []string, minLen, maxLen int, st c19Stream, family string) c19Part {
	skip := 0
	if minLen > 1 {
		skip = c19SeqCount(len(alpha), minLen-1)
	}
	per := c19SeqCount(len(alpha), maxLen) - skip
	return c19Part{n: per * len(srcs), make: func(i int) *Item {
		s := st
		s.Src = *srcs[i/per]
		return c19InItem(s, c19Seq(alpha, skip+i%per), family, true)
	}}
}

// c19Witness: a few fixed sequences (among them the ones quoted in the design notes).
func c19Witness() c19Part {
	abc := &c19Src{Name: "abcdef", B: []byte("abcdef")}
	two := (&c19Src{Name: "two terms"}).t("foo").lay(" ").t("f(a,b)").lay(" ")
	bin := &c19Src{Name: "abc", B: []byte("abc")}
	type w struct {
		src *c19Src
		bin bool
		ops []string
	}
	ws := []w{
		{abc, false, []string{"peek_char", "get_char", "get_char", "position", "eos"}},
		{abc, false, []string{"peek_char", "peek_char", "get_char", "peek_code", "get_code", "position"}},
		{two, false, []string{"read_term", "get_char", "read_term", "peek_char", "get_char", "read_term", "eos", "get_char"}},
		{two, false, []string{"peek_char", "read_term", "position", "read", "position", "read", "read"}},
		{bin, true, []string{"peek_byte", "get_byte", "get_byte", "position", "get_byte", "peek_byte", "get_byte", "eos", "get_byte"}},
		// refused operations of the other stream type between reads: the cursor must stay where it is
		{abc, false, []string{"get_char", "peek_byte", "get_char", "position", "get_byte", "get_char", "peek_byte", "get_char", "position"}},
		{two, false, []string{"read_term", "peek_byte", "get_char", "peek_byte", "read_term", "position"}},
		{bin, true, []string{"get_byte", "peek_char", "get_byte", "position", "get_char", "get_byte", "peek_char", "position"}},
		// an instantiated second argument: the item is consumed whether or not it unifies
		{abc, false, []string{"get_char_b", "position", "get_char_b", "peek_char_b", "get_char", "get_char_b", "eos", "get_char"}},
		{abc, false, []string{"peek_char_b", "get_code_b", "peek_code_b", "get_code_b", "position", "get_code"}},
		{two, false, []string{"read_term", "get_char_b", "read_term", "get_char_b", "get_char_b", "eos"}},
		{bin, true, []string{"get_byte_b", "position", "peek_byte_b", "get_byte_b", "get_byte", "get_byte_b", "eos"}},
	}
	sts := []c19Stream{
		{Host: true, Reader: "bytes", EOF: "reset", Access: "s2"},
		{Host: true, Reader: "onebyte", EOF: "reset", Access: "a1"},
		{EOF: "error", Access: "alias"},
		{EOF: "eof_code", Access: "s2"},
		{EOF: "reset", Access: "setin"},
	}
	return c19Part{n: len(ws) * len(sts), make: func(i int) *Item {
		st := sts[i%len(sts)]
		x := ws[i/len(sts)]
		st.Src, st.Binary = *x.src, x.bin
		return c19InItem(st, x.ops, "witness", false)
	}}
}

func (c *c19) parts(cx *Ctx) []c19Part {
	text, bin := c19FixedText(), c19FixedBinary()
	hostS2 := c19Stream{Host: true, Reader: "bytes", EOF: "reset", Access: "s2"}
	hostBin := c19Stream{Host: true, Reader: "bytes", EOF: "reset", Access: "s2", Binary: true}
	fileErr := c19Stream{EOF: "error", Access: "alias"}
	ps := []c19Part{c19Witness()}
	if !cx.Thorough() {
		ps = append(ps,
			c19Exhaustive(text, c19CoreText, 1, 4, hostS2, "exhaustive_text"),
			c19Exhaustive(bin, c19CoreBin, 1, 4, hostBin, "exhaustive_binary"),
			c19Exhaustive(text, c19FileText, 1, 4, fileErr, "exhaustive_text_file"),
			c.randomPart(cx, 3500),
			c.outputPart(cx, 1000),
		)
		return ps
	}
	hostA1 := c19Stream{Host: true, Reader: "onebyte", EOF: "reset", Access: "a1"}
	fileBinErr := c19Stream{EOF: "error", Access: "setin", Binary: true}
	ps = append(ps,
		c19Exhaustive(text, c19FullText, 1, 4, hostS2, "exhaustive_text"),
		c19Exhaustive(text, c19MidText, 1, 4, hostA1, "exhaustive_text_1arg"),
		c19Exhaustive(text, c19FullText, 1, 4, fileErr, "exhaustive_text_file"),
		c19Exhaustive(text, c19CoreText, 5, 5, hostS2, "exhaustive_text_len5"),
		c19Exhaustive(bin, c19FullBin, 1, 5, hostBin, "exhaustive_binary"),
		c19Exhaustive(c19FixedBinaryFile(), c19FullBin, 1, 5, fileBinErr, "exhaustive_binary_file"),
		c.randomPart(cx, 100000),
		c.outputPart(cx, 15000),
	)
	return ps
}

const c19Chunk = 20000

func (c *c19) Generate(cx *Ctx, chunk int) []*Item {
	ps := c.parts(cx)
	total := 0
	for _, p := range ps {
		total += p.n
	}
	lo, hi := chunk*c19Chunk, (chunk+1)*c19Chunk
	if lo >= total {
		return nil
	}
	if hi > total {
		hi = total
	}
	if chunk == 0 {
		cx.exhaustive = true
	}
	items := []*Item{}
	base := 0
	for _, p := range ps {
		from, to := lo-base, hi-base
		if from < 0 {
			from = 0
		}
		if to > p.n {
			to = p.n
		}
		for i := from; i < to; i++ {
			if it := p.make(i); it != nil {
				items = append(items, it)
			}
		}
		base += p.n
	}
	return items
}

// --- random input sequences

var c19Seps = []string{" ", "\n", "\t", "% c\n", "%\n", " \n", "\n\n", "\r\n", "\r", "\r\n\r\n"}
var c19MoreLayout = []string{"", "", " ", "/* c */", "/* é */ ", "% 😀 comment\n", "\t", "/* a. b. */", "  ", "/**/"}

func c19RandSource(r *rand.Rand, binary bool) *c19Src {
	s := &c19Src{}
	if binary {
		n := r.Intn(6)
		for i := 0; i < n; i++ {
			s.B = append(s.B, []byte{0, 1, 'a', 'b', '\n', 0x7f, 0x80, 0xc3, 0xa9, 0xff}[r.Intn(10)])
		}
		return s
	}
	switch k := r.Intn(10); {
	case k == 0: // raw text, no terms
		pieces := []string{"a", "b", " ", "\n", "é", "😀", "x", ".", "日"}
		n := r.Intn(6)
		for i := 0; i < n; i++ {
			s.B = append(s.B, pieces[r.Intn(len(pieces))]...)
		}
		return &c19Src{B: s.B}
	case k == 1: // raw text with an invalid byte
		s.B = append(s.B, []string{"ab", "é", ""}[r.Intn(3)]...)
		s.B = append(s.B, 0xff)
		s.B = append(s.B, []string{"cd", "", "\n"}[r.Intn(3)]...)
		return s
	}
	n := r.Intn(4)
	if r.Intn(4) == 0 {
		s.lay(c19MoreLayout[r.Intn(len(c19MoreLayout))])
	}
	for i := 0; i < n; i++ {
		sp := c19Terms[r.Intn(len(c19Terms))]
		s.term(sp.Text, sp.Alts...)
		last := i == n-1
		if last && r.Intn(3) == 0 {
			break // source ends right after the end char
		}
		s.lay(c19Seps[r.Intn(len(c19Seps))])
		s.lay(c19MoreLayout[r.Intn(len(c19MoreLayout))])
	}
	return s
}

func c19Weighted(r *rand.Rand, names []string, weights []int) string {
	t := 0
	for _, w := range weights {
		t += w
	}
	k := r.Intn(t)
	for i, w := range weights {
		if k < w {
			return names[i]
		}
		k -= w
	}
	return names[0]
}

func (c *c19) randomPart(cx *Ctx, n int) c19Part {
	return c19Part{n: n, make: func(i int) *Item {
		r := cx.Rng(fmt.Sprintf("c19/in/%d", i))
		st := c19Stream{Binary: r.Intn(5) == 0}
		st.Host = r.Intn(2) == 0
		if st.Host {
			st.EOF = "reset"
			st.Access = []string{"s2", "a1"}[r.Intn(2)]
			st.Reader = []string{"bytes", "onebyte", "eofwithdata", "chunk3", "erroring"}[r.Intn(5)]
		} else {
			st.EOF = []string{"error", "eof_code", "reset"}[r.Intn(3)]
			st.Access = []string{"alias", "setin", "s2"}[r.Intn(3)]
		}
		if st.Binary && !st.Host {
			// file contents travel as JSON strings: keep them valid UTF-8
			st.Src = c19Src{B: []byte([]string{"", "a", "ab", "\x00é", "a\nb", "\x7f"}[r.Intn(6)])}
		} else {
			st.Src = *c19RandSource(r, st.Binary)
		}
		if !st.Host && !utf8.Valid(st.Src.B) {
			st.Host, st.EOF, st.Access, st.Reader = true, "reset", "s2", "bytes"
		}
		if st.Reader == "erroring" {
			st.Reader = fmt.Sprintf("erroring:%d", r.Intn(len(st.Src.B)+1))
		}
		// wrong-type operations (byte operations on a text stream and vice versa) are refused, but a refused
		// PEEK must not move the cursor either: both get_* and peek_* of the other type are mixed in
		names := []string{"get_char", "peek_char", "read_term", "read", "at_end", "position", "eos", "get_code", "peek_code", "get_byte", "peek_byte",
			"get_char_b", "peek_char_b", "get_code_b", "peek_code_b", "get_byte_b"}
		weights := []int{20, 16, 18, 6, 8, 10, 10, 6, 6, 2, 4, 7, 4, 4, 2, 1}
		drain := []string{"get_char", "read_term", "get_code", "peek_char"}
		if st.Binary {
			names = []string{"get_byte", "peek_byte", "at_end", "position", "eos", "get_char", "read_term", "peek_char", "get_byte_b", "peek_byte_b", "get_char_b"}
			weights = []int{30, 22, 10, 14, 12, 2, 1, 4, 9, 5, 1}
			drain = []string{"get_byte", "peek_byte"}
		}
		if !st.Host {
			names = append(append([]string{}, names...), "repos", "rewind")
			weights = append(append([]int{}, weights...), 7, 3)
		}
		var ops []string
		for k, l := 0, 1+r.Intn(10); k < l; k++ {
			ops = append(ops, c19Weighted(r, names, weights))
		}
		// drain suffix: keep reading so that the end is reached and passed (eof_action matters)
		if r.Intn(3) != 0 {
			d := drain[r.Intn(len(drain))]
			for k, l := 0, 1+r.Intn(5); k < l; k++ {
				ops = append(ops, d)
				if r.Intn(3) == 0 {
					ops = append(ops, []string{"eos", "position", "at_end", drain[r.Intn(len(drain))]}[r.Intn(4)])
				}
			}
		}
		return c19InItem(st, ops, "random", false)
	}}
}

// ---------------------------------------------------------------------------------------------------
// judging the input half

func c19ErrFormalOK(f *term.Term) bool {
	return f != nil && f.IsCmp("permission_error", 3) && f.Args[0].IsAtom("input") && f.Args[1].IsAtom("past_end_of_stream")
}

// c19Check compares one operation's observation with the expectation. val is the binding of V<i> (nil if
// none). stop: the rest of the sequence is not asserted.
func c19Check(e c19Exp, val *term.Term) (ok bool, stop bool) {
	caught := val != nil && val.IsCmp("caught", 1)
	switch e.Kind {
	case "val":
		if val == nil {
			return false, false
		}
		for _, a := range e.Alts {
			if term.Variant(a, val) {
				return true, false
			}
		}
		return false, false
	case "set":
		if val == nil || val.K != term.KAtom {
			return false, false
		}
		for _, s := range e.Set {
			if val.S == s {
				return true, false
			}
		}
		return false, false
	case "err":
		return caught && c19ErrFormalOK(val.Args[0]), false
	case "wrongtype":
		// an error leaves the cursor where it was; a silent success is outside the statement: stop
		return true, !caught
	}
	return true, true
}

type c19FormResult struct {
	Mismatch string
	Observed []string
	Asserted []string // names of the asserted operations
	AtEnd    bool
	Skips    map[string]int64
	Inconcl  string
}

func c19ObsText(t *term.Term) string {
	if t == nil {
		return "(no binding)"
	}
	return t.String()
}

// c19Compare walks one form's result.
func c19Compare(m *c19InMeta, res *proto.Result, conj bool, eof string, endSkip bool) c19FormResult {
	r := c19FormResult{Skips: map[string]int64{}}
	steps, opStep, _ := m.steps(conj)
	if len(res.Steps) != len(steps) {
		r.Inconcl = fmt.Sprintf("worker returned %d step results for %d steps", len(res.Steps), len(steps))
		return r
	}
	exps := c19Simulate(&m.Stream, eof, endSkip, m.Ops, m.Wraps, conj)
	form := "split"
	if conj {
		form = "conjunction"
	}
	for i, op := range m.Ops {
		sr := &res.Steps[opStep[i]]
		if sr.BudgetHit {
			r.Inconcl = "step budget hit"
			return r
		}
		e := exps[i]
		if e.Kind == "dead" {
			break
		}
		if e.Kind == "skip" {
			r.Skips["not_asserted_"+e.Why]++
			r.Observed = append(r.Observed, "(not asserted)")
			break
		}
		if e.Kind == "err" && !m.Wraps[i] {
			// the operation is predicted to raise and is not wrapped: the step must end with that error
			if sr.Err == nil || sr.Err.Exception == nil || !sr.Err.Exception.IsCmp("error", 2) || !c19ErrFormalOK(sr.Err.Exception.Args[0]) {
				r.Mismatch = fmt.Sprintf("%s form, operation %d (%s): expected %s, observed %s", form, i+1, op, e, c19StepText(sr))
				return r
			}
			r.Observed = append(r.Observed, sr.Err.Exception.String())
			r.Asserted = append(r.Asserted, op)
			r.AtEnd = r.AtEnd || e.AtEnd
			if conj {
				break
			}
			continue
		}
		if len(sr.Answers) == 0 {
			if conj {
				r.Mismatch = fmt.Sprintf("conjunction form: the query ended with %s where every operation was expected to succeed (first: %s = %s)", c19StepText(sr), op, e)
			} else {
				r.Mismatch = fmt.Sprintf("%s form, operation %d (%s): expected %s, observed %s", form, i+1, op, e, c19StepText(sr))
			}
			return r
		}
		val := sr.Answers[0][fmt.Sprintf("V%d", i)]
		r.Observed = append(r.Observed, c19ObsText(val))
		ok, stop := c19Check(e, val)
		if !ok {
			r.Mismatch = fmt.Sprintf("%s form, operation %d (%s): expected %s, observed %s", form, i+1, op, e, c19ObsText(val))
			return r
		}
		if stop {
			r.Skips["not_asserted_wrong_type_succeeded"]++
			break
		}
		if e.Kind != "wrongtype" {
			r.Asserted = append(r.Asserted, op)
		} else {
			r.Skips["wrong_type_ops"]++
		}
		r.AtEnd = r.AtEnd || e.AtEnd
	}
	return r
}

func c19StepText(sr *proto.StepResult) string {
	switch {
	case sr.Err != nil && sr.Err.Exception != nil:
		return "error " + sr.Err.Exception.String()
	case sr.Err != nil:
		return "go error " + sr.Err.Text
	case len(sr.Answers) == 0:
		return "failure"
	}
	return "an answer"
}

func c19WorkerProblem(outs []*run.Outcome) *Verdict {
	for _, o := range outs {
		if o.Crash != nil {
			if o.Crash.Hung {
				return &Verdict{Status: Inconclusive, Msg: "watchdog fired (wall clock) — no logical evidence"}
			}
			if strings.Contains(o.Crash.Stderr, "ichiban/prolog/engine") && !strings.Contains(o.Crash.Stderr, "cmd/vworker/hooks_on.go") {
				return &Verdict{Status: Violated, Msg: "worker process died inside the engine: " + o.Crash.Exit + "\n" + firstLines(o.Crash.Stderr, 14)}
			}
			return &Verdict{Status: Inconclusive, Msg: "worker process died: " + o.Crash.Exit}
		}
		if o.Res == nil {
			return &Verdict{Status: Inconclusive, Msg: "no result"}
		}
		if o.Res.Fatal != "" {
			return &Verdict{Status: Inconclusive, Msg: "worker: " + o.Res.Fatal}
		}
	}
	return nil
}

func (c *c19) Judge(cx *Ctx, it *Item, outs []*run.Outcome) Verdict {
	var half struct {
		Half string `json:"half"`
	}
	if err := decodeMeta(it, &half); err != nil {
		return Verdict{Status: Inconclusive, Msg: err.Error()}
	}
	if v := c19WorkerProblem(outs); v != nil {
		return *v
	}
	if half.Half == "out" {
		return c.judgeOut(it, outs)
	}
	var m c19InMeta
	if err := decodeMeta(it, &m); err != nil {
		return Verdict{Status: Inconclusive, Msg: err.Error()}
	}
	if len(outs) != 2 {
		return Verdict{Status: Inconclusive, Msg: "expected two cases"}
	}
	// effective eof_action
	eof := m.Stream.EOF
	if m.Stream.Host {
		for _, o := range outs {
			if len(o.Res.Steps) == 0 || len(o.Res.Steps[0].Answers) == 0 || o.Res.Steps[0].Answers[0]["A"] == nil {
				return Verdict{Status: Inconclusive, Msg: "eof_action of user_input could not be read"}
			}
			a := o.Res.Steps[0].Answers[0]["A"]
			if a.K != term.KAtom || (a.S != "error" && a.S != "eof_code" && a.S != "reset") {
				return Verdict{Status: Inconclusive, Msg: "eof_action of user_input: " + a.String()}
			}
			eof = a.S
		}
	}
	var primary [2]c19FormResult
	var held bool
	convention := "after_end_char"
	for _, endSkip := range []bool{false, true} {
		rc := c19Compare(&m, outs[0].Res, true, eof, endSkip)
		rs := c19Compare(&m, outs[1].Res, false, eof, endSkip)
		if rc.Inconcl != "" || rs.Inconcl != "" {
			return Verdict{Status: Inconclusive, Msg: rc.Inconcl + rs.Inconcl}
		}
		if !endSkip {
			primary = [2]c19FormResult{rc, rs}
		}
		if rc.Mismatch == "" && rs.Mismatch == "" {
			held = true
			if endSkip {
				convention = "after_end_char_and_one_layout_char"
				primary = [2]c19FormResult{rc, rs}
			}
			break
		}
	}
	rc, rs := primary[0], primary[1]
	exps := c19Simulate(&m.Stream, eof, convention != "after_end_char", m.Ops, m.Wraps, false)
	var expText []string
	for _, e := range exps {
		if e.Kind == "dead" {
			break
		}
		expText = append(expText, e.String())
	}
	st := &m.Stream
	cfg := "file eof_action(" + st.EOF + ") " + st.Access
	if st.Host {
		cfg = "user_input reader=" + st.Reader + " eof_action(" + eof + ") " + st.Access
	}
	if st.Binary {
		cfg += " binary"
	}
	v := Verdict{Extra: map[string]int64{}}
	v.Sample = map[string]interface{}{
		"source": string(strconv.AppendQuote(nil, string(st.Src.B))), "stream": cfg, "operations": m.Ops,
		"expected": expText, "observed_one_conjunction": rc.Observed, "observed_one_query_per_operation": rs.Observed,
	}
	kinds := map[string]bool{}
	for _, op := range rs.Asserted {
		kinds[op] = true
		v.Extra["op_"+op]++
	}
	v.Extra["ops_asserted_conjunction"] = int64(len(rc.Asserted))
	v.Extra["ops_asserted_split"] = int64(len(rs.Asserted))
	for k, n := range rs.Skips {
		v.Extra[k] += n
	}
	v.Extra["family_"+m.Family]++
	v.Extra["sequences"]++
	if st.Host {
		v.Extra["reader_"+strings.SplitN(st.Reader, ":", 2)[0]]++
	} else {
		v.Extra["file_eof_action_"+st.EOF]++
	}
	v.Extra["access_"+st.Access]++
	if st.Binary {
		v.Extra["binary_streams"]++
	}
	if !utf8.Valid(st.Src.B) && !st.Binary {
		v.Extra["sources_invalid_utf8"]++
	} else if len(st.Src.B) != utf8.RuneCount(st.Src.B) && !st.Binary {
		v.Extra["sources_multibyte"]++
	}
	if rs.AtEnd {
		v.Extra["sequences_reaching_end"]++
	}
	v.Extra["convention_"+convention]++
	v.NonTrivial = len(kinds) >= 2 && rs.AtEnd && rc.AtEnd
	if held {
		v.Status = Held
		return v
	}
	v.Status = Violated
	var msg string
	switch {
	case rs.Mismatch == "":
		msg = rc.Mismatch + " (the same operations run as one query each agree with the model)"
	case rc.Mismatch == "":
		msg = rs.Mismatch + " (the same operations run as one conjunction agree with the model)"
	default:
		msg = rs.Mismatch + "; " + rc.Mismatch
	}
	v.Msg = fmt.Sprintf("%s | source %q, %s, operations %s", msg, st.Src.B, cfg, strings.Join(m.Ops, ", "))
	return v
}

// ---------------------------------------------------------------------------------------------------
// output half

type c19OutOp struct {
	Goal string `json:"goal"`
	User string `json:"user,omitempty"` // text appended to user_output
	File []byte `json:"file,omitempty"` // bytes appended to the file
	Kind string `json:"kind"`
}

type c19OutMeta struct {
	Half      string     `json:"half"` // "out"
	Ops       []c19OutOp `json:"ops"`
	File      string     `json:"file,omitempty"` // "", "text", "binary"
	EarlyRead bool       `json:"early_read,omitempty"`
	// Stale: the file exists before it is opened in write mode and is longer than anything the case writes; the sink is
	// emptied by open/4 (ISO 8.11.5.3), so what is read back is still exactly the output
	Stale bool `json:"stale,omitempty"`
}

const c19OutFile = "o.txt"
const c19OutSetup = "c19_rd(S, Bs) :- get_byte(S, B), ( B =:= -1 -> Bs = [] ; Bs = [B|T], c19_rd(S, T) ).\n"

type c19WText struct{ term, write, writeq string }

var c19WTerms = []c19WText{
	{"abc", "abc", "abc"},
	{"'hello world'", "hello world", "'hello world'"},
	{"'A'", "A", "'A'"},
	{"42", "42", "42"},
	{"-7", "-7", "-7"},
	{"f(a,b)", "f(a,b)", "f(a,b)"},
	{"[1,2,3]", "[1,2,3]", "[1,2,3]"},
	{"f('B c',[x])", "f(B c,[x])", "f('B c',[x])"},
	{"x-y", "x-y", "x-y"},
	{"1+2", "1+2", "1+2"},
	{"[]", "[]", "[]"},
	{"1.5", "1.5", "1.5"},
	{"'é'", "é", ""},
	{"g(h(i),j)", "g(h(i),j)", "g(h(i),j)"},
}

func (m *c19OutMeta) steps(conj bool) (steps []proto.Step, opStep []int, readStep int) {
	if m.File != "" {
		steps = append(steps, proto.Step{Query: fmt.Sprintf("open('%s', write, _, [alias(out), type(%s)]).", c19OutFile, m.File), Max: c19Max})
	}
	if conj {
		var gs []string
		for _, o := range m.Ops {
			gs = append(gs, o.Goal)
		}
		steps = append(steps, proto.Step{Query: strings.Join(gs, ", ") + ".", Max: c19Max})
		for range m.Ops {
			opStep = append(opStep, len(steps)-1)
		}
	} else {
		for _, o := range m.Ops {
			steps = append(steps, proto.Step{Query: o.Goal + ".", Max: c19Max})
			opStep = append(opStep, len(steps)-1)
		}
	}
	readStep = -1
	if m.File != "" {
		rd := fmt.Sprintf("open('%s', read, R, [type(binary)]), c19_rd(R, Bs), close(R)", c19OutFile)
		if m.EarlyRead {
			steps = append(steps, proto.Step{Query: "flush_output(out), " + rd + ", close(out).", Max: c19Max})
		} else {
			steps = append(steps, proto.Step{Query: "close(out), " + rd + ".", Max: c19Max})
		}
		readStep = len(steps) - 1
	}
	return
}

func (c *c19) outputPart(cx *Ctx, n int) c19Part {
	return c19Part{n: n, make: func(i int) *Item {
		r := cx.Rng(fmt.Sprintf("c19/out/%d", i))
		m := &c19OutMeta{Half: "out"}
		switch r.Intn(4) {
		case 0:
		case 1:
			m.File = "binary"
		default:
			m.File = "text"
		}
		m.EarlyRead = r.Intn(3) == 0
		m.Stale = m.File != "" && r.Intn(2) == 0
		cur := "user" // where the 1-argument forms write
		n := 2 + r.Intn(7)
		for k := 0; k < n; k++ {
			// pick the sink of this operation: "" = 1-argument form
			sink := ""
			switch r.Intn(4) {
			case 0:
				sink = "user_output"
			case 1:
				if m.File == "text" {
					sink = "out"
				}
			}
			dest := cur
			pre := ""
			if sink == "user_output" {
				dest, pre = "user", "user_output, "
			} else if sink == "out" {
				dest, pre = "file", "out, "
			}
			add := func(kind, goal, text string) {
				o := c19OutOp{Goal: goal, Kind: kind}
				if dest == "user" {
					o.User = text
				} else {
					o.File = []byte(text)
				}
				m.Ops = append(m.Ops, o)
			}
			w := c19WTerms[r.Intn(len(c19WTerms))]
			switch k := r.Intn(14); {
			case k == 0:
				ch := []string{"a", "' '", "'\\n'", "é", "'Z'", "(.)"}[r.Intn(6)]
				txt := map[string]string{"a": "a", "' '": " ", "'\\n'": "\n", "é": "é", "'Z'": "Z", "(.)": "."}[ch]
				add("put_char", "put_char("+pre+ch+")", txt)
			case k == 1:
				add("nl", "nl"+c19Paren(pre), "\n")
			case k <= 3:
				add("write", "write("+pre+w.term+")", w.write)
			case k == 4 && w.writeq != "":
				add("writeq", "writeq("+pre+w.term+")", w.writeq)
			case k == 5:
				a := []string{"abc", "'B c'", "42", "[]"}[r.Intn(4)]
				add("write_canonical", "write_canonical("+pre+a+")", a)
			case k == 6:
				add("flush_output", "flush_output"+c19Paren(pre), "")
			case k == 7:
				v := fmt.Sprintf("X%d", len(m.Ops))
				add("backtrack_member", fmt.Sprintf("(member(%s, [a,b,c]), write(%s%s), fail ; true)", v, pre, v), "abc")
			case k == 8:
				add("backtrack_negation", fmt.Sprintf("\\+ (put_char(%sx), nl%s, fail)", pre, c19Paren(pre)), "x\n")
			case k == 9:
				v := fmt.Sprintf("X%d", len(m.Ops))
				add("backtrack_findall", fmt.Sprintf("findall(%s, (between(1, 3, %s), write(%s%s)), _)", v, v, pre, v), "123")
			case k == 10:
				add("catch_throw", fmt.Sprintf("catch((write(%sp), throw(e), write(%sq)), e, write(%sr))", pre, pre, pre), "pr")
			case k == 11:
				add("disjunction_retry", fmt.Sprintf("(write(%sl), fail ; write(%sm))", pre, pre), "lm")
			case k == 12 && m.File == "binary":
				b := []int{0, 65, 10, 255, 128, 195}[r.Intn(6)]
				m.Ops = append(m.Ops, c19OutOp{Goal: fmt.Sprintf("put_byte(out, %d)", b), Kind: "put_byte", File: []byte{byte(b)}})
			case k == 13 && m.File == "text":
				if cur == "user" {
					cur = "file"
					m.Ops = append(m.Ops, c19OutOp{Goal: "set_output(out)", Kind: "set_output"})
				} else {
					cur = "user"
					m.Ops = append(m.Ops, c19OutOp{Goal: "set_output(user_output)", Kind: "set_output"})
				}
			default:
				add("write", "write("+pre+w.term+")", w.write)
			}
		}
		var cases []*proto.Case
		for _, conj := range []bool{true, false} {
			c := &proto.Case{Kind: "prolog", Setup: []string{c19OutSetup}}
			if m.Stale {
				c.Files = map[string]string{c19OutFile: strings.Repeat("stale content of an earlier run\n", 12)}
			}
			c.Steps, _, _ = m.steps(conj)
			cases = append(cases, c)
		}
		meta, _ := json.Marshal(m)
		return &Item{Cases: cases, Meta: meta}
	}}
}

func c19Paren(pre string) string {
	if pre == "" {
		return ""
	}
	return "(" + strings.TrimSuffix(pre, ", ") + ")"
}

func (c *c19) judgeOut(it *Item, outs []*run.Outcome) Verdict {
	var m c19OutMeta
	if err := decodeMeta(it, &m); err != nil {
		return Verdict{Status: Inconclusive, Msg: err.Error()}
	}
	if len(outs) != 2 {
		return Verdict{Status: Inconclusive, Msg: "expected two cases"}
	}
	v := Verdict{Extra: map[string]int64{"output_sequences": 1}}
	kinds := map[string]bool{}
	var goals []string
	var wantFile []byte
	for _, o := range m.Ops {
		kinds[o.Kind] = true
		v.Extra["out_"+o.Kind]++
		goals = append(goals, o.Goal)
		wantFile = append(wantFile, o.File...)
	}
	v.NonTrivial = len(kinds) >= 2
	sample := map[string]interface{}{"goals": goals, "file_type": m.File}
	v.Sample = sample
	for ci, conj := range []bool{true, false} {
		form := "split"
		if conj {
			form = "conjunction"
		}
		res := outs[ci].Res
		steps, opStep, readStep := m.steps(conj)
		if len(res.Steps) != len(steps) {
			return Verdict{Status: Inconclusive, Msg: "step count mismatch"}
		}
		if len(res.Setup) > 0 && res.Setup[0] != nil {
			return Verdict{Status: Inconclusive, Msg: "setup failed: " + res.Setup[0].Text}
		}
		// expected user_output per step
		want := make([][]byte, len(steps))
		for i, o := range m.Ops {
			want[opStep[i]] = append(want[opStep[i]], o.User...)
		}
		var gotAll, wantAll []byte
		for si := range steps {
			sr := &res.Steps[si]
			if sr.BudgetHit {
				return Verdict{Status: Inconclusive, Msg: "step budget hit"}
			}
			gotAll = append(gotAll, sr.Output...)
			wantAll = append(wantAll, want[si]...)
			if sr.Err != nil || len(sr.Answers) == 0 {
				v.Status = Violated
				v.Msg = fmt.Sprintf("%s form: step %q did not succeed: %s", form, steps[si].Query, c19StepText(sr))
				return v
			}
			if !bytes.Equal(sr.Output, want[si]) {
				v.Status = Violated
				v.Msg = fmt.Sprintf("%s form: user_output received %q during %q, expected %q", form, sr.Output, steps[si].Query, want[si])
				sample["expected_user_output"], sample["observed_user_output"] = string(want[si]), string(sr.Output)
				return v
			}
		}
		sample["user_output_"+form] = string(gotAll)
		sample["expected_user_output"] = string(wantAll)
		if readStep >= 0 {
			bs := res.Steps[readStep].Answers[0]["Bs"]
			var got []byte
			okList := bs != nil
			if okList {
				elems, tail := term.ListElems(bs)
				okList = tail.IsAtom("[]")
				for _, e := range elems {
					if e.K != term.KInt || e.I < 0 || e.I > 255 {
						okList = false
						break
					}
					got = append(got, byte(e.I))
				}
			}
			if !okList || !bytes.Equal(got, wantFile) {
				v.Status = Violated
				v.Msg = fmt.Sprintf("%s form: file received %q (read back as %s), expected %q; goals: %s", form, got, c19ObsText(bs), wantFile, strings.Join(goals, ", "))
				sample["expected_file"], sample["observed_file"] = string(wantFile), string(got)
				return v
			}
			sample["expected_file"], sample["file_"+form] = string(wantFile), string(got)
			v.Extra["file_bytes_compared"] += int64(len(got))
		}
		v.Extra["user_output_bytes_compared"] += int64(len(gotAll))
	}
	v.Status = Held
	return v
}
