package main

import (
	"crypto/sha256"
	"encoding/hex"
	"encoding/json"
	"fmt"
	"math/rand"
	"os"
	"path/filepath"
	"runtime"
	"sort"
	"strings"
	"sync"
	"time"

	"verif/internal/proto"
	"verif/internal/run"
)

// Status is the three-valued verdict of one item.
type Status int

const (
	Held Status = iota
	Violated
	Inconclusive
)

// Item is one independently judged unit: one or more worker cases plus whatever the oracle needs.
type Item struct {
	Cases []*proto.Case   `json:"cases"`
	Meta  json.RawMessage `json:"meta,omitempty"`
	Note  string          `json:"note,omitempty"` // human description of what the item exercises
}

// Verdict is what an oracle says about one item.
type Verdict struct {
	Status     Status
	Msg        string      // what was violated / why inconclusive
	Class      string      // name of the deviation model that reproduces the observation exactly ("" = none)
	Key        string      // stable identity of the witness (default: hash of the cases)
	NonTrivial bool        // counts towards distinct_nontrivial
	Sample     interface{} // what a reader should see for this item (expected/observed)
	Extra      map[string]int64
}

// Check is one property's monitor.
type Check interface {
	ID() string
	Level() string // evidence level
	Rule() string  // generation rule + non-triviality rule
	Assumptions() []string
	// Generate returns the items of a tier; a pure function of (seed, tier). It may be called in chunks:
	// chunk k of n (so that huge tiers need not be materialised at once). Return nil when k is past the end.
	Generate(cx *Ctx, chunk int) []*Item
	Judge(cx *Ctx, it *Item, outs []*run.Outcome) Verdict
}

// Ctx carries tier, seed, the pool and the evidence accumulators.
type Ctx struct {
	Tier   string
	Seed   int64
	Pool   *run.Pool
	Worker *run.Worker
	Race   bool

	mu                 sync.Mutex
	evals              int64
	nontrivial         map[[8]byte]struct{}
	seenCases          map[[8]byte]struct{}
	samples            []interface{}
	violations         []violation
	inconcl            []string
	known              map[string]int
	extra              map[string]int64
	notes              []string
	counters           proto.Counters
	hooksSeen          bool
	start              time.Time
	exhaustive         bool
	sampleTrivial      bool
	workerMS           int64
	genS, runS, judgeS float64
	slowestMS          int64
	slowestNote        string
}

type violation struct {
	Item    *Item
	Verdict Verdict
	Outs    []*run.Outcome
}

func (cx *Ctx) Thorough() bool { return cx.Tier == "thorough" }

// Rng returns a generator determined by the seed and a purpose label.
func (cx *Ctx) Rng(label string) *rand.Rand {
	h := sha256.Sum256([]byte(fmt.Sprintf("%d/%s", cx.Seed, label)))
	var s int64
	for i := 0; i < 8; i++ {
		s = s<<8 | int64(h[i])
	}
	return rand.New(rand.NewSource(s))
}

func (cx *Ctx) AddExtra(k string, n int64) {
	cx.mu.Lock()
	cx.extra[k] += n
	cx.mu.Unlock()
}

func (cx *Ctx) Note(s string) {
	cx.mu.Lock()
	cx.notes = append(cx.notes, s)
	cx.mu.Unlock()
}

func hash8(s string) [8]byte {
	h := sha256.Sum256([]byte(s))
	var k [8]byte
	copy(k[:], h[:8])
	return k
}

func itemKey(it *Item) string {
	var sb strings.Builder
	for _, c := range it.Cases {
		id := c.ID
		c.ID = ""
		b, _ := json.Marshal(c)
		c.ID = id
		sb.Write(b)
	}
	sb.Write(it.Meta)
	h := sha256.Sum256([]byte(sb.String()))
	return hex.EncodeToString(h[:6])
}

// runCheck drives a check: generate → execute → judge → evidence.
func runCheck(ch Check, cx *Ctx) int {
	cx.start = time.Now()
	cx.nontrivial = map[[8]byte]struct{}{}
	cx.seenCases = map[[8]byte]struct{}{}
	cx.known = map[string]int{}
	cx.extra = map[string]int64{}
	kf := loadKnownFindings(ch.ID())
	if run.RepoDir() == "/repo" {
		// replay files of earlier runs of this property are stale
		old, _ := filepath.Glob(filepath.Join(run.VerifDir(), "replay", ch.ID()+"-*.json"))
		for _, f := range old {
			os.Remove(f)
		}
	}

	for chunk := 0; ; chunk++ {
		tg := time.Now()
		items := ch.Generate(cx, chunk)
		cx.genS += time.Since(tg).Seconds()
		if items == nil {
			break
		}
		if len(items) == 0 {
			continue
		}
		var cases []*proto.Case
		for i, it := range items {
			for j, c := range it.Cases {
				c.ID = fmt.Sprintf("k%d.i%d.c%d", chunk, i, j)
				cases = append(cases, c)
			}
		}
		tr := time.Now()
		outs := cx.Pool.Run(cases)
		cx.runS += time.Since(tr).Seconds()
		tj := time.Now()
		// judge in parallel
		type job struct {
			it   *Item
			outs []*run.Outcome
		}
		jobs := make(chan job, len(items))
		k := 0
		for _, it := range items {
			jobs <- job{it, outs[k : k+len(it.Cases)]}
			k += len(it.Cases)
		}
		close(jobs)
		var wg sync.WaitGroup
		for w := 0; w < runtime.NumCPU(); w++ {
			wg.Add(1)
			go func() {
				defer wg.Done()
				for j := range jobs {
					v := safeJudge(ch, cx, j.it, j.outs)
					cx.record(kf, j.it, v, j.outs)
				}
			}()
		}
		wg.Wait()
		cx.judgeS += time.Since(tj).Seconds()
	}
	return cx.finish(ch, kf)
}

func safeJudge(ch Check, cx *Ctx, it *Item, outs []*run.Outcome) (v Verdict) {
	defer func() {
		if r := recover(); r != nil {
			buf := make([]byte, 4096)
			buf = buf[:runtime.Stack(buf, false)]
			v = Verdict{Status: Inconclusive, Msg: fmt.Sprintf("oracle panicked: %v\n%s", r, buf)}
		}
	}()
	return ch.Judge(cx, it, outs)
}

func (cx *Ctx) record(kf *knownFindings, it *Item, v Verdict, outs []*run.Outcome) {
	cx.mu.Lock()
	defer cx.mu.Unlock()
	cx.evals++
	if v.Key == "" {
		v.Key = itemKey(it)
	}
	for _, o := range outs {
		if o.Res != nil {
			if o.Res.Hooks {
				cx.hooksSeen = true
			}
			cx.workerMS += o.Res.WallMS
			if o.Res.WallMS > cx.slowestMS {
				cx.slowestMS = o.Res.WallMS
				cx.slowestNote = firstLine(it.Note)
				if cx.slowestNote == "" && len(it.Meta) > 0 {
					cx.slowestNote = firstLine(string(it.Meta))
				}
			}
			if c := o.Res.Counters; c != nil {
				cx.counters.Steps += c.Steps
				cx.counters.Cuts += c.Cuts
				cx.counters.Recovers += c.Recovers
				cx.counters.Handled += c.Handled
				if c.MaxDepth > cx.counters.MaxDepth {
					cx.counters.MaxDepth = c.MaxDepth
				}
				for k, n := range c.CutPopped {
					if cx.counters.CutPopped == nil {
						cx.counters.CutPopped = map[int]int64{}
					}
					cx.counters.CutPopped[k] += n
				}
				for k, n := range c.Ops {
					if cx.counters.Ops == nil {
						cx.counters.Ops = map[string]int64{}
					}
					cx.counters.Ops[k] += n
				}
			}
		}
	}
	for k, n := range v.Extra {
		cx.extra[k] += n
	}
	if v.NonTrivial {
		cx.nontrivial[hash8(v.Key)] = struct{}{}
	}
	switch v.Status {
	case Held:
		if v.Sample != nil {
			switch {
			case len(cx.samples) == 0:
				cx.samples = append(cx.samples, v.Sample)
				cx.sampleTrivial = !v.NonTrivial
			case v.NonTrivial && cx.sampleTrivial:
				cx.samples[0] = v.Sample
				cx.sampleTrivial = false
			case v.NonTrivial && len(cx.samples) < 4:
				cx.samples = append(cx.samples, v.Sample)
			}
		}
	case Inconclusive:
		if len(cx.inconcl) < 50 {
			cx.inconcl = append(cx.inconcl, v.Msg)
		}
		cx.extra["inconclusive"]++
	case Violated:
		if name := kf.match(v); name != "" {
			cx.known[name]++
			return
		}
		cx.violations = append(cx.violations, violation{it, v, outs})
	}
}

// evidence is the JSON written to evidence/<id>.json.
type evidence struct {
	PropertyID  string                 `json:"property_id"`
	Tier        string                 `json:"tier"`
	Seed        int64                  `json:"seed"`
	Level       string                 `json:"level"`
	Coverage    map[string]interface{} `json:"coverage"`
	Assumptions []string               `json:"assumptions"`
	WallS       float64                `json:"wall_s"`
	Violations  int                    `json:"violations"`
}

func (cx *Ctx) finish(ch Check, kf *knownFindings) int {
	id := ch.ID()
	vd := run.VerifDir()
	cov := map[string]interface{}{
		"evaluations":         cx.evals,
		"distinct_nontrivial": len(cx.nontrivial),
		"rule":                ch.Rule(),
		"samples":             cx.samples,
		"inconclusive":        cx.extra["inconclusive"],
		"hooks_enabled":       cx.hooksSeen,
		"repo":                run.RepoDir(),
	}
	if cx.exhaustive {
		cov["exhaustive"] = true
	}
	cov["phase_seconds"] = map[string]float64{"generate": cx.genS, "execute": cx.runS, "judge": cx.judgeS}
	cov["worker_time_s"] = float64(cx.workerMS) / 1000
	cov["slowest_case_ms"] = cx.slowestMS
	if cx.slowestNote != "" {
		cov["slowest_case"] = cx.slowestNote
	}
	if len(cx.inconcl) > 0 {
		n := len(cx.inconcl)
		if n > 5 {
			n = 5
		}
		cov["inconclusive_examples"] = cx.inconcl[:n]
	}
	for k, v := range cx.extra {
		if k != "inconclusive" {
			cov[k] = v
		}
	}
	if cx.counters.Steps > 0 {
		cov["trampoline_steps"] = cx.counters.Steps
		cov["max_promise_stack_depth"] = cx.counters.MaxDepth
		cov["cuts_executed"] = cx.counters.Cuts
		cov["cut_discarded_histogram"] = cx.counters.CutPopped
		cov["recover_events"] = cx.counters.Recovers
		cov["recover_handled"] = cx.counters.Handled
		cov["opcode_histogram"] = cx.counters.Ops
	}
	if len(cx.known) > 0 {
		cov["known_findings_hit"] = cx.known
	}
	if len(cx.notes) > 0 {
		cov["notes"] = cx.notes
	}
	if len(cx.samples) == 0 {
		cov["samples"] = []interface{}{"(no sample recorded)"}
	}
	ev := evidence{PropertyID: id, Tier: cx.Tier, Seed: cx.Seed, Level: ch.Level(), Coverage: cov,
		Assumptions: ch.Assumptions(), WallS: time.Since(cx.start).Seconds(), Violations: len(cx.violations)}

	exit := 0
	// violations: write replay files, print lines
	sort.SliceStable(cx.violations, func(i, j int) bool { return cx.violations[i].Verdict.Key < cx.violations[j].Verdict.Key })
	evDir, repDir := filepath.Join(vd, "evidence"), filepath.Join(vd, "replay")
	if run.RepoDir() != "/repo" {
		// trial runs against scratch copies (seeded changes) never touch the committed evidence
		evDir, repDir = filepath.Join(os.TempDir(), "verif-trial", "evidence"), filepath.Join(os.TempDir(), "verif-trial", "replay")
	}
	os.MkdirAll(repDir, 0o755)
	printed := 0
	var vsamples []interface{}
	for _, v := range cx.violations {
		path := filepath.Join(repDir, fmt.Sprintf("%s-%s.json", id, hash12(v.Verdict.Key)))
		rep := map[string]interface{}{
			"property": id, "tier": cx.Tier, "seed": cx.Seed, "item": v.Item, "message": v.Verdict.Msg,
			"class": v.Verdict.Class, "key": v.Verdict.Key, "sample": v.Verdict.Sample, "outcomes": summarizeOuts(v.Outs),
		}
		b, _ := json.MarshalIndent(rep, "", " ")
		_ = os.WriteFile(path, b, 0o644)
		if printed < 25 {
			fmt.Printf("VIOLATION property=%s replay=%s\n", id, path)
			fmt.Printf("  %s\n", firstLine(v.Verdict.Msg))
			printed++
		}
		if len(vsamples) < 5 {
			vsamples = append(vsamples, map[string]interface{}{"message": v.Verdict.Msg, "sample": v.Verdict.Sample})
		}
		exit = 1
	}
	if len(cx.violations) > printed {
		fmt.Printf("(%d further violations not listed; all replay files are under %s/replay)\n", len(cx.violations)-printed, vd)
	}
	if len(vsamples) > 0 {
		cov["violation_samples"] = vsamples
	}
	for name, n := range cx.known {
		fmt.Printf("KNOWN-FINDING: property=%s %s (%d occurrences in this run)\n", id, kf.text[name], n)
	}
	// a run that observed nothing is a broken check, not "held"
	broken := ""
	if cx.evals == 0 {
		broken = "no case was executed"
	} else if len(cx.nontrivial) < 2 && exit == 0 {
		broken = "fewer than 2 distinct non-trivial cases were observed"
	}
	os.MkdirAll(evDir, 0o755)
	b, _ := json.MarshalIndent(&ev, "", " ")
	if err := os.WriteFile(filepath.Join(evDir, id+".json"), b, 0o644); err != nil {
		fmt.Fprintln(os.Stderr, "cannot write evidence:", err)
		return 2
	}
	fmt.Printf("%s tier=%s seed=%d evaluations=%d distinct_nontrivial=%d violations=%d known=%d inconclusive=%d hooks=%v wall=%.1fs\n",
		id, cx.Tier, cx.Seed, cx.evals, len(cx.nontrivial), len(cx.violations), len(cx.known), cx.extra["inconclusive"], cx.hooksSeen, ev.WallS)
	if broken != "" && exit == 0 {
		fmt.Printf("BROKEN-CHECK property=%s %s\n", id, broken)
		return 2
	}
	return exit
}

func hash12(s string) string {
	h := sha256.Sum256([]byte(s))
	return hex.EncodeToString(h[:6])
}

func firstLine(s string) string {
	if i := strings.IndexByte(s, '\n'); i >= 0 {
		s = s[:i]
	}
	if len(s) > 400 {
		s = s[:400] + "…"
	}
	return s
}

func summarizeOuts(outs []*run.Outcome) []interface{} {
	var r []interface{}
	for _, o := range outs {
		if o.Crash != nil {
			st := o.Crash.Stderr
			if len(st) > 6000 {
				st = st[:6000] + "…"
			}
			r = append(r, map[string]interface{}{"crash": o.Crash.Exit, "hung": o.Crash.Hung, "cpu_s": o.Crash.CPUSeconds, "stderr": st})
		} else {
			r = append(r, o.Res)
		}
	}
	return r
}
