package main

// C12 — the Solutions iterator never blocks, counts answers exactly and stops on Close.
//
// The worker (kind "solseq") issues a sequence of Next/Scan/Err/Close calls from its main goroutine against
// one or two Solutions of a fresh interpreter and reports what every call returned, what appeared on
// user_output during it, and which goroutines survive. The oracle below is a sequential model of the
// iterator over a hand-written description of what each (tiny) test query does. "Blocks forever" is decided
// by the Go runtime's deadlock detector in the worker process, never by a clock.

import (
	"encoding/json"
	"fmt"
	"regexp"
	"strconv"
	"strings"
	"sync"
	"time"

	"verif/internal/proto"
	"verif/internal/run"
	"verif/internal/term"
)

func init() { checks["C12"] = func() Check { return &c12{} } }

type c12 struct {
	units      []func() []*Item
	raceOnce   sync.Once
	raceWorker *run.Worker
	racePl     *run.Pool
}

func (*c12) ID() string    { return "C12" }
func (*c12) Level() string { return "exploration" }
func (*c12) Rule() string {
	return "call sequences over {Next, Scan, Err, Close} issued from one goroutine against a fresh interpreter, for 17 query kinds (member/2 on an open list = infinite, between/3 up to max_integer, 0/1/2/3 answers via member/2, three answers of which the middle one leaves X unbound, one deterministic answer, throw/1 after 0/1/2 answers, a built-in type error after 1 answer, repeat = infinite, 2 answers then infinite; every answer is preceded by a write/1 of the answer). quick: ALL sequences of length <= 5 per kind + a seeded sample of 3000 of length 6 + for 6 pairs of kinds ALL interleavings of two sequences of length <= 2 on two open Solutions of one interpreter + a seeded sample of 4000 interleavings of two sequences of length 3 over all pairs of kinds. thorough: ALL sequences of length <= 7 per kind and of length 8 for 3 kinds, ALL interleavings of two sequences of length <= 2 for all 121 pairs of kinds and of length <= 3 for 3 pairs; the sequences of length <= 4, the length <= 2 interleavings of the 6 pairs and every 61st longer interleaving run a second time in a worker built with -race. The worker then closes whatever the sequence left open and waits for the goroutine count to return to its baseline. Every Scan is repeated into a destination (struct with an interface{} field) that already received the earlier answers of that Solutions and must report the same value. QuerySolution: every kind x every sequence over {Scan, Err} (quick: length <= 3, thorough: <= 5, incl. no call at all): Err nil iff there is an answer, Scan = first answer, goroutine count back at its baseline although the caller has nothing to close. Oracle: sequential model (Next true once per answer in order, then false; false after error/Close; Scan = current answer; Err = nil until the error was reached; Close nil once then ErrClosed; user_output is a prefix of the query's write stream, contains the writes every returned Next depended on, and does not grow after Close; no library goroutine parked in a channel operation survives Close); blocking = runtime deadlock detector ('all goroutines are asleep'), panics = process death or recovered panic of the call. Non-trivial: the requested sequence contains a call made after that Solutions had reached a terminal state (exhausted / error / closed); distinct by (kinds, sequences, merge order)."
}
func (*c12) Assumptions() []string {
	return []string{
		"the 11 test queries mean what the hand-written step tables in c12.go say (standard Prolog semantics of member/2, write/1, ==/2, ->/2, throw/1, repeat/0, atom_length/2)",
		"the Go runtime reports a process in which no goroutine can run as 'all goroutines are asleep - deadlock!' (the worker keeps no timer, signal handler or reader goroutine alive while the calls are issued)",
		"a goroutine whose dump header says chan send / chan receive / select stays parked unless another goroutine acts on that channel",
		"Scan when there is no current answer (before the first Next, after a Next that returned false) is only required to return; when user_output shows the search running ahead of the Next calls (eager search) nothing is asserted beyond prefix/lower bound/no growth after Close",
		"goroutine termination is required after Close only (the worker closes every Solutions at the end of the sequence)",
		"bytes that reach user_output while a Close call is still executing are attributed to the time before Close; growth is asserted from the return of Close on (including a final look after the settle phase)",
		"-race re-runs (thorough) cover only cases that returned in the plain build: the deadlock detector is not available in race builds",
	}
}

func (*c12) Tune(cx *Ctx) {
	cx.Pool.CaseTimeout = 30 * time.Second
	cx.Pool.Batch = 200
	if cx.Race {
		// whole run in a -race worker (vcheck C12 --race): a blocked call is then a watchdog hang (inconclusive)
		cx.Pool.CaseTimeout = 10 * time.Second
		cx.Pool.ExtraEnv = append(cx.Pool.ExtraEnv, "GORACE=halt_on_error=1")
	}
}

// ---------------------------------------------------------------------------------------------------
// the test queries and what they do, step by step (one step = one Next that reaches the search)

type c12Step struct {
	Out  string     // what the search writes on its way to this outcome
	Kind byte       // 'a' answer, 'x' exhausted, 'e' error
	Val  string     // answers: JSON of X as Scan(map[string]interface{}) reports it
	Err  *term.Term // errors: the ball
}

type c12Model struct {
	Steps []c12Step
	Loop  *c12Step // infinite queries: every further Next gives this
}

func (m *c12Model) step(i int) c12Step {
	if i < len(m.Steps) {
		return m.Steps[i]
	}
	return *m.Loop // only reached for infinite queries: finite ones end in 'x' or 'e'
}

// stream returns the first n bytes (or all, if shorter) of everything the query can ever write.
func (m *c12Model) stream(n int) string {
	var sb strings.Builder
	for _, s := range m.Steps {
		sb.WriteString(s.Out)
	}
	for m.Loop != nil && m.Loop.Out != "" && sb.Len() < n {
		sb.WriteString(m.Loop.Out)
	}
	return sb.String()
}

var c12Kinds = []string{"ans0", "ans1", "ans2", "ans3", "det1", "throw0", "throw1", "throw2", "typeerr1", "inf", "infdet", "cut1", "cutalt", "goeager3", "gap3", "bmax2", "infmem"}

// symbols: Solutions A works with atoms, B with integers, so that bytes on the shared user_output can be
// attributed to the query that wrote them.
var c12Syms = [2][6]string{{"w", "p", "q", "r", "z", "k"}, {"0", "1", "2", "3", "9", "7"}}

// c12Unbound: what Scan(map[string]interface{}) reports for a variable the answer leaves unbound, as JSON.
const c12Unbound = "null"

func c12Slot(b byte) int {
	switch {
	case b >= 'a' && b <= 'z':
		return 0
	case b >= '0' && b <= '9':
		return 1
	}
	return -1
}

func c12JSON(slot int, sym string) string {
	if slot == 0 {
		return strconv.Quote(sym)
	}
	return sym
}

func c12Atom(slot int, sym string) *term.Term {
	if slot == 0 {
		return term.A(sym)
	}
	n, _ := strconv.ParseInt(sym, 10, 64)
	return term.I(n)
}

// c12Query returns the query text and its model for a kind, written with the symbols of a slot.
func c12Query(kind string, slot int) (string, *c12Model) {
	sy := c12Syms[slot]
	w, elems, z, k := sy[0], sy[1:4], sy[4], sy[5]
	ans := func(s string) c12Step { return c12Step{Out: s, Kind: 'a', Val: c12JSON(slot, s)} }
	n := int(kind[len(kind)-1] - '0')
	m := &c12Model{}
	switch {
	case kind == "ans0":
		// the leading write shows when the search starts
		m.Steps = []c12Step{{Out: w, Kind: 'x'}}
		return fmt.Sprintf("write(%s), member(X, []), write(X).", w), m
	case strings.HasPrefix(kind, "ans"):
		for _, e := range elems[:n] {
			m.Steps = append(m.Steps, ans(e))
		}
		m.Steps = append(m.Steps, c12Step{Kind: 'x'})
		return fmt.Sprintf("member(X, [%s]), write(X).", strings.Join(elems[:n], ", ")), m
	case kind == "goeager3":
		// three answers enumerated by a non-deterministic Go built-in (sub_atom/5) whose continuation up to the end
		// of the query consists of Go built-ins only (they call their continuation directly, without a trampoline
		// bounce): Close must stop the enumeration there as well
		for _, e := range elems[:3] {
			m.Steps = append(m.Steps, ans(e))
		}
		m.Steps = append(m.Steps, c12Step{Kind: 'x'})
		txt := strings.Join(elems[:3], "")
		if slot == 0 {
			return fmt.Sprintf("sub_atom(%s, _, 1, _, X), put_char(user_output, X).", txt), m
		}
		return fmt.Sprintf("sub_atom('%s', _, 1, _, Y), atom_codes(Y, [C]), X is C - 48, put_char(user_output, Y).", txt), m
	case kind == "infmem":
		// infinitely many answers from a library predicate on an open list (every answer leaves X unbound; writes nothing)
		l := c12Step{Kind: 'a', Val: c12Unbound}
		m.Loop = &l
		return "member(X, _).", m
	case kind == "bmax2":
		// two answers enumerated by between/3 up to the largest integer: exhausted after them (writes nothing)
		m.Steps = []c12Step{{Kind: 'a', Val: "9223372036854775806"}, {Kind: 'a', Val: "9223372036854775807"}, {Kind: 'x'}}
		return "between(9223372036854775806, 9223372036854775807, X).", m
	case kind == "gap3":
		// three answers, the middle one leaves X unbound (a destination that received the first answer must not keep it)
		m.Steps = []c12Step{ans(elems[0]), {Out: w, Kind: 'a', Val: c12Unbound}, ans(elems[2]), {Kind: 'x'}}
		return fmt.Sprintf("(X = %s, write(X) ; write(%s) ; X = %s, write(X)).", elems[0], w, elems[2]), m
	case kind == "cut1" || kind == "cutalt":
		// queries made of cuts only: their single answer carries the EMPTY environment (a nil *engine.Env), which
		// must still count as an answer; there is no variable X, so Scan reports it as absent
		m.Steps = []c12Step{{Kind: 'a', Val: "absent"}, {Kind: 'x'}}
		if kind == "cut1" {
			return "!.", m
		}
		return "(! ; true).", m
	case kind == "det1":
		m.Steps = []c12Step{ans(elems[0]), {Kind: 'x'}}
		return fmt.Sprintf("X = %s, write(X).", elems[0]), m
	case strings.HasPrefix(kind, "throw"):
		for _, e := range elems[:n] {
			m.Steps = append(m.Steps, ans(e))
		}
		m.Steps = append(m.Steps, c12Step{Out: z, Kind: 'e', Err: term.C("boom", c12Atom(slot, z))})
		l := append(append([]string{}, elems[:n]...), z)
		return fmt.Sprintf("member(X, [%s]), write(X), (X == %s -> throw(boom(X)) ; true).", strings.Join(l, ", "), z), m
	case kind == "typeerr1":
		m.Steps = []c12Step{ans(elems[0]), {Out: z, Kind: 'e', Err: term.C("error", term.C("type_error", term.A("integer"), term.A("foo")), term.V(0))}}
		return fmt.Sprintf("member(X, [%s, %s]), write(X), (X == %s -> atom_length(abc, foo) ; true).", elems[0], z, z), m
	case kind == "inf":
		l := ans(k)
		m.Loop = &l
		return fmt.Sprintf("repeat, X = %s, write(X).", k), m
	case kind == "infdet":
		// infinitely many answers, the first two spelled out
		l := ans(k)
		m.Steps = []c12Step{ans(elems[0]), ans(elems[1])}
		m.Loop = &l
		return fmt.Sprintf("(member(X, [%s, %s]) ; repeat, X = %s), write(X).", elems[0], elems[1], k), m
	}
	panic("unknown C12 query kind " + kind)
}

// ---------------------------------------------------------------------------------------------------
// the sequential model of one Solutions

type c12Sol struct {
	m        *c12Model
	idx      int  // steps consumed by Next calls
	term     byte // 0 = search open, 'x' exhausted, 'e' error (as seen through a Next that returned false)
	closed   bool
	hasCur   bool   // the most recent Next returned true
	cur      string // its answer
	err      *term.Term
	extra    int    // Next calls made after exhaustion/error while not closed (deviation model of the known defect)
	lazy     string // what the search has written if it runs only inside Next calls
	obs      string // what it was observed to write
	closedAt int    // len(obs) when Close returned (-1 = not closed)
}

func (s *c12Sol) terminal() bool { return s.closed || s.term != 0 }

type c12Meta struct {
	Kinds []string `json:"kinds"`
	Ops   []string `json:"ops"`
	Order string   `json:"order,omitempty"`
	Race  bool     `json:"race,omitempty"` // run a second time in a worker built with -race (thorough tier)
	// Single: opened with QuerySolution (Scan and Err only; the library closes the search by itself)
	Single bool `json:"single,omitempty"`
}

func (m *c12Meta) order() string {
	if m.Order != "" || len(m.Ops) == 0 {
		return m.Order
	}
	o := strings.Repeat("A", len(m.Ops[0]))
	if len(m.Ops) > 1 {
		o += strings.Repeat("B", len(m.Ops[1]))
	}
	return o
}

// key identifies the sequence (cut after the first n calls when n >= 0).
func (m *c12Meta) key(n int) string {
	o := m.order()
	if n >= 0 && n < len(o) {
		o = o[:n]
	}
	ops := make([]string, len(m.Ops))
	for i := range ops {
		ops[i] = m.Ops[i][:strings.Count(o, string(rune('A'+i)))]
	}
	if len(m.Kinds) == 1 {
		return m.Kinds[0] + " " + ops[0]
	}
	return fmt.Sprintf("%s %s | %s %s | %s", m.Kinds[0], ops[0], m.Kinds[1], ops[1], o)
}

func c12Item(m *c12Meta) *Item {
	p := proto.SolSeq{Ops: m.Ops, Order: m.Order, Solution: m.Single}
	for i, k := range m.Kinds {
		q, _ := c12Query(k, i)
		p.Queries = append(p.Queries, q)
	}
	pb, _ := json.Marshal(&p)
	mb, _ := json.Marshal(m)
	return &Item{Cases: []*proto.Case{{Kind: "solseq", P: pb}}, Meta: mb, Note: m.key(-1)}
}

// ---------------------------------------------------------------------------------------------------
// generation

const c12Alphabet = "NSEC"

// c12Seqs returns all sequences of exactly n calls.
func c12Seqs(n int) []string {
	out := []string{""}
	for i := 0; i < n; i++ {
		var next []string
		for _, s := range out {
			for _, c := range c12Alphabet {
				next = append(next, s+string(c))
			}
		}
		out = next
	}
	return out
}

// c12Merges returns all merge orders of la calls of A and lb calls of B.
func c12Merges(la, lb int) []string {
	if la == 0 {
		return []string{strings.Repeat("B", lb)}
	}
	if lb == 0 {
		return []string{strings.Repeat("A", la)}
	}
	var out []string
	for _, s := range c12Merges(la-1, lb) {
		out = append(out, "A"+s)
	}
	for _, s := range c12Merges(la, lb-1) {
		out = append(out, "B"+s)
	}
	return out
}

// the pairs of kinds whose interleavings are enumerated in the quick tier (length <= 2); the thorough tier
// enumerates the first three up to length 3
var c12Pairs = [][2]string{{"ans2", "throw1"}, {"inf", "ans1"}, {"throw1", "inf"}, {"ans2", "ans2"}, {"ans0", "ans3"}, {"typeerr1", "det1"}}

// the kinds whose sequences of length 8 are enumerated in the thorough tier
var c12Len8 = []string{"ans2", "throw1", "infdet"}

// c12Interleavings enumerates every merge of every pair of sequences with lengths in 1..maxLen, at least one of
// them >= minLen. raceEvery > 0 marks every raceEvery-th item for the additional run under the race detector.
func c12Interleavings(ka, kb string, minLen, maxLen, raceEvery int) []*Item {
	var items []*Item
	for la := 1; la <= maxLen; la++ {
		for lb := 1; lb <= maxLen; lb++ {
			if la < minLen && lb < minLen {
				continue
			}
			merges := c12Merges(la, lb)
			for _, a := range c12Seqs(la) {
				for _, b := range c12Seqs(lb) {
					for _, o := range merges {
						race := raceEvery > 0 && len(items)%raceEvery == 0
						items = append(items, c12Item(&c12Meta{Kinds: []string{ka, kb}, Ops: []string{a, b}, Order: o, Race: race}))
					}
				}
			}
		}
	}
	return items
}

func (c *c12) plan(cx *Ctx) {
	single := func(kind string, lo, hi int) func() []*Item {
		return func() []*Item {
			var items []*Item
			for n := lo; n <= hi; n++ {
				for _, s := range c12Seqs(n) {
					// thorough: the short sequences run a second time under the race detector
					items = append(items, c12Item(&c12Meta{Kinds: []string{kind}, Ops: []string{s}, Race: cx.Thorough() && n <= 4}))
				}
			}
			return items
		}
	}
	randSeq := func(r interface{ Intn(int) int }, n int) string {
		b := make([]byte, n)
		for i := range b {
			b[i] = c12Alphabet[r.Intn(4)]
		}
		return string(b)
	}
	if !cx.Thorough() {
		c.units = append(c.units, func() []*Item {
			var items []*Item
			for _, k := range c12Kinds {
				items = append(items, single(k, 1, 5)()...)
			}
			// QuerySolution: every kind x every sequence over {Scan, Err} of length <= 3 (incl. no call at all)
			for _, k := range c12Kinds {
				for _, ops := range []string{"", "E", "S", "EE", "ES", "SE", "SS", "EEE", "SES", "ESE", "SSE"} {
					items = append(items, c12Item(&c12Meta{Kinds: []string{k}, Ops: []string{ops}, Single: true}))
				}
			}
			r := cx.Rng("c12/len6")
			for i := 0; i < 3000; i++ {
				k := c12Kinds[r.Intn(len(c12Kinds))]
				items = append(items, c12Item(&c12Meta{Kinds: []string{k}, Ops: []string{randSeq(r, 6)}}))
			}
			for _, p := range c12Pairs {
				items = append(items, c12Interleavings(p[0], p[1], 1, 2, 0)...)
			}
			r = cx.Rng("c12/merge33")
			merges := c12Merges(3, 3)
			for i := 0; i < 4000; i++ {
				ka, kb := c12Kinds[r.Intn(len(c12Kinds))], c12Kinds[r.Intn(len(c12Kinds))]
				items = append(items, c12Item(&c12Meta{Kinds: []string{ka, kb}, Ops: []string{randSeq(r, 3), randSeq(r, 3)}, Order: merges[r.Intn(len(merges))]}))
			}
			return items
		})
		return
	}
	c.units = append(c.units, func() []*Item {
		// QuerySolution: every kind x every sequence over {Scan, Err} of length <= 5
		var items []*Item
		for _, k := range c12Kinds {
			seqs := []string{""}
			for n, lo := 1, 0; n <= 5; n++ {
				hi := len(seqs)
				for _, p := range seqs[lo:hi] {
					seqs = append(seqs, p+"S", p+"E")
				}
				lo = hi
			}
			for _, ops := range seqs {
				items = append(items, c12Item(&c12Meta{Kinds: []string{k}, Ops: []string{ops}, Single: true}))
			}
		}
		return items
	})
	for _, k := range c12Kinds {
		c.units = append(c.units, single(k, 1, 7))
	}
	for _, k := range c12Len8 {
		c.units = append(c.units, single(k, 8, 8))
	}
	for i, p := range c12Pairs {
		p := p
		c.units = append(c.units, func() []*Item { return c12Interleavings(p[0], p[1], 1, 2, 1) })
		if i < 3 {
			c.units = append(c.units, func() []*Item { return c12Interleavings(p[0], p[1], 3, 3, 61) })
		}
	}
	c.units = append(c.units, func() []*Item {
		var items []*Item
		for _, ka := range c12Kinds {
			for _, kb := range c12Kinds {
				listed := false
				for _, p := range c12Pairs {
					listed = listed || (p[0] == ka && p[1] == kb)
				}
				if !listed {
					items = append(items, c12Interleavings(ka, kb, 1, 2, 0)...)
				}
			}
		}
		return items
	})
}

func (c *c12) Generate(cx *Ctx, chunk int) []*Item {
	if chunk == 0 {
		c.units = nil
		c.plan(cx)
		cx.exhaustive = true
	}
	if chunk >= len(c.units) {
		c.closeRacePool()
		return nil
	}
	return c.units[chunk]()
}

// ---------------------------------------------------------------------------------------------------
// the oracle

var c12Marker = regexp.MustCompile(`(?m)^solseq (\S+) call (\d+) ([AB])([NSEC])$`)

const c12KnownClass = "next_blocks_after_termination"

func c12OpName(op byte) string {
	return map[byte]string{'N': "Next", 'S': "Scan", 'E': "Err", 'C': "Close"}[op]
}

// c12ErrMatches compares an observed error with the expected ball; for error(Formal, Context) only Formal.
func c12ErrMatches(exp *term.Term, e *proto.Err) bool {
	if e == nil || e.Exception == nil {
		return false
	}
	if exp.IsCmp("error", 2) {
		return e.Exception.IsCmp("error", 2) && term.Equal(exp.Args[0], e.Exception.Args[0])
	}
	return term.Equal(exp, e.Exception)
}

func c12ErrText(e *proto.Err) string {
	if e == nil {
		return "?"
	}
	if e.Exception != nil {
		return "exception " + e.Exception.String()
	}
	return fmt.Sprintf("error %q", e.Text)
}

func (c *c12) Judge(cx *Ctx, it *Item, outs []*run.Outcome) Verdict {
	var m c12Meta
	if err := decodeMeta(it, &m); err != nil || len(m.Kinds) == 0 || len(m.Kinds) != len(m.Ops) {
		return Verdict{Status: Inconclusive, Msg: "bad C12 meta"}
	}
	v := c12Judge(&m, outs[0])
	if !m.Race || cx.Race || v.Status != Held {
		return v
	}
	// Second execution of the same case in a worker built with -race (GORACE=halt_on_error=1): the calling
	// goroutine and the query goroutine hand the answer, the error and the interpreter back and forth; the
	// race detector decides whether every such hand-over is ordered. The deadlock detector does not work in
	// race builds, which is why only cases that returned in the plain build are re-run.
	defer func() {
		if strings.HasPrefix(outs[0].Case.ID, "replay.") {
			c.closeRacePool()
		}
	}()
	pool := c.racePool()
	if pool == nil {
		v.Extra["race_rerun_unavailable"]++
		return v
	}
	rc := *it.Cases[0]
	rc.ID = "race." + outs[0].Case.ID
	rv := c12Judge(&m, pool.Run([]*proto.Case{&rc})[0])
	switch rv.Status {
	case Violated:
		rv.Msg = "[worker built with -race] " + rv.Msg
		for k, n := range v.Extra {
			rv.Extra[k] += n
		}
		rv.Extra["race_reruns"]++
		return rv
	case Inconclusive:
		v.Extra["race_rerun_inconclusive"]++
	default:
		v.Extra["race_reruns"]++
	}
	return v
}

// racePool builds (once) a second worker with the race detector for the re-runs of the thorough tier.
func (c *c12) racePool() *run.Pool {
	c.raceOnce.Do(func() {
		w, err := run.BuildWorker(true)
		if err != nil {
			return
		}
		c.raceWorker = w
		c.racePl = run.NewPool(w)
		c.racePl.Par = 1
		c.racePl.CaseTimeout = 20 * time.Second
		c.racePl.ExtraEnv = []string{"GORACE=halt_on_error=1"}
	})
	return c.racePl
}

func (c *c12) closeRacePool() {
	if c.raceWorker != nil {
		c.raceWorker.Cleanup()
	}
}

// c12Judge is the oracle proper: a pure function of the sequence and of what one worker run observed.
// c12JudgeSingle: QuerySolution. The first answer (or the reason why there is none) is all there is; every call
// returns, Err is nil iff there is an answer, Scan reports that answer, and no goroutine of the library stays behind
// although the caller has nothing to close.
func c12JudgeSingle(m *c12Meta, o *run.Outcome) Verdict {
	v := Verdict{Key: "single " + m.key(-1), Extra: map[string]int64{"cases_query_solution": 1}}
	if o.Crash != nil {
		v.Status, v.Msg = Violated, fmt.Sprintf("QuerySolution %s: the process died or blocked: %s", m.key(-1), firstLines(o.Crash.Stderr, 12))
		if !strings.Contains(o.Crash.Stderr, "all goroutines are asleep") && !strings.Contains(o.Crash.Stderr, "panic") {
			v.Status = Inconclusive
		}
		return v
	}
	if o.Res == nil || o.Res.Fatal != "" || len(o.Res.R) == 0 {
		return Verdict{Status: Inconclusive, Msg: "worker: no result"}
	}
	var r proto.SolSeqResult
	if err := json.Unmarshal(o.Res.R, &r); err != nil {
		return Verdict{Status: Inconclusive, Msg: err.Error()}
	}
	fail := func(f string, a ...interface{}) Verdict {
		v.Status, v.Msg = Violated, "QuerySolution "+m.key(-1)+": "+fmt.Sprintf(f, a...)
		return v
	}
	for i, op := range r.Ops {
		_, mod := c12Query(m.Kinds[op.Sol], op.Sol)
		first := mod.step(0)
		if op.Panic != "" {
			return fail("call %d (%s) panicked: %s", i, op.Op, op.Panic)
		}
		switch op.Op {
		case "E":
			switch {
			case first.Kind == 'a' && !op.Nil:
				return fail("Err returned %s although the query has an answer", c12ErrText(op.Err))
			case first.Kind != 'a' && op.Nil:
				return fail("Err returned nil although the query has no answer")
			case first.Kind == 'e' && !c12ErrMatches(first.Err, op.Err):
				return fail("Err returned %s, expected the terminating error %s", c12ErrText(op.Err), first.Err.String())
			}
			v.Extra["single_err_compared"]++
		case "S":
			if first.Kind != 'a' {
				if op.Nil {
					return fail("Scan succeeded although the query has no answer")
				}
				break
			}
			if !op.Nil {
				return fail("Scan failed with %s, expected X=%s", c12ErrText(op.Err), first.Val)
			}
			if op.Val != first.Val {
				return fail("Scan reported X=%s, the first answer is X=%s", op.Val, first.Val)
			}
			v.Extra["single_scan_compared"]++
		}
	}
	if r.GFinal > r.G0 {
		var ss []string
		for _, g := range r.New {
			ss = append(ss, fmt.Sprintf("goroutine %d [%s]: %s", g.ID, g.State, firstLines(g.Stack, 8)))
		}
		return fail("%d goroutine(s) more than before the call stay behind (the caller of QuerySolution has nothing to close): %s", r.GFinal-r.G0, strings.Join(ss, " | "))
	}
	v.Extra["single_goroutines_back_to_baseline"]++
	v.NonTrivial = len(r.Ops) > 0
	return v
}

func c12Judge(m *c12Meta, o *run.Outcome) Verdict {
	if m.Single {
		return c12JudgeSingle(m, o)
	}
	order := m.order()
	sols := make([]*c12Sol, len(m.Kinds))
	var queries []string
	for i, k := range m.Kinds {
		q, mod := c12Query(k, i)
		sols[i] = &c12Sol{m: mod, closedAt: -1}
		queries = append(queries, q)
	}
	v := Verdict{Key: m.key(-1), Extra: map[string]int64{}}
	ex := v.Extra
	if len(m.Kinds) == 1 {
		ex["cases_single"]++
		ex["kind_"+m.Kinds[0]]++
		ex[fmt.Sprintf("len_%d", len(order))]++
	} else {
		ex["cases_interleaved"]++
	}

	// the calls that will be observed: the requested ones, then the worker's cleanup Close per open Solutions
	type call struct {
		sol     int
		op      byte
		cleanup bool
	}
	var calls []call
	{
		pos := make([]int, len(sols))
		closed := make([]bool, len(sols))
		for _, w := range []byte(order) {
			si := int(w - 'A')
			if si < 0 || si >= len(sols) || pos[si] >= len(m.Ops[si]) {
				return Verdict{Status: Inconclusive, Msg: "bad C12 meta: merge order"}
			}
			op := m.Ops[si][pos[si]]
			pos[si]++
			closed[si] = closed[si] || op == 'C'
			calls = append(calls, call{si, op, false})
		}
		for si := range sols {
			if !closed[si] {
				calls = append(calls, call{si, 'C', true})
			}
		}
	}

	// run the model over the calls: expectations, non-triviality, the call at which the known defect blocks
	type expect struct {
		text     string // for the sample
		asserted bool
		b        bool       // Next
		val      string     // Scan
		err      *term.Term // Err (nil = nil error)
		first    bool       // Close: first Close of that Solutions
		lazyLen  int        // lower bound for that Solutions' output once the call has returned
	}
	exps := make([]expect, len(calls))
	knownBlock := -1
	for i, cl := range calls {
		s := sols[cl.sol]
		e := expect{asserted: true}
		if s.terminal() && !cl.cleanup {
			v.NonTrivial = true
			ex["calls_in_terminal_state"]++
		}
		switch cl.op {
		case 'N':
			switch {
			case s.closed:
				s.hasCur = false
			case s.term != 0:
				s.hasCur = false
				s.extra++
				if s.extra == 2 && knownBlock < 0 {
					knownBlock = i
				}
			default:
				st := s.m.step(s.idx)
				s.idx++
				s.lazy += st.Out
				switch st.Kind {
				case 'a':
					e.b, s.hasCur, s.cur = true, true, st.Val
				case 'x':
					s.term, s.hasCur = 'x', false
				case 'e':
					s.term, s.hasCur, s.err = 'e', false, st.Err
				}
			}
			e.text = fmt.Sprintf("Next=%v", e.b)
		case 'S':
			if s.hasCur {
				e.val = s.cur
				e.text = "Scan: X=" + s.cur
			} else {
				e.asserted = false
				e.text = "Scan: (no current answer: only required to return)"
			}
		case 'E':
			e.err = s.err
			if s.err == nil {
				e.text = "Err=nil"
			} else {
				e.text = "Err=exception " + s.err.String()
			}
		case 'C':
			e.first = !s.closed
			s.closed = true
			if e.first {
				e.text = "Close=nil"
			} else {
				e.text = "Close=ErrClosed"
			}
		}
		e.lazyLen = len(s.lazy)
		exps[i] = e
	}
	expText := func() []string {
		var l []string
		for i, cl := range calls {
			t := fmt.Sprintf("%c.%s", 'A'+cl.sol, exps[i].text)
			if cl.cleanup {
				t += " (cleanup)"
			}
			l = append(l, t)
		}
		return l
	}
	sample := map[string]interface{}{"queries": queries, "calls": m.key(-1), "expected": expText()}
	v.Sample = sample
	fail := func(at int, format string, a ...interface{}) Verdict {
		v.Status = Violated
		where := ""
		if at == len(calls) {
			where = "after the last call had returned: "
		} else if at >= 0 && at < len(calls) {
			where = fmt.Sprintf("call #%d (%c.%s): ", at+1, 'A'+calls[at].sol, c12OpName(calls[at].op))
		}
		v.Msg = fmt.Sprintf("%s: %s%s | queries: %s", m.key(-1), where, fmt.Sprintf(format, a...), strings.Join(queries, "  /  "))
		return v
	}

	if o.Crash != nil {
		cr := o.Crash
		at := -1
		for _, mm := range c12Marker.FindAllStringSubmatch(cr.Stderr, -1) {
			if mm[1] == o.Case.ID {
				at, _ = strconv.Atoi(mm[2])
			}
		}
		sample["observed"] = "worker process ended: " + cr.Exit
		lib := strings.Contains(cr.Stderr, "github.com/ichiban/prolog")
		switch {
		case cr.Hung:
			v.Status, v.Msg = Inconclusive, fmt.Sprintf("%s: wall-clock watchdog fired at call #%d (cpu %.1fs); no logical evidence", m.key(-1), at+1, cr.CPUSeconds)
			return v
		case strings.Contains(cr.Stderr, "all goroutines are asleep - deadlock!") && at >= 0 && at < len(calls):
			ex["deaths_deadlock"]++
			v.Key = m.key(at + 1)
			if at < len(order)-1 {
				ex["deaths_before_last_requested_call"]++
			}
			if at == knownBlock && calls[at].op == 'N' && strings.Contains(cr.Stderr, "[chan send]") {
				v.Class = c12KnownClass
			}
			sample["observed"] = fmt.Sprintf("call #%d never returns: fatal error: all goroutines are asleep - deadlock!", at+1)
			return fail(at, "blocks forever (Go runtime: all goroutines are asleep - deadlock!); expected %s", exps[at].text)
		case strings.Contains(cr.Stderr, "WARNING: DATA RACE") && lib:
			ex["deaths_data_race"]++
			return fail(at, "data race reported by the race detector between the calling goroutine and the query goroutine: %s", oneLine(c12Excerpt(cr.Stderr, "WARNING: DATA RACE", 900)))
		case (strings.Contains(cr.Stderr, "panic: ") || strings.Contains(cr.Stderr, "fatal error: concurrent map")) && lib && at >= 0:
			ex["deaths_panic"]++
			v.Key = m.key(at + 1)
			what := c12Excerpt(cr.Stderr, "panic: ", 300)
			if what == "" {
				what = c12Excerpt(cr.Stderr, "fatal error: ", 300)
			}
			return fail(at, "the process died during the call: %s", oneLine(what))
		}
		v.Status, v.Msg = Inconclusive, fmt.Sprintf("%s: worker ended (%s) without evidence that ties it to the calls: %s", m.key(-1), cr.Exit, oneLine(c12Tail(cr.Stderr, 300)))
		return v
	}
	if o.Res == nil || o.Res.Fatal != "" || o.Res.R == nil {
		msg := "no result"
		if o.Res != nil {
			msg = o.Res.Fatal
		}
		return Verdict{Status: Inconclusive, Msg: "solseq worker: " + msg, Key: v.Key}
	}
	var r proto.SolSeqResult
	if err := json.Unmarshal(o.Res.R, &r); err != nil {
		return Verdict{Status: Inconclusive, Msg: "solseq result: " + err.Error(), Key: v.Key}
	}
	for i, qe := range r.QueryErr {
		if qe != "" {
			// the queries are constants of this check: a parse error says nothing about the iterator
			return Verdict{Status: Inconclusive, Msg: fmt.Sprintf("QueryContext(%q) failed: %s", queries[i], qe), Key: v.Key}
		}
	}
	if len(r.Ops) != len(calls) {
		return Verdict{Status: Inconclusive, Msg: fmt.Sprintf("%s: worker reported %d calls, %d expected", m.key(-1), len(r.Ops), len(calls)), Key: v.Key}
	}
	var obsText []string
	for i, op := range r.Ops {
		t := fmt.Sprintf("%c.", 'A'+op.Sol)
		switch {
		case op.Panic != "":
			t += c12OpName(calls[i].op) + " panicked: " + op.Panic
		case op.Op == "N" && op.Bool != nil:
			t += fmt.Sprintf("Next=%v", *op.Bool)
		case op.Op == "S" && op.Nil:
			t += "Scan: X=" + op.Val
		case op.Op == "S":
			t += "Scan=" + c12ErrText(op.Err)
		case op.Nil:
			t += c12OpName(calls[i].op) + "=nil"
		case op.Closed:
			t += c12OpName(calls[i].op) + "=ErrClosed"
		default:
			t += c12OpName(calls[i].op) + "=" + c12ErrText(op.Err)
		}
		if op.Out != "" {
			t += fmt.Sprintf(" wrote %q", op.Out)
		}
		obsText = append(obsText, t)
	}
	sample["observed"] = obsText

	// attribute output bytes to the Solutions whose alphabet they belong to
	addOut := func(at int, text string, total, prev int) *Verdict {
		if total-prev != len(text) && len(text) < 64 {
			f := fail(at, "worker output accounting is inconsistent")
			f.Status = Inconclusive
			return &f
		}
		for j := 0; j < len(text); j++ {
			sl := c12Slot(text[j])
			if sl < 0 || sl >= len(sols) {
				f := fail(at, "byte %q on user_output that no goal of the queries writes", text[j])
				return &f
			}
			sols[sl].obs += text[j : j+1]
		}
		for si, s := range sols {
			if s.closedAt >= 0 && len(s.obs) > s.closedAt {
				f := fail(at, "a goal of Solutions %c ran after its Close had returned: user_output grew by %q", 'A'+si, s.obs[s.closedAt:])
				return &f
			}
			if want := s.m.stream(len(s.obs)); !strings.HasPrefix(want, s.obs) {
				f := fail(at, "user_output of Solutions %c is %q, not a prefix of what the query writes (%q)", 'A'+si, s.obs, want)
				return &f
			}
		}
		return nil
	}

	prevLen := 0
	for i, op := range r.Ops {
		cl, e := calls[i], exps[i]
		s := sols[cl.sol]
		if op.Sol != cl.sol || op.Op != string(cl.op) {
			return Verdict{Status: Inconclusive, Msg: fmt.Sprintf("%s: worker executed a different call at #%d", m.key(-1), i+1), Key: v.Key}
		}
		if op.Panic != "" {
			return fail(i, "panicked: %s (expected %s)", op.Panic, e.text)
		}
		if f := addOut(i, op.Out, op.OutLen, prevLen); f != nil {
			return *f
		}
		prevLen = op.OutLen
		switch cl.op {
		case 'N':
			if op.Bool == nil {
				return Verdict{Status: Inconclusive, Msg: "solseq: Next without result", Key: v.Key}
			}
			if *op.Bool != e.b {
				return fail(i, "Next returned %v, expected %v", *op.Bool, e.b)
			}
			if len(s.obs) < e.lazyLen {
				return fail(i, "Next returned %v but user_output of that query is only %q: the writes that precede this outcome (%q) did not run", *op.Bool, s.obs, s.lazy[:e.lazyLen])
			}
			if e.b {
				ex["next_true"]++
			} else {
				ex["next_false"]++
			}
		case 'S':
			if !e.asserted {
				ex["scan_not_asserted"]++
				break
			}
			if !op.Nil {
				return fail(i, "Scan failed with %s, expected X=%s", c12ErrText(op.Err), e.val)
			}
			if op.Val != e.val {
				return fail(i, "Scan reported X=%s, the most recent answer is X=%s", op.Val, e.val)
			}
			if op.ValReuse != "" {
				if op.ValReuse != e.val {
					return fail(i, "Scan into a destination that received the earlier answers reported X=%s, the most recent answer is X=%s", op.ValReuse, e.val)
				}
				ex["scan_into_reused_destination_compared"]++
			}
			ex["scan_compared"]++
		case 'E':
			switch {
			case e.err == nil && !op.Nil:
				return fail(i, "Err returned %s, expected nil (no error has terminated the search)", c12ErrText(op.Err))
			case e.err != nil && op.Nil:
				return fail(i, "Err returned nil, expected the terminating error %s", e.err.String())
			case e.err != nil && !c12ErrMatches(e.err, op.Err):
				return fail(i, "Err returned %s, expected the terminating error %s", c12ErrText(op.Err), e.err.String())
			}
			if e.err == nil {
				ex["err_nil"]++
			} else {
				ex["err_compared"]++
			}
		case 'C':
			switch {
			case e.first && !op.Nil:
				return fail(i, "first Close returned %s, expected nil", c12ErrText(op.Err))
			case !e.first && !op.Closed:
				got := "nil"
				if !op.Nil {
					got = c12ErrText(op.Err)
				}
				return fail(i, "repeated Close returned %s, expected ErrClosed", got)
			}
			if e.first {
				ex["close_first"]++
				s.closedAt = len(s.obs)
			} else {
				ex["close_repeated"]++
			}
		}
	}
	if f := addOut(len(calls), r.LateOut, r.OutLen, prevLen); f != nil {
		return *f
	}
	lazyExact := true
	for _, s := range sols {
		lazyExact = lazyExact && s.obs == s.lazy
	}
	if lazyExact {
		ex["output_exactly_lazy"]++
	} else {
		ex["output_ahead_of_next_calls_not_asserted"]++
	}

	// goroutines: every Solutions has been closed
	ex["settle_yields"] += int64(r.Yields)
	ex["settle_sleeps_ms"] += int64(r.Sleeps)
	if r.GOps > r.G0 {
		ex["cases_goroutine_alive_when_last_call_returned"]++
	}
	if r.GFinal > r.G0 {
		var parkedLib, busyLib []proto.SolSeqG
		for _, g := range r.New {
			if !strings.Contains(g.Stack, "github.com/ichiban/prolog") {
				continue
			}
			switch g.State {
			case "chan send", "chan receive", "select", "select (no cases)", "chan send (nil chan)", "chan receive (nil chan)":
				parkedLib = append(parkedLib, g)
			default:
				busyLib = append(busyLib, g)
			}
		}
		switch {
		case len(parkedLib) > 0:
			sample["goroutines"] = r.New
			g := parkedLib[0]
			return fail(-1, "goroutine leak: %d goroutine(s) of the library survive Close, parked forever in [%s]: %s", len(parkedLib), g.State, oneLine(c12Frames(g.Stack)))
		case len(busyLib) > 0:
			v.Status = Inconclusive
			v.Msg = fmt.Sprintf("%s: a library goroutine is still [%s] after Close and the settle phase (not parked: no verdict)", m.key(-1), busyLib[0].State)
			return v
		default:
			ex["cases_foreign_goroutine_ignored"]++
		}
	} else {
		ex["cases_goroutines_back_to_baseline"]++
	}
	return v
}

// c12Excerpt returns up to n bytes of s starting at the first occurrence of marker.
func c12Excerpt(s, marker string, n int) string {
	i := strings.Index(s, marker)
	if i < 0 {
		return ""
	}
	s = s[i:]
	if len(s) > n {
		s = s[:n] + "…"
	}
	return s
}

func c12Tail(s string, n int) string {
	if len(s) > n {
		return "…" + s[len(s)-n:]
	}
	return s
}

// c12Frames keeps the function lines of a goroutine block.
func c12Frames(block string) string {
	var fs []string
	for _, l := range strings.Split(block, "\n") {
		if l == "" || l[0] == '\t' || strings.HasPrefix(l, "goroutine ") {
			continue
		}
		if i := strings.IndexByte(l, '('); i > 0 && !strings.HasPrefix(l, "created by") {
			if j := strings.LastIndex(l, "("); j > 0 {
				l = l[:j]
			}
		}
		fs = append(fs, l)
		if len(fs) == 6 {
			break
		}
	}
	return strings.Join(fs, " < ")
}
