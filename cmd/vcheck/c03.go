package main

import (
	"encoding/json"
	"fmt"
	"math/rand"
	"strings"

	"verif/internal/ref"
	"verif/internal/run"
	"verif/internal/term"
)

func init() { checks["C03"] = func() Check { return &c03{} } }

type c03 struct{}

func (*c03) ID() string    { return "C03" }
func (*c03) Level() string { return "exploration" }
func (*c03) Rule() string {
	return "control skeletons: clause bodies = every sequence of length <=3 over the alphabet {m(X) (3 solutions), n(Y) (2), true, fail, !, call((m(X),!)), \\+(m(X),!,fail), once(m(X)), (m(X)->n(Y);Y=e), (m(X)->true), (n(Y);Y=d), findall(Z,(m(Z),!),[X|_]), bagof/setof/catch with an inner cut} enumerated exhaustively for 1-clause predicates, sampled pairs/triples of such clauses (also written as one clause with top-level ';'), plus seeded random 3-level call chains with cuts at several levels and counter-bounded recursion; every predicate is called as outer :- n(A), inner(X,Y), m(B) so that too much pruning (outer alternatives lost) and too little (extra answers) both show. '!' only as a direct conjunct of a clause body or top-level disjunct, or inside call/N, \\+, findall, bagof, setof, catch, once (the property's scope). Non-trivial: the reference executed >=1 cut that discarded >=1 choice point; distinct by program hash."
}
func (*c03) Assumptions() []string {
	return []string{
		"reference interpreter implements ISO cut semantics (self-tested on ISO 7.8.4 examples each run)",
		"cut inside nested parenthesised conjunctions/disjunctions/if-then-else branches is outside the property's quantifier and is not generated",
	}
}

// the goal alphabet; X, Y are variables 0 and 1 of the clause, Z is 2, L is 3
var c03Alphabet = []string{
	"m(X)", "n(Y)", "true", "fail", "!",
	"call((m(X), !))", "\\+ (m(X), !, fail)", "once(m(X))",
	"(m(X) -> n(Y) ; Y = e)", "(m(X) -> true)", "(n(Y) ; Y = d)",
	"findall(Z, (m(Z), !), [X|_])",
}

var c03Extra = []string{
	"bagof(Z, (m(Z), !), [X|_])", "setof(Z, (n(Z), !), [Y|_])", "catch((m(X), !), _, true)",
	"call(m, X)", "\\+ \\+ m(X)", "(\\+ m(X) -> Y = q ; n(Y))", "once((n(Y) ; Y = z))", "X = 2", "Y = b",
	"call((!, fail ; true))", "call((fail ; m(X)))", "findall(Z, (n(Z) ; m(Z)), [_, _, X|_])",
}

const c03Base = `
m(1). m(2). m(3).
n(a). n(b).
outer(A, X, Y, B) :- n(A), inner(X, Y), m(B).
`

func parseGoalXY(s string) *term.Term {
	// parse with fixed variable numbering: X=0, Y=1, then others
	t, _, err := term.ParseTerm("f(X, Y, " + s + ")")
	if err != nil {
		panic(fmt.Sprintf("%s: %v", s, err))
	}
	return t.Args[2]
}

func shiftVars(t *term.Term, by int64, keep int64) *term.Term {
	return term.Map(t, func(id int64) *term.Term {
		if id < keep {
			return term.V(id)
		}
		return term.V(id + by)
	})
}

// body builds a conjunction from alphabet indices; local variables of each goal are kept apart.
func c03Body(goals []*term.Term) *term.Term {
	var gs []*term.Term
	for i, g := range goals {
		gs = append(gs, shiftVars(g, int64(10*(i+1)), 2))
	}
	if len(gs) == 0 {
		return term.A("true")
	}
	t := gs[len(gs)-1]
	for i := len(gs) - 2; i >= 0; i-- {
		t = term.C(",", gs[i], t)
	}
	return t
}

type c03Meta struct {
	DiffMeta
	Shape string `json:"shape"`
}

func (c *c03) Generate(cx *Ctx, chunk int) []*Item {
	if chunk > 0 {
		return nil
	}
	if err := refSelfTest(); err != nil {
		cx.Note("reference self-test failed: " + err.Error())
		return nil
	}
	var alpha, extra []*term.Term
	for _, s := range c03Alphabet {
		alpha = append(alpha, parseGoalXY(s))
	}
	for _, s := range c03Extra {
		extra = append(extra, parseGoalXY(s))
	}
	base := term.MustProgram(c03Base)
	head := term.C("inner", term.V(0), term.V(1))
	query := term.MustParse("outer(A, X, Y, B)")
	var metas []*DiffMeta
	add := func(clauses []*term.Term, shape string) {
		prog := append(append([]*term.Term{}, base...), clauses...)
		// every seventh program is added by asserta/1 (last clause first), every eleventh by assertz/1
		k := len(metas)
		metas = append(metas, &DiffMeta{Program: prog, Query: query, NVars: 4, Max: 80, Family: shape, AssertA: k%7 == 3, Assert: k%7 != 3 && k%11 == 5})
	}
	// all bodies of length <= 3 over the alphabet
	var bodies [][]*term.Term
	n := len(alpha)
	for i := 0; i < n; i++ {
		bodies = append(bodies, []*term.Term{alpha[i]})
	}
	for i := 0; i < n; i++ {
		for j := 0; j < n; j++ {
			bodies = append(bodies, []*term.Term{alpha[i], alpha[j]})
		}
	}
	for i := 0; i < n; i++ {
		for j := 0; j < n; j++ {
			for k := 0; k < n; k++ {
				bodies = append(bodies, []*term.Term{alpha[i], alpha[j], alpha[k]})
			}
		}
	}
	r := cx.Rng("c03")
	last := term.MustParse("inner(z, z)")
	for _, b := range bodies {
		cl := term.C(":-", head, c03Body(b))
		// single clause followed by a catch-all clause (shows whether the cut removed it)
		add([]*term.Term{cl, last}, "exhaustive-1")
	}
	// the same conjunctions nested on the left: ((A,B),C), (((A,B),C),D) are the same sequence as A,B,C(,D)
	leftNested := func(goals []*term.Term) *term.Term {
		flat := c03Body(goals)
		var gs []*term.Term
		for flat.IsCmp(",", 2) {
			gs = append(gs, flat.Args[0])
			flat = flat.Args[1]
		}
		gs = append(gs, flat)
		t := gs[0]
		for _, g := range gs[1:] {
			t = term.C(",", t, g)
		}
		return t
	}
	for _, b := range bodies {
		if len(b) == 3 {
			add([]*term.Term{term.C(":-", head, leftNested(b)), last}, "exhaustive-left-nested-3")
		}
	}
	for i := 0; i < 1500; i++ {
		b := make([]*term.Term, 4+r.Intn(2))
		for k := range b {
			b[k] = alpha[r.Intn(n)]
		}
		// mixed nesting: ((A,B),(C,D)) and (((A,B),C),D)
		if r.Intn(2) == 0 {
			add([]*term.Term{term.C(":-", head, leftNested(b)), last}, "left-nested-deep")
		} else {
			add([]*term.Term{term.C(":-", head, term.C(",", leftNested(b[:2]), leftNested(b[2:]))), last}, "left-nested-mixed")
		}
	}
	// predicates whose clauses have constants as first head argument, called with that argument bound (by an
	// outer generator that leaves a choice point): clause selection by first argument must not change what a
	// cut in the selected clause discards
	query2 := term.MustParse("outer2(A, K, Y, B)")
	outer2 := term.MustParse("outer2(A, K, Y, B) :- n(A), m(K), inner2(K, Y), m(B)")
	for i := 0; i < 1500; i++ {
		var cls []*term.Term
		nc := 2 + r.Intn(3)
		for c := 0; c < nc; c++ {
			var first *term.Term
			switch r.Intn(5) {
			case 0:
				first = term.V(5) // a variable first argument
			case 1:
				first = term.A("z") // never selected
			default:
				first = term.I(int64(1 + r.Intn(3)))
			}
			b := bodies[r.Intn(len(bodies))]
			cls = append(cls, term.C(":-", term.C("inner2", first, term.V(1)), c03Body(b)))
		}
		prog := append(append([]*term.Term{}, base...), outer2)
		prog = append(prog, cls...)
		metas = append(metas, &DiffMeta{Program: prog, Query: query2, NVars: 4, Max: 80, Family: "first-argument-constants"})
	}
	cx.exhaustive = true
	nPairs, nRandom, nLen4 := 4000, 2500, 0
	if cx.Thorough() {
		nPairs, nRandom, nLen4 = 60000, 30000, 40000
	}
	all := append(append([]*term.Term{}, alpha...), extra...)
	randBody := func(maxLen int) []*term.Term {
		l := 1 + r.Intn(maxLen)
		b := make([]*term.Term, l)
		for i := range b {
			b[i] = all[r.Intn(len(all))]
		}
		return b
	}
	for i := 0; i < nPairs; i++ {
		b1, b2 := bodies[r.Intn(len(bodies))], bodies[r.Intn(len(bodies))]
		if r.Intn(3) == 0 {
			b1 = randBody(3)
		}
		switch r.Intn(3) {
		case 0: // two clauses
			add([]*term.Term{term.C(":-", head, c03Body(b1)), term.C(":-", head, c03Body(b2))}, "pair-clauses")
		case 1: // one clause with a top-level disjunction
			left := c03Body(b1)
			if left.IsCmp("->", 2) {
				// (C -> T) ; R is an if-then-else: its else branch is not a top-level disjunct (a cut there is out of scope)
				left = term.C(",", left, term.A("true"))
			}
			add([]*term.Term{term.C(":-", head, term.C(";", left, shiftVars(c03Body(b2), 100, 2))), last}, "pair-disjunction")
		default: // three clauses
			b3 := randBody(2)
			add([]*term.Term{term.C(":-", head, c03Body(b1)), term.C(":-", head, c03Body(b2)), term.C(":-", head, c03Body(b3))}, "triple-clauses")
		}
	}
	for i := 0; i < nLen4; i++ {
		b := make([]*term.Term, 4)
		for k := range b {
			b[k] = alpha[r.Intn(n)]
		}
		add([]*term.Term{term.C(":-", head, c03Body(b)), last}, "length-4")
	}
	for i := 0; i < nRandom; i++ {
		add(c03Chain(r, all), "chain")
	}
	// deep recursion: the cut of an activation that sits under hundreds of frames (and whose own frame may long have no
	// alternative left) still discards exactly what was created since its predicate was called - the outer choice points
	// dm/1 (before) and dn/1 (after) keep all their alternatives, whatever the depth
	{
		deep := term.MustProgram(`
dm(1). dm(2). dm(3).
dn(a). dn(b).
mk(0, []) :- !.
mk(N, [x|T]) :- N1 is N-1, mk(N1, T).
len([], 0).
len([_|T], N) :- len(T, M), !, N is M+1.
cnt(0) :- !.
cnt(N) :- N1 is N-1, cnt(N1).
cnt2(0).
cnt2(N) :- N > 0, N1 is N-1, cnt2(N1), !.
down(0, z).
down(N, X) :- N > 0, N1 is N-1, down(N1, X), !.
down(_, late).
both(N) :- cnt2(N), !, cnt(N).
both(_).
`)
		for _, d := range []int{5, 50, 120, 200, 250, 255, 256, 257, 300, 511, 512, 600, 1000} {
			for _, q := range []string{
				"dm(X), mk(%d, L), len(L, N), dn(Y)", "dm(X), once(cnt(%d)), dn(Y)", "dm(X), cnt2(%d), dn(Y)", "dm(X), down(%d, Z), dn(Y)",
				"dm(X), \\+ \\+ cnt2(%d), dn(Y)", "catch((dm(X), cnt2(%d), dn(Y)), _, true)", "findall(X-Y, (dm(X), cnt2(%d), dn(Y)), L)",
				"dm(X), both(%d), dn(Y)", "dm(X), call((cnt2(%d), !)), dn(Y)", "dm(X), (cnt2(%d) -> dn(Y) ; Y = none)",
			} {
				t, nv, qv := parseQuery(fmt.Sprintf(q, d))
				metas = append(metas, &DiffMeta{Program: deep, Query: t, NVars: nv, QVars: qv, Max: 12, Family: "deep-recursion"})
			}
		}
	}
	// call/1 converts its argument to a body WHEN IT RUNS: a conjunct that is still a variable when the clause is compiled and
	// is bound to a cut (or to a conjunction with a cut) by then cuts the goals to its left inside that call/1, and nothing
	// outside. \+/1 (and the condition of if-then-else, and once/1) is solved at most once: later answers of its goal are never
	// computed, whatever they would log, raise or loop on.
	{
		late := term.MustProgram(`
dm(1). dm(2). dm(3).
dn(a). dn(b).
gen_then(G, X) :- call((dm(X), G)).
gen_mid(G, X, Y) :- call((dm(X), G, dn(Y))).
gen_first(G, X) :- call((G, dm(X))).
two_late(G, H, X) :- call((dm(X), G, H)).
outer(G, X, Y) :- dn(Y), gen_then(G, X).
neg_log :- \+ (dm(X), w(seen(X))).
neg_err :- \+ (dmx(X), _ is X + 1).
dmx(1). dmx(a).
neg_gen :- \+ dgen(_).
dgen(0).
dgen(N) :- dgen(M), N is M + 1.
once_log(X) :- once((dm(X), w(o(X)))).
ite_log(X) :- ( dm(X), w(c(X)) -> true ; X = none ).
`)
		// nondeterministic BUILT-INS to the left of a cut: their remaining solutions are choice points like any other
		// (cut reached on the first, an interior and the last solution; inside once/1, if-then-else and negation too)
		for _, gen := range []string{
			"between(1, 5, X)", "member(X, [1, 2, 3, 4, 5])", "append(_, [X|_], [1, 2, 3, 4, 5])", "select(X, [1, 2, 3, 4, 5], _)", "nth1(_, [1, 2, 3, 4, 5], X)",
			"nth0(X0, [a, b, c, d, e], _), X is X0 + 1",
			"length(L0, X0), X is X0 + 1", "repeat, gcount(X)", "clause(gfact(X), true)", "retract(gdyn(X))",
			"setof(Y0, member(Y0, [3, 1, 2]), L0), member(X, L0)", "catch(member(X, [1, 2, 3, 4, 5]), _, true)", "findall(Y0, member(Y0, [1, 2, 3, 4, 5]), L0), member(X, L0)",
		} {
			if strings.Contains(gen, "arg(X") {
				continue // arg/3 with an unbound N raises in this engine (as ISO says)
			}
			for _, m := range []int{0, 2, 4} {
				for _, form := range []string{
					"dm(A), gcut(%d, X), dn(B)", "dm(A), once((GEN, X > %d)), dn(B)", "dm(A), (GEN, X > %d -> true ; X = none), dn(B)", "dm(A), \\+ \\+ (GEN, X > %d), dn(B)",
				} {
					prog := append([]*term.Term{}, late...)
					prog = append(prog, term.MustProgram(fmt.Sprintf(`
:- dynamic(gdyn/1).
:- dynamic(gctr/1).
gfact(1). gfact(2). gfact(3). gfact(4). gfact(5).
gdyn(1). gdyn(2). gdyn(3). gdyn(4). gdyn(5).
gctr(0).
gcount(X) :- retract(gctr(N)), X is N + 1, assertz(gctr(X)).
gcut(M, X) :- %s, X > M, !.
gcut(_, late).
`, gen))...)
					text := strings.ReplaceAll(fmt.Sprintf(form, m), "GEN", gen)
					t, nv, qv := parseQuery(text)
					metas = append(metas, &DiffMeta{Program: prog, Query: t, NVars: nv, QVars: qv, Max: 14, Family: "builtin-generator-then-cut"})
				}
			}
		}
		for _, q := range []string{
			"gen_then(!, X)", "gen_then((X >= 2, !), X)", "gen_then(true, X)", "gen_then((X >= 2), X)", "dn(Y), gen_then(!, X)", "outer(!, X, Y)", "outer((X > 1, !), X, Y)",
			"gen_mid(!, X, Y)", "gen_mid((X >= 2, !), X, Y)", "gen_first(!, X)", "two_late(true, !, X)", "two_late((X > 1), !, X)", "two_late(!, fail, X)",
			"G = !, call((dm(X), G))", "G = (X >= 2, !), call((dm(X), G)), dn(Y)", "dm(Z), gen_then(!, X)", "findall(X, gen_then(!, X), L)", "findall(X-Y, gen_mid((X >= 2, !), X, Y), L)",
			"neg_log", "\\+ neg_log", "dm(Y), \\+ (dm(X), X >= Y, w(s(Y, X)))", "neg_err", "\\+ neg_err", "neg_gen", "\\+ neg_gen", "dn(Y), \\+ \\+ (dm(X), w(t(X)))",
			"once_log(X)", "dn(Y), once_log(X)", "ite_log(X)", "dn(Y), ite_log(X)", "\\+ (dmx(X), w(X), X == a)", "catch(\\+ (dmx(X), _ is X + 1), _, w(caught))",
		} {
			t, nv, qv := parseQuery(q)
			metas = append(metas, &DiffMeta{Program: late, Query: t, NVars: nv, QVars: qv, Max: 12, Family: "late-bound-cut-and-solved-once"})
		}
	}
	items := prepareDiffItems(metas, 60000, ref.Options{})
	for _, it := range items {
		var m c01Meta
		_ = json.Unmarshal(it.Meta, &m)
	}
	return items
}

// c03Chain builds inner/2 → mid/2 → leaf/2 with cuts at several levels and a counter-bounded recursion.
func c03Chain(r *rand.Rand, all []*term.Term) []*term.Term {
	var out []*term.Term
	X, Y := term.V(0), term.V(1)
	body := func(callee string, maxLen int) *term.Term {
		l := 1 + r.Intn(maxLen)
		gs := make([]*term.Term, 0, l+1)
		pos := r.Intn(l + 1)
		for i := 0; i < l; i++ {
			if i == pos && callee != "" {
				gs = append(gs, term.C(callee, X, Y))
			}
			gs = append(gs, all[r.Intn(len(all))])
		}
		if pos == l && callee != "" {
			gs = append(gs, term.C(callee, X, Y))
		}
		return c03Body(gs)
	}
	for _, lvl := range []struct{ name, callee string }{{"inner", "mid"}, {"mid", "leaf"}, {"leaf", ""}} {
		nc := 1 + r.Intn(3)
		for i := 0; i < nc; i++ {
			callee := lvl.callee
			if r.Intn(4) == 0 {
				callee = ""
			}
			if callee == "" && lvl.callee != "" && i == 0 {
				callee = lvl.callee
			}
			out = append(out, term.C(":-", term.C(lvl.name, X, Y), body(callee, 3)))
		}
	}
	if r.Intn(2) == 0 {
		// counter-bounded recursion with a cut after the recursive call
		out = append(out,
			term.MustParse("leaf(X, Y) :- rec(s(s(0)), X), n(Y)"),
			term.MustParse("rec(0, X) :- m(X)"),
			term.C(":-", term.MustParse("rec(s(N), X)"), term.MustParse(
				[]string{"(m(X), rec(N, _), !)", "(rec(N, X), !, X > 0)", "(m(X), !, rec(N, _))", "(rec(N, X) ; m(X)), !"}[r.Intn(4)])),
			term.MustParse("rec(s(_), 9)"))
		// fix variable numbering of the clause built from two parses
		last := out[len(out)-2]
		h, _, _ := term.ParseTerm("rec(s(N), X) :- " + last.Args[1].String())
		_ = h
		src := []string{"rec(s(N), X) :- m(X), rec(N, _), !", "rec(s(N), X) :- rec(N, X), !, X > 0", "rec(s(N), X) :- m(X), !, rec(N, _)", "rec(s(N), X) :- (rec(N, X) ; m(X)), !"}[r.Intn(4)]
		out[len(out)-2] = term.MustParse(src)
	}
	return out
}

func (c *c03) Judge(cx *Ctx, it *Item, outs []*run.Outcome) Verdict {
	var m c01Meta
	if err := decodeMeta(it, &m); err != nil {
		return Verdict{Status: Inconclusive, Msg: err.Error()}
	}
	o, err := m.refRun(m.RefBudget, ref.Options{})
	if err != nil {
		return Verdict{Status: Inconclusive, Msg: err.Error()}
	}
	r := compareRun(&m.DiffMeta, o, outs[0], true)
	v := Verdict{Status: r.Status, Msg: r.Msg}
	v.NonTrivial = o.M.Cuts >= 1
	v.Extra = map[string]int64{"answers_compared": int64(len(o.Answers)), "ref_cuts_discarding": int64(o.M.Cuts), "ref_choicepoints_discarded": int64(o.M.CutDiscarded), "family_" + m.Family: 1}
	prog := programText(m.Program[len(term.MustProgram(c03Base)):])
	v.Sample = map[string]interface{}{"program": prog, "query": term.Text(m.Query, qvar), "expected": r.Expected, "observed": r.Observed}
	if v.Status == Violated {
		v.Msg = fmt.Sprintf("%s | program: %s", r.Msg, oneLine(prog))
	}
	return v
}
