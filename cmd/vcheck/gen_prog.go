package main

import (
	"fmt"
	"math/rand"

	"verif/internal/term"
)

// progGen generates pure programs (C01): facts and rules over a small signature.
type progGen struct {
	r      *rand.Rand
	arity  []int // arity of p0..pk-1
	nvars  int64 // variables of the clause being generated
	maxVar int64
}

var genAtoms = []string{"a", "b", "c"}

func (g *progGen) pick(n int) int { return g.r.Intn(n) }

func (g *progGen) v() *term.Term {
	if g.nvars > 0 && g.pick(100) < 65 {
		return term.V(int64(g.pick(int(g.nvars))))
	}
	if g.nvars < g.maxVar {
		g.nvars++
		return term.V(g.nvars - 1)
	}
	return term.V(int64(g.pick(int(g.nvars))))
}

// term of bounded depth
func (g *progGen) term(depth int) *term.Term {
	k := g.pick(100)
	switch {
	case k < 30:
		return g.v()
	case k < 55:
		return term.A(genAtoms[g.pick(len(genAtoms))])
	case k < 65:
		return term.I(int64(g.pick(3)))
	case depth <= 0:
		return term.A(genAtoms[g.pick(len(genAtoms))])
	case k < 73:
		return term.C("f", g.term(depth-1))
	case k < 80:
		return term.C("g", g.term(depth-1), g.term(depth-1))
	case k < 83:
		// the same names at other arities (f/2, f/3, g/1): a head structure must not match them
		switch g.pick(3) {
		case 0:
			return term.C("f", g.term(depth-1), g.term(depth-1))
		case 1:
			return term.C("f", g.term(depth-1), g.term(depth-1), g.term(depth-1))
		default:
			return term.C("g", g.term(depth-1))
		}
	case k < 88:
		n := g.pick(3)
		es := make([]*term.Term, n)
		for i := range es {
			es[i] = g.term(depth - 1)
		}
		return term.L(es...)
	default:
		n := 1 + g.pick(4) // open lists with up to 4 known elements (two of different lengths have to meet now and then)
		es := make([]*term.Term, n)
		for i := range es {
			es[i] = g.term(depth - 1)
		}
		return term.PL(g.v(), es...)
	}
}

func (g *progGen) call(i int) *term.Term {
	args := make([]*term.Term, g.arity[i])
	for j := range args {
		args[j] = g.term(2)
	}
	return term.C(fmt.Sprintf("p%d", i), args...)
}

func (g *progGen) goal(depth int) *term.Term {
	k := g.pick(100)
	switch {
	case k < 50:
		return g.call(g.pick(len(g.arity)))
	case k < 62:
		return term.C("=", g.term(2), g.term(2))
	case k < 66:
		return term.A("true")
	case k < 69:
		return term.A("fail")
	case k < 79 && depth > 0:
		return term.C(";", g.conj(1+g.pick(2), depth-1), g.conj(1+g.pick(2), depth-1))
	case k < 87:
		// call/N with a partial goal
		i := g.pick(len(g.arity))
		c := g.call(i)
		if c.K == term.KAtom {
			return term.C("call", c)
		}
		cut := g.pick(len(c.Args) + 1)
		clos := term.C(c.S, c.Args[:cut]...)
		return term.C("call", append([]*term.Term{clos}, c.Args[cut:]...)...)
	case k < 91:
		// variable goal: G = goal, G
		gv := g.freshVar()
		return term.C(",", term.C("=", gv, g.call(g.pick(len(g.arity)))), gv)
	case k < 94:
		// a goal compiled at run time (call/N) holding an open list [E1,E2|T] whose tail was bound by an earlier
		// goal: the goal compiler must see the binding
		tv := g.freshVar()
		i := g.pick(len(g.arity))
		c := g.call(i)
		open := term.PL(tv, g.term(1), g.term(1))
		if len(c.Args) > 0 {
			args := append([]*term.Term{}, c.Args...)
			args[g.pick(len(args))] = open
			c = term.C(c.S, args...)
		} else {
			c = term.C("=", open, g.term(2))
		}
		return term.C(",", term.C("=", tv, g.term(1)), term.C("call", c))
	default:
		return term.C("call", g.goal(depth-1))
	}
}

func (g *progGen) freshVar() *term.Term {
	g.nvars++
	if g.nvars > g.maxVar {
		g.maxVar = g.nvars
	}
	return term.V(g.nvars - 1)
}

func (g *progGen) conj(n, depth int) *term.Term {
	gs := make([]*term.Term, n)
	for i := range gs {
		gs[i] = g.goal(depth)
	}
	if n >= 3 && g.pick(4) == 0 {
		// the same sequence nested on the left: (((G1,G2),G3),G4)
		t := gs[0]
		for i := 1; i < n; i++ {
			t = term.C(",", t, gs[i])
		}
		return t
	}
	t := gs[n-1]
	for i := n - 2; i >= 0; i-- {
		t = term.C(",", gs[i], t)
	}
	return t
}

// program returns clauses and a query (variables 0..nvars-1).
func (g *progGen) program() ([]*term.Term, *term.Term, int) {
	np := 1 + g.pick(4)
	g.arity = make([]int, np)
	for i := range g.arity {
		g.arity[i] = g.pick(4)
	}
	var clauses []*term.Term
	for i := 0; i < np; i++ {
		nc := 1 + g.pick(4)
		for c := 0; c < nc; c++ {
			g.nvars, g.maxVar = 0, int64(1+g.pick(4))
			head := g.call(i)
			nb := 0
			if g.pick(100) < 55 {
				nb = 1 + g.pick(4)
			}
			if nb == 0 {
				clauses = append(clauses, head)
				continue
			}
			body := g.conj(nb, 2)
			if g.pick(100) < 15 {
				body = term.C(";", body, g.conj(1+g.pick(2), 1))
			}
			clauses = append(clauses, term.C(":-", head, body))
		}
	}
	g.nvars, g.maxVar = 0, int64(1+g.pick(4))
	q := g.conj(1+g.pick(3), 1)
	return clauses, q, int(g.nvars)
}
