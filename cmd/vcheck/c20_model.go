package main

import (
	"fmt"
	"sort"
	"strings"

	"verif/internal/term"
)

// ---------------------------------------------------------------------------------------------------
// model.Loader for C20: a sequential model of "loading Prolog texts into a database", independent of the
// engine. A text is a list of entries (clauses, declarations, directives, initialization goals, injected
// faults); the state maps a predicate of the case's vocabulary to its ordered clause list and flags.

// c20Pred is one predicate of a case's vocabulary. Rules of predicate i only call predicates with a higher
// index, so no program built from the vocabulary is recursive.
type c20Pred struct {
	Name  string `json:"n"`
	Arity int    `json:"a"`
	MF    bool   `json:"mf,omitempty"`  // the texts of this case (normally) declare it multifile
	Dyn   bool   `json:"dyn,omitempty"` // … and, consistently, dynamic (only meaningful with MF)
}

func (p c20Pred) pi() string { return fmt.Sprintf("%s/%d", p.Name, p.Arity) }

// c20Clause is Head :- Body1, ..., Bodyn (n = 0: a fact). Variables are numbered per clause; ids >= 100 are
// written as anonymous variables.
type c20Clause struct {
	Head *term.Term   `json:"h"`
	Body []*term.Term `json:"b,omitempty"`
}

func c20Var(id int64) string {
	if id >= 100 {
		return "_"
	}
	return fmt.Sprintf("V%d", id)
}

func (c *c20Clause) text() string {
	s := term.Text(c.Head, c20Var)
	if len(c.Body) > 0 {
		var gs []string
		for _, g := range c.Body {
			gs = append(gs, term.Text(g, c20Var))
		}
		s += " :- " + strings.Join(gs, ", ")
	}
	return s
}

// bodyTerm is the body as clause/2 reports it.
func (c *c20Clause) bodyTerm() *term.Term {
	if len(c.Body) == 0 {
		return term.A("true")
	}
	t := c.Body[len(c.Body)-1]
	for i := len(c.Body) - 2; i >= 0; i-- {
		t = term.C(",", c.Body[i], t)
	}
	return t
}

// asTerm is the clause as one term (what the database stores).
func (c *c20Clause) asTerm() *term.Term {
	if len(c.Body) == 0 {
		return c.Head
	}
	return term.C(":-", c.Head, c.bodyTerm())
}

// c20Entry is one read-term of a text (or, for a syntax fault, something that is not a read-term).
type c20Entry struct {
	K     string     `json:"k"`               // clause | decl | out | true | init | initdump | initfail | gate | fault
	P     int        `json:"p,omitempty"`     // predicate index (clause, initdump, gate)
	Cl    *c20Clause `json:"cl,omitempty"`    // clause
	Decl  string     `json:"decl,omitempty"`  // dynamic | multifile | discontiguous
	PIs   []int      `json:"pis,omitempty"`   // declared predicates
	Form  string     `json:"form,omitempty"`  // single | comma | list
	Out   string     `json:"out,omitempty"`   // what an out / init entry writes to user_output
	Fault string     `json:"fault,omitempty"` // syntax | noncallable | dirfail | dirthrow
	Raw   string     `json:"raw,omitempty"`   // source of a fault / initfail entry
	Inc   bool       `json:"inc,omitempty"`   // the entry lives in the included file
}

func (e *c20Entry) source(vocab []c20Pred) string {
	wr := func(out string) string {
		if strings.HasSuffix(out, "\n") {
			return "write(" + strings.TrimSuffix(out, "\n") + "), nl"
		}
		return "write(" + out + ")"
	}
	switch e.K {
	case "clause":
		return e.Cl.text() + "."
	case "decl":
		var pis []string
		for _, p := range e.PIs {
			pis = append(pis, vocab[p].pi())
		}
		switch e.Form {
		case "comma":
			return ":- " + e.Decl + "((" + strings.Join(pis, ", ") + "))."
		case "list":
			return ":- " + e.Decl + "([" + strings.Join(pis, ", ") + "])."
		}
		return ":- " + e.Decl + "(" + pis[0] + ")."
	case "out":
		return ":- " + wr(e.Out) + "."
	case "true":
		return ":- true."
	case "init":
		return ":- initialization((" + wr(e.Out) + "))."
	case "initdump":
		p := vocab[e.P]
		goal, show := p.Name, "write(y)"
		if p.Arity > 0 {
			var vs, ws []string
			for i := 0; i < p.Arity; i++ {
				vs = append(vs, fmt.Sprintf("V%d", i))
				ws = append(ws, fmt.Sprintf("write(V%d)", i))
			}
			goal += "(" + strings.Join(vs, ", ") + ")"
			show = strings.Join(ws, ", write(-), ")
		}
		return ":- initialization((catch(" + goal + ", _, fail), " + show + ", nl, fail ; true))."
	case "gate":
		return ":- " + vocab[e.P].Name + "."
	default: // fault, initfail
		return e.Raw
	}
}

// c20Def is a procedure of the database.
type c20Def struct {
	Clauses []*c20Clause
	Dyn     bool
	MF      bool
	MFAny   bool // the multifile flag is not determined by the model (outcome the statement leaves open)
}

// c20State is the database plus the set of files that count as loaded.
type c20State struct {
	Defs   map[int]*c20Def
	Loaded map[string]bool
	// Open is set when a load left the model without a defined answer (clauses appended to a multifile
	// predicate whose texts disagree about dynamic/1); such cases are never generated.
	Open string
}

func c20NewState() *c20State { return &c20State{Defs: map[int]*c20Def{}, Loaded: map[string]bool{}} }

func (s *c20State) clone() *c20State {
	n := c20NewState()
	for k, d := range s.Defs {
		c := *d
		c.Clauses = append([]*c20Clause(nil), d.Clauses...)
		n.Defs[k] = &c
	}
	for k := range s.Loaded {
		n.Loaded[k] = true
	}
	n.Open = s.Open
	return n
}

// c20TextDef is what one text says about one predicate.
type c20TextDef struct {
	Clauses       []*c20Clause
	Dyn, MF, Disc bool
}

// c20Analysis is the model's reading of a text against the state it is loaded on.
type c20Analysis struct {
	Hard    string // "" or why the text cannot be loaded (syntax error, non-callable clause, discontiguity)
	Soft    string // "" or the directive that fails / throws while loading
	HardPos int    // entry index of the first hard fault
	SoftPos int    // entry index of the first failing directive
	Defs    map[int]*c20TextDef
	Order   []int      // predicates in order of first mention
	Dirs    []c20Entry // output directives in order
	Inits   []c20Entry // initialization goals in order
}

// c20Analyse reads the entries in order. Contiguity: the clauses of a predicate are "separated by others"
// when a clause of another predicate stands between two of them; this needs a discontiguous declaration
// earlier in the text. (Directives between the clauses of one predicate are never generated in valid texts:
// whether they separate is left open by the statement.)
func c20Analyse(s *c20State, entries []c20Entry, noFinalStop bool) *c20Analysis {
	an := &c20Analysis{Defs: map[int]*c20TextDef{}, HardPos: -1, SoftPos: -1}
	def := func(p int) *c20TextDef {
		d, ok := an.Defs[p]
		if !ok {
			d = &c20TextDef{}
			an.Defs[p] = d
			an.Order = append(an.Order, p)
		}
		return d
	}
	hard := func(i int, why string) {
		if an.Hard == "" {
			an.Hard, an.HardPos = why, i
		}
	}
	last := -1
	for i := range entries {
		e := &entries[i]
		switch e.K {
		case "clause":
			d := def(e.P)
			if e.P != last && len(d.Clauses) > 0 && !d.Disc {
				hard(i, "discontiguous")
			}
			d.Clauses = append(d.Clauses, e.Cl)
			last = e.P
		case "decl":
			for _, p := range e.PIs {
				d := def(p)
				switch e.Decl {
				case "dynamic":
					d.Dyn = true
				case "multifile":
					d.MF = true
				case "discontiguous":
					d.Disc = true
				}
			}
		case "out":
			an.Dirs = append(an.Dirs, *e)
		case "init", "initdump", "initfail":
			an.Inits = append(an.Inits, *e)
		case "gate":
			// an ordinary goal directive: succeeds iff the (arity 0, facts only) predicate has a clause in the
			// database the text is loaded on; the text itself never defines it
			if d := s.Defs[e.P]; (d == nil || len(d.Clauses) == 0) && an.Soft == "" {
				an.Soft, an.SoftPos = "gate", i
			}
		case "fault":
			switch e.Fault {
			case "syntax", "noncallable":
				hard(i, e.Fault)
			default:
				if an.Soft == "" {
					an.Soft, an.SoftPos = e.Fault, i
				}
			}
		}
	}
	if noFinalStop {
		hard(len(entries), "syntax")
	}
	return an
}

// c20OneSided lists the predicates for which exactly one of (existing definition, text) says multifile.
func (s *c20State) oneSided(an *c20Analysis) []int {
	var out []int
	for _, p := range an.Order {
		// (when the two sides also disagree about dynamic/1 only the "replace" reading is kept)
		if ex := s.Defs[p]; ex != nil && (ex.MFAny || ex.MF != an.Defs[p].MF) && ex.Dyn == an.Defs[p].Dyn {
			out = append(out, p)
		}
	}
	return out
}

// apply commits a loadable text: every predicate mentioned in it (by a clause or a declaration) gets
// exactly the text's clauses in source order, replacing an earlier definition; when the existing
// definition and the text both declare the predicate multifile the text's clauses are appended instead.
// appendToo names one-sided multifile predicates for which the "append" reading is taken.
func (s *c20State) apply(an *c20Analysis, appendToo map[int]bool) *c20State {
	n := s.clone()
	for _, p := range an.Order {
		td := an.Defs[p]
		ex := n.Defs[p]
		switch {
		case ex != nil && !ex.MFAny && ex.MF && td.MF:
			if ex.Dyn != td.Dyn {
				n.Open = "texts disagree about dynamic(" + fmt.Sprint(p) + ")"
			}
			ex.Clauses = append(ex.Clauses, td.Clauses...)
		case ex != nil && appendToo[p]:
			ex.Clauses = append(ex.Clauses, td.Clauses...)
			ex.Dyn = ex.Dyn || td.Dyn
			ex.MFAny = true
		default:
			n.Defs[p] = &c20Def{Clauses: append([]*c20Clause(nil), td.Clauses...), Dyn: td.Dyn, MF: td.MF}
		}
	}
	return n
}

// c20Cand is one allowed outcome of a load.
type c20Cand struct {
	Err   int // 1: the load must report an error, 0: must not, -1: not asserted
	State *c20State
	Out   *string // expected user_output of the load; nil = not asserted
	Label string
}

// c20LoadSpec is what the model needs to know about one load.
type c20LoadSpec struct {
	Entries     []c20Entry
	NoFinalStop bool
	File        string // "" for Exec of the text itself
	Vocab       []c20Pred
}

// candidates returns the allowed outcomes of a load on state s; the first one is the primary expectation.
func (s *c20State) candidates(l *c20LoadSpec) (cands []c20Cand, an *c20Analysis) {
	an = c20Analyse(s, l.Entries, l.NoFinalStop)
	initFail := false
	for _, e := range an.Inits {
		if e.K == "initfail" {
			initFail = true
		}
	}
	// outcomes of a successful load (several when the statement leaves the multifile reading open)
	var succ []*c20State
	one := s.oneSided(an)
	if len(one) > 3 {
		one = one[:3]
	}
	for mask := 0; mask < 1<<len(one); mask++ {
		m := map[int]bool{}
		for i, p := range one {
			if mask&(1<<i) != 0 {
				m[p] = true
			}
		}
		n := s.apply(an, m)
		if l.File != "" {
			n.Loaded[l.File] = true
		}
		succ = append(succ, n)
	}
	okCands := func(withOut bool, errWant int, label string) {
		for i, n := range succ {
			c := c20Cand{Err: errWant, State: n, Label: label}
			if i > 0 {
				c.Label += " (one-sided multifile: appended)"
			}
			if withOut {
				o := c20ExpectedOutput(n, an, l.Vocab)
				c.Out = &o
			}
			cands = append(cands, c)
		}
	}
	unchanged := c20Cand{Err: 1, State: s, Label: "load fails, database unchanged"}
	switch {
	case l.File != "" && s.Loaded[l.File]:
		// the file counts as loaded: doing nothing and loading it again are both accepted
		empty := ""
		cands = append(cands, c20Cand{Err: 0, State: s, Out: &empty, Label: "file already loaded: no-op"})
		if an.Hard == "" && an.Soft == "" && !initFail {
			okCands(true, 0, "file loaded again")
		}
	case an.Hard != "":
		cands = append(cands, unchanged)
	case an.Soft != "":
		// a failing / throwing directive: the load fails atomically; an implementation that only warns and
		// carries on is not excluded by the statement
		cands = append(cands, unchanged)
		if !initFail {
			okCands(false, 0, "directive failure ignored, text loaded")
		}
	case initFail:
		// a failing initialization goal runs after the text is loaded: the statement does not say whether the
		// load then counts as failed, nor whether the clauses stay
		okCands(false, -1, "text loaded, initialization goal failed")
		cands = append(cands, c20Cand{Err: -1, State: s, Label: "initialization goal failed, database unchanged"})
	default:
		okCands(true, 0, "text loaded")
	}
	return cands, an
}

// c20ExpectedOutput: directive output in source order, then the initialization goals' output in source order
// computed against the database after the load.
func c20ExpectedOutput(after *c20State, an *c20Analysis, vocab []c20Pred) string {
	var sb strings.Builder
	for _, e := range an.Dirs {
		sb.WriteString(e.Out)
	}
	for _, e := range an.Inits {
		switch e.K {
		case "init":
			sb.WriteString(e.Out)
		case "initdump":
			p := vocab[e.P]
			goal := term.A(p.Name)
			if p.Arity > 0 {
				args := make([]*term.Term, p.Arity)
				for i := range args {
					args[i] = term.V(int64(i))
				}
				goal = term.C(p.Name, args...)
			}
			answers, _ := c20Solve(after, vocab, goal)
			for _, a := range answers {
				if p.Arity == 0 {
					sb.WriteString("y\n")
					continue
				}
				var ws []string
				for _, x := range a.Args {
					ws = append(ws, x.String())
				}
				sb.WriteString(strings.Join(ws, "-") + "\n")
			}
		}
	}
	return sb.String()
}

// ---------------------------------------------------------------------------------------------------
// A small SLD evaluator over the model's database: goals are calls to vocabulary predicates (or true),
// clause bodies are conjunctions of such calls. It returns the instances of the goal in solution order
// and the error (Formal) that ended the enumeration, if any.

type c20Solver struct {
	st    *c20State
	index map[string]int
	next  int64
	out   []*term.Term
	steps int
}

const c20MaxSteps = 200000

func c20Solve(st *c20State, vocab []c20Pred, goal *term.Term) (answers []*term.Term, errFormal *term.Term) {
	sv := &c20Solver{st: st, index: map[string]int{}, next: 1000}
	for i, p := range vocab {
		sv.index[p.pi()] = i
	}
	e := sv.run([]*term.Term{goal}, goal)
	return sv.out, e
}

func (sv *c20Solver) rename(c *c20Clause) (*term.Term, []*term.Term) {
	m := map[int64]*term.Term{}
	f := func(id int64) *term.Term {
		v, ok := m[id]
		if !ok {
			v = term.V(sv.next)
			sv.next++
			m[id] = v
		}
		return v
	}
	h := term.Map(c.Head, f)
	body := make([]*term.Term, len(c.Body))
	for i, g := range c.Body {
		body[i] = term.Map(g, f)
	}
	return h, body
}

func (sv *c20Solver) run(goals []*term.Term, tmpl *term.Term) *term.Term {
	sv.steps++
	if sv.steps > c20MaxSteps {
		return term.A("$model_budget")
	}
	if len(goals) == 0 {
		sv.out = append(sv.out, tmpl)
		return nil
	}
	g := goals[0]
	if g.IsAtom("true") {
		return sv.run(goals[1:], tmpl)
	}
	pi := fmt.Sprintf("%s/%d", g.S, len(g.Args))
	idx, known := sv.index[pi]
	var def *c20Def
	if known {
		def = sv.st.Defs[idx]
	}
	if def == nil {
		return term.C("existence_error", term.A("procedure"), term.C("/", term.A(g.S), term.I(int64(len(g.Args)))))
	}
	for _, cl := range def.Clauses {
		h, body := sv.rename(cl)
		mgu, res := term.Unify(g, h)
		if res != term.Unifiable {
			continue
		}
		rest := make([]*term.Term, 0, len(body)+len(goals)-1)
		for _, b := range body {
			rest = append(rest, mgu.Apply(b))
		}
		for _, b := range goals[1:] {
			rest = append(rest, mgu.Apply(b))
		}
		if e := sv.run(rest, mgu.Apply(tmpl)); e != nil {
			return e
		}
	}
	return nil
}

// ---------------------------------------------------------------------------------------------------
// Expected observations of a state.

// c20Obs is the behavioural view of the database: per vocabulary predicate the enumeration of its
// solutions (or the error that ended it) and the clause/2 listing.
type c20Obs struct {
	Answers []*term.Term // per predicate: list of t(Args...) | err(Formal)
	Listing []*term.Term // per predicate: list of c(Head, Body) | err(Formal)
}

func c20ExpectedObs(st *c20State, vocab []c20Pred) (*c20Obs, bool) {
	o := &c20Obs{}
	// findall/3 copies every solution: the elements of a result list never share variables
	fresh := int64(1 << 40)
	apart := func(t *term.Term) *term.Term {
		m := map[int64]*term.Term{}
		return term.Map(t, func(id int64) *term.Term {
			v, ok := m[id]
			if !ok {
				v = term.V(fresh)
				fresh++
				m[id] = v
			}
			return v
		})
	}
	for i, p := range vocab {
		args := make([]*term.Term, p.Arity)
		for k := range args {
			args[k] = term.V(int64(k))
		}
		goal := term.C(p.Name, args...)
		ans, e := c20Solve(st, vocab, goal)
		if e != nil && e.IsAtom("$model_budget") {
			return nil, false
		}
		if e != nil {
			o.Answers = append(o.Answers, term.C("err", e))
		} else {
			ts := make([]*term.Term, len(ans))
			for k, a := range ans {
				ts[k] = apart(&term.Term{K: term.KCmp, S: "t", Args: append([]*term.Term{term.A("x")}, a.Args...)})
			}
			o.Answers = append(o.Answers, term.L(ts...))
		}
		d := st.Defs[i]
		switch {
		case d == nil:
			o.Listing = append(o.Listing, term.L())
		case !d.Dyn:
			o.Listing = append(o.Listing, term.C("err", term.C("permission_error", term.A("access"), term.A("private_procedure"),
				term.C("/", term.A(p.Name), term.I(int64(p.Arity))))))
		default:
			ts := make([]*term.Term, len(d.Clauses))
			for k, c := range d.Clauses {
				ts[k] = apart(term.C("c", c.Head, c.bodyTerm()))
			}
			o.Listing = append(o.Listing, term.L(ts...))
		}
	}
	return o, true
}

// c20ObsQuery is the one query that observes the whole vocabulary: variable A<i> receives the solutions of
// predicate i, C<i> its clause/2 listing.
func c20ObsQuery(vocab []c20Pred) string {
	var parts []string
	var later []func()
	for i, p := range vocab {
		goal, head := p.Name, p.Name
		tmpl := "t(x)"
		if p.Arity > 0 {
			var vs, us []string
			for k := 0; k < p.Arity; k++ {
				vs = append(vs, fmt.Sprintf("X%d_%d", i, k))
				us = append(us, "_")
			}
			goal += "(" + strings.Join(vs, ", ") + ")"
			head += "(" + strings.Join(us, ", ") + ")"
			tmpl = "t(x, " + strings.Join(vs, ", ") + ")"
		}
		if p.Arity > 0 {
			// the same predicate called with its first argument instantiated to every atomic value the general call
			// delivered there (B<i>): must select exactly the matching subset (checked against A<i> itself)
			later = append(later, func(i int, p c20Pred) func() {
				return func() {
					var ys []string
					for k := 1; k < p.Arity; k++ {
						ys = append(ys, fmt.Sprintf("Y%d_%d", i, k))
					}
					rest, blanks := "", ""
					if len(ys) > 0 {
						rest = ", " + strings.Join(ys, ", ")
						blanks = strings.Repeat(", _", len(ys))
					}
					parts = append(parts, fmt.Sprintf("catch(findall(t(x, K%d%s), (member(t(x, K%d%s), A%d), atomic(K%d), %s(K%d%s)), B%d), error(G%d, _), B%d = err(G%d))",
						i, rest, i, blanks, i, i, p.Name, i, rest, i, i, i, i))
				}
			}(i, p))
		}
		parts = append(parts,
			fmt.Sprintf("catch(findall(%s, %s, A%d), error(E%d, _), A%d = err(E%d))", tmpl, goal, i, i, i, i),
			fmt.Sprintf("catch(findall(c(H%d, B%d), (H%d = %s, clause(H%d, B%d)), C%d), error(F%d, _), C%d = err(F%d))", i, i, i, head, i, i, i, i, i, i))
	}
	for _, f := range later {
		f()
	}
	return strings.Join(parts, ", ") + "."
}

// c20BoundCallDiff: the answers of the calls with an instantiated first argument (got) against the answers of the
// general call (all): for every element of all whose first argument K is atomic, in order, the elements of all whose
// first argument is K or a variable, in order, with K in that place. "" = consistent.
func c20BoundCallDiff(all, got *term.Term) string {
	es, tail := term.ListElems(all)
	if !tail.IsAtom("[]") || all.IsCmp("err", 1) {
		return "" // the general call raised: nothing to select from
	}
	var want []*term.Term
	for _, e := range es {
		if !e.IsCmp("t", len(e.Args)) || len(e.Args) < 2 {
			return ""
		}
		k := e.Args[1]
		if k.K != term.KAtom && k.K != term.KInt && k.K != term.KFloat {
			continue
		}
		for _, f := range es {
			switch a := f.Args[1]; {
			case a.K == term.KVar:
				id := a.I
				want = append(want, term.Map(f, func(v int64) *term.Term {
					if v == id {
						return k
					}
					return term.V(v)
				}))
			case term.Variant(a, k):
				want = append(want, f)
			}
		}
	}
	// elements are copies (findall): compare element by element up to renaming
	ges, gtail := term.ListElems(got)
	if !gtail.IsAtom("[]") || len(ges) != len(want) {
		return fmt.Sprintf("%s instead of %s", c20Show(got), c20Show(term.L(want...)))
	}
	for i := range want {
		if !term.Variant(want[i], ges[i]) {
			return fmt.Sprintf("%s instead of %s", c20Show(got), c20Show(term.L(want...)))
		}
	}
	return ""
}

// c20StateText renders a state for samples and messages.
func c20StateText(st *c20State, vocab []c20Pred) string {
	var keys []int
	for k := range st.Defs {
		keys = append(keys, k)
	}
	sort.Ints(keys)
	var sb strings.Builder
	for _, k := range keys {
		d := st.Defs[k]
		fl := ""
		if d.Dyn {
			fl += " dynamic"
		}
		if d.MF {
			fl += " multifile"
		}
		fmt.Fprintf(&sb, "%s%s:", vocab[k].pi(), fl)
		for _, c := range d.Clauses {
			sb.WriteString(" " + c.text() + ".")
		}
		sb.WriteString(" | ")
	}
	return sb.String()
}
