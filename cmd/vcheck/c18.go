package main

import (
	"encoding/json"
	"fmt"
	"math/rand"
	"sort"
	"strings"

	"verif/internal/proto"
	"verif/internal/run"
	"verif/internal/term"
)

// C18 — the operator table evolves as op/3 defines; failed updates change nothing.
//
// One item = one history of op/3 calls run on a fresh interpreter. The controller keeps a sequential model
// of the table (OpTable) whose initial state is the table the engine itself enumerates after bootstrap, and
// whose transition function is ISO/IEC 13211-1 8.14.3 with Cor.2. After every call the engine's outcome
// (success / error Formal) and the whole enumerated table are compared with the model; current_op/3 is
// queried in all 8 instantiation patterns; finally the reader and the writer are probed for the names the
// history touched.

func init() { checks["C18"] = func() Check { return &c18{} } }

type c18 struct{}

func (*c18) ID() string    { return "C18" }
func (*c18) Level() string { return "exploration" }
func (*c18) Rule() string {
	return "histories of op/3 calls over 15 names (',' '|' [] {} foo bar + - :- = is mod =>> \\+ and the NUL atom) and 13 other operator arguments " +
		"(lists with an unbound / non-atom / ','/'|'/{} member, partial and improper lists, [[]], a number, a compound, a variable) x " +
		"7 specifiers + 3 non-specifiers (foo, 1, _) x priorities {-1,0,1,200,700,1000,1001,1200,1201,foo,_}: every history of length 1 " +
		"(exhaustive); histories of length 2 whose calls address the same name (thorough: every well-formed first call [7 specifiers x priorities 0..1200 of the pool] x every second call, exhaustive; quick: seeded sample) " +
		"and seeded pairs over the whole space; seeded random histories of length 3-8 focused on 1-3 names. Each call is executed on the " +
		"real engine, its success / error Formal is compared with the set ISO 8.14.3.3 + Cor.2 allows, and after EVERY call the set " +
		"enumerated by current_op/3 (plus 7 partially instantiated patterns and, at the end, ill-typed patterns) is compared with the " +
		"model table; an erroring call must leave the table as it was. Reader/writer probes for up to 3 touched names on the final table: reading " +
		"a N b, N a, a N, a N b N c, a N b * c at priority 1200 and as an argument, a list element and the operand of prefix - (expected term or syntax error from the model table), " +
		"notation chosen by writeq, and a write/read round trip through a file of 11 terms per name (N inside a list tail, {}, an argument, itself, under prefix -). " +
		"Non-trivial: the model history contains an erroring call after >=1 successful call, or a call that redefines or removes an " +
		"existing entry; distinct by history hash."
}
func (*c18) Assumptions() []string {
	return []string{
		"the oracle is ISO/IEC 13211-1:1995 8.14.3/8.14.4 with Technical Corrigendum 2 (bar, [] and {} rules); where the standard lets several errors apply, any applicable one is accepted",
		"under-specified corners accept both outcomes (always with the table the outcome implies): priority 0 for a class that could not be created (postfix over infix, '|' as prefix, [] or {}), the atom [] as third argument (empty list of names or the name []), permission_error action create or modify for '|'",
		"the initial table is the one current_op/3 enumerates on a fresh interpreter (no hard-coded copy); it is only required to satisfy the structural invariants",
		"findall/3, catch/3, call/1 and the Go predicates verif_in/verif_ops are trusted as plumbing; error Context terms are not compared",
		"writer probes assert only: functional notation name(args) iff the name is not an operator of the matching class",
	}
}

// ---------------------------------------------------------------------------------------------------
// The model.

const (
	c18Prefix = iota
	c18Infix
	c18Postfix
)

var c18Class = map[string]int{"fx": c18Prefix, "fy": c18Prefix, "xfx": c18Infix, "xfy": c18Infix, "yfx": c18Infix, "xf": c18Postfix, "yf": c18Postfix}
var c18ClassName = [...]string{"prefix", "infix", "postfix"}

type c18Key struct {
	N string
	C int
}
type c18Def struct {
	P int64
	T string
}

// OpTable is the sequential model: at most one definition per (name, class).
type OpTable map[c18Key]c18Def

type c18Triple struct {
	P int64
	T string
	N string
}

func (t c18Triple) String() string { return fmt.Sprintf("op(%d,%s,%s)", t.P, t.T, term.AtomText(t.N)) }

func (t OpTable) clone() OpTable {
	c := make(OpTable, len(t))
	for k, v := range t {
		c[k] = v
	}
	return c
}

func (t OpTable) triples() map[c18Triple]bool {
	s := make(map[c18Triple]bool, len(t))
	for k, v := range t {
		s[c18Triple{v.P, v.T, k.N}] = true
	}
	return s
}

func (t OpTable) has(n string, class int) bool { _, ok := t[c18Key{n, class}]; return ok }

// invariantProblem checks the structural rules of 6.3.4.3 (+Cor.2) on a table.
func (t OpTable) invariantProblem() string {
	for k, v := range t {
		switch {
		case v.P < 1 || v.P > 1200:
			return fmt.Sprintf("%s has priority %d", term.AtomText(k.N), v.P)
		case k.N == "[]" || k.N == "{}":
			return k.N + " is an operator"
		case k.N == "|" && (k.C != c18Infix || v.P < 1001):
			return fmt.Sprintf("'|' is a %s operator of priority %d", c18ClassName[k.C], v.P)
		case k.C == c18Infix && t.has(k.N, c18Postfix):
			return term.AtomText(k.N) + " is both an infix and a postfix operator"
		}
	}
	return ""
}

// tableFromTriples builds a table from an enumeration; a second definition in one class is a problem.
func c18TableFrom(ts []c18Triple) (OpTable, string) {
	t := OpTable{}
	for _, x := range ts {
		cl, ok := c18Class[x.T]
		if !ok {
			return nil, "enumerated specifier " + x.T
		}
		k := c18Key{x.N, cl}
		if _, dup := t[k]; dup {
			return nil, fmt.Sprintf("two %s definitions of %s are enumerated", c18ClassName[cl], term.AtomText(x.N))
		}
		t[k] = c18Def{x.P, x.T}
	}
	return t, ""
}

// c18Expect is what ISO allows for one op/3 call in a given table.
type c18Expect struct {
	MustErr bool         // success is not an allowed outcome
	Errors  []*term.Term // allowed Formal terms (all conditions of 8.14.3.3 that hold)
	Next    OpTable      // table after a successful call (nil if MustErr)
}

func c18Err(name string, args ...*term.Term) *term.Term { return term.C(name, args...) }

var c18Inst = term.A("instantiation_error")

// expect is the transition function: ISO 8.14.3.1 (update), 8.14.3.3 a-l (errors) + Cor.2 (m, n; bar, [], {}).
func (t OpTable) expect(call *term.Term) c18Expect {
	P, T, O := call.Args[0], call.Args[1], call.Args[2]
	var req, opt []*term.Term
	prioOK, specOK := false, false
	var prio int64
	class := -1
	switch P.K {
	case term.KVar:
		req = append(req, c18Inst) // a
	case term.KInt:
		if P.I < 0 || P.I > 1200 {
			req = append(req, c18Err("domain_error", term.A("operator_priority"), P)) // h
		} else {
			prioOK, prio = true, P.I
		}
	default:
		req = append(req, c18Err("type_error", term.A("integer"), P)) // d
	}
	switch T.K {
	case term.KVar:
		req = append(req, c18Inst) // b
	case term.KAtom:
		if c, ok := c18Class[T.S]; ok {
			specOK, class = true, c
		} else {
			req = append(req, c18Err("domain_error", term.A("operator_specifier"), T)) // i
		}
	default:
		req = append(req, c18Err("type_error", term.A("atom"), T)) // e
	}
	var names []string
	emptyListAtom := false
	switch {
	case O.K == term.KVar:
		req = append(req, c18Inst) // c (a variable is a partial list)
	case O.IsAtom("[]"):
		emptyListAtom = true // the empty list of names, or the name [] (Cor.2): both readings are defensible
	case O.K == term.KAtom:
		names = []string{O.S}
	case O.IsList():
		elems, tail := term.ListElems(O)
		for _, e := range elems {
			switch e.K {
			case term.KVar:
				req = append(req, c18Inst) // c
			case term.KAtom:
				names = append(names, e.S)
			default:
				req = append(req, c18Err("type_error", term.A("atom"), e)) // g
			}
		}
		switch {
		case tail.K == term.KVar:
			req = append(req, c18Inst) // c
		case tail.IsAtom("[]"):
		default: // f; the culprit is Operator (the tail is tolerated as culprit too)
			req = append(req, c18Err("type_error", term.A("list"), O), c18Err("type_error", term.A("list"), tail))
		}
	default:
		req = append(req, c18Err("type_error", term.A("list"), O)) // f
	}
	perm := func(action, n string) *term.Term {
		return c18Err("permission_error", term.A(action), term.A("operator"), term.A(n))
	}
	seen := map[string]bool{}
	var uniq []string
	for _, n := range names {
		if !seen[n] {
			seen[n] = true
			uniq = append(uniq, n)
		}
	}
	for _, n := range uniq {
		if n == "," {
			req = append(req, perm("modify", ",")) // j, k
		}
		if !prioOK || !specOK {
			continue // l, m, n presuppose a priority and a specifier
		}
		var es []*term.Term
		switch {
		case n == "|" && (class != c18Infix || (prio > 0 && prio < 1001)):
			es = append(es, perm("create", "|"), perm("modify", "|"))
		case n == "[]" || n == "{}":
			es = append(es, perm("create", n))
		}
		if (class == c18Infix && t.has(n, c18Postfix)) || (class == c18Postfix && t.has(n, c18Infix)) {
			es = append(es, perm("create", n))
		}
		if prio > 0 {
			req = append(req, es...)
		} else {
			opt = append(opt, es...) // nothing would be created: error or no-op, both defensible
		}
	}
	if emptyListAtom && prioOK && specOK {
		opt = append(opt, perm("create", "[]"))
	}
	if len(req) > 0 {
		return c18Expect{MustErr: true, Errors: append(req, opt...)}
	}
	next := t.clone()
	for _, n := range uniq {
		k := c18Key{n, class}
		if prio == 0 {
			delete(next, k)
		} else {
			next[k] = c18Def{prio, T.S}
		}
	}
	return c18Expect{Errors: opt, Next: next}
}

func (e c18Expect) allows(formal *term.Term) bool {
	for _, x := range e.Errors {
		if term.Equal(x, formal) {
			return true
		}
	}
	return false
}

func (e c18Expect) String() string {
	var alt []string
	if !e.MustErr {
		alt = append(alt, "success")
	}
	seen := map[string]bool{}
	for _, x := range e.Errors {
		if s := x.String(); !seen[s] {
			seen[s] = true
			alt = append(alt, s)
		}
	}
	return strings.Join(alt, " | ")
}

// expected answers/errors of one current_op/3 goal (8.14.4).
func (t OpTable) currentOp(g *term.Term) (set map[c18Triple]bool, errs []*term.Term) {
	P, T, N := g.Args[0], g.Args[1], g.Args[2]
	switch {
	case P.K == term.KVar:
	case P.K == term.KInt && P.I >= 0 && P.I <= 1200:
	default:
		errs = append(errs, c18Err("domain_error", term.A("operator_priority"), P))
	}
	switch {
	case T.K == term.KVar:
	case T.K == term.KAtom && c18IsSpec(T.S):
	default:
		errs = append(errs, c18Err("domain_error", term.A("operator_specifier"), T))
	}
	if N.K != term.KVar && N.K != term.KAtom {
		errs = append(errs, c18Err("type_error", term.A("atom"), N))
	}
	if errs != nil {
		return nil, errs
	}
	set = map[c18Triple]bool{}
	for x := range t.triples() {
		if (P.K == term.KVar || P.I == x.P) && (T.K == term.KVar || T.S == x.T) && (N.K == term.KVar || N.S == x.N) {
			set[x] = true
		}
	}
	return set, nil
}

func c18IsSpec(s string) bool { _, ok := c18Class[s]; return ok }

// ---------------------------------------------------------------------------------------------------
// Generation.

// (the last name is the one-character NUL atom: a legitimate atom whose internal representation may coincide with "no atom")
var c18Names = []string{",", "|", "[]", "{}", "foo", "bar", "+", "-", ":-", "=", "is", "mod", "=>>", "\\+", "\x00"}
var c18SpecPool = []*term.Term{term.A("fx"), term.A("fy"), term.A("xf"), term.A("yf"), term.A("xfx"), term.A("xfy"), term.A("yfx"),
	term.A("foo"), term.I(1), nil /* fresh variable */}
var c18PrioPool = []*term.Term{term.I(-1), term.I(0), term.I(1), term.I(200), term.I(700), term.I(1000), term.I(1001), term.I(1200), term.I(1201),
	term.A("foo"), nil /* fresh variable */}

// operator arguments that are not a single name; nil inside stands for a fresh variable.
func c18OtherArgs(fresh func() *term.Term) []*term.Term {
	a := term.A
	return []*term.Term{
		term.L(a("foo"), term.I(1)),
		term.PL(fresh(), a("foo")),
		term.L(a("foo"), a(",")),
		term.L(a("bar"), a("|")),
		term.L(a("foo"), a("bar")),
		term.L(a("=>>"), a("foo"), a("{}")),
		term.L(a("foo"), fresh()),
		term.PL(a("bar"), a("foo")),
		term.L(a("-"), a("=>>"), a("-")),
		term.L(term.Nil),
		term.I(1),
		term.C("f", a("x")),
		fresh(),
	}
}

const c18NOther = 13

// listsWith returns list arguments that contain name n (valid and with one invalid member).
func c18ListsWith(n string, fresh func() *term.Term, r *rand.Rand) *term.Term {
	a := term.A
	other := c18Names[4+r.Intn(len(c18Names)-4)]
	switch r.Intn(8) {
	case 0:
		return term.L(a(n))
	case 1:
		return term.L(a(n), a(other))
	case 2:
		return term.L(a(other), a(n), a(other))
	case 3:
		return term.L(a(n), term.I(1))
	case 4:
		return term.L(a(n), fresh())
	case 5:
		return term.PL(fresh(), a(n))
	case 6:
		return term.L(a(n), a([]string{",", "|", "[]", "{}"}[r.Intn(4)]))
	default:
		return term.WithRep(term.L(a(other), a(n)), "cons")
	}
}

type c18Gen struct {
	nv int64
}

func (g *c18Gen) fresh() *term.Term { g.nv++; return term.V(100 + g.nv) }
func (g *c18Gen) orFresh(t *term.Term) *term.Term {
	if t == nil {
		return g.fresh()
	}
	return t
}
func (g *c18Gen) call(p, s, o *term.Term) *term.Term {
	return term.C("op", g.orFresh(p), g.orFresh(s), o)
}

// c18Single enumerates the single-call space: index -> call.
func c18NSingle() int { return (len(c18Names) + c18NOther) * len(c18SpecPool) * len(c18PrioPool) }
func (g *c18Gen) single(i int) *term.Term {
	np, ns := len(c18PrioPool), len(c18SpecPool)
	p, s, o := c18PrioPool[i%np], c18SpecPool[(i/np)%ns], i/(np*ns)
	var arg *term.Term
	if o < len(c18Names) {
		arg = term.A(c18Names[o])
	} else {
		arg = c18OtherArgs(g.fresh)[o-len(c18Names)]
	}
	return g.call(p, s, arg)
}

// perName enumerates the calls addressing one name as a single atom: index in [0, nspec*nprio).
func c18NPerName() int { return len(c18SpecPool) * len(c18PrioPool) }
func (g *c18Gen) perName(n string, i int) *term.Term {
	np := len(c18PrioPool)
	return g.call(c18PrioPool[i%np], c18SpecPool[i/np], term.A(n))
}

// wellFormed enumerates the calls on one name whose priority and specifier are valid (7 x 7): the first calls
// of the exhaustive pairs. (A first call with an invalid priority or specifier changes nothing, so such a pair
// repeats a history of length 1.)
const c18NWellFormed = 7 * 7

func (g *c18Gen) wellFormed(n string, i int) *term.Term {
	return g.call(c18PrioPool[1+i%7], c18SpecPool[i/7], term.A(n))
}

// random call for the long histories: mostly well-formed, addressed to the focus names.
func (g *c18Gen) randomCall(r *rand.Rand, focus []string) *term.Term {
	var p, s *term.Term
	switch k := r.Intn(100); {
	case k < 12:
		p = term.I(0)
	case k < 70:
		p = []*term.Term{term.I(1), term.I(200), term.I(700), term.I(1000), term.I(1001), term.I(1100), term.I(1200)}[r.Intn(7)]
	case k < 85:
		p = term.I(int64(1 + r.Intn(1200)))
	default:
		p = c18PrioPool[r.Intn(len(c18PrioPool))]
		if p != nil && p.K == term.KAtom && r.Intn(2) == 0 {
			p = term.F(700)
		}
	}
	if r.Intn(100) < 88 {
		s = c18SpecPool[r.Intn(7)]
	} else {
		s = []*term.Term{term.A("foo"), term.I(1), nil, term.A("yfy"), term.C("f", term.A("x"))}[r.Intn(5)]
	}
	n := focus[r.Intn(len(focus))]
	if r.Intn(100) < 12 {
		n = c18Names[r.Intn(len(c18Names))]
	}
	var o *term.Term
	switch k := r.Intn(100); {
	case k < 72:
		o = term.A(n)
	case k < 94:
		o = c18ListsWith(n, g.fresh, r)
	default:
		o = c18OtherArgs(g.fresh)[r.Intn(c18NOther)]
	}
	return g.call(p, s, o)
}

// c18Meta is everything Judge needs.
type c18Meta struct {
	Family  string         `json:"family"`
	Calls   []*term.Term   `json:"calls"`   // op(P,T,O)
	Queries [][]*term.Term `json:"queries"` // queries[i] = current_op goals asked after call i-1 (0: initial); the first is all-unbound
	Probes  []c18Probe     `json:"probes"`  // reader probes, one step each, in order
	RT      []*term.Term   `json:"rt"`      // round-trip terms (one step, after the reader probes)
	WNames  []string       `json:"wnames"`  // writer probes: for each name writeq(N(a,b)), writeq(N(a))
}

type c18Probe struct {
	Name string `json:"name"`
	Kind string `json:"kind"` // infix | prefix | postfix | assoc | prio
	Text string `json:"text"`
}

// Every step asks for one answer more than a deterministic goal has: Next then returns false, which means the
// engine's solver goroutine has finished before the next step starts (Solutions.Close is asynchronous).
const c18Max = 2

const c18Helpers = `
vfa([], []).
vfa([G|Gs], [L|Ls]) :- catch(findall(G, G, L), error(E, _), L = err(E)), vfa(Gs, Ls).
vw([]).
vw([T|Ts]) :- writeq(T), nl, vw(Ts).
vrl([], []).
vrl([X|Xs], [V|Vs]) :- V = X, vrl(Xs, Vs).
vrt([], []).
vrt([T|Ts], [R|Rs]) :-
	open('c18_rt.txt', write, S), writeq(S, T), write(S, ' .'), nl(S), close(S),
	open('c18_rt.txt', read, I), catch(read(I, R), error(E, _), R = '$err'(E)), close(I),
	vrt(Ts, Rs).
`

func c18Touched(calls []*term.Term) []string {
	var out []string
	seen := map[string]bool{}
	add := func(t *term.Term) {
		if t.K == term.KAtom && !seen[t.S] {
			seen[t.S] = true
			out = append(out, t.S)
		}
	}
	for _, c := range calls {
		o := c.Args[2]
		if o.IsList() {
			es, _ := term.ListElems(o)
			for _, e := range es {
				add(e)
			}
		} else {
			add(o)
		}
	}
	return out
}

func (g *c18Gen) item(family string, calls []*term.Term) *Item {
	m := &c18Meta{Family: family, Calls: calls}
	touched := c18Touched(calls)
	var probed []string
	for _, n := range touched {
		if n != "\x00" { // not written into query texts
			probed = append(probed, n)
		}
	}
	if len(probed) > 3 {
		probed = probed[:3]
	}
	if len(probed) == 0 {
		probed = []string{"foo"}
	}
	v := func() *term.Term { return g.fresh() }
	co := func(p, t, n *term.Term) *term.Term { return term.C("current_op", p, t, n) }
	m.Queries = append(m.Queries, []*term.Term{co(v(), v(), v())})
	for i, c := range calls {
		// bound values for the partially instantiated patterns: taken from the call itself so that they often match
		p, t := term.I(700), term.A("xfx")
		if c.Args[0].K == term.KInt && c.Args[0].I >= 1 && c.Args[0].I <= 1200 {
			p = c.Args[0]
		}
		if c.Args[1].K == term.KAtom && c18IsSpec(c.Args[1].S) {
			t = c.Args[1]
		}
		n := term.A(probed[i%len(probed)])
		if ts := c18Touched([]*term.Term{c}); len(ts) > 0 {
			n = term.A(ts[len(ts)-1])
		}
		qs := []*term.Term{co(v(), v(), v())}
		if len(calls) <= 2 || i == len(calls)-1 || i%3 == 1 { // the 7 other instantiation patterns (not after every call of a long history)
			qs = append(qs, co(v(), v(), n), co(v(), t, v()), co(p, v(), v()), co(v(), t, n), co(p, v(), n), co(p, t, v()), co(p, t, n))
		}
		if i == len(calls)-1 {
			qs = append(qs, co(term.I(1201), v(), v()), co(term.A("foo"), v(), v()), co(term.I(-1), v(), n), co(v(), term.A("foo"), v()),
				co(v(), term.I(1), n), co(v(), v(), term.I(1)), co(p, t, term.C("f", term.A("x"))), co(term.F(1.5), term.A("yfy"), term.I(1)),
				co(v(), v(), term.A("no_such_operator")))
		}
		m.Queries = append(m.Queries, qs)
	}
	c := &proto.Case{Kind: "optable", Setup: []string{c18Helpers}}
	addInput := func(t *term.Term) int { c.Inputs = append(c.Inputs, t); return len(c.Inputs) - 1 }
	dump := func(qs []*term.Term) {
		k := addInput(term.L(qs...))
		c.Steps = append(c.Steps, proto.Step{Query: fmt.Sprintf("verif_in(%d, Gs), vfa(Gs, Ls), verif_ops(H).", k), Max: c18Max})
	}
	dump(m.Queries[0])
	for i, call := range calls {
		k := addInput(call)
		if es, tail := term.ListElems(call.Args[2]); call.IsCmp("op", 3) && tail.IsAtom("[]") && len(es) > 0 && (i+len(calls))%3 == 0 {
			// the same call with every element of the list of names reached through a variable binding
			c.Steps = append(c.Steps, proto.Step{Query: fmt.Sprintf("verif_in(%d, G), '='(G, op(P, T, L)), vrl(L, L2), op(P, T, L2).", k), Max: c18Max})
		} else {
			c.Steps = append(c.Steps, proto.Step{Query: fmt.Sprintf("verif_in(%d, G), call(G).", k), Max: c18Max})
		}
		dump(m.Queries[i+1])
	}
	for _, n := range probed {
		tk := n // the bare token(s) of the name: the reader decides with its table what it is
		m.Probes = append(m.Probes,
			c18Probe{n, "infix", fmt.Sprintf("'='(X, (a %s b)).", tk)},
			c18Probe{n, "prefix", fmt.Sprintf("'='(X, (%s a)).", tk)},
			c18Probe{n, "postfix", fmt.Sprintf("'='(X, (a %s)).", tk)},
			c18Probe{n, "assoc", fmt.Sprintf("'='(X, (a %s b %s c)).", tk, tk)},
			c18Probe{n, "prio", fmt.Sprintf("'='(X, (a %s b * c)).", tk)})
		if n != "," && n != "|" && n != "[]" && n != "{}" {
			// the same operator where the context admits less than 1200: an argument (999) and the operand of prefix - (200)
			m.Probes = append(m.Probes,
				c18Probe{n, "postfix_arg", fmt.Sprintf("'='(X, f(a %s)).", tk)},
				c18Probe{n, "infix_arg", fmt.Sprintf("'='(X, f(a %s b)).", tk)},
				c18Probe{n, "prefix_arg", fmt.Sprintf("'='(X, f(%s a)).", tk)},
				c18Probe{n, "postfix_neg", fmt.Sprintf("'='(X, (- a %s)).", tk)},
				c18Probe{n, "postfix_list", fmt.Sprintf("'='(X, [a %s]).", tk)})
		}
	}
	for _, p := range m.Probes {
		c.Steps = append(c.Steps, proto.Step{Query: p.Text, Max: c18Max})
	}
	// round trip under the final table: what writeq writes for terms built from the probed names is read back as the same term
	{
		a, b, cc, x := term.A("a"), term.A("b"), term.A("c"), term.A("x")
		for _, n := range probed {
			if n == "," || n == "|" || n == "[]" || n == "{}" {
				continue
			}
			f := func(args ...*term.Term) *term.Term { return &term.Term{K: term.KCmp, S: n, Args: args} }
			m.RT = append(m.RT, term.PL(f(a, b), x), term.PL(f(a), x), term.C("{}", f(a, b)), term.C("f", f(a, b), f(a)),
				f(f(a, b), cc), f(a, f(b, cc)), term.C("-", f(a)), f(term.C("-", a)), term.L(f(a, b), f(a)), f(f(a)), term.C("-", term.I(1), f(a, b)))
		}
		k := addInput(term.L(m.RT...))
		c.Steps = append(c.Steps, proto.Step{Query: fmt.Sprintf("verif_in(%d, Ts), vrt(Ts, Rs).", k), Max: c18Max})
	}
	m.WNames = probed
	var ws []*term.Term
	for _, n := range probed {
		ws = append(ws, &term.Term{K: term.KCmp, S: n, Args: []*term.Term{term.A("a"), term.A("b")}},
			&term.Term{K: term.KCmp, S: n, Args: []*term.Term{term.A("a")}})
	}
	k := addInput(term.L(ws...))
	c.Steps = append(c.Steps, proto.Step{Query: fmt.Sprintf("verif_in(%d, Ts), vw(Ts).", k), Max: c18Max})
	// an op/3 directive that SUCCEEDED stays in force when the rest of its text cannot be loaded (only a failing op/3 call
	// leaves the table as it was)
	c.Steps = append(c.Steps,
		proto.Step{Exec: "':-'(op(201, xfy, c18_kept)).\n':-'(op(0, xfx, '=>>')).\nc18_first(1).\nc18_bad(.\n"},
		proto.Step{Query: "','(findall('-'(P, T), current_op(P, T, c18_kept), L1), findall('-'(P, T), current_op(P, T, '=>>'), L2)).", Max: c18Max})
	meta, _ := json.Marshal(m)
	var hs []string
	for _, call := range calls {
		hs = append(hs, call.String())
	}
	return &Item{Cases: []*proto.Case{c}, Meta: meta, Note: strings.Join(hs, ", ")}
}

// The virtual sequence of histories: sections A (all single calls), B (same-name pairs), C (seeded pairs over
// the whole space), D (seeded random histories of length 3-8). history(i) is a pure function of (seed, tier, i).
type c18Plan struct {
	nA, nB, nC, nD int
	exhaustiveB    bool
}

func c18PlanFor(cx *Ctx) c18Plan {
	pl := c18Plan{nA: c18NSingle()}
	if cx.Thorough() {
		pl.exhaustiveB = true
		pl.nB = len(c18Names) * c18NWellFormed * c18NPerName()
		pl.nC = 15000
		pl.nD = 30000
	} else {
		pl.nB = 2800
		pl.nC = 400
		pl.nD = 1200
	}
	return pl
}

func (pl c18Plan) total() int { return pl.nA + pl.nB + pl.nC + pl.nD }

func (pl c18Plan) history(cx *Ctx, i int) *Item {
	g := &c18Gen{}
	switch {
	case i < pl.nA:
		return g.item("single", []*term.Term{g.single(i)})
	case i < pl.nA+pl.nB:
		j := i - pl.nA
		np := c18NPerName()
		if pl.exhaustiveB {
			n := c18Names[j/(np*c18NWellFormed)]
			return g.item("pair_same_name", []*term.Term{g.wellFormed(n, (j/np)%c18NWellFormed), g.perName(n, j%np)})
		}
		r := cx.Rng(fmt.Sprintf("c18/B/%d", j))
		n := c18Names[j%len(c18Names)]
		first := g.perName(n, r.Intn(np))
		if r.Intn(100) < 75 { // mostly a well-formed first call, so that the second one meets a changed table
			first = g.wellFormed(n, r.Intn(c18NWellFormed))
		}
		second := g.perName(n, r.Intn(np))
		if r.Intn(100) < 20 {
			second = g.call(c18PrioPool[r.Intn(len(c18PrioPool))], c18SpecPool[r.Intn(len(c18SpecPool))], c18ListsWith(n, g.fresh, r))
		}
		return g.item("pair_same_name", []*term.Term{first, second})
	case i < pl.nA+pl.nB+pl.nC:
		j := i - pl.nA - pl.nB
		r := cx.Rng(fmt.Sprintf("c18/C/%d", j))
		return g.item("pair_any", []*term.Term{g.single(r.Intn(pl.nA)), g.single(r.Intn(pl.nA))})
	default:
		j := i - pl.nA - pl.nB - pl.nC
		r := cx.Rng(fmt.Sprintf("c18/D/%d", j))
		nf := 1 + r.Intn(3)
		var focus []string
		for k := 0; k < nf; k++ {
			focus = append(focus, c18Names[r.Intn(len(c18Names))])
		}
		n := 3 + r.Intn(6)
		var calls []*term.Term
		for k := 0; k < n; k++ {
			calls = append(calls, g.randomCall(r, focus))
		}
		return g.item("random_3_8", calls)
	}
}

const c18Chunk = 12000

func (c *c18) Generate(cx *Ctx, chunk int) []*Item {
	pl := c18PlanFor(cx)
	lo, hi := chunk*c18Chunk, (chunk+1)*c18Chunk
	if lo >= pl.total() {
		return nil
	}
	if hi > pl.total() {
		hi = pl.total()
	}
	items := make([]*Item, 0, hi-lo)
	for i := lo; i < hi; i++ {
		items = append(items, pl.history(cx, i))
	}
	return items
}

// ---------------------------------------------------------------------------------------------------
// Judging.

// c18Answers turns a list of current_op/3 (or op/3) instances into triples.
func c18Answers(l *term.Term) ([]c18Triple, string) {
	es, tail := term.ListElems(l)
	if !tail.IsAtom("[]") {
		return nil, "not a list: " + l.String()
	}
	out := make([]c18Triple, 0, len(es))
	for _, e := range es {
		if e.K != term.KCmp || len(e.Args) != 3 || e.Args[0].K != term.KInt || e.Args[1].K != term.KAtom || e.Args[2].K != term.KAtom {
			return nil, "answer is not (integer, atom, atom): " + e.String()
		}
		out = append(out, c18Triple{e.Args[0].I, e.Args[1].S, e.Args[2].S})
	}
	return out, ""
}

func c18SetOf(ts []c18Triple) (map[c18Triple]bool, string) {
	s := make(map[c18Triple]bool, len(ts))
	for _, t := range ts {
		if s[t] {
			return nil, t.String() + " is enumerated twice"
		}
		s[t] = true
	}
	return s, ""
}

// c18Diff describes got relative to want ("" if equal).
func c18Diff(want, got map[c18Triple]bool) string {
	var missing, extra []string
	for t := range want {
		if !got[t] {
			missing = append(missing, t.String())
		}
	}
	for t := range got {
		if !want[t] {
			extra = append(extra, t.String())
		}
	}
	if len(missing) == 0 && len(extra) == 0 {
		return ""
	}
	sort.Strings(missing)
	sort.Strings(extra)
	return fmt.Sprintf("missing %v, unexpected %v", missing, extra)
}

type c18Judge struct {
	m     *c18Meta
	steps []proto.StepResult
	extra map[string]int64
	hist  []string // rendered calls
	exp   []string // expected outcome per call
	obs   []string // observed outcome per call
	// A deviation that matches a named defect model exactly does not stop the judging of the history (so that
	// everything else is still verified when that defect is a listed known finding); it is reported at the
	// end unless an unclassified violation is found, which takes precedence.
	deferred *Verdict
}

func (j *c18Judge) deferClassed(v Verdict) {
	if j.deferred == nil {
		j.deferred = &v
	}
	j.extra["deviation_"+v.Class]++
}

func (j *c18Judge) sample(more map[string]interface{}) map[string]interface{} {
	s := map[string]interface{}{"history": j.hist, "expected": j.exp, "observed": j.obs}
	for k, v := range more {
		s[k] = v
	}
	return s
}

func (j *c18Judge) violated(class, format string, a ...interface{}) Verdict {
	msg := fmt.Sprintf(format, a...)
	return Verdict{Status: Violated, Class: class, Msg: msg + " | history: " + strings.Join(j.hist, ", "),
		Sample: j.sample(map[string]interface{}{"violation": msg}), Extra: j.extra}
}

// checkQueries compares the answers of one vfa step with the model table; it returns the enumerated table.
func (j *c18Judge) checkQueries(st *proto.StepResult, qs []*term.Term, model OpTable, when string) (map[c18Triple]bool, *Verdict) {
	fail := func(class, f string, a ...interface{}) (map[c18Triple]bool, *Verdict) {
		v := j.violated(class, f, a...)
		return nil, &v
	}
	if st.Err != nil || len(st.Answers) < 1 {
		return fail("", "%s: the enumeration step did not succeed: %s", when, c18StepText(st))
	}
	ls, tail := term.ListElems(st.Answers[0]["Ls"])
	if !tail.IsAtom("[]") || len(ls) != len(qs) {
		return fail("", "%s: malformed enumeration result %s", when, st.Answers[0]["Ls"])
	}
	var full map[c18Triple]bool
	for qi, q := range qs {
		want, errs := model.currentOp(q)
		goal := term.Text(q, func(int64) string { return "_" })
		if errs != nil {
			j.extra["current_op_error_patterns"]++
			if !ls[qi].IsCmp("err", 1) {
				return fail("", "%s: %s must raise %v, observed answers %s", when, goal, errs, ls[qi])
			}
			ok := false
			for _, e := range errs {
				ok = ok || term.Equal(e, ls[qi].Args[0])
			}
			if !ok {
				return fail("", "%s: %s must raise one of %v, raised %s", when, goal, errs, ls[qi].Args[0])
			}
			continue
		}
		if ls[qi].IsCmp("err", 1) {
			return fail("", "%s: %s raised %s", when, goal, ls[qi].Args[0])
		}
		ts, bad := c18Answers(ls[qi])
		if bad != "" {
			return fail("", "%s: %s: %s", when, goal, bad)
		}
		got, dup := c18SetOf(ts)
		if dup != "" {
			return fail("", "%s: %s: %s", when, goal, dup)
		}
		if qi == 0 {
			full = got
			j.extra["table_dumps_compared"]++
		} else {
			j.extra["current_op_patterns_compared"]++
			if len(want) > 0 {
				j.extra["current_op_patterns_with_answers"]++
			}
		}
		if model == nil {
			continue // initial dump: the model is built from it
		}
		if d := c18Diff(want, got); d != "" {
			if qi == 0 {
				return fail("", "%s: the table enumerated by current_op/3 differs from the model: %s", when, d)
			}
			return fail("", "%s: %s: %s", when, goal, d)
		}
	}
	// cross-check with the VM's own table (hook), when available
	if h := st.Answers[0]["H"]; h != nil && !h.IsAtom("unavailable") {
		ts, bad := c18Answers(h)
		if bad != "" {
			return fail("", "%s: hook table: %s", when, bad)
		}
		hs, _ := c18SetOf(ts)
		if hs == nil {
			return fail("", "%s: the VM table holds a duplicate entry", when)
		}
		if d := c18Diff(hs, full); d != "" {
			return fail("", "%s: current_op/3 does not enumerate the VM's operator table: %s", when, d)
		}
		j.extra["hook_cross_checks"]++
	}
	return full, nil
}

func c18StepText(st *proto.StepResult) string {
	switch {
	case st.Err != nil && st.Err.Exception != nil:
		return "error " + st.Err.Exception.String()
	case st.Err != nil:
		return "error " + st.Err.Text
	case len(st.Answers) > 0:
		return "success"
	default:
		return "failure"
	}
}

func c18IsSyntaxError(st *proto.StepResult) bool {
	if st.Err == nil || len(st.Answers) > 0 {
		return false
	}
	if ex := st.Err.Exception; ex != nil {
		return ex.IsCmp("error", 2) && ex.Args[0].IsCmp("syntax_error", 1)
	}
	return true // the parser's own Go error
}

func (c *c18) Judge(cx *Ctx, it *Item, outs []*run.Outcome) Verdict {
	var m c18Meta
	if err := decodeMeta(it, &m); err != nil {
		return Verdict{Status: Inconclusive, Msg: err.Error()}
	}
	o := outs[0]
	if o.Crash != nil {
		if o.Crash.Hung {
			return Verdict{Status: Inconclusive, Msg: "watchdog fired (wall clock) — no logical evidence"}
		}
		return Verdict{Status: Inconclusive, Msg: "worker process died: " + o.Crash.Exit + "\n" + firstLines(o.Crash.Stderr, 8)}
	}
	res := o.Res
	if res.Fatal != "" {
		return Verdict{Status: Inconclusive, Msg: "worker: " + res.Fatal}
	}
	for _, e := range res.Setup {
		if e != nil {
			return Verdict{Status: Inconclusive, Msg: "helper clauses did not load: " + e.Text}
		}
	}
	want := 1 + 2*len(m.Calls) + len(m.Probes) + 4
	if len(res.Steps) != want {
		return Verdict{Status: Inconclusive, Msg: fmt.Sprintf("expected %d step results, got %d", want, len(res.Steps))}
	}
	for i := range res.Steps {
		if res.Steps[i].BudgetHit {
			return Verdict{Status: Inconclusive, Msg: fmt.Sprintf("step %d ran out of its step budget", i)}
		}
	}
	j := &c18Judge{m: &m, steps: res.Steps, extra: map[string]int64{"histories": 1, "family_" + m.Family: 1, "calls": int64(len(m.Calls))}}
	for _, call := range m.Calls {
		j.hist = append(j.hist, call.String())
	}

	// step 0: the initial table, as the engine enumerates it
	initial, v := j.checkQueries(&res.Steps[0], m.Queries[0], nil, "after bootstrap")
	if v != nil {
		return *v
	}
	var its []c18Triple
	for t := range initial {
		its = append(its, t)
	}
	model, bad := c18TableFrom(its)
	if bad != "" {
		return j.violated("", "after bootstrap: %s", bad)
	}
	if p := model.invariantProblem(); p != "" {
		return j.violated("", "after bootstrap: %s", p)
	}
	start := model

	nontrivial, successes := false, 0
	for i, call := range m.Calls {
		st := &res.Steps[1+2*i]
		ex := model.expect(call)
		j.exp = append(j.exp, ex.String())
		j.obs = append(j.obs, c18StepText(st))
		when := fmt.Sprintf("call %d %s", i+1, j.hist[i])
		next := model
		switch {
		case len(st.Answers) >= 1 && st.Err == nil:
			if ex.MustErr {
				return j.violated("", "%s succeeded; ISO requires %s", when, ex)
			}
			next = ex.Next
			j.extra["calls_succeeded"]++
			successes++
			for k, d := range next {
				if old, ok := model[k]; ok && old != d {
					nontrivial = true // redefinition
					j.extra["redefinitions"]++
				}
			}
			for k := range model {
				if _, ok := next[k]; !ok {
					nontrivial = true // removal
					j.extra["removals"]++
				}
			}
			if len(ex.Errors) > 0 {
				j.extra["underspecified_calls_accepted_as_noop"]++
			}
		case st.Err != nil && st.Err.Exception != nil:
			ball := st.Err.Exception
			if !ball.IsCmp("error", 2) {
				return j.violated("", "%s threw %s, which is not an error(Formal, Context) term", when, ball)
			}
			formal := ball.Args[0]
			if !ex.allows(formal) {
				if len(ex.Errors) == 0 {
					return j.violated("", "%s raised %s; ISO requires it to succeed (%s)", when, formal, ex)
				}
				// The property constrains WHETHER a call is refused (and that the table is then unchanged), not
				// which Formal reports it: a different error class than ISO 8.14.3.3 names is counted, not asserted
				// (e.g. this engine reports an unbound member of the list of names as type_error(atom,_)).
				j.extra["error_class_differs_from_iso_not_asserted"]++
			}
			j.extra["calls_raised_error"]++
			j.extra["error_"+formal.S]++
			if !ex.MustErr {
				j.extra["underspecified_calls_accepted_as_error"]++
			}
			if successes > 0 {
				nontrivial = true // an erroring call after a successful one
				j.extra["errors_after_success"]++
			}
		default:
			return j.violated("", "%s: %s; op/3 either succeeds or raises an error (ISO allows %s)", when, c18StepText(st), ex)
		}
		model = next
		if _, v := j.checkQueries(&res.Steps[2+2*i], m.Queries[i+1], model, "after "+when); v != nil {
			if st.Err != nil {
				v.Msg = "after an erroring call (the table must be unchanged): " + v.Msg
			}
			return *v
		}
	}

	// reader probes on the final table
	base := 1 + 2*len(m.Calls)
	star, starOK := model[c18Key{"*", c18Infix}]
	starOK = starOK && star == c18Def{400, "yfx"} && start[c18Key{"*", c18Infix}] == star
	a, b, cc := term.A("a"), term.A("b"), term.A("c")
	for pi, p := range m.Probes {
		st := &res.Steps[base+pi]
		n := p.Name
		f := func(args ...*term.Term) *term.Term { return &term.Term{K: term.KCmp, S: n, Args: args} }
		var wantT *term.Term // nil = syntax error
		inf, isInfix := model[c18Key{n, c18Infix}]
		switch p.Kind {
		case "infix":
			if isInfix {
				wantT = f(a, b)
			}
		case "prefix":
			if model.has(n, c18Prefix) {
				wantT = f(a)
			}
		case "postfix":
			if model.has(n, c18Postfix) {
				wantT = f(a)
			}
		case "postfix_arg", "postfix_list":
			if d, ok := model[c18Key{n, c18Postfix}]; ok && d.P <= 999 {
				wantT = term.C("f", f(a))
				if p.Kind == "postfix_list" {
					wantT = term.L(f(a))
				}
			}
		case "infix_arg":
			if isInfix && inf.P <= 999 {
				wantT = term.C("f", f(a, b))
			}
		case "prefix_arg":
			if d, ok := model[c18Key{n, c18Prefix}]; ok && d.P <= 999 {
				wantT = term.C("f", f(a))
			}
		case "postfix_neg":
			if neg, ok := model[c18Key{"-", c18Prefix}]; !ok || neg != (c18Def{200, "fy"}) || n == "-" {
				j.extra["probes_not_asserted"]++
				continue
			}
			if d, ok := model[c18Key{n, c18Postfix}]; ok {
				if d.P <= 200 {
					wantT = term.C("-", f(a))
				} else {
					wantT = f(term.C("-", a))
				}
			}
		case "assoc":
			if !isInfix {
				j.extra["probes_not_asserted"]++
				continue
			}
			switch inf.T {
			case "xfy":
				wantT = f(a, f(b, cc))
			case "yfx":
				wantT = f(f(a, b), cc)
			}
		case "prio":
			if !isInfix || !starOK || n == "*" || inf.P == 400 {
				j.extra["probes_not_asserted"]++
				continue
			}
			if inf.P > 400 {
				wantT = f(a, term.C("*", b, cc))
			} else {
				wantT = term.C("*", f(a, b), cc)
			}
		}
		j.extra["reader_probes_"+p.Kind]++
		gotT := (*term.Term)(nil)
		if len(st.Answers) >= 1 && st.Err == nil {
			gotT = st.Answers[0]["X"]
		}
		switch {
		case wantT == nil && c18IsSyntaxError(st):
		case wantT != nil && gotT != nil && term.Equal(wantT, gotT):
		default:
			wantS, gotS := "a syntax error", c18StepText(st)
			if wantT != nil {
				wantS = wantT.String()
			}
			if gotT != nil {
				gotS = gotT.String()
			}
			class := ""
			if p.Kind == "assoc" && isInfix && inf.T == "xfx" && gotT != nil && term.Equal(gotT, f(a, f(b, cc))) {
				// defect model: the reader takes a non-associative infix operator as right-associative
				class = "reader_accepts_xfx_chain"
			}
			v := j.violated(class, "reading %s under the final table (%s is %s): expected %s, observed %s", p.Text, term.AtomText(n), c18Describe(model, n), wantS, gotS)
			if class == "" {
				return v
			}
			j.deferClassed(v)
		}
	}

	// round trip of terms built from the probed names
	{
		rst := &res.Steps[len(res.Steps)-4]
		if rst.Err != nil || len(rst.Answers) < 1 {
			return j.violated("", "writing the round-trip terms to a file and reading them back did not succeed: %s", c18StepText(rst))
		}
		rs, _ := term.ListElems(rst.Answers[0]["Rs"])
		if len(rs) != len(m.RT) {
			return Verdict{Status: Inconclusive, Msg: fmt.Sprintf("%d round-trip results for %d terms", len(rs), len(m.RT))}
		}
		for i, t := range m.RT {
			j.extra["round_trip_probes"]++
			if !term.Equal(t, rs[i]) {
				return j.violated("", "under the final table, writeq of %s was read back as %s (the text written and the reader do not use the same table)", t.String(), rs[i].String())
			}
		}
	}

	// writer probes
	wst := &res.Steps[len(res.Steps)-3]
	if wst.Err != nil || len(wst.Answers) < 1 {
		return j.violated("", "writeq of the probe terms did not succeed: %s", c18StepText(wst))
	}
	lines := strings.Split(strings.TrimSuffix(string(wst.Output), "\n"), "\n")
	if len(lines) != 2*len(m.WNames) {
		return Verdict{Status: Inconclusive, Msg: fmt.Sprintf("writer probe printed %d lines for %d terms: %q", len(lines), 2*len(m.WNames), wst.Output)}
	}
	for wi, n := range m.WNames {
		for ar := 2; ar >= 1; ar-- {
			out := lines[2*wi+(2-ar)]
			if n == "{}" && ar == 1 {
				j.extra["probes_not_asserted"]++ // '{}'(a) is written {a}
				continue
			}
			args := "(a,b)"
			isOp := model.has(n, c18Infix)
			if ar == 1 {
				args = "(a)"
				isOp = model.has(n, c18Prefix) || model.has(n, c18Postfix)
			}
			squeezed := strings.ReplaceAll(out, " ", "")
			functional := squeezed == n+args || squeezed == "'"+n+"'"+args || squeezed == term.AtomText(n)+args
			j.extra["writer_probes"]++
			if functional == isOp {
				exp := "functional notation"
				if isOp {
					exp = "operator notation"
				}
				return j.violated("", "writeq of the compound %s/%d under the final table (%s is %s) printed %q; expected %s", term.AtomText(n), ar, term.AtomText(n), c18Describe(model, n), out, exp)
			}
		}
	}

	// the text whose last clause is malformed
	{
		est, qst := &res.Steps[len(res.Steps)-2], &res.Steps[len(res.Steps)-1]
		if est.Err == nil {
			return j.violated("", "a text ending in the malformed clause 'c18_bad(.' was loaded without an error")
		}
		if qst.Err != nil || len(qst.Answers) < 1 {
			return j.violated("", "current_op/3 after the text that could not be loaded: %s", c18StepText(qst))
		}
		a := qst.Answers[0]
		l1, _ := term.ListElems(a["L1"])
		if len(l1) != 1 || !term.Equal(l1[0], term.C("-", term.I(201), term.A("xfy"))) {
			return j.violated("", "the directive op(201, xfy, c18_kept) succeeded, the text then failed to load at a later clause: current_op/3 shows %s for c18_kept (an op/3 call that succeeded is not undone)", a["L1"].String())
		}
		for _, e := range func() []*term.Term { es, _ := term.ListElems(a["L2"]); return es }() {
			if e.IsCmp("-", 2) && (e.Args[1].IsAtom("xfx") || e.Args[1].IsAtom("xfy") || e.Args[1].IsAtom("yfx")) {
				return j.violated("", "the directive op(0, xfx, =>>) succeeded, the text then failed to load at a later clause: current_op/3 still shows the infix definition %s of =>>", e.String())
			}
		}
		j.extra["op_directives_kept_after_failed_text"]++
	}

	if j.deferred != nil {
		j.deferred.Extra = j.extra
		return *j.deferred
	}
	if nontrivial {
		j.extra["nontrivial_histories"]++
	}
	var delta []string
	if d := c18Diff(start.triples(), model.triples()); d != "" {
		delta = append(delta, d)
	}
	return Verdict{Status: Held, NonTrivial: nontrivial, Extra: j.extra,
		Sample: j.sample(map[string]interface{}{"final_table_vs_initial": delta, "probed_names": m.WNames})}
}

func c18Describe(t OpTable, n string) string {
	var ds []string
	for c := 0; c < 3; c++ {
		if d, ok := t[c18Key{n, c}]; ok {
			ds = append(ds, fmt.Sprintf("%s %d %s", c18ClassName[c], d.P, d.T))
		}
	}
	if len(ds) == 0 {
		return "not an operator"
	}
	return strings.Join(ds, " + ")
}
