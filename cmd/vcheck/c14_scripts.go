package main

import (
	"fmt"
	"math/rand"
	"strings"

	"verif/internal/proto"
	"verif/internal/ref"
	"verif/internal/term"
)

// Scripts of property C14. "#T#" (proto.ConcTagMark) is replaced by the worker with a per-pass tag of fixed
// length, so every pass mints atom names, file names and operator names that no earlier pass has used.
// Every step is deterministic for a lone interpreter: enumerations that walk Go maps (current_op/3,
// current_predicate/1) are collected with setof/3 (sorted; no unsorted intermediate list is an answer variable),
// stream terms are normalised by the oracle.

func q(s string) proto.ConcStep           { return proto.ConcStep{Query: s} }
func qmax(s string, n int) proto.ConcStep { return proto.ConcStep{Query: s, Max: n} }
func ex(s string) proto.ConcStep          { return proto.ConcStep{Exec: s} }
func sprintfStep(f string, a ...interface{}) proto.ConcStep {
	return q(fmt.Sprintf(f, a...))
}

// c14Program returns a generated pure program and query (the C01 generator) on which the reference
// interpreter terminates within a small budget, as text.
func c14Program(r *rand.Rand) (prog string, query string) {
	for {
		g := &progGen{r: r}
		cl, qt, nv := g.program()
		d := &DiffMeta{Program: cl, Query: qt, NVars: nv, Max: 25}
		o, err := d.refRun(4000, ref.Options{})
		if err != nil || o.M.Unsupported != "" || o.OutOfBudget || o.Err != nil {
			continue
		}
		return programText(cl), term.Text(qt, qvar) + "."
	}
}

var c14OpTypes = []string{"xfx", "xfy", "yfx"}
var c14OpPris = []int{200, 400, 700, 900}
var c14DQ = []string{"codes", "chars", "atom"}
var c14CC = []string{"W", "V", "U"}

// c14WorkloadScript is the script of goroutine g out of n. Phase A changes the state of the own interpreter
// in a way that differs from every other goroutine (same names, different definitions) and does atom-, variable-
// and writer-heavy work; after the rendezvous phase B observes that state again.
func c14WorkloadScript(r *rand.Rand, g, n int) (proto.ConcScript, map[string]string) {
	files := map[string]string{}
	prog, query := c14Program(r)
	var st []proto.ConcStep
	add := func(s ...proto.ConcStep) { st = append(st, s...) }

	// loading and querying a generated program (same predicate names in every interpreter)
	add(ex(prog), qmax(query, 26))

	// state: operators, flags, conversions, clauses
	var sb strings.Builder
	fmt.Fprintf(&sb, ":- op(%d, %s, opx_#T#).\n", c14OpPris[(g/3)%4], c14OpTypes[g%3])
	fmt.Fprintf(&sb, ":- op(700, xfx, own_#T#_g%d).\n", g)
	if g%2 == 0 {
		fmt.Fprintf(&sb, ":- op(%d, fy, pre_#T#).\n", 300+g)
	}
	fmt.Fprintf(&sb, ":- set_prolog_flag(double_quotes, %s).\n", c14DQ[g%3])
	fmt.Fprintf(&sb, ":- char_conversion('Q', '%s').\n", c14CC[g%3])
	if g%4 == 1 {
		sb.WriteString(":- set_prolog_flag(unknown, fail).\n")
	}
	fmt.Fprintf(&sb, ":- dynamic(cnt_#T#/1).\n:- dynamic(shared_fact/1).\ncnt_#T#(%d).\ncnt_#T#(%d).\nshared_fact(%d).\nshared_fact(f(%d)).\n", g, g+100, g, g)
	add(ex(sb.String()))
	add(sprintfStep("assertz(cnt_#T#(%d)), asserta(cnt_#T#(%d)), retract(cnt_#T#(%d)).", g+200, g+300, g+100))

	// atoms: the shared names are minted by every goroutine of the pass, the private ones by this one only
	// (no step may cut through the tag or explode it into characters: only whole tags can be normalised)
	add(q("findall(A-L-S-W, (member(K, [ka, kb, kc, kd, ke]), atom_concat(sh_#T#_, K, A), atom_length(A, L), (K == ka -> sub_atom(A, _, 2, 0, S), sub_atom(A, 3, _, 0, W) ; S = K, W = K)), R)."))
	add(sprintfStep("findall(A, (member(K, [k1, k2, k3, k4]), atom_concat(pv_#T#_g%d_, K, A)), R).", g))
	add(q("findall(A-B-N-M, (atom_codes(sh_#T#_codes, Cs), atom_codes(A, Cs), atom_chars(sh_#T#_chars, Ch), atom_chars(B, Ch), atom_length(B, N), length(Cs, M)), R)."))
	add(sprintfStep("findall(S, sub_atom(abcdefgh_g%d, _, 3, _, S), R).", g))
	add(q("findall(S, (member(B, [1, 3]), sub_atom(cd_#T#, B, _, 0, S)), R)."))
	add(q("X = 'quoted #T# atom', atom_length(X, L), atom_concat(X, ' tail', Y), findall(P-S, (member(P, ['', e, ef, ef_]), atom_concat(P, S, ef_#T#)), R)."))

	// variables
	add(q("length(L, 24), functor(T, f, 12), copy_term(T-L, C), T =.. [_|As], term_variables(C, Vs), length(Vs, NV)."))
	add(q("findall(X, (between(1, 10, _), copy_term(f(Y, Y, Z), X)), R)."))
	add(q("sort([Z, Y, X, f(Y), g(X, Z)], S), setof(K-V, member(K-V, [b-X, a-Y, c-X, a-Z]), R), bagof(A-B, member(A-B, [1-P, 2-Q, 1-P]), Bag)."))

	// writing
	// (the unquoted write/1 must not print a quote character: the variable renamer tracks quoted atoms)
	add(q(`X = f(A, 'B c', [1, 2|T], -(1), 1 - 2, {x}, "str", 1.5, a + b * c, -(-(1)), \+ a, [a|b], - a, 1 - (2 - 3), (a :- b, c ; d -> e), [(a , b)], [], '[]', {}, 'a.b', A), writeq(X), nl, write_canonical(X), nl, write(X), nl.`))
	add(sprintfStep("X = opx_#T#(opx_#T#(a, b), opx_#T#(c, d)), writeq(X), nl, writeq(pre_#T#(pre_#T#(a))), nl, writeq(1 - pre_#T#(2)), nl, writeq(own_#T#_g%d(l, r)), nl, writeq(opx_#T#(- 1, 2 + 3)), nl, writeq(f(opx_#T#, pre_#T#)), nl.", g))
	add(q("write_term(f(X, Y, 'a b', [Y], 'it''s', 'hello world'), [quoted(true), variable_names(['Foo' = X])]), nl, write_term('$VAR'(3) + 'X', [numbervars(true), quoted(true)]), nl, write_term(1 + 2, [ignore_ops(true)]), nl."))
	add(q("number_codes(N, [0'4, 0'2]), X is N * 2 + 0.5, number_codes(X, Cs), atom_codes(A, Cs), number_chars(Y, ['1', '.', '5']), number_chars(3.25, Ch), atom_chars(B, Ch), number_codes(Z, [0'0, 0'x, 0'f, 0'f])."))
	for i := 0; i < 2; i++ {
		add(q("catch((read_term(T, []), writeq(T), nl, read_term(U, []), writeq(U), nl), error(E, _), true)."))
	}

	// errors: the text of the returned error is rendered with the package-level default write options
	add(q("atom_length(L, _)."))
	add(sprintfStep("undefined_#T#_g%d(1, X).", g))
	add(ex("foo( ."))
	add(q("X is foo_#T# + 1."))
	add(q(`throw(my_#T#(X, Y, X, "s", 'q a', 1.5, [a|T], - 1, 1 - 2, {a})).`))
	add(q("catch(atom_length(1, _), error(E, _), true)."))
	add(ex(":- undefined_directive_#T#(a, b)."))
	add(q("functor(T, foo_#T#, -1)."))
	add(q("open('nonexistent_#T#.txt', read, S)."))
	add(q("catch(call(1), error(E, _), true), catch(arg(x, f(a), _), error(F, _), true)."))

	// streams: the same alias in every interpreter, private files
	add(sprintfStep("open('o_#T#_g%d.txt', write, S, [alias(al_#T#)]), write(al_#T#, hello(%d)), put_char(al_#T#, '.'), nl(al_#T#), close(S), X = done.", g, g))
	add(sprintfStep("findall(X-As, (open('o_#T#_g%d.txt', read, S, [alias(al_#T#)]), read(al_#T#, X), findall(A, stream_property(S, alias(A)), As), close(al_#T#)), R).", g))
	add(sprintfStep("findall(x, (current_output(Old), open('p_#T#_g%d.txt', write, S), set_output(S), write(to_file(%d)), put_char('.'), nl, set_output(Old), close(S)), R), write(back_on_user_output), nl.", g, g))
	add(sprintfStep("findall(X-Y, (current_input(Old), open('p_#T#_g%d.txt', read, S), set_input(S), read(X), set_input(Old), close(S), read(Y)), R).", g))
	files[fmt.Sprintf("c_g%d.pl", g)] = fmt.Sprintf("consulted_fact(%d).\nconsulted_fact(x).\nconsulted_fact(c(%d)).\n", g, g)
	add(sprintfStep("consult('c_g%d.pl').", g))

	add(proto.ConcStep{Barrier: true})

	// observation: nothing of the above may have come from, or gone to, another interpreter
	add(q("(setof(P-T, current_op(P, T, opx_#T#), L) -> true ; L = [])."))
	add(q("(setof(N, P^T^R^(current_op(P, T, N), atom_concat(own_, R, N)), L) -> true ; L = [])."))
	add(q("(setof(P-T, current_op(P, T, pre_#T#), L) -> true ; L = [])."))
	add(q(`current_prolog_flag(double_quotes, F), X = "ab".`))
	add(q("current_prolog_flag(unknown, F)."))
	add(q("findall(X, cnt_#T#(X), L), findall(Y, shared_fact(Y), M), findall(B, clause(shared_fact(_), B), Bs), findall(Z, consulted_fact(Z), Cf)."))
	add(q("findall(C, current_char_conversion('Q', C), L)."))
	add(q("(setof(A, S^stream_property(S, alias(A)), L) -> true ; L = [])."))
	add(q("findall(A, (current_input(S), stream_property(S, alias(A))), L), findall(B, (current_output(O), stream_property(O, alias(B))), M)."))
	add(qmax(query, 26))
	add(q("X = opx_#T#(opx_#T#(a, b), c), writeq(X), nl, writeq(pre_#T#(1)), nl."))
	add(q("catch((read_term(T, []), writeq(T)), error(E, _), true), nl."))
	add(q("(setof(PI, N^A^(current_predicate(PI), PI = N/A, member(N, [p0, p1, p2, p3, cnt_#T#, shared_fact, consulted_fact])), L) -> true ; L = [])."))

	input := "a opx_#T# b.\npre_#T# x.\nfoo(X, Y, X).\n\"dq text\".\nfrom_user_input(1).\na opx_#T# b opx_#T# c.\nend.\n"
	return proto.ConcScript{Input: input, Steps: st}, files
}

// --- the isolation matrix -------------------------------------------------------------------------------

const c14Preamble = `:- dynamic(iso_p/1).
iso_p(1).
iso_p(2).
iso_s(1).
iso_read(F, R) :- open(F, read, S), catch((read_term(S, T, []), R = ok(T)), error(E, _), R = err(E)), close(S).
`

var c14MatrixFiles = map[string]string{
	"t_op.txt":   "a ===> b.\n",
	"t_plus.txt": "1 + 2 + 3.\n",
	"t_eq.txt":   "x = y.\n",
	"t_dq.txt":   "\"abc\".\n",
	"t_cc.txt":   "abc.\n",
	"m.pl":       "iso_q(c1).\niso_r(c2).\n",
	"r.txt":      "from_file(1).\nfrom_file(2).\nfrom_file(3).\nfrom_file(4).\nfrom_file(5).\nfrom_file(6).\n",
}

const c14MatrixInput = "inp(1).\ninp(2).\ninp(3).\ninp(4).\ninp(5).\ninp(6).\ninp(7).\ninp(8).\n"

type c14Named struct {
	Name  string
	Steps []string
}

// c14Observers is the observer battery: what an interpreter can see of clauses, operators, flags, character
// conversions, streams and current input/output.
var c14Observers = []c14Named{
	{"call iso_p", []string{"findall(X, iso_p(X), L)."}},
	{"clause iso_p", []string{"findall(X-B, clause(iso_p(X), B), L)."}},
	{"call iso_q", []string{"catch(findall(X, iso_q(X), L), error(E, _), true)."}},
	{"call iso_s", []string{"findall(X, iso_s(X), L)."}},
	{"current_predicate", []string{"(setof(PI, N^A^(current_predicate(PI), '='(PI, N/A), member(N, [iso_p, iso_q, iso_r, iso_s])), L) -> true ; '='(L, []))."}},
	{"current_op ===>", []string{"(setof(P-T, current_op(P, T, ===>), L) -> true ; '='(L, []))."}},
	{"current_op +", []string{"(setof(P-T, current_op(P, T, +), L) -> true ; '='(L, []))."}},
	{"current_op =", []string{"(setof(P-T, current_op(P, T, =), L) -> true ; '='(L, []))."}},
	{"writeq ===>", []string{"writeq('===>'(a, b)), nl."}},
	{"writeq +", []string{"writeq('+'('+'(1, 2), 3)), nl, writeq('+'(1, '+'(2, 3))), nl."}},
	{"writeq =", []string{"writeq('='(a, b)), nl."}},
	{"read ===>", []string{"iso_read('t_op.txt', R)."}},
	{"read +", []string{"iso_read('t_plus.txt', R)."}},
	{"read =", []string{"iso_read('t_eq.txt', R)."}},
	{"query text with =", []string{"X = 1."}},
	{"flag double_quotes", []string{"current_prolog_flag(double_quotes, V)."}},
	{"double-quoted literal", []string{`atom_length(abc, N), '='(X, "abc").`}},
	{"read double-quoted", []string{"iso_read('t_dq.txt', R)."}},
	{"flag unknown", []string{"current_prolog_flag(unknown, V)."}},
	{"call undefined", []string{"catch(iso_undefined_zz(1), error(E, _), true)."}},
	{"flag char_conversion", []string{"current_prolog_flag(char_conversion, V)."}},
	{"current_char_conversion", []string{"findall(A-B, (member(A, [a, b, c]), current_char_conversion(A, B)), L)."}},
	{"read under conversion", []string{"iso_read('t_cc.txt', R)."}},
	{"stream aliases", []string{"(setof(A, S^stream_property(S, alias(A)), L) -> true ; '='(L, []))."}},
	{"alias lookup", []string{"findall(x, stream_property(_, alias(iso_alias)), L)."}},
	{"write to alias", []string{"catch(write(iso_alias, hello), error(E, _), true)."}},
	{"current_input", []string{"findall(A, (current_input(S), stream_property(S, alias(A))), L)."}},
	{"current_output", []string{"findall(A, (current_output(S), stream_property(S, alias(A))), L)."}},
	{"write", []string{"write(hello_out), nl."}},
	{"read", []string{"catch(read(X), error(E, _), true)."}},
	{"get_char", []string{"catch(get_char(C), error(E, _), true)."}},
	// the SAME program text loaded by both interpreters: how it is read depends on the loading interpreter's own operator table
	// and double_quotes flag (the text is unique per pass: #T#)
	{"load text using ===>", []string{"!exec iso_u_#T#(a ===> b).\n", "catch(findall(X, iso_u_#T#(X), L), error(E, _), true)."}},
	{"load text with a string", []string{"!exec iso_v_#T#(\"hi\").\n", "catch(findall(X, iso_v_#T#(X), L), error(E, _), true)."}},
	{"operator term as text", []string{"X = '===>'(a, '+'(b, c))."}},
	{"open files", []string{"(setof(M, S^F^(stream_property(S, mode(M)), stream_property(S, file_name(F))), L) -> true ; '='(L, []))."}},
}

// c14Mutators are the state-changing operations; each runs in interpreter I1 only.
var c14Mutators = []c14Named{
	{"assertz", []string{"assertz(iso_p(3)), assertz(iso_q(new))."}},
	{"asserta", []string{"asserta(iso_p(0))."}},
	{"retract", []string{"retract(iso_p(1))."}},
	{"abolish", []string{"abolish(iso_p/1)."}},
	{"consult", []string{"consult('m.pl')."}},
	{"exec text", []string{"!exec iso_q(e1).\niso_s(2).\n:- dynamic(iso_r/2).\n"}},
	{"op define", []string{"op(700, xfx, ===>)."}},
	{"op redefine", []string{"op(200, xfy, +)."}},
	{"op remove", []string{"op(0, xfx, =)."}},
	{"flag double_quotes atom", []string{"set_prolog_flag(double_quotes, atom)."}},
	{"flag double_quotes codes", []string{"set_prolog_flag(double_quotes, codes)."}},
	{"flag unknown fail", []string{"set_prolog_flag(unknown, fail)."}},
	{"flag unknown warning", []string{"set_prolog_flag(unknown, warning)."}},
	{"flag char_conversion on", []string{"set_prolog_flag(char_conversion, on)."}},
	{"flag char_conversion off", []string{"set_prolog_flag(char_conversion, off)."}},
	{"char_conversion", []string{"char_conversion(a, b)."}},
	{"char_conversion + flag", []string{"set_prolog_flag(char_conversion, on), char_conversion(a, b), char_conversion(c, a)."}},
	{"open alias", []string{"open('w1_#T#.txt', write, _, [alias(iso_alias)])."}},
	{"open+close alias", []string{"open('w2_#T#.txt', write, S, [alias(iso_alias)]), close(S)."}},
	{"set_input", []string{"open('r.txt', read, S), set_input(S)."}},
	{"set_output", []string{"open('w3_#T#.txt', write, S), set_output(S)."}},
	// a stream that is closed while it is the current input stays reachable: reading it again must not touch anything that
	// belongs to another interpreter (buffers handed back on close)
	{"set_input, read, close", []string{"open('r.txt', read, S), set_input(S), get_char(_), close(S)."}},
	{"open, read, close, read again", []string{"open('r.txt', read, S), get_char(S, _), close(S), catch(get_char(S, _), _, true), catch(peek_char(S, _), _, true)."}},
}

func c14Steps(ss []string) []proto.ConcStep {
	var out []proto.ConcStep
	for _, s := range ss {
		if strings.HasPrefix(s, "!exec ") {
			out = append(out, ex(strings.TrimPrefix(s, "!exec ")))
		} else {
			out = append(out, q(s))
		}
	}
	return out
}

// c14MatrixLayout tells the oracle where the battery copies sit in the two scripts.
type c14MatrixLayout struct {
	Mutator    string   `json:"mutator"`
	MutSteps   []int    `json:"mut_steps"`  // indices in script 0
	I1Start    []int    `json:"i1_battery"` // first index of each battery copy in script 0 (after the mutation)
	I2Start    []int    `json:"i2_battery"` // ... in script 1
	ObsIndex   []int    `json:"obs_index"`  // offset of each observer inside a battery copy
	ObsNames   []string `json:"obs_names"`
	BatteryLen int      `json:"battery_len"`
}

// c14MatrixScripts: script 0 = I1 (mutate, rendezvous, observe itself, mutate again, observe), script 1 = I2
// (observe, rendezvous, observe, observe). In the sequential passes the rendezvous is a no-op and I1 runs to
// completion before I2 starts.
func c14MatrixScripts(mut c14Named) ([]proto.ConcScript, c14MatrixLayout) {
	return c14MatrixScriptsOf(mut, c14Observers, false)
}

// c14StdObservers look at the standard streams themselves; c14StdMutators use them. Run once with interpreters that
// own a reader and a writer and once with interpreters created by prolog.New(nil, nil) (no reader, no writer: the
// operations that touch the missing reader or writer end in an error, alone and concurrently alike).
var c14StdObservers = []c14Named{
	{"user_output position", []string{"findall(P, (stream_property(S, alias(user_output)), stream_property(S, position(P))), L)."}},
	{"user_input position", []string{"findall(P, (stream_property(S, alias(user_input)), stream_property(S, position(P))), L)."}},
	{"user_input end_of_stream", []string{"findall(E, (stream_property(S, alias(user_input)), stream_property(S, end_of_stream(E))), L)."}},
	{"standard aliases", []string{"(setof(A, S^stream_property(S, alias(A)), L) -> true ; '='(L, []))."}},
	{"current_output", []string{"findall(A, (current_output(S), stream_property(S, alias(A))), L)."}},
	{"current_input", []string{"findall(A, (current_input(S), stream_property(S, alias(A))), L)."}},
	{"write", []string{"write(hello_std), nl."}},
	{"peek_char", []string{"catch(peek_char(C), error(E, _), true)."}},
}

var c14StdMutators = []c14Named{
	{"write user_output", []string{"write(some_text_of_i1), nl."}},
	{"get_char user_input", []string{"get_char(C)."}},
	{"read to the end of user_input", []string{"findall(C, (between(1, 120, _), get_char(C)), L)."}},
	{"close user_output", []string{"close(user_output)."}},
	{"close user_input", []string{"close(user_input)."}},
}

func c14MatrixScriptsOf(mut c14Named, observers []c14Named, nilIO bool) ([]proto.ConcScript, c14MatrixLayout) {
	lay := c14MatrixLayout{Mutator: mut.Name}
	var battery []proto.ConcStep
	for _, o := range observers {
		lay.ObsIndex = append(lay.ObsIndex, len(battery))
		lay.ObsNames = append(lay.ObsNames, o.Name)
		battery = append(battery, c14Steps(o.Steps)...)
	}
	lay.BatteryLen = len(battery)
	ms := c14Steps(mut.Steps)
	s0 := []proto.ConcStep{ex(c14Preamble)}
	for i := range ms {
		lay.MutSteps = append(lay.MutSteps, len(s0)+i)
	}
	s0 = append(s0, ms...)
	s0 = append(s0, proto.ConcStep{Barrier: true})
	lay.I1Start = append(lay.I1Start, len(s0))
	s0 = append(s0, battery...)
	s0 = append(s0, ms...)
	lay.I1Start = append(lay.I1Start, len(s0))
	s0 = append(s0, battery...)

	s1 := []proto.ConcStep{ex(c14Preamble)}
	lay.I2Start = append(lay.I2Start, len(s1))
	s1 = append(s1, battery...)
	s1 = append(s1, proto.ConcStep{Barrier: true})
	for k := 0; k < 2; k++ {
		lay.I2Start = append(lay.I2Start, len(s1))
		s1 = append(s1, battery...)
	}
	return []proto.ConcScript{{Input: c14MatrixInput, NilIO: nilIO, Steps: s0}, {Input: c14MatrixInput, NilIO: nilIO, Steps: s1}}, lay
}
