package main

import (
	"encoding/json"
	"fmt"
	"sort"
	"strings"
	"sync"

	"verif/internal/proto"
	"verif/internal/ref"
	"verif/internal/run"
	"verif/internal/term"
)

// DiffMeta is a program + query to be run on both the engine and the reference engine.
type DiffMeta struct {
	Program []*term.Term `json:"program"` // clauses and `:- dynamic(..)` directives, variables numbered per clause
	Query   *term.Term   `json:"query"`   // variables 0..NVars-1
	NVars   int          `json:"nvars"`
	Max     int          `json:"max"`              // answers to pull
	Assert  bool         `json:"assert,omitempty"` // load the program with assertz/1 instead of Exec
	// AssertA: load it with asserta/1, last clause first (the database ends up in program order)
	AssertA bool    `json:"asserta,omitempty"`
	Family  string  `json:"family,omitempty"`
	QVars   []int64 `json:"qvars"` // the variables that are compared (default: all 0..NVars-1)
	// Unordered: answers are compared as a multiset (used where the property leaves the order of
	// solutions open, e.g. the order of bagof/setof groups); only for runs the reference completed.
	Unordered bool        `json:"unordered,omitempty"`
	Flags     [][2]string `json:"flags,omitempty"`
	// SetupOverride: the Exec texts that build the database instead of Program's text (Program is what the reference
	// runs: the database those texts are expected to leave behind)
	SetupOverride []string `json:"setup_override,omitempty"`
}

// qvars returns the ids of the compared query variables.
func (d *DiffMeta) qvars() []int64 {
	if d.QVars != nil {
		return d.QVars
	}
	out := make([]int64, d.NVars)
	for i := range out {
		out[i] = int64(i)
	}
	return out
}

// parseQuery builds a DiffMeta query from text; anonymous variables are not compared.
func parseQuery(q string) (*term.Term, int, []int64) {
	t, names, err := term.ParseTerm(q)
	if err != nil {
		panic(q + ": " + err.Error())
	}
	qv := []int64{}
	for i, n := range names {
		if n != "_" {
			qv = append(qv, int64(i))
		}
	}
	return t, len(names), qv
}

func qvar(id int64) string { return fmt.Sprintf("V%d", id) }
func cvar(id int64) string { return fmt.Sprintf("_G%d", id) }

func programText(cl []*term.Term) string {
	var sb strings.Builder
	for _, c := range cl {
		sb.WriteString(term.Text(c, cvar))
		sb.WriteString(".\n")
	}
	return sb.String()
}

func (d *DiffMeta) item() *Item {
	c := &proto.Case{Kind: "prolog", Flags: d.Flags}
	if d.AssertA {
		for _, cl := range d.Program {
			if cl.IsCmp(":-", 1) {
				c.Setup = append(c.Setup, term.Text(cl, cvar)+".")
			}
		}
		for i := len(d.Program) - 1; i >= 0; i-- {
			if cl := d.Program[i]; !cl.IsCmp(":-", 1) {
				c.Setup = append(c.Setup, ":- asserta("+term.Text(cl, cvar)+").")
			}
		}
	} else if d.Assert {
		for _, cl := range d.Program {
			if cl.IsCmp("-->", 2) {
				// grammar rules take the expand_term/2 path and are then asserted
				// head and body reach expand_term/2 through variables bound at run time
				c.Setup = append(c.Setup, ":- XH = "+term.Text(cl.Args[0], cvar)+", XB = "+term.Text(cl.Args[1], cvar)+", expand_term('-->'(XH, XB), C), assertz(C).")
				continue
			}
			if cl.IsCmp(":-", 1) {
				c.Setup = append(c.Setup, term.Text(cl, cvar)+".")
			} else {
				c.Setup = append(c.Setup, ":- assertz("+term.Text(cl, cvar)+").")
			}
		}
	} else {
		c.Setup = []string{programText(d.Program)}
	}
	if len(d.SetupOverride) > 0 {
		c.Setup = d.SetupOverride
	}
	max := d.Max
	if max <= 0 {
		max = 30
	}
	c.Steps = []proto.Step{{Query: term.Text(d.Query, qvar) + ".", Max: max + 1}}
	meta, _ := json.Marshal(d)
	return &Item{Cases: []*proto.Case{c}, Meta: meta}
}

var selfTestOnce sync.Once
var selfTestErr error

func refSelfTest() error {
	selfTestOnce.Do(func() { selfTestErr = ref.SelfTest() })
	return selfTestErr
}

// refRun executes the meta on the reference engine.
func (d *DiffMeta) refRun(budget int64, opt ref.Options) (*ref.Outcome, error) {
	db := ref.NewDB()
	if err := ref.LoadProgram(db, append(term.MustProgram(ref.Prelude), d.Program...)); err != nil {
		return nil, err
	}
	var vars []*term.Term
	for _, id := range d.qvars() {
		vars = append(vars, term.V(id))
	}
	max := d.Max
	if max <= 0 {
		max = 30
	}
	// fresh variables of the reference run are numbered above every variable of the query
	firstFree := int64(d.NVars)
	for _, id := range term.VarsOf(d.Query) {
		if id >= firstFree {
			firstFree = id + 1
		}
	}
	return ref.Run(db, d.Query, vars, firstFree+1000, max+1, budget, opt), nil
}

// canonAnswer renders one answer (tuple of the query variables + nothing else) canonically.
func canonTuple(ts []*term.Term) string {
	norm := make([]*term.Term, len(ts))
	for i, t := range ts {
		norm[i] = dropErrorContext(t)
	}
	c := term.Canon(norm...)
	var sb strings.Builder
	for i, t := range c {
		if i > 0 {
			sb.WriteByte(' ')
		}
		sb.WriteString(t.String())
	}
	return sb.String()
}

// dropErrorContext replaces the second argument of every error/2 term by a constant: the Context of an
// error term is implementation defined (ISO 7.12.1) and must not be compared.
func dropErrorContext(t *term.Term) *term.Term {
	if t.K != term.KCmp {
		return t
	}
	if t.IsCmp("error", 2) {
		return term.C("error", dropErrorContext(t.Args[0]), term.A("$context"))
	}
	var args []*term.Term
	for i, a := range t.Args {
		b := dropErrorContext(a)
		if b != a && args == nil {
			args = make([]*term.Term, len(t.Args))
			copy(args, t.Args[:i])
		}
		if args != nil {
			args[i] = b
		}
	}
	if args == nil {
		return t
	}
	return &term.Term{K: term.KCmp, S: t.S, Args: args}
}

func engineAnswer(a map[string]*term.Term, ids []int64) ([]*term.Term, bool) {
	out := make([]*term.Term, len(ids))
	for i, id := range ids {
		t, ok := a[qvar(id)]
		if !ok {
			return nil, false
		}
		out[i] = t
	}
	return out, true
}

// formalOf extracts what is compared of an error: Formal for error(Formal, _), else the ball itself.
func formalOf(ball *term.Term) *term.Term {
	if ball.IsCmp("error", 2) {
		return term.C("error", ball.Args[0])
	}
	return ball
}

// diffResult is the comparison of one engine step with the reference outcome.
type diffResult struct {
	Status   Status
	Msg      string
	Expected interface{}
	Observed interface{}
	Prefix   bool // only a prefix could be compared (reference out of budget / more answers than pulled)
}

// compareRun applies the answer-sequence oracle (C01 and friends): same answers in the same order, same
// events in the same order, same termination (exhausted / error with the same formal).
func compareRun(d *DiffMeta, o *ref.Outcome, out *run.Outcome, compareEvents bool) diffResult {
	return compareRunStep(d, o, out, 0, compareEvents)
}

// compareRunStep is compareRun for step number step of the case.
func compareRunStep(d *DiffMeta, o *ref.Outcome, out *run.Outcome, step int, compareEvents bool) diffResult {
	if o.M.Unsupported != "" {
		return diffResult{Status: Inconclusive, Msg: "reference: " + o.M.Unsupported}
	}
	if out.Crash != nil {
		if out.Crash.Hung {
			return diffResult{Status: Inconclusive, Msg: "watchdog fired (wall clock) — no logical evidence"}
		}
		return diffResult{Status: Violated, Msg: "worker process died: " + out.Crash.Exit + "\n" + firstLines(out.Crash.Stderr, 12)}
	}
	res := out.Res
	if res.Fatal != "" {
		return diffResult{Status: Inconclusive, Msg: "worker: " + res.Fatal}
	}
	for i, e := range res.Setup {
		if e != nil {
			return diffResult{Status: Violated, Msg: fmt.Sprintf("loading the program failed (setup %d): %s", i, e.Text)}
		}
	}
	if step >= len(res.Steps) {
		return diffResult{Status: Inconclusive, Msg: "worker result lacks the step"}
	}
	st := res.Steps[step]
	max := d.Max
	if max <= 0 {
		max = 30
	}
	// expected
	var exp []string
	for _, a := range o.Answers {
		exp = append(exp, canonTuple(a))
	}
	var got []string
	for _, a := range st.Answers {
		t, ok := engineAnswer(a, d.qvars())
		if !ok {
			return diffResult{Status: Inconclusive, Msg: "answer lacks a query variable"}
		}
		got = append(got, canonTuple(t))
	}
	expEnd, gotEnd := "more", "more"
	switch {
	case o.Err != nil:
		expEnd = "error " + canonTuple([]*term.Term{formalOf(o.Err)})
	case o.OutOfBudget:
		expEnd = "unknown (reference out of budget)"
	case o.Exhausted:
		expEnd = "no more answers"
	}
	switch {
	case st.BudgetHit:
		gotEnd = "step budget exhausted"
	case st.Err != nil && st.Err.Exception != nil:
		gotEnd = "error " + canonTuple([]*term.Term{formalOf(st.Err.Exception)})
	case st.Err != nil:
		gotEnd = "go error " + st.Err.Text
	case st.Exhausted:
		gotEnd = "no more answers"
	}
	r := diffResult{Expected: map[string]interface{}{"answers": exp, "end": expEnd}, Observed: map[string]interface{}{"answers": got, "end": gotEnd}}
	// events
	var expEv, gotEv []string
	if compareEvents {
		for i, evs := range o.Events {
			for _, e := range evs {
				expEv = append(expEv, canonTuple([]*term.Term{e}))
			}
			if i < len(o.Answers) {
				expEv = append(expEv, "$answer")
			}
		}
		for _, e := range st.Events {
			if e.Tag == "$answer" {
				gotEv = append(gotEv, "$answer")
			} else if e.T != nil {
				gotEv = append(gotEv, canonTuple([]*term.Term{e.T}))
			}
		}
		r.Expected.(map[string]interface{})["events"] = expEv
		r.Observed.(map[string]interface{})["events"] = gotEv
	}
	n := len(exp)
	if d.Unordered {
		if o.OutOfBudget || len(exp) > max {
			r.Status, r.Msg = Inconclusive, "unordered comparison needs a complete reference run"
			return r
		}
		sort.Strings(exp)
		sort.Strings(got)
	}
	prefix := o.OutOfBudget
	if prefix {
		// compare only the answers (and events) the reference produced before running out of budget
		r.Prefix = true
		if len(got) < n && !st.BudgetHit {
			r.Status, r.Msg = Violated, fmt.Sprintf("engine delivered %d answers (%s) where the reference had already found %d", len(got), gotEnd, n)
			return r
		}
		if len(got) < n {
			r.Status, r.Msg = Inconclusive, "both sides out of budget"
			return r
		}
		for i := 0; i < n; i++ {
			if exp[i] != got[i] {
				r.Status, r.Msg = Violated, fmt.Sprintf("answer %d differs: expected %s, observed %s", i+1, exp[i], got[i])
				return r
			}
		}
		r.Status = Held
		return r
	}
	for i := 0; i < n && i < len(got); i++ {
		if exp[i] != got[i] {
			r.Status, r.Msg = Violated, fmt.Sprintf("answer %d differs: expected %s, observed %s", i+1, exp[i], got[i])
			return r
		}
	}
	if len(got) != n {
		if st.BudgetHit && len(got) < n {
			r.Status, r.Msg = Violated, fmt.Sprintf("engine ran out of its step budget (%d steps) after %d answers; the reference finished with %d answers in %d steps", st.Steps, len(got), n, o.M.Steps)
			if !res.Hooks {
				r.Status = Inconclusive
			}
			return r
		}
		r.Status, r.Msg = Violated, fmt.Sprintf("expected %d answers then %q, observed %d answers then %q", n, expEnd, len(got), gotEnd)
		return r
	}
	if expEnd != gotEnd {
		if st.BudgetHit {
			r.Status, r.Msg = Violated, fmt.Sprintf("engine did not terminate within %d steps after %d answers; the reference ended with %q after %d steps", st.Steps, len(got), expEnd, o.M.Steps)
			if !res.Hooks {
				r.Status = Inconclusive
			}
			return r
		}
		r.Status, r.Msg = Violated, fmt.Sprintf("after %d answers expected %q, observed %q", n, expEnd, gotEnd)
		return r
	}
	if compareEvents {
		if strings.Join(expEv, "\n") != strings.Join(gotEv, "\n") {
			r.Status, r.Msg = Violated, fmt.Sprintf("event logs differ: expected %v, observed %v", expEv, gotEv)
			return r
		}
	}
	r.Status = Held
	return r
}

func firstLines(s string, n int) string {
	lines := strings.SplitN(s, "\n", n+1)
	if len(lines) > n {
		lines = lines[:n]
	}
	return strings.Join(lines, "\n")
}

func decodeMeta(it *Item, v interface{}) error { return json.Unmarshal(it.Meta, v) }
