package main

import (
	"encoding/json"
	"fmt"
	"math/rand"
	"runtime"
	"strings"
	"sync"
	"sync/atomic"

	"verif/internal/proto"
	"verif/internal/run"
	"verif/internal/term"
)

// C20 — loading program text: a loaded text defines exactly its clauses in source order (replace / multifile
// append, dynamic, discontiguous), directives run at their position, initialization goals after the load;
// a failed load defines nothing and leaves every earlier definition as it was.
//
// One item = one interpreter: 0-2 earlier successful loads, then EVERY single-fault variant of one text
// (one fault of each kind at every position), then the text itself. After every load the whole vocabulary
// is observed through queries (solutions in order, clause/2 listing) and, when the hooks are compiled in,
// through a structural dump (procedures, flags, stored clauses). The oracle is c20_model.go.

func init() { checks["C20"] = func() Check { return &c20{} } }

type c20 struct{}

func (*c20) ID() string { return "C20" }

// Tune: the worker allocates many short-lived terms per load; a larger GC target saves a fifth of its time.
func (*c20) Tune(cx *Ctx)  { cx.Pool.ExtraEnv = append(cx.Pool.ExtraEnv, "GOGC=400") }
func (*c20) Level() string { return "fault_enumeration" }
func (*c20) Rule() string {
	return "generated texts over a per-case vocabulary of 3-6 predicates (arity 0-2, names shared across arities): 2-5 predicates per text, 0-4 clauses each (facts with case-unique constants, non-ground facts, rules calling later predicates), contiguous or interleaved (with discontiguous/1), dynamic/1 and multifile/1 declarations (single PI, comma list, list; clause-less dynamic), output directives, :- true, initialization goals (plain output and enumerations of a predicate of the text), optional :- include(File) of a segment, random layout (comments, several clauses per line). Each item loads 0-2 such texts, then every single-fault variant of a further text — at EVERY entry position one syntax error, one non-callable clause, one failing directive, one throwing directive, one clause that makes a predicate discontiguous (where one exists), plus 'missing final full stop' and 'discontiguous declaration removed' — then the text itself; each load goes through Exec, consult/1, [File] or :- ensure_loaded(File). A second family re-loads the same file (after a failed load: must load; after a successful one: not asserted). After every load: one query enumerating all vocabulary predicates (findall + clause/2) and a structural dump through the hooks; both are compared with the sequential loader model, and after a failed load with the observation before it. Non-trivial: the item contains a fault injected after >=1 valid clause of a predicate that already had a definition from an earlier load; distinct by item hash."
}
func (*c20) Assumptions() []string {
	return []string{
		"fault snippets are syntax errors / non-callable clauses under ISO 6 and 7.4 (each syntax snippet is also rejected by the controller's own reader; checked at generation time)",
		"multifile: clauses are appended when the existing definition and the loaded text both declare the predicate multifile (ISO 7.4.2.2); when exactly one side declares it, replacing and appending are both accepted",
		"a failing or throwing directive must either fail the load atomically or be ignored; a failing initialization goal and re-consulting an already loaded file are observed but not asserted",
		"directives between two clauses of the same predicate are not generated in valid texts (whether they separate the clauses is left open); what directives can see of their own text is not asserted, only the order of their output",
		"output of a failed load is not asserted",
	}
}

// ---------------------------------------------------------------------------------------------------
// Meta

type c20Text struct {
	Entries []c20Entry `json:"e"`
}

type c20Fault struct {
	Kind     string    `json:"kind"` // syntax | noncallable | discontiguity | dirfail | dirthrow | initfail
	Pos      int       `json:"pos"`  // Entry is inserted before entry Pos of the text
	Entry    *c20Entry `json:"entry,omitempty"`
	NoStop   bool      `json:"nostop,omitempty"`   // syntax: the final full stop of the text is missing
	DropDisc bool      `json:"dropdisc,omitempty"` // discontiguity: the discontiguous declarations are removed
}

type c20Load struct {
	Text  int       `json:"text"`
	Fault *c20Fault `json:"fault,omitempty"`
	Mode  string    `json:"mode"` // exec | consult | list | ensure
	File  string    `json:"file,omitempty"`
	Inc   string    `json:"inc,omitempty"` // the entries marked Inc live in this file, pulled in by :- include
	Seed  int64     `json:"seed"`          // layout
}

type c20Meta struct {
	Family string    `json:"family"`
	Vocab  []c20Pred `json:"vocab"`
	Texts  []c20Text `json:"texts"`
	Loads  []c20Load `json:"loads"`
	Gate   int       `json:"gate,omitempty"` // index of the gate predicate (reload family), 0 = none
}

// entries returns the entry list of a load (the text with the fault applied).
func (m *c20Meta) entries(l *c20Load) ([]c20Entry, bool) {
	base := m.Texts[l.Text].Entries
	f := l.Fault
	if f == nil {
		return base, false
	}
	if f.DropDisc {
		var out []c20Entry
		for _, e := range base {
			if e.K == "decl" && e.Decl == "discontiguous" {
				continue
			}
			out = append(out, e)
		}
		return out, false
	}
	if f.Entry == nil {
		return base, f.NoStop
	}
	out := make([]c20Entry, 0, len(base)+1)
	out = append(out, base[:f.Pos]...)
	e := *f.Entry
	e.Inc = f.Pos > 0 && f.Pos < len(base) && base[f.Pos-1].Inc && base[f.Pos].Inc
	out = append(out, e)
	out = append(out, base[f.Pos:]...)
	return out, f.NoStop
}

// ---------------------------------------------------------------------------------------------------
// Rendering

var c20Seps = []string{"\n", "\n", "\n", "\n", "\n", "\n\n", " ", "\n% a comment: zz(1). :- fail.\n", " /* block comment zz(2). */ ", "\n\t", "  % trailing comment\n"}

// render produces the main text and the files of a load.
func (m *c20Meta) render(l *c20Load) (main string, files map[string]string) {
	entries, noStop := m.entries(l)
	r := rand.New(rand.NewSource(l.Seed))
	var mainSB, incSB strings.Builder
	incDone := false
	lastEnd := 0 // offset just behind the full stop of the last read-term of the main text
	for i := range entries {
		e := &entries[i]
		sb := &mainSB
		if l.Inc != "" && e.Inc {
			if !incDone {
				mainSB.WriteString(":- include(" + l.Inc + ").")
				lastEnd = mainSB.Len()
				mainSB.WriteString("\n")
				incDone = true
			}
			sb = &incSB
		}
		sb.WriteString(e.source(m.Vocab))
		if sb == &mainSB {
			lastEnd = mainSB.Len()
		}
		sb.WriteString(c20Seps[r.Intn(len(c20Seps))])
	}
	main = strings.TrimRight(mainSB.String(), " \t\n") + "\n"
	if noStop {
		// cut the text just before the full stop that ends its last read-term
		main = main[:lastEnd-1]
	}
	files = map[string]string{}
	if incDone {
		files[l.Inc+".pl"] = incSB.String()
	}
	if l.Mode != "exec" {
		files[l.File+".pl"] = main
	}
	return main, files
}

// step is the API call that performs the load.
func (m *c20Meta) step(l *c20Load, main string) proto.Step {
	switch l.Mode {
	case "consult":
		if l.Seed%2 == 0 {
			return proto.Step{Query: "consult('" + l.File + ".pl').", Max: 2}
		}
		return proto.Step{Query: "consult(" + l.File + ").", Max: 2}
	case "list":
		return proto.Step{Query: "[" + l.File + "].", Max: 2}
	case "ensure":
		return proto.Step{Exec: ":- ensure_loaded(" + l.File + ").\n"}
	}
	return proto.Step{Exec: main}
}

// ---------------------------------------------------------------------------------------------------
// Generation

var c20Names = []string{"foo", "bar", "baz", "qux", "item", "edge", "node", "p", "q", "r", "color", "link"}

var c20Syntax = []string{
	"NAME(a.", "NAME(a b).", "NAME(,).", "NAME(a) :- .", "NAME(a)) .", "NAME([a).", "} .", "NAME(a) }", "NAME('abc).",
	"NAME(a) NAME(b).", "NAME(.", "NAME(a)) :- b.", "NAME(a)(b).", "NAME(V0, ).", "NAME[a].", "NAME(a) :- b c.", "NAME(a, b",
}

var c20NonCallable = []string{
	"42.", "3.14.", "NAME :- 42.", "NAME(a) :- 7.", "NAME :- (NAME(a), 42).", "NAME :- (NAME(b) ; 42).", "42 :- NAME.", "V0.", "V0 :- NAME(a).",
}

var c20DirFail = []string{":- fail.", ":- 1 = 2.", ":- \\+ true.", ":- atom(1)."}
var c20DirThrow = []string{":- throw(oops).", ":- atom_length(1, _).", ":- zz_undefined_procedure.", ":- V0.", ":- 42.", ":- throw(error(type_error(atom, 1), ctx))."}
var c20InitFail = []string{":- initialization(fail).", ":- initialization(throw(oops)).", ":- initialization(atom_length(1, _))."}

type c20Gen struct {
	r     *rand.Rand
	vocab []c20Pred
	konst int
	outs  int
	gate  int  // index of the gate predicate, -1 = none
	plain bool // ground facts only, no enumerating initialization goals (last resort of the generator)
}

func (g *c20Gen) makeVocab(withGate bool) {
	k := 3 + g.r.Intn(4)
	seen := map[string]bool{}
	for len(g.vocab) < k {
		name := c20Names[g.r.Intn(len(c20Names))]
		if len(g.vocab) > 0 && g.r.Intn(4) == 0 {
			name = g.vocab[g.r.Intn(len(g.vocab))].Name // same name, another arity
		}
		ar := 1
		switch x := g.r.Intn(100); {
		case x < 8:
			ar = 0
		case x < 65:
			ar = 1
		default:
			ar = 2
		}
		p := c20Pred{Name: name, Arity: ar}
		if seen[p.pi()] {
			continue
		}
		seen[p.pi()] = true
		g.vocab = append(g.vocab, p)
	}
	if g.r.Intn(2) == 0 {
		p := &g.vocab[g.r.Intn(len(g.vocab))]
		p.MF, p.Dyn = true, g.r.Intn(100) < 30
	}
	g.gate = -1
	if withGate {
		g.vocab = append(g.vocab, c20Pred{Name: "gate", Arity: 0})
		g.gate = len(g.vocab) - 1
	}
}

// npreds is the number of ordinary predicates (the gate is never part of a generated text).
func (g *c20Gen) npreds() int {
	if g.gate >= 0 {
		return len(g.vocab) - 1
	}
	return len(g.vocab)
}

func (g *c20Gen) constant() *term.Term {
	g.konst++
	k := g.konst
	switch x := g.r.Intn(100); {
	case x < 62:
		return term.A(fmt.Sprintf("a%d", k))
	case x < 84:
		return term.I(int64(k))
	case x < 92:
		return term.C("f", term.A(fmt.Sprintf("a%d", k)))
	default:
		return term.L(term.A(fmt.Sprintf("a%d", k)), term.A("b"))
	}
}

func (g *c20Gen) fact(p int) *c20Clause {
	ar := g.vocab[p].Arity
	if ar == 0 {
		return &c20Clause{Head: term.A(g.vocab[p].Name)}
	}
	args := make([]*term.Term, ar)
	for i := range args {
		args[i] = g.constant()
	}
	if g.r.Intn(100) < 7 && !g.plain {
		// a non-ground fact: p(V0), p(a, V0), p(V0, V0)
		args[g.r.Intn(ar)] = term.V(0)
		if ar == 2 && g.r.Intn(3) == 0 {
			args[0], args[1] = term.V(0), term.V(0)
		}
	}
	return &c20Clause{Head: term.C(g.vocab[p].Name, args...)}
}

func (g *c20Gen) rule(p int) *c20Clause {
	ar := g.vocab[p].Arity
	args := make([]*term.Term, ar)
	for i := range args {
		args[i] = term.V(int64(i))
	}
	if ar > 0 && g.r.Intn(5) == 0 {
		args[g.r.Intn(ar)] = g.constant()
	}
	cl := &c20Clause{Head: term.C(g.vocab[p].Name, args...)}
	anon := int64(100)
	n := 1 + g.r.Intn(2)
	for i := 0; i < n; i++ {
		q := p + 1 + g.r.Intn(g.npreds()-p-1)
		qa := make([]*term.Term, g.vocab[q].Arity)
		for k := range qa {
			switch {
			case ar > 0 && g.r.Intn(10) < 7:
				qa[k] = term.V(int64(g.r.Intn(ar)))
			default:
				qa[k] = term.V(anon)
				anon++
			}
		}
		cl.Body = append(cl.Body, term.C(g.vocab[q].Name, qa...))
	}
	if g.r.Intn(12) == 0 {
		cl.Body = append(cl.Body, term.A("true"))
	}
	return cl
}

func (g *c20Gen) out(prefix string) string {
	g.outs++
	s := fmt.Sprintf("%s%d", prefix, g.outs)
	if g.r.Intn(3) == 0 {
		s += "\n"
	}
	return s
}

// text generates one valid text. rules=false leaves out rules (used when a case would enumerate too much).
func (g *c20Gen) text(rules bool) c20Text {
	np := g.npreds()
	m := 2 + g.r.Intn(4)
	if m > np {
		m = np
	}
	preds := g.r.Perm(np)[:m]
	type pdef struct {
		p             int
		cls           []*c20Clause
		dyn, mf, disc bool
	}
	defs := make([]*pdef, m)
	for i, p := range preds {
		d := &pdef{p: p}
		nc := 0
		switch x := g.r.Intn(100); {
		case x < 8:
			nc = 0
		case x < 32:
			nc = 1
		case x < 62:
			nc = 2
		case x < 87:
			nc = 3
		default:
			nc = 4
		}
		for k := 0; k < nc; k++ {
			if rules && p < np-1 && g.r.Intn(100) < 22 {
				d.cls = append(d.cls, g.rule(p))
			} else {
				d.cls = append(d.cls, g.fact(p))
			}
		}
		d.dyn = nc == 0 || g.r.Intn(100) < 20
		if g.vocab[p].MF {
			// the texts that contribute to a multifile predicate agree about dynamic/1 (ISO 7.4.2.1)
			d.mf = g.r.Intn(100) < 92
			d.dyn = g.vocab[p].Dyn
			if nc == 0 && !d.dyn {
				d.cls = append(d.cls, g.fact(p))
			}
		} else {
			d.mf = g.r.Intn(100) < 2
		}
		defs[i] = d
	}
	// clause sequence: contiguous runs or a random merge
	var seq []c20Entry
	if g.r.Intn(100) < 55 {
		for _, d := range defs {
			for _, c := range d.cls {
				seq = append(seq, c20Entry{K: "clause", P: d.p, Cl: c})
			}
		}
	} else {
		left := make([]int, m)
		total := 0
		for i, d := range defs {
			left[i] = len(d.cls)
			total += left[i]
		}
		for total > 0 {
			x := g.r.Intn(total)
			for i := range left {
				if x < left[i] {
					d := defs[i]
					seq = append(seq, c20Entry{K: "clause", P: d.p, Cl: d.cls[len(d.cls)-left[i]]})
					left[i]--
					total--
					break
				}
				x -= left[i]
			}
		}
	}
	// which predicates are separated by clauses of others
	first := map[int]int{}
	sep := map[int]bool{}
	last := -1
	for i, e := range seq {
		if _, ok := first[e.P]; !ok {
			first[e.P] = i
		} else if e.P != last {
			sep[e.P] = true
		}
		last = e.P
	}
	for _, d := range defs {
		d.disc = sep[d.p] || g.r.Intn(100) < 8
		if _, ok := first[d.p]; !ok {
			first[d.p] = len(seq)
		}
	}
	// boundaries of the clause sequence: where directives may stand
	n := len(seq)
	var bounds []int
	for j := 0; j <= n; j++ {
		if j == 0 || j == n || seq[j-1].P != seq[j].P {
			bounds = append(bounds, j)
		}
	}
	boundAtMost := func(max int) int {
		if g.r.Intn(100) < 55 {
			return 0
		}
		var ok []int
		for _, b := range bounds {
			if b <= max {
				ok = append(ok, b)
			}
		}
		return ok[g.r.Intn(len(ok))]
	}
	ins := make([][]c20Entry, n+1)
	// declarations, grouped 1-3 predicates per directive
	for _, kind := range []string{"discontiguous", "dynamic", "multifile"} {
		var ps []int
		for _, d := range defs {
			if (kind == "dynamic" && d.dyn) || (kind == "multifile" && d.mf) || (kind == "discontiguous" && d.disc) {
				ps = append(ps, d.p)
			}
		}
		g.r.Shuffle(len(ps), func(i, j int) { ps[i], ps[j] = ps[j], ps[i] })
		for len(ps) > 0 {
			k := 1 + g.r.Intn(3)
			if k > len(ps) {
				k = len(ps)
			}
			grp := ps[:k]
			ps = ps[k:]
			form := "single"
			if k > 1 {
				form = []string{"comma", "list"}[g.r.Intn(2)]
			} else if g.r.Intn(6) == 0 {
				form = "list"
			}
			max := n
			for _, p := range grp {
				if first[p] < max {
					max = first[p]
				}
			}
			pos := boundAtMost(max)
			ins[pos] = append(ins[pos], c20Entry{K: "decl", Decl: kind, PIs: append([]int(nil), grp...), Form: form})
		}
	}
	anyBound := func() int { return bounds[g.r.Intn(len(bounds))] }
	for k := g.r.Intn(4); k > 0; k-- {
		pos := anyBound()
		ins[pos] = append(ins[pos], c20Entry{K: "out", Out: g.out("d")})
	}
	if g.r.Intn(4) == 0 {
		pos := anyBound()
		ins[pos] = append(ins[pos], c20Entry{K: "true"})
	}
	for k := g.r.Intn(3); k > 0; k-- {
		pos := anyBound()
		if g.r.Intn(2) == 0 || g.plain {
			ins[pos] = append(ins[pos], c20Entry{K: "init", Out: g.out("i")})
		} else {
			ins[pos] = append(ins[pos], c20Entry{K: "initdump", P: g.r.Intn(np)})
		}
	}
	var out []c20Entry
	for j := 0; j <= n; j++ {
		out = append(out, ins[j]...)
		if j < n {
			out = append(out, seq[j])
		}
	}
	// a segment that may be moved into an included file: between two boundaries of the final list
	fb := c20Boundaries(out)
	if len(fb) >= 2 && len(out) > 0 {
		a := g.r.Intn(len(fb) - 1)
		b := a + 1 + g.r.Intn(len(fb)-1-a)
		for i := fb[a]; i < fb[b]; i++ {
			out[i].Inc = true
		}
	}
	return c20Text{Entries: out}
}

// c20Boundaries: positions j (0..len) of an entry list where the nearest clause before and the nearest
// clause after belong to different predicates (or one of them does not exist).
func c20Boundaries(es []c20Entry) []int {
	var out []int
	for j := 0; j <= len(es); j++ {
		before, after := -1, -1
		for i := j - 1; i >= 0; i-- {
			if es[i].K == "clause" {
				before = es[i].P
				break
			}
		}
		for i := j; i < len(es); i++ {
			if es[i].K == "clause" {
				after = es[i].P
				break
			}
		}
		if before < 0 || after < 0 || before != after {
			out = append(out, j)
		}
	}
	return out
}

func (g *c20Gen) snippet(pool []string) string {
	s := pool[g.r.Intn(len(pool))]
	name := "zz"
	if g.r.Intn(2) == 0 {
		name = g.vocab[g.r.Intn(g.npreds())].Name
	}
	return strings.ReplaceAll(s, "NAME", name)
}

// variants enumerates the single-fault variants of a text: at every position one fault of each kind.
func (g *c20Gen) variants(t *c20Text) []*c20Fault {
	var out []*c20Fault
	n := len(t.Entries)
	st := c20NewState()
	for pos := 0; pos <= n; pos++ {
		out = append(out,
			&c20Fault{Kind: "syntax", Pos: pos, Entry: &c20Entry{K: "fault", Fault: "syntax", Raw: g.snippet(c20Syntax)}},
			&c20Fault{Kind: "noncallable", Pos: pos, Entry: &c20Entry{K: "fault", Fault: "noncallable", Raw: g.snippet(c20NonCallable)}},
			&c20Fault{Kind: "dirfail", Pos: pos, Entry: &c20Entry{K: "fault", Fault: "dirfail", Raw: g.snippet(c20DirFail)}},
			&c20Fault{Kind: "dirthrow", Pos: pos, Entry: &c20Entry{K: "fault", Fault: "dirthrow", Raw: g.snippet(c20DirThrow)}})
		// a clause that makes some predicate of the text discontiguous
		var ps []int
		seen := map[int]bool{}
		for _, e := range t.Entries {
			if e.K == "clause" && !seen[e.P] {
				seen[e.P] = true
				ps = append(ps, e.P)
			}
		}
		g.r.Shuffle(len(ps), func(i, j int) { ps[i], ps[j] = ps[j], ps[i] })
		for _, p := range ps {
			f := &c20Fault{Kind: "discontiguity", Pos: pos, Entry: &c20Entry{K: "clause", P: p, Cl: g.fact(p)}}
			m := c20Meta{Texts: []c20Text{*t}}
			es, _ := m.entries(&c20Load{Fault: f})
			if an := c20Analyse(st, es, false); an.Hard == "discontiguous" {
				out = append(out, f)
				break
			}
		}
	}
	out = append(out, &c20Fault{Kind: "syntax", Pos: n, NoStop: true})
	drop := &c20Fault{Kind: "discontiguity", DropDisc: true}
	m := c20Meta{Texts: []c20Text{*t}}
	es, _ := m.entries(&c20Load{Fault: drop})
	if an := c20Analyse(st, es, false); an.Hard == "discontiguous" {
		drop.Pos = an.HardPos
		out = append(out, drop)
	}
	return out
}

func (g *c20Gen) mode(l *c20Load, t *c20Text, fileNo *int) {
	*fileNo++
	l.Seed = g.r.Int63()
	switch x := g.r.Intn(100); {
	case x < 52:
		l.Mode = "exec"
	case x < 72:
		l.Mode = "consult"
	case x < 84:
		l.Mode = "list"
	default:
		l.Mode = "ensure"
	}
	if l.Mode != "exec" {
		l.File = fmt.Sprintf("t%d", *fileNo)
	}
	hasInc := false
	for _, e := range t.Entries {
		hasInc = hasInc || e.Inc
	}
	if hasInc && g.r.Intn(100) < 22 {
		l.Inc = fmt.Sprintf("inc%d", *fileNo)
	}
}

// build turns a meta into an item: step 0 observes the fresh database, then every load is followed by one
// observation step.
func (m *c20Meta) build() *Item {
	c := &proto.Case{Kind: "loaddb", Files: map[string]string{}}
	obs := proto.Step{Query: c20ObsQuery(m.Vocab), Max: 2}
	c.Steps = append(c.Steps, obs)
	dump := []int{0}
	for i := range m.Loads {
		l := &m.Loads[i]
		main, files := m.render(l)
		for k, v := range files {
			c.Files[k] = v
		}
		dump = append(dump, len(c.Steps))
		c.Steps = append(c.Steps, m.step(l, main), obs)
	}
	c.P, _ = json.Marshal(&proto.LoadDBPayload{DumpAfter: dump})
	meta, _ := json.Marshal(m)
	return &Item{Cases: []*proto.Case{c}, Meta: meta, Note: "C20 " + m.Family}
}

// simulate runs the model over the loads that can change the database and reports whether the case is
// usable: every observation small enough to enumerate, every expected output free of unbound variables
// (whose written form is not defined).
func (m *c20Meta) simulate() bool {
	st := c20NewState()
	for i := range m.Loads {
		l := &m.Loads[i]
		if l.Fault != nil && l.Fault.Kind != "initfail" {
			continue // cannot change the database; what it may do if a directive failure is ignored equals the valid load
		}
		es, ns := m.entries(l)
		cands, _ := st.candidates(&c20LoadSpec{Entries: es, NoFinalStop: ns, File: l.File, Vocab: m.Vocab})
		for _, c := range cands {
			if c.State == st {
				continue
			}
			if c.State.Open != "" {
				return false
			}
			o, ok := c20ExpectedObs(c.State, m.Vocab)
			if !ok {
				return false
			}
			for _, a := range o.Answers {
				if es, _ := term.ListElems(a); len(es) > 120 {
					return false
				}
			}
			if c.Out != nil && strings.Contains(*c.Out, "_G") {
				return false
			}
		}
		// continue from the outcome the engine is expected to take (on one-sided multifile: replace); the gate
		// load of the reload family is expected to fail
		st = cands[0].State
	}
	return true
}

const c20Chunk = 400

func (c *c20) total(cx *Ctx) int {
	if cx.Thorough() {
		return 40000
	}
	return 2000
}

func (c *c20) Generate(cx *Ctx, chunk int) []*Item {
	total := c.total(cx)
	lo, hi := chunk*c20Chunk, (chunk+1)*c20Chunk
	if lo >= total {
		return nil
	}
	if hi > total {
		hi = total
	}
	if chunk == 0 {
		// the syntax snippets must be rejected by the controller's own reader as well
		for _, s := range c20Syntax {
			src := "ok(1).\n" + strings.ReplaceAll(s, "NAME", "zz") + "\nok(2).\n"
			if _, err := term.ParseProgram(src); err == nil {
				panic("C20: the controller's reader accepts the syntax-fault snippet " + s)
			}
		}
	}
	items := make([]*Item, hi-lo)
	var wg sync.WaitGroup
	next := int64(lo - 1)
	for w := 0; w < runtime.NumCPU(); w++ {
		wg.Add(1)
		go func() {
			defer wg.Done()
			for {
				i := int(atomic.AddInt64(&next, 1))
				if i >= hi {
					return
				}
				items[i-lo] = c.item(cx, i)
			}
		}()
	}
	wg.Wait()
	return items
}

// item builds item i of the tier: a pure function of (seed, i).
func (c *c20) item(cx *Ctx, i int) *Item {
	var m *c20Meta
	for attempt := 0; ; attempt++ {
		g := &c20Gen{r: cx.Rng(fmt.Sprintf("c20/%d/%d", i, attempt)), plain: attempt >= 5}
		if i%8 == 7 {
			m = c.genReload(g, attempt < 3)
		} else {
			m = c.genEnum(g, i%3, attempt < 3)
		}
		if m.simulate() {
			break
		}
		if attempt >= 8 {
			panic("C20: cannot generate a usable case")
		}
	}
	return m.build()
}

// genEnum: nEarlier valid loads, every single-fault variant of one more text, the text itself; sometimes a
// final text whose initialization goal fails (observed, not asserted).
func (c *c20) genEnum(g *c20Gen, nEarlier int, rules bool) *c20Meta {
	g.makeVocab(false)
	m := &c20Meta{Family: "enumeration", Vocab: g.vocab}
	fileNo := 0
	for k := 0; k < nEarlier; k++ {
		m.Texts = append(m.Texts, g.text(rules))
		l := c20Load{Text: k}
		g.mode(&l, &m.Texts[k], &fileNo)
		m.Loads = append(m.Loads, l)
	}
	m.Texts = append(m.Texts, g.text(rules))
	ti := len(m.Texts) - 1
	t := &m.Texts[ti]
	for _, f := range g.variants(t) {
		l := c20Load{Text: ti, Fault: f}
		g.mode(&l, t, &fileNo)
		m.Loads = append(m.Loads, l)
	}
	l := c20Load{Text: ti}
	g.mode(&l, t, &fileNo)
	m.Loads = append(m.Loads, l)
	if g.r.Intn(8) == 0 {
		m.Texts = append(m.Texts, g.text(rules))
		ti++
		t := &m.Texts[ti]
		b := c20Boundaries(t.Entries)
		f := &c20Fault{Kind: "initfail", Pos: b[g.r.Intn(len(b))], Entry: &c20Entry{K: "initfail", Raw: g.snippet(c20InitFail)}}
		l := c20Load{Text: ti, Fault: f}
		g.mode(&l, t, &fileNo)
		m.Loads = append(m.Loads, l)
	}
	return m
}

// genReload: the same file is loaded again — after a load that failed because a goal directive could not
// succeed yet (the file must then load), and after a successful load (not asserted).
func (c *c20) genReload(g *c20Gen, rules bool) *c20Meta {
	g.makeVocab(true)
	m := &c20Meta{Family: "reload", Vocab: g.vocab, Gate: g.gate}
	fileNo := 0
	fileMode := func(l *c20Load, t *c20Text) {
		g.mode(l, t, &fileNo)
		if l.Mode == "exec" {
			l.Mode = []string{"consult", "list", "ensure"}[g.r.Intn(3)]
			l.File = fmt.Sprintf("t%d", fileNo)
		}
	}
	// 0: an earlier text
	m.Texts = append(m.Texts, g.text(rules))
	l0 := c20Load{Text: 0}
	g.mode(&l0, &m.Texts[0], &fileNo)
	// 1: a file whose directive `:- gate.` cannot succeed yet
	t1 := g.text(rules)
	b := c20Boundaries(t1.Entries)
	pos := b[g.r.Intn(len(b))]
	es := append([]c20Entry{}, t1.Entries[:pos]...)
	gateE := c20Entry{K: "gate", P: g.gate}
	gateE.Inc = pos > 0 && pos < len(t1.Entries) && t1.Entries[pos-1].Inc && t1.Entries[pos].Inc
	es = append(es, gateE)
	es = append(es, t1.Entries[pos:]...)
	m.Texts = append(m.Texts, c20Text{Entries: es})
	l1 := c20Load{Text: 1}
	fileMode(&l1, &m.Texts[1])
	// 2: the text that defines gate/0
	m.Texts = append(m.Texts, c20Text{Entries: []c20Entry{{K: "clause", P: g.gate, Cl: &c20Clause{Head: term.A("gate")}}}})
	l2 := c20Load{Text: 2, Mode: "exec", Seed: g.r.Int63()}
	// 3: the same file again (other ways of naming it are fine: the file is the same)
	l3 := l1
	l3.Seed = l1.Seed // same rendering, same file content
	l3.Mode = []string{"consult", "list", "ensure"}[g.r.Intn(3)]
	// 4: another text redefining some predicates
	m.Texts = append(m.Texts, g.text(rules))
	l4 := c20Load{Text: 3}
	g.mode(&l4, &m.Texts[3], &fileNo)
	// 5: the file once more
	l5 := l3
	l5.Mode = []string{"consult", "list", "ensure"}[g.r.Intn(3)]
	m.Loads = []c20Load{l0, l1, l2, l3, l4, l5}
	return m
}

// ---------------------------------------------------------------------------------------------------
// Judging

func c20ParseObs(st *proto.StepResult, vocab []c20Pred) (*c20Obs, string) {
	if st.Err != nil {
		return nil, "the observation query raised " + st.Err.Text
	}
	if len(st.Answers) != 1 {
		return nil, fmt.Sprintf("the observation query had %d answers", len(st.Answers))
	}
	o := &c20Obs{}
	for i := range vocab {
		a, ok1 := st.Answers[0][fmt.Sprintf("A%d", i)]
		c, ok2 := st.Answers[0][fmt.Sprintf("C%d", i)]
		if !ok1 || !ok2 {
			return nil, "the observation answer lacks a variable"
		}
		o.Answers = append(o.Answers, dropErrorContext(a))
		o.Listing = append(o.Listing, dropErrorContext(c))
		if vocab[i].Arity > 0 {
			b, ok := st.Answers[0][fmt.Sprintf("B%d", i)]
			if !ok {
				return nil, "the observation answer lacks a variable"
			}
			if d := c20BoundCallDiff(a, b); d != "" {
				return nil, fmt.Sprintf("%s called with its first argument instantiated to each atomic value the general call delivers there answers %s (the matching subset of the general call's answers %s)", vocab[i].pi(), d, c20Show(a))
			}
		}
	}
	return o, ""
}

func c20IsPermErr(t *term.Term) bool {
	return t.IsCmp("err", 1) && t.Args[0].IsCmp("permission_error", 3)
}

// c20ObsDiff compares an observation with the expected one; "" = equal.
func c20ObsDiff(exp, got *c20Obs, vocab []c20Pred) string {
	for i, p := range vocab {
		if !term.Variant(exp.Answers[i], got.Answers[i]) {
			return fmt.Sprintf("solutions of %s: expected %s, observed %s", p.pi(), c20Show(exp.Answers[i]), c20Show(got.Answers[i]))
		}
		if c20IsPermErr(exp.Listing[i]) && c20IsPermErr(got.Listing[i]) {
			continue
		}
		if !term.Variant(exp.Listing[i], got.Listing[i]) {
			return fmt.Sprintf("clause/2 listing of %s: expected %s, observed %s", p.pi(), c20Show(exp.Listing[i]), c20Show(got.Listing[i]))
		}
	}
	return ""
}

// c20DumpDiff compares a structural dump with a model state; "" = equal.
func c20DumpDiff(st *c20State, vocab []c20Pred, dump []proto.DBProc) string {
	index := map[string]int{}
	for i, p := range vocab {
		index[p.pi()] = i
	}
	seen := map[int]bool{}
	for _, d := range dump {
		pi := fmt.Sprintf("%s/%d", d.Name, d.Arity)
		if d.Gone {
			return "procedure " + pi + " of the fresh interpreter no longer exists"
		}
		i, ok := index[pi]
		if !ok || st.Defs[i] == nil {
			return fmt.Sprintf("procedure %s exists in the database (%d clauses) but should not", pi, len(d.Clauses))
		}
		seen[i] = true
		def := st.Defs[i]
		if !d.User {
			return "procedure " + pi + " is not user-defined"
		}
		if d.Dynamic != def.Dyn {
			return fmt.Sprintf("procedure %s: dynamic=%v, expected %v", pi, d.Dynamic, def.Dyn)
		}
		if !def.MFAny && d.Multifile != def.MF {
			return fmt.Sprintf("procedure %s: multifile=%v, expected %v", pi, d.Multifile, def.MF)
		}
		if len(d.Clauses) != len(def.Clauses) {
			return fmt.Sprintf("procedure %s stores %d clauses, expected %d", pi, len(d.Clauses), len(def.Clauses))
		}
		for k, c := range d.Clauses {
			if !term.Variant(c, def.Clauses[k].asTerm()) {
				return fmt.Sprintf("procedure %s, stored clause %d is %s, expected %s", pi, k+1, c20Show(c), c20Show(def.Clauses[k].asTerm()))
			}
		}
	}
	for i := range st.Defs {
		if !seen[i] {
			return "procedure " + vocab[i].pi() + " does not exist in the database"
		}
	}
	return ""
}

// c20SameDump: two dumps are identical (all flags, all stored clauses).
func c20SameDump(a, b []proto.DBProc) string {
	if len(a) != len(b) {
		return fmt.Sprintf("%d procedures before, %d after", len(a), len(b))
	}
	for i := range a {
		x, y := a[i], b[i]
		pi := fmt.Sprintf("%s/%d", y.Name, y.Arity)
		if x.Name != y.Name || x.Arity != y.Arity {
			return "procedure " + pi + " appeared or disappeared"
		}
		if x.User != y.User || x.Public != y.Public || x.Dynamic != y.Dynamic || x.Multifile != y.Multifile || x.Discontiguous != y.Discontiguous || x.Gone != y.Gone {
			return "flags of " + pi + " changed"
		}
		if len(x.Clauses) != len(y.Clauses) {
			return fmt.Sprintf("%s had %d clauses, has %d", pi, len(x.Clauses), len(y.Clauses))
		}
		for k := range x.Clauses {
			if !term.Variant(x.Clauses[k], y.Clauses[k]) {
				return fmt.Sprintf("clause %d of %s changed from %s to %s", k+1, pi, c20Show(x.Clauses[k]), c20Show(y.Clauses[k]))
			}
		}
	}
	return ""
}

// c20OneLine shows a text on one line with its line ends visible (they end the line comments).
func c20OneLine(s string) string {
	s = strings.ReplaceAll(strings.ReplaceAll(s, "\n", "⏎ "), "\t", " ")
	if r := []rune(s); len(r) > 900 {
		s = string(r[:900]) + "…"
	}
	return s
}

func c20LoadDesc(m *c20Meta, i int, c *proto.Case) string {
	l := &m.Loads[i]
	st := c.Steps[1+2*i]
	var sb strings.Builder
	fmt.Fprintf(&sb, "load #%d via %s", i+1, l.Mode)
	if l.Fault != nil {
		fmt.Fprintf(&sb, ", fault %s at entry %d", l.Fault.Kind, l.Fault.Pos)
		switch {
		case l.Fault.NoStop:
			sb.WriteString(" (final full stop missing)")
		case l.Fault.DropDisc:
			sb.WriteString(" (discontiguous declaration removed)")
		case l.Fault.Entry != nil:
			sb.WriteString(" (" + l.Fault.Entry.source(m.Vocab) + ")")
		}
	}
	if st.Exec != "" {
		sb.WriteString(" | Exec: " + c20OneLine(st.Exec))
	} else {
		sb.WriteString(" | Query: " + st.Query)
	}
	if l.File != "" {
		sb.WriteString(" | " + l.File + ".pl: " + c20OneLine(c.Files[l.File+".pl"]))
	}
	if l.Inc != "" {
		if s, ok := c.Files[l.Inc+".pl"]; ok {
			sb.WriteString(" | " + l.Inc + ".pl: " + c20OneLine(s))
		}
	}
	return sb.String()
}

func (c *c20) Judge(cx *Ctx, it *Item, outs []*run.Outcome) Verdict {
	var m c20Meta
	if err := decodeMeta(it, &m); err != nil {
		return Verdict{Status: Inconclusive, Msg: err.Error()}
	}
	o := outs[0]
	if o.Crash != nil {
		if o.Crash.Hung {
			return Verdict{Status: Inconclusive, Msg: "watchdog fired (wall clock) — no logical evidence"}
		}
		return Verdict{Status: Inconclusive, Msg: "worker process died: " + o.Crash.Exit + "\n" + firstLines(o.Crash.Stderr, 8)}
	}
	res := o.Res
	if res.Fatal != "" {
		return Verdict{Status: Inconclusive, Msg: "worker: " + res.Fatal}
	}
	if len(res.Steps) != 1+2*len(m.Loads) {
		return Verdict{Status: Inconclusive, Msg: "worker returned an unexpected number of steps"}
	}
	var dumps [][]proto.DBProc
	if len(res.R) > 0 {
		var r proto.LoadDBResult
		if err := json.Unmarshal(res.R, &r); err == nil && len(r.Dumps) == 1+len(m.Loads) && len(r.Same) == len(r.Dumps) {
			dumps = r.Dumps
			for i := range dumps {
				if r.Same[i] && i > 0 {
					dumps[i] = dumps[i-1] // byte-identical to the dump before it
				} else if dumps[i] == nil {
					dumps[i] = []proto.DBProc{}
				}
			}
		}
	}
	cs := it.Cases[0]
	extra := map[string]int64{}
	v := Verdict{Status: Held, Extra: extra}
	for i := range res.Steps {
		if res.Steps[i].BudgetHit {
			return Verdict{Status: Inconclusive, Msg: fmt.Sprintf("step %d ran out of its step budget", i)}
		}
	}

	memo := map[*c20State]*c20Obs{}
	expected := func(s *c20State) (*c20Obs, bool) {
		if o, ok := memo[s]; ok {
			return o, true
		}
		o, ok := c20ExpectedObs(s, m.Vocab)
		if ok {
			memo[s] = o
		}
		return o, ok
	}
	st := c20NewState()
	prev, why := c20ParseObs(&res.Steps[0], m.Vocab)
	if why != "" {
		return Verdict{Status: Inconclusive, Msg: "initial observation: " + why}
	}
	if exp, _ := c20ExpectedObs(st, m.Vocab); c20ObsDiff(exp, prev, m.Vocab) != "" {
		return Verdict{Status: Inconclusive, Msg: "the vocabulary is not undefined in a fresh interpreter: " + c20ObsDiff(exp, prev, m.Vocab)}
	}
	var prevDump []proto.DBProc
	if dumps != nil {
		prevDump = dumps[0]
		if len(prevDump) != 0 {
			return Verdict{Status: Inconclusive, Msg: "the fresh interpreter already differs from its baseline"}
		}
	}
	fail := func(i int, msg string, exp, got interface{}) Verdict {
		v.Status = Violated
		v.Msg = msg + " | " + c20LoadDesc(&m, i, cs) + " | database before the load: " + c20StateText(st, m.Vocab)
		v.Sample = map[string]interface{}{"load": c20LoadDesc(&m, i, cs), "database_before": c20StateText(st, m.Vocab), "expected": exp, "observed": got}
		return v
	}
	for i := range m.Loads {
		l := &m.Loads[i]
		entries, noStop := m.entries(l)
		cands, an := st.candidates(&c20LoadSpec{Entries: entries, NoFinalStop: noStop, File: l.File, Vocab: m.Vocab})
		ls, os := &res.Steps[1+2*i], &res.Steps[2+2*i]
		gotErr := ls.Err != nil || (cs.Steps[1+2*i].Query != "" && len(ls.Answers) == 0)
		errText := "none"
		if ls.Err != nil {
			errText = ls.Err.Text
		} else if gotErr {
			errText = "(the loading goal failed)"
		}
		obs, why := c20ParseObs(os, m.Vocab)
		if why != "" {
			return fail(i, "after the load "+why, nil, nil)
		}
		var dump []proto.DBProc
		if dumps != nil {
			dump = dumps[1+i]
		}
		matched, firstWhy := -1, ""
		var firstExp *c20Obs
		for k := range cands {
			cd := &cands[k]
			w := ""
			exp, ok := expected(cd.State)
			switch {
			case !ok:
				return Verdict{Status: Inconclusive, Msg: "model budget exceeded"}
			case cd.Err == 1 && !gotErr:
				w = "the load reported no error although the text cannot be loaded (" + an.Hard + an.Soft + ")"
			case cd.Err == 0 && gotErr:
				w = "the load reported the error " + errText + " although the text is loadable"
			}
			if w == "" {
				w = c20ObsDiff(exp, obs, m.Vocab)
			}
			if w == "" && dumps != nil {
				w = c20DumpDiff(cd.State, m.Vocab, dump)
			}
			if w == "" && cd.Out != nil && string(ls.Output) != *cd.Out {
				w = fmt.Sprintf("output of directives and initialization goals: expected %q, observed %q", *cd.Out, string(ls.Output))
			}
			if w == "" {
				matched = k
				break
			}
			if k == 0 {
				firstWhy, firstExp = w, exp
			}
		}
		if matched < 0 {
			msg := firstWhy
			if cands[0].State == st {
				msg = "a load that must fail changed the database or succeeded: " + firstWhy
			}
			return fail(i, msg, map[string]interface{}{"outcome": cands[0].Label, "solutions": termStrings(firstExp.Answers), "listing": termStrings(firstExp.Listing), "database": c20StateText(cands[0].State, m.Vocab)},
				map[string]interface{}{"error": errText, "solutions": termStrings(obs.Answers), "listing": termStrings(obs.Listing), "output": string(ls.Output)})
		}
		cd := &cands[matched]
		if cd.State.Open != "" {
			return Verdict{Status: Inconclusive, Msg: "the model leaves this case open: " + cd.State.Open}
		}
		if cd.State == st {
			// nothing may have changed with respect to the observation before the load (independent of the model)
			exp := prev
			if w := c20ObsDiff(exp, obs, m.Vocab); w != "" {
				return fail(i, "the load did not take effect but the database answers differently than before: "+w, nil, nil)
			}
			if dumps != nil {
				if w := c20SameDump(prevDump, dump); w != "" {
					return fail(i, "the load did not take effect but the stored database changed: "+w, nil, nil)
				}
			}
		}
		// bookkeeping
		extra["loads"]++
		extra["loads_via_"+l.Mode]++
		if l.Inc != "" {
			extra["loads_with_include"]++
		}
		if dumps != nil {
			extra["structural_dumps_compared"]++
		}
		kind := "valid"
		if l.Fault != nil {
			kind = "fault_" + l.Fault.Kind
		}
		extra["loads_"+kind]++
		switch {
		case l.Fault != nil && l.Fault.Kind == "initfail":
			extra["not_asserted_failing_initialization_goal"]++
			if cd.State != st {
				extra["observed_failing_initialization_goal_clauses_visible"]++
			}
			if gotErr {
				extra["observed_failing_initialization_goal_error_reported"]++
			}
		case l.File != "" && st.Loaded[l.File]:
			extra["not_asserted_reload_of_loaded_file"]++
			if cd.State == st {
				extra["observed_reload_of_loaded_file_is_noop"]++
			}
		case an.Soft != "" && an.Hard == "":
			if cd.State == st {
				extra["failing_directive_failed_the_load"]++
			} else {
				extra["failing_directive_ignored"]++
			}
		case an.Hard == "" && matched > 0:
			extra["not_asserted_one_sided_multifile_appended"]++
		case an.Hard == "" && len(cands) > 1:
			extra["not_asserted_one_sided_multifile_replaced"]++
		}
		if an.Hard == "" && an.Soft == "" && l.Fault == nil && m.Family == "reload" && i == 3 && !st.Loaded[l.File] {
			extra["file_loaded_after_its_earlier_load_failed"]++
		}
		if cd.Out != nil {
			extra["outputs_compared"]++
			if len(an.Dirs)+len(an.Inits) >= 2 {
				extra["outputs_compared_with_2plus_directives"]++
			}
		}
		for _, p := range an.Order {
			if ex := st.Defs[p]; ex != nil && cd.State != st {
				if !ex.MFAny && ex.MF && an.Defs[p].MF {
					extra["predicates_appended_multifile"]++
				} else {
					extra["predicates_replaced"]++
				}
			}
		}
		// non-triviality: a fault after >= 1 valid clause of a predicate that already had a definition
		fpos := an.HardPos
		if an.Hard == "" {
			fpos = an.SoftPos
		}
		if l.Fault != nil && l.Fault.Kind != "initfail" && fpos >= 0 && cd.State == st {
			nt := false
			for k := 0; k < fpos && k < len(entries); k++ {
				if entries[k].K == "clause" && st.Defs[entries[k].P] != nil {
					nt = true
				}
			}
			if nt {
				extra["faults_after_valid_clause_of_existing_predicate"]++
				if !v.NonTrivial || v.Sample == nil {
					v.NonTrivial = true
					v.Sample = map[string]interface{}{
						"load":            c20LoadDesc(&m, i, cs),
						"database_before": c20StateText(st, m.Vocab),
						"expected":        "an error; every predicate answers exactly as before the load",
						"observed":        map[string]interface{}{"error": errText, "solutions": termStrings(obs.Answers), "listing": termStrings(obs.Listing)},
					}
				}
			}
		}
		st, prev, prevDump = cd.State, obs, dump
	}
	if v.Sample == nil {
		last := len(m.Loads) - 1
		v.Sample = map[string]interface{}{"load": c20LoadDesc(&m, last, cs), "expected_database": c20StateText(st, m.Vocab), "observed_solutions": termStrings(prev.Answers)}
	}
	extra["family_"+m.Family]++
	return v
}

// termStrings renders terms for messages, variables renamed to _G0, _G1, … per term.
func termStrings(ts []*term.Term) []string {
	out := make([]string, len(ts))
	for i, t := range ts {
		out[i] = c20Show(t)
	}
	return out
}

func c20Show(t *term.Term) string { return term.Canon(t)[0].String() }
