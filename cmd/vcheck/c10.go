package main

import (
	"encoding/json"
	"fmt"
	"math/rand"
	"os"
	"path/filepath"
	"sort"
	"strings"

	"verif/internal/proto"
	"verif/internal/ref"
	"verif/internal/run"
	"verif/internal/term"
)

func init() { checks["C10"] = func() Check { return &c10{} } }

type c10 struct{}

func (*c10) ID() string    { return "C10" }
func (*c10) Level() string { return "exploration" }
func (*c10) Rule() string {
	return "seeded random clause terms p(Args..) [:- Body]: head and body-goal arguments with atoms, integers, simple floats, strings (char/code lists), nested compounds (depth <=4), proper and partial lists of length 0-9 (incl. >8), repeated and singleton variables, variable goals, '!' and top-level disjunctive bodies; some clause variables are bound in the calling environment when assertz/asserta is called (to atoms, compounds, other variables, partial lists). Per clause: (a) added by assertz with bindings in force: clause/2 and retract/1 must return a variant of the clause with the bindings applied; (b) calling the predicate must give the answers the reference interpreter gives for that clause, identically for the asserted and the consulted (Exec of text) version; (c) the compiled form reported by the VerifCompile hook is decompiled in the controller (get_*/put_*/call/cut/exit -> head arguments and body goals) and must be a variant of the source clause alternative, with #vars = number of distinct variables; the same decompile-and-compare runs over every clause of bootstrap.pl as read by the engine's reader and as found in the loaded database. Non-trivial: the clause has a body and >=1 variable bound at assert time or >=1 nested list/compound argument; distinct by clause hash."
}
func (*c10) Assumptions() []string {
	return []string{
		"the decompiler understands the 15 opcodes of the unchanged tree; an instruction sequence it cannot parse is inconclusive, never a violation",
		"the reference interpreter gives the meaning of a clause term (self-tested)",
		"floats in consulted text are restricted to values with short exact decimals (the reader's float conversion belongs to C06)",
	}
}

// ---------------------------------------------------------------------------------------------------
// decompiler: instruction list -> head arguments and body goals

type instr struct {
	Op      string     `json:"op"`
	Operand *term.Term `json:"operand,omitempty"`
}

type compiledClause struct {
	Name  string     `json:"name"`
	Arity int        `json:"arity"`
	Raw   *term.Term `json:"raw"`
	NVars int        `json:"nvars"`
	Code  []instr    `json:"code"`
}

type decompiler struct {
	code []instr
	pc   int
	err  string
}

func (d *decompiler) next() *instr {
	if d.pc >= len(d.code) {
		d.err = "instruction list ends early"
		return &instr{Op: "?"}
	}
	in := &d.code[d.pc]
	d.pc++
	return in
}

func operandInt(in *instr) (int, bool) {
	if in.Operand == nil || in.Operand.K != term.KInt {
		return 0, false
	}
	return int(in.Operand.I), true
}

func operandPI(in *instr) (string, int, bool) {
	o := in.Operand
	if o == nil || !o.IsCmp("/", 2) || o.Args[0].K != term.KAtom || o.Args[1].K != term.KInt {
		return "", 0, false
	}
	return o.Args[0].S, int(o.Args[1].I), true
}

// arg parses one argument; prefix is "get" (head) or "put" (body).
func (d *decompiler) arg(prefix string) *term.Term {
	in := d.next()
	if d.err != "" {
		return term.A("?")
	}
	if !strings.HasPrefix(in.Op, prefix+"_") {
		d.err = fmt.Sprintf("unexpected instruction %s in %s-argument position", in.Op, prefix)
		return term.A("?")
	}
	switch strings.TrimPrefix(in.Op, prefix+"_") {
	case "const":
		if in.Operand == nil {
			d.err = "const without operand"
			return term.A("?")
		}
		return in.Operand
	case "var":
		n, ok := operandInt(in)
		if !ok {
			d.err = "var without slot"
			return term.A("?")
		}
		return term.V(int64(n))
	case "functor":
		name, ar, ok := operandPI(in)
		if !ok {
			d.err = "functor without name/arity"
			return term.A("?")
		}
		args := make([]*term.Term, ar)
		for i := range args {
			args[i] = d.arg(prefix)
		}
		d.pop()
		return term.C(name, args...)
	case "list":
		n, ok := operandInt(in)
		if !ok {
			d.err = "list without length"
			return term.A("?")
		}
		es := make([]*term.Term, n)
		for i := range es {
			es[i] = d.arg(prefix)
		}
		d.pop()
		return term.L(es...)
	case "partial":
		n, ok := operandInt(in)
		if !ok {
			d.err = "partial without length"
			return term.A("?")
		}
		tail := d.arg(prefix)
		es := make([]*term.Term, n)
		for i := range es {
			es[i] = d.arg(prefix)
		}
		d.pop()
		return term.PL(tail, es...)
	}
	d.err = "unknown instruction " + in.Op
	return term.A("?")
}

func (d *decompiler) pop() {
	if in := d.next(); in.Op != "pop" && d.err == "" {
		d.err = "expected pop, found " + in.Op
	}
}

// decompile rebuilds Head :- Goals. ok=false with a reason means "not understood" (inconclusive).
func decompile(c *compiledClause) (*term.Term, []*term.Term, string) {
	d := &decompiler{code: c.Code}
	args := make([]*term.Term, c.Arity)
	for i := range args {
		args[i] = d.arg("get")
	}
	head := term.C(c.Name, args...)
	var goals []*term.Term
	if d.err != "" {
		return nil, nil, d.err
	}
	in := d.next()
	if in.Op == "exit" {
		if d.pc != len(d.code) {
			return nil, nil, "instructions after exit"
		}
		return head, nil, ""
	}
	if in.Op != "enter" {
		return nil, nil, "expected enter or exit after the head, found " + in.Op
	}
	for d.err == "" {
		if d.pc >= len(d.code) {
			return nil, nil, "no exit"
		}
		switch d.code[d.pc].Op {
		case "exit":
			d.pc++
			if d.pc != len(d.code) {
				return nil, nil, "instructions after exit"
			}
			return head, goals, ""
		case "cut":
			d.pc++
			goals = append(goals, term.A("!"))
		default:
			var gargs []*term.Term
			for d.err == "" && d.pc < len(d.code) && d.code[d.pc].Op != "call" {
				gargs = append(gargs, d.arg("put"))
			}
			if d.err != "" {
				break
			}
			in := d.next()
			name, ar, ok := operandPI(in)
			if !ok || ar != len(gargs) {
				return nil, nil, fmt.Sprintf("call %v does not match %d arguments", in.Operand, len(gargs))
			}
			goals = append(goals, term.C(name, gargs...))
		}
	}
	return nil, nil, d.err
}

// alternatives splits a clause term the way ISO body conversion + this engine's clause-per-disjunct scheme
// prescribe: the right spine of ';' (stopping at an if-then-else), each alternative's goals = the flattened
// conjunction; a variable goal G becomes call(G).
func clauseAlternatives(cl *term.Term) (head *term.Term, alts [][]*term.Term) {
	if !cl.IsCmp(":-", 2) {
		return cl, [][]*term.Term{nil}
	}
	head = cl.Args[0]
	body := cl.Args[1]
	var bodies []*term.Term
	for body.IsCmp(";", 2) && !body.Args[0].IsCmp("->", 2) {
		bodies = append(bodies, body.Args[0])
		body = body.Args[1]
	}
	bodies = append(bodies, body)
	for _, b := range bodies {
		var goals []*term.Term
		var flat func(t *term.Term)
		flat = func(t *term.Term) {
			if t.IsCmp(",", 2) {
				flat(t.Args[0])
				flat(t.Args[1])
				return
			}
			if t.K == term.KVar {
				t = term.C("call", t)
			}
			goals = append(goals, t)
		}
		flat(b)
		alts = append(alts, goals)
	}
	return head, alts
}

// flatGoals flattens a conjunction into its goals (a variable goal G becomes call(G)); ';' and '->' are goals.
func flatGoals(b *term.Term) []*term.Term {
	var goals []*term.Term
	var flat func(t *term.Term)
	flat = func(t *term.Term) {
		if t.IsCmp(",", 2) {
			flat(t.Args[0])
			flat(t.Args[1])
			return
		}
		if t.K == term.KVar {
			t = term.C("call", t)
		}
		goals = append(goals, t)
	}
	flat(b)
	return goals
}

func clauseOf(head *term.Term, goals []*term.Term) *term.Term {
	if goals == nil {
		return head
	}
	return term.C(":-", head, term.L(goals...))
}

// checkCompiled compares the compiled clauses with the source clause.
func checkCompiled(src *term.Term, ccs []compiledClause) (Status, string) {
	head, alts := clauseAlternatives(src)
	if len(ccs) == 1 && len(alts) > 1 {
		// a compiler may also keep a disjunctive body as ONE clause whose goal is the disjunction itself
		alts = [][]*term.Term{flatGoals(src.Args[1])}
	}
	if len(ccs) != len(alts) {
		return Violated, fmt.Sprintf("source clause has %d top-level alternatives but %d clauses were compiled", len(alts), len(ccs))
	}
	for i, cc := range ccs {
		cc := cc
		h, goals, why := decompile(&cc)
		if why != "" {
			return Inconclusive, "decompiler: " + why
		}
		want := clauseOf(head, alts[i])
		got := clauseOf(h, goals)
		if !term.Variant(want, got) {
			return Violated, fmt.Sprintf("compiled clause %d denotes %s but the source alternative is %s", i, got, want)
		}
		// fewer slots than distinct variables cannot denote the clause; spare slots are an internal matter
		if n := len(term.VarsOf(want)); cc.NVars < n {
			return Violated, fmt.Sprintf("compiled clause %d reserves %d variables, the source alternative has %d", i, cc.NVars, n)
		}
	}
	return Held, ""
}

// ---------------------------------------------------------------------------------------------------
// generator

type c10Gen struct {
	r  *rand.Rand
	nv int64
}

func (g *c10Gen) v() *term.Term {
	if g.nv > 0 && g.r.Intn(100) < 60 {
		return term.V(int64(g.r.Intn(int(g.nv))))
	}
	if g.nv < 6 {
		g.nv++
		return term.V(g.nv - 1)
	}
	return term.V(int64(g.r.Intn(int(g.nv))))
}

func (g *c10Gen) atom() *term.Term {
	return term.A([]string{"a", "b", "c", "[]", "foo bar", "é", "X", ""}[g.r.Intn(8)])
}

func (g *c10Gen) term(depth int) *term.Term {
	k := g.r.Intn(100)
	switch {
	case k < 25:
		return g.v()
	case k < 45:
		return g.atom()
	case k < 55:
		return term.I([]int64{0, 1, -1, 42, 9223372036854775807, -9223372036854775808}[g.r.Intn(6)])
	case k < 58:
		return term.F([]float64{1.5, -0.25, 100.0, 0.5}[g.r.Intn(4)])
	case depth <= 0:
		return g.atom()
	case k < 68:
		return term.C("f", g.term(depth-1))
	case k < 75:
		return term.C("g", g.term(depth-1), g.term(depth-1))
	case k < 77:
		return term.C("-", g.term(depth-1), g.term(depth-1))
	case k < 78:
		return term.C("f", g.term(depth-1), g.term(depth-1)) // f/2 next to f/1
	case k < 88:
		n := g.r.Intn(10)
		if g.r.Intn(3) == 0 {
			n = g.r.Intn(3)
		}
		es := make([]*term.Term, n)
		for i := range es {
			es[i] = g.term(depth - 1)
		}
		return term.L(es...)
	case k < 95:
		n := 1 + g.r.Intn(9)
		if g.r.Intn(2) == 0 {
			n = 1 + g.r.Intn(2)
		}
		es := make([]*term.Term, n)
		for i := range es {
			es[i] = g.term(depth - 1)
		}
		return term.PL(g.v(), es...)
	default:
		s := []string{"ab", "héllo", "x"}[g.r.Intn(3)]
		if g.r.Intn(2) == 0 {
			return term.WithRep(term.Chars(s), "chars")
		}
		return term.WithRep(term.Codes(s), "codes")
	}
}

func (g *c10Gen) goal() *term.Term {
	switch g.r.Intn(10) {
	case 0, 1, 2:
		return term.C("m", g.term(1))
	case 3:
		return term.C("n", g.term(1))
	case 4, 5:
		return term.C("=", g.term(2), g.term(3))
	case 6:
		return term.C("t", g.term(1), g.term(2))
	case 7:
		return term.A("!")
	case 8:
		return term.A("true")
	default:
		return g.v() // variable goal (must be bound to a callable when called)
	}
}

// noCut replaces the cuts of a body by true (for positions where this engine makes a cut local).
func noCut(t *term.Term) *term.Term {
	if t.IsAtom("!") {
		return term.A("true")
	}
	if t.IsCmp(",", 2) || t.IsCmp(";", 2) || t.IsCmp("->", 2) {
		return term.C(t.S, noCut(t.Args[0]), noCut(t.Args[1]))
	}
	return t
}

// test is a condition for if-then-else (never a variable goal, never a cut).
func (g *c10Gen) test() *term.Term {
	switch g.r.Intn(3) {
	case 0:
		return term.C("m", g.term(1))
	case 1:
		return term.C("=", g.term(1), g.term(1))
	default:
		return term.C("n", g.term(0))
	}
}

func (g *c10Gen) conj() *term.Term {
	n := 1 + g.r.Intn(3)
	gs := make([]*term.Term, n)
	for i := range gs {
		gs[i] = g.goal()
	}
	t := gs[n-1]
	for i := n - 2; i >= 0; i-- {
		t = term.C(",", gs[i], t)
	}
	return t
}

// clause returns the clause term and the bindings in force at assert time.
func (g *c10Gen) clause() (*term.Term, map[int64]*term.Term) {
	g.nv = 0
	ar := 1 + g.r.Intn(3)
	args := make([]*term.Term, ar)
	for i := range args {
		args[i] = g.term(3)
	}
	head := term.C("p", args...)
	cl := head
	if g.r.Intn(100) < 65 {
		body := g.conj()
		switch g.r.Intn(14) {
		case 0, 1:
			body = term.C(";", body, g.conj())
		case 2:
			// three alternatives, nested on the right and on the left (a disjunction nested on the left is a goal
			// of its own: no cut inside it, see C03's scope)
			if g.r.Intn(2) == 0 {
				body = term.C(";", body, term.C(";", g.conj(), g.conj()))
			} else {
				body = term.C(";", term.C(";", noCut(body), noCut(g.conj())), g.conj())
			}
		case 3:
			// an if-then-else as the LEFT alternative of a disjunction: ((C -> T ; E) ; F) is two alternatives
			body = term.C(";", term.C(";", term.C("->", g.test(), noCut(body)), noCut(g.conj())), g.conj())
		case 4:
			// an if-then-else as a goal and as the last alternative
			body = term.C(";", g.conj(), term.C(";", term.C("->", g.test(), noCut(body)), noCut(g.conj())))
		case 5:
			body = term.C(",", term.C(";", term.C("->", g.test(), noCut(g.conj())), noCut(g.conj())), body)
		}
		cl = term.C(":-", head, body)
	}
	// bindings: variable goals are always bound to a callable; other variables sometimes
	binds := map[int64]*term.Term{}
	goalVars := map[int64]bool{}
	if cl.IsCmp(":-", 2) {
		var walk func(t *term.Term)
		walk = func(t *term.Term) {
			if t.IsCmp(",", 2) || t.IsCmp(";", 2) || t.IsCmp("->", 2) {
				walk(t.Args[0])
				walk(t.Args[1])
			} else if t.K == term.KVar {
				goalVars[t.I] = true
			}
		}
		walk(cl.Args[1])
	}
	// variable goals that are direct conjuncts of a top-level alternative: bound to a conjunction, the clause term in
	// force is the flattened body, so a cut inside the bound conjunction is a cut of the clause
	topVars := map[int64]bool{}
	if cl.IsCmp(":-", 2) {
		var conjuncts func(t *term.Term)
		conjuncts = func(t *term.Term) {
			if t.IsCmp(",", 2) {
				conjuncts(t.Args[0])
				conjuncts(t.Args[1])
			} else if t.K == term.KVar {
				topVars[t.I] = true
			}
		}
		alt := cl.Args[1]
		for alt.IsCmp(";", 2) && !alt.Args[0].IsCmp("->", 2) {
			conjuncts(alt.Args[0])
			alt = alt.Args[1]
		}
		if !alt.IsCmp(";", 2) {
			conjuncts(alt)
		}
		// ... and nowhere else as a goal: the same variable inside a nested disjunction or an if-then-else would carry
		// the cut to a place where this engine makes it local (outside C03's scope)
		top, all := map[int64]int{}, map[int64]int{}
		var count func(t *term.Term, m map[int64]int, deep bool)
		count = func(t *term.Term, m map[int64]int, deep bool) {
			switch {
			case t.IsCmp(",", 2):
				count(t.Args[0], m, deep)
				count(t.Args[1], m, deep)
			case deep && (t.IsCmp(";", 2) || t.IsCmp("->", 2)):
				count(t.Args[0], m, deep)
				count(t.Args[1], m, deep)
			case t.K == term.KVar:
				m[t.I]++
			}
		}
		count(cl.Args[1], all, true)
		alt = cl.Args[1]
		for alt.IsCmp(";", 2) && !alt.Args[0].IsCmp("->", 2) {
			count(alt.Args[0], top, false)
			alt = alt.Args[1]
		}
		if !alt.IsCmp(";", 2) {
			count(alt, top, false)
		}
		for id := range topVars {
			if top[id] != all[id] {
				delete(topVars, id)
			}
		}
	}
	ids := make([]int64, 0, len(goalVars))
	for id := range goalVars {
		ids = append(ids, id)
	}
	sort.Slice(ids, func(a, b int) bool { return ids[a] < ids[b] })
	for _, id := range ids {
		binds[id] = []*term.Term{term.C("m", term.V(100+id)), term.A("true"), term.C("n", term.A("a")), term.C("=", term.V(100+id), term.A("z"))}[g.r.Intn(4)]
		if topVars[id] && g.r.Intn(3) == 0 {
			mv := term.C("m", term.V(100+id))
			cut := term.A("!")
			binds[id] = []*term.Term{
				term.C(",", mv, cut), cut, term.C(",", cut, term.C("n", term.A("a"))),
				term.C(",", term.A("true"), term.C(",", mv, cut)), term.C(",", term.C(",", mv, cut), term.C("n", term.V(400+id))),
				term.C(",", mv, term.C("n", term.V(400+id))),
			}[g.r.Intn(6)]
		}
	}
	for id := int64(0); id < g.nv; id++ {
		if _, ok := binds[id]; ok || g.r.Intn(100) >= 35 {
			continue
		}
		switch g.r.Intn(5) {
		case 0:
			binds[id] = term.A("bound")
		case 1:
			binds[id] = term.C("h", term.V(200+id), term.A("k"))
		case 2:
			if id > 0 {
				binds[id] = term.V(id - 1) // aliased to another clause variable (resolved below)
			}
		case 3:
			binds[id] = term.PL(term.V(200+id), term.I(7))
		default:
			binds[id] = term.L(term.A("l1"), term.V(300+id))
		}
	}
	return cl, binds
}

func applyBinds(t *term.Term, binds map[int64]*term.Term) *term.Term {
	s := term.Subst{}
	for k, v := range binds {
		if v.K == term.KVar && v.I == k {
			continue
		}
		s[k] = v
	}
	// aliases may chain; Subst.Apply walks them (ids only decrease, so no cycles)
	return s.Apply(t)
}

const c10Helpers = `
m(1). m(2). m(a).
n(a). n(b).
t(X, X).
t(_, z).
unify_all([]).
unify_all([X = X|T]) :- unify_all(T).
`

type c10Meta struct {
	Clause  *term.Term `json:"clause"` // as asserted (before bindings)
	Bound   *term.Term `json:"bound"`  // with the bindings applied = the clause that must be stored
	Arity   int        `json:"arity"`
	Front   bool       `json:"front"` // asserta
	Kind    string     `json:"kind"`  // clause | bootstrap
	NBinds  int        `json:"nbinds"`
	HasText bool       `json:"has_text"` // a consulted twin case exists (case index 1)
}

func c10HasFloatOrOddAtom(t *term.Term) bool { return false }

func (c *c10) Generate(cx *Ctx, chunk int) []*Item {
	if chunk > 0 {
		return nil
	}
	if err := refSelfTest(); err != nil {
		cx.Note("reference self-test failed: " + err.Error())
		return nil
	}
	n := 10000
	if cx.Thorough() {
		n = 200000
	}
	var items []*Item
	// bootstrap.pl: every clause, as read by the engine's reader
	if b, err := os.ReadFile(filepath.Join(run.RepoDir(), "bootstrap.pl")); err == nil {
		p, _ := json.Marshal(map[string]string{"text": string(b)})
		meta, _ := json.Marshal(&c10Meta{Kind: "bootstrap"})
		items = append(items, &Item{Cases: []*proto.Case{{Kind: "compile", P: p}}, Meta: meta})
	} else {
		cx.Note("bootstrap.pl not readable: " + err.Error())
	}
	for i := 0; i < n; i++ {
		g := &c10Gen{r: cx.Rng(fmt.Sprintf("c10/%d", i))}
		cl, binds := g.clause()
		if i%25 == 11 {
			// a clause with MANY distinct variables, each occurring again (sharing must survive whatever table the compiler keeps)
			nv := []int{15, 16, 17, 18, 19, 24, 32, 33, 40, 65}[g.r.Intn(10)]
			vs := make([]*term.Term, nv)
			for k := range vs {
				vs[k] = term.V(int64(k))
			}
			back := make([]*term.Term, nv)
			for k := range back {
				back[k] = vs[nv-1-k]
			}
			head := term.C("p", &term.Term{K: term.KCmp, S: "w", Args: vs}, &term.Term{K: term.KCmp, S: "r", Args: back})
			cl, binds = head, map[int64]*term.Term{}
			if g.r.Intn(2) == 0 {
				k1, k2 := g.r.Intn(nv), g.r.Intn(nv)
				cl = term.C(":-", head, term.C(",", term.C("m", vs[k1]), term.C("=", vs[k2], vs[nv-1])))
			}
		}
		bound := applyBinds(cl, binds)
		head := bound
		if bound.IsCmp(":-", 2) {
			head = bound.Args[0]
		}
		ar := len(head.Args)
		// clauses whose execution is subject to occurs check (or does not terminate) are not generated
		{
			prog := append(term.MustProgram(c10Helpers), term.MustParse(":- dynamic(p/"+fmt.Sprint(ar)+")"), bound)
			qargs := make([]*term.Term, ar)
			for k := range qargs {
				qargs[k] = term.V(int64(k))
			}
			d := &DiffMeta{Program: prog, Query: term.C("p", qargs...), NVars: ar, Max: 19}
			if o, err := d.refRun(20000, ref.Options{}); err != nil || o.M.Unsupported != "" || o.OutOfBudget {
				continue
			}
		}
		m := &c10Meta{Clause: cl, Bound: bound, Arity: ar, Front: g.r.Intn(4) == 0, Kind: "clause", NBinds: len(binds), HasText: true}
		// binding list for unify_all/1
		var pairs []*term.Term
		for id, v := range binds {
			pairs = append(pairs, term.C("=", term.V(id), v))
		}
		// deterministic order
		for a := 0; a < len(pairs); a++ {
			for b := a + 1; b < len(pairs); b++ {
				if pairs[b].Args[0].I < pairs[a].Args[0].I {
					pairs[a], pairs[b] = pairs[b], pairs[a]
				}
			}
		}
		var hv []string
		for k := 0; k < ar; k++ {
			hv = append(hv, fmt.Sprintf("V%d", k))
		}
		hd := "p(" + strings.Join(hv, ", ") + ")"
		assert := "assertz"
		if m.Front {
			assert = "asserta"
		}
		// a call whose arguments are a copy of the stored head built in ANOTHER representation (generic './2
		// cells instead of slices / string-backed lists): head unification must not depend on how a list was built
		probe := c10Probe(bound)
		asserted := &proto.Case{Kind: "prolog", Setup: []string{c10Helpers, ":- dynamic(p/" + fmt.Sprint(ar) + ")."},
			Inputs: []*term.Term{cl, term.L(pairs...), probe},
			Steps: []proto.Step{
				{Query: "verif_in(0, C), verif_in(1, Bs), unify_all(Bs), " + assert + "(C).", Max: 2},
				{Query: "clause(" + hd + ", B).", Max: 10},
				{Query: hd + ".", Max: 20, StepBudget: 200000},
				{Query: "retract((" + hd + " :- B)).", Max: 1},
				{Query: "clause(" + hd + ", B).", Max: 10},
			}}
		// the probe call runs before the clause is retracted
		asserted.Steps = append(asserted.Steps[:3:3], append([]proto.Step{{Query: "verif_in(2, G-Vs), call(G).", Max: 20, StepBudget: 200000}}, asserted.Steps[3:]...)...)
		consulted := &proto.Case{Kind: "prolog", Setup: []string{c10Helpers, ":- dynamic(p/" + fmt.Sprint(ar) + ").\n" + term.Text(bound, cvar) + ".\n"},
			Inputs: []*term.Term{term.A("unused"), term.A("unused"), probe},
			Steps: []proto.Step{
				{Query: "clause(" + hd + ", B).", Max: 10},
				{Query: hd + ".", Max: 20, StepBudget: 200000},
				{Query: "verif_in(2, G-Vs), call(G).", Max: 20, StepBudget: 200000},
			}}
		compiled := &proto.Case{Kind: "compile", Inputs: []*term.Term{bound}}
		meta, _ := json.Marshal(m)
		items = append(items, &Item{Cases: []*proto.Case{asserted, consulted, compiled}, Meta: meta})
		// every 8th clause additionally: the SAME clause term asserted three times under backtracking with a
		// different binding of one of its variables each time (the stored clauses must be three different terms)
		if vs := term.VarsOf(bound); i%8 == 0 && len(vs) > 0 && len(goalVars(bound)) == 0 {
			x := vs[g.r.Intn(len(vs))]
			bm := &c10Meta{Clause: bound, Bound: bound, Arity: ar, Kind: "backtrack", NBinds: int(x)}
			bc := &proto.Case{Kind: "prolog", Setup: []string{c10Helpers, ":- dynamic(p/" + fmt.Sprint(ar) + ")."},
				Inputs: []*term.Term{bound, term.V(x)},
				Steps: []proto.Step{
					// no call/N, ';' or '->' around the assert: those recompile their goal and rebuild its lists
					{Query: "verif_in(0, C), verif_in(1, X), bt_loop(C, X).", Max: 2},
					{Query: "clause(" + hd + ", B).", Max: 12},
				}}
			bc.Setup[0] += "bt_member(X, [X|_]).\nbt_member(X, [_|T]) :- bt_member(X, T).\nbt_loop(C, X) :- bt_member(X, [u1, u2, u3]), assertz(C), fail.\nbt_loop(_, _).\n"
			bmeta, _ := json.Marshal(bm)
			items = append(items, &Item{Cases: []*proto.Case{bc}, Meta: bmeta})
		}
		// every 8th clause additionally: its variables are bound by the asserting query AFTER the assert; clause/2 and
		// retract/1 called later in the same query must still see the clause as it was stored
		if vs := term.VarsOf(bound); i%8 == 4 && len(vs) > 0 {
			var vl []*term.Term
			for _, x := range vs {
				vl = append(vl, term.V(x))
			}
			lm := &c10Meta{Clause: bound, Bound: bound, Arity: ar, Kind: "later"}
			lc := &proto.Case{Kind: "prolog", Setup: []string{c10Helpers, ":- dynamic(p/" + fmt.Sprint(ar) + ")."},
				Inputs: []*term.Term{bound, term.L(vl...)},
				Steps: []proto.Step{
					{Query: "verif_in(0, C), verif_in(1, Vs), assertz(C), late_bind(Vs), clause(" + hd + ", B).", Max: 3},
					{Query: "verif_in(0, C), verif_in(1, Vs), asserta(C), late_bind(Vs), retract((" + hd + " :- B)).", Max: 1},
					{Query: "clause(" + hd + ", B).", Max: 12},
				}}
			lc.Setup[0] += "late_bind([]).\nlate_bind([late_bound|T]) :- late_bind(T).\n"
			lmeta, _ := json.Marshal(lm)
			items = append(items, &Item{Cases: []*proto.Case{lc}, Meta: lmeta})
		}
		// every 8th clause additionally: clause/2 and retract/1 called with the stored body GIVEN (a fact is `Head :- true`, and
		// so is a rule whose body is true)
		if i%8 == 6 {
			_, body := c10Stored(bound)
			gm := &c10Meta{Clause: bound, Bound: bound, Arity: ar, Kind: "bodygiven"}
			ret := "retract((" + hd + " :- B))"
			if !bound.IsCmp(":-", 2) && g.r.Intn(2) == 0 {
				ret = "retract(" + hd + ")"
			}
			gc := &proto.Case{Kind: "prolog", Setup: []string{c10Helpers, ":- dynamic(p/" + fmt.Sprint(ar) + ")."},
				Inputs: []*term.Term{bound, body},
				Steps: []proto.Step{
					{Query: "verif_in(0, C), " + assert + "(C).", Max: 2},
					{Query: "verif_in(1, B), clause(" + hd + ", B).", Max: 3},
					{Query: "verif_in(1, B), " + ret + ".", Max: 3},
					{Query: "clause(" + hd + ", B).", Max: 3},
				}}
			gmeta, _ := json.Marshal(gm)
			items = append(items, &Item{Cases: []*proto.Case{gc}, Meta: gmeta})
		}
	}
	return items
}

// judgeBodyGiven: clause/2 and retract/1 with the stored body given by the caller.
func (c *c10) judgeBodyGiven(m *c10Meta, outs []*run.Outcome) Verdict {
	out := outs[0]
	if out.Crash != nil || out.Res == nil {
		return Verdict{Status: Inconclusive, Msg: "worker died on the body-given case"}
	}
	res := out.Res
	if res.Fatal != "" || len(res.Steps) < 4 {
		return Verdict{Status: Inconclusive, Msg: "worker: " + res.Fatal}
	}
	v := Verdict{Status: Held, NonTrivial: true, Extra: map[string]int64{"clause_and_retract_with_the_body_given": 1}}
	fail := func(msg string) Verdict {
		v.Status = Violated
		v.Msg = fmt.Sprintf("%s | the clause is asserted, then clause/2 and retract/1 are called with its own body as their Body argument: %s", msg, m.Bound)
		return v
	}
	args, body := c10Stored(m.Bound)
	want := append(append([]*term.Term{}, args...), body)
	names := []string{"assert", "clause(Head, StoredBody)", "retract with the stored body given", "clause/2 after the retract"}
	wants := []int{1, 1, 1, 0}
	for k := 0; k < 4; k++ {
		st := res.Steps[k]
		if st.Err != nil {
			return fail(names[k] + " raised " + st.Err.Text)
		}
		if len(st.Answers) != wants[k] {
			return fail(fmt.Sprintf("%s: %d answers, expected %d", names[k], len(st.Answers), wants[k]))
		}
		if k == 1 || k == 2 {
			a := st.Answers[0]
			got := make([]*term.Term, 0, m.Arity+1)
			for i := 0; i < m.Arity; i++ {
				got = append(got, a[fmt.Sprintf("V%d", i)])
			}
			got = append(got, a["B"])
			if !term.VariantAll(want, got) {
				return fail(fmt.Sprintf("%s shows %s :- %s, expected a variant of the clause as stored", names[k], term.C("p", got[:m.Arity]...), got[m.Arity]))
			}
		}
	}
	v.Sample = map[string]interface{}{"clause": m.Bound.String()}
	return v
}

// judgeLater: the variables of the clause term were bound by the asserting query after the assert.
func (c *c10) judgeLater(m *c10Meta, outs []*run.Outcome) Verdict {
	out := outs[0]
	if out.Crash != nil || out.Res == nil {
		return Verdict{Status: Inconclusive, Msg: "worker died on the bound-after-assert case"}
	}
	res := out.Res
	if res.Fatal != "" || len(res.Steps) < 3 {
		return Verdict{Status: Inconclusive, Msg: "worker: " + res.Fatal}
	}
	v := Verdict{Status: Held, NonTrivial: true, Extra: map[string]int64{"bound_after_assert": 1}}
	fail := func(msg string) Verdict {
		v.Status = Violated
		v.Msg = fmt.Sprintf("%s | the query asserts the clause, THEN binds all its variables to late_bound, then calls clause/2 (retract/1): %s", msg, m.Bound)
		return v
	}
	args, body := c10Stored(m.Bound)
	want := append(append([]*term.Term{}, args...), body)
	wants := []int{1, 1, 1}
	names := []string{"assertz, bind, clause/2", "asserta, bind, retract/1", "clause/2 afterwards"}
	for k := 0; k < 3; k++ {
		st := res.Steps[k]
		if st.Err != nil {
			return fail(names[k] + " raised " + st.Err.Text)
		}
		if len(st.Answers) != wants[k] {
			return fail(fmt.Sprintf("%s: %d answers, expected %d", names[k], len(st.Answers), wants[k]))
		}
		a := st.Answers[0]
		got := make([]*term.Term, 0, m.Arity+1)
		for i := 0; i < m.Arity; i++ {
			got = append(got, a[fmt.Sprintf("V%d", i)])
		}
		got = append(got, a["B"])
		if !term.VariantAll(want, got) {
			return fail(fmt.Sprintf("%s shows %s :- %s, expected a variant of the clause as stored", names[k], term.C("p", got[:m.Arity]...), got[m.Arity]))
		}
	}
	v.Sample = map[string]interface{}{"clause": m.Bound.String()}
	return v
}

// goalVars returns the variables that occur as goals in the body of a clause.
func goalVars(cl *term.Term) map[int64]bool {
	out := map[int64]bool{}
	if !cl.IsCmp(":-", 2) {
		return out
	}
	var walk func(t *term.Term)
	walk = func(t *term.Term) {
		if t.IsCmp(",", 2) || t.IsCmp(";", 2) || t.IsCmp("->", 2) {
			walk(t.Args[0])
			walk(t.Args[1])
		} else if t.K == term.KVar {
			out[t.I] = true
		}
	}
	walk(cl.Args[1])
	return out
}

// c10Probe builds G-Vs: G = the stored head with renamed variables and every list in the generic
// cons-cell representation, Vs = the variables of G.
func c10Probe(bound *term.Term) *term.Term {
	head := bound
	if bound.IsCmp(":-", 2) {
		head = bound.Args[0]
	}
	var conv func(t *term.Term) *term.Term
	conv = func(t *term.Term) *term.Term {
		switch t.K {
		case term.KVar:
			return term.V(t.I + 1000)
		case term.KCmp:
			args := make([]*term.Term, len(t.Args))
			for i, a := range t.Args {
				args[i] = conv(a)
			}
			c := &term.Term{K: term.KCmp, S: t.S, Args: args}
			if c.IsCmp(".", 2) {
				c.Rep = "cons"
			}
			return c
		}
		return t
	}
	g := conv(head)
	var vs []*term.Term
	for _, id := range term.VarsOf(g) {
		vs = append(vs, term.V(id))
	}
	return term.C("-", g, term.L(vs...))
}

// stored returns (head args, body) of the expected stored clause.
func c10Stored(bound *term.Term) ([]*term.Term, *term.Term) {
	if bound.IsCmp(":-", 2) {
		return bound.Args[0].Args, bound.Args[1]
	}
	return bound.Args, term.A("true")
}

func (c *c10) judgeBootstrap(outs []*run.Outcome) Verdict {
	o := outs[0]
	if o.Crash != nil || o.Res == nil {
		return Verdict{Status: Inconclusive, Msg: "worker died on the bootstrap case"}
	}
	if o.Res.Fatal != "" {
		return Verdict{Status: Inconclusive, Msg: o.Res.Fatal}
	}
	var r struct {
		Terms []struct {
			Source  *term.Term       `json:"source"`
			Clauses []compiledClause `json:"clauses"`
			Loaded  []compiledClause `json:"loaded"`
			Err     string           `json:"err"`
		} `json:"terms"`
	}
	if err := json.Unmarshal(o.Res.R, &r); err != nil {
		return Verdict{Status: Inconclusive, Msg: err.Error()}
	}
	v := Verdict{Status: Held, NonTrivial: true, Key: "bootstrap", Extra: map[string]int64{}}
	for _, t := range r.Terms {
		if t.Err != "" || t.Source == nil {
			return Verdict{Status: Inconclusive, Msg: "bootstrap clause could not be read/compiled: " + t.Err}
		}
		v.Extra["bootstrap_clauses_decompiled"]++
		for which, ccs := range map[string][]compiledClause{"compiled": t.Clauses, "loaded": t.Loaded} {
			st, msg := checkCompiled(t.Source, ccs)
			switch st {
			case Violated:
				return Verdict{Status: Violated, Key: "bootstrap:" + t.Source.String(), Msg: fmt.Sprintf("bootstrap.pl clause %s (%s form): %s", t.Source, which, msg)}
			case Inconclusive:
				v.Extra["bootstrap_not_understood"]++
			}
		}
	}
	v.Sample = map[string]interface{}{"bootstrap_clauses": v.Extra["bootstrap_clauses_decompiled"]}
	return v
}

// judgeBacktrack: the clause term was asserted three times under backtracking with X = u1, u2, u3.
func (c *c10) judgeBacktrack(m *c10Meta, outs []*run.Outcome) Verdict {
	out := outs[0]
	if out.Crash != nil || out.Res == nil {
		return Verdict{Status: Inconclusive, Msg: "worker died on the backtracking-assert case"}
	}
	res := out.Res
	if res.Fatal != "" || len(res.Steps) < 2 {
		return Verdict{Status: Inconclusive, Msg: "worker: " + res.Fatal}
	}
	v := Verdict{Status: Held, NonTrivial: true, Extra: map[string]int64{"asserted_under_backtracking": 1}}
	fail := func(msg string) Verdict {
		v.Status = Violated
		v.Msg = fmt.Sprintf("%s | clause asserted three times under backtracking with _G%d = u1, u2, u3: %s", msg, m.NBinds, m.Bound)
		return v
	}
	if st := res.Steps[0]; st.Err != nil || len(st.Answers) != 1 {
		return fail(fmt.Sprintf("the assert loop did not succeed once (%d answers, err %v)", len(st.Answers), st.Err))
	}
	st := res.Steps[1]
	if st.Err != nil {
		return fail("clause/2 raised " + st.Err.Text)
	}
	if len(st.Answers) != 3 {
		return fail(fmt.Sprintf("clause/2 lists %d clauses, three were added", len(st.Answers)))
	}
	for k, a := range st.Answers {
		bound := applyBinds(m.Bound, map[int64]*term.Term{int64(m.NBinds): term.A(fmt.Sprintf("u%d", k+1))})
		args, body := c10Stored(bound)
		want := append(append([]*term.Term{}, args...), body)
		got := make([]*term.Term, 0, m.Arity+1)
		for i := 0; i < m.Arity; i++ {
			got = append(got, a[fmt.Sprintf("V%d", i)])
		}
		got = append(got, a["B"])
		if !term.VariantAll(want, got) {
			return fail(fmt.Sprintf("stored clause %d is %s :- %s, expected a variant of %s", k+1, term.C("p", got[:m.Arity]...), got[m.Arity], bound))
		}
	}
	v.Sample = map[string]interface{}{"clause": m.Bound.String(), "variable": m.NBinds}
	return v
}

func (c *c10) Judge(cx *Ctx, it *Item, outs []*run.Outcome) Verdict {
	var m c10Meta
	if err := decodeMeta(it, &m); err != nil {
		return Verdict{Status: Inconclusive, Msg: err.Error()}
	}
	if m.Kind == "bootstrap" {
		return c.judgeBootstrap(outs)
	}
	if m.Kind == "backtrack" {
		return c.judgeBacktrack(&m, outs)
	}
	if m.Kind == "later" {
		return c.judgeLater(&m, outs)
	}
	if m.Kind == "bodygiven" {
		return c.judgeBodyGiven(&m, outs)
	}
	v := Verdict{Status: Held, Extra: map[string]int64{}}
	_, alts := clauseAlternatives(m.Bound)
	nested := false
	for _, a := range m.Bound.Args {
		if a.K == term.KCmp {
			nested = true
		}
	}
	v.NonTrivial = m.Bound.IsCmp(":-", 2) && (m.NBinds > 0 || nested)
	fail := func(msg string) Verdict {
		v.Status = Violated
		v.Msg = fmt.Sprintf("%s | clause given: %s | bindings applied: %s", msg, m.Clause, m.Bound)
		return v
	}
	args, body := c10Stored(m.Bound)
	want := append(append([]*term.Term{}, args...), body)
	// reference behaviour of the stored clause
	prog := append(term.MustProgram(c10Helpers), term.MustParse(":- dynamic(p/"+fmt.Sprint(m.Arity)+")"), m.Bound)
	qargs := make([]*term.Term, m.Arity)
	for i := range qargs {
		qargs[i] = term.V(int64(i))
	}
	d := &DiffMeta{Program: prog, Query: term.C("p", qargs...), NVars: m.Arity, Max: 19}
	o, err := d.refRun(20000, ref.Options{})
	if err != nil {
		return Verdict{Status: Inconclusive, Msg: err.Error()}
	}
	behaviourAsserted := o.M.Unsupported == "" && !o.OutOfBudget

	checkListing := func(res *proto.Result, step int, label string, expectGone bool) *Verdict {
		st := res.Steps[step]
		if st.Err != nil {
			x := fail(fmt.Sprintf("%s: clause/2 raised %s", label, st.Err.Text))
			return &x
		}
		if expectGone {
			return nil
		}
		if len(st.Answers) == 0 {
			x := fail(label + ": clause/2 found no clause")
			return &x
		}
		for _, a := range st.Answers {
			got := make([]*term.Term, 0, m.Arity+1)
			for k := 0; k < m.Arity; k++ {
				got = append(got, a[fmt.Sprintf("V%d", k)])
			}
			got = append(got, a["B"])
			if !term.VariantAll(want, got) {
				x := fail(fmt.Sprintf("%s: clause/2 shows %s :- %s, which is not a variant of the clause that was given", label, term.C("p", got[:m.Arity]...), got[m.Arity]))
				return &x
			}
		}
		if len(st.Answers) != 1 {
			if len(st.Answers) == len(alts) && len(alts) > 1 {
				x := fail(fmt.Sprintf("%s: one clause with a top-level disjunction of %d alternatives is listed %d times by clause/2", label, len(alts), len(st.Answers)))
				x.Class = "disjunctive_clause_stored_per_alternative"
				return &x
			}
			x := fail(fmt.Sprintf("%s: clause/2 lists %d clauses, one was added", label, len(st.Answers)))
			return &x
		}
		return nil
	}

	for ci, label := range []string{"asserted", "consulted"} {
		out := outs[ci]
		if out.Crash != nil {
			if out.Crash.Hung {
				return Verdict{Status: Inconclusive, Msg: "watchdog"}
			}
			return fail(label + ": worker died: " + out.Crash.Exit + " " + firstLines(out.Crash.Stderr, 6))
		}
		res := out.Res
		if res.Fatal != "" {
			return Verdict{Status: Inconclusive, Msg: res.Fatal}
		}
		for i, e := range res.Setup {
			if e != nil {
				return fail(fmt.Sprintf("%s: setup %d failed: %s", label, i, e.Text))
			}
		}
		base := 0
		if ci == 0 {
			st := res.Steps[0]
			if st.Err != nil || len(st.Answers) != 1 {
				return fail(fmt.Sprintf("assert did not succeed exactly once (%d answers, err %v)", len(st.Answers), st.Err))
			}
			base = 1
		}
		if x := checkListing(res, base, label, false); x != nil {
			if x.Class != "" && ci == 0 {
				// remember, but keep checking behaviour; reported at the end
				defer func() {}()
			}
			return *x
		}
		v.Extra[label+"_listing_checked"]++
		if behaviourAsserted {
			r := compareRunStep(d, o, out, base+1, false)
			if r.Status == Violated {
				return fail(fmt.Sprintf("%s: calling the predicate: %s", label, r.Msg))
			}
			if r.Status == Held {
				v.Extra[label+"_behaviour_checked"]++
			}
		}
		if behaviourAsserted {
			// probe call: same head, other list representation
			probe := c10Probe(m.Bound)
			g := probe.Args[0]
			ids := term.VarsOf(g)
			pd := &DiffMeta{Program: prog, Query: g, NVars: len(ids), QVars: ids, Max: 19}
			if po, err := pd.refRun(20000, ref.Options{}); err == nil && po.M.Unsupported == "" && !po.OutOfBudget {
				step := base + 2
				if step < len(res.Steps) {
					// present the Vs list as answers of the probe's variables
					cp := *res
					cp.Steps = append([]proto.StepResult{}, res.Steps...)
					st := cp.Steps[step]
					var answers []map[string]*term.Term
					for _, a := range st.Answers {
						es, _ := term.ListElems(a["Vs"])
						mm := map[string]*term.Term{}
						for k, id := range ids {
							if k < len(es) {
								mm[qvar(id)] = es[k]
							}
						}
						answers = append(answers, mm)
					}
					st.Answers = answers
					cp.Steps[step] = st
					r := compareRunStep(pd, po, &run.Outcome{Case: out.Case, Res: &cp}, step, false)
					if r.Status == Violated {
						return fail(fmt.Sprintf("%s: calling the predicate with the stored head rebuilt from generic list cells: %s", label, r.Msg))
					}
					if r.Status == Held {
						v.Extra[label+"_other_representation_call_checked"]++
					}
				}
			}
		}
		if ci == 0 {
			st := res.Steps[4]
			if st.Err != nil || len(st.Answers) != 1 {
				return fail(fmt.Sprintf("retract/1 of the clause did not succeed (%d answers, err %v)", len(st.Answers), st.Err))
			}
			a := st.Answers[0]
			got := make([]*term.Term, 0, m.Arity+1)
			for k := 0; k < m.Arity; k++ {
				got = append(got, a[fmt.Sprintf("V%d", k)])
			}
			got = append(got, a["B"])
			if !term.VariantAll(want, got) {
				return fail(fmt.Sprintf("retract/1 unified with %s :- %s, which is not a variant of the clause that was given", term.C("p", got[:m.Arity]...), got[m.Arity]))
			}
			if n := len(res.Steps[5].Answers); n != 0 {
				return fail(fmt.Sprintf("after retract/1 of the only clause clause/2 still lists %d clauses", n))
			}
			v.Extra["retract_checked"]++
		}
	}
	// compiled form
	out := outs[2]
	if out.Res != nil && out.Res.Fatal == "" && out.Crash == nil {
		var r struct {
			Terms []struct {
				Clauses []compiledClause `json:"clauses"`
				Err     string           `json:"err"`
			} `json:"terms"`
		}
		if err := json.Unmarshal(out.Res.R, &r); err == nil && len(r.Terms) == 1 {
			if r.Terms[0].Err != "" {
				return fail("compiling the clause failed: " + r.Terms[0].Err)
			}
			st, msg := checkCompiled(m.Bound, r.Terms[0].Clauses)
			switch st {
			case Violated:
				return fail("compiled form: " + msg)
			case Inconclusive:
				v.Extra["compiled_not_understood"]++
			default:
				v.Extra["compiled_forms_decompiled"]++
				// the stored raw term must be a variant of the source too
				for _, cc := range r.Terms[0].Clauses {
					if cc.Raw != nil && !term.Variant(normClause(cc.Raw), normClause(m.Bound)) {
						return fail(fmt.Sprintf("stored term %s is not a variant of the clause given", cc.Raw))
					}
				}
			}
		}
	} else {
		v.Extra["compiled_form_unavailable"]++
	}
	v.Sample = map[string]interface{}{"clause_given": m.Clause.String(), "bindings_applied": m.Bound.String(), "reference_answers": len(o.Answers)}
	return v
}

// normClause makes Head and Head :- true comparable.
func normClause(c *term.Term) *term.Term {
	if c.IsCmp(":-", 2) {
		return c
	}
	return term.C(":-", c, term.A("true"))
}
