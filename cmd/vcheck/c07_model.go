package main

// Exact arithmetic model for C07 (the oracle). Integers are computed on math/big, floats with single Go
// float64 operations (IEEE-754 binary64, round to nearest even). The model is SET-VALUED: an expression
// denotes the set of outcomes the property statement allows (usually one value or one error), so that the
// places where the statement leaves a choice never produce a false alarm and still propagate through
// expression trees. It shares no code with the engine.

import (
	"math"
	"math/big"
	"strings"

	"verif/internal/term"
)

// c07Model: the zero value is the statement. The dev* switches turn on DEVIATION MODELS, used only to give a
// violation a stable class name when the observation is exactly what the deviation predicts:
// devPowMin: (+-1) ^ minInt raises int_overflow (the engine negates the exponent first);
// devAddPre: float + and - raise float_overflow when x > fl(max - y) resp. x < fl(-max - y), i.e. (up to the
// rounding of that pre-check) when the EXACT sum lies beyond +-max although the IEEE sum is the finite +-max.
type c07Model struct{ devPowMin, devAddPre bool }

type c07Val struct {
	F bool
	I int64
	X float64
}

func c07I(n int64) c07Val   { return c07Val{I: n} }
func c07F(x float64) c07Val { return c07Val{F: true, X: x} }

func (v c07Val) float() float64 {
	if v.F {
		return v.X
	}
	return float64(v.I) // int64 -> binary64, round to nearest even
}

func (v c07Val) same(w c07Val) bool {
	if v.F != w.F {
		return false
	}
	if v.F {
		return math.Float64bits(v.X) == math.Float64bits(w.X)
	}
	return v.I == w.I
}

func (v c07Val) text() string {
	if v.F {
		return c07NumText(term.F(v.X))
	}
	return term.I(v.I).String()
}

// c07Set is the set of allowed outcomes of evaluating an expression.
type c07Set struct {
	vals   []c07Val
	errs   []string // allowed error Formals, canonical text
	anyVal bool     // the statement does not constrain the value (then anyErr is set too)
	anyErr bool     // any evaluation_error / type_error is allowed
	weak   bool     // a value checked only to <= 1 ulp against Go's math is involved
	why    string   // first reason why this is only partly / not asserted
}

const c07MaxAlts = 24

func (s *c07Set) addVal(v c07Val) {
	for _, w := range s.vals {
		if w.same(v) {
			return
		}
	}
	s.vals = append(s.vals, v)
}

func (s *c07Set) addErr(e string) {
	for _, f := range s.errs {
		if f == e {
			return
		}
	}
	s.errs = append(s.errs, e)
}

// absorb adds everything but the values of o.
func (s *c07Set) absorb(o *c07Set) {
	for _, e := range o.errs {
		s.addErr(e)
	}
	s.anyErr = s.anyErr || o.anyErr
	s.anyVal = s.anyVal || o.anyVal
	s.weak = s.weak || o.weak
	if s.why == "" {
		s.why = o.why
	}
}

func (s *c07Set) merge(o *c07Set) {
	s.absorb(o)
	for _, v := range o.vals {
		s.addVal(v)
	}
}

func c07EvalErr(e string) string { return "evaluation_error(" + e + ")" }

func c07Err(e string) *c07Set    { return &c07Set{errs: []string{c07EvalErr(e)}} }
func c07One(v c07Val) *c07Set    { return &c07Set{vals: []c07Val{v}} }
func c07Free(why string) *c07Set { return &c07Set{anyVal: true, anyErr: true, why: why} }
func c07FromBig(z *big.Int) *c07Set {
	if z.IsInt64() {
		return c07One(c07I(z.Int64()))
	}
	return c07Err("int_overflow")
}

// c07FromFloat classifies the IEEE result r of a basic operation; exactNonZero tells that the exact
// (unrounded) result is not zero.
func c07FromFloat(r float64, exactNonZero bool) *c07Set {
	switch {
	case math.IsNaN(r):
		return c07Err("undefined")
	case math.IsInf(r, 0):
		return c07Err("float_overflow")
	case r == 0 && exactNonZero:
		s := c07One(c07F(r))
		s.addErr(c07EvalErr("underflow"))
		return s
	}
	return c07One(c07F(r))
}

const c07MinNormal = 2.2250738585072014e-308

// c07Weak: the value Go's math package computes, +-1 ulp.
func c07Weak(r float64, why string) *c07Set {
	s := &c07Set{weak: true, why: why}
	if math.IsNaN(r) || math.IsInf(r, 0) {
		s.addErr(c07EvalErr("undefined"))
		s.addErr(c07EvalErr("float_overflow"))
		s.addErr(c07EvalErr("zero_divisor"))
		return s
	}
	s.addVal(c07F(r))
	for _, n := range []float64{math.Nextafter(r, math.Inf(1)), math.Nextafter(r, math.Inf(-1))} {
		if !math.IsInf(n, 0) {
			s.addVal(c07F(n))
		}
	}
	if r == 0 {
		s.addVal(c07F(0))
		s.addVal(c07F(math.Copysign(0, -1)))
	}
	if math.Abs(r) < c07MinNormal {
		s.addErr(c07EvalErr("underflow"))
	}
	return s
}

func c07BothZeros(s *c07Set) *c07Set {
	for _, v := range s.vals {
		if v.F && v.X == 0 {
			s.addVal(c07F(0))
			s.addVal(c07F(math.Copysign(0, -1)))
			break
		}
	}
	return s
}

var c07Big1 = big.NewInt(1)

func c07FloorDivMod(a, b *big.Int) (q, m *big.Int) {
	q, m = new(big.Int).QuoRem(a, b, new(big.Int)) // truncated quotient, remainder with the sign of a
	if m.Sign() != 0 && (m.Sign() < 0) != (b.Sign() < 0) {
		q.Sub(q, c07Big1)
		m.Add(m, b)
	}
	return q, m
}

func c07IntPow(a, e int64) *c07Set { // e >= 0
	switch {
	case e == 0:
		return c07One(c07I(1))
	case a == 0 || a == 1:
		return c07One(c07I(a))
	case a == -1:
		if e%2 == 0 {
			return c07One(c07I(1))
		}
		return c07One(c07I(-1))
	case e > 64:
		return c07Err("int_overflow")
	}
	return c07FromBig(new(big.Int).Exp(big.NewInt(a), big.NewInt(e), nil))
}

// c07ToInt converts an integral-valued finite float exactly.
func c07ToInt(f float64) *c07Set {
	z, _ := new(big.Float).SetFloat64(f).Int(nil)
	return c07FromBig(z)
}

func (m *c07Model) binary(op string, a, b c07Val) *c07Set {
	ints := !a.F && !b.F
	x, y := a.float(), b.float()
	switch op {
	case "+", "-", "*":
		if ints {
			z := new(big.Int)
			switch op {
			case "+":
				z.Add(big.NewInt(a.I), big.NewInt(b.I))
			case "-":
				z.Sub(big.NewInt(a.I), big.NewInt(b.I))
			default:
				z.Mul(big.NewInt(a.I), big.NewInt(b.I))
			}
			return c07FromBig(z)
		}
		if op == "*" {
			return c07FromFloat(x*y, x != 0 && y != 0)
		}
		if op == "-" {
			y = -y // exact
		}
		if m.devAddPre && (y > 0 && x > math.MaxFloat64-y || y < 0 && x < -math.MaxFloat64-y) {
			return c07Err("float_overflow")
		}
		return c07FromFloat(x+y, false) // a zero sum of binary64 numbers is exact
	case "/":
		if ints {
			if b.I == 0 {
				return c07Err("zero_divisor")
			}
			s := c07One(c07F(x / y))
			s.why = "int_slash_int"
			q, _ := new(big.Rat).SetFrac(big.NewInt(a.I), big.NewInt(b.I)).Float64() // correctly rounded exact quotient
			s.addVal(c07F(q))
			if qi, r := new(big.Int).QuoRem(big.NewInt(a.I), big.NewInt(b.I), new(big.Int)); r.Sign() == 0 {
				s.merge(c07FromBig(qi))
			}
			return s
		}
		if y == 0 {
			s := c07Err("zero_divisor")
			if x == 0 {
				s.addErr(c07EvalErr("undefined"))
			} else {
				s.addErr(c07EvalErr("float_overflow"))
			}
			return s
		}
		return c07FromFloat(x/y, x != 0)
	case "//", "rem", "div", "mod":
		if !ints {
			return c07Free("integer_functor_float_operand")
		}
		if b.I == 0 {
			return c07Err("zero_divisor")
		}
		A, B := big.NewInt(a.I), big.NewInt(b.I)
		switch op {
		case "//":
			return c07FromBig(new(big.Int).Quo(A, B))
		case "rem":
			return c07FromBig(new(big.Int).Rem(A, B))
		}
		q, r := c07FloorDivMod(A, B)
		if op == "div" {
			return c07FromBig(q)
		}
		return c07FromBig(r)
	case "min", "max":
		if ints {
			if (a.I < b.I) == (op == "min") {
				return c07One(a)
			}
			return c07One(b)
		}
		s := &c07Set{}
		pick := func(v c07Val) {
			s.addVal(v)
			if !v.F { // mixed operands: the chosen integer as is or converted
				s.addVal(c07F(v.float()))
				s.why = "mixed_min_max"
			}
		}
		switch {
		case x == y:
			pick(a)
			pick(b)
		case (x < y) == (op == "min"):
			pick(a)
		default:
			pick(b)
		}
		return s
	case "/\\", "\\/", "xor":
		if !ints {
			return c07Free("integer_functor_float_operand")
		}
		switch op {
		case "/\\":
			return c07One(c07I(a.I & b.I))
		case "\\/":
			return c07One(c07I(a.I | b.I))
		}
		return c07One(c07I(a.I ^ b.I))
	case ">>", "<<":
		if !ints {
			return c07Free("integer_functor_float_operand")
		}
		if b.I < 0 || b.I > 63 {
			return c07Free("shift_count_outside_0_63")
		}
		if op == ">>" {
			return c07FromBig(new(big.Int).Rsh(big.NewInt(a.I), uint(b.I))) // floor(a / 2^s)
		}
		z := new(big.Int).Lsh(big.NewInt(a.I), uint(b.I))
		if z.IsInt64() {
			return c07One(c07I(z.Int64()))
		}
		// not constrained as to the error, but a (necessarily wrapped) value is not allowed
		return &c07Set{anyErr: true, why: "shift_overflow_any_error"}
	case "^":
		if !ints {
			return c07Weak(math.Pow(x, y), "weak_pow_float")
		}
		if b.I >= 0 {
			return c07IntPow(a.I, b.I)
		}
		switch a.I {
		case 1:
			if m.devPowMin && b.I == math.MinInt64 {
				return c07Err("int_overflow")
			}
			return c07One(c07I(1))
		case -1:
			if m.devPowMin && b.I == math.MinInt64 {
				return c07Err("int_overflow")
			}
			if b.I%2 == 0 {
				return c07One(c07I(1))
			}
			return c07One(c07I(-1))
		}
		return c07Free("pow_negative_exponent")
	case "**":
		s := c07Weak(math.Pow(x, y), "weak_pow_float")
		if ints {
			s.anyErr, s.why = true, "starstar_integers"
			if b.I >= 0 {
				if p := c07IntPow(a.I, b.I); len(p.vals) == 1 {
					s.addVal(p.vals[0])
				}
			}
		}
		return s
	case "atan2":
		s := c07Weak(math.Atan2(x, y), "weak_transcendental")
		if x == 0 && y == 0 {
			s.addErr(c07EvalErr("undefined"))
		}
		return s
	}
	return c07Free("unknown_functor")
}

func (m *c07Model) unary(op string, a c07Val) *c07Set {
	x := a.float()
	switch op {
	case "+":
		return c07One(a)
	case "-":
		if a.F {
			return c07One(c07F(-a.X))
		}
		return c07FromBig(new(big.Int).Neg(big.NewInt(a.I)))
	case "abs":
		if a.F {
			return c07One(c07F(math.Abs(a.X)))
		}
		return c07FromBig(new(big.Int).Abs(big.NewInt(a.I)))
	case "sign":
		if a.F {
			switch {
			case a.X > 0:
				return c07One(c07F(1))
			case a.X < 0:
				return c07One(c07F(-1))
			}
			return c07BothZeros(c07One(c07F(0)))
		}
		return c07One(c07I(int64(big.NewInt(a.I).Sign())))
	case "\\":
		if a.F {
			return c07Free("integer_functor_float_operand")
		}
		return c07One(c07I(^a.I))
	case "float":
		return c07One(c07F(x))
	case "float_integer_part", "float_fractional_part":
		if !a.F {
			return c07Free("float_functor_integer_operand")
		}
		t := math.Trunc(a.X)
		if op == "float_integer_part" {
			return c07BothZeros(c07One(c07F(t)))
		}
		return c07BothZeros(c07One(c07F(a.X - t))) // exact in binary64
	case "floor", "ceiling", "truncate", "round":
		if !a.F {
			return c07Free("float_functor_integer_operand")
		}
		switch op {
		case "floor":
			return c07ToInt(math.Floor(a.X))
		case "ceiling":
			return c07ToInt(math.Ceil(a.X))
		case "truncate":
			return c07ToInt(math.Trunc(a.X))
		}
		t := math.Trunc(a.X)
		frac := math.Abs(a.X - t) // exact
		switch {
		case frac < 0.5:
			return c07ToInt(t)
		case frac > 0.5:
			return c07ToInt(t + math.Copysign(1, a.X))
		}
		s := c07ToInt(t + math.Copysign(1, a.X)) // tie: half away from zero ...
		s.merge(c07ToInt(math.Floor(a.X) + 1))   // ... or floor(x + 1/2)
		if len(s.vals)+len(s.errs) > 1 {
			s.why = "round_tie"
		}
		return s
	case "sqrt":
		if x < 0 {
			return c07Err("undefined")
		}
		return c07BothZeros(c07One(c07F(math.Sqrt(x))))
	case "sin":
		return c07Weak(math.Sin(x), "weak_transcendental")
	case "cos":
		return c07Weak(math.Cos(x), "weak_transcendental")
	case "tan":
		return c07Weak(math.Tan(x), "weak_transcendental")
	case "asin":
		return c07Weak(math.Asin(x), "weak_transcendental")
	case "acos":
		return c07Weak(math.Acos(x), "weak_transcendental")
	case "atan":
		return c07Weak(math.Atan(x), "weak_transcendental")
	case "exp":
		return c07Weak(math.Exp(x), "weak_transcendental")
	case "log":
		return c07Weak(math.Log(x), "weak_transcendental")
	}
	return c07Free("unknown_functor")
}

// eval is the set of allowed outcomes of evaluating t.
func (m *c07Model) eval(t *term.Term) *c07Set {
	switch {
	case t.K == term.KInt:
		return c07One(c07I(t.I))
	case t.K == term.KFloat:
		return c07One(c07F(t.F))
	case t.K == term.KCmp && len(t.Args) == 1:
		A := m.eval(t.Args[0])
		out := &c07Set{}
		out.absorb(A)
		if A.anyVal {
			return out
		}
		for _, a := range A.vals {
			out.merge(m.unary(t.S, a))
		}
		return c07Cap(out)
	case t.K == term.KCmp && len(t.Args) == 2:
		A, B := m.eval(t.Args[0]), m.eval(t.Args[1])
		out := &c07Set{}
		out.absorb(A) // errors of either operand: ISO leaves the order of evaluation open
		out.absorb(B)
		if out.anyVal {
			out.anyErr = true
			return out
		}
		for _, a := range A.vals {
			for _, b := range B.vals {
				out.merge(m.binary(t.S, a, b))
			}
		}
		return c07Cap(out)
	}
	return c07Free("not_a_number_expression")
}

func c07Cap(s *c07Set) *c07Set {
	if s.anyVal {
		s.anyErr = true
	}
	if len(s.vals) > c07MaxAlts {
		return c07Free("too_many_alternatives")
	}
	return s
}

// c07Expect is what the oracle allows for one goal (X is E, or E1 op E2).
type c07Expect struct {
	cmp      bool
	set      *c07Set
	canTrue  bool
	canFalse bool
}

func (m *c07Model) expectIs(e *term.Term) *c07Expect { return &c07Expect{set: m.eval(e)} }

func c07Holds(op string, a, b c07Val) bool {
	c := 0 // -1, 0, 1, or 2 = unordered (cannot happen for finite values)
	if !a.F && !b.F {
		switch {
		case a.I < b.I:
			c = -1
		case a.I > b.I:
			c = 1
		}
	} else {
		x, y := a.float(), b.float()
		switch {
		case x < y:
			c = -1
		case x > y:
			c = 1
		case x != y:
			c = 2
		}
	}
	switch op {
	case "=:=":
		return c == 0
	case "=\\=":
		return c != 0
	case "<":
		return c == -1
	case "=<":
		return c == -1 || c == 0
	case ">":
		return c == 1
	}
	return c == 1 || c == 0
}

func (m *c07Model) expectCmp(op string, e1, e2 *term.Term) *c07Expect {
	A, B := m.eval(e1), m.eval(e2)
	x := &c07Expect{cmp: true, set: &c07Set{}}
	x.set.absorb(A)
	x.set.absorb(B)
	if x.set.anyVal {
		x.set.anyErr = true
		return x
	}
	for _, a := range A.vals {
		for _, b := range B.vals {
			if c07Holds(op, a, b) {
				x.canTrue = true
			} else {
				x.canFalse = true
			}
		}
	}
	return x
}

// asserted: the statement constrains the outcome at least partly.
func (x *c07Expect) asserted() bool { return !x.set.anyVal }

func (x *c07Expect) class() string {
	s := x.set
	nv := len(s.vals)
	if x.cmp {
		nv = 0
		if x.canTrue {
			nv++
		}
		if x.canFalse {
			nv++
		}
	}
	switch {
	case s.anyVal:
		return "unconstrained"
	case nv == 1 && len(s.errs) == 0 && !s.anyErr:
		switch {
		case x.cmp && x.canTrue:
			return "true"
		case x.cmp:
			return "false"
		case s.vals[0].F:
			return "float"
		}
		return "integer"
	case nv == 0 && len(s.errs) == 1 && !s.anyErr:
		return s.errs[0]
	case nv == 0 && len(s.errs) == 0 && s.anyErr:
		return "some_error"
	case nv == 0:
		return "one_of_several_errors"
	}
	if s.weak {
		return "float_within_1ulp"
	}
	return "one_of_several_outcomes"
}

func (x *c07Expect) text() string {
	s := x.set
	var alts []string
	if s.anyVal {
		return "(not constrained: any number, evaluation_error or type_error)"
	}
	if x.cmp {
		if x.canTrue {
			alts = append(alts, "true")
		}
		if x.canFalse {
			alts = append(alts, "false")
		}
	} else {
		for i, v := range s.vals {
			if i == 6 {
				alts = append(alts, "…")
				break
			}
			alts = append(alts, v.text())
		}
	}
	for _, e := range s.errs {
		alts = append(alts, "error "+e)
	}
	if s.anyErr {
		alts = append(alts, "any evaluation_error/type_error")
	}
	return strings.Join(alts, " | ")
}

// accepts decides one observation.
func (x *c07Expect) accepts(o *c07Obs, isGoal bool) bool {
	s := x.set
	if o.ball != nil {
		if !o.ball.IsCmp("error", 2) {
			return false
		}
		f := o.ball.Args[0]
		ft := f.String()
		for _, e := range s.errs {
			if e == ft {
				return true
			}
		}
		return s.anyErr && (f.IsCmp("evaluation_error", 1) || f.IsCmp("type_error", 2))
	}
	if !isGoal {
		if s.anyVal {
			return true
		}
		return o.truth == 1 && x.canTrue || o.truth == 0 && x.canFalse
	}
	if o.truth != 1 || o.val == nil {
		return false // is/2 failed
	}
	var got c07Val
	switch o.val.K {
	case term.KInt:
		got = c07I(o.val.I)
	case term.KFloat:
		got = c07F(o.val.F)
	default:
		return false
	}
	if s.anyVal {
		return true
	}
	for _, v := range s.vals {
		if v.same(got) {
			return true
		}
	}
	return false
}
