package main

import (
	"bytes"
	"encoding/json"
	"fmt"
	"math"
	"math/rand"
	"sort"
	"strings"
	"unicode"
	"unicode/utf8"

	"verif/internal/proto"
	"verif/internal/term"
)

// Workload A of C05: byte strings handed to Exec and Query.

// ---- corpus ------------------------------------------------------------------------------------------

// c05Hand: valid clauses / directives / queries written by hand, one full-stop-terminated text each.
var c05Hand = []string{
	"foo.", "foo(a).", "foo(a, b, c).", "foo(X, Y) :- bar(X), baz(Y).", "a :- b, c ; d -> e.", "a :- \\+ b.", "a :- b, !, c.", "a :- (b ; c), d.", "a :- ( b -> c ; d ).",
	"a :- b. a :- c.", "foo :- X = 1, Y is X + 1, Y > 1.", ":- X = 1.", ":- true.", "?- true.", ":- dynamic(foo/1).", ":- dynamic foo/1.", ":- initialization(true).", ":- op(200, xfy, ^).",
	":- op(700, xfx, ===), X = (a === b).", ":- set_prolog_flag(double_quotes, codes).", ":- include(nofile).", ":- ensure_loaded(nofile).", ":- discontiguous(foo/2).", ":- multifile(foo/2).",
	"s --> np, vp.", "np --> [the], n.", "x --> [a], !, {b}, \\+ c, call(d), \"str\".", "x, [a] --> y.", "x --> ( a ; b ), c.", "x --> a | b.",
	"X = [-].", "X = [a|b].", "X = [a, b | T].", "X = [a|[]].", "X = [[]].", "X = [[a], [b]].", "X = [a|_].", "X = [-|-].", "X = [a, -].", "X = [- , a].", "X = '[]'.", "X = [ ].", "[H|T] = [a, b].", "X = [a, b, c, d].",
	"X = [- 1].", "X = [-1].", "X = [-(1)].", "X = [a = b, c].", "X = [(a , b)].", "X = [(a :- b)].", "X = [\\+].", "X = [**].", "X = [:-].", "X = [|].", "X = '|'.", "X = [a|b|c].",
	"X = {}.", "X = {a}.", "X = {a, b}.", "X = { }.", "X = '{}'(a).", "X = {-}.", "X = {[]}.", "X = {{}}.", "X = {a :- b}.",
	"X = (a).", "X = ((a)).", "X = f((a, b)).", "X = f( a ).", "X = - (1).", "X = (a :- b).", "X = (a , b).", "X = (a ; b).", "X = (a -> b).", "X = (:- a).", "X = (a | b).", "X = f(:-).", "X = f((:-)).", "X = (:-).",
	"X = -1.", "X = - 1.", "X = -(1).", "X = - - 1.", "X = -(-(1)).", "X = a - -1.", "X = a - - 1.", "X = 1 - 1.", "X = 1-1.", "X = -a.", "X = - a.", "X = -(a).", "X = -(-(a)).", "X = -[1].", "X = -(1)^2.", "X = - (1) ^ 2.", "X = -1^2.", "X = 1 - -1.0.", "X = -1.0e10.",
	"X = \\+a.", "X = \\+ (a, b).", "X = \\+(a, b).", "X = \\+ \\+ a.", "X = (\\+).", "X = \\+ .", "X = a=..b.", "X is 1+2*3.", "X is (1+2)*3.", "X is 2**3.", "X is 2^3^4.", "X = a:b:c.", "X = (a->b;c).", "X = (a,b).", "X = (a;b).",
	"X = (a-->b,[c],{d}).", "X = (a:-b).", "X = (a|b).", "X = +(1,2).", "X = +(1).", "X = + 1.", "X = 1 + 2 + 3.", "X = 1 - 2 - 3.", "X = 1 * 2 + 3 * 4.", "X = 2 ** 3.", "X = 1 = 2.", "X = (1 = 2).", "X = (a = b = c).", "X = 1 < 2.", "X = a mod b.", "X = a rem b mod c.", "X = mod.", "X = mod(a, b).", "X = is.", "X = (is).",
	"X = f(+).", "X = f(+, -).", "X = f(- , a).", "X = f(a, -).", "X = f(-).", "X = [+, -, *].", "X = + .", "X = (+).", "X = f(a + b).", "X = f(a :- b).", "X = f((a :- b)).", "X = f(',').", "X = f(',', a).", "X = ','(a, b).", "X = ';'(a, b).", "X = '|'(a, b).", "X = f(;).", "X = f(!).", "X = f(;, '|', '[]').",
	"X = 'a'.", "X = 'hello world'.", "X = 'it''s'.", "X = '\\n'.", "X = '\\t'.", "X = '\\a'.", "X = '\\b'.", "X = '\\f'.", "X = '\\r'.", "X = '\\v'.", "X = '\\\\'.", "X = '\\''.", "X = '\\\"'.", "X = '\\`'.", "X = '\\x41\\'.", "X = '\\101\\'.", "X = '\\0\\'.", "X = 'a\\\nb'.", "X = ''.",
	"X = 'é'.", "X = '日本'.", "X = '[]'.", "X = '{}'.", "X = ','.", "X = '|'.", "X = 'a b'(c).", "X = 'A'.", "X = '_'.", "X = 'hello'(world).", "X = '\\x41\\\\x42\\'.", "X = 'a\"b`c'.", "'a b' :- 'c d'.", "X = '/*'.", "X = '%'.", "X = 'don''t'.",
	"X = \"abc\".", "X = \"\".", "X = \"a\"\"b\".", "X = \"\\n\".", "X = \"\\x41\\\".", "X = \"a\\\nb\".", "X = \"é\".", "X = \"it's\".", "X = \"a'b`c\".", "X = \"\\\"\".", "X = \"\\101\\\".", "X = \"日本語\".", "foo(\"abc\", 'abc', abc, `abc`).", "X = `abc`.", "X = `a``b`.", "X = \"a\" .",
	"a. % comment", "/* c */ a.", "a /* c */ :- /* d */ b.", "% only comment\na.", "a :- b. % c\nc :- d.", "/* multi\nline */ a.", "a/* no space */.", "X = a/*c*/.", "X = 1 /*c*/ + /*d*/ 2.", "/**/a.", "/***/a.", "/* * / */a.", "a.%", "X = '/* not a comment */'.", "X = \"% not a comment\".", "X = a. /* trailing",
	"X = _.", "X = _A.", "X = X1.", "X = Xy_z.", "X = _123.", "A = B.", "f(_, _, X, X).", "_ = _.", "X = Ünï.", "Ёж = 1.", "X = aB_c1.", "X = a1.", "X = éa.",
	"X = ?.", "foo(?, ?).", "X = [?, ?|?].", "X = f(?).", "? = ?.", "X = '?'.", "X = ? + ?.", "?.", "foo :- ?.",
	"a. b. c.", "a.\nb.\nc.\n", "a.b.", "a.b(c).", "X = a.b.", "X = 'a'.", "\"a\".", "a:-b.", "a:-b,c.", "#!/usr/bin/env 1pl\nfoo.", "X = 1.e.", "X = 1.a.", "X = 1.5.6.", "X = 1 .", "X = 1. ", "X = 1.\t", "X = 1.%", "X=1.", "X=a.", "X=\"a\".", "X='a'.", "X=[].", "X={}.", "X=f(a).", "X=(a).",
	"é.", "日本(語).", "X = ∀.", "α :- β.", "X = a ∀ b.", "X = ∀ a.", "X = (∀).", "x\u00a0:-\u00a0y.", "\ufeffa.", "a\u2028.",
	"X = f(a)(b).", "X = f (a).", "X = - (a).", "X = -(a)(b).", "X = [](a).", "X = {}(a).", "X = [] (a).", "X = a(b)(c).", "X = \"a\"(b).", "X = 1(a).", "X = X(a).", "X = _(a).",
	"X = f(a, (b :- c)).", "X = f((a , b), c).", "X = f(a ; b).", "X = f(a -> b).", "X = f(\\+ a).", "X = f(- 1).", "X = f(-1).", "X = f(- (1)).", "X = f(a - 1).", "X = f(a -1).", "X = f(a- 1).", "X = [a -1].", "X = 1 -1.", "X = a -1.", "X = (a) -1.", "X = f(a)-1.", "X = [a]-1.", "X = \"a\"-1.", "X = 'a'-1.", "X = 1-1-1.", "X = 1- -1.", "X = 1--1.",
	"X = 1.0Inf.", "X = inf.", "X = nan.", "X = 1r2.", "X = 1_000.", "X = 1 000.", "X = 0.5.", "X = .5.", "X = 5. ", "X = 1.0e.", "X = 1.0e+.", "X = 1.0e-.", "X = 1.0e+5.", "X = 1.0E5.", "X = 1e5.", "X = 1.e5.", "X = 1.0e5e5.", "X = 00.", "X = 007.", "X = 0.0.", "X = -0.0.", "X = 0 .",
}

// c05Numbers: number tokens in every base and character-code form.
var c05NumberTokens = []string{
	"0", "1", "42", "1.0", "3.14", "1.0e10", "1.0E-10", "1.5e+3", "0x1F", "0xff", "0xFF", "0o17", "0b1010", "0'a", "0'A", "0' ", "0'''", "0''", "0'\\n", "0'\\\\", "0'\\'", "0'\\x41\\", "0'\\101\\", "0'\"", "0'`", "0'\\\"", "0'\\`",
	"9223372036854775807", "-9223372036854775808", "9223372036854775808", "-9223372036854775809", "12345678901234567890123", "1.0e400", "1.0e-400", "-1", "- 1", "-1.5", "0.5", "0'é", "0'日", "0'\\t", "0'(", "0')", "0',", "0'|", "0'[", "0'%", "0'.", "0'_", "0'0",
	"0x", "0o", "0b", "0xg", "0o8", "0b2", "0'", "0'\\", "0'\\x", "0'\\x41", "0'\\z", "0x7FFFFFFFFFFFFFFF", "0x8000000000000000", "0xFFFFFFFFFFFFFFFFFFFF", "0b" + strings.Repeat("1", 64), "0o7777777777777777777777", "1.0e999999999", "1.0e-999999999", "1.0e99999999999999999999",
	"1.7976931348623157e308", "1.7976931348623159e308", "4.9e-324", "2.0e-324", "0.1e-500", "123456789.123456789e300", "0.00000000000000000000000000000000000000001", "0'\\x110000\\", "0'\\xD800\\", "0'\\777777\\", "0'\\0\\", "0'ab", "0'a'", "0''a",
}

// the operators of the default table, by class
var (
	c05Infix  = strings.Fields(`:- --> | ; -> , = \= == \== @< @=< @> @>= =.. is =:= =\= < =< > >= : + - /\ \/ * / // div rem mod << >> ** ^`)
	c05Prefix = strings.Fields(`:- ?- \+ + - \`)
)

func c05Corpus() []string {
	out := append([]string(nil), c05Hand...)
	for _, n := range c05NumberTokens {
		out = append(out, "X = "+n+".")
	}
	for i, n := range c05NumberTokens {
		switch i % 4 {
		case 0:
			out = append(out, "foo("+n+", "+n+").")
		case 1:
			out = append(out, "X is "+n+" + "+n+".")
		case 2:
			out = append(out, "X = ["+n+"|"+n+"].")
		}
	}
	for _, op := range c05Infix {
		out = append(out, "X = (a "+op+" b).", "a "+op+" b.", "X = f("+op+").", "X = 1"+op+"2.")
	}
	for _, op := range c05Prefix {
		out = append(out, op+" a.", "X = "+op+" a.", "X = "+op+"(a).", "X = "+op+" "+op+" a.", "X = ["+op+"].", "X = "+op+"(a, b).")
	}
	return out
}

// ---- a rough tokenizer of the controller (splits texts for mutations and counts tokens) -----------------

type c05Tok struct {
	S      string
	Layout bool
}

const c05SymbolChars = "#$&*+-./:<=>?@^~\\"

func c05Tokens(b []byte) []c05Tok {
	var out []c05Tok
	i := 0
	rn := func(k int) (rune, int) {
		if k >= len(b) {
			return -1, 0
		}
		return utf8.DecodeRune(b[k:])
	}
	isAlnum := func(r rune) bool { return r == '_' || unicode.IsLetter(r) || unicode.IsDigit(r) }
	for i < len(b) {
		r, n := rn(i)
		start := i
		switch {
		case r == utf8.RuneError && n <= 1:
			i++
			out = append(out, c05Tok{S: string(b[start:i])})
		case unicode.IsSpace(r):
			for i < len(b) {
				r, n := rn(i)
				if !unicode.IsSpace(r) || (r == utf8.RuneError && n <= 1) {
					break
				}
				i += n
			}
			out = append(out, c05Tok{S: string(b[start:i]), Layout: true})
		case r == '%':
			for i < len(b) && b[i] != '\n' {
				i++
			}
			if i < len(b) {
				i++
			}
			out = append(out, c05Tok{S: string(b[start:i]), Layout: true})
		case r == '/' && i+1 < len(b) && b[i+1] == '*':
			j := bytes.Index(b[i+2:], []byte("*/"))
			if j < 0 {
				i = len(b)
			} else {
				i += 2 + j + 2
			}
			out = append(out, c05Tok{S: string(b[start:i]), Layout: true})
		case r >= '0' && r <= '9':
			i += n
			if r == '0' && i < len(b) && b[i] == '\'' {
				// character code
				i++
				if i < len(b) {
					switch {
					case b[i] == '\\':
						i++
						if i < len(b) {
							_, m := rn(i)
							i += m
							for i < len(b) && (isAlnum(rune(b[i]))) {
								i++
							}
							if i < len(b) && b[i] == '\\' {
								i++
							}
						}
					case b[i] == '\'' && i+1 < len(b) && b[i+1] == '\'':
						i += 2
					default:
						_, m := rn(i)
						i += m
					}
				}
			} else {
				for i < len(b) && isAlnum(rune(b[i])) && b[i] < 0x80 {
					i++
				}
				if i+1 < len(b) && b[i] == '.' && b[i+1] >= '0' && b[i+1] <= '9' {
					i++
					for i < len(b) && b[i] >= '0' && b[i] <= '9' {
						i++
					}
					if i < len(b) && (b[i] == 'e' || b[i] == 'E') {
						j := i + 1
						if j < len(b) && (b[j] == '+' || b[j] == '-') {
							j++
						}
						if j < len(b) && b[j] >= '0' && b[j] <= '9' {
							for j < len(b) && b[j] >= '0' && b[j] <= '9' {
								j++
							}
							i = j
						}
					}
				}
			}
			out = append(out, c05Tok{S: string(b[start:i])})
		case isAlnum(r):
			for i < len(b) {
				r, n := rn(i)
				if !isAlnum(r) || (r == utf8.RuneError && n <= 1) {
					break
				}
				i += n
			}
			out = append(out, c05Tok{S: string(b[start:i])})
		case r == '\'' || r == '"' || r == '`':
			q := b[i]
			i++
			for i < len(b) {
				if b[i] == '\\' && i+1 < len(b) {
					i += 2
					continue
				}
				if b[i] == q {
					if i+1 < len(b) && b[i+1] == q {
						i += 2
						continue
					}
					i++
					break
				}
				i++
			}
			out = append(out, c05Tok{S: string(b[start:i])})
		case strings.ContainsRune(c05SymbolChars, r):
			for i < len(b) && strings.IndexByte(c05SymbolChars, b[i]) >= 0 {
				if b[i] == '/' && i+1 < len(b) && b[i+1] == '*' && i > start {
					break
				}
				i++
			}
			out = append(out, c05Tok{S: string(b[start:i])})
		default:
			i += n
			out = append(out, c05Tok{S: string(b[start:i])})
		}
	}
	return out
}

func c05CountTokens(b []byte) int {
	n := 0
	for _, t := range c05Tokens(b) {
		if !t.Layout {
			n++
		}
	}
	return n
}

// ---- alphabets ---------------------------------------------------------------------------------------

// c05Alphabet: the token-biased fragments used for byte fuzz and for insertions.
var c05Alphabet = []string{
	"(", ")", "[", "]", "{", "}", "|", ",", ".", ". ", " .", "-", "+", "*", ":-", "'", "\"", "`", "0'", "0x", "0b", "0o", "\\", "\\\\", "\\x", "\\x41\\", "\\n", "\n", " ", "\t",
	"%", "/*", "*/", "0", "1", "9", "12", "1.5", "1.0e10", "e", "E", "a", "b", "f", "foo", "_", "X", "Y", "_G1", "A1", ";", "!", "->", "-->", "?", "=", "\\+", "**", "is", "mod", "''", "\"\"",
	"é", "日", "∀", "\xff", "\xc3", "\xed\xa0\x80", "\x00", "\x7f", "0''", "0'a", "'a'", "\"s\"", "{}", "[]", "a(", "f(", "-(", "- (", " (", ":", "^", "<", ">", "@", "#", "$", "&", "~", "/", "//",
	"\r", "\v", "\u00a0", "\u2028", "\ufeff", "#!", "0.", ".e", "1e", "0'\\", "\\\n", "'\\", "0'''", "\\'", "|| ", "[-", "[**", "(- ", "{-",
}

// c05InsertAlphabet: the single tokens inserted at every position in the thorough tier.
var c05InsertAlphabet = []string{
	"(", ")", "[", "]", "{", "}", "|", ",", ".", " . ", "-", "+", "*", ":-", "'", "\"", "`", "0'", "0x", "\\", "\n", " ", "%", "/*", "*/", "1", "1.5", "e", "a", "_", "X", ";", "!", "->", "?", "=", "\\+",
	"''", "é", "\xff", "\x00", "0'a", "'a'", "\"s\"", "f(", "- ", " (", ":", "^", "/",
}

// ---- operator tables ---------------------------------------------------------------------------------

type c05OpTable struct {
	Name    string
	Prelude []string
}

func c05OpDirective(p int, typ, name string) string {
	return fmt.Sprintf(":-(op(%d, %s, %s)).", p, typ, term.AtomText(name))
}

var c05ExtOps = c05OpTable{Name: "ext", Prelude: []string{
	c05OpDirective(700, "xfx", "==="), c05OpDirective(200, "xfy", "**"), c05OpDirective(100, "xf", "pf"), c05OpDirective(100, "yf", "!!"), c05OpDirective(300, "fy", "a"),
	c05OpDirective(400, "yfx", "f"), c05OpDirective(1150, "fx", "dynamic"), c05OpDirective(200, "xfx", "x"), c05OpDirective(200, "fy", "?"), c05OpDirective(1100, "xfy", "|"),
	c05OpDirective(200, "xfy", "-"), c05OpDirective(0, "xfx", "="), c05OpDirective(50, "yfx", "."), c05OpDirective(1200, "xf", "e"), c05OpDirective(999, "fx", "b"), c05OpDirective(1, "fy", "foo"),
}}

func c05RandomOps(r *rand.Rand, k int) c05OpTable {
	names := []string{"a", "b", "f", "foo", "===", "-->", "~", "@", "#", "$", "**", "-", "+", "*", "mod", "is", "=", ":", "\\", "^", ";", "->", "!", "x", "e", "E", "dynamic", "?", ".", "|", ",", "[]", "{}", "0", "X", "é", ":-", "\\+"}
	types := []string{"xfx", "xfy", "yfx", "fy", "fx", "xf", "yf"}
	t := c05OpTable{Name: fmt.Sprintf("rnd%d", k)}
	n := 3 + r.Intn(8)
	for i := 0; i < n; i++ {
		p := []int{0, 1, 200, 400, 500, 699, 700, 999, 1000, 1001, 1105, 1200}[r.Intn(12)]
		if r.Intn(3) == 0 {
			p = r.Intn(1201)
		}
		t.Prelude = append(t.Prelude, c05OpDirective(p, types[r.Intn(len(types))], names[r.Intn(len(names))]))
	}
	return t
}

// ---- placeholder arguments ---------------------------------------------------------------------------

func c05RandArg(r *rand.Rand) proto.Arg {
	switch r.Intn(12) {
	case 0:
		return proto.Arg{T: "int", I: 42}
	case 1:
		return proto.Arg{T: "string", S: "str é"}
	case 2:
		return proto.Arg{T: "float64", F: fmt.Sprintf("%016x", math.Float64bits(1.5))}
	case 3:
		return proto.Arg{T: "list", E: []proto.Arg{{T: "int", I: 1}, {T: "string", S: "a"}, {T: "list"}}}
	case 4:
		return proto.Arg{T: "strings", E: []proto.Arg{{S: "a"}, {S: ""}}}
	case 5:
		return proto.Arg{T: "nil"}
	case 6:
		return proto.Arg{T: "bool", I: 1}
	case 7:
		return proto.Arg{T: "uint", I: 7}
	case 8:
		return proto.Arg{T: "string", B: []byte("a\xffb\x00")}
	case 9:
		return proto.Arg{T: "int64", I: math.MinInt64}
	case 10:
		return proto.Arg{T: "string", S: ""}
	default:
		return proto.Arg{T: "float64", F: fmt.Sprintf("%016x", math.Float64bits(math.Inf(1)))}
	}
}

func c05ArgsFor(r *rand.Rand, text []byte) []proto.Arg {
	q := bytes.Count(text, []byte("?"))
	n := 0
	switch {
	case q == 0:
		if r.Intn(12) != 0 {
			return nil
		}
		n = 1
	default:
		switch r.Intn(5) {
		case 0:
			return nil
		case 1:
			n = q + 1
		case 2:
			n = q - 1
		default:
			n = q
		}
	}
	if n > 6 {
		n = 6
	}
	var out []proto.Arg
	for i := 0; i < n; i++ {
		out = append(out, c05RandArg(r))
	}
	return out
}

// ---- deep nestings -----------------------------------------------------------------------------------

func c05DeepTexts() map[string]string {
	rep := strings.Repeat
	out := map[string]string{}
	for _, n := range []int{10, 100, 1000, 5000} {
		k := fmt.Sprint(n)
		out["parens/"+k] = "X = " + rep("(", n) + "a" + rep(")", n) + "."
		out["brackets/"+k] = "X = " + rep("[", n) + rep("]", n) + "."
		out["brackets_a/"+k] = "X = " + rep("[", n) + "a" + rep("]", n) + "."
		out["curly/"+k] = "X = " + rep("{", n) + "a" + rep("}", n) + "."
		out["compound/"+k] = "X = " + rep("f(", n) + "a" + rep(")", n) + "."
		out["minus_sp/"+k] = "X = " + rep("- ", n) + "1."
		out["minus/"+k] = "X = " + rep("-", n) + "1."
		out["minus_paren/"+k] = "X = " + rep("-(", n) + "1" + rep(")", n) + "."
		out["not/"+k] = "X = " + rep("\\+ ", n) + "a."
		out["neck_chain/"+k] = rep("a:-", n) + "a."
		out["conj/"+k] = "X = (" + rep("a,", n) + "a)."
		out["clause_body/"+k] = "a :- " + rep("b, ", n) + "b."
		out["disj/"+k] = "X = (" + rep("a;", n) + "a)."
		out["ifthen/"+k] = "X = (" + rep("a->", n) + "a)."
		out["plus/"+k] = "X = " + rep("1+", n) + "1."
		out["is_plus/"+k] = "X is " + rep("1+", n) + "1."
		out["eq_chain/"+k] = "X = (" + rep("a=", n) + "a)."
		out["caret/"+k] = "X = " + rep("2^", n) + "2."
		out["list/"+k] = "X = [" + rep("a,", n) + "a]."
		out["list_tail/"+k] = "X = " + rep("[a|", n) + "[]" + rep("]", n) + "."
		out["args/"+k] = "X = f(" + rep("a,", n) + "a)."
		out["string/"+k] = "X = \"" + rep("a", 2*n) + "\"."
		out["atom/"+k] = "X = '" + rep("a", 2*n) + "'."
		out["varname/"+k] = "X" + rep("a", 2*n) + " = 1."
		out["digits/"+k] = "X = " + rep("9", 2*n) + "."
		out["fraction/"+k] = "X = 0." + rep("1", 2*n) + "."
		out["clauses/"+k] = rep("a. ", n)
		out["comment/"+k] = rep("/* c */ ", n) + "a."
		out["open_only/"+k] = "X = " + rep("(", n)
		out["open_list_only/"+k] = "X = " + rep("[", n)
		out["open_f_only/"+k] = "X = " + rep("f(", n)
		out["minus_only/"+k] = "X = " + rep("- ", n)
		out["list_minus/"+k] = "X = " + rep("[-", n)
		out["close_only/"+k] = "X = a" + rep(")", n) + "."
		out["escapes/"+k] = "X = '" + rep("\\x41\\", n) + "'."
		out["charcodes/"+k] = "X = [" + rep("0'a, ", n) + "0'b]."
		out["mixed/"+k] = "X = " + rep("f([{(", n/4+1) + "a" + rep(")}])", n/4+1) + "."
		out["op_as_atom_args/"+k] = "X = f(" + rep("-, ", n) + "-)."
		out["vars/"+k] = "f(" + strings.Join(c05VarNames(n), ", ") + ")."
	}
	return out
}

func c05VarNames(n int) []string {
	out := make([]string, n)
	for i := range out {
		out[i] = fmt.Sprintf("V%d", i)
	}
	return out
}

// ---- generation --------------------------------------------------------------------------------------

var c05TextModes = []string{"exec", "query", "querydot"}

func c05TextItem(family, origin string, ops c05OpTable, text []byte, args []proto.Arg) *Item {
	p := c05TextP{Prelude: ops.Prelude, B: text, Modes: c05TextModes, Args: args, Budget: c05TextBudget, Max: 3}
	m := c05Meta{Family: family, Origin: origin, Size: len(text)}
	if len(ops.Prelude) > 0 {
		m.Ops = ops.Name
	}
	c := &proto.Case{Kind: "c05text"}
	c.P, _ = json.Marshal(&p)
	meta, _ := json.Marshal(&m)
	return &Item{Cases: []*proto.Case{c}, Meta: meta}
}

func (c *c05) genTexts(cx *Ctx, count bool) []*Item {
	corpus := c05Corpus()
	var items []*Item
	seen := map[string]bool{}
	dropped := 0
	emit := func(family, origin string, ops c05OpTable, text []byte, args []proto.Arg) {
		if bytes.Contains(bytes.ToLower(text), []byte("halt")) {
			dropped++
			return
		}
		k := ops.Name + "\x00" + string(text)
		if len(args) > 0 {
			b, _ := json.Marshal(args)
			k += "\x00" + string(b)
		}
		if seen[k] {
			return
		}
		seen[k] = true
		items = append(items, c05TextItem(family, origin, ops, append([]byte(nil), text...), args))
	}
	def := c05OpTable{Name: "default"}
	thorough := cx.Thorough()

	// (ii) every byte-wise prefix of every corpus entry, default operator table — exhaustive
	for i, e := range corpus {
		b := []byte(e)
		for n := 0; n <= len(b); n++ {
			emit("text-prefix", fmt.Sprintf("corpus[%d] %q, first %d bytes", i, e, n), def, b[:n], nil)
		}
	}
	nPrefix := len(items)
	// the same prefixes under extended operator tables (quick: a seeded sample), and with placeholder arguments
	r := cx.Rng("c05/text/prefix-ops")
	tables := []c05OpTable{c05ExtOps}
	for k := 0; k < 6; k++ {
		tables = append(tables, c05RandomOps(cx.Rng(fmt.Sprintf("c05/text/ops/%d", k)), k))
	}
	for i, e := range corpus {
		b := []byte(e)
		for n := 1; n <= len(b); n++ {
			if thorough {
				emit("text-prefix", fmt.Sprintf("corpus[%d], first %d bytes", i, n), c05ExtOps, b[:n], nil)
				if r.Intn(4) == 0 {
					emit("text-prefix", fmt.Sprintf("corpus[%d], first %d bytes", i, n), tables[1+r.Intn(len(tables)-1)], b[:n], nil)
				}
			} else if r.Intn(6) == 0 {
				emit("text-prefix", fmt.Sprintf("corpus[%d], first %d bytes", i, n), tables[r.Intn(len(tables))], b[:n], nil)
			}
			if bytes.IndexByte(b[:n], '?') >= 0 && (thorough || r.Intn(2) == 0) {
				emit("text-prefix", fmt.Sprintf("corpus[%d], first %d bytes, placeholders", i, n), def, b[:n], c05ArgsFor(r, b[:n]))
			}
		}
	}

	// (iii) token-level mutations
	join := func(ts []c05Tok) []byte {
		var sb bytes.Buffer
		for _, t := range ts {
			sb.WriteString(t.S)
		}
		return sb.Bytes()
	}
	mutate := func(r *rand.Rand, ts []c05Tok) ([]c05Tok, string) {
		out := append([]c05Tok(nil), ts...)
		if len(out) == 0 {
			return []c05Tok{{S: c05Alphabet[r.Intn(len(c05Alphabet))]}}, "insert into empty"
		}
		i := r.Intn(len(out))
		switch r.Intn(5) {
		case 0:
			return append(out[:i], out[i+1:]...), fmt.Sprintf("delete token %d", i)
		case 1:
			out = append(out[:i+1], out[i:]...)
			return out, fmt.Sprintf("duplicate token %d", i)
		case 2:
			j := r.Intn(len(out))
			out[i], out[j] = out[j], out[i]
			return out, fmt.Sprintf("swap tokens %d and %d", i, j)
		case 3:
			a := c05Alphabet[r.Intn(len(c05Alphabet))]
			out = append(out[:i], append([]c05Tok{{S: a}}, out[i:]...)...)
			return out, fmt.Sprintf("insert %q at %d", a, i)
		default:
			a := c05Alphabet[r.Intn(len(c05Alphabet))]
			out[i] = c05Tok{S: a}
			return out, fmt.Sprintf("replace token %d by %q", i, a)
		}
	}
	if thorough {
		// all single deletions, duplications, adjacent swaps and insertions
		for i, e := range corpus {
			ts := c05Tokens([]byte(e))
			for k := range ts {
				cp := append([]c05Tok(nil), ts...)
				emit("text-mutation", fmt.Sprintf("corpus[%d] %q: delete token %d", i, e, k), def, join(append(cp[:k], cp[k+1:]...)), nil)
				cp = append([]c05Tok(nil), ts...)
				emit("text-mutation", fmt.Sprintf("corpus[%d] %q: duplicate token %d", i, e, k), def, join(append(cp[:k+1], cp[k:]...)), nil)
				if k+1 < len(ts) {
					cp = append([]c05Tok(nil), ts...)
					cp[k], cp[k+1] = cp[k+1], cp[k]
					emit("text-mutation", fmt.Sprintf("corpus[%d] %q: swap tokens %d,%d", i, e, k, k+1), def, join(cp), nil)
				}
			}
			for k := 0; k <= len(ts); k++ {
				for _, a := range c05InsertAlphabet {
					cp := append([]c05Tok(nil), ts[:k]...)
					cp = append(cp, c05Tok{S: a})
					cp = append(cp, ts[k:]...)
					emit("text-mutation", fmt.Sprintf("corpus[%d] %q: insert %q at %d", i, e, a, k), def, join(cp), nil)
				}
			}
		}
	}
	nMut := 7000
	if thorough {
		nMut = 40000
	}
	for i := 0; i < nMut; i++ {
		r := cx.Rng(fmt.Sprintf("c05/text/mut/%d", i))
		ci := r.Intn(len(corpus))
		ts := c05Tokens([]byte(corpus[ci]))
		var descr []string
		for k := 1 + r.Intn(3); k > 0; k-- {
			var d string
			ts, d = mutate(r, ts)
			descr = append(descr, d)
		}
		ops := def
		if r.Intn(4) == 0 {
			ops = tables[r.Intn(len(tables))]
		}
		text := join(ts)
		emit("text-mutation", fmt.Sprintf("corpus[%d] %q: %s", ci, corpus[ci], strings.Join(descr, "; ")), ops, text, c05ArgsFor(r, text))
	}

	// (i) byte fuzz
	nFuzz := 8000
	if thorough {
		nFuzz = 100000
	}
	for i := 0; i < nFuzz; i++ {
		r := cx.Rng(fmt.Sprintf("c05/text/fuzz/%d", i))
		var b []byte
		max := 1 + r.Intn(64)
		if r.Intn(10) == 0 {
			b = make([]byte, max)
			r.Read(b)
		} else {
			for len(b) < max {
				b = append(b, c05Alphabet[r.Intn(len(c05Alphabet))]...)
			}
			if len(b) > 64 {
				b = b[:64]
			}
		}
		ops := def
		if r.Intn(4) == 0 {
			ops = tables[r.Intn(len(tables))]
		}
		emit("text-fuzz", "", ops, b, c05ArgsFor(r, b))
	}

	// deep nestings (default table; the small ones also under the extended table)
	deep := c05DeepTexts()
	var names []string
	for name := range deep {
		names = append(names, name)
	}
	sort.Strings(names)
	for _, name := range names {
		t := deep[name]
		emit("text-deep", name, def, []byte(t), nil)
		if len(t) < 2000 {
			emit("text-deep", name, c05ExtOps, []byte(t), nil)
		}
	}
	if count {
		cx.AddExtra("corpus_entries", int64(len(corpus)))
		cx.AddExtra("corpus_prefixes_default_table", int64(nPrefix))
		cx.AddExtra("texts_dropped_halt", int64(dropped))
		cx.Note(fmt.Sprintf("all %d distinct byte-wise prefixes of the %d corpus entries were enumerated under the default operator table (exhaustive for that family)", nPrefix, len(corpus)))
	}
	return items
}
