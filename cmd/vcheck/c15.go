package main

// C15 — Go values cross the API as data: '?' placeholders behave like the literal denoting the value and are
// never re-read as Prolog syntax; Scan stores exactly the answer's value or returns an error.
//
// Part A (this file): placeholders. The expected term is computed from the Go value alone (runes → code
// points / one-char atoms / atom by double_quotes; numbers; slices → lists); the worker reports the answer
// as a tree, so no text is involved on either side of the comparison. Part B (c15scan.go): the Scan matrix.

import (
	"encoding/json"
	"fmt"
	"math"
	"math/big"
	"math/rand"
	"sort"
	"strconv"
	"strings"
	"unicode"
	"unicode/utf8"

	"verif/internal/proto"
	"verif/internal/run"
	"verif/internal/term"
)

func init() { checks["C15"] = func() Check { return &c15{} } }

type c15 struct {
	plan []c15Family
}

func (*c15) ID() string    { return "C15" }
func (*c15) Level() string { return "exploration" }
func (*c15) Rule() string {
	return "Placeholders: Go values (strings: a fixed adversarial list — Prolog fragments such as `a). halt. %`, quotes, backslashes, '.', ':-', '?', variable names, numbers-as-text, newline, NUL, invalid UTF-8, non-BMP, combining marks, U+FFFD, strings of 1000-22500 runes —, every Unicode scalar value packed into chunk strings, single scalars, seeded random strings of 1-40 runes drawn from every Unicode general category, unassigned code points and the syntactically active ASCII characters; integers of every width at and around every width's extremes plus random ones; float64/float32 incl. extremes, denormals, -0.0; typed nested slices/arrays of these up to depth 3) are passed for '?' under double_quotes = codes, chars, atom, alone (X = ?), as a list element, as a compound argument, as operands (? - ?), three at once, next to other variables, and through Exec (a fact foo(?) and a rule body X = ?, then queried). Oracle: the term computed from the Go value itself (no text), exactly one answer, exactly the query's variables; for valid-UTF-8 strings and integers the literal text form is run too and must give the same tree and be == to the placeholder. Count mismatches (0-4 placeholders x 0-5 arguments, Query and Exec) must be errors; Go types outside the statement must not panic. Scan: every destination type (interface{}, string, int, int8-64, uint*, float32/64, bool, typed and nested slices, array, TermString) x every answer value of a fixed list (integers around every width boundary, floats incl. extremes, atoms, strings as code/char lists in every engine representation, lists of ints/atoms/mixed/nested, partial and improper lists, compounds, unbound variable, values produced by the reader and by built-ins), through a tagged struct field, an untagged field and a map (also with several variables), plus seeded round trips (Go value -> '?' -> Scan into its own type and into interface{}); oracle = exact-or-error model (math/big ranges, float bit patterns, rune arithmetic). Non-trivial: the string contains a character that is syntactically active in Prolog text (quote, backslash, '.', ':', '-', '(', ')', ',', '%', '|', '[', ']', '{', '}', '!', ';', newline, NUL, '?', '_' or an upper-case letter) or a multi-byte character or is not valid UTF-8, or (Scan) the answer holds a number outside the destination's range; distinct by case hash (Scan: destination x value)."
}
func (*c15) Assumptions() []string {
	return []string{
		"the worker's structural term serializer (engine term → tree through the exported Compound/Atom/Integer/Float API) is trusted; answers never pass through write/read",
		"a Go string that is not valid UTF-8 has no Prolog literal: only structural safety (one answer, no new variables, a ground text-shaped term, or an error) is asserted for it; same for NaN/±Inf floats",
		"float32 destinations are asserted only for exactly representable values (the statement's list of types does not name float32); rounding and overflow to ±Inf are counted, not decided",
		"whether a quoted '?' (or \"?\" under double_quotes=atom) in the query text is a placeholder is not settled by the statement: observed and reported only",
		"Scan must succeed (not merely 'not store a wrong value') when the answer is representable in a destination type the statement lists; for other destinations (uint*, bool, arrays) an error is accepted as well",
		"int is 64 bits wide on the machine running the check (strconv.IntSize is used by the model)",
	}
}

// --- Go values (proto.Arg) and the terms they denote --------------------------------------------------------

func aStr(s string) proto.Arg {
	if utf8.ValidString(s) {
		return proto.Arg{T: "string", S: s}
	}
	return proto.Arg{T: "string", B: []byte(s)}
}
func aInt(t string, v int64) proto.Arg { return proto.Arg{T: t, I: v} }
func aF64(f float64) proto.Arg {
	return proto.Arg{T: "float64", F: fmt.Sprintf("%016x", math.Float64bits(f))}
}
func aF32(f float32) proto.Arg {
	return proto.Arg{T: "float32", F: fmt.Sprintf("%016x", math.Float64bits(float64(f)))}
}
func aList(t string, es ...proto.Arg) proto.Arg { return proto.Arg{T: t, E: es} }

func argString(a proto.Arg) string {
	if a.B != nil {
		return string(a.B)
	}
	return a.S
}

func argFloat(a proto.Arg) float64 {
	u, _ := strconv.ParseUint(a.F, 16, 64)
	f := math.Float64frombits(u)
	if a.T == "float32" {
		return float64(float32(f))
	}
	return f
}

// elemType splits "[]T" / "[N]T" into its element type name.
func elemType(t string) string {
	if i := strings.IndexByte(t, ']'); i >= 0 {
		return t[i+1:]
	}
	return ""
}

type argStatus int

const (
	stExact  argStatus = iota // the statement names this kind of value: the answer must be exactly the tree
	stEither                  // support is optional (e.g. []interface{}, named types): an error, or exactly the tree
	stOpen                    // no literal denotes the value (invalid UTF-8, NaN, ±Inf): structural safety only
	stRefuse                  // a Go type outside the statement: only "no panic" is asserted
)

func worse(a, b argStatus) argStatus {
	if b > a {
		return b
	}
	return a
}

var intWidth = map[string]int{"int8": 8, "int16": 16, "int32": 32, "int64": 64, "int": strconv.IntSize, "namedint": 16}

// argTree computes, from the Go value alone, the term the value denotes under the double_quotes setting dq.
func argTree(a proto.Arg, dq string) (*term.Term, argStatus) {
	switch a.T {
	case "string", "namedstring":
		s := argString(a)
		st := stExact
		if a.T == "namedstring" {
			st = stEither
		}
		if !utf8.ValidString(s) {
			st = stOpen
		}
		return textTerm(s, dq), st
	case "int", "int8", "int16", "int32", "int64":
		return term.I(a.I), stExact
	case "namedint":
		return term.I(a.I), stEither
	case "float64", "float32":
		f := argFloat(a)
		if math.IsNaN(f) || math.IsInf(f, 0) {
			return term.F(f), stOpen
		}
		return term.F(f), stExact
	}
	if strings.HasPrefix(a.T, "[") {
		st := stExact
		if elemType(a.T) == "interface{}" {
			st = stEither
		}
		es := make([]*term.Term, len(a.E))
		for i, e := range a.E {
			t, s := argTree(e, dq)
			if t == nil {
				return nil, stRefuse
			}
			es[i] = t
			st = worse(st, s)
		}
		return term.L(es...), st
	}
	return nil, stRefuse
}

// textTerm is what double-quoted text denotes: the runes of s as code points, one-char atoms, or one atom.
func textTerm(s, dq string) *term.Term {
	switch dq {
	case "codes":
		return term.Codes(s)
	case "chars":
		return term.Chars(s)
	default:
		if !utf8.ValidString(s) {
			// the worker's JSON transport cannot carry invalid bytes in an atom name: it reports U+FFFD per
			// invalid byte, which is also how Go ranges over such a string
			s = string([]rune(s))
		}
		return term.A(s)
	}
}

// describeArg renders a Go value for samples and messages.
func describeArg(a proto.Arg) string {
	switch {
	case a.T == "string" || a.T == "namedstring":
		return a.T + "(" + clip(strconv.QuoteToASCII(argString(a)), 240) + ")"
	case a.T == "float64" || a.T == "float32":
		f := argFloat(a)
		return fmt.Sprintf("%s(%s = bits %016x)", a.T, strconv.FormatFloat(f, 'g', -1, 64), math.Float64bits(f))
	case strings.HasPrefix(a.T, "["):
		var es []string
		for i, e := range a.E {
			if i == 6 {
				es = append(es, fmt.Sprintf("… %d more", len(a.E)-i))
				break
			}
			es = append(es, describeArg(e))
		}
		if a.S == "nil" {
			return a.T + "(nil)"
		}
		return a.T + "{" + strings.Join(es, ", ") + "}"
	default:
		return fmt.Sprintf("%s(%d)", a.T, a.I)
	}
}

func clip(s string, n int) string {
	if len(s) > n {
		return s[:n] + "…"
	}
	return s
}

// dqLiteral is the double-quoted literal denoting s (ISO 6.4.2.1 escapes for ", \ and control characters).
func dqLiteral(s string) string {
	var sb strings.Builder
	sb.WriteByte('"')
	for _, r := range s {
		switch {
		case r == '"':
			sb.WriteString(`\"`)
		case r == '\\':
			sb.WriteString(`\\`)
		case r == '\n':
			sb.WriteString(`\n`)
		case r < 0x20 || r == 0x7f:
			fmt.Fprintf(&sb, `\x%x\`, r)
		default:
			sb.WriteRune(r)
		}
	}
	sb.WriteByte('"')
	return sb.String()
}

const c15Active = "'\"`\\.:-(),%|[]{}!;\n\x00?_"

// activeString is the non-triviality rule for strings.
func activeString(s string) bool {
	for _, r := range s {
		if r >= utf8.RuneSelf || strings.ContainsRune(c15Active, r) || (r >= 'A' && r <= 'Z') {
			return true
		}
	}
	return !utf8.ValidString(s)
}

func activeArg(a proto.Arg) bool {
	if a.T == "string" || a.T == "namedstring" {
		return activeString(argString(a))
	}
	for _, e := range a.E {
		if activeArg(e) {
			return true
		}
	}
	return false
}

// --- Unicode classes ----------------------------------------------------------------------------------------

type runeClass struct {
	name string
	tab  *unicode.RangeTable
	size int
}

var c15Classes = func() []runeClass {
	var out []runeClass
	for name, t := range unicode.Categories {
		if len(name) != 2 || name == "Cs" {
			continue
		}
		n := 0
		for _, r := range t.R16 {
			n += int(r.Hi-r.Lo)/int(r.Stride) + 1
		}
		for _, r := range t.R32 {
			n += int(r.Hi-r.Lo)/int(r.Stride) + 1
		}
		out = append(out, runeClass{name, t, n})
	}
	sort.Slice(out, func(i, j int) bool { return out[i].name < out[j].name })
	return out
}()

func (c runeClass) at(i int) rune {
	for _, r := range c.tab.R16 {
		n := int(r.Hi-r.Lo)/int(r.Stride) + 1
		if i < n {
			return rune(int(r.Lo) + i*int(r.Stride))
		}
		i -= n
	}
	for _, r := range c.tab.R32 {
		n := int(r.Hi-r.Lo)/int(r.Stride) + 1
		if i < n {
			return rune(int(r.Lo) + i*int(r.Stride))
		}
		i -= n
	}
	return 'x'
}

// unassigned picks a scalar value that belongs to no category (Cn), e.g. a non-character.
func unassignedRune(r *rand.Rand) rune {
	for {
		c := rune(r.Intn(0x110000))
		if c >= 0xD800 && c <= 0xDFFF {
			continue
		}
		if !unicode.In(c, unicode.L, unicode.M, unicode.N, unicode.P, unicode.S, unicode.Z, unicode.C) {
			return c
		}
	}
}

var c15Special = []rune{0, 0xFFFD, 0xFEFF, 0x2028, 0x2029, 0x85, 0xA0, 0x200D, 0x301, 0x20DD, 0x1F600, 0x10FFFF, 0xE000, 0xFFFF,
	0xFFFE, 0xFDD0, 0x1FFFF, 0x7F, 0x1B, '\t', '\r', 0x3000, 0x2203, 0x1D11E, 0x80, 0x7FF, 0x800, 0x10000}

var c15Fragments = []string{"a). halt. %", ":- ", "X", "_", "'", "\"", "\\", "foo(", ")", ",", ".", " ", "\n", "0'", "/*", "*/", "?", " ? ",
	"|", "[", "]", "{", "}", "!", ";", "halt", ":- initialization(halt).", "\\x41\\", "\"\"", "''", "%", "-->", "=", "Y = 1"}

func randRune(r *rand.Rand) rune {
	switch k := r.Intn(100); {
	case k < 30:
		return rune(c15Active[r.Intn(len(c15Active))])
	case k < 45:
		return rune(0x20 + r.Intn(0x5f))
	case k < 85:
		c := c15Classes[r.Intn(len(c15Classes))]
		return c.at(r.Intn(c.size))
	case k < 90:
		return unassignedRune(r)
	default:
		return c15Special[r.Intn(len(c15Special))]
	}
}

var c15BadBytes = []string{"\x80", "\xff", "\xfe", "\xc0\xaf", "\xed\xa0\x80", "\xe2\x82", "\xf0\x9f\x98", "\xf4\x90\x80\x80", "\xc3", "\xf8\x88\x80\x80\x80"}

func randString(r *rand.Rand) string {
	var sb strings.Builder
	switch k := r.Intn(100); {
	case k < 12: // Prolog fragments
		n := 1 + r.Intn(6)
		for i := 0; i < n; i++ {
			sb.WriteString(c15Fragments[r.Intn(len(c15Fragments))])
		}
	case k < 22: // one class only
		c := c15Classes[r.Intn(len(c15Classes))]
		n := 1 + r.Intn(40)
		for i := 0; i < n; i++ {
			sb.WriteRune(c.at(r.Intn(c.size)))
		}
	default:
		n := 1 + r.Intn(40)
		for i := 0; i < n; i++ {
			sb.WriteRune(randRune(r))
		}
	}
	s := sb.String()
	if r.Intn(100) < 7 { // make it invalid UTF-8
		b := c15BadBytes[r.Intn(len(c15BadBytes))]
		i := r.Intn(len(s) + 1)
		s = s[:i] + b + s[i:]
	}
	return s
}

var c15FixedStrings = func() []string {
	out := []string{
		"", "a", "abc", "hello world", "a). halt. %", "a). halt.\n%", "'", "\"", "\\", ".", " .", ". ", ":-", ":- halt.", "?", " ?", "? ", "??", "?.",
		"\n", "\x00", "a\x00b", "\r\n", "\t", " ", "  ", "X", "_", "_G1", "Y", "Abc", "[]", "[a]", "[a|b]", "'[]'", "{}", "1", "-1", "1.5", "0'a", "0x10",
		"1e10", "a,b", "a|b", "a;b", "!", "f(X)", "f(a, b)", "\"a\"", "'a'", "''", "\"\"", "\\x41\\", "\\n", "\\\\", "\\'", "\\\"", "a\\\nb",
		"%", "% comment", "/* c */", "/*", "*/", "a :- b", "X = 1", ", halt", "), halt, f(", "]), halt, g([", "\" , halt, \"", "' , halt, '",
		"\"). halt. \"", "`", "``", "`a`", "end_of_file", "a.\nb.", "a. b. c.", "(", ")", "()", "[", "]", "{", "}", "|", "||", ",",
		"\u00e9", "e\u0301", "\u0301", "\u65e5\u672c\u8a9e", "\U0001F600", "\U0001F468\u200d\U0001F469\u200d\U0001F467", "\ufffd", "a\ufffdb", "\ufeffa",
		"\u00a0", "\u2028", "\u2029", "\u0085", "\u3000", "\u200b", "\U0010FFFF", "\uffff", "\ufffe", "\ufdd0", "\ue000", "\U000F0000", "\U0001FFFF",
		"\u2200", "\u2200x\u2203y", "\u03a9", "\u00dcn\u00efc\u00f6d\u00e9", "\u01c5", "\u02b0", "\u00aa", "\u0663", "\u2167", "\u00bd", "\u203f", "\u2014",
		"\u00ab\u00bb", "\u20ac", "^", "\u00a9", "\u0600", "\u20dd", "\u0903", "\U0001D11E",
		"\xff", "\xfe\xff", "a\x80b", "\xc0\xaf", "\xed\xa0\x80", "\xe2\x82", "\xf0\x9f\x98", "\xf4\x90\x80\x80", "abc\xc3", "\xffabc", "\u65e5\xff\u672c",
		"\x01", "\x07", "\x08", "\x0b", "\x0c", "\x1b", "\x7f", "a b", "a  b", " a", "a ", "- 1", "- - 1", "a- -b", "1 + 2", "f(?)", "[?]", "? - ?", "'?'", "\"?\"",
		"dynamic", "is", "mod", "-", "+", "*", "=", "\\+", "-->", "?-", ":- dynamic(foo/1).", "foo :- bar.", "call(halt)", "X, halt", "_ = _",
	}
	out = append(out, strings.Repeat("a", 1000), strings.Repeat("'", 300), strings.Repeat("\\", 301), strings.Repeat("\"", 299),
		strings.Repeat("\u65e5\u672c", 500), strings.Repeat("x'\"\\ \u00e9\U0001F600.\n", 2500), strings.Repeat("a). halt. % ", 100), strings.Repeat("\U0001F600", 257), strings.Repeat(".", 64)+" ")
	return out
}()

// --- families of items --------------------------------------------------------------------------------------

type c15Family struct {
	name string
	n    int
	gen  func(i int) *Item
}

type c15Meta struct {
	Part   string     `json:"part"` // ph | mismatch | refuse | info | scan
	Family string     `json:"family"`
	Flag   string     `json:"flag,omitempty"`
	Roles  []string   `json:"roles,omitempty"` // ph: one per step
	V      *proto.Arg `json:"v,omitempty"`
	W      *proto.Arg `json:"w,omitempty"`
	// mismatch: placeholders/arguments per step; scan: see c15scan.go
	NPh   []int      `json:"nph,omitempty"`
	Dest  string     `json:"dest,omitempty"`
	Value string     `json:"value,omitempty"`
	Want  *term.Term `json:"want,omitempty"`
	Multi bool       `json:"multi,omitempty"`
	Info  string     `json:"info,omitempty"`
}

var c15Flags = []string{"codes", "chars", "atom"}

var c15W = []proto.Arg{aInt("int", 7), aStr("w"), aStr("W). Z = 1. %"), aF64(0.5), aList("[]int", aInt("int", 1), aInt("int", 2))}

// phItem builds one placeholder item: value v under flag, exercised in the given roles.
func phItem(family, flag string, v proto.Arg, w proto.Arg, roles []string) *Item {
	c := &proto.Case{Kind: "goapi", Flags: [][2]string{{"double_quotes", flag}}}
	var used []string
	for _, role := range roles {
		switch role {
		case "alone":
			c.Steps = append(c.Steps, proto.Step{Query: "X = ? .", Args: []proto.Arg{v}, Max: 3})
		case "inlist":
			c.Steps = append(c.Steps, proto.Step{Query: "X = [a, ?, b] .", Args: []proto.Arg{v}, Max: 3})
		case "arg":
			c.Steps = append(c.Steps, proto.Step{Query: "X = f(?) .", Args: []proto.Arg{v}, Max: 3})
		case "operands":
			c.Steps = append(c.Steps, proto.Step{Query: "X = ? - ? .", Args: []proto.Arg{v, w}, Max: 3})
		case "three":
			c.Steps = append(c.Steps, proto.Step{Query: "X = g(?, [?], h(?)) .", Args: []proto.Arg{w, v, v}, Max: 3})
		case "shared":
			c.Steps = append(c.Steps, proto.Step{Query: "Y = g(Z), X = h(?, Y, Z) .", Args: []proto.Arg{v}, Max: 3})
		case "exec":
			c.Steps = append(c.Steps, proto.Step{Exec: "foo(?) .", Args: []proto.Arg{v}})
			used = append(used, "exec")
			c.Steps = append(c.Steps, proto.Step{Query: "foo(X) .", Max: 3})
			role = "execq"
		case "execrule":
			c.Steps = append(c.Steps, proto.Step{Exec: "bar(X, Y) :- Y = k(X), X = ? .", Args: []proto.Arg{v}})
			used = append(used, "exec")
			c.Steps = append(c.Steps, proto.Step{Query: "bar(X, _) .", Max: 3})
			role = "execq"
		case "literal", "identical":
			var lit string
			switch {
			case v.T == "string" && utf8.ValidString(argString(v)):
				lit = dqLiteral(argString(v))
			case intWidth[v.T] > 0 && v.T != "namedint":
				lit = strconv.FormatInt(v.I, 10)
			default:
				continue
			}
			if role == "literal" {
				c.Steps = append(c.Steps, proto.Step{Query: "X = " + lit + " .", Max: 3})
			} else {
				// the engine's own identity test between the placeholder and the literal
				c.Steps = append(c.Steps, proto.Step{Query: "X = " + lit + ", ( ? == X -> Same = yes ; Same = no ) .", Args: []proto.Arg{v}, Max: 3})
			}
		default:
			panic("unknown role " + role)
		}
		used = append(used, role)
	}
	meta, _ := json.Marshal(&c15Meta{Part: "ph", Family: family, Flag: flag, Roles: used, V: &v, W: &w})
	return &Item{Cases: []*proto.Case{c}, Meta: meta, Note: family + ": " + clip(describeArg(v), 120) + " under double_quotes=" + flag}
}

var c15AllRoles = []string{"alone", "inlist", "arg", "operands", "three", "shared", "exec", "execrule", "literal", "identical"}
var c15OptRoles = []string{"inlist", "arg", "operands", "three", "shared", "exec", "execrule"}

func someRoles(r *rand.Rand, k int) []string {
	roles := []string{"alone"}
	p := r.Perm(len(c15OptRoles))
	for i := 0; i < k && i < len(p); i++ {
		roles = append(roles, c15OptRoles[p[i]])
	}
	return append(roles, "literal", "identical")
}

func randInt(r *rand.Rand, bits int) int64 {
	// uniform bit length, random sign; extremes now and then
	switch r.Intn(12) {
	case 0:
		return int64(-1) << (bits - 1)
	case 1:
		return int64(^uint64(0) >> (65 - bits))
	}
	n := r.Intn(bits)
	var v int64
	if n > 0 {
		v = int64(r.Uint64() >> (64 - n))
	}
	if r.Intn(2) == 0 {
		v = -v - 1
	}
	return v
}

var c15IntTypes = []string{"int8", "int16", "int32", "int64", "int"}

func fixedInts() []proto.Arg {
	var out []proto.Arg
	for _, t := range c15IntTypes {
		w := intWidth[t]
		seen := map[int64]bool{}
		add := func(v int64) {
			min, max := int64(-1)<<(w-1), int64(^uint64(0)>>(65-w))
			if v < min || v > max || seen[v] {
				return
			}
			seen[v] = true
			out = append(out, aInt(t, v))
		}
		for _, v := range []int64{0, 1, -1, 2, 10, -10, 42} {
			add(v)
		}
		for _, b := range []int{8, 16, 32, 54} {
			min, max := int64(-1)<<(b-1), int64(^uint64(0)>>(65-b))
			for _, v := range []int64{min, min + 1, min - 1, max, max - 1, max + 1, 2*max + 1, 2*max + 2} {
				add(v)
			}
		}
		add(math.MinInt64)
		add(math.MinInt64 + 1)
		add(math.MaxInt64)
		add(math.MaxInt64 - 1)
	}
	return out
}

func fixedFloats() []proto.Arg {
	var out []proto.Arg
	for _, f := range []float64{0, math.Copysign(0, -1), 1, -1, 1.5, -1.5, 0.1, 1.0 / 3, math.Pi, 1e308, -1e308, math.MaxFloat64, -math.MaxFloat64,
		math.SmallestNonzeroFloat64, -math.SmallestNonzeroFloat64, 1e-320, 2.2250738585072014e-308, math.MaxFloat32, 3.5e38, 1e-46, 16777217.0,
		9007199254740992, 9007199254740993, 9.223372036854775808e18, -9.223372036854775808e18, 1e15, 1e16, 1e21, 1e22, 123456789.125, 5.877638936736441,
		math.NaN(), math.Inf(1), math.Inf(-1)} {
		out = append(out, aF64(f))
	}
	for _, f := range []float32{0, float32(math.Copysign(0, -1)), 1, -1, 1.5, 0.1, math.MaxFloat32, -math.MaxFloat32, math.SmallestNonzeroFloat32, 16777216, 16777215,
		1e-40, 3.1415927, float32(math.Inf(1)), float32(math.NaN())} {
		out = append(out, aF32(f))
	}
	return out
}

func randFloat(r *rand.Rand) proto.Arg {
	if r.Intn(4) == 0 {
		for {
			f := math.Float32frombits(r.Uint32())
			if !math.IsNaN(float64(f)) && !math.IsInf(float64(f), 0) {
				return aF32(f)
			}
		}
	}
	for {
		f := math.Float64frombits(r.Uint64())
		if !math.IsNaN(f) && !math.IsInf(f, 0) {
			return aF64(f)
		}
	}
}

var c15SliceTypes = []string{"[]int", "[]int8", "[]int16", "[]int32", "[]int64", "[]float64", "[]float32", "[]string", "[][]int", "[][]string", "[][]int8",
	"[][][]int", "[][][]string", "[3]int", "[2]string", "[2][]string", "[][2]int", "[0]int", "[][]float64", "[]interface{}", "[][]interface{}", "[]namedstring"}

// randOfType builds a random Go value of the named type.
func randOfType(r *rand.Rand, t string, depth int) proto.Arg {
	switch t {
	case "string", "namedstring":
		a := aStr(randString(r))
		if r.Intn(8) == 0 {
			a = aStr(c15FixedStrings[r.Intn(len(c15FixedStrings))])
		}
		if len(argString(a)) > 200 {
			a = aStr("a). halt. %")
		}
		a.T = t
		return a
	case "float64", "float32":
		a := randFloat(r)
		if a.T != t {
			if t == "float32" {
				return aF32(float32(argFloat(a)))
			}
			return aF64(argFloat(a))
		}
		return a
	case "interface{}":
		return randOfType(r, []string{"int", "string", "float64", "[]int", "int8", "[]string"}[r.Intn(6)], depth+1)
	}
	if w := intWidth[t]; w > 0 {
		return aInt(t, randInt(r, w))
	}
	et := elemType(t)
	n := r.Intn(5)
	if depth == 0 && r.Intn(10) == 0 {
		n = 5 + r.Intn(60)
	}
	if t[1] != ']' {
		n, _ = strconv.Atoi(t[1:strings.IndexByte(t, ']')])
	} else if r.Intn(25) == 0 {
		return proto.Arg{T: t, S: "nil"}
	}
	es := make([]proto.Arg, n)
	for i := range es {
		es[i] = randOfType(r, et, depth+1)
	}
	return proto.Arg{T: t, E: es}
}

var c15RefuseArgs = []proto.Arg{
	{T: "uint", I: 5}, {T: "uint8", I: 5}, {T: "uint16", I: 5}, {T: "uint32", I: 5}, {T: "uint64", I: 5}, {T: "uintptr", I: 5}, {T: "bool", I: 1}, {T: "bool"},
	{T: "nil"}, {T: "struct", I: 1, S: "x"}, {T: "ptr", I: 3}, {T: "strptr", S: "x"}, {T: "map", S: "k", I: 1}, {T: "func"}, {T: "chan"}, {T: "complex128", I: 1},
	{T: "error", S: "boom"}, {T: "[]uint8", E: []proto.Arg{{T: "uint8", I: 97}, {T: "uint8", I: 98}}}, {T: "[]bool", E: []proto.Arg{{T: "bool", I: 1}}},
	{T: "[]interface{}", E: []proto.Arg{{T: "nil"}}}, {T: "[]interface{}", E: []proto.Arg{{T: "int", I: 1}, {T: "bool", I: 1}}},
	{T: "[][]uint8", E: []proto.Arg{{T: "[]uint8", E: []proto.Arg{{T: "uint8", I: 1}}}}}, {T: "[1]bool", E: []proto.Arg{{T: "bool"}}},
	// unsigned values at and above 2^63 (I is the two's complement bit pattern): no Prolog integer of this engine denotes them
	{T: "uint64", I: -1}, {T: "uint64", I: math.MinInt64}, {T: "uint64", I: math.MinInt64 + 97}, {T: "uint", I: -1}, {T: "uintptr", I: -2}, {T: "uint64", I: math.MaxInt64},
	{T: "uint32", I: 4294967295}, {T: "uint16", I: 65535}, {T: "uint8", I: 255},
}

// c15Trailing: texts that follow the full stop of the term Query reads (Query reads one term). The placeholders of the
// term read are the ones that count; where the trailing text has placeholders of its own, a call is only asserted when
// the number of arguments matches neither count.
var c15Trailing = []string{"true .", "foo", ".", "% comment\n x .", "Y = ? .", "Y = ? , Z = [?] .", "Y = 1 . Z = ? ."}

func placeholders(k int) string {
	if k == 0 {
		return "a"
	}
	ps := make([]string, k)
	for i := range ps {
		ps[i] = "?"
	}
	switch k {
	case 1:
		return "?"
	case 2:
		return "? - ?"
	default:
		return "g(" + strings.Join(ps[:k-1], ", ") + ", [?])"
	}
}

func (c *c15) buildPlan(cx *Ctx) {
	if c.plan != nil {
		return
	}
	th := cx.Thorough()
	pick := func(q, t int) int {
		if th {
			return t
		}
		return q
	}
	add := func(name string, n int, gen func(i int) *Item) {
		c.plan = append(c.plan, c15Family{name, n, gen})
	}
	rng := func(fam string, i int) *rand.Rand { return cx.Rng(fmt.Sprintf("c15/%s/%d", fam, i)) }

	// 1. the adversarial list under every flag, in every position
	add("fixed-strings", len(c15FixedStrings)*3, func(i int) *Item {
		s, flag := c15FixedStrings[i/3], c15Flags[i%3]
		return phItem("fixed-strings", flag, aStr(s), c15W[(i/3)%len(c15W)], c15AllRoles)
	})
	// 2. every Unicode scalar value, packed into chunk strings
	chunk := pick(512, 64)
	const nScalars = 0x110000 - 0x800
	nChunks := (nScalars + chunk - 1) / chunk
	perChunk := pick(1, 3)
	add("all-scalars", nChunks*perChunk, func(i int) *Item {
		k := i / perChunk
		flag := c15Flags[(i+int(((cx.Seed%3)+3)%3))%3]
		if perChunk == 3 {
			flag = c15Flags[i%3]
		}
		var sb strings.Builder
		for j := k * chunk; j < (k+1)*chunk && j < nScalars; j++ {
			r := rune(j)
			if r >= 0xD800 {
				r += 0x800
			}
			sb.WriteRune(r)
		}
		return phItem("all-scalars", flag, aStr(sb.String()), c15W[0], []string{"alone", "literal", "identical"})
	})
	// 3. single scalars under the atom flag (a one-rune atom is a special representation in most engines)
	nSingle := pick(600, 12000)
	add("single-scalar", nSingle, func(i int) *Item {
		r := rng("single", i)
		var c rune
		if i < len(c15Special) {
			c = c15Special[i]
		} else if i < len(c15Special)+128 {
			c = rune(i - len(c15Special))
		} else {
			c = randRune(r)
		}
		return phItem("single-scalar", c15Flags[(i+2)%3], aStr(string(c)), c15W[i%len(c15W)], someRoles(r, 2))
	})
	// 4. random strings
	nRand := pick(2000, 70000)
	add("random-strings", nRand*3, func(i int) *Item {
		r := rng("randstr", i/3)
		s := randString(r)
		w := c15W[r.Intn(len(c15W))]
		if r.Intn(3) == 0 {
			w = aStr(randString(r))
		}
		roles := someRoles(r, 2)
		return phItem("random-strings", c15Flags[i%3], aStr(s), w, roles)
	})
	// 5. integers
	fi := fixedInts()
	add("fixed-ints", len(fi), func(i int) *Item {
		return phItem("fixed-ints", c15Flags[i%3], fi[i], c15W[i%len(c15W)], c15AllRoles)
	})
	add("random-ints", pick(700, 8000), func(i int) *Item {
		r := rng("randint", i)
		t := c15IntTypes[r.Intn(len(c15IntTypes))]
		return phItem("random-ints", c15Flags[i%3], aInt(t, randInt(r, intWidth[t])), aInt("int64", randInt(r, 64)), someRoles(r, 2))
	})
	// 6. floats
	ff := fixedFloats()
	add("fixed-floats", len(ff), func(i int) *Item {
		return phItem("fixed-floats", c15Flags[i%3], ff[i], c15W[i%len(c15W)], c15AllRoles)
	})
	add("random-floats", pick(700, 8000), func(i int) *Item {
		r := rng("randfloat", i)
		return phItem("random-floats", c15Flags[i%3], randFloat(r), randFloat(r), someRoles(r, 2))
	})
	// 7. typed nested slices and arrays
	add("slices", pick(1800, 24000), func(i int) *Item {
		r := rng("slice", i)
		t := c15SliceTypes[i%len(c15SliceTypes)]
		return phItem("slices", c15Flags[(i/len(c15SliceTypes))%3], randOfType(r, t, 0), randOfType(r, c15SliceTypes[r.Intn(len(c15SliceTypes))], 1), someRoles(r, 2))
	})
	// 8. count mismatches: k placeholders, n arguments, Query and Exec
	type mm struct{ k, n, kind, exec int }
	var mms []mm
	for k := 0; k <= 4; k++ {
		for n := 0; n <= 5; n++ {
			for kind := 0; kind < 3; kind++ {
				for exec := 0; exec < 2; exec++ {
					mms = append(mms, mm{k, n, kind, exec})
				}
				// Query with more text after the full stop of the term it reads (exec = 2 + index of the trailing text)
				for tr := range c15Trailing {
					if (k+n+kind+tr)%2 == 0 || k != n {
						mms = append(mms, mm{k, n, kind, 2 + tr})
					}
				}
			}
		}
	}
	add("count", len(mms), func(i int) *Item {
		m := mms[i]
		r := rng("count", i)
		args := make([]proto.Arg, m.n)
		for j := range args {
			switch m.kind {
			case 0:
				args[j] = aInt("int", int64(j+1))
			case 1:
				args[j] = aStr(c15FixedStrings[r.Intn(len(c15FixedStrings))])
			default:
				args[j] = randOfType(r, c15SliceTypes[r.Intn(8)], 1)
			}
		}
		c := &proto.Case{Kind: "goapi", Flags: [][2]string{{"double_quotes", c15Flags[i%3]}}}
		trailing := -1
		if m.exec >= 2 {
			trailing = m.exec - 2
			c.Steps = []proto.Step{{Query: "X = " + placeholders(m.k) + " . " + c15Trailing[trailing], Args: args, Max: 3}}
		} else if m.exec == 1 {
			c.Steps = []proto.Step{{Exec: "foo(" + placeholders(m.k) + ") .", Args: args}, {Query: "foo(X) .", Max: 3}}
		} else {
			c.Steps = []proto.Step{{Query: "X = " + placeholders(m.k) + " .", Args: args, Max: 3}}
		}
		nph := []int{m.k, m.n}
		if trailing >= 0 {
			nph = append(nph, strings.Count(c15Trailing[trailing], "?"))
		}
		meta, _ := json.Marshal(&c15Meta{Part: "mismatch", Family: "count", Flag: c15Flags[i%3], NPh: nph})
		return &Item{Cases: []*proto.Case{c}, Meta: meta, Note: fmt.Sprintf("%d placeholders, %d arguments", m.k, m.n)}
	})
	// 9. Go types outside the statement: must not panic
	add("refuse", len(c15RefuseArgs)*2, func(i int) *Item {
		a := c15RefuseArgs[i/2]
		c := &proto.Case{Kind: "goapi"}
		if i%2 == 0 {
			c.Steps = []proto.Step{{Query: "X = f(?) .", Args: []proto.Arg{a}, Max: 3}}
		} else {
			c.Steps = []proto.Step{{Exec: "foo(?) .", Args: []proto.Arg{a}}}
		}
		meta, _ := json.Marshal(&c15Meta{Part: "refuse", Family: "refuse", V: &a})
		return &Item{Cases: []*proto.Case{c}, Meta: meta, Note: "unsupported Go type " + a.T}
	})
	// 10. observations the statement does not settle
	infos := []struct {
		name, flag string
		steps      []proto.Step
	}{
		{"quoted_qmark_with_arg", "codes", []proto.Step{{Query: "X = '?' .", Args: []proto.Arg{aInt("int", 1)}, Max: 3}}},
		{"quoted_qmark_without_arg", "codes", []proto.Step{{Query: "X = '?' .", Max: 3}}},
		{"dq_qmark_atom_flag_with_arg", "atom", []proto.Step{{Query: "X = \"?\" .", Args: []proto.Arg{aInt("int", 1)}, Max: 3}}},
		{"dq_qmark_atom_flag_without_arg", "atom", []proto.Step{{Query: "X = \"?\" .", Max: 3}}},
		{"qmark_functor", "codes", []proto.Step{{Query: "X = ?(a) .", Max: 3}}},
		{"exec_two_clauses_two_args", "codes", []proto.Step{{Exec: "foo(?) . foo(?) .", Args: []proto.Arg{aInt("int", 1), aInt("int", 2)}}, {Query: "foo(X) .", Max: 5}}},
		{"qmark_without_layout_before_end", "codes", []proto.Step{{Query: "X = ?.", Args: []proto.Arg{aInt("int", 1)}, Max: 3}}},
	}
	add("info", len(infos), func(i int) *Item {
		in := infos[i]
		c := &proto.Case{Kind: "goapi", Flags: [][2]string{{"double_quotes", in.flag}}, Steps: in.steps}
		meta, _ := json.Marshal(&c15Meta{Part: "info", Family: "info", Info: in.name})
		return &Item{Cases: []*proto.Case{c}, Meta: meta, Note: in.name}
	})
	// 11. the Scan matrix
	c.addScanFamilies(cx, add)
}

const c15ChunkSize = 20000

func (c *c15) Generate(cx *Ctx, chunk int) []*Item {
	c.buildPlan(cx)
	total := 0
	for _, f := range c.plan {
		total += f.n
	}
	lo, hi := chunk*c15ChunkSize, (chunk+1)*c15ChunkSize
	if lo >= total {
		return nil
	}
	if hi > total {
		hi = total
	}
	items := make([]*Item, 0, hi-lo)
	first := 0 // global index of the family's first item
	for _, f := range c.plan {
		i := lo - first
		if i < 0 {
			i = 0
		}
		for ; i < f.n && first+i < hi; i++ {
			items = append(items, f.gen(i))
		}
		first += f.n
	}
	// every scalar value and the whole destination × value matrix are covered in both tiers
	cx.exhaustive = true
	return items
}

// --- oracle: placeholders -----------------------------------------------------------------------------------

func c15Infra(o *run.Outcome) *Verdict {
	if o.Crash != nil {
		if o.Crash.Hung {
			return &Verdict{Status: Inconclusive, Msg: "watchdog fired (wall clock) — no logical evidence"}
		}
		return &Verdict{Status: Violated, Class: "process_death", Msg: "worker process died while a Go value crossed the API: " + o.Crash.Exit + "\n" + firstLines(o.Crash.Stderr, 12)}
	}
	if o.Res == nil {
		return &Verdict{Status: Inconclusive, Msg: "no result"}
	}
	if o.Res.Fatal != "" {
		return &Verdict{Status: Inconclusive, Msg: "worker: " + o.Res.Fatal}
	}
	return nil
}

func isPanic(e *proto.Err) bool { return e != nil && e.GoType == "panic" }

func treeText(t *term.Term) string {
	if t == nil {
		return "<none>"
	}
	return clip(t.String(), 400)
}

func answerText(a map[string]*term.Term) string {
	var ks []string
	for k := range a {
		ks = append(ks, k)
	}
	sort.Strings(ks)
	var sb strings.Builder
	for i, k := range ks {
		if i > 0 {
			sb.WriteString(", ")
		}
		sb.WriteString(k + " = " + treeText(a[k]))
	}
	return sb.String()
}

func stepText(st *proto.Step) string {
	if st.Exec != "" {
		return "Exec(" + clip(strconv.QuoteToASCII(st.Exec), 200) + ")"
	}
	return "Query(" + clip(strconv.QuoteToASCII(st.Query), 200) + ")"
}

func observedText(sr *proto.StepResult) string {
	var parts []string
	for _, a := range sr.Answers {
		parts = append(parts, "{"+answerText(a)+"}")
	}
	s := fmt.Sprintf("%d answers %s", len(sr.Answers), strings.Join(parts, " "))
	if sr.Err != nil {
		s += " error: " + clip(sr.Err.Text, 200)
	}
	return s
}

// textShaped: is t a ground term of the shape double-quoted text has under dq?
func textShaped(t *term.Term, dq string) bool {
	if dq == "atom" {
		return t.K == term.KAtom
	}
	es, tail := term.ListElems(t)
	if !tail.IsAtom("[]") {
		return false
	}
	for _, e := range es {
		if dq == "codes" && (e.K != term.KInt || e.I < 0 || e.I > unicode.MaxRune) {
			return false
		}
		if dq == "chars" && (e.K != term.KAtom || utf8.RuneCountInString(e.S) != 1) {
			return false
		}
	}
	return true
}

// expectedAnswer gives, for a role, the variables the answer must have and their values.
func expectedAnswer(role string, tv, tw *term.Term) map[string]*term.Term {
	switch role {
	case "alone", "execq", "literal":
		return map[string]*term.Term{"X": tv}
	case "inlist":
		return map[string]*term.Term{"X": term.L(term.A("a"), tv, term.A("b"))}
	case "arg":
		return map[string]*term.Term{"X": term.C("f", tv)}
	case "operands":
		return map[string]*term.Term{"X": term.C("-", tv, tw)}
	case "three":
		return map[string]*term.Term{"X": term.C("g", tw, term.L(tv), term.C("h", tv))}
	case "shared":
		z := term.V(0)
		return map[string]*term.Term{"X": term.C("h", tv, term.C("g", z), z), "Y": term.C("g", z), "Z": z}
	}
	return nil
}

func sameAnswer(got, want map[string]*term.Term) bool {
	if len(got) != len(want) {
		return false
	}
	var ks []string
	for k := range want {
		if _, ok := got[k]; !ok {
			return false
		}
		ks = append(ks, k)
	}
	sort.Strings(ks)
	var g, w []*term.Term
	for _, k := range ks {
		g = append(g, got[k])
		w = append(w, want[k])
	}
	return term.VariantAll(g, w)
}

func (c *c15) judgePh(m *c15Meta, it *Item, o *run.Outcome) Verdict {
	if v := c15Infra(o); v != nil {
		return *v
	}
	res := o.Res
	steps := it.Cases[0].Steps
	if len(res.Steps) != len(steps) || len(m.Roles) != len(steps) {
		return Verdict{Status: Inconclusive, Msg: "step count mismatch between case and result"}
	}
	tv, stV := argTree(*m.V, m.Flag)
	tw, stW := argTree(*m.W, m.Flag)
	v := Verdict{Status: Held, Extra: map[string]int64{"ph_items_" + m.Family: 1, "ph_flag_" + m.Flag: 1}}
	v.NonTrivial = activeArg(*m.V)
	type stepSample struct {
		Call     string `json:"call"`
		Args     string `json:"go_args,omitempty"`
		Expected string `json:"expected"`
		Observed string `json:"observed"`
	}
	var samples []*stepSample // the first steps, and always the current one
	show := func() interface{} {
		out := samples
		if len(out) > 3 {
			out = append(append([]*stepSample{}, out[:2]...), out[len(out)-1])
		}
		return map[string]interface{}{"go_value": describeArg(*m.V), "double_quotes": m.Flag, "steps": out}
	}
	fail := func(class, msg string) Verdict {
		v.Status, v.Msg, v.Class = Violated, msg, class
		v.Sample = show()
		return v
	}
	var alone *term.Term // the observed tree of X for `X = ?`
	execOK := false
	for i, role := range m.Roles {
		st, sr := &steps[i], &res.Steps[i]
		if sr.Err != nil && strings.HasPrefix(sr.Err.Text, "verif:") {
			return Verdict{Status: Inconclusive, Msg: "worker could not build the Go value: " + sr.Err.Text}
		}
		if sr.BudgetHit {
			return Verdict{Status: Inconclusive, Msg: "step budget hit in " + stepText(st)}
		}
		status := stV
		if role == "operands" || role == "three" {
			status = worse(stV, stW)
		}
		var argsText []string
		for _, a := range st.Args {
			argsText = append(argsText, describeArg(a))
		}
		want := expectedAnswer(role, tv, tw)
		ss := &stepSample{Call: stepText(st), Args: clip(strings.Join(argsText, ", "), 400), Observed: observedText(sr)}
		if want != nil {
			ss.Expected = "exactly one answer {" + answerText(want) + "}"
		}
		samples = append(samples, ss)
		where := fmt.Sprintf("%s with %s under double_quotes=%s", stepText(st), clip(strings.Join(argsText, ", "), 300), m.Flag)
		if isPanic(sr.Err) {
			return fail("panic", "panic instead of a result: "+where+": "+sr.Err.Text)
		}
		v.Extra["ph_steps_"+role]++
		switch role {
		case "exec":
			ss.Expected = "no error"
			execOK = false
			switch {
			case sr.Err == nil:
				execOK = true
			case status == stExact:
				return fail("", "Exec with a placeholder failed: "+where+": "+sr.Err.Text)
			default:
				v.Extra["ph_refused_or_open"]++
			}
			continue
		case "execq":
			if !execOK {
				continue
			}
		case "literal":
			// the literal text form of the same value, when the reader accepts it
			if sr.Err != nil {
				v.Extra["literal_rejected_by_reader"]++
				continue
			}
			if len(sr.Answers) != 1 || sr.Answers[0]["X"] == nil {
				v.Extra["literal_rejected_by_reader"]++
				continue
			}
			lit := sr.Answers[0]["X"]
			v.Extra["literal_compared"]++
			if alone != nil && !term.Equal(lit, alone) {
				cls := "literal_differs"
				if !term.Equal(alone, tv) {
					cls = ""
				}
				return fail(cls, fmt.Sprintf("the placeholder does not behave like the literal: %s gives X = %s, but %s under double_quotes=%s gave X = %s (the value denotes %s)",
					stepText(st), treeText(lit), describeArg(*m.V), m.Flag, treeText(alone), treeText(tv)))
			}
			continue
		case "identical":
			if sr.Err != nil || len(sr.Answers) != 1 || sr.Answers[0]["Same"] == nil {
				v.Extra["literal_rejected_by_reader"]++
				continue
			}
			ss.Expected = "Same = yes"
			v.Extra["literal_identity_tests"]++
			if !sr.Answers[0]["Same"].IsAtom("yes") {
				return fail("literal_not_identical", fmt.Sprintf("the placeholder is not identical (==) to the literal denoting the same value: %s with %s under double_quotes=%s gave %s",
					stepText(st), describeArg(*m.V), m.Flag, observedText(sr)))
			}
			continue
		}
		// the common shape: exactly one answer with exactly the query's variables, then no more
		switch status {
		case stExact, stEither:
			if sr.Err != nil && len(sr.Answers) == 0 && status == stEither {
				v.Extra["ph_optional_type_refused"]++
				continue
			}
			if sr.Err != nil {
				return fail("", "error where the literal would succeed: "+where+": "+sr.Err.Text)
			}
			if len(sr.Answers) != 1 || !sr.Exhausted {
				return fail("", fmt.Sprintf("expected exactly one answer, observed %s: %s", observedText(sr), where))
			}
			if !sameAnswer(sr.Answers[0], want) {
				return fail("", fmt.Sprintf("the Go value did not arrive as the data it is: expected {%s}, observed {%s}: %s", answerText(want), answerText(sr.Answers[0]), where))
			}
			v.Extra["ph_exact_trees_compared"]++
		case stOpen:
			// no literal denotes the value: an error, or one answer with the same variables and a ground,
			// text-shaped (resp. float) value in the place of the placeholder
			v.Extra["ph_open_values"]++
			if sr.Err != nil && len(sr.Answers) == 0 {
				continue
			}
			if sr.Err != nil || len(sr.Answers) != 1 || !sr.Exhausted || len(sr.Answers[0]) != len(want) {
				return fail("", fmt.Sprintf("a value without literal changed the shape of the query: observed %s: %s", observedText(sr), where))
			}
			if sameAnswer(sr.Answers[0], want) {
				v.Extra["ph_open_as_go_range_semantics"]++
			} else if role == "alone" {
				x := sr.Answers[0]["X"]
				if x == nil || len(term.VarsOf(x)) > 0 || (m.V.T == "string" && !textShaped(x, m.Flag)) || (strings.HasPrefix(m.V.T, "float") && x.K != term.KFloat) {
					return fail("", fmt.Sprintf("a value without literal was not passed as data: X = %s: %s", treeText(x), where))
				}
			}
		}
		if role == "alone" && len(sr.Answers) == 1 {
			alone = sr.Answers[0]["X"]
		}
	}
	if len(samples) > 3 {
		samples = samples[:3]
	}
	v.Sample = show()
	return v
}

func (c *c15) judgeMismatch(m *c15Meta, it *Item, o *run.Outcome) Verdict {
	if v := c15Infra(o); v != nil {
		return *v
	}
	steps, res := it.Cases[0].Steps, o.Res
	if len(res.Steps) != len(steps) || len(m.NPh) < 2 {
		return Verdict{Status: Inconclusive, Msg: "step count mismatch between case and result"}
	}
	k, n := m.NPh[0], m.NPh[1]
	if len(m.NPh) == 3 {
		// Query text with more text after the term: only a mismatch under both ways of counting is asserted
		if n == k || n == k+m.NPh[2] {
			return Verdict{Status: Held, Extra: map[string]int64{"count_trailing_text_not_asserted": 1}}
		}
	}
	st, sr := &steps[0], &res.Steps[0]
	v := Verdict{Status: Held, Extra: map[string]int64{}}
	var argsText []string
	for _, a := range st.Args {
		argsText = append(argsText, describeArg(a))
	}
	exp := "an error and no answer"
	if k == n {
		exp = "success"
	}
	v.Sample = map[string]interface{}{"call": stepText(st), "go_args": clip(strings.Join(argsText, ", "), 300), "placeholders": k, "arguments": n,
		"expected": exp, "observed": observedText(sr)}
	where := fmt.Sprintf("%s with %d arguments (%s)", stepText(st), n, clip(strings.Join(argsText, ", "), 300))
	if sr.Err != nil && strings.HasPrefix(sr.Err.Text, "verif:") {
		return Verdict{Status: Inconclusive, Msg: sr.Err.Text}
	}
	if isPanic(sr.Err) {
		v.Status, v.Class, v.Msg = Violated, "panic", "panic instead of an error: "+where+": "+sr.Err.Text
		return v
	}
	switch {
	case k == n:
		v.Extra["count_matching_controls"]++
		exact := true
		for _, a := range st.Args {
			if _, s := argTree(a, m.Flag); s != stExact {
				exact = false
			}
		}
		if !exact {
			v.Extra["count_matching_controls_not_asserted"]++
		} else if sr.Err != nil || (st.Exec == "" && len(sr.Answers) != 1) {
			v.Status, v.Msg = Violated, fmt.Sprintf("%d placeholders and %d arguments, yet: %s: %s", k, n, observedText(sr), where)
		}
	case k > n:
		v.Extra["count_too_few_arguments"]++
		if sr.Err == nil || len(sr.Answers) > 0 {
			v.Status, v.Msg = Violated, fmt.Sprintf("%d placeholders but only %d arguments: no error (%s): %s", k, n, observedText(sr), where)
		}
	default:
		v.Extra["count_too_many_arguments"]++
		if sr.Err == nil || len(sr.Answers) > 0 {
			v.Status, v.Msg = Violated, fmt.Sprintf("%d placeholders but %d arguments: no error (%s): %s", k, n, observedText(sr), where)
		}
	}
	return v
}

func (c *c15) judgeRefuse(m *c15Meta, it *Item, o *run.Outcome) Verdict {
	if v := c15Infra(o); v != nil {
		return *v
	}
	st, sr := &it.Cases[0].Steps[0], &o.Res.Steps[0]
	v := Verdict{Status: Held, Extra: map[string]int64{}}
	v.Sample = map[string]interface{}{"call": stepText(st), "go_type": m.V.T, "expected": "no panic (an error, or acceptance)", "observed": observedText(sr)}
	switch {
	case sr.Err != nil && strings.HasPrefix(sr.Err.Text, "verif:"):
		return Verdict{Status: Inconclusive, Msg: sr.Err.Text}
	case isPanic(sr.Err):
		v.Status, v.Class, v.Msg = Violated, "panic", fmt.Sprintf("a Go value of type %s made %s panic: %s", m.V.T, stepText(st), sr.Err.Text)
	case sr.Err != nil:
		v.Extra["unsupported_type_refused_with_error"]++
	default:
		v.Extra["unsupported_type_accepted"]++
		// an accepted unsigned integer has to arrive as the integer it is (values from 2^63 on cannot: an error is due)
		if strings.HasPrefix(m.V.T, "uint") && st.Query != "" && len(sr.Answers) == 1 {
			want := new(big.Int).SetUint64(uint64(m.V.I))
			switch m.V.T {
			case "uint8":
				want.SetUint64(uint64(uint8(m.V.I)))
			case "uint16":
				want.SetUint64(uint64(uint16(m.V.I)))
			case "uint32":
				want.SetUint64(uint64(uint32(m.V.I)))
			}
			x := sr.Answers[0]["X"]
			if x != nil && x.IsCmp("f", 1) && x.Args[0].K == term.KInt && big.NewInt(x.Args[0].I).Cmp(want) != 0 {
				v.Status, v.Msg = Violated, fmt.Sprintf("the Go value %s(%s) passed for ? arrived as the integer %d (neither the value nor an error)", m.V.T, want.String(), x.Args[0].I)
			}
		}
	}
	return v
}

func (c *c15) judgeInfo(cx *Ctx, m *c15Meta, it *Item, o *run.Outcome) Verdict {
	if v := c15Infra(o); v != nil {
		if v.Status == Violated {
			return *v
		}
		return Verdict{Status: Inconclusive, Msg: v.Msg}
	}
	var obs []string
	for i := range o.Res.Steps {
		if isPanic(o.Res.Steps[i].Err) {
			return Verdict{Status: Violated, Class: "panic", Msg: "panic: " + stepText(&it.Cases[0].Steps[i]) + ": " + o.Res.Steps[i].Err.Text}
		}
		obs = append(obs, stepText(&it.Cases[0].Steps[i])+" → "+observedText(&o.Res.Steps[i]))
	}
	cx.Note("not asserted (" + m.Info + "): " + strings.Join(obs, "; "))
	return Verdict{Status: Held, Extra: map[string]int64{"not_asserted_info_probes": 1},
		Sample: map[string]interface{}{"probe": m.Info, "observed": obs, "expected": "(not asserted: the statement does not settle this)"}}
}

func (c *c15) Judge(cx *Ctx, it *Item, outs []*run.Outcome) Verdict {
	var m c15Meta
	if err := decodeMeta(it, &m); err != nil {
		return Verdict{Status: Inconclusive, Msg: err.Error()}
	}
	var v Verdict
	switch m.Part {
	case "ph":
		v = c.judgePh(&m, it, outs[0])
	case "mismatch":
		v = c.judgeMismatch(&m, it, outs[0])
	case "refuse":
		v = c.judgeRefuse(&m, it, outs[0])
	case "info":
		v = c.judgeInfo(cx, &m, it, outs[0])
	case "scan":
		v = c.judgeScan(&m, it, outs[0])
	default:
		return Verdict{Status: Inconclusive, Msg: "unknown part " + m.Part}
	}
	if v.Status == Held && !c15Showcase(&m) {
		v.Sample = nil // the evidence file shows one designated case of each kind instead of the first four
	}
	return v
}

// c15Showcase selects the held cases whose expected/observed values go into the evidence file.
func c15Showcase(m *c15Meta) bool {
	switch m.Part {
	case "ph":
		if m.Family != "fixed-strings" || m.V == nil {
			return false
		}
		s := argString(*m.V)
		return (s == "a). halt. %" && m.Flag == "codes") || (s == "' , halt, '" && m.Flag == "atom")
	case "scan":
		return m.Family == "scan-matrix" && ((m.Value == "int 300" && m.Dest == "int8") || (m.Value == "list [1,300,-129]" && m.Dest == "[]int8"))
	}
	return false
}
