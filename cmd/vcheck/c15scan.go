package main

// C15, part B: the Scan matrix. Every destination type × every answer value; the oracle is an exact model of
// "the stored value is the answer's value, or an error is returned".

import (
	"encoding/json"
	"fmt"
	"math"
	"math/big"
	"sort"
	"strconv"
	"strings"
	"unicode/utf8"

	"verif/internal/proto"
	"verif/internal/run"
	"verif/internal/term"
)

// c15Dests must be a subset of scanDests in cmd/vworker/scancase.go.
var c15Dests = []string{"interface{}", "string", "int", "int8", "int16", "int32", "int64", "uint", "uint8", "uint64", "float32", "float64", "bool",
	"TermString", "[]interface{}", "[]string", "[]int", "[]int8", "[]int16", "[]int32", "[]int64", "[]uint8", "[]float32", "[]float64", "[][]int",
	"[][]int8", "[][]string", "[][]float64", "[][]interface{}", "[][][]int", "[]int(nil)", "[3]int"}

type scanValue struct {
	name  string
	t     *term.Term // served structurally by verif_in(0, X) …
	query string     // … or produced by this query text under flag
	flag  string
}

func c15ScanValues() []scanValue {
	var vs []scanValue
	add := func(name string, t *term.Term) { vs = append(vs, scanValue{name: name, t: t}) }
	I, F, A, L := term.I, term.F, term.A, term.L
	for _, n := range []int64{0, 1, -1, 100, 127, 128, 129, -127, -128, -129, 255, 256, 300, -300, 32767, 32768, 32769, -32767, -32768, -32769, 65535, 65536,
		1<<31 - 2, 1<<31 - 1, 1 << 31, 1<<31 + 1, -(1 << 31) + 1, -(1 << 31), -(1 << 31) - 1, 1<<32 - 1, 1 << 32, 1<<32 + 44, 16777216, 16777217,
		1 << 53, 1<<53 + 1, -(1 << 53), -(1 << 53) - 1, 1 << 62, math.MaxInt64 - 1, math.MaxInt64, math.MinInt64, math.MinInt64 + 1} {
		add(fmt.Sprintf("int %d", n), I(n))
	}
	for _, f := range []float64{0, math.Copysign(0, -1), 1, -1, 1.5, -1.5, 3, 0.1, 1e10, 1e308, -1e308, math.MaxFloat64, math.SmallestNonzeroFloat64, 1e-320,
		math.MaxFloat32, -math.MaxFloat32, 3.5e38, -3.5e38, 1e-46, 16777216, 16777217, 127, 128, -129, 300.0, 2147483648, 9007199254740992, 9007199254740994,
		9.223372036854775808e18, -9.223372036854775808e18, 1.8446744073709552e19, 0.5, 2.5, float64(math.SmallestNonzeroFloat32)} {
		add("float "+strconv.FormatFloat(f, 'g', -1, 64), F(f))
	}
	for _, a := range []string{"a", "", "[]", "{}", "hello world", "héllo", "日本語", "\U0001F600", "a\nb", "\x00", "?", "X", "_", "'", "\"", "\\",
		"nil", "true", "false", "1", "-5", "1.5", "[a]", "a). halt. %", ".", "�", "é"} {
		add("atom "+strconv.QuoteToASCII(a), A(a))
	}
	// text as lists, in every engine representation
	for _, s := range []string{"abc", "a", "héllo \U0001F600", "a). halt. %", "\x00\n'"} {
		q := strconv.QuoteToASCII(s)
		add("codes(string-backed) "+q, term.WithRep(term.Codes(s), "codes"))
		add("chars(string-backed) "+q, term.WithRep(term.Chars(s), "chars"))
		add("codes(slice) "+q, term.Codes(s))
		add("chars(slice) "+q, term.Chars(s))
		add("chars(cons) "+q, term.WithRep(term.Chars(s), "cons"))
	}
	add("codes(slice) with code 0x110000", L(I(97), I(0x110000)))
	add("codes(slice) with surrogate code", L(I(0xD800), I(97)))
	add("chars(slice) with a two-char atom", L(A("a"), A("bc")))
	// lists
	ints := func(ns ...int64) *term.Term {
		es := make([]*term.Term, len(ns))
		for i, n := range ns {
			es[i] = I(n)
		}
		return L(es...)
	}
	add("list [1,2,3]", ints(1, 2, 3))
	add("list(cons) [1,2,3]", term.WithRep(ints(1, 2, 3), "cons"))
	add("list [5]", ints(5))
	add("list [1,300,-129]", ints(1, 300, -129))
	add("list [127,128]", ints(127, 128))
	add("list [-128,127]", ints(-128, 127))
	add("list [0,2147483648]", ints(0, 2147483648))
	add("list [32768]", ints(32768))
	add("list [9223372036854775807,-9223372036854775808]", ints(math.MaxInt64, math.MinInt64))
	add("list [9007199254740993]", ints(1<<53+1))
	add("list [a,b]", L(A("a"), A("b")))
	add("list ['hello world','']", L(A("hello world"), A("")))
	add("list [1,a,2.5]", L(I(1), A("a"), F(2.5)))
	add("list [1.5,2.5]", L(F(1.5), F(2.5)))
	add("list [1.5,2]", L(F(1.5), I(2)))
	add("list [0.1,1.0e308]", L(F(0.1), F(1e308)))
	add("list [[1,2],[3]]", L(ints(1, 2), ints(3)))
	add("list [[1],[a]]", L(ints(1), L(A("a"))))
	add("list [[]]", L(L()))
	add("list [[],[]]", L(L(), L()))
	add("list [[[1]]]", L(L(ints(1))))
	add("list [[[1,2],[]],[[300]]]", L(L(ints(1, 2), L()), L(ints(300))))
	add("list [1,[2,[3]]]", L(I(1), L(I(2), ints(3))))
	add("list [[a,b],[c]]", L(L(A("a"), A("b")), L(A("c"))))
	add("list [[1.5],[]]", L(L(F(1.5)), L()))
	add("list [_,1]", L(term.V(0), I(1)))
	add("list [[1,2],[3|_]]", L(ints(1, 2), term.PL(term.V(0), I(3))))
	add("list of text [\"ab\",\"c\"] codes(string-backed)", L(term.WithRep(term.Codes("ab"), "codes"), term.WithRep(term.Codes("c"), "codes")))
	add("list of text [\"ab\",\"é\"] chars(string-backed)", L(term.WithRep(term.Chars("ab"), "chars"), term.WithRep(term.Chars("é"), "chars")))
	long := make([]int64, 1000)
	for i := range long {
		long[i] = int64(i) - 500
	}
	add("list of 1000 ints -500..499", ints(long...))
	add("list [f(a)]", L(term.C("f", A("a"))))
	// not lists
	add("partial list [1,2|_]", term.PL(term.V(0), I(1), I(2)))
	add("improper list [1,2|3]", term.PL(I(3), I(1), I(2)))
	add("improper list [a|b]", term.PL(A("b"), A("a")))
	add("compound f(a)", term.C("f", A("a")))
	add("compound f(1,2)", term.C("f", I(1), I(2)))
	add("compound 1-2", term.C("-", I(1), I(2)))
	add("compound '.'(1)", term.C(".", I(1)))
	add("compound {a}", term.C("{}", A("a")))
	add("unbound variable", term.V(0))
	// values produced by the reader
	for _, fl := range c15Flags {
		vs = append(vs, scanValue{name: "text \"abc\" read under double_quotes=" + fl, query: "X = \"abc\" .", flag: fl})
		vs = append(vs, scanValue{name: "text \"\" read under double_quotes=" + fl, query: "X = \"\" .", flag: fl})
	}
	vs = append(vs, scanValue{name: "text 300 read", query: "X = 300 .", flag: "codes"},
		scanValue{name: "text [1,300|T] read", query: "X = [1,300|_] .", flag: "codes"},
		scanValue{name: "computed X is 2**40", query: "X is 2**40 .", flag: "codes"},
		scanValue{name: "computed X is 10.0**38*4", query: "X is 10.0**38*4 .", flag: "codes"},
		scanValue{name: "atom_codes(abc, X)", query: "atom_codes(abc, X) .", flag: "codes"},
		scanValue{name: "atom_chars(abc, X)", query: "atom_chars(abc, X) .", flag: "codes"},
		scanValue{name: "findall(N, between(126, 129, N), X)", query: "findall(N0, between(126, 129, N0), X), N0 = 0 .", flag: "codes"})
	return vs
}

func (c *c15) addScanFamilies(cx *Ctx, add func(name string, n int, gen func(i int) *Item)) {
	vals := c15ScanValues()
	mk := func(fam string, v scanValue, dest string, multi bool) *Item {
		cs := &proto.Case{Kind: "scan"}
		p := proto.ScanPayload{Dests: []string{dest}}
		switch {
		case v.t != nil && multi:
			cs.Inputs = []*term.Term{v.t}
			p.Query = "verif_in(0, X), Y = X, Z = zed ."
		case v.t != nil:
			cs.Inputs = []*term.Term{v.t}
			p.Query = "verif_in(0, X) ."
		default:
			cs.Flags = [][2]string{{"double_quotes", v.flag}}
			p.Query = v.query
		}
		cs.P, _ = json.Marshal(&p)
		meta, _ := json.Marshal(&c15Meta{Part: "scan", Family: fam, Dest: dest, Value: v.name, Want: v.t, Multi: multi})
		return &Item{Cases: []*proto.Case{cs}, Meta: meta, Note: "Scan of " + v.name + " into " + dest}
	}
	nd := len(c15Dests)
	add("scan-matrix", len(vals)*nd, func(i int) *Item { return mk("scan-matrix", vals[i/nd], c15Dests[i%nd], false) })
	// several variables: a map destination converts every variable, a struct only the named fields
	var multi []scanValue
	for _, v := range vals {
		if v.t != nil && (strings.HasPrefix(v.name, "int 1") || strings.HasPrefix(v.name, "atom \"a") || strings.HasPrefix(v.name, "list [1,") || v.name == "unbound variable") {
			multi = append(multi, v)
		}
	}
	md := []string{"interface{}", "string", "int", "int8", "[]interface{}", "[]int8"}
	add("scan-multi", len(multi)*len(md), func(i int) *Item { return mk("scan-multi", multi[i/len(md)], md[i%len(md)], true) })
	// several variables bound to DIFFERENT lists of different lengths (a later, shorter list must not end up in an
	// earlier entry's storage)
	lists := []string{
		"X = [1,2,3], Y = [4,5,6], Z = [7] .", "X = [1,2,3,4], Y = [5], Z = [6,7] .", "Z = [9,8,7], X = [1], Y = [2,3] .",
		"X = [a,b,c], Y = [d,e], Z = [f] .", "X = [[1,2],[3]], Y = [[4]], Z = [[5,6,7]] .", "X = [1.5,2.5], Y = [3.5], Z = [] .",
		"X = [1,2,3], Y = X, Z = [4] .", "A = [1,2,3,4,5], B = [6,7], C = [8], X = [9,10,11] .",
	}
	ld := []string{"[]int", "[]int8", "[]int64", "[]interface{}", "[]string", "[][]int", "[]float64", "interface{}"}
	add("scan-multi-lists", len(lists)*len(ld), func(i int) *Item {
		return mk("scan-multi-lists", scanValue{name: "several lists: " + lists[i/len(ld)], query: lists[i/len(ld)], flag: "codes"}, ld[i%len(ld)], false)
	})
	// round trip: a Go value goes in through '?' and comes back through Scan into its own type and into interface{}
	rt := []string{"string", "int", "int8", "int16", "int32", "int64", "float64", "float32", "[]int", "[]int8", "[]int16", "[]int32", "[]int64", "[]string",
		"[]float64", "[]float32", "[][]int", "[][]int8", "[][]string", "[][]float64", "[][][]int"}
	nrt := 800
	if cx.Thorough() {
		nrt = 12000
	}
	add("scan-roundtrip", nrt, func(i int) *Item {
		r := cx.Rng(fmt.Sprintf("c15/roundtrip/%d", i))
		t := rt[i%len(rt)]
		if i%3 == 0 {
			t = "string"
		}
		var a proto.Arg
		for {
			a = randOfType(r, t, 0)
			if _, st := argTree(a, "atom"); st == stExact { // valid UTF-8, finite floats
				break
			}
		}
		flag := c15Flags[(i/3)%3]
		cs := &proto.Case{Kind: "scan", Flags: [][2]string{{"double_quotes", flag}}}
		cs.P, _ = json.Marshal(&proto.ScanPayload{Query: "X = ? .", Args: []proto.Arg{a}, Dests: []string{t, "interface{}"}})
		want, _ := argTree(a, flag)
		meta, _ := json.Marshal(&c15Meta{Part: "scan", Family: "scan-roundtrip", Dest: t, Value: clip(describeArg(a), 200) + " passed for '?' under double_quotes=" + flag, Want: want, V: &a, Flag: flag})
		return &Item{Cases: []*proto.Case{cs}, Meta: meta, Note: "round trip of " + clip(describeArg(a), 120)}
	})
}

// --- the model ----------------------------------------------------------------------------------------------

type scanMode int

const (
	mMust   scanMode = iota // representable in a destination the statement lists: Scan must store exactly this
	mEither                 // representable, but support is optional: an error, or exactly this
	mOpen                   // the statement does not decide (float32 rounding, TermString, string from a non-text term)
	mError                  // not representable in the destination: an error is the only correct outcome
)

var modeNames = [...]string{"must store exactly", "error, or exactly", "(not asserted)", "must be an error"}

type scanExp struct {
	mode  scanMode
	match func(g *proto.GoVal) bool // is g exactly the answer's value? (nil for mError/mOpen)
	want  string
	oor   bool // a number of the answer lies outside the destination's range (non-triviality rule)
}

var intKinds = map[string]bool{"int": true, "int8": true, "int16": true, "int32": true, "int64": true, "uint": true, "uint8": true, "uint16": true,
	"uint32": true, "uint64": true, "uintptr": true}

type intType struct {
	bits   int
	signed bool
}

var scanIntTypes = map[string]intType{"int": {strconv.IntSize, true}, "int8": {8, true}, "int16": {16, true}, "int32": {32, true}, "int64": {64, true},
	"uint": {strconv.IntSize, false}, "uint8": {8, false}, "uint64": {64, false}}

func (it intType) fits(v *big.Int) bool {
	lo, hi := new(big.Int), new(big.Int)
	if it.signed {
		hi.Lsh(big.NewInt(1), uint(it.bits-1))
		lo.Neg(hi)
		hi.Sub(hi, big.NewInt(1))
	} else {
		hi.Lsh(big.NewInt(1), uint(it.bits))
		hi.Sub(hi, big.NewInt(1))
	}
	return v.Cmp(lo) >= 0 && v.Cmp(hi) <= 0
}

// wrap is what a Go conversion int64 → intN stores (the deviation model of the unchecked narrowing).
func (it intType) wrap(v int64) *big.Int {
	switch {
	case it.signed && it.bits == 8:
		return big.NewInt(int64(int8(v)))
	case it.signed && it.bits == 16:
		return big.NewInt(int64(int16(v)))
	case it.signed && it.bits == 32:
		return big.NewInt(int64(int32(v)))
	case !it.signed && it.bits == 8:
		return big.NewInt(int64(uint8(v)))
	case !it.signed:
		return new(big.Int).SetUint64(uint64(v))
	}
	return big.NewInt(v)
}

func matchInt(v *big.Int) func(*proto.GoVal) bool {
	s := v.String()
	return func(g *proto.GoVal) bool { return intKinds[g.K] && g.I == s }
}

func matchStr(alts ...string) func(*proto.GoVal) bool {
	return func(g *proto.GoVal) bool {
		if g.K != "string" {
			return false
		}
		for _, a := range alts {
			if string(g.B) == a {
				return true
			}
		}
		return false
	}
}

func isSliceVal(g *proto.GoVal) bool { return strings.HasPrefix(g.K, "[") }

// floatAsInt returns the integer a float denotes, if it denotes one.
func floatAsInt(f float64) (*big.Int, bool) {
	if math.IsNaN(f) || math.IsInf(f, 0) || f != math.Trunc(f) {
		return nil, false
	}
	n, _ := new(big.Float).SetFloat64(f).Int(nil)
	return n, true
}

// textOfList: the text a proper non-empty list of one-char atoms or of code points spells.
func textOfList(t *term.Term) (string, bool) {
	es, tail := term.ListElems(t)
	if !tail.IsAtom("[]") || len(es) == 0 {
		return "", false
	}
	var sb strings.Builder
	chars := es[0].K == term.KAtom
	for _, e := range es {
		switch {
		case chars && e.K == term.KAtom && utf8.RuneCountInString(e.S) == 1 && utf8.ValidString(e.S):
			sb.WriteString(e.S)
		case !chars && e.K == term.KInt && e.I >= 0 && e.I <= utf8.MaxRune && utf8.ValidRune(rune(e.I)):
			sb.WriteRune(rune(e.I))
		default:
			return "", false
		}
	}
	return sb.String(), true
}

// scanModel: what may Scan do with answer value t and a destination of type dest? With wrap=true it is the
// deviation model "narrowing integer conversions are unchecked" instead.
func scanModel(dest string, t *term.Term, wrap bool) scanExp {
	if dest == "[]int(nil)" {
		dest = "[]int"
	}
	errExp := scanExp{mode: mError, want: "an error (a " + kindName(t) + " is not representable as " + dest + ")"}
	switch {
	case strings.HasPrefix(dest, "[]"), dest == "[3]int":
		ed := elemType(dest)
		es, tail := term.ListElems(t)
		if !tail.IsAtom("[]") {
			return errExp
		}
		if dest == "[3]int" && len(es) != 3 {
			return errExp
		}
		sub := make([]scanExp, len(es))
		mode := mMust
		if dest == "[3]int" {
			mode = mEither
		}
		oor := false
		var wants []string
		for i, e := range es {
			sub[i] = scanModel(ed, e, wrap)
			if sub[i].mode > mode {
				mode = sub[i].mode
			}
			oor = oor || sub[i].oor
			if i < 8 {
				wants = append(wants, sub[i].want)
			}
		}
		if len(es) > 8 {
			wants = append(wants, fmt.Sprintf("… %d more", len(es)-8))
		}
		x := scanExp{mode: mode, oor: oor, want: dest + "{" + strings.Join(wants, ", ") + "}"}
		switch mode {
		case mError:
			x.want = "an error (an element is not representable: " + firstBad(sub) + ")"
		case mOpen:
		default:
			x.match = func(g *proto.GoVal) bool {
				if !isSliceVal(g) || len(g.E) != len(sub) {
					return false
				}
				for i := range sub {
					if !sub[i].match(&g.E[i]) {
						return false
					}
				}
				return true
			}
		}
		return x
	case dest == "interface{}":
		switch t.K {
		case term.KInt:
			v := big.NewInt(t.I)
			return scanExp{mode: mMust, match: matchInt(v), want: "int(" + v.String() + ")"}
		case term.KFloat:
			bits := fmt.Sprintf("%016x", math.Float64bits(t.F))
			return scanExp{mode: mMust, want: "float64 bits " + bits, match: func(g *proto.GoVal) bool { return g.K == "float64" && g.F == bits }}
		case term.KAtom:
			if t.S == "[]" {
				return scanExp{mode: mMust, want: "an empty slice", match: func(g *proto.GoVal) bool {
					return (isSliceVal(g) && len(g.E) == 0) || matchStr("[]")(g)
				}}
			}
			return scanExp{mode: mMust, want: "string " + strconv.QuoteToASCII(t.S), match: matchStr(t.S)}
		case term.KVar:
			return scanExp{mode: mEither, want: "nil", match: func(g *proto.GoVal) bool { return g.K == "nil" || strings.HasPrefix(g.K, "other:") }}
		case term.KCmp:
			if t.IsList() {
				x := scanModel("[]interface{}", t, wrap)
				return x
			}
			return errExp
		}
		return scanExp{mode: mOpen, want: "?"}
	case dest == "string":
		switch {
		case t.K == term.KAtom && t.S == "[]":
			return scanExp{mode: mMust, want: `"[]" (or "")`, match: matchStr("[]", "")}
		case t.K == term.KAtom:
			return scanExp{mode: mMust, want: "string " + strconv.QuoteToASCII(t.S), match: matchStr(t.S)}
		}
		if s, ok := textOfList(t); ok {
			return scanExp{mode: mEither, want: "string " + strconv.QuoteToASCII(s), match: matchStr(s)}
		}
		// not a text: an error, or (not decided by the statement) a rendering of the term - but a rendering denotes the
		// term: a text that reads as a different term (elements glued together, dropped or re-interpreted) is an altered value
		return scanExp{mode: mEither, want: "an error (or a text that reads back as the term)", match: func(g *proto.GoVal) bool {
			if g.K != "string" {
				return false
			}
			back, _, err := term.ParseTerm(string(g.B))
			if err != nil || back == nil {
				return true // not readable by the harness parser: not decided
			}
			return term.VariantAll([]*term.Term{t}, []*term.Term{back})
		}}
	case dest == "TermString":
		return scanExp{mode: mOpen, want: "the term's text (not decided by the statement)"}
	case dest == "bool":
		if t.K == term.KAtom && (t.S == "true" || t.S == "false") {
			b := t.S == "true"
			return scanExp{mode: mEither, want: t.S, match: func(g *proto.GoVal) bool { return g.K == "bool" && g.T == b }}
		}
		return errExp
	case dest == "float64":
		switch t.K {
		case term.KFloat:
			bits := fmt.Sprintf("%016x", math.Float64bits(t.F))
			return scanExp{mode: mMust, want: "float64 bits " + bits, match: func(g *proto.GoVal) bool { return g.K == "float64" && g.F == bits }}
		case term.KInt:
			if n, ok := floatAsInt(float64(t.I)); ok && n.Cmp(big.NewInt(t.I)) == 0 {
				bits := fmt.Sprintf("%016x", math.Float64bits(float64(t.I)))
				return scanExp{mode: mEither, want: "float64 bits " + bits, match: func(g *proto.GoVal) bool { return g.K == "float64" && g.F == bits }}
			}
			e := errExp
			e.oor = true
			return e
		}
		return errExp
	case dest == "float32":
		switch t.K {
		case term.KFloat:
			f32 := float32(t.F)
			if math.Float64bits(float64(f32)) == math.Float64bits(t.F) {
				bits := fmt.Sprintf("%08x", math.Float32bits(f32))
				return scanExp{mode: mMust, want: "float32 bits " + bits, match: func(g *proto.GoVal) bool { return g.K == "float32" && g.F == bits }}
			}
			return scanExp{mode: mOpen, oor: true, want: "an error (the value is not a float32; rounding is not decided by the statement)"}
		case term.KInt:
			f32 := float32(t.I)
			if n, ok := floatAsInt(float64(f32)); ok && n.Cmp(big.NewInt(t.I)) == 0 {
				bits := fmt.Sprintf("%08x", math.Float32bits(f32))
				return scanExp{mode: mEither, want: "float32 bits " + bits, match: func(g *proto.GoVal) bool { return g.K == "float32" && g.F == bits }}
			}
			return scanExp{mode: mOpen, oor: true, want: "an error"}
		}
		return errExp
	}
	if it, ok := scanIntTypes[dest]; ok {
		var n *big.Int
		mode := mMust
		if !it.signed {
			mode = mEither
		}
		switch t.K {
		case term.KInt:
			n = big.NewInt(t.I)
			if !it.fits(n) && wrap {
				w := it.wrap(t.I)
				return scanExp{mode: mMust, oor: true, match: matchInt(w), want: dest + "(" + w.String() + ") [wrapped]"}
			}
		case term.KFloat:
			var ok bool
			if n, ok = floatAsInt(t.F); !ok {
				return errExp
			}
			mode = mEither
		default:
			return errExp
		}
		if !it.fits(n) {
			return scanExp{mode: mError, oor: true, want: fmt.Sprintf("an error (%s is outside the range of %s)", n, dest)}
		}
		return scanExp{mode: mode, match: matchInt(n), want: dest + "(" + n.String() + ")"}
	}
	return scanExp{mode: mOpen, want: "?"}
}

func firstBad(sub []scanExp) string {
	for _, s := range sub {
		if s.mode == mError {
			return strings.TrimPrefix(s.want, "an error ")
		}
	}
	return ""
}

func kindName(t *term.Term) string {
	switch t.K {
	case term.KVar:
		return "variable"
	case term.KInt:
		return "integer"
	case term.KFloat:
		return "float"
	case term.KAtom:
		return "atom"
	case term.KCmp:
		es, tail := term.ListElems(t)
		switch {
		case len(es) > 0 && tail.IsAtom("[]"):
			return "list"
		case len(es) > 0 && tail.K == term.KVar:
			return "partial list"
		case len(es) > 0:
			return "improper list"
		}
		return "compound"
	}
	return "term"
}

func goValText(g *proto.GoVal) string {
	if g == nil {
		return "<nothing>"
	}
	switch {
	case g.K == "nil":
		return "nil"
	case g.I != "":
		return g.K + "(" + g.I + ")"
	case g.F != "":
		if len(g.F) == 8 {
			u, _ := strconv.ParseUint(g.F, 16, 32)
			return fmt.Sprintf("float32(%v = bits %s)", math.Float32frombits(uint32(u)), g.F)
		}
		u, _ := strconv.ParseUint(g.F, 16, 64)
		return fmt.Sprintf("float64(%v = bits %s)", math.Float64frombits(u), g.F)
	case g.K == "bool":
		return fmt.Sprint(g.T)
	case isSliceVal(g):
		var es []string
		for i := range g.E {
			if i == 8 {
				es = append(es, fmt.Sprintf("… %d more", len(g.E)-8))
				break
			}
			es = append(es, goValText(&g.E[i]))
		}
		return g.K + "{" + strings.Join(es, ", ") + "}"
	case strings.HasPrefix(g.K, "other:"):
		return g.K
	default:
		return g.K + "(" + clip(strconv.QuoteToASCII(string(g.B)), 200) + ")"
	}
}

// --- oracle: Scan -------------------------------------------------------------------------------------------

func (c *c15) judgeScan(m *c15Meta, it *Item, o *run.Outcome) Verdict {
	if v := c15Infra(o); v != nil {
		return *v
	}
	var r proto.ScanResult
	if err := json.Unmarshal(o.Res.R, &r); err != nil {
		return Verdict{Status: Inconclusive, Msg: "bad scan result: " + err.Error()}
	}
	if r.QueryErr != nil || r.NoAnswer || r.Answer == nil || r.Answer["X"] == nil {
		return Verdict{Status: Inconclusive, Msg: fmt.Sprintf("the query that produces the answer value %q did not deliver an answer", m.Value)}
	}
	ans := r.Answer["X"]
	if m.Want != nil && !term.Variant(ans, m.Want) {
		return Verdict{Status: Inconclusive, Msg: fmt.Sprintf("the answer value is %s, intended %s", treeText(ans), treeText(m.Want))}
	}
	v := Verdict{Status: Held, Extra: map[string]int64{"scan_cells_" + m.Family: int64(len(r.Cells))}}
	// a readable, stable witness identity; it also orders the report by destination type, then value
	rank := 0
	for i, d := range c15Dests {
		if d == m.Dest {
			rank = i
		}
	}
	v.Key = fmt.Sprintf("scan/%02d %s/%s/%s", rank, m.Dest, m.Family, m.Value)
	var keys []string
	for k := range r.Answer {
		keys = append(keys, k)
	}
	sort.Strings(keys)
	type cellSample struct {
		Dest     string `json:"destination"`
		Expected string `json:"expected"`
		Observed string `json:"observed"`
	}
	var cells []cellSample
	for i := range r.Cells {
		cell := &r.Cells[i]
		x := scanModel(cell.Dest, ans, false)
		dest := cell.Dest
		switch cell.Shape {
		case "struct":
			dest = "struct{ Val " + cell.Dest + " `prolog:\"X\"` }"
		case "field":
			dest = "struct{ X " + cell.Dest + " }"
		case "map":
			dest = "map[string]" + cell.Dest
			// a map receives every variable of the query: all of them must be representable
			for _, k := range keys {
				if k == "X" {
					continue
				}
				y := scanModel(cell.Dest, r.Answer[k], false)
				switch {
				case y.mode == mError:
					x = scanExp{mode: mError, want: fmt.Sprintf("an error (variable %s = %s is not representable as %s)", k, treeText(r.Answer[k]), cell.Dest), oor: x.oor || y.oor}
				case y.mode > x.mode:
					x.mode = y.mode
				}
			}
		}
		v.NonTrivial = v.NonTrivial || x.oor || (m.V != nil && activeArg(*m.V))
		obs := "error: " + cell.Err
		if cell.Err == "" {
			obs = "stored " + goValText(cell.Val)
			if cell.Shape == "map" {
				obs += fmt.Sprintf(" (keys %v)", cell.Keys)
			}
		}
		cells = append(cells, cellSample{Dest: dest, Expected: x.want, Observed: obs})
		what := fmt.Sprintf("Scan of X = %s into %s", treeText(ans), dest)
		fail := func(class, msg string) Verdict {
			v.Status, v.Class, v.Msg = Violated, class, msg
			v.Sample = map[string]interface{}{"answer": "X = " + treeText(ans), "value": m.Value, "cells": cells[len(cells)-1:]}
			return v
		}
		if strings.HasPrefix(cell.Err, "PANIC: ") {
			return fail("panic", what+" panicked instead of returning an error: "+cell.Err)
		}
		v.Extra["scan_"+[...]string{"must", "either", "open", "error"}[x.mode]]++
		if cell.Err != "" {
			v.Extra["scan_errors_returned"]++
			if x.mode == mMust {
				return fail("", fmt.Sprintf("%s returned the error %q although the value is representable: expected %s", what, cell.Err, x.want))
			}
			continue
		}
		v.Extra["scan_values_stored"]++
		if cell.Val == nil {
			return fail("", what+" returned nil but the destination has no entry for X")
		}
		if cell.Shape == "map" && strings.Join(cell.Keys, ",") != strings.Join(keys, ",") {
			return fail("", fmt.Sprintf("%s returned nil but the map has the keys %v, the query has the variables %v", what, cell.Keys, keys))
		}
		switch x.mode {
		case mMust, mEither:
			if !x.match(cell.Val) {
				cls := ""
				if w := scanModel(cell.Dest, ans, true); w.match != nil && w.mode != mError && w.match(cell.Val) {
					cls = "scan_int_wraparound"
				}
				return fail(cls, fmt.Sprintf("%s stored %s with a nil error: expected %s", what, goValText(cell.Val), x.want))
			}
			v.Extra["scan_exact_values_confirmed"]++
			// a map destination receives every variable: each entry must hold that variable's value
			if cell.Shape == "map" && cell.All != nil {
				for _, k := range keys {
					if k == "X" {
						continue
					}
					y := scanModel(cell.Dest, r.Answer[k], false)
					got := cell.All[k]
					if (y.mode == mMust || y.mode == mEither) && y.match != nil && got != nil && !y.match(got) {
						return fail("", fmt.Sprintf("Scan into %s stored %s for the variable %s = %s with a nil error: expected %s", dest, goValText(got), k, treeText(r.Answer[k]), y.want))
					}
					v.Extra["scan_other_variables_confirmed"]++
				}
			}
		case mError:
			if strings.HasPrefix(cell.Val.K, "other:") {
				v.Extra["not_asserted_scan_opaque_value"]++
				continue
			}
			cls := ""
			if w := scanModel(cell.Dest, ans, true); w.match != nil && w.mode != mError && w.match(cell.Val) {
				cls = "scan_int_wraparound"
			}
			return fail(cls, fmt.Sprintf("%s stored %s with a nil error: expected %s", what, goValText(cell.Val), x.want))
		case mOpen:
			v.Extra["not_asserted_scan_cells"]++
			if strings.HasSuffix(cell.Dest, "float32") {
				v.Extra["not_asserted_float32_inexact_stored"]++
			}
		}
	}
	v.Sample = map[string]interface{}{"answer": "X = " + treeText(ans), "value": m.Value, "cells": cells}
	return v
}
