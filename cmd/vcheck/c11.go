package main

import (
	"fmt"
	"math/rand"
	"strings"

	"verif/internal/ref"
	"verif/internal/run"
	"verif/internal/term"
)

func init() { checks["C11"] = func() Check { return &c11{} } }

type c11 struct{}

func (*c11) ID() string    { return "C11" }
func (*c11) Level() string { return "exploration" }
func (*c11) Rule() string {
	return "seeded random fact tables r/2, s/2, t/3 (2-7 facts; ground, repeated, partially bound and variant/non-variant arguments such as g(A,A), g(_,_), f(X)) and queries findall/bagof/setof(Template, Goal, Instances) with templates sharing any subset of variables with the goal, any set of ^-quantified variables (nested ^), goals = single calls, conjunctions, disjunctions, member/2, nested all-solutions calls, goals that throw; instance argument unbound / partial list / bound equal / bound different / non-list; optionally preceded by a generator binding a free variable and followed by a test. Engine and reference interpreter must deliver the same answers (bindings of all query variables incl. free variables and instance lists): as a sequence for findall-only queries, as a multiset where bagof/setof groups are involved (group order is open). Cases whose reference result hinges on the order of distinct unbound variables are skipped. Non-trivial: the reference produced >=2 bagof/setof groups, or >=2 solutions with a non-ground witness; distinct by program+query hash."
}
func (*c11) Assumptions() []string {
	return []string{
		"reference interpreter implements ISO 8.10 (findall/bagof/setof, free-variable set 7.1.1.4, bijective variant grouping); self-tested on the ISO examples each run",
		"the order in which bagof/setof groups are returned is not constrained",
		"results that depend on the standard order of distinct unbound variables are not asserted",
	}
}

type c11Gen struct {
	r *rand.Rand
}

func (g *c11Gen) pick(ss ...string) string { return ss[g.r.Intn(len(ss))] }

func (g *c11Gen) factArg() string {
	return g.pick("1", "2", "3", "a", "b", "1", "2", "g(A,A)", "g(_,_)", "g(B,B)", "f(_)", "f(a)", "g(a,_)", "g(X,Y)", "[1,2]", "[]", "p-1", "p-2", "q-1",
		// open lists whose tail occurs again elsewhere in the fact: copies must keep the sharing
		"[a,b|A]", "[1,2,3|B]", "A", "[x,y|X]-X",
		// proper lists that are prefixes of one another (setof/3 has to order them: shorter first)
		"[1]", "[1,2,3]", "[1,2,3,4]", "[1,2,3,4,5,6]", "[a]", "[a,b,c,d]", "[[1],[1,2,3]]", "[1,2]", "[1,2,3,4,5,6]", "[1]",
		// different ground terms that are written alike without quotes (witnesses must be compared as terms)
		"'1'", "'2'", "'f(a)'", "'p-1'", "'[1,2]'", "'1'", "'g(_,_)'",
		// integers that are more than 2^63 apart
		"''", "''", "f('')", "''-1", "9223372036854775807", "-9223372036854775807", "-2", "f(9223372036854775807)", "f(-9223372036854775808)", "4611686018427387904", "-4611686018427387905")
}

func (g *c11Gen) facts() string {
	var sb strings.Builder
	for _, p := range []struct {
		name  string
		arity int
	}{{"r", 2}, {"s", 2}, {"t", 3}} {
		n := 2 + g.r.Intn(6)
		for i := 0; i < n; i++ {
			args := make([]string, p.arity)
			for j := range args {
				args[j] = g.factArg()
			}
			// small first argument domain makes grouping interesting
			if g.r.Intn(3) > 0 {
				args[0] = g.pick("1", "2", "3")
			}
			fmt.Fprintf(&sb, "%s(%s).\n", p.name, strings.Join(args, ", "))
		}
	}
	sb.WriteString("boom(X) :- X == 3, throw(three).\nboom(_).\n")
	// two lists built by append/3 on the very same front list (the copies made per solution must keep them apart)
	sb.WriteString("front([a,b]).\nfront([1]).\ntwo(Z1, Z2) :- front(L), append(L, [c], Z1), append(L, [d], Z2).\ntwo(Z1, Z2) :- front(L), append(L, T, Z1), append(L, [e|T], Z2).\n")
	return sb.String()
}

var c11Vars = []string{"X", "Y", "Z", "W"}

func (g *c11Gen) v() string { return c11Vars[g.r.Intn(len(c11Vars))] }

func (g *c11Gen) simpleGoal() string {
	if g.r.Intn(12) == 0 {
		return fmt.Sprintf("two(%s, %s)", g.v(), g.v())
	}
	switch g.r.Intn(8) {
	case 0, 1, 2:
		return fmt.Sprintf("r(%s, %s)", g.v(), g.v())
	case 3, 4:
		return fmt.Sprintf("s(%s, %s)", g.v(), g.v())
	case 5:
		return fmt.Sprintf("t(%s, %s, %s)", g.v(), g.v(), g.v())
	case 6:
		return fmt.Sprintf("member(%s, [%s])", g.v(), g.pick("1,2,3", "a,b,a", "3,1,2,1", "f(A),f(B),f(A)", "Y,Z", "2", "[1,2,3,4],[1],[1,2],[1,2,3,4,5],[]", "[a,b,c],[a],[a,b,c,d,e]",
			"A,A", "A,A,A", "f(A),f(A)", "9223372036854775807,-2,-9223372036854775808,0", "A,1,A"))
	default:
		return fmt.Sprintf("%s = %s", g.v(), g.pick("1", "a", "f(Z)", "Y"))
	}
}

func (g *c11Gen) goal(depth int) string {
	switch k := g.r.Intn(100); {
	case k < 40 || depth <= 0:
		return g.simpleGoal()
	case k < 62:
		return "(" + g.goal(depth-1) + ", " + g.goal(depth-1) + ")"
	case k < 72:
		return "(" + g.goal(depth-1) + " ; " + g.goal(depth-1) + ")"
	case k < 80:
		return "(" + g.simpleGoal() + ", boom(" + g.v() + "))"
	case k < 90:
		// nested all-solutions call
		return fmt.Sprintf("%s(%s, %s, %s)", g.pick("findall", "bagof", "setof"), g.template(), g.quantified(g.goal(depth-1)), g.pick("L1", "L1", "[_|_]", "W"))
	case k < 95:
		return "\\+ " + g.simpleGoal()
	default:
		return "(" + g.simpleGoal() + ", " + g.v() + " \\== 1)"
	}
}

func (g *c11Gen) template() string {
	switch g.r.Intn(8) {
	case 0, 1, 2:
		return g.v()
	case 3:
		return g.v() + "-" + g.v()
	case 4:
		return "f(" + g.v() + ")"
	case 5:
		return g.pick("c", "1", "[]")
	case 6:
		return "[" + g.v() + "|" + g.v() + "]"
	default:
		return "p(" + g.v() + ", " + g.v() + ", _)"
	}
}

func (g *c11Gen) quantified(goal string) string {
	n := g.r.Intn(3)
	if g.r.Intn(3) == 0 {
		n = 0
	}
	if n > 0 {
		goal = "(" + goal + ")"
	}
	for i := 0; i < n; i++ {
		switch g.r.Intn(4) {
		case 0:
			goal = "f(" + g.v() + ", " + g.v() + ")^" + goal
		default:
			goal = g.v() + "^" + goal
		}
	}
	return goal
}

func (g *c11Gen) instances() string {
	switch g.r.Intn(10) {
	case 0:
		return "[A1|B1]"
	case 1:
		return "[_, _|_]"
	case 2:
		return g.pick("[1,2]", "[1]", "[a]", "[]", "[1,2,3]", "[2,1]")
	case 3:
		return g.pick("foo", "[a|b]", "1")
	default:
		return "L"
	}
}

func (g *c11Gen) query() (string, bool) {
	pred := g.pick("findall", "bagof", "setof", "bagof", "setof")
	goal := g.goal(2)
	pre := ""
	if pred != "findall" {
		if g.r.Intn(5) == 0 {
			// part of the ^-chain reaches bagof/setof through a variable bound at run time:
			// GQ = V1^(Goal), bagof(T, V2^GQ, L)
			pre = "GQ = " + g.v() + "^(" + goal + "), "
			goal = g.v() + "^GQ"
			if g.r.Intn(2) == 0 {
				goal = g.v() + "^" + goal
			}
		} else {
			goal = g.quantified(goal)
		}
	}
	q := fmt.Sprintf("%s%s(%s, %s, %s)", pre, pred, g.template(), goal, g.instances())
	unordered := pred != "findall" || strings.Contains(q, "bagof") || strings.Contains(q, "setof")
	switch g.r.Intn(6) {
	case 0:
		q = fmt.Sprintf("member(%s, [1,2]), %s", g.v(), q)
	case 1:
		q = fmt.Sprintf("%s, %s = %s", q, g.v(), g.pick("1", "2", "a"))
	case 2:
		q = fmt.Sprintf("catch(%s, B0, true)", q)
	}
	return q, unordered
}

func (c *c11) Generate(cx *Ctx, chunk int) []*Item {
	if chunk > 0 {
		return nil
	}
	if err := refSelfTest(); err != nil {
		cx.Note("reference self-test failed: " + err.Error())
		return nil
	}
	n := 10000
	if cx.Thorough() {
		n = 200000
	}
	var metas []*DiffMeta
	fixed := []struct{ prog, q string }{
		{"r(3,g(A,A)). r(4,g(_,_)). r(5,g(B,B)).", "bagof(X, r(X,W), L)"},
		{"r(1,a). r(2,b). r(3,a).", "bagof(X, r(X,Y), L)"},
		{"r(1,a). r(2,b). r(3,a).", "setof(Y-X, r(X,Y), L)"},
		{"r(1,a). r(2,b). r(3,a).", "bagof(X, Y^r(X,Y), L)"},
		{"r(1,a). r(2,b). r(3,a).", "findall(X-Y, r(X,Y), [A|B])"},
		{"r(1,a). r(2,b). r(3,a).", "findall(X, r(X,_), L), X = 7"},
		{"r(1,a).", "bagof(X, r(X,z), L)"},
		{"r(1,a).", "findall(X, r(X,z), L)"},
		{"r(1,a).", "findall(X, r(X,_), foo)"},
		{"r(1,a). r(2,b).", "setof(X, Y^r(X,Y), [A,B])"},
		{"r(1,f(_)). r(2,f(_)).", "bagof(X, r(X,Y), L)"},
		{"r(1,f(A,B)). r(2,f(B,A)). r(3,f(C,C)).", "bagof(X, r(X,Y), L)"},
		{"r(1,a). r(2,b). r(3,a).", "setof(Y, X^r(X,Y), L), member(Z, L)"},
		{"r(1,a). r(2,b). r(3,a).", "setof(Y-Xs, setof(X, r(X,Y), Xs), L)"},
		{"r(2,a). r(1,a). r(2,a).", "setof(X, r(X,a), L)"},
		{"r(2,a). r(1,a). r(2,a).", "bagof(X, r(X,a), L)"},
	}
	for _, f := range fixed {
		t, nv, qv := parseQuery(f.q)
		metas = append(metas, &DiffMeta{Program: term.MustProgram(f.prog), Query: t, NVars: nv, QVars: qv, Max: 40, Family: "fixed", Unordered: true})
	}
	for i := 0; i < n; i++ {
		g := &c11Gen{r: cx.Rng(fmt.Sprintf("c11/%d", i))}
		prog, err := term.ParseProgram(g.facts())
		if err != nil {
			panic(err)
		}
		q, unordered := g.query()
		t, nv, qv := parseQuery(q)
		metas = append(metas, &DiffMeta{Program: prog, Query: t, NVars: nv, QVars: qv, Max: 60, Family: "random", Unordered: unordered})
	}
	return prepareDiffItems(metas, 100000, ref.Options{})
}

func (c *c11) Judge(cx *Ctx, it *Item, outs []*run.Outcome) Verdict {
	var m c01Meta
	if err := decodeMeta(it, &m); err != nil {
		return Verdict{Status: Inconclusive, Msg: err.Error()}
	}
	o, err := m.refRun(m.RefBudget, ref.Options{})
	if err != nil {
		return Verdict{Status: Inconclusive, Msg: err.Error()}
	}
	if o.M.Hinged {
		return Verdict{Status: Held, Extra: map[string]int64{"not_asserted_variable_order": 1}}
	}
	if o.M.GroupOrderObservable {
		// a nested bagof/setof with several groups inside a collecting call: the outer list's order is the open group order
		return Verdict{Status: Held, Extra: map[string]int64{"not_asserted_nested_group_order": 1}}
	}
	r := compareRun(&m.DiffMeta, o, outs[0], false)
	v := Verdict{Status: r.Status, Msg: r.Msg}
	v.NonTrivial = o.M.Groups >= 2
	v.Extra = map[string]int64{"answers_compared": int64(len(o.Answers)), "ref_groups": int64(o.M.Groups), "family_" + m.Family: 1}
	if o.Err != nil {
		v.Extra["error_outcomes_compared"] = 1
	}
	v.Sample = map[string]interface{}{"program": programText(m.Program), "query": term.Text(m.Query, qvar), "expected": r.Expected, "observed": r.Observed}
	if v.Status == Violated {
		v.Msg = fmt.Sprintf("%s | query: %s | program: %s", r.Msg, term.Text(m.Query, qvar), oneLine(programText(m.Program)))
	}
	return v
}
