package main

import (
	"fmt"
	"strings"

	"verif/internal/term"
)

// Classic programs: they drive deep promise stacks and every head/body opcode.
const classicProgram = `
app([], L, L).
app([H|T], L, [H|R]) :- app(T, L, R).
nrev([], []).
nrev([H|T], R) :- nrev(T, RT), app(RT, [H], R).
sel(X, [X|T], T).
sel(X, [H|T], [H|R]) :- sel(X, T, R).
perm([], []).
perm(L, [H|T]) :- sel(H, L, R), perm(R, T).
subseq([], []).
subseq([H|T], [H|R]) :- subseq(T, R).
subseq([_|T], R) :- subseq(T, R).
mem(X, [X|_]).
mem(X, [_|T]) :- mem(X, T).
nat(0).
nat(s(N)) :- nat(N).
plus(0, Y, Y).
plus(s(X), Y, s(Z)) :- plus(X, Y, Z).
times(0, _, 0).
times(s(X), Y, Z) :- times(X, Y, W), plus(W, Y, Z).
even(0).
even(s(N)) :- odd(N).
odd(s(N)) :- even(N).
edge(a, b). edge(a, c). edge(b, d). edge(c, d). edge(d, e). edge(b, e).
path(X, X, [X]).
path(X, Y, [X|P]) :- edge(X, Z), path(Z, Y, P).
len([], 0).
len([_|T], N) :- len(T, M), N is M + 1.
range(L, H, []) :- L > H.
range(L, H, [L|T]) :- L =< H, L1 is L + 1, range(L1, H, T).
fib(0, 0).
fib(1, 1).
fib(N, F) :- N > 1, A is N - 1, B is N - 2, fib(A, FA), fib(B, FB), F is FA + FB.
queens(N, Qs) :- range(1, N, Ns), perm(Ns, Qs), safe(Qs).
safe([]).
safe([Q|Qs]) :- noattack(Q, Qs, 1), safe(Qs).
noattack(_, [], _).
noattack(Q, [Q1|Qs], D) :- Q =\= Q1 + D, Q =\= Q1 - D, D1 is D + 1, noattack(Q, Qs, D1).
hanoi(0, _, _, _, []).
hanoi(N, A, B, C, Ms) :- N > 0, M is N - 1, hanoi(M, A, C, B, M1), hanoi(M, C, B, A, M2), app(M1, [mv(A,B)|M2], Ms).
tree(leaf).
tree(node(L, _, R)) :- tree(L), tree(R).
flat(leaf, []).
flat(node(L, X, R), F) :- flat(L, FL), flat(R, FR), app(FL, [X|FR], F).
color(r). color(g). color(b).
col3(A, B, C, D) :- color(A), color(B), color(C), color(D), diff(A, B), diff(A, C), diff(B, C), diff(B, D), diff(C, D).
diff(r, g). diff(r, b). diff(g, r). diff(g, b). diff(b, r). diff(b, g).
dapp(X-Y, Y-Z, X-Z).
sw(X, f(Y, Z)) :- ( Y = l(X) ; Z = r(X) ).
sw5(a, b, c, d, E) :- ( E = 1 ; E = 2 ; E = 3 ).
big9(a, b, c, d, e, f, g, h, I) :- ( I = 1 ; I = 2 ; I = 3 ).
big11(X, f(X, Y), g(Y, Z), [Z|T], T) :- ( X = 1, Y = 2 ; X = 3, T = [] ; Z = z ).
opl([A,B|R], R).
opl([A,B,C,D|R], four(R)).
opl([A|R], one(A, R)).
gen(X) :- between(1, 4, X).
pair(X, Y) :- gen(X), gen(Y), X < Y.
twice(G) :- call(G), call(G).
either(X, A, B) :- (X = A ; X = B).
nest(X, Y) :- (X = 1 ; X = 2 ; (X = 3 ; X = 4)), (Y = a ; Y = b).
cn(G, X) :- call(G, X).
`

var classicClauses = term.MustProgram(classicProgram)

func peano(n int) string {
	return strings.Repeat("s(", n) + "0" + strings.Repeat(")", n)
}

func listOfInts(n int) string {
	var p []string
	for i := 1; i <= n; i++ {
		p = append(p, fmt.Sprint(i))
	}
	return "[" + strings.Join(p, ",") + "]"
}

func listOfAtoms(n int) string {
	var p []string
	for i := 0; i < n; i++ {
		p = append(p, string(rune('a'+i%26)))
	}
	return "[" + strings.Join(p, ",") + "]"
}

// classicQueries builds the query text for index i (sizes vary with i and the seed).
func classicQuery(i int, size int) (string, int) {
	n := size
	qs := []func() (string, int){
		func() (string, int) { return fmt.Sprintf("app(X, Y, %s)", listOfInts(n)), 40 },
		func() (string, int) { return fmt.Sprintf("app(%s, [z], Y)", listOfAtoms(n*3)), 5 },
		func() (string, int) { return fmt.Sprintf("app(X, [Y|Z], %s), app(_, [W|_], Z)", listOfInts(n%6+1)), 40 },
		func() (string, int) { return fmt.Sprintf("nrev(%s, R)", listOfInts(n*2)), 5 },
		func() (string, int) { return fmt.Sprintf("perm(%s, P)", listOfInts(n%4+1)), 30 },
		func() (string, int) { return fmt.Sprintf("subseq(%s, S)", listOfAtoms(n%5+1)), 40 },
		func() (string, int) { return fmt.Sprintf("sel(X, %s, R)", listOfAtoms(n%7+1)), 10 },
		func() (string, int) {
			return fmt.Sprintf("mem(X, %s), mem(X, %s)", listOfInts(n%6+1), listOfInts(n%4+2)), 10
		},
		func() (string, int) { return fmt.Sprintf("plus(X, Y, %s)", peano(n)), 40 },
		func() (string, int) { return fmt.Sprintf("times(%s, %s, Z)", peano(n%5), peano(n%4+1)), 3 },
		func() (string, int) { return fmt.Sprintf("times(X, Y, %s)", peano(n%7)), 12 },
		func() (string, int) { return fmt.Sprintf("even(%s)", peano(n*3)), 2 },
		func() (string, int) { return fmt.Sprintf("odd(%s)", peano(n*3)), 2 },
		func() (string, int) { return "path(a, Y, P)", 30 },
		func() (string, int) { return "path(X, e, P)", 30 },
		func() (string, int) { return fmt.Sprintf("len(%s, N)", listOfAtoms(n*4)), 3 },
		func() (string, int) { return fmt.Sprintf("range(1, %d, L), len(L, N)", n*2), 3 },
		func() (string, int) { return fmt.Sprintf("fib(%d, F)", n%12), 3 },
		func() (string, int) { return fmt.Sprintf("queens(%d, Qs)", n%5+1), 12 },
		func() (string, int) { return fmt.Sprintf("hanoi(%d, l, r, m, Ms)", n%5), 3 },
		func() (string, int) { return "tree(T)", n%6 + 1 },
		func() (string, int) { return "flat(node(node(leaf,1,leaf),2,node(leaf,3,node(leaf,4,leaf))), F)", 3 },
		func() (string, int) { return "col3(A, B, C, D)", 30 },
		func() (string, int) { return "dapp([a,b|X]-X, [c|Y]-Y, L-[])", 3 },
		func() (string, int) { return "pair(X, Y)", 30 },
		func() (string, int) { return "twice(gen(X))", 30 },
		func() (string, int) { return "either(X, p, q), either(Y, X, r)", 10 },
		func() (string, int) { return "nest(X, Y)", 20 },
		func() (string, int) { return "cn(gen, X), cn(either(Y, X), 2)", 20 },
		func() (string, int) { return "nat(X)", n + 1 },
		func() (string, int) { return fmt.Sprintf("nat(X), plus(X, X, %s)", peano(2*(n%4))), 1 },
		func() (string, int) { return fmt.Sprintf("between(1, %d, X), X mod 3 =:= 0", n*3), 40 },
		func() (string, int) { return fmt.Sprintf("app(X, Y, %s), len(X, N), N > 1", listOfInts(n%6+2)), 20 },
		func() (string, int) { return fmt.Sprintf("perm(%s, P), P = [3|_]", listOfInts(4)), 10 },
		// open lists with several known elements meeting open lists of another length (in =/2, in heads, through variables)
		// rules with a disjunctive body under heads of several sizes (each alternative is a compiled clause of its own)
		func() (string, int) { return "sw(1, f(A, B))", 5 },
		func() (string, int) { return "sw5(a, b, c, d, E)", 5 },
		func() (string, int) { return "big9(a, b, c, d, e, f, g, h, I)", 5 },
		func() (string, int) { return "big11(X, P, Q, L, T)", 5 },
		func() (string, int) { return "[1,2,3|T] = [A,B|R]", 3 },
		func() (string, int) { return "[A,B|R] = [1,2,3|T], T = [4]", 3 },
		func() (string, int) { return "X = [a,b,c,d|T], Y = [P,Q|R], X = Y, T = [e]", 3 },
		func() (string, int) { return "opl([1,2,3|T], R), T = [9]", 5 },
		func() (string, int) { return "opl(L, R), L = [x,y,z|T]", 5 },
		func() (string, int) { return fmt.Sprintf("app(X, [Y1,Y2|Z], %s), X = [P,Q|W]", listOfInts(n%5+4)), 20 },
		func() (string, int) { return "dapp([a,b,c|X]-X, [d,e|Y]-Y, L-[]), L = [_,_|M]", 3 },
	}
	return qs[i%len(qs)]()
}

func classicCase(cx *Ctx, i int) *DiffMeta {
	r := cx.Rng(fmt.Sprintf("classic/%d", i))
	size := 1 + r.Intn(12)
	if i < 40 {
		size = 1 + i%12
	}
	q, max := classicQuery(i, size)
	t, nv, qv := parseQuery(q)
	return &DiffMeta{Program: classicClauses, Query: t, NVars: nv, QVars: qv, Max: max, Family: "classic", Assert: i%7 == 6}
}
