package main

// C08 — standard order of terms: compare/3, ==, \==, @<, @=<, @>, @>= implement one strict total order
// that does not depend on how a list or string was built; sort/2, keysort/2 and setof/3 obey it.
//
// Oracle: term.Compare / term.Equal of internal/term (never the engine). Every abstract operand is sent to
// the engine in each list representation it has (conv.go: Go slice / partial, generic './2 compounds,
// char- and code-strings, runs of cells mixing them) and is additionally built inside Prolog (atom_chars/2,
// atom_codes/2, append/3, =../2, findall/3 copy, bracket / bar / '.'(H,T) / double-quoted text under either
// double_quotes flag). All runs of one abstract comparison must give the result the oracle computes from
// the abstract terms.

import (
	"encoding/json"
	"fmt"
	"math"
	"math/rand"
	"sort"
	"strconv"
	"strings"
	"unicode"
	"unicode/utf8"

	"verif/internal/proto"
	"verif/internal/run"
	"verif/internal/term"
)

func init() { checks["C08"] = func() Check { return &c08{} } }

type c08 struct{}

func (*c08) ID() string    { return "C08" }
func (*c08) Level() string { return "exploration" }
func (*c08) Rule() string {
	return "Generation (pure function of seed and tier): triples of near-equal terms = a random base term of depth <=3 plus point mutations of it (atoms that are prefixes of one another / differ in the last or first character / non-ASCII incl. U+FFFD and non-BMP / one-character vs longer / freshly interned random atoms; n vs n.0, n vs n+1 near 2^53 and 2^63; -0.0 vs 0.0; same name different arity; same arity different name; atom vs compound of that name; a difference late in a list or deep below equal prefixes; shared and distinct variables; proper / partial lists, char and code strings), and lists of 0-12 (15-25 %: 13-40) such terms with duplicates, as sort/2 input, as Key-Value pairs for keysort/2 (few keys, values in descending input order) and as ground lists for setof/3. Every ordered pair of a triple (reflexive ones included) is compared by compare/3 with the operands in several representation assignments (Go slice, partial, generic '.'/2, char string, code string, runs of cells mixing them) and built inside Prolog (atom_chars/2, atom_codes/2, append/3 of a split, =../2, findall/3 copy, source text in bracket / bar / '.'(H,T) / double-quoted notation under double_quotes=codes and =chars), and by ==, \\==, @<, @=<, @>, @>= on a third of the runs. Oracle: term.Compare / term.Equal on the abstract terms. Asserted: compare/3 = oracle when the oracle does not hinge on two distinct variables; '=' iff structurally identical (always); each operator agrees with the compare/3 result of the same operands (on hinged pairs only == and \\==); identical results over all runs of a pair; antisymmetry and transitivity on non-hinged pairs / triples; sort/2 result = duplicate-free permutation of the input, strictly ascending under one order of the variables; keysort/2 = the stable sort by key; setof/3 list sorted and duplicate-free. Non-trivial: for some compared pair (for lists: some two elements / keys) the decisive difference lies below the top level (arity and name equal there), or a compared pair of a triple holds list cells built in different representations / constructor paths; distinct by abstract terms + runs."
}
func (*c08) Assumptions() []string {
	return []string{
		"term.Compare implements the order stated by the property (Var < Float < Integer < Atom < Compound; compounds by arity, name, arguments; atoms by code points)",
		"the relative order of two distinct unbound variables is free and may differ between calls: laws relating several calls are asserted only on non-hinged operands",
		"-0.0 vs 0.0 is asserted only as: same result in every run, antisymmetric, operators consistent with compare/3",
		"operands built by a constructor path are echoed; a run whose echoed operands are not a variant of the intended abstract terms is not judged (counted as inconclusive)",
	}
}

// ---------------------------------------------------------------------------------------------------
// Prolog side of the harness: plain clauses, failure-driven loop, one event per observation.

const c08Setup = `
c08_mem(X, [X|_]).
c08_mem(X, [_|T]) :- c08_mem(X, T).
c08_all([]).
c08_all([B|Bs]) :- c08_b(B), c08_all(Bs).
c08_b(ac(A, L)) :- atom_chars(A, L).
c08_b(ao(A, L)) :- atom_codes(A, L).
c08_b(ap(P, S, L)) :- append(P, S, L).
c08_b(un(L, T)) :- T =.. L.
c08_b(fa(T, C)) :- findall(T, c08_true, [C]).
c08_true.
c08_run(Js) :- c08_mem(J, Js), c08_job(J), fail.
c08_run(_).
c08_job(j(I, Bs, X, Y, Acts)) :- c08_builds(Bs), verif_in(X, A), verif_in(Y, B), c08_mem(Act, Acts), c08_do(Act, I, A, B).
c08_job(t(I, A, B, Acts)) :- c08_mem(Act, Acts), c08_do(Act, I, A, B).
c08_builds(n).
c08_builds(b(K)) :- verif_in(K, Bs), c08_all(Bs).
c08_do(c, I, A, B) :- compare(O, A, B), verif_out(O, I).
c08_do(o, I, A, B) :- c08_op(N, A, B), verif_out(N, I).
c08_do(e, I, A, B) :- verif_out(e, e(I, A, B)).
c08_do(s, I, L, _) :- sort(L, S), verif_out(s, r(I, L, S)).
c08_do(k, I, L, _) :- keysort(L, S), verif_out(k, r(I, L, S)).
c08_do(so, I, L, _) :- setof(X, c08_mem(X, L), S), verif_out(so, r(I, L, S)).
c08_op(eq, A, B) :- A == B.
c08_op(ne, A, B) :- A \== B.
c08_op(lt, A, B) :- A @< B.
c08_op(le, A, B) :- A @=< B.
c08_op(gt, A, B) :- A @> B.
c08_op(ge, A, B) :- A @>= B.
`

// ---------------------------------------------------------------------------------------------------
// Meta

type c08Meta struct {
	Kind string       `json:"kind"` // triple | sort | keysort | setof
	T    []*term.Term `json:"t"`    // triple: the three abstract terms; list kinds: the one abstract list
	Jobs []c08Job     `json:"jobs"` // job i logs under index i
}

type c08Job struct {
	X     int    `json:"x"` // index into T of the first operand (list kinds: 0)
	Y     int    `json:"y"`
	Step  int    `json:"step"` // step of the case that runs it
	Act   string `json:"act"`  // c (compare) | co (compare + six operators) | s | k | so
	Path  string `json:"path"` // how the operands were built, "x|y"
	Echo  bool   `json:"echo,omitempty"`
	Cross bool   `json:"cross,omitempty"` // the operands hold list cells of different representations
}

// ---------------------------------------------------------------------------------------------------
// Oracle helpers

const (
	c08Identical = iota
	c08Decided
	c08Hinged
	c08ZeroSign
)

// c08Diff describes the first difference of two terms in the traversal order of the standard order.
type c08Diff struct {
	Kind   int
	C      int   // Decided: -1 or 1
	Depth  int   // number of compound levels above the decisive position
	VA, VB int64 // Hinged: the two variables (a's and b's)
}

func c08FirstDiff(a, b *term.Term, depth int) c08Diff {
	for {
		if a.K == term.KCmp && b.K == term.KCmp && a.S == b.S && len(a.Args) == len(b.Args) {
			n := len(a.Args)
			for i := 0; i < n-1; i++ {
				if d := c08FirstDiff(a.Args[i], b.Args[i], depth+1); d.Kind != c08Identical {
					return d
				}
			}
			a, b = a.Args[n-1], b.Args[n-1]
			depth++
			continue
		}
		if a.K == term.KVar && b.K == term.KVar {
			if a.I == b.I {
				return c08Diff{Kind: c08Identical}
			}
			return c08Diff{Kind: c08Hinged, Depth: depth, VA: a.I, VB: b.I}
		}
		if a.K == term.KFloat && b.K == term.KFloat {
			if math.Float64bits(a.F) == math.Float64bits(b.F) {
				return c08Diff{Kind: c08Identical}
			}
			if a.F == b.F {
				return c08Diff{Kind: c08ZeroSign, Depth: depth}
			}
		}
		c, _ := term.Compare(a, b)
		if c == 0 {
			return c08Diff{Kind: c08Identical}
		}
		return c08Diff{Kind: c08Decided, C: c, Depth: depth}
	}
}

func c08Sym(c int) string {
	switch {
	case c < 0:
		return "<"
	case c > 0:
		return ">"
	}
	return "="
}

func c08Inverse(s string) string {
	switch s {
	case "<":
		return ">"
	case ">":
		return "<"
	}
	return s
}

// c08Expect is the oracle for one ordered pair: the expected symbol, or "" when the statement leaves it open.
func c08Expect(a, b *term.Term) (string, c08Diff) {
	d := c08FirstDiff(a, b, 0)
	switch d.Kind {
	case c08Identical:
		return "=", d
	case c08Decided:
		c, h := term.Compare(a, b)
		if h || c != d.C {
			panic(fmt.Sprintf("c08: oracle disagrees with itself on %s / %s", a, b))
		}
		return c08Sym(c), d
	}
	return "", d
}

// c08Order collects constraints X < Y between variables and decides whether one total order satisfies all.
type c08Order struct {
	edges map[int64][]int64
}

func (o *c08Order) add(x, y int64) {
	if o.edges == nil {
		o.edges = map[int64][]int64{}
	}
	o.edges[x] = append(o.edges[x], y)
}

func (o *c08Order) consistent() bool {
	state := map[int64]int{}
	var visit func(v int64) bool
	visit = func(v int64) bool {
		switch state[v] {
		case 1:
			return false
		case 2:
			return true
		}
		state[v] = 1
		for _, w := range o.edges[v] {
			if !visit(w) {
				return false
			}
		}
		state[v] = 2
		return true
	}
	for v := range o.edges {
		if !visit(v) {
			return false
		}
	}
	return true
}

// c08Ascending checks that ts is ascending (strictly, or non-strictly on keys) under the standard order and
// ONE order of the variables. It returns "" or a description of the first failure.
func c08Ascending(ts []*term.Term, strict bool, what string) (string, int64) {
	var ord c08Order
	var notAsserted int64
	for i := 0; i < len(ts); i++ {
		for j := i + 1; j < len(ts); j++ {
			d := c08FirstDiff(ts[i], ts[j], 0)
			switch d.Kind {
			case c08Identical:
				if strict {
					return fmt.Sprintf("%s %d and %d of the result are identical (%s): duplicate not removed", what, i+1, j+1, ts[i]), 0
				}
			case c08Decided:
				if d.C > 0 {
					return fmt.Sprintf("%s %d (%s) is placed before %s %d (%s) but follows it in the standard order", what, i+1, ts[i], what, j+1, ts[j]), 0
				}
			case c08Hinged:
				ord.add(d.VA, d.VB)
			case c08ZeroSign:
				notAsserted++
			}
		}
	}
	if !ord.consistent() {
		return fmt.Sprintf("no single order of the variables makes the result ascending: %s", term.L(ts...)), 0
	}
	return "", notAsserted
}

// c08HingedList reports whether the order of some two elements hinges on variables.
func c08HingedList(ts []*term.Term) bool {
	for i := range ts {
		for j := i + 1; j < len(ts); j++ {
			if k := c08FirstDiff(ts[i], ts[j], 0).Kind; k == c08Hinged || k == c08ZeroSign {
				return true
			}
		}
	}
	return false
}

// c08DeepPair: two elements whose decisive difference lies below the top level.
func c08DeepPair(ts []*term.Term) bool {
	for i := range ts {
		for j := i + 1; j < len(ts); j++ {
			if d := c08FirstDiff(ts[i], ts[j], 0); d.Kind == c08Decided && d.Depth >= 1 {
				return true
			}
		}
	}
	return false
}

// ---------------------------------------------------------------------------------------------------
// Generator of abstract terms

type c08Gen struct {
	r         *rand.Rand
	nv        int      // variables 0..nv-1 may occur
	fresh     []string // random atoms of this item (their interning order is unrelated to their text order)
	noNegZero bool
}

var c08AtomPool = []string{"a", "b", "c", "z", "A", "Z", "ab", "abc", "abd", "abcd", "abcdefgh", "abcdefgi", "", "[]", "{}",
	"é", "éa", "ée", "e", "f", "g", "foo", "fop", "fo", "日", "日本", "�", "�x", "𝄞", "𝄞a", "~", "a b", "-", ".", "0", "1", "_", "aA", "aa"}
var c08CharPool = []rune{'a', 'b', 'c', 'a', 'b', 'z', 'é', '日', '𝄞', ' ', '0', 'A', 0xFFFD, 'e', 'l', 'o'}
var c08NamePool = []string{"f", "g", "f", "foo", "fop", "fo", "-", ".", "é", "[]", "{}", "a b", "ab", "abc", "�", "F"}
var c08IntPool = []int64{0, 1, -1, 2, 3, 9, 10, 97, 98, 99, 100, -2, 1 << 53, 1<<53 + 1, math.MaxInt64, math.MinInt64, math.MaxInt64 - 1, 0x65e5}
var c08FloatPool = []float64{0.0, 1.0, -1.0, 1.5, 2.0, 0.5, 97.0, 3.0, 1e10, 9007199254740992.0, 1e300, -1e300, 5e-324, math.MaxFloat64, 9.223372036854775807e18, 0.1, -0.0}

func newC08Gen(r *rand.Rand, nv int) *c08Gen {
	g := &c08Gen{r: r, nv: nv}
	// fresh atoms: created in an order that is unrelated to their text order
	n := 2 + r.Intn(3)
	for i := 0; i < n; i++ {
		k := 2 + r.Intn(4)
		b := make([]byte, k)
		for j := range b {
			b[j] = byte('a' + r.Intn(26))
		}
		g.fresh = append(g.fresh, string(b))
		if r.Intn(2) == 0 {
			c := append([]byte(nil), b...)
			c[len(c)-1] = byte('a' + r.Intn(26))
			g.fresh = append(g.fresh, string(c))
		}
	}
	return g
}

func (g *c08Gen) atomText() string {
	if g.r.Intn(100) < 30 {
		return g.fresh[g.r.Intn(len(g.fresh))]
	}
	return c08AtomPool[g.r.Intn(len(c08AtomPool))]
}

func (g *c08Gen) name() string {
	if g.r.Intn(100) < 25 {
		return g.fresh[g.r.Intn(len(g.fresh))]
	}
	return c08NamePool[g.r.Intn(len(c08NamePool))]
}

func (g *c08Gen) float() *term.Term {
	f := c08FloatPool[g.r.Intn(len(c08FloatPool))]
	if g.noNegZero && f == 0 {
		f = 0
	}
	return term.F(f)
}

func (g *c08Gen) leaf() *term.Term {
	k := g.r.Intn(100)
	switch {
	case k < 14 && g.nv > 0:
		return term.V(int64(g.r.Intn(g.nv)))
	case k < 34:
		return term.I(c08IntPool[g.r.Intn(len(c08IntPool))])
	case k < 50:
		return g.float()
	default:
		return term.A(g.atomText())
	}
}

func (g *c08Gen) word() string {
	n := 1 + g.r.Intn(5)
	rs := make([]rune, n)
	for i := range rs {
		rs[i] = c08CharPool[g.r.Intn(len(c08CharPool))]
	}
	return string(rs)
}

func (g *c08Gen) list(depth int) *term.Term {
	switch k := g.r.Intn(100); {
	case k < 25:
		return term.Chars(g.word())
	case k < 45:
		return term.Codes(g.word())
	default:
		n := 1 + g.r.Intn(4)
		es := make([]*term.Term, n)
		for i := range es {
			es[i] = g.term(depth - 1)
		}
		tail := term.Nil
		switch t := g.r.Intn(100); {
		case t < 12 && g.nv > 0:
			tail = term.V(int64(g.r.Intn(g.nv)))
		case t < 20:
			tail = g.leaf()
		}
		return term.PL(tail, es...)
	}
}

func (g *c08Gen) term(depth int) *term.Term {
	if depth <= 0 || g.r.Intn(100) < 25 {
		return g.leaf()
	}
	if g.r.Intn(100) < 35 {
		return g.list(depth)
	}
	n := 1 + g.r.Intn(3)
	args := make([]*term.Term, n)
	for i := range args {
		args[i] = g.term(depth - 1)
	}
	return term.C(g.name(), args...)
}

func c08ValidRunes(rs []rune) bool {
	for _, r := range rs {
		if !utf8.ValidRune(r) || r == 0 {
			return false
		}
	}
	return true
}

func (g *c08Gen) nearAtom(s string) string {
	rs := []rune(s)
	switch g.r.Intn(7) {
	case 0: // s becomes a proper prefix of the result
		return s + string(c08CharPool[g.r.Intn(len(c08CharPool))])
	case 1: // a proper prefix of s
		if len(rs) > 0 {
			return string(rs[:len(rs)-1])
		}
	case 2: // differs in the last character
		if len(rs) > 0 {
			rs[len(rs)-1] += rune(1 + g.r.Intn(2))
			if c08ValidRunes(rs) {
				return string(rs)
			}
		}
	case 3:
		if len(rs) > 0 {
			rs[len(rs)-1]--
			if c08ValidRunes(rs) {
				return string(rs)
			}
		}
	case 4: // differs in the first character
		if len(rs) > 0 {
			rs[0] = c08CharPool[g.r.Intn(len(c08CharPool))]
			return string(rs)
		}
	case 5:
		return g.fresh[g.r.Intn(len(g.fresh))]
	}
	return g.atomText()
}

// mutate returns a term that differs from t in one place, preferably deep inside.
func (g *c08Gen) mutate(t *term.Term) *term.Term {
	if t.K == term.KCmp && g.r.Intn(100) < 78 {
		i := g.r.Intn(len(t.Args))
		if t.IsList() && g.r.Intn(100) < 60 {
			i = 1 // walk along the spine: the difference lands late in the list
		}
		args := append([]*term.Term(nil), t.Args...)
		args[i] = g.mutate(t.Args[i])
		return &term.Term{K: term.KCmp, S: t.S, Args: args}
	}
	switch t.K {
	case term.KAtom:
		switch k := g.r.Intn(100); {
		case k < 70:
			return term.A(g.nearAtom(t.S))
		case k < 80:
			return term.C(t.S, g.leaf()) // atom vs compound of the same name
		case k < 90 && t.S == "[]":
			return term.L(g.leaf())
		default:
			return g.leaf()
		}
	case term.KInt:
		switch k := g.r.Intn(100); {
		case k < 30 && t.I < math.MaxInt64:
			return term.I(t.I + 1)
		case k < 50 && t.I > math.MinInt64:
			return term.I(t.I - 1)
		case k < 80:
			return term.F(float64(t.I)) // numerically equal (or nearest) float
		default:
			return g.leaf()
		}
	case term.KFloat:
		switch k := g.r.Intn(100); {
		case k < 35 && t.F == math.Trunc(t.F) && math.Abs(t.F) < 9e18:
			return term.I(int64(t.F)) // numerically equal integer
		case k < 55:
			return term.F(math.Nextafter(t.F, math.Inf(1)))
		case k < 70 && !g.noNegZero:
			return term.F(-t.F)
		case k < 70:
			return term.F(t.F + 1)
		default:
			return g.leaf()
		}
	case term.KVar:
		if g.nv > 1 && g.r.Intn(2) == 0 {
			return term.V((t.I + 1 + int64(g.r.Intn(g.nv-1))) % int64(g.nv))
		}
		return g.leaf()
	case term.KCmp:
		switch k := g.r.Intn(100); {
		case k < 25: // same arity, near name
			return &term.Term{K: term.KCmp, S: g.nearAtom(t.S), Args: t.Args}
		case k < 45: // same name, one more argument
			return &term.Term{K: term.KCmp, S: t.S, Args: append(append([]*term.Term(nil), t.Args...), g.leaf())}
		case k < 60 && len(t.Args) > 1: // same name, one argument less
			return &term.Term{K: term.KCmp, S: t.S, Args: append([]*term.Term(nil), t.Args[:len(t.Args)-1]...)}
		case k < 70:
			return term.A(t.S)
		case k < 80 && len(t.Args) > 1:
			args := append([]*term.Term(nil), t.Args...)
			i, j := g.r.Intn(len(args)), g.r.Intn(len(args))
			args[i], args[j] = args[j], args[i]
			return &term.Term{K: term.KCmp, S: t.S, Args: args}
		case k < 90 && g.nv > 0:
			return term.V(int64(g.r.Intn(g.nv)))
		default:
			return g.term(2)
		}
	}
	return g.leaf()
}

func (g *c08Gen) triple() []*term.Term {
	a := g.term(3)
	if g.r.Intn(100) < 20 {
		a = g.list(3)
	}
	var b, c *term.Term
	switch k := g.r.Intn(100); {
	case k < 18:
		b = a
	case k < 75:
		b = g.mutate(a)
	case k < 90:
		b = g.mutate(g.mutate(a))
	default:
		b = g.term(3)
	}
	src := a
	if g.r.Intn(2) == 0 {
		src = b
	}
	switch k := g.r.Intn(100); {
	case k < 10:
		c = src
	case k < 70:
		c = g.mutate(src)
	case k < 85:
		c = g.mutate(g.mutate(src))
	default:
		c = g.term(3)
	}
	ts := []*term.Term{a, b, c}
	g.r.Shuffle(3, func(i, j int) { ts[i], ts[j] = ts[j], ts[i] })
	return ts
}

// pool of near-equal terms for list workloads
func (g *c08Gen) pool(depth int) []*term.Term {
	m := 1 + g.r.Intn(6)
	ts := []*term.Term{g.term(depth)}
	for len(ts) < m {
		switch k := g.r.Intn(100); {
		case k < 70:
			ts = append(ts, g.mutate(ts[g.r.Intn(len(ts))]))
		default:
			ts = append(ts, g.term(depth))
		}
	}
	return ts
}

func (g *c08Gen) sortList() *term.Term {
	if g.r.Intn(100) < 10 { // a string: duplicates among characters
		w := g.word() + g.word() + g.word()
		if g.r.Intn(2) == 0 {
			return term.Chars(w)
		}
		return term.Codes(w)
	}
	p := g.pool(2)
	n := g.r.Intn(13)
	if g.r.Intn(100) < 15 { // long enough for the library sort to leave its small-slice path
		n = 13 + g.r.Intn(28)
	}
	es := make([]*term.Term, n)
	for i := range es {
		es[i] = p[g.r.Intn(len(p))]
	}
	return term.L(es...)
}

func (g *c08Gen) pairList() *term.Term {
	keys := g.pool(2)
	vals := g.pool(1)
	n := g.r.Intn(13)
	if g.r.Intn(100) < 25 { // long enough for an unstable library sort to show
		n = 13 + g.r.Intn(28)
	}
	es := make([]*term.Term, n)
	for i := range es {
		var v *term.Term
		switch k := g.r.Intn(100); {
		case k < 50:
			v = term.I(int64(n - i)) // descending values: comparing whole pairs would reorder equal keys
		case k < 60:
			v = term.I(int64(g.r.Intn(3)))
		default:
			v = vals[g.r.Intn(len(vals))]
		}
		es[i] = term.C("-", keys[g.r.Intn(len(keys))], v)
	}
	return term.L(es...)
}

// ---------------------------------------------------------------------------------------------------
// Representations and constructor paths

func c08CharsOK(elems []*term.Term, tail *term.Term) bool {
	if !tail.IsAtom("[]") || len(elems) == 0 {
		return false
	}
	for _, e := range elems {
		if e.K != term.KAtom {
			return false
		}
		r, n := utf8.DecodeRuneInString(e.S)
		if n != len(e.S) || n == 0 || r == utf8.RuneError {
			return false
		}
	}
	return true
}

func c08CodesOK(elems []*term.Term, tail *term.Term) bool {
	if !tail.IsAtom("[]") || len(elems) == 0 {
		return false
	}
	for _, e := range elems {
		if e.K != term.KInt || e.I <= 0 || e.I > utf8.MaxRune || !utf8.ValidRune(rune(e.I)) || e.I == utf8.RuneError {
			return false
		}
	}
	return true
}

// c08Annot annotates every run of list cells of t with a representation; sig collects the effective ones.
// style: 0 = Go slice / partial, 1 = generic './2, 2 = strings where the elements allow, 3 = random, mixed runs.
type c08Annot struct {
	r     *rand.Rand
	style int
	sig   map[string]bool
}

func (a *c08Annot) run(t *term.Term) *term.Term {
	switch {
	case t.K != term.KCmp:
		return t
	case !t.IsList():
		args := make([]*term.Term, len(t.Args))
		for i, x := range t.Args {
			args[i] = a.run(x)
		}
		return &term.Term{K: term.KCmp, S: t.S, Args: args}
	}
	elems, tail := term.ListElems(t)
	n := len(elems)
	es := make([]*term.Term, n)
	for i, e := range elems {
		es[i] = a.run(e)
	}
	tail = a.run(tail)
	// rep[i] != "" starts a run at cell i
	rep := make([]string, n)
	choose := func(lo int) string {
		opts := []string{"slice", "cons"}
		if c08CharsOK(elems[lo:], tail) {
			opts = append(opts, "chars", "chars")
		}
		if c08CodesOK(elems[lo:], tail) {
			opts = append(opts, "codes", "codes")
		}
		return opts[a.r.Intn(len(opts))]
	}
	switch a.style {
	case 0:
		rep[0] = "slice"
	case 1:
		rep[0] = "cons"
	case 2:
		rep[0] = "slice"
		if c08CharsOK(elems, tail) {
			rep[0] = "chars"
		} else if c08CodesOK(elems, tail) {
			rep[0] = "codes"
		}
	default:
		if n >= 2 && a.r.Intn(2) == 0 {
			k := 1 + a.r.Intn(n-1)
			rep[0] = []string{"slice", "cons"}[a.r.Intn(2)]
			rep[k] = choose(k)
			if rep[k] == rep[0] {
				rep[k] = map[string]string{"slice": "cons", "cons": "slice"}[rep[0]]
			}
			if n >= 3 && k+1 < n && a.r.Intn(3) == 0 {
				k2 := k + 1 + a.r.Intn(n-k-1)
				if r2 := choose(k2); r2 != rep[k] && (rep[k] == "slice" || rep[k] == "cons") {
					rep[k2] = r2
				}
			}
		} else {
			rep[0] = choose(0)
		}
	}
	// effective representations
	for i := 0; i < n; i++ {
		if rep[i] == "" {
			continue
		}
		end := n
		for j := i + 1; j < n; j++ {
			if rep[j] != "" {
				end = j
				break
			}
		}
		eff := rep[i]
		if eff == "slice" && (end < n || !tail.IsAtom("[]")) {
			eff = "partial"
		}
		if (eff == "chars" || eff == "codes") && end < n {
			eff = "partial" // conv falls back to a slice prefix when the run does not end in []
		}
		a.sig[eff] = true
	}
	out := tail
	for i := n - 1; i >= 0; i-- {
		out = &term.Term{K: term.KCmp, S: ".", Args: []*term.Term{es[i], out}, Rep: rep[i]}
	}
	return out
}

func c08SigString(sig map[string]bool) string {
	var ks []string
	for k := range sig {
		ks = append(ks, k)
	}
	sort.Strings(ks)
	return strings.Join(ks, "+")
}

// c08Variant is one concrete way of handing an abstract operand to the engine.
type c08Variant struct {
	T      *term.Term   // operand as injected / written (may contain hole variables bound by Builds)
	Builds []*term.Term // constructor goals (c08_b/1 descriptors)
	Path   string
	Sig    string // effective list representations inside ("" = no list cell)
	Of     int    // index of the abstract term
}

func c08Annotate(r *rand.Rand, t *term.Term, style int) (*term.Term, string) {
	a := &c08Annot{r: r, style: style, sig: map[string]bool{}}
	out := a.run(t)
	return out, c08SigString(a.sig)
}

var c08StyleName = []string{"slice", "cons", "string", "mixed"}

func c08HasList(t *term.Term) bool {
	if t.K != term.KCmp {
		return false
	}
	if t.IsList() {
		return true
	}
	for _, a := range t.Args {
		if c08HasList(a) {
			return true
		}
	}
	return false
}

// nodes collects the compound nodes of t (every list cell counts).
func c08Nodes(t *term.Term, out []*term.Term) []*term.Term {
	if t.K != term.KCmp {
		return out
	}
	out = append(out, t)
	for _, a := range t.Args {
		out = c08Nodes(a, out)
	}
	return out
}

func c08Replace(t, target, by *term.Term) *term.Term {
	if t == target {
		return by
	}
	if t.K != term.KCmp {
		return t
	}
	args := make([]*term.Term, len(t.Args))
	changed := false
	for i, a := range t.Args {
		args[i] = c08Replace(a, target, by)
		if args[i] != a {
			changed = true
		}
	}
	if !changed {
		return t
	}
	return &term.Term{K: term.KCmp, S: t.S, Args: args, Rep: t.Rep}
}

// c08Built makes a variant of abstract term t in which one node is built inside Prolog. hole is a fresh
// variable id. It returns nil when no node qualifies for the path.
func c08Built(r *rand.Rand, t *term.Term, path string, hole int64, of int) *c08Variant {
	ann, sig := c08Annotate(r, t, 3)
	nodes := c08Nodes(ann, nil)
	r.Shuffle(len(nodes), func(i, j int) { nodes[i], nodes[j] = nodes[j], nodes[i] })
	h := term.V(hole)
	for _, n := range nodes {
		var b *term.Term
		switch path {
		case "atom_chars", "atom_codes":
			if !n.IsList() {
				continue
			}
			elems, tail := term.ListElems(n)
			if !tail.IsAtom("[]") {
				continue
			}
			var sb strings.Builder
			ok := true
			for _, e := range elems {
				switch {
				case path == "atom_chars" && e.K == term.KAtom && utf8.RuneCountInString(e.S) == 1:
					sb.WriteString(e.S)
				case path == "atom_codes" && e.K == term.KInt && e.I > 0 && e.I <= utf8.MaxRune && utf8.ValidRune(rune(e.I)):
					sb.WriteRune(rune(e.I))
				default:
					ok = false
				}
			}
			if !ok {
				continue
			}
			if path == "atom_chars" {
				b = term.C("ac", term.A(sb.String()), h)
			} else {
				b = term.C("ao", term.A(sb.String()), h)
			}
		case "append":
			if !n.IsList() {
				continue
			}
			elems, tail := term.ListElems(n)
			k := r.Intn(len(elems) + 1)
			// strip the annotations of the cells of n: prefix and suffix get their own
			pre, _ := c08Annotate(r, term.L(elems[:k]...), 3)
			suf, _ := c08Annotate(r, term.PL(tail, elems[k:]...), 3)
			b = term.C("ap", pre, suf, h)
		case "univ":
			b = term.C("un", term.PL(term.Nil, append([]*term.Term{term.A(n.S)}, n.Args...)...), h)
		}
		if b == nil {
			continue
		}
		s := path
		if sig != "" {
			s = sig + "+" + path
		}
		return &c08Variant{T: c08Replace(ann, n, h), Builds: []*term.Term{b}, Path: path, Sig: s, Of: of}
	}
	return nil
}

// ---------------------------------------------------------------------------------------------------
// Text path: the operands are written into the query text.

func c08SafeRune(r rune) bool {
	return r != utf8.RuneError && (unicode.IsLetter(r) || unicode.IsDigit(r) || r == '_' || r == ' ') && r < 0x10000 || r == 0x1d11e
}

func c08TextSafeAtom(s string, functor bool) bool {
	switch s {
	case "[]", "{}", "":
		return !functor
	case "-", ".":
		return functor
	}
	for _, r := range s {
		if !c08SafeRune(r) {
			return false
		}
	}
	return true
}

func c08TextSafe(t *term.Term) bool {
	switch t.K {
	case term.KVar:
		return true
	case term.KAtom:
		return c08TextSafeAtom(t.S, false)
	case term.KInt:
		return t.I > -(1<<62) && t.I < 1<<62
	case term.KFloat:
		f := t.F
		return !(f == 0 && math.Signbit(f)) && math.Abs(f) < 1<<40 && f*1024 == math.Trunc(f*1024)
	case term.KCmp:
		if !t.IsList() && !c08TextSafeAtom(t.S, true) {
			return false
		}
		for _, a := range t.Args {
			if !c08TextSafe(a) {
				return false
			}
		}
		return true
	}
	return false
}

func c08QuoteAtom(s string) string {
	if s == "[]" || s == "{}" {
		return s
	}
	plain := s != ""
	for i, r := range s {
		if !(r >= 'a' && r <= 'z' || i > 0 && (r >= 'A' && r <= 'Z' || r >= '0' && r <= '9' || r == '_')) {
			plain = false
		}
	}
	if plain {
		return s
	}
	var sb strings.Builder
	sb.WriteByte('\'')
	for _, r := range s {
		switch {
		case r == '\'' || r == '\\':
			sb.WriteByte('\\')
			sb.WriteRune(r)
		case r >= 0x20 && r < 0x7f:
			sb.WriteRune(r)
		default:
			fmt.Fprintf(&sb, `\x%x\`, r)
		}
	}
	sb.WriteByte('\'')
	return sb.String()
}

// c08Writer renders a term as source text, choosing a notation for every list.
type c08Writer struct {
	r   *rand.Rand
	dq  string // current double_quotes flag: "codes" | "chars"
	sb  strings.Builder
	sig map[string]bool
}

func (w *c08Writer) dqLiteral(elems []*term.Term) {
	w.sb.WriteByte('"')
	for _, e := range elems {
		var r rune
		if e.K == term.KAtom {
			r, _ = utf8.DecodeRuneInString(e.S)
		} else {
			r = rune(e.I)
		}
		switch {
		case r == '"' || r == '\\':
			w.sb.WriteByte('\\')
			w.sb.WriteRune(r)
		case r >= 0x20 && r < 0x7f:
			w.sb.WriteRune(r)
		default:
			fmt.Fprintf(&w.sb, `\x%x\`, r)
		}
	}
	w.sb.WriteByte('"')
}

func (w *c08Writer) write(t *term.Term) {
	switch t.K {
	case term.KVar:
		fmt.Fprintf(&w.sb, "V%d", t.I)
	case term.KInt:
		if t.I < 0 {
			w.sb.WriteByte(' ')
		}
		w.sb.WriteString(strconv.FormatInt(t.I, 10))
	case term.KFloat:
		s := strconv.FormatFloat(t.F, 'f', -1, 64)
		if !strings.Contains(s, ".") {
			s += ".0"
		}
		if t.F < 0 {
			w.sb.WriteByte(' ')
		}
		w.sb.WriteString(s)
	case term.KAtom:
		w.sb.WriteString(c08QuoteAtom(t.S))
	case term.KCmp:
		if !t.IsList() {
			w.sb.WriteString(c08QuoteAtom(t.S))
			w.sb.WriteByte('(')
			for i, a := range t.Args {
				if i > 0 {
					w.sb.WriteByte(',')
				}
				w.write(a)
			}
			w.sb.WriteByte(')')
			return
		}
		elems, tail := term.ListElems(t)
		n := len(elems)
		if (w.dq == "chars" && c08CharsOK(elems, tail) || w.dq == "codes" && c08CodesOK(elems, tail)) && w.r.Intn(4) != 0 {
			w.sig["dq_"+w.dq] = true
			w.dqLiteral(elems)
			return
		}
		switch k := w.r.Intn(100); {
		case k < 45: // bracket notation
			w.sig["bracket"] = true
			w.seq(elems, tail)
		case k < 75 && n >= 2 && tail.IsAtom("[]"): // bar notation over a proper list
			w.sig["bar"] = true
			j := 1 + w.r.Intn(n-1)
			w.seq(elems[:j], term.L(elems[j:]...))
		default: // '.'(H, T)
			w.sig["dot"] = true
			for _, e := range elems {
				w.sb.WriteString("'.'(")
				w.write(e)
				w.sb.WriteByte(',')
			}
			w.write(tail)
			w.sb.WriteString(strings.Repeat(")", n))
		}
	}
}

func (w *c08Writer) seq(elems []*term.Term, tail *term.Term) {
	w.sb.WriteByte('[')
	for i, e := range elems {
		if i > 0 {
			w.sb.WriteByte(',')
		}
		w.write(e)
	}
	if !tail.IsAtom("[]") {
		w.sb.WriteByte('|')
		w.write(tail)
	}
	w.sb.WriteByte(']')
}

// ---------------------------------------------------------------------------------------------------
// Building the case of one item

type c08Builder struct {
	r     *rand.Rand
	meta  *c08Meta
	c     *proto.Case
	nextH int64
	posOf map[*c08Variant]int // variant → index of its Input
	jobs  [2][]string         // job texts of the two injected steps (0: plain, 1: with constructor goals)
	text  []proto.Step        // text steps (flag + query pairs)
}

func newC08Builder(r *rand.Rand, kind string, ts []*term.Term) *c08Builder {
	b := &c08Builder{r: r, meta: &c08Meta{Kind: kind, T: ts}, nextH: 1000, posOf: map[*c08Variant]int{}}
	b.c = &proto.Case{Kind: "prolog", Setup: []string{c08Setup}}
	return b
}

func (b *c08Builder) hole() int64 { b.nextH++; return b.nextH }

func c08Acts(act string, echo bool) string {
	s := act
	if act == "co" {
		s = "c,o"
	}
	if echo {
		s += ",e"
	}
	return "[" + s + "]"
}

func c08Cross(x, y *c08Variant) bool { return x.Sig != "" && y.Sig != "" && x.Sig != y.Sig }

func (b *c08Builder) input(t *term.Term) int {
	b.c.Inputs = append(b.c.Inputs, t)
	return len(b.c.Inputs) - 1
}

// add schedules one injected job on variants x and y. Every variant is one Input (all Inputs of a case
// share one variable map); the constructor goals of a job are one more Input.
func (b *c08Builder) add(x, y *c08Variant, act string, extra ...*term.Term) {
	builds := append(append([]*term.Term(nil), x.Builds...), extra...)
	if y != x {
		builds = append(builds, y.Builds...)
	}
	s, bs := 0, "n"
	if len(builds) > 0 {
		s, bs = 1, fmt.Sprintf("b(%d)", b.input(term.L(builds...)))
	}
	echo := len(builds) > 0 && act != "s" && act != "k" && act != "so"
	pos := func(v *c08Variant) int {
		p, ok := b.posOf[v]
		if !ok {
			p = b.input(v.T)
			b.posOf[v] = p
		}
		return p
	}
	idx := len(b.meta.Jobs)
	b.jobs[s] = append(b.jobs[s], fmt.Sprintf("j(%d,%s,%d,%d,%s)", idx, bs, pos(x), pos(y), c08Acts(act, echo)))
	b.meta.Jobs = append(b.meta.Jobs, c08Job{X: x.Of, Y: y.Of, Step: -1 - s, Act: act, Path: x.Path + "|" + y.Path, Echo: echo, Cross: c08Cross(x, y)})
}

// textStep adds one step whose operands are written as source text under the given double_quotes flag.
func (b *c08Builder) textStep(dq string, pairs [][2]int, act string) {
	b.text = append(b.text, proto.Step{Exec: ":- set_prolog_flag(double_quotes, " + dq + ")."})
	var js []string
	for _, p := range pairs {
		wx := &c08Writer{r: b.r, dq: dq, sig: map[string]bool{}}
		wx.write(b.meta.T[p[0]])
		wy := &c08Writer{r: b.r, dq: dq, sig: map[string]bool{}}
		echo := act == "c" || act == "co"
		if echo {
			wy.write(b.meta.T[p[1]])
		} else {
			wy.sb.WriteString("0") // list jobs have one operand
		}
		idx := len(b.meta.Jobs)
		js = append(js, fmt.Sprintf("t(%d,%s,%s,%s)", idx, wx.sb.String(), wy.sb.String(), c08Acts(act, echo)))
		sx, sy := c08SigString(wx.sig), c08SigString(wy.sig)
		b.meta.Jobs = append(b.meta.Jobs, c08Job{X: p[0], Y: p[1], Step: len(b.text), Act: act, Path: "text:" + sx + "|text:" + sy,
			Echo: echo, Cross: sx != "" && sy != "" && sx != sy})
	}
	b.text = append(b.text, proto.Step{Query: "c08_run([" + strings.Join(js, ",") + "])."})
}

// finish lays the steps out (injected ones first) and returns the item.
func (b *c08Builder) finish(note string) *Item {
	stepOf := [2]int{-1, -1}
	for s := 0; s < 2; s++ {
		if len(b.jobs[s]) == 0 {
			continue
		}
		stepOf[s] = len(b.c.Steps)
		b.c.Steps = append(b.c.Steps, proto.Step{Query: "c08_run([" + strings.Join(b.jobs[s], ",") + "])."})
	}
	shift := len(b.c.Steps)
	for i := range b.meta.Jobs {
		j := &b.meta.Jobs[i]
		if j.Step < 0 {
			j.Step = stepOf[-1-j.Step]
		} else {
			j.Step += shift
		}
	}
	b.c.Steps = append(b.c.Steps, b.text...)
	meta, _ := json.Marshal(b.meta)
	return &Item{Cases: []*proto.Case{b.c}, Meta: meta, Note: note}
}

// plainVariants returns the injected representations of abstract term t: slice first, then (only when t
// holds list cells) cons, strings, and k mixed ones.
func c08PlainVariants(r *rand.Rand, t *term.Term, of int, mixed int) []*c08Variant {
	var vs []*c08Variant
	styles := []int{0}
	if c08HasList(t) {
		styles = []int{0, 1, 2}
		for i := 0; i < mixed; i++ {
			styles = append(styles, 3)
		}
	}
	for _, st := range styles {
		a, sig := c08Annotate(r, t, st)
		vs = append(vs, &c08Variant{T: a, Path: c08StyleName[st], Sig: sig, Of: of})
	}
	return vs
}

var c08BuildPaths = []string{"atom_chars", "atom_codes", "append", "univ"}

// c08Fixed are the first triples of every run: the examples of ISO 8.4.1.4 and the corners the statement names.
func c08Fixed() [][]*term.Term {
	A, I, F, V, C, L := term.A, term.I, term.F, term.V, term.C, term.L
	x, y := V(0), V(1)
	return [][]*term.Term{
		{F(1.0), I(1), I(1)}, {A("aardvark"), A("zebra"), A("aardvark")}, {A("short"), A("shorter"), A("short")},
		{C("foo", A("a"), A("b")), C("north", A("a")), C("foo", A("b"))},
		{C("foo", A("a"), x), C("foo", A("b"), y), C("foo", A("a"), x)}, {C("foo", x, A("a")), C("foo", y, A("b")), C("foo", x, A("a"))},
		{x, y, x}, {x, F(1.0), A("a")}, {I(1), F(1.0), F(2.0)}, {I(0), F(0.0), I(-1)}, {F(0.0), F(math.Copysign(0, -1)), I(0)},
		{I(1 << 53), I(1<<53 + 1), F(1 << 53)}, {I(math.MaxInt64), I(math.MaxInt64 - 1), I(math.MinInt64)},
		{C("f", A("x")), C("g", A("x"), A("y")), A("h")}, {A(""), A("a"), A("[]")}, {term.Nil, A("[]"), L(A("a"))},
		{L(A("a"), A("b"), A("c")), L(A("a"), A("b")), term.PL(x, A("a"), A("b"), A("c"))},
		{term.Chars("abc"), term.Codes("abc"), A("abc")}, {term.Chars("ab"), L(A("a"), A("b")), term.Chars("abc")},
		{A("\ufffd"), A("\ufffda"), term.Chars("\ufffd")}, {A("\ufffd"), A("\U0001d11e"), A("\uffff")},
		{C("f", x, y), C("f", y, x), C("f", x, x)}, {C("g", I(1), A("a")), C("f", I(1), A("b"), A("c")), C("g", F(1.0), A("z"))},
	}
}

// c08OracleSelfTest pins the oracle to the examples of ISO 8.4.1.4.
func c08OracleSelfTest() error {
	A, C, V := term.A, term.C, term.V
	x, y := V(0), V(1)
	for _, e := range []struct {
		a, b *term.Term
		c    int
		h    bool
	}{
		{term.F(1.0), term.I(1), -1, false}, {A("aardvark"), A("zebra"), -1, false}, {A("short"), A("short"), 0, false},
		{A("short"), A("shorter"), -1, false}, {C("foo", A("a"), A("b")), C("north", A("a")), 1, false},
		{C("foo", A("b")), C("foo", A("a")), 1, false}, {C("foo", A("a"), x), C("foo", A("b"), y), -1, false},
		{C("foo", x, A("a")), C("foo", y, A("b")), -1, true}, {x, x, 0, false}, {x, y, -1, true}, {x, term.F(1.0), -1, false},
		{term.I(1), A("a"), -1, false}, {A("a"), C("f", A("a")), -1, false},
	} {
		if c, h := term.Compare(e.a, e.b); c != e.c || h != e.h {
			return fmt.Errorf("term.Compare(%s, %s) = %d hinged=%v, ISO 8.4.1.4 says %d hinged=%v", e.a, e.b, c, h, e.c, e.h)
		}
		if c, _ := term.Compare(e.b, e.a); c != -e.c {
			return fmt.Errorf("term.Compare(%s, %s) = %d is not the inverse of the other direction", e.b, e.a, c)
		}
	}
	return nil
}

func (c *c08) tripleItem(cx *Ctx, r *rand.Rand, fixed []*term.Term) *Item {
	g := newC08Gen(r, []int{0, 0, 2, 3, 3}[r.Intn(5)])
	ts := g.triple()
	if fixed != nil {
		ts = fixed
	}
	b := newC08Builder(r, "triple", ts)
	mixed := 1 // random representation assignments per ordered pair (the tiers differ in the number of items)
	var vs [3][]*c08Variant
	for i, t := range ts {
		vs[i] = c08PlainVariants(r, t, i, mixed)
	}
	pick := func(i int) *c08Variant { return vs[i][r.Intn(len(vs[i]))] }
	// every ordered pair, reflexive ones included, in the slice representation; three of them also through
	// the six operators, ...
	withOps := map[int]bool{r.Intn(9): true, r.Intn(9): true, r.Intn(9): true}
	for x := 0; x < 3; x++ {
		for y := 0; y < 3; y++ {
			act := "c"
			if withOps[3*x+y] {
				act = "co"
			}
			if x == y {
				// the same abstract term converted twice
				a, sig := c08Annotate(r, ts[x], 0)
				b.add(vs[x][0], &c08Variant{T: a, Path: "slice", Sig: sig, Of: x}, act)
			} else {
				b.add(vs[x][0], vs[y][0], act)
			}
		}
	}
	// ... then random representation assignments
	anyList := len(vs[0]) > 1 || len(vs[1]) > 1 || len(vs[2]) > 1
	if anyList {
		for x := 0; x < 3; x++ {
			for y := 0; y < 3; y++ {
				if len(vs[x]) == 1 && len(vs[y]) == 1 {
					continue
				}
				for k := 0; k < mixed; k++ {
					vx, vy := pick(x), pick(y)
					if x == y && vx == vy && len(vs[x]) > 1 {
						vy = vs[x][(r.Intn(len(vs[x])-1)+1+c08IndexOf(vs[x], vx))%len(vs[x])]
					}
					act := "c"
					if r.Intn(8) == 0 {
						act = "co"
					}
					b.add(vx, vy, act)
				}
			}
		}
	}
	// constructor paths inside Prolog
	nb := 3
	for k := 0; k < nb; k++ {
		x, y := r.Intn(3), r.Intn(3)
		path := c08BuildPaths[r.Intn(len(c08BuildPaths))]
		vx := c08Built(r, ts[x], path, b.hole(), x)
		if vx == nil {
			continue
		}
		vy := pick(y)
		if r.Intn(3) == 0 {
			if v := c08Built(r, ts[y], c08BuildPaths[r.Intn(len(c08BuildPaths))], b.hole(), y); v != nil {
				vy = v
			}
		}
		act := "c"
		if r.Intn(3) == 0 {
			act = "co"
		}
		if r.Intn(2) == 0 {
			b.add(vx, vy, act)
		} else {
			b.add(vy, vx, act)
		}
	}
	// findall/3 copy of a whole pair (variables renamed consistently)
	if r.Intn(2) == 0 {
		x, y := r.Intn(3), r.Intn(3)
		vx, vy := pick(x), pick(y)
		hx, hy := term.V(b.hole()), term.V(b.hole())
		fx := &c08Variant{T: hx, Path: "findall:" + vx.Path, Sig: c08JoinSig(vx.Sig, "findall"), Of: x}
		fy := &c08Variant{T: hy, Path: "findall:" + vy.Path, Sig: c08JoinSig(vy.Sig, "findall"), Of: y}
		b.add(fx, fy, "c", term.C("fa", term.C("-", vx.T, vy.T), term.C("-", hx, hy)))
	}
	// source text
	if c08TextSafe(ts[0]) && c08TextSafe(ts[1]) && c08TextSafe(ts[2]) && (anyList || r.Intn(3) == 0) {
		for _, dq := range []string{"codes", "chars"} {
			var pairs [][2]int
			n := 2 + r.Intn(3)
			for k := 0; k < n; k++ {
				pairs = append(pairs, [2]int{r.Intn(3), r.Intn(3)})
			}
			b.textStep(dq, pairs, []string{"c", "c", "c", "co"}[r.Intn(4)])
			if !anyList {
				break
			}
		}
	}
	return b.finish("triple " + ts[0].String() + " / " + ts[1].String() + " / " + ts[2].String())
}

func c08JoinSig(sig, path string) string {
	if sig == "" {
		return ""
	}
	return sig + "+" + path
}

func c08IndexOf(vs []*c08Variant, v *c08Variant) int {
	for i, x := range vs {
		if x == v {
			return i
		}
	}
	return 0
}

func (c *c08) listItem(cx *Ctx, r *rand.Rand, kind string) *Item {
	var g *c08Gen
	var l *term.Term
	act := "s"
	switch kind {
	case "sort":
		g = newC08Gen(r, []int{0, 0, 2, 3}[r.Intn(4)])
		g.noNegZero = true
		l = g.sortList()
	case "keysort":
		g = newC08Gen(r, []int{0, 0, 2, 3}[r.Intn(4)])
		g.noNegZero = true
		l = g.pairList()
		act = "k"
	default:
		// ground lists, and lists with ONE variable (possibly several times: still one well-defined order, and the variable
		// has to come out once)
		g = newC08Gen(r, []int{0, 0, 1}[r.Intn(3)])
		g.noNegZero = true
		for l == nil || l.IsAtom("[]") {
			l = g.sortList()
		}
		act = "so"
	}
	b := newC08Builder(r, kind, []*term.Term{l})
	mixed := 1 // random representation assignments per ordered pair (the tiers differ in the number of items)
	acts := []string{act}
	if act != "s" && r.Intn(2) == 0 {
		acts = append(acts, "s") // a list of pairs / a ground list is also sorted by sort/2
	}
	for _, a := range acts {
		vs := c08PlainVariants(r, l, 0, mixed)
		for _, v := range vs {
			b.add(v, v, a)
		}
		if l.IsList() {
			for _, p := range c08BuildPaths {
				if r.Intn(2) == 0 {
					continue
				}
				if v := c08Built(r, l, p, b.hole(), 0); v != nil {
					b.add(v, v, a)
				}
			}
			if r.Intn(2) == 0 {
				v := vs[r.Intn(len(vs))]
				h := term.V(b.hole())
				fv := &c08Variant{T: h, Path: "findall:" + v.Path, Sig: c08JoinSig(v.Sig, "findall"), Of: 0}
				b.add(fv, fv, a, term.C("fa", v.T, h))
			}
		}
		if c08TextSafe(l) && r.Intn(2) == 0 {
			for _, dq := range []string{"codes", "chars"} {
				b.textStep(dq, [][2]int{{0, 0}}, a)
			}
		}
	}
	return b.finish(kind + " " + l.String())
}

const c08Chunk = 3200

func (c *c08) Generate(cx *Ctx, chunk int) []*Item {
	nTriples, nLists := 15000, 5000
	if cx.Thorough() {
		nTriples, nLists = 400000, 100000
	}
	total := nTriples + nLists
	lo := chunk * c08Chunk
	if lo >= total {
		return nil
	}
	if err := c08OracleSelfTest(); err != nil {
		cx.Note("oracle self-test failed: " + err.Error())
		return nil
	}
	hi := lo + c08Chunk
	if hi > total {
		hi = total
	}
	items := make([]*Item, 0, hi-lo)
	for i := lo; i < hi; i++ {
		r := cx.Rng(fmt.Sprintf("c08/%d", i))
		if i < nTriples {
			var fixed []*term.Term
			if i < 64 {
				if fx := c08Fixed(); i < len(fx) {
					fixed = fx[i]
				}
			}
			items = append(items, c.tripleItem(cx, r, fixed))
			continue
		}
		switch k := (i - nTriples) % 10; {
		case k < 5:
			items = append(items, c.listItem(cx, r, "sort"))
		case k < 8:
			items = append(items, c.listItem(cx, r, "keysort"))
		default:
			items = append(items, c.listItem(cx, r, "setof"))
		}
	}
	return items
}

// ---------------------------------------------------------------------------------------------------
// Judging

type c08Obs struct {
	cmp  []string
	ops  map[string]int
	echo *term.Term
	res  map[string]*term.Term // act → r(I, L, S)
}

var c08OpNames = []string{"eq", "ne", "lt", "le", "gt", "ge"}

func c08OpExpected(op, o string) bool {
	switch op {
	case "eq":
		return o == "="
	case "ne":
		return o != "="
	case "lt":
		return o == "<"
	case "le":
		return o == "<" || o == "="
	case "gt":
		return o == ">"
	default:
		return o == ">" || o == "="
	}
}

var c08OpText = map[string]string{"eq": "==", "ne": "\\==", "lt": "@<", "le": "@=<", "gt": "@>", "ge": "@>="}

func (c *c08) Judge(cx *Ctx, it *Item, outs []*run.Outcome) Verdict {
	var m c08Meta
	if err := decodeMeta(it, &m); err != nil {
		return Verdict{Status: Inconclusive, Msg: err.Error()}
	}
	out := outs[0]
	if out.Crash != nil {
		if out.Crash.Hung {
			return Verdict{Status: Inconclusive, Msg: "watchdog fired (wall clock) - no logical evidence"}
		}
		return Verdict{Status: Inconclusive, Msg: "worker process died: " + out.Crash.Exit + "\n" + firstLines(out.Crash.Stderr, 12)}
	}
	res := out.Res
	if res.Fatal != "" {
		return Verdict{Status: Inconclusive, Msg: "worker: " + res.Fatal}
	}
	for _, e := range res.Setup {
		if e != nil {
			return Verdict{Status: Inconclusive, Msg: "harness clauses did not load: " + e.Text}
		}
	}
	if len(res.Steps) != len(it.Cases[0].Steps) {
		return Verdict{Status: Inconclusive, Msg: "worker reported a different number of steps"}
	}
	obs := make([]c08Obs, len(m.Jobs))
	for si, st := range res.Steps {
		for _, e := range st.Events {
			if e.T == nil {
				continue
			}
			idx := e.T
			if e.T.K == term.KCmp && len(e.T.Args) > 0 {
				idx = e.T.Args[0]
			}
			if idx.K != term.KInt || idx.I < 0 || int(idx.I) >= len(m.Jobs) || m.Jobs[idx.I].Step != si {
				return Verdict{Status: Inconclusive, Msg: fmt.Sprintf("unexpected event %s %s in step %d", e.Tag, e.T, si)}
			}
			o := &obs[idx.I]
			switch e.Tag {
			case "<", "=", ">":
				o.cmp = append(o.cmp, e.Tag)
			case "eq", "ne", "lt", "le", "gt", "ge":
				if o.ops == nil {
					o.ops = map[string]int{}
				}
				o.ops[e.Tag]++
			case "e":
				o.echo = e.T
			case "s", "k", "so":
				if o.res == nil {
					o.res = map[string]*term.Term{}
				}
				o.res[e.Tag] = e.T
			default:
				return Verdict{Status: Inconclusive, Msg: fmt.Sprintf("unexpected event %s %s", e.Tag, e.T)}
			}
		}
	}
	// a step that ended in an error or ran out of budget hides the jobs after the failing one
	stepProblem := func(si int) string {
		st := res.Steps[si]
		switch {
		case st.BudgetHit:
			return "step budget exhausted"
		case st.Err != nil:
			return "error " + st.Err.Text
		}
		return ""
	}
	for si := range res.Steps {
		if it.Cases[0].Steps[si].Exec != "" && res.Steps[si].Err != nil {
			return Verdict{Status: Inconclusive, Msg: "set_prolog_flag step failed: " + res.Steps[si].Err.Text}
		}
	}
	var v Verdict
	if m.Kind == "triple" {
		v = c.judgeTriple(&m, obs, stepProblem)
	} else {
		v = c.judgeList(&m, obs, stepProblem)
	}
	v.Key = hash12(string(it.Meta)) // identity of the witness: abstract terms + the runs made of them
	return v
}

type c08Fail struct {
	status Status
	msg    string
}

func (c *c08) judgeTriple(m *c08Meta, obs []c08Obs, stepProblem func(int) string) Verdict {
	extra := map[string]int64{"items_triple": 1}
	names := []string{"A", "B", "C"}
	var want [3][3]string
	var diff [3][3]c08Diff
	for x := 0; x < 3; x++ {
		for y := 0; y < 3; y++ {
			want[x][y], diff[x][y] = c08Expect(m.T[x], m.T[y])
		}
	}
	var fails []c08Fail
	fail := func(st Status, f string, a ...interface{}) { fails = append(fails, c08Fail{st, fmt.Sprintf(f, a...)}) }
	show := func(j *c08Job) string {
		return fmt.Sprintf("%s = %s, %s = %s [built %s]", names[j.X], m.T[j.X], names[j.Y], m.T[j.Y], j.Path)
	}
	var seen [3][3][]string // observed symbols per ordered pair, over all runs
	nontrivial := false
	for i := range m.Jobs {
		j := &m.Jobs[i]
		o := &obs[i]
		d := diff[j.X][j.Y]
		if j.Echo {
			if o.echo == nil || !o.echo.IsCmp("e", 3) {
				if p := stepProblem(j.Step); p != "" {
					fail(Inconclusive, "constructor path %s: %s", j.Path, p)
				} else {
					fail(Inconclusive, "constructor path %s did not run (a constructor goal failed): %s", j.Path, show(j))
				}
				extra["echo_mismatch"]++
				continue
			}
			if !term.VariantAll([]*term.Term{o.echo.Args[1], o.echo.Args[2]}, []*term.Term{m.T[j.X], m.T[j.Y]}) {
				fail(Inconclusive, "constructor path %s built %s and %s instead of %s", j.Path, o.echo.Args[1], o.echo.Args[2], show(j))
				extra["echo_mismatch"]++
				continue
			}
		}
		extra["compare_calls"]++
		extra["path_"+strings.SplitN(strings.SplitN(j.Path, "|", 2)[0], ":", 2)[0]]++
		if j.Cross {
			extra["cross_representation_runs"]++
			nontrivial = true
		}
		if len(o.cmp) != 1 {
			if p := stepProblem(j.Step); p != "" {
				st := Violated
				if strings.HasPrefix(p, "step budget") || j.Echo {
					st = Inconclusive
				}
				fail(st, "compare/3 did not answer (%s): %s", p, show(j))
			} else {
				fail(Violated, "compare(O, %s, %s) gave %d answers %v: %s", names[j.X], names[j.Y], len(o.cmp), o.cmp, show(j))
			}
			continue
		}
		got := o.cmp[0]
		seen[j.X][j.Y] = append(seen[j.X][j.Y], got)
		switch d.Kind {
		case c08Identical, c08Decided:
			if got != want[j.X][j.Y] {
				fail(Violated, "compare(O, %s, %s) gave O = '%s', the standard order says '%s': %s", names[j.X], names[j.Y], got, want[j.X][j.Y], show(j))
			}
		case c08Hinged:
			if got == "=" {
				fail(Violated, "compare(O, %s, %s) gave '=' for terms that are not identical: %s", names[j.X], names[j.Y], show(j))
			}
		}
		if j.Act == "co" {
			extra["operator_calls"] += 6
			for _, op := range c08OpNames {
				succ := o.ops[op] > 0
				switch {
				case d.Kind != c08Hinged:
					if succ != c08OpExpected(op, got) {
						fail(Violated, "%s %s %s %s although compare/3 gave '%s' for the same operands: %s", names[j.X], c08OpText[op], names[j.Y], c08Truth(succ), got, show(j))
					}
				case op == "eq" || op == "ne":
					if succ != (op == "ne") {
						fail(Violated, "%s %s %s %s for terms that are not identical: %s", names[j.X], c08OpText[op], names[j.Y], c08Truth(succ), show(j))
					}
				default:
					extra["not_asserted_operator_on_hinged_pair"]++
				}
			}
		}
	}
	// laws over several calls: only where nothing hinges on the order of two variables
	for x := 0; x < 3; x++ {
		for y := 0; y < 3; y++ {
			d := diff[x][y]
			switch d.Kind {
			case c08Identical:
				extra["pairs_identical"]++
			case c08Decided:
				extra["pairs_decided"]++
				if d.Depth >= 1 {
					extra["pairs_decided_below_top"]++
					nontrivial = true
				}
			case c08Hinged:
				extra["pairs_hinged"]++
				extra["not_asserted_multi_call_law_on_hinged_pair"]++
				continue
			case c08ZeroSign:
				extra["pairs_zero_sign"]++
			}
			s := seen[x][y]
			for _, v := range s {
				if v != s[0] {
					fail(Violated, "compare(O, %s, %s) depends on how the operands were built: results %v over the runs; %s = %s, %s = %s", names[x], names[y], s, names[x], m.T[x], names[y], m.T[y])
					break
				}
			}
			if x < y && len(s) > 0 && len(seen[y][x]) > 0 {
				extra["antisymmetry_asserted"]++
				if seen[y][x][0] != c08Inverse(s[0]) {
					fail(Violated, "not antisymmetric: compare(O, %s, %s) gave '%s' and compare(O, %s, %s) gave '%s'; %s = %s, %s = %s", names[x], names[y], s[0], names[y], names[x], seen[y][x][0], names[x], m.T[x], names[y], m.T[y])
				}
			}
		}
	}
	hinged := false
	for x := 0; x < 3; x++ {
		for y := 0; y < 3; y++ {
			if diff[x][y].Kind == c08Hinged || len(seen[x][y]) == 0 {
				hinged = true
			}
		}
	}
	if hinged {
		extra["not_asserted_transitivity_on_hinged_triple"]++
	} else {
		extra["transitivity_asserted"]++
		le := func(s string) bool { return s == "<" || s == "=" }
		for _, p := range [][3]int{{0, 1, 2}, {0, 2, 1}, {1, 0, 2}, {1, 2, 0}, {2, 0, 1}, {2, 1, 0}} {
			ab, bc, ac := seen[p[0]][p[1]][0], seen[p[1]][p[2]][0], seen[p[0]][p[2]][0]
			if le(ab) && le(bc) {
				wantAC := "="
				if ab == "<" || bc == "<" {
					wantAC = "<"
				}
				if ac != wantAC {
					fail(Violated, "not transitive: %s %s %s and %s %s %s but %s %s %s; A = %s, B = %s, C = %s", names[p[0]], ab, names[p[1]], names[p[1]], bc, names[p[2]],
						names[p[0]], ac, names[p[2]], m.T[0], m.T[1], m.T[2])
				}
			}
		}
	}
	exp, ob := map[string]string{}, map[string]string{}
	for x := 0; x < 3; x++ {
		for y := 0; y < 3; y++ {
			k := names[x] + "?" + names[y]
			exp[k] = want[x][y]
			switch diff[x][y].Kind {
			case c08Hinged:
				exp[k] = "< or > (order of two variables)"
			case c08ZeroSign:
				exp[k] = "same in every run (-0.0 vs 0.0)"
			}
			ob[k] = strings.Join(c08Uniq(seen[x][y]), " ")
		}
	}
	v := Verdict{Status: Held, NonTrivial: nontrivial, Extra: extra}
	v.Sample = map[string]interface{}{"A": m.T[0].String(), "B": m.T[1].String(), "C": m.T[2].String(), "runs": len(m.Jobs), "expected": exp, "observed": ob}
	return c08Conclude(v, fails)
}

func c08Truth(b bool) string {
	if b {
		return "succeeded"
	}
	return "failed"
}

func c08Uniq(s []string) []string {
	var out []string
	seen := map[string]bool{}
	for _, x := range s {
		if !seen[x] {
			seen[x] = true
			out = append(out, x)
		}
	}
	return out
}

func c08Conclude(v Verdict, fails []c08Fail) Verdict {
	for _, f := range fails {
		if f.status == Violated {
			v.Status, v.Msg = Violated, f.msg
			return v
		}
	}
	if len(fails) > 0 {
		v.Status, v.Msg = Inconclusive, fails[0].msg
		v.NonTrivial = false
	}
	return v
}

func (c *c08) judgeList(m *c08Meta, obs []c08Obs, stepProblem func(int) string) Verdict {
	extra := map[string]int64{"items_" + m.Kind: 1}
	abstract := m.T[0]
	var fails []c08Fail
	fail := func(st Status, f string, a ...interface{}) { fails = append(fails, c08Fail{st, fmt.Sprintf(f, a...)}) }
	predName := map[string]string{"s": "sort/2", "k": "keysort/2", "so": "setof/3"}
	nontrivial := false
	var sample interface{}
	for i := range m.Jobs {
		j := &m.Jobs[i]
		name := predName[j.Act]
		r := obs[i].res[j.Act]
		built := strings.SplitN(j.Path, "|", 2)[0]
		if r == nil || !r.IsCmp("r", 3) {
			if p := stepProblem(j.Step); p != "" {
				st := Violated
				if strings.HasPrefix(p, "step budget") || built != "slice" && built != "cons" && built != "string" && built != "mixed" {
					st = Inconclusive
				}
				fail(st, "%s did not answer (%s) on %s [built %s]", name, p, abstract, j.Path)
			} else if built == "slice" || built == "cons" || built == "string" || built == "mixed" || strings.HasPrefix(built, "text") {
				fail(Violated, "%s failed on the list %s [built %s]", name, abstract, j.Path)
			} else {
				fail(Inconclusive, "constructor path %s did not run or %s failed on %s", j.Path, name, abstract)
			}
			continue
		}
		in, res := r.Args[1], r.Args[2]
		if !term.Variant(in, abstract) {
			fail(Inconclusive, "constructor path %s built %s instead of %s", j.Path, in, abstract)
			extra["echo_mismatch"]++
			continue
		}
		extra[strings.SplitN(name, "/", 2)[0]+"_calls"]++
		extra["path_"+strings.SplitN(built, ":", 2)[0]]++
		if built != "slice" {
			extra["non_default_representation_runs"]++
		}
		ins, _ := term.ListElems(in)
		outs, tail := term.ListElems(res)
		if !tail.IsAtom("[]") {
			fail(Violated, "%s returned %s, not a list, for %s [built %s]", name, res, in, j.Path)
			continue
		}
		var msg string
		var na int64
		var expected *term.Term
		hinged := false
		switch j.Act {
		case "s", "so":
			// same set of elements
			for _, e := range ins {
				if !c08Member(e, outs) {
					msg = fmt.Sprintf("element %s of the input is missing from the result", e)
					break
				}
			}
			for _, e := range outs {
				if msg == "" && !c08Member(e, ins) {
					msg = fmt.Sprintf("element %s of the result is not an element of the input", e)
				}
			}
			if msg == "" {
				msg, na = c08Ascending(outs, true, "element")
			}
			hinged = c08HingedList(ins)
			if !hinged {
				expected = term.L(term.SortUnique(ins)...)
			}
			if c08DeepPair(ins) {
				nontrivial = true
			}
		case "k":
			keys := func(ts []*term.Term) ([]*term.Term, bool) {
				ks := make([]*term.Term, len(ts))
				for i, t := range ts {
					if !t.IsCmp("-", 2) {
						return nil, false
					}
					ks[i] = t.Args[0]
				}
				return ks, true
			}
			ik, _ := keys(ins)
			ok, isPairs := keys(outs)
			switch {
			case !isPairs:
				msg = "the result holds an element that is not a pair"
			case len(outs) != len(ins):
				msg = fmt.Sprintf("the result has %d elements, the input %d", len(outs), len(ins))
			default:
				// stability + permutation: for every key, the elements carrying it appear in input order
				used := make([]bool, len(ins))
				for oi, e := range outs {
					found := false
					for ii, f := range ins {
						if used[ii] || !term.Equal(ik[ii], ok[oi]) {
							continue
						}
						// first unused input element with this key
						if !term.Equal(e, f) {
							msg = fmt.Sprintf("not stable: position %d of the result is %s, but the next input element with key %s is %s", oi+1, e, ok[oi], f)
						}
						used[ii] = true
						found = true
						break
					}
					if !found {
						msg = fmt.Sprintf("element %s of the result has no counterpart in the input", e)
					}
					if msg != "" {
						break
					}
				}
				if msg == "" {
					msg, na = c08Ascending(ok, false, "key")
				}
			}
			hinged = c08HingedList(ik)
			if !hinged {
				st := append([]*term.Term(nil), ins...)
				sort.SliceStable(st, func(a, b int) bool { c, _ := term.Compare(st[a].Args[0], st[b].Args[0]); return c < 0 })
				expected = term.L(st...)
			}
			if c08DeepPair(ik) {
				nontrivial = true
			}
		}
		extra["not_asserted_zero_sign"] += na
		if hinged {
			extra["lists_whose_order_hinges_on_variables"]++
		}
		if msg == "" && expected != nil && !term.Equal(expected, res) {
			msg = "result differs from the reference sort" // cannot happen when the checks above are complete
		}
		if msg != "" {
			exp := "(several orders are admissible: the list holds distinct variables)"
			if expected != nil {
				exp = expected.String()
			}
			fail(Violated, "%s: %s | input %s | result %s | expected %s [built %s]", name, msg, in, res, exp, j.Path)
			continue
		}
		if sample == nil || j.Act != "s" {
			exp := "any duplicate-free ascending permutation under one order of the variables"
			if expected != nil {
				exp = expected.String()
			}
			sample = map[string]interface{}{"call": name, "input": in.String(), "expected": exp, "observed": res.String(), "runs": len(m.Jobs)}
		}
	}
	v := Verdict{Status: Held, NonTrivial: nontrivial, Extra: extra, Sample: sample}
	return c08Conclude(v, fails)
}

func c08Member(t *term.Term, ts []*term.Term) bool {
	for _, x := range ts {
		if term.Equal(t, x) {
			return true
		}
	}
	return false
}
