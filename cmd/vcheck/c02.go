package main

import (
	"encoding/json"
	"fmt"
	"math/rand"
	"strings"
	"unicode/utf8"

	"verif/internal/proto"
	"verif/internal/run"
	"verif/internal/term"
)

// C02 — unification yields a most general unifier, whatever the representation (DESIGN.md §C02).
//
// Part A: one item per abstract pair (A, B). The pair is executed in several "variants": the same abstract
// terms built with every list node in each engine representation (Rep hints on injected terms) and built
// inside Prolog through the constructor paths the property names. Every variant runs the same list of
// observations through a small consulted driver (c02Driver); the oracle (term.Unify, one-way matching,
// variance) lives here and only sees what verif_out logged.
//
// Part B: worker kind "envdriver" (persistence of the environment tree), judged from its report.

func init() { checks["C02"] = func() Check { return &c02{} } }

type c02 struct{}

func (*c02) ID() string    { return "C02" }
func (*c02) Level() string { return "exploration" }
func (*c02) Rule() string {
	return "Part A: seeded abstract term pairs (depth <= 4; atoms: one-rune, multi-rune, '', U+FFFD, non-BMP, quoted; integers; floats; 0-6 variables shared arbitrarily within and between the sides; compounds; proper/partial lists; char and code strings). All 400 ordered pairs over a 20-term universe (variables, atoms, f/1, f/2, g/1, proper and partial lists with shared variables) and 16 classic pairs in both orders are always included; for the seeded pairs B is derived from A by instantiation/generalisation, by renaming+instantiating a common skeleton, by a mutation below the root, by wrapping one occurrence of a variable (occurs-check trip), or independently. Each pair runs in up to 6 (quick) / 12 (thorough) variants: every list node as Go slice/partial, as './2 compounds, string-backed (chars/codes) where the elements allow, random mixtures (prefix in one representation, tail in another), and built inside Prolog by bracket/bar text, '.'(H,T) text, double-quoted literals under each double_quotes flag, atom_chars/2, atom_codes/2, append/3, =../2, findall/3, length/2, late binding of sub-terms and list tails. Per variant the driver observes A=B, B=A (outcome, ==, tuple of all variables), f(A,x)=f(B,y) (partial failure), unify_with_occurs_check/2, head unification against an asserted clause, against a clause with the arguments split over the head (both argument orders), against a consulted clause given as text, a head whose last argument fails, subsumes_term/2 both ways and copy_term/2. Expected: success iff term.Unify says unifiable; the observed tuple is a variant of the reference mgu applied to the variables; == holds; after failure all variables are distinct and unbound; unify_with_occurs_check fails for every pair without a finite unifier. Pairs that may be subject to occurs check (cycle in the unification closure, an over-approximation of ISO 7.3.3) are asserted only for unify_with_occurs_check/subsumes_term/copy_term. Non-trivial: both sides compound and the reference mgu binds >= 1 variable, or a non-unifiable pair whose principal functors agree (fails below depth 1); distinct by pair hash. Part B: random Env.Unify sequences from randomly chosen retained snapshots (a tree of up to 40 live versions) over 200 variables and small terms; steps that would need an occurs check are skipped. After every step every retained environment must still have its search-tree order, exactly the bindings (hook) and the Resolve results for all 200 variables (public API) recorded when it was created; a successful step must make the two terms identical and extend its parent; after a failed step the returned environment is dropped and the parent must be unchanged. Red-red edges / unequal black heights are counted (env_balance_anomalies_not_asserted) but are not part of the statement. Non-trivial: >= 100 successful steps, >= 8 environments retained, size >= 16."
}
func (*c02) Assumptions() []string {
	return []string{
		"term.Unify (Robinson with occurs check on the controller's own trees) is the reference; it is cross-checked each item against an independent unification-closure computation",
		"pairs whose unification closure contains a cycle but which are not unifiable are treated as possibly subject to occurs check and not asserted for =/2 and head unification (ISO 7.3.3 leaves them undefined)",
		"+0.0 and -0.0 never occur in the same pair (the statement does not say whether they unify)",
		"when a constructor path inside Prolog does not deliver the intended abstract term the variant is inconclusive (that is another property's subject), never a C02 violation",
		"the driver never passes the terms under test through call/N, catch/3 or if-then-else: those re-build (normalise) their argument, which would hide the representation under test",
		"balance of the environment tree (red-black colour invariants) is reported, not asserted: it affects cost only",
	}
}

// ---------------------------------------------------------------------------------------------------
// driver program consulted in every Part A case

const c02Driver = `
c02_loop(K, N) :- K >= N, !.
c02_loop(K, N) :- c02_one(K), K1 is K + 1, c02_loop(K1, N).
c02_one(K) :- catch(c02_run(K), E, verif_out(err, e(K, E))), fail.
c02_one(_).
c02_run(K) :- verif_in(K, v(Tags, A, B, Vs, W, C, As, Bs)), c02_variant(Tags, K, A, B, Vs, W, C, As, Bs).
c02_variant([], _, _, _, _, _, _, _, _).
c02_variant([T|Ts], K, A, B, Vs, W, C, As, Bs) :- c02_tag1(T, K, A, B, Vs, W, C, As, Bs), c02_variant(Ts, K, A, B, Vs, W, C, As, Bs).
c02_tag1(T, K, A, B, Vs, W, C, As, Bs) :- c02_tag(T, K, A, B, Vs, W, C, As, Bs), fail.
c02_tag1(_, _, _, _, _, _, _, _, _).
c02_tag(eq, K, A, B, Vs, _, _, _, _) :- c02_u(eq, A, B, Vs, K).
c02_tag(qe, K, A, B, Vs, _, _, _, _) :- c02_u(qe, B, A, Vs, K).
c02_tag(pf, K, A, B, Vs, _, _, _, _) :- c02_u(pf, f(A, x), f(B, y), Vs, K).
c02_tag(oc, K, A, B, Vs, _, _, _, _) :- c02_o(oc, A, B, Vs, K).
c02_tag(sb, K, A, B, Vs, _, _, _, _) :- c02_s(sb, A, B, Vs, K).
c02_tag(bs, K, A, B, Vs, _, _, _, _) :- c02_s(bs, B, A, Vs, K).
c02_tag(cp, K, A, B, _, _, _, _, _) :- copy_term(t(A, B), Y), verif_out(cp, y(K, same, [t(A, B)|Y])).
c02_tag(hd, K, A, B, Vs, W, C, _, _) :- assertz(c02h(K, A, Vs, A)), c02_h(hd, [B], W, C, B, [W|Vs], K).
c02_tag(h1, K, A, B, Vs, W, C, _, _) :- assertz(c02f(A, K, Vs, A)), c02_h(h1, [B], W, C, B, [W|Vs], K).
c02_tag(hp, K, A, B, Vs, W, C, _, _) :- assertz(c02p(K, A, x)), c02_h(hp, [B], W, C, K, Vs, K).
c02_tag(tx, K, _, B, Vs, W, C, _, _) :- c02_h(tx, [B], W, C, B, [W|Vs], K).
c02_tag(hs, K, A, B, Vs, W, C, As, Bs) :- c02_mk(hs, K, As, Vs, A, Cl), assertz(Cl), c02_h(hs, Bs, W, C, B, [W|Vs], K).
c02_tag(hr, K, A, B, Vs, W, C, As, Bs) :- c02_mk(hr, K, As, Vs, A, Cl), assertz(Cl), c02_h(hr, Bs, W, C, B, [W|Vs], K).
c02_u(T, L, R, O, K) :- L = R, !, c02_same(L, R, E), verif_out(T, y(K, E, O)).
c02_u(T, _, _, O, K) :- verif_out(T, n(K, O)).
c02_o(T, L, R, O, K) :- unify_with_occurs_check(L, R), !, c02_same(L, R, E), verif_out(T, y(K, E, O)).
c02_o(T, _, _, O, K) :- verif_out(T, n(K, O)).
c02_h(T, Bs, W, C, R, O, K) :- c02_call(T, K, Bs, W, C), !, c02_same(C, R, E), verif_out(T, y(K, E, O)).
c02_h(T, _, _, _, _, O, K) :- verif_out(T, n(K, O)).
c02_s(T, G, S, O, K) :- subsumes_term(G, S), !, verif_out(T, y(K, same, O)).
c02_s(T, _, _, O, K) :- verif_out(T, n(K, O)).
c02_mk(hs, K, [A1,A2], Vs, A, c02s(K, A1, A2, Vs, A)).
c02_mk(hs, K, [A1,A2,A3], Vs, A, c02s(K, A1, A2, A3, Vs, A)).
c02_mk(hs, K, [A1,A2,A3,A4], Vs, A, c02s(K, A1, A2, A3, A4, Vs, A)).
c02_mk(hr, K, [A1,A2], Vs, A, c02r(K, A2, A1, Vs, A)).
c02_mk(hr, K, [A1,A2,A3], Vs, A, c02r(K, A3, A2, A1, Vs, A)).
c02_mk(hr, K, [A1,A2,A3,A4], Vs, A, c02r(K, A4, A3, A2, A1, Vs, A)).
c02_call(hd, K, [B], W, C) :- c02h(K, B, W, C).
c02_call(h1, K, [B], W, C) :- c02f(B, K, W, C).
c02_call(hp, K, [B], _, K) :- c02p(K, B, y).
c02_call(tx, K, [B], W, C) :- K < 100, c02t(K, B, W, C).
c02_call(tx, 100, [B], W, C) :- c02t100(100, B, W, C).
c02_call(tx, 101, [B], W, C) :- c02t101(101, B, W, C).
c02_call(tx, 102, [B], W, C) :- c02t102(102, B, W, C).
c02_call(tx, 103, [B], W, C) :- c02t103(103, B, W, C).
c02_call(hs, K, [B1,B2], W, C) :- c02s(K, B1, B2, W, C).
c02_call(hs, K, [B1,B2,B3], W, C) :- c02s(K, B1, B2, B3, W, C).
c02_call(hs, K, [B1,B2,B3,B4], W, C) :- c02s(K, B1, B2, B3, B4, W, C).
c02_call(hr, K, [B1,B2], W, C) :- c02r(K, B2, B1, W, C).
c02_call(hr, K, [B1,B2,B3], W, C) :- c02r(K, B3, B2, B1, W, C).
c02_call(hr, K, [B1,B2,B3,B4], W, C) :- c02r(K, B4, B3, B2, B1, W, C).
c02_same(L, R, same) :- L == R, !.
c02_same(_, _, differ).
c02_mem(X, [X|_]).
c02_mem(X, [_|T]) :- c02_mem(X, T).
`

// ---------------------------------------------------------------------------------------------------
// generator of abstract pairs

type c02Gen struct {
	r       *rand.Rand
	nv      int
	negZero bool
}

const c02MaxVars = 6

func (g *c02Gen) v() *term.Term {
	if g.nv > 0 && (g.nv >= c02MaxVars || g.r.Intn(100) < 60) {
		return term.V(int64(g.r.Intn(g.nv)))
	}
	g.nv++
	return term.V(int64(g.nv - 1))
}

var c02CommonAtoms = []string{"a", "b", "c", "a", "b", "foo", "bar", "x"}
var c02RareAtoms = []string{"", "�", "😀", "é", "[]", "A b", "foo", "ab", "y", "."}
var c02Ints = []int64{0, 1, 2, -1, 97, 98, 99, 0x1F600, 0xFFFD, 1 << 62, -7}
var c02Floats = []float64{1.0, -2.5, 0.0, 3.25, 1e10, 2.5e-5}
var c02Strings = []string{"abc", "ab", "a", "b", "abd", "hello", "héllo", "a😀", "�x", "a�", "x y", "ba"}
var c02Functors = []string{"f", "f", "g", "h", "foo", "p q", "-", "f"}

func (g *c02Gen) atom() *term.Term {
	if g.r.Intn(100) < 72 {
		return term.A(c02CommonAtoms[g.r.Intn(len(c02CommonAtoms))])
	}
	return term.A(c02RareAtoms[g.r.Intn(len(c02RareAtoms))])
}

func (g *c02Gen) atomic() *term.Term {
	switch k := g.r.Intn(100); {
	case k < 62:
		return g.atom()
	case k < 86:
		return term.I(c02Ints[g.r.Intn(len(c02Ints))])
	default:
		f := c02Floats[g.r.Intn(len(c02Floats))]
		if f == 0 && g.negZero {
			f = negZero()
		}
		return term.F(f)
	}
}

func negZero() float64 { z := 0.0; return -z }

func (g *c02Gen) term(depth int) *term.Term {
	k := g.r.Intn(100)
	if depth <= 0 {
		if k < 40 {
			return g.v()
		}
		return g.atomic()
	}
	switch {
	case k < 16:
		return g.v()
	case k < 38:
		return g.atomic()
	case k < 70:
		return g.compound(depth)
	default:
		return g.list(depth)
	}
}

func (g *c02Gen) compound(depth int) *term.Term {
	name := c02Functors[g.r.Intn(len(c02Functors))]
	n := 1 + g.r.Intn(3)
	if name == "-" {
		n = 2
	}
	args := make([]*term.Term, n)
	for i := range args {
		args[i] = g.term(depth - 1)
	}
	return term.C(name, args...)
}

func (g *c02Gen) list(depth int) *term.Term {
	switch k := g.r.Intn(100); {
	case k < 14: // char string
		return term.Chars(c02Strings[g.r.Intn(len(c02Strings))])
	case k < 22: // code string
		return term.Codes(c02Strings[g.r.Intn(len(c02Strings))])
	case k < 30: // string with a variable tail or element
		s := []rune(c02Strings[g.r.Intn(len(c02Strings))])
		var es []*term.Term
		for _, r := range s {
			es = append(es, term.A(string(r)))
		}
		if g.r.Intn(2) == 0 {
			es[g.r.Intn(len(es))] = g.v()
			return term.L(es...)
		}
		return term.PL(g.v(), es...)
	}
	n := g.r.Intn(5)
	if g.r.Intn(6) == 0 {
		n = 4 + g.r.Intn(5) // longer lists: slices that grow have spare capacity
	}
	es := make([]*term.Term, n)
	for i := range es {
		es[i] = g.term(depth - 1)
	}
	switch k := g.r.Intn(100); {
	case k < 62 || n == 0:
		return term.L(es...)
	case k < 92:
		return term.PL(g.v(), es...)
	default:
		return term.PL(g.atomic(), es...)
	}
}

// derive builds an instance/generalisation of t: variables are consistently replaced (theta), sub-terms
// are now and then replaced by variables.
func (g *c02Gen) derive(t *term.Term, theta map[int64]*term.Term, root bool) *term.Term {
	p := g.r.Intn(100)
	if t.K == term.KVar {
		if b, ok := theta[t.I]; ok {
			return b
		}
		var b *term.Term
		switch {
		case p < 45:
			b = t
		case p < 62:
			b = g.v()
		default:
			b = g.term(1)
		}
		theta[t.I] = b
		return b
	}
	if p < 9 && !root {
		return g.v()
	}
	if t.K != term.KCmp {
		return t
	}
	args := make([]*term.Term, len(t.Args))
	for i, a := range t.Args {
		args[i] = g.derive(a, theta, false)
	}
	return &term.Term{K: term.KCmp, S: t.S, Args: args}
}

func c02CountNodes(t *term.Term) int { return term.Size(t) }

// c02ReplaceAt rebuilds t with the node of pre-order index *idx replaced by f(node).
func c02ReplaceAt(t *term.Term, idx *int, f func(*term.Term) *term.Term) *term.Term {
	if *idx == 0 {
		*idx = -1
		return f(t)
	}
	*idx--
	if t.K != term.KCmp {
		return t
	}
	args := make([]*term.Term, len(t.Args))
	for i, a := range t.Args {
		if *idx >= 0 {
			args[i] = c02ReplaceAt(a, idx, f)
		} else {
			args[i] = a
		}
	}
	return &term.Term{K: term.KCmp, S: t.S, Args: args}
}

func (g *c02Gen) mutateNode(t *term.Term) *term.Term {
	switch t.K {
	case term.KAtom:
		for {
			a := g.atom()
			if a.S != t.S {
				return a
			}
		}
	case term.KInt:
		if g.r.Intn(3) == 0 {
			return term.F(float64(t.I))
		}
		return term.I(t.I + 1)
	case term.KFloat:
		return term.F(t.F + 1)
	case term.KVar:
		return g.atomic()
	case term.KCmp:
		if t.IsList() {
			switch g.r.Intn(3) {
			case 0: // drop this element
				return t.Args[1]
			case 1: // insert an element
				return term.Cons(g.atomic(), t)
			default:
				return term.Cons(t.Args[0], term.Cons(g.atom(), t.Args[1]))
			}
		}
		switch g.r.Intn(3) {
		case 0:
			return &term.Term{K: term.KCmp, S: t.S + "x", Args: t.Args}
		case 1:
			if len(t.Args) > 1 {
				return &term.Term{K: term.KCmp, S: t.S, Args: t.Args[:len(t.Args)-1]}
			}
			return &term.Term{K: term.KCmp, S: t.S, Args: append(append([]*term.Term{}, t.Args...), g.atom())}
		default:
			return g.atom()
		}
	}
	return t
}

func (g *c02Gen) wrap(x *term.Term) *term.Term {
	switch g.r.Intn(6) {
	case 0:
		return term.C("g", x)
	case 1:
		return term.L(x)
	case 2:
		return term.PL(x, term.A("a"))
	case 3:
		return term.C("f", term.A("b"), x)
	case 4:
		return term.PL(g.v(), x)
	default:
		return term.L(term.A("a"), term.C("h", x))
	}
}

// positions of variable occurrences (pre-order indices)
func c02VarPositions(t *term.Term, idx *int, out *[]int) {
	if t.K == term.KVar {
		*out = append(*out, *idx)
	}
	*idx++
	if t.K == term.KCmp {
		for _, a := range t.Args {
			c02VarPositions(a, idx, out)
		}
	}
}

func c02Depth(t *term.Term) int {
	if t.K != term.KCmp {
		return 0
	}
	d := 0
	if t.IsList() {
		es, tail := term.ListElems(t)
		for _, e := range append(es, tail) {
			if x := c02Depth(e); x > d {
				d = x
			}
		}
		return d + 1
	}
	for _, a := range t.Args {
		if x := c02Depth(a); x > d {
			d = x
		}
	}
	return d + 1
}

func c02HasBothZeros(ts ...*term.Term) bool {
	pos, neg := false, false
	var walk func(t *term.Term)
	walk = func(t *term.Term) {
		switch t.K {
		case term.KFloat:
			if t.F == 0 {
				if 1/t.F < 0 {
					neg = true
				} else {
					pos = true
				}
			}
		case term.KCmp:
			for _, a := range t.Args {
				walk(a)
			}
		}
	}
	for _, t := range ts {
		walk(t)
	}
	return pos && neg
}

// c02GenPair returns one abstract pair with variables numbered 0..nv-1.
func c02GenPair(r *rand.Rand) (a, b *term.Term, nv int, family string) {
	for {
		g := &c02Gen{r: r, negZero: r.Intn(4) == 0}
		k := r.Intn(100)
		switch {
		case k < 37:
			family = "instance"
			a = g.term(3)
			if a.K != term.KCmp && r.Intn(4) > 0 {
				a = g.compound(3)
			}
			b = g.derive(a, map[int64]*term.Term{}, true)
		case k < 59:
			family = "skeleton"
			s := g.term(3)
			if s.K != term.KCmp {
				s = g.compound(3)
			}
			a = g.derive(s, map[int64]*term.Term{}, true)
			ren := map[int64]*term.Term{}
			s2 := term.Map(s, func(id int64) *term.Term {
				if t, ok := ren[id]; ok {
					return t
				}
				t := g.v()
				ren[id] = t
				return t
			})
			b = g.derive(s2, map[int64]*term.Term{}, true)
		case k < 75:
			family = "mutated"
			a = g.compound(3)
			if r.Intn(3) == 0 {
				a = g.list(3)
			}
			b = g.derive(a, map[int64]*term.Term{}, true)
			if n := c02CountNodes(b); n > 1 {
				idx := 1 + r.Intn(n-1)
				b = c02ReplaceAt(b, &idx, g.mutateNode)
			}
		case k < 79:
			family = "occurs"
			a = g.compound(3)
			var pos []int
			i := 0
			c02VarPositions(a, &i, &pos)
			if len(pos) == 0 {
				a = term.C("f", g.v(), a)
				pos = []int{1}
			}
			idx := pos[r.Intn(len(pos))]
			b = c02ReplaceAt(a, &idx, g.wrap)
			if r.Intn(3) == 0 { // some renaming/instantiation elsewhere keeps the trip indirect
				theta := map[int64]*term.Term{}
				for v := 0; v < g.nv; v++ {
					if r.Intn(2) == 0 {
						theta[int64(v)] = term.V(int64(v))
					}
				}
				b = g.derive(b, theta, true)
			}
			if r.Intn(8) == 0 { // a clash somewhere as well: possibly-STO but not unifiable
				if n := c02CountNodes(b); n > 1 {
					idx := 1 + r.Intn(n-1)
					b = c02ReplaceAt(b, &idx, g.mutateNode)
				}
			}
		default:
			family = "independent"
			a = g.term(3)
			b = g.term(3)
		}
		if r.Intn(2) == 0 {
			a, b = b, a
		}
		if c02Depth(a) > 4 || c02Depth(b) > 4 || term.Size(a)+term.Size(b) > 90 || c02HasBothZeros(a, b) {
			continue
		}
		c := term.Canon(a, b)
		a, b = c[0], c[1]
		nv = len(term.VarsOf(a, b))
		return a, b, nv, family
	}
}

// ---------------------------------------------------------------------------------------------------
// reference: unification closure (possibly subject to occurs check), one-way matching

// c02Closure computes the least congruence-like closure of a=b over the sub-term occurrences (clashes are
// ignored, same-functor members of a class have their arguments merged) and reports whether some class
// contains a clash and whether the class graph has a cycle. Acyclic and clash-free <=> unifiable. A cycle
// is a necessary condition for some order of the Herbrand algorithm to reach a positive occurs check, so
// "cycle" over-approximates "subject to occurs check" (ISO 7.3.3).
func c02Closure(a, b *term.Term) (clash, cycle bool) {
	var nodes []*term.Term
	var kids [][]int
	varNode := map[int64]int{}
	var add func(t *term.Term) int
	add = func(t *term.Term) int {
		if t.K == term.KVar {
			if id, ok := varNode[t.I]; ok {
				return id
			}
		}
		id := len(nodes)
		nodes = append(nodes, t)
		kids = append(kids, nil)
		if t.K == term.KVar {
			varNode[t.I] = id
		}
		if t.K == term.KCmp {
			ks := make([]int, len(t.Args))
			for i, x := range t.Args {
				ks[i] = add(x)
			}
			kids[id] = ks
		}
		return id
	}
	ia, ib := add(a), add(b)
	parent := make([]int, len(nodes))
	members := make([][]int, len(nodes)) // non-variable members of a class, at its root
	for i := range parent {
		parent[i] = i
		if nodes[i].K != term.KVar {
			members[i] = []int{i}
		}
	}
	var find func(x int) int
	find = func(x int) int {
		for parent[x] != x {
			parent[x] = parent[parent[x]]
			x = parent[x]
		}
		return x
	}
	sameShape := func(x, y *term.Term) bool {
		if x.K != y.K {
			return false
		}
		switch x.K {
		case term.KCmp:
			return x.S == y.S && len(x.Args) == len(y.Args)
		default:
			return term.Equal(x, y)
		}
	}
	queue := [][2]int{{ia, ib}}
	for len(queue) > 0 {
		p := queue[0]
		queue = queue[1:]
		x, y := find(p[0]), find(p[1])
		if x == y {
			continue
		}
		for _, m1 := range members[x] {
			for _, m2 := range members[y] {
				if !sameShape(nodes[m1], nodes[m2]) {
					clash = true
					continue
				}
				for i := range kids[m1] {
					queue = append(queue, [2]int{kids[m1][i], kids[m2][i]})
				}
			}
		}
		parent[y] = x
		members[x] = append(members[x], members[y]...)
		members[y] = nil
	}
	// cycle detection on the class graph
	state := map[int]int{}
	var dfs func(c int) bool
	dfs = func(c int) bool {
		switch state[c] {
		case 1:
			return true
		case 2:
			return false
		}
		state[c] = 1
		for _, m := range members[c] {
			for _, k := range kids[m] {
				if dfs(find(k)) {
					return true
				}
			}
		}
		state[c] = 2
		return false
	}
	for i := range nodes {
		if dfs(find(i)) {
			cycle = true
			break
		}
	}
	return clash, cycle
}

// c02Subsumes decides subsumes_term(g, s) by its definition: there is a substitution theta that leaves s
// unchanged (so every variable of s is a constant) with g.theta identical to s.
func c02Subsumes(g, s *term.Term) bool {
	fixed := map[int64]bool{}
	for _, v := range term.VarsOf(s) {
		fixed[v] = true
	}
	bind := map[int64]*term.Term{}
	var m func(g, s *term.Term) bool
	m = func(g, s *term.Term) bool {
		if g.K == term.KVar {
			if fixed[g.I] {
				return s.K == term.KVar && s.I == g.I
			}
			if b, ok := bind[g.I]; ok {
				return term.Equal(b, s)
			}
			bind[g.I] = s
			return true
		}
		if g.K != s.K {
			return false
		}
		if g.K != term.KCmp {
			return term.Equal(g, s)
		}
		if g.S != s.S || len(g.Args) != len(s.Args) {
			return false
		}
		for i := range g.Args {
			if !m(g.Args[i], s.Args[i]) {
				return false
			}
		}
		return true
	}
	return m(g, s)
}

// c02Ref is everything the oracle derives from the abstract pair.
type c02Ref struct {
	a, b     *term.Term
	nv       int
	vs       []*term.Term // V0..Vn-1
	res      term.UnifyResult
	sigma    term.Subst
	psto     bool // not unifiable and possibly subject to occurs check: '=' is not asserted
	a2       *term.Term
	ws2      *term.Term // the renamed variable list of the clause
	hres     term.UnifyResult
	hsigma   term.Subst
	hpsto    bool
	split    bool // both sides compound (not list cells), same name, same arity 2..4
	selfTest string
}

const c02RenameOffset = 500

func c02Rename(t *term.Term) *term.Term {
	return term.Map(t, func(id int64) *term.Term { return term.V(id + c02RenameOffset) })
}

func c02NewRef(a, b *term.Term, nv int) *c02Ref {
	r := &c02Ref{a: a, b: b, nv: nv}
	for i := 0; i < nv; i++ {
		r.vs = append(r.vs, term.V(int64(i)))
	}
	r.sigma, r.res = term.Unify(a, b)
	clash, cycle := c02Closure(a, b)
	r.psto = r.res != term.Unifiable && cycle
	if (r.res == term.Unifiable) != (!clash && !cycle) {
		r.selfTest = fmt.Sprintf("term.Unify=%d but closure says clash=%v cycle=%v", r.res, clash, cycle)
	}
	if r.res == term.STO && !cycle {
		r.selfTest = "term.Unify=STO but the closure has no cycle"
	}
	r.a2 = c02Rename(a)
	r.ws2 = c02Rename(term.L(r.vs...))
	r.hsigma, r.hres = term.Unify(r.a2, b)
	hclash, hcycle := c02Closure(r.a2, b)
	r.hpsto = r.hres != term.Unifiable && hcycle
	if (r.hres == term.Unifiable) != (!hclash && !hcycle) && r.selfTest == "" {
		r.selfTest = fmt.Sprintf("head pair: term.Unify=%d but closure says clash=%v cycle=%v", r.hres, hclash, hcycle)
	}
	r.split = a.K == term.KCmp && b.K == term.KCmp && !a.IsList() && !b.IsList() && a.S == b.S &&
		len(a.Args) == len(b.Args) && len(a.Args) >= 2 && len(a.Args) <= 4
	return r
}

// c02Exp is the expectation for one observation.
type c02Exp struct {
	skip    bool
	yes     bool
	tuple   []*term.Term // expected elements of the observed list on success
	unbound bool         // on success the observed list must still be distinct unbound variables
	copy    bool         // copy_term observation
}

func (r *c02Ref) applyAll(s term.Subst, ts []*term.Term) []*term.Term {
	out := make([]*term.Term, len(ts))
	for i, t := range ts {
		out[i] = s.Apply(t)
	}
	return out
}

func (r *c02Ref) expect(tag string) c02Exp {
	switch tag {
	case "eq", "qe":
		if r.psto {
			return c02Exp{skip: true}
		}
		if r.res == term.Unifiable {
			return c02Exp{yes: true, tuple: r.applyAll(r.sigma, r.vs)}
		}
		return c02Exp{}
	case "oc":
		if r.res == term.Unifiable {
			return c02Exp{yes: true, tuple: r.applyAll(r.sigma, r.vs)}
		}
		return c02Exp{}
	case "pf":
		if r.psto {
			return c02Exp{skip: true}
		}
		return c02Exp{}
	case "hd", "h1", "hs", "hr", "tx":
		if r.hpsto {
			return c02Exp{skip: true}
		}
		if r.hres == term.Unifiable {
			return c02Exp{yes: true, tuple: r.applyAll(r.hsigma, append([]*term.Term{r.ws2}, r.vs...))}
		}
		return c02Exp{}
	case "hp":
		if r.hpsto {
			return c02Exp{skip: true}
		}
		return c02Exp{}
	case "sb":
		return c02Exp{yes: c02Subsumes(r.a, r.b), unbound: true}
	case "bs":
		return c02Exp{yes: c02Subsumes(r.b, r.a), unbound: true}
	case "cp":
		return c02Exp{yes: true, copy: true}
	}
	return c02Exp{skip: true}
}

// tags returns the observations to run for this pair (those whose expectation is asserted).
func (r *c02Ref) tags(withText bool) []string {
	all := []string{"eq", "qe", "pf", "oc", "sb", "bs", "cp", "hd", "h1"}
	if r.split {
		all = append(all, "hs", "hr")
	}
	all = append(all, "hp")
	if withText {
		all = append(all, "tx")
	}
	var out []string
	for _, t := range all {
		if !r.expect(t).skip {
			out = append(out, t)
		}
	}
	return out
}

// ---------------------------------------------------------------------------------------------------
// observation specs (terms handed to the driver)

const (
	c02IdTA    = 1000 // builder path: the variable holding the built A
	c02IdTB    = 1001
	c02IdTArgs = 1100 // + i: built top-level arguments of A
	c02IdTBrgs = 1200
)

func c02VarName(id int64) string {
	if id >= 1000 {
		return fmt.Sprintf("T%d", id)
	}
	return fmt.Sprintf("V%d", id)
}

func c02Reverse(ts []*term.Term) []*term.Term {
	out := make([]*term.Term, len(ts))
	for i, t := range ts {
		out[len(ts)-1-i] = t
	}
	return out
}

// c02Input builds the term handed to the driver for one variant: v(Tags, A, B, Vs, W, C, As, Bs). a and b
// are the concrete (representation-annotated or named) sides; aArgs/bArgs their top-level arguments when
// the split-head observations are wanted (else empty). The driver derives every observation from these.
func c02Input(tags []string, a, b *term.Term, aArgs, bArgs []*term.Term, nv int) *term.Term {
	vs := make([]*term.Term, nv)
	for i := range vs {
		vs[i] = term.V(int64(i))
	}
	ts := make([]*term.Term, len(tags))
	for i, t := range tags {
		ts[i] = term.A(t)
	}
	return term.C("v", term.L(ts...), a, b, term.L(vs...), term.V(int64(nv)), term.V(int64(nv+1)), term.L(aArgs...), term.L(bArgs...))
}

// c02RepKey is a cheap identity of a representation-annotated term (for de-duplicating variants).
func c02RepKey(sb *strings.Builder, t *term.Term) {
	switch t.K {
	case term.KCmp:
		sb.WriteString(t.S)
		if t.Rep != "" {
			sb.WriteByte('#')
			sb.WriteString(t.Rep)
		}
		sb.WriteByte('(')
		for _, a := range t.Args {
			c02RepKey(sb, a)
			sb.WriteByte(',')
		}
		sb.WriteByte(')')
	case term.KVar:
		fmt.Fprintf(sb, "_%d", t.I)
	default:
		sb.WriteString(t.String())
	}
}

// ---------------------------------------------------------------------------------------------------
// representation assignment on injected terms

func c02IsCharAtom(t *term.Term) bool {
	return t.K == term.KAtom && utf8.ValidString(t.S) && utf8.RuneCountInString(t.S) == 1
}

func c02IsCode(t *term.Term) bool {
	return t.K == term.KInt && t.I > 0 && t.I <= utf8.MaxRune && utf8.ValidRune(rune(t.I))
}

func c02All(ts []*term.Term, f func(*term.Term) bool) bool {
	for _, t := range ts {
		if !f(t) {
			return false
		}
	}
	return len(ts) > 0
}

// c02Rep returns a copy of t with a representation chosen for every list. mode: "slice", "cons", "str"
// (string-backed where possible, else slice), "mixed" (random segments). used counts what was chosen.
func c02Rep(t *term.Term, mode string, r *rand.Rand, used map[string]int) *term.Term {
	if t.K != term.KCmp {
		return t
	}
	if !t.IsList() {
		args := make([]*term.Term, len(t.Args))
		for i, a := range t.Args {
			args[i] = c02Rep(a, mode, r, used)
		}
		return &term.Term{K: term.KCmp, S: t.S, Args: args}
	}
	es, tail := term.ListElems(t)
	for i := range es {
		es[i] = c02Rep(es[i], mode, r, used)
	}
	tail = c02Rep(tail, mode, r, used)
	strRep := func(seg []*term.Term, last bool) string {
		if !last || !tail.IsAtom("[]") {
			return ""
		}
		if c02All(seg, c02IsCharAtom) {
			return "chars"
		}
		if c02All(seg, c02IsCode) {
			return "codes"
		}
		return ""
	}
	type seg struct {
		lo, hi int
		rep    string
	}
	var segs []seg
	switch mode {
	case "slice", "cons":
		segs = []seg{{0, len(es), mode}}
	case "str":
		rep := strRep(es, true)
		if rep == "" {
			rep = "slice"
		}
		segs = []seg{{0, len(es), rep}}
	default: // mixed
		cuts := []int{0}
		for i := 1; i < len(es); i++ {
			if r.Intn(100) < 35 {
				cuts = append(cuts, i)
			}
		}
		cuts = append(cuts, len(es))
		for i := 0; i+1 < len(cuts); i++ {
			s := seg{lo: cuts[i], hi: cuts[i+1]}
			last := i+2 == len(cuts)
			switch k := r.Intn(100); {
			case k < 35:
				s.rep = "slice"
			case k < 65:
				s.rep = "cons"
			default:
				s.rep = strRep(es[s.lo:s.hi], last)
				if s.rep == "" {
					s.rep = []string{"slice", "cons"}[r.Intn(2)]
				}
			}
			segs = append(segs, s)
		}
	}
	cur := tail
	for i := len(segs) - 1; i >= 0; i-- {
		s := segs[i]
		cur = term.PL(cur, es[s.lo:s.hi]...)
		cur.Rep = s.rep
		if used != nil {
			name := s.rep
			if name == "slice" && !(i == len(segs)-1 && tail.IsAtom("[]")) {
				name = "partial"
			}
			used["rep_"+name]++
		}
	}
	if used != nil && len(segs) > 1 {
		used["rep_mixed_lists"]++
	}
	return cur
}

// ---------------------------------------------------------------------------------------------------
// building terms inside Prolog

func c02TextSafeAtom(s string) bool {
	if !utf8.ValidString(s) {
		return false
	}
	for _, r := range s {
		// the engine's reader refuses U+FFFD even as an escape, and NUL is pointless
		if r == utf8.RuneError || r == 0 {
			return false
		}
	}
	return true
}

func c02TextSafe(t *term.Term) bool {
	switch t.K {
	case term.KAtom:
		return c02TextSafeAtom(t.S)
	case term.KCmp:
		if !c02TextSafeAtom(t.S) {
			return false
		}
		for _, a := range t.Args {
			if !c02TextSafe(a) {
				return false
			}
		}
	}
	return true
}

func c02Ground(t *term.Term) bool { return len(term.VarsOf(t)) == 0 }

func c02PlainChar(r rune) bool { return r >= 'a' && r <= 'z' || r >= '0' && r <= '9' }

// c02DQText returns the double-quoted literal for a proper list under the given flag value, if there is one.
func c02DQText(es []*term.Term, tail *term.Term, dq string) (string, bool) {
	if !tail.IsAtom("[]") || len(es) == 0 {
		return "", false
	}
	var sb strings.Builder
	for _, e := range es {
		var r rune
		switch {
		case dq == "chars" && c02IsCharAtom(e):
			r, _ = utf8.DecodeRuneInString(e.S)
		case dq == "codes" && c02IsCode(e):
			r = rune(e.I)
		default:
			return "", false
		}
		if !c02PlainChar(r) {
			return "", false
		}
		sb.WriteRune(r)
	}
	return `"` + sb.String() + `"`, true
}

type c02Late struct {
	name string
	t    *term.Term
}

type c02Builder struct {
	r      *rand.Rand
	dq     string
	goals  []string
	post   []string // goals run after the built pair was observed once; it is then observed again
	late   []c02Late
	nh     int
	inputs []*term.Term
	inBase int
	ctors  map[string]int
	fuel   int
	pure   bool // text only: no goals, no helper variables
	noLate int  // >0: the term being built is consumed by a goal right away, no deferred bindings inside
}

func (b *c02Builder) fresh() string {
	b.nh++
	return fmt.Sprintf("H%d", b.nh)
}

func (b *c02Builder) inject(t *term.Term) string {
	h := b.fresh()
	b.goals = append(b.goals, fmt.Sprintf("verif_in(%d, %s)", b.inBase+len(b.inputs), h))
	b.inputs = append(b.inputs, c02Rep(t, "mixed", b.r, nil))
	b.ctors["inject"]++
	return h
}

func (b *c02Builder) atomText(s string) string {
	if !c02TextSafeAtom(s) {
		return b.inject(term.A(s))
	}
	if b.dq == "atom" && s != "" && b.r.Intn(2) == 0 {
		plain := true
		for _, r := range s {
			if !c02PlainChar(r) {
				plain = false
			}
		}
		if plain {
			b.ctors["dq_atom"]++
			return `"` + s + `"`
		}
	}
	return term.AtomText(s)
}

func (b *c02Builder) spend() bool {
	if b.pure || b.fuel <= 0 {
		return false
	}
	b.fuel--
	return true
}

// expr returns Prolog text denoting t; goals needed before it is used are appended to b.goals.
func (b *c02Builder) expr(t *term.Term) string {
	switch t.K {
	case term.KVar:
		return c02VarName(t.I)
	case term.KAtom:
		return b.atomText(t.S)
	case term.KInt, term.KFloat:
		return t.String()
	case term.KCmp:
	default:
		return "'$unsupported'"
	}
	if !b.pure && b.fuel > 0 {
		ground := c02Ground(t)
		k := b.r.Intn(100)
		switch {
		case k < 7 && b.noLate == 0 && b.spend():
			h := b.fresh()
			b.late = append(b.late, c02Late{h, t})
			b.ctors["late_binding"]++
			return h
		case k < 11 && ground && b.spend():
			return b.inject(t)
		case k < 16 && ground && b.spend():
			b.noLate++
			e := b.expr(t)
			b.noLate--
			h := b.fresh()
			b.goals = append(b.goals, fmt.Sprintf("findall(%s, true, [%s])", e, h))
			b.ctors["findall_copy"]++
			return h
		}
	}
	if t.IsList() {
		return b.listExpr(t)
	}
	if !c02TextSafeAtom(t.S) {
		// functor that cannot be written: build through univ with an injected name
		h := b.fresh()
		parts := []string{b.inject(term.A(t.S))}
		for _, a := range t.Args {
			parts = append(parts, b.expr(a))
		}
		b.goals = append(b.goals, fmt.Sprintf("%s =.. [%s]", h, strings.Join(parts, ",")))
		b.ctors["univ_compose"]++
		return h
	}
	args := make([]string, len(t.Args))
	if !b.pure && b.r.Intn(100) < 18 && b.spend() {
		for i, a := range t.Args {
			args[i] = b.expr(a)
		}
		h := b.fresh()
		b.goals = append(b.goals, fmt.Sprintf("%s =.. [%s,%s]", h, term.AtomText(t.S), strings.Join(args, ",")))
		b.ctors["univ_compose"]++
		return h
	}
	for i, a := range t.Args {
		args[i] = b.expr(a)
	}
	return term.AtomText(t.S) + "(" + strings.Join(args, ",") + ")"
}

func (b *c02Builder) bracket(es []*term.Term, tail string) string {
	parts := make([]string, len(es))
	for i, e := range es {
		parts[i] = b.expr(e)
	}
	if tail == "" || tail == "[]" {
		return "[" + strings.Join(parts, ",") + "]"
	}
	if len(parts) == 0 {
		return tail
	}
	return "[" + strings.Join(parts, ",") + "|" + tail + "]"
}

func (b *c02Builder) listExpr(t *term.Term) string {
	es, tail := term.ListElems(t)
	n := len(es)
	proper := tail.IsAtom("[]")
	type opt struct {
		name string
		w    int
	}
	opts := []opt{{"bracket", 30}, {"dot", 12}}
	if _, ok := c02DQText(es, tail, b.dq); ok {
		opts = append(opts, opt{"dq", 60})
	}
	if !b.pure && b.fuel > 0 {
		if proper && c02All(es, c02IsCharAtom) {
			opts = append(opts, opt{"atom_chars", 45})
		}
		if proper && c02All(es, c02IsCode) {
			opts = append(opts, opt{"atom_codes", 45})
		}
		opts = append(opts, opt{"append", 22}, opt{"append_chain", 12}, opt{"univ_cons", 8}, opt{"bar_split", 14})
		if n >= 4 && proper {
			opts = append(opts, opt{"append_chain", 40})
		}
		if proper {
			opts = append(opts, opt{"length", 10})
			if n == 1 && (es[0].K == term.KAtom || es[0].K == term.KInt || es[0].K == term.KFloat) ||
				n >= 2 && es[0].K == term.KAtom && c02TextSafeAtom(es[0].S) {
				opts = append(opts, opt{"univ_decompose", 12})
			}
			if c02Ground(t) {
				opts = append(opts, opt{"findall", 12})
			}
		}
	}
	total := 0
	for _, o := range opts {
		total += o.w
	}
	pick := b.r.Intn(total)
	choice := "bracket"
	for _, o := range opts {
		if pick < o.w {
			choice = o.name
			break
		}
		pick -= o.w
	}
	if choice != "bracket" && choice != "dot" && choice != "dq" {
		b.spend()
	}
	b.ctors[choice]++
	tailText := func() string {
		if proper {
			return "[]"
		}
		return b.expr(tail)
	}
	switch choice {
	case "dot":
		parts := make([]string, n)
		for i, e := range es {
			parts[i] = b.expr(e)
		}
		s := tailText()
		for i := n - 1; i >= 0; i-- {
			s = "'.'(" + parts[i] + "," + s + ")"
		}
		return s
	case "dq":
		s, _ := c02DQText(es, tail, b.dq)
		return s
	case "atom_chars", "atom_codes":
		var sb strings.Builder
		for _, e := range es {
			if choice == "atom_chars" {
				sb.WriteString(e.S)
			} else {
				sb.WriteRune(rune(e.I))
			}
		}
		save := b.dq
		b.dq = "" // the atom itself is written plainly
		a := b.atomText(sb.String())
		b.dq = save
		h := b.fresh()
		b.goals = append(b.goals, fmt.Sprintf("%s(%s, %s)", choice, a, h))
		return h
	case "append":
		k := 1 + b.r.Intn(n)
		b.noLate++ // append/3 needs its first argument now
		p := b.expr(term.L(es[:k]...))
		b.noLate--
		s := b.expr(term.PL(tail, es[k:]...))
		h := b.fresh()
		b.goals = append(b.goals, fmt.Sprintf("append(%s, %s, %s)", p, s, h))
		return h
	case "append_chain":
		// the prefix is itself a result of append/3 or findall/3, and it is extended three times in the same proof:
		// by a decoy, by the wanted rest, by another decoy. A delivered list is a term like any other and stays what it is.
		// (short rests and one-element second parts are preferred: a Go slice that grew by one element has spare room
		// for a short rest, which is when an implementation might be tempted to extend it in place)
		k := 1 + b.r.Intn(n)
		j := b.r.Intn(k + 1)
		plainRest := false
		if n >= 4 && proper && b.r.Intn(4) != 0 {
			// a prefix that grew by one element to k elements has room for k-2 more
			lo := (n + 3) / 2
			k = lo + b.r.Intn(n-lo)
			j = k - 1
			plainRest = b.r.Intn(3) != 0
			b.ctors["append_chain_roomy"]++
		}
		b.noLate++
		h0 := b.fresh()
		if b.r.Intn(3) == 0 {
			// findall/3 copies: the copy is unified with the original elements afterwards
			e := b.fresh()
			l0 := b.bracket(es[:k], "")
			b.goals = append(b.goals, fmt.Sprintf("findall(%s, c02_mem(%s, %s), %s)", e, e, l0, h0))
			if !c02Ground(term.L(es[:k]...)) {
				b.goals = append(b.goals, fmt.Sprintf("%s = %s", h0, l0))
			}
		} else {
			p1 := b.expr(term.L(es[:j]...))
			p2 := b.expr(term.L(es[j:k]...))
			b.goals = append(b.goals, fmt.Sprintf("append(%s, %s, %s)", p1, p2, h0))
		}
		b.noLate--
		var s string
		if plainRest {
			s = b.bracket(es[k:], "")
		} else {
			s = b.expr(term.PL(tail, es[k:]...))
		}
		h := b.fresh()
		b.goals = append(b.goals, fmt.Sprintf("append(%s, [c02_decoy_a], %s)", h0, b.fresh()))
		b.goals = append(b.goals, fmt.Sprintf("append(%s, %s, %s)", h0, s, h))
		b.post = append(b.post, fmt.Sprintf("append(%s, [c02_decoy_b], %s)", h0, b.fresh()))
		b.post = append(b.post, fmt.Sprintf("append(%s, [c02_decoy_c, c02_decoy_d], %s)", h0, b.fresh()))
		return h
	case "univ_cons":
		e := b.expr(es[0])
		rest := b.expr(term.PL(tail, es[1:]...))
		h := b.fresh()
		b.goals = append(b.goals, fmt.Sprintf("%s =.. ['.',%s,%s]", h, e, rest))
		return h
	case "bar_split":
		k := 1 + b.r.Intn(n)
		rest := b.expr(term.PL(tail, es[k:]...))
		return b.bracket(es[:k], rest)
	case "length":
		h := b.fresh()
		b.goals = append(b.goals, fmt.Sprintf("length(%s, %d)", h, n))
		b.goals = append(b.goals, fmt.Sprintf("%s = %s", h, b.bracket(es, "")))
		return h
	case "univ_decompose":
		h := b.fresh()
		var src string
		if n == 1 {
			src = b.expr(es[0])
		} else {
			args := make([]string, n-1)
			for i, e := range es[1:] {
				args[i] = b.expr(e)
			}
			src = term.AtomText(es[0].S) + "(" + strings.Join(args, ",") + ")"
		}
		b.goals = append(b.goals, fmt.Sprintf("%s =.. %s", src, h))
		return h
	case "findall":
		b.noLate++
		l0 := b.bracket(es, "")
		b.noLate--
		h, e := b.fresh(), b.fresh()
		b.goals = append(b.goals, fmt.Sprintf("findall(%s, c02_mem(%s, %s), %s)", e, e, l0, h))
		return h
	}
	return b.bracket(es, tailText())
}

// flush emits the deferred bindings (sub-terms and list tails bound after the enclosing term was built).
func (b *c02Builder) flush() {
	for len(b.late) > 0 {
		l := b.late[0]
		b.late = b.late[1:]
		e := b.expr(l.t)
		b.goals = append(b.goals, l.name+" = "+e)
	}
}

// ---------------------------------------------------------------------------------------------------
// items

type c02Variant struct {
	Kind  string         `json:"kind"` // rep | build
	Desc  string         `json:"desc"`
	Step  int            `json:"step"`
	K     int            `json:"k"`
	Tags  []string       `json:"tags"`
	Used  map[string]int `json:"used,omitempty"`
	Query string         `json:"query,omitempty"`
	Text  int            `json:"text,omitempty"` // step that consulted this variant's text clause (0 = Setup[1])
}

type c02Meta struct {
	Part     string       `json:"part"`
	A        *term.Term   `json:"a,omitempty"`
	B        *term.Term   `json:"b,omitempty"`
	NV       int          `json:"nv,omitempty"`
	Family   string       `json:"family,omitempty"`
	Variants []c02Variant `json:"variants,omitempty"`
	Seed     int64        `json:"seed,omitempty"`
	Steps    int          `json:"steps,omitempty"`
}

var c02DQFlags = []string{"codes", "chars", "atom"}

// c02PairItem builds the item of one abstract pair.
func c02PairItem(a, b *term.Term, nv int, family string, r *rand.Rand, thorough bool) *Item {
	ref := c02NewRef(a, b, nv)
	m := &c02Meta{Part: "A", A: a, B: b, NV: nv, Family: family}
	c := &proto.Case{Kind: "prolog"}
	dq0 := c02DQFlags[r.Intn(3)]
	c.Flags = [][2]string{{"double_quotes", dq0}}
	c.Setup = []string{c02Driver}

	textOK := c02TextSafe(a)
	vl := make([]*term.Term, nv)
	for i := range vl {
		vl[i] = term.V(int64(i))
	}
	textClause := func(pred string, k int, dq string) string {
		tb := &c02Builder{r: r, dq: dq, pure: true, ctors: map[string]int{}}
		at := tb.expr(a)
		at2 := at
		if r.Intn(2) == 0 {
			at2 = tb.expr(a) // the same term written a second way
		}
		return fmt.Sprintf("%s(%d, %s, %s, %s).", pred, k, at, term.Text(term.L(vl...), c02VarName), at2)
	}
	tags := ref.tags(textOK)

	// representation variants: one input each, run by one loop query
	modes := []string{"slice", "cons", "str", "mixed"}
	if thorough {
		modes = append(modes, "mixed", "mixed", "mixed", "mixed")
	}
	seen := map[string]bool{}
	for _, mode := range modes {
		used := map[string]int{}
		ra, rb := c02Rep(a, mode, r, used), c02Rep(b, mode, r, used)
		if mode == "mixed" && r.Intn(3) == 0 {
			// the two sides in different uniform representations
			used = map[string]int{}
			ms := []string{"slice", "cons", "str"}
			ra, rb = c02Rep(a, ms[r.Intn(3)], r, used), c02Rep(b, ms[r.Intn(3)], r, used)
		}
		var aArgs, bArgs []*term.Term
		if ref.split {
			aArgs, bArgs = ra.Args, rb.Args
		}
		k := len(c.Inputs)
		var kb strings.Builder
		c02RepKey(&kb, ra)
		kb.WriteByte('=')
		c02RepKey(&kb, rb)
		if seen[kb.String()] {
			continue
		}
		seen[kb.String()] = true
		c.Inputs = append(c.Inputs, c02Input(tags, ra, rb, aArgs, bArgs, nv))
		m.Variants = append(m.Variants, c02Variant{Kind: "rep", Desc: mode, Step: 0, K: k, Tags: tags, Used: used})
	}
	nrep := len(c.Inputs)
	if textOK {
		var sb strings.Builder
		for k := 0; k < nrep; k++ {
			sb.WriteString(textClause("c02t", k, dq0))
			sb.WriteByte('\n')
		}
		c.Setup = append(c.Setup, sb.String())
	}
	c.Steps = append(c.Steps, proto.Step{Query: fmt.Sprintf("c02_loop(0, %d).", nrep)})

	// constructor-path variants: one query each, under a rotating double_quotes flag
	nb := 2
	if thorough {
		nb = 4
	}
	cur := dq0
	for j := 0; j < nb; j++ {
		dq := c02DQFlags[(r.Intn(3)+j)%3]
		if dq != cur {
			c.Steps = append(c.Steps, proto.Step{Exec: fmt.Sprintf(":- set_prolog_flag(double_quotes, %s).", dq)})
			cur = dq
		}
		k := 100 + j
		pred := fmt.Sprintf("c02t%d", k)
		textStep := 0
		if textOK {
			c.Steps = append(c.Steps, proto.Step{Exec: textClause(pred, k, dq)})
			textStep = len(c.Steps) - 1
		}
		bd := &c02Builder{r: r, dq: dq, ctors: map[string]int{}, fuel: 5, inBase: len(c.Inputs)}
		ta, tb := term.V(c02IdTA), term.V(c02IdTB)
		var aArgs, bArgs []*term.Term
		var bind []string
		if ref.split && c02TextSafeAtom(a.S) {
			// the top-level arguments are built one by one so that the split head can name them
			var an, bn []string
			for i := range a.Args {
				aArgs = append(aArgs, term.V(int64(c02IdTArgs+i)))
				bArgs = append(bArgs, term.V(int64(c02IdTBrgs+i)))
				bind = append(bind, fmt.Sprintf("%s = %s", c02VarName(int64(c02IdTArgs+i)), bd.expr(a.Args[i])))
				bind = append(bind, fmt.Sprintf("%s = %s", c02VarName(int64(c02IdTBrgs+i)), bd.expr(b.Args[i])))
				an = append(an, c02VarName(int64(c02IdTArgs+i)))
				bn = append(bn, c02VarName(int64(c02IdTBrgs+i)))
			}
			bind = append(bind, fmt.Sprintf("%s = %s(%s)", c02VarName(c02IdTA), term.AtomText(a.S), strings.Join(an, ",")))
			bind = append(bind, fmt.Sprintf("%s = %s(%s)", c02VarName(c02IdTB), term.AtomText(b.S), strings.Join(bn, ",")))
		}
		vtags := tags
		if bind == nil {
			if ref.split {
				vtags = nil
				for _, t := range tags {
					if t != "hs" && t != "hr" {
						vtags = append(vtags, t)
					}
				}
			}
			bind = append(bind, fmt.Sprintf("%s = %s", c02VarName(c02IdTA), bd.expr(a)))
			bind = append(bind, fmt.Sprintf("%s = %s", c02VarName(c02IdTB), bd.expr(b)))
		}
		goals := append(append([]string{}, bd.goals...), bind...)
		bd.goals = nil
		bd.flush()
		goals = append(goals, bd.goals...)
		in := c02Input(vtags, ta, tb, aArgs, bArgs, nv)
		argText := make([]string, len(in.Args))
		for i, x := range in.Args {
			argText[i] = term.Text(x, c02VarName)
		}
		vsText := term.Text(term.L(vl...), c02VarName)
		// One plain conjunction: nothing built here passes through call/N (which would re-build, i.e.
		// normalise, the terms); the catch/3 is entered while every variable is still unbound.
		again := ""
		if len(bd.post) > 0 {
			// the same list prefixes are extended again by other goals; the built pair must still be what it was
			again = fmt.Sprintf(", %s, verif_out(built2, t(%d, %s, %s, %s))", strings.Join(bd.post, ", "), k, c02VarName(c02IdTA), c02VarName(c02IdTB), vsText)
		}
		q := fmt.Sprintf("catch((%s, verif_out(built, t(%d, %s, %s, %s))%s, c02_variant(%s, %d, %s)), E, verif_out(err, e(%d, E))), fail.",
			strings.Join(goals, ", "), k, c02VarName(c02IdTA), c02VarName(c02IdTB), vsText, again, argText[0], k, strings.Join(argText[1:], ", "), k)
		c.Inputs = append(c.Inputs, bd.inputs...)
		c.Steps = append(c.Steps, proto.Step{Query: q})
		used := map[string]int{}
		for n, v := range bd.ctors {
			used["ctor_"+n] = v
		}
		used["dq_"+dq]++
		m.Variants = append(m.Variants, c02Variant{Kind: "build", Desc: "built in Prolog (double_quotes=" + dq + ")", Step: len(c.Steps) - 1, K: k, Tags: vtags, Used: used, Query: q, Text: textStep})
	}
	meta, _ := json.Marshal(m)
	return &Item{Cases: []*proto.Case{c}, Meta: meta, Note: a.String() + " = " + b.String()}
}

const c02ChunkPairs = 4000

func (c *c02) sizes(cx *Ctx) (pairs, envCases, envSteps int) {
	if cx.Thorough() {
		return 120000, 100, 10000
	}
	return 8000, 20, 1000
}

// fixed pairs that must always be part of the run (witnesses and classic cases)
var c02Fixed = [][2]string{
	{"f(X, b)", "f(a, Y)"},
	{"f(X, X)", "f(a, b)"},
	{"f(X, Y, Z)", "f(Y, Z, a)"},
	{"f(X, g(X))", "f(Y, Y)"},
	{"X", "f(X)"},
	{"f(X, a)", "f(g(X), b)"},
	{"[a, b, c]", "[a, b | T]"},
	{"[a, b | T]", "[a | U]"},
	{"[H | T]", "[]"},
	{"g([a | T], T)", "g(L, [b])"},
	{"f(a)", "f(a, b)"},
	{"f(A, B, C, D)", "f(g(B, B), g(C, C), g(D, D), x)"},
	{"[X, Y, X]", "[Y, Z, a]"},
	{"p([a, b], 1)", "p([a | X], Y)"},
	{"foo", "foo"},
	{"[]", "'[]'"},
	// closed lists of a fixed length against texts with multi-byte characters (their length in bytes differs from their length)
	{"[X, 'é']", "[a, 'é']"},
	{"[X, Y, Z]", "['日', '本', '語']"},
	{"[X, 233]", "[97, 233]"},
	{"[X, '😀']", "[a, '😀']"},
	{"['é', X]", "['é', b]"},
	{"[A, B]", "['é', 'é']"},
	{"[A, B, C]", "['é', a]"},
	{"f([X, 'é'])", "f([a, 'é'])"},
	{"[X, 'é', Y]", "[h, 'é', l]"},
	{"[X, 26085, Y]", "[26085, 26085, 26412]"},
}

// c02Small is a small universe of terms; ALL ordered pairs over it are part of every run.
var c02Small = []string{"X", "Y", "a", "1", "f(X)", "f(a)", "g(X)", "f(X, Y)", "f(Y, X)", "f(X, X)", "f(a, Y)", "f(Y, g(X))",
	"[]", "[X]", "[a]", "[X | Y]", "[a | Y]", "[a, b]", "[X, Y]", "[X, X | Y]"}

func c02ParsePair(a, b string) (*term.Term, *term.Term, int) {
	both, _, err := term.ParseTerm("t(" + a + ", " + b + ")")
	if err != nil {
		panic(a + " / " + b + ": " + err.Error())
	}
	cn := term.Canon(both.Args[0], both.Args[1])
	return cn[0], cn[1], len(term.VarsOf(cn[0], cn[1]))
}

func (c *c02) Generate(cx *Ctx, chunk int) []*Item {
	pairs, envCases, envSteps := c.sizes(cx)
	nchunks := (pairs + c02ChunkPairs - 1) / c02ChunkPairs
	if chunk > nchunks {
		return nil
	}
	if chunk == nchunks {
		// Part B
		if cx.Worker != nil && !cx.Worker.Hooks {
			cx.Note("Part B (environment persistence) skipped: the tree under test does not build with the verif hooks")
			return []*Item{}
		}
		var items []*Item
		for i := 0; i < envCases; i++ {
			seed := cx.Rng(fmt.Sprintf("c02/env/%d", i)).Int63()
			p, _ := json.Marshal(map[string]interface{}{"seed": seed, "steps": envSteps})
			meta, _ := json.Marshal(&c02Meta{Part: "B", Seed: seed, Steps: envSteps})
			items = append(items, &Item{Cases: []*proto.Case{{Kind: "envdriver", P: p}}, Meta: meta, Note: "environment persistence driver"})
		}
		return items
	}
	var items []*Item
	lo, hi := chunk*c02ChunkPairs, (chunk+1)*c02ChunkPairs
	if hi > pairs {
		hi = pairs
	}
	for i := lo; i < hi; i++ {
		r := cx.Rng(fmt.Sprintf("c02/pair/%d", i))
		if i < len(c02Fixed)*2 {
			f := c02Fixed[i%len(c02Fixed)]
			if i >= len(c02Fixed) {
				f[0], f[1] = f[1], f[0]
			}
			a, b, nv := c02ParsePair(f[0], f[1])
			items = append(items, c02PairItem(a, b, nv, "fixed", r, cx.Thorough()))
			continue
		}
		if j := i - len(c02Fixed)*2; j < len(c02Small)*len(c02Small) {
			a, b, nv := c02ParsePair(c02Small[j/len(c02Small)], c02Small[j%len(c02Small)])
			items = append(items, c02PairItem(a, b, nv, "small_universe_all_pairs", r, cx.Thorough()))
			continue
		}
		a, b, nv, family := c02GenPair(r)
		items = append(items, c02PairItem(a, b, nv, family, r, cx.Thorough()))
	}
	return items
}

// ---------------------------------------------------------------------------------------------------
// judge

type c02Obs struct {
	yes  bool
	same string
	list []*term.Term // elements of the observed list
	raw  *term.Term
}

func c02AllDistinctVars(ts []*term.Term) bool {
	seen := map[int64]bool{}
	for _, t := range ts {
		if t.K != term.KVar || seen[t.I] {
			return false
		}
		seen[t.I] = true
	}
	return true
}

func c02TupleText(ts []*term.Term) string {
	c := term.Canon(ts...)
	parts := make([]string, len(c))
	for i, t := range c {
		parts[i] = t.String()
	}
	return "(" + strings.Join(parts, ", ") + ")"
}

func (c *c02) Judge(cx *Ctx, it *Item, outs []*run.Outcome) Verdict {
	var m c02Meta
	if err := decodeMeta(it, &m); err != nil {
		return Verdict{Status: Inconclusive, Msg: err.Error()}
	}
	o := outs[0]
	if o.Crash != nil {
		if o.Crash.Hung {
			return Verdict{Status: Inconclusive, Msg: "watchdog fired (wall clock) — no logical evidence"}
		}
		// Neither part can legitimately kill the process (finite terms; no pair that may be subject to occurs
		// check is unified without one). A Go panic or a stack overflow in the worker is therefore caused by
		// the case; a death without such a trace (e.g. killed from outside) proves nothing.
		st := o.Crash.Stderr
		if strings.Contains(st, "goroutine ") && (strings.Contains(st, "panic:") || strings.Contains(st, "fatal error:") || strings.Contains(st, "stack overflow") || strings.Contains(st, "goroutine stack exceeds")) {
			return Verdict{Status: Violated, Msg: "worker process died (" + o.Crash.Exit + ") while unifying finite terms: " + oneLine(firstLines(st, 6)) + " | " + it.Note}
		}
		return Verdict{Status: Inconclusive, Msg: "worker process died without a Go trace: " + o.Crash.Exit}
	}
	if o.Res.Fatal != "" {
		return Verdict{Status: Inconclusive, Msg: "worker: " + o.Res.Fatal}
	}
	if m.Part == "B" {
		return c.judgeEnv(&m, o)
	}
	return c.judgePair(&m, o)
}

func (c *c02) judgePair(m *c02Meta, o *run.Outcome) Verdict {
	ref := c02NewRef(m.A, m.B, m.NV)
	pairText := m.A.String() + "  =  " + m.B.String()
	v := Verdict{Key: "pair:" + pairText, Extra: map[string]int64{}}
	if ref.selfTest != "" {
		return Verdict{Status: Inconclusive, Msg: "oracle self-test: " + ref.selfTest + " | " + pairText}
	}
	res := o.Res
	if len(res.Setup) == 0 || res.Setup[0] != nil {
		return Verdict{Status: Inconclusive, Msg: "driver did not load"}
	}
	textLoaded := true
	for i := 1; i < len(res.Setup); i++ {
		if res.Setup[i] != nil {
			textLoaded = false
		}
	}
	// classification of the pair
	v.Extra["pairs"] = 1
	v.Extra["family_"+m.Family] = 1
	switch {
	case ref.res == term.Unifiable:
		v.Extra["pairs_unifiable"] = 1
		bound := 0
		for i := range ref.vs {
			if _, ok := ref.sigma[int64(i)]; ok {
				bound++
			}
		}
		v.NonTrivial = m.A.K == term.KCmp && m.B.K == term.KCmp && bound >= 1
	case ref.res == term.STO:
		v.Extra["pairs_occurs_check_trip"] = 1
		v.Extra["not_asserted_for_eq_sto"] = 1
		v.NonTrivial = false
	default:
		if ref.psto {
			v.Extra["not_asserted_for_eq_possibly_sto"] = 1
		}
		v.Extra["pairs_not_unifiable"] = 1
		v.NonTrivial = m.A.K == term.KCmp && m.B.K == term.KCmp && m.A.S == m.B.S && len(m.A.Args) == len(m.B.Args)
	}
	if ref.res == term.STO {
		// an occurs-check trip below the root is a failing pair for unify_with_occurs_check/2
		v.NonTrivial = m.A.K == term.KCmp && m.B.K == term.KCmp && m.A.S == m.B.S && len(m.A.Args) == len(m.B.Args)
	}

	expSummary := map[string]interface{}{}
	switch ref.res {
	case term.Unifiable:
		expSummary["unify"] = "succeeds"
		expSummary["variables_after"] = c02TupleText(ref.applyAll(ref.sigma, ref.vs))
	case term.STO:
		expSummary["unify"] = "subject to occurs check: =/2 not asserted, unify_with_occurs_check/2 fails"
	default:
		expSummary["unify"] = "fails, all variables stay unbound"
		if ref.psto {
			expSummary["unify"] = "no finite unifier; possibly subject to occurs check: =/2 not asserted, unify_with_occurs_check/2 fails"
		}
	}
	obsSummary := map[string]interface{}{}
	var problems []string
	inconclusive := ""
	status := Held

	for vi := range m.Variants {
		va := &m.Variants[vi]
		if va.Step >= len(res.Steps) {
			inconclusive = "step missing"
			continue
		}
		st := res.Steps[va.Step]
		if st.BudgetHit {
			inconclusive = "step budget exhausted in variant " + va.Desc
			continue
		}
		// collect this variant's events
		obs := map[string]*c02Obs{}
		dup := ""
		built, built2 := (*term.Term)(nil), (*term.Term)(nil)
		var verr *term.Term // error that ended this variant's run
		for _, e := range st.Events {
			if e.T == nil {
				continue
			}
			switch e.Tag {
			case "built":
				if e.T.IsCmp("t", 4) && e.T.Args[0].K == term.KInt && int(e.T.Args[0].I) == va.K {
					built = e.T
				}
				continue
			case "built2":
				if e.T.IsCmp("t", 4) && e.T.Args[0].K == term.KInt && int(e.T.Args[0].I) == va.K {
					built2 = e.T
				}
				continue
			}
			t := e.T
			if t.K != term.KCmp || t.Args[0].K != term.KInt || int(t.Args[0].I) != va.K {
				continue
			}
			ob := &c02Obs{raw: t}
			tag := e.Tag
			switch {
			case e.Tag == "err" && t.IsCmp("e", 2):
				verr = t.Args[1]
				continue
			case t.IsCmp("y", 3):
				ob.yes = true
				ob.same = t.Args[1].S
				ob.list, _ = term.ListElems(t.Args[2])
				if tag == "cp" {
					ob.list = []*term.Term{t.Args[2]}
				}
			case t.IsCmp("n", 2):
				ob.list, _ = term.ListElems(t.Args[1])
			default:
				continue
			}
			if _, ok := obs[tag]; ok {
				dup = tag
			}
			obs[tag] = ob
		}
		if va.Kind == "build" {
			if st.Err != nil {
				inconclusive = fmt.Sprintf("constructor path raised %s | %s", st.Err.Text, va.Query)
				v.Extra["builder_error"]++
				continue
			}
			if built == nil && verr != nil {
				inconclusive = fmt.Sprintf("constructor path raised %s | %s", verr, va.Query)
				v.Extra["builder_error"]++
				continue
			}
			if built == nil {
				inconclusive = "constructor path failed | " + va.Query
				v.Extra["builder_failed"]++
				continue
			}
			gotVs, _ := term.ListElems(built.Args[3])
			got := append([]*term.Term{built.Args[1], built.Args[2]}, gotVs...)
			want := append([]*term.Term{m.A, m.B}, ref.vs...)
			if !term.VariantAll(got, want) {
				inconclusive = fmt.Sprintf("constructor path built %s and %s instead of the intended pair | %s", built.Args[1], built.Args[2], va.Query)
				v.Extra["builder_mismatch"]++
				continue
			}
			if built2 != nil {
				v.Extra["built_pairs_observed_again_after_more_appends"]++
				got2Vs, _ := term.ListElems(built2.Args[3])
				got2 := append([]*term.Term{built2.Args[1], built2.Args[2]}, got2Vs...)
				if !term.VariantAll(got2, want) {
					problems = append(problems, fmt.Sprintf("[%s] the built terms were %s and %s; after further append/3 goals on other variables (no goal unifies them with anything) they are %s and %s | %s",
						va.Desc, built.Args[1], built.Args[2], built2.Args[1], built2.Args[2], va.Query))
					continue
				}
			} else if strings.Contains(va.Query, "verif_out(built2,") {
				problems = append(problems, fmt.Sprintf("[%s] the goals after the first observation of the built pair did not succeed (they only extend lists into fresh variables) | %s", va.Desc, va.Query))
				continue
			}
		} else if st.Err != nil {
			problems = append(problems, fmt.Sprintf("[%s] the driver query raised %s", va.Desc, st.Err.Text))
			continue
		}
		v.Extra["variants_run"]++
		for n, k := range va.Used {
			v.Extra[n] += int64(k)
		}
		if dup != "" {
			inconclusive = fmt.Sprintf("[%s] observation %s was logged twice", va.Desc, dup)
			continue
		}
		vsum := map[string]string{}
		for _, tag := range va.Tags {
			if tag == "tx" && (va.Text == 0 && !textLoaded || va.Text > 0 && res.Steps[va.Text].Err != nil) {
				v.Extra["text_clause_not_loaded"]++
				continue
			}
			exp := ref.expect(tag)
			if exp.skip {
				continue
			}
			ob := obs[tag]
			v.Extra["obs_"+tag]++
			fail := func(format string, args ...interface{}) {
				problems = append(problems, fmt.Sprintf("[%s] %s: ", va.Desc, c02TagText(tag))+fmt.Sprintf(format, args...))
			}
			if ob == nil && verr != nil {
				// the run of this variant ended here with an error; the later observations did not happen
				vsum[tag] = "error " + verr.String()
				fail("raised %s", verr.String())
				break
			}
			if ob == nil {
				fail("no outcome was logged")
				continue
			}
			if ob.yes {
				vsum[tag] = "yes " + c02TupleText(ob.list)
			} else {
				vsum[tag] = "no " + c02TupleText(ob.list)
			}
			switch {
			case exp.copy:
				pair := ob.list[0] // [X|Y]
				if !pair.IsCmp(".", 2) {
					fail("malformed observation %s", ob.raw)
					continue
				}
				x, y := pair.Args[0], pair.Args[1]
				shared := false
				xv := map[int64]bool{}
				for _, id := range term.VarsOf(x) {
					xv[id] = true
				}
				for _, id := range term.VarsOf(y) {
					if xv[id] {
						shared = true
					}
				}
				switch {
				case !term.Variant(x, term.C("t", m.A, m.B)):
					fail("the original was changed to %s", x)
				case !term.Variant(x, y):
					fail("copy %s is not a variant of %s", y, x)
				case shared:
					fail("copy %s shares a variable with the original %s", y, x)
				}
			case exp.yes && !ob.yes:
				fail("expected success with variables %s, observed failure", c02TupleText(exp.tupleOr(ob.list)))
			case !exp.yes && ob.yes:
				fail("expected failure, observed success with variables %s", c02TupleText(ob.list))
			case !exp.yes:
				if !c02AllDistinctVars(ob.list) {
					fail("after the failed attempt the variables are %s: a binding made during the attempt is observable", c02TupleText(ob.list))
				}
			case exp.unbound:
				if !c02AllDistinctVars(ob.list) {
					fail("succeeded but left bindings: %s", c02TupleText(ob.list))
				}
			default:
				if ob.same != "same" {
					fail("after success the two terms are not identical (==)")
				}
				if !term.VariantAll(ob.list, exp.tuple) {
					fail("after success the variables are %s, the most general unifier gives %s", c02TupleText(ob.list), c02TupleText(exp.tuple))
				}
			}
		}
		if vi == 0 || len(obsSummary) == 0 {
			obsSummary[va.Desc] = vsum
		}
	}
	v.Sample = map[string]interface{}{"a": m.A.String(), "b": m.B.String(), "expected": expSummary, "observed": obsSummary, "variants": len(m.Variants)}
	if len(problems) > 0 {
		status = Violated
		n := len(problems)
		if n > 4 {
			problems = append(problems[:4], fmt.Sprintf("(+%d more)", n-4))
		}
		v.Msg = fmt.Sprintf("%s | pair: %s | %s", problems[0], pairText, strings.Join(problems[1:], " ; "))
		v.Sample.(map[string]interface{})["problems"] = problems
	} else if inconclusive != "" {
		status = Inconclusive
		v.Msg = inconclusive + " | pair: " + pairText
	}
	v.Status = status
	return v
}

func (e c02Exp) tupleOr(d []*term.Term) []*term.Term {
	if e.tuple != nil {
		return e.tuple
	}
	return d
}

func c02TagText(tag string) string {
	switch tag {
	case "eq":
		return "A = B"
	case "qe":
		return "B = A"
	case "pf":
		return "f(A, x) = f(B, y)"
	case "oc":
		return "unify_with_occurs_check(A, B)"
	case "hd":
		return "assertz(h(A)), h(B)"
	case "h1":
		return "assertz(h1(A, k)), h1(B, k) (the terms are the FIRST argument)"
	case "hs":
		return "assertz(h(A1..An)), h(B1..Bn)"
	case "hr":
		return "assertz(h(An..A1)), h(Bn..B1)"
	case "hp":
		return "assertz(h(A, x)), h(B, y)"
	case "tx":
		return "consulted 'h(A).', h(B)"
	case "sb":
		return "subsumes_term(A, B)"
	case "bs":
		return "subsumes_term(B, A)"
	case "cp":
		return "copy_term(t(A, B), C)"
	}
	return tag
}

// ---------------------------------------------------------------------------------------------------
// Part B

type c02EnvReport struct {
	Steps          int    `json:"steps"`
	Successes      int    `json:"successes"`
	Failures       int    `json:"failures"`
	SkippedCyclic  int    `json:"skipped_cyclic"`
	EnvsCreated    int    `json:"envs_created"`
	RetainedMax    int    `json:"retained_max"`
	MaxSize        int    `json:"max_size"`
	MaxBlackHeight int    `json:"max_black_height"`
	Checks         int64  `json:"checks"`
	Problem        string `json:"problem"`
	ProblemStep    int    `json:"problem_step"`
	// report only: red-red edges / unequal black heights / red root among the environments created. The
	// property does not speak about balance (it costs time, not correctness), so these never make a verdict.
	BalanceAnomalies int    `json:"balance_anomalies"`
	FirstAnomaly     string `json:"first_anomaly,omitempty"`
}

func (c *c02) judgeEnv(m *c02Meta, o *run.Outcome) Verdict {
	var r c02EnvReport
	if err := json.Unmarshal(o.Res.R, &r); err != nil {
		return Verdict{Status: Inconclusive, Msg: "envdriver report: " + err.Error()}
	}
	v := Verdict{Key: fmt.Sprintf("env:%d:%d", m.Seed, m.Steps), Extra: map[string]int64{
		"env_steps": int64(r.Steps), "env_unify_successes": int64(r.Successes), "env_unify_failures": int64(r.Failures),
		"env_steps_skipped_would_be_cyclic": int64(r.SkippedCyclic), "env_created": int64(r.EnvsCreated), "env_checks": r.Checks,
		"env_balance_anomalies_not_asserted": int64(r.BalanceAnomalies),
	}}
	v.NonTrivial = r.Successes >= 100 && r.RetainedMax >= 8 && r.MaxSize >= 16
	v.Sample = map[string]interface{}{"env_driver_seed": m.Seed, "expected": "every retained environment keeps its invariants and its bindings", "observed": r}
	if r.Problem != "" {
		v.Status = Violated
		v.Msg = fmt.Sprintf("environment persistence: %s (step %d of driver seed %d)", r.Problem, r.ProblemStep, m.Seed)
		return v
	}
	if r.Steps < m.Steps {
		return Verdict{Status: Inconclusive, Msg: "envdriver ended early"}
	}
	return v
}
