package main

// C16 — relational built-ins enumerate exactly their relation in every call mode.
//
// For every predicate under test the controller holds a small exact model of the mathematical relation
// (c16Cands): given the argument terms of a call (each a concrete term, a variable, or a partially
// instantiated term) it lists the most general tuples of the relation that can match; unifying the call's
// argument tuple with each of them (term.Unify, with occurs check) gives the expected answers. Text is
// handled as []rune, never as bytes. The engine executes the same calls (arguments injected as terms via
// verif_in/2: no parser or writer involved) and reports the instantiated argument tuple of every solution.
// Oracle 1: multiset of observed tuples == multiset of expected tuples (variables renamed canonically per
// tuple; order free). Oracle 2 (subset law, metamorphic, model-free): whenever the arguments of call B are
// an instance of the arguments of call A, answers(B) == { mgu(a, B) | a in answers(A) } as multisets.

import (
	"encoding/json"
	"fmt"
	"math"
	"math/rand"
	"os"
	"regexp"
	"runtime"
	"sort"
	"strconv"
	"strings"
	"sync"
	"unicode"
	"unicode/utf8"

	"verif/internal/proto"
	"verif/internal/run"
	"verif/internal/term"
)

func init() { checks["C16"] = func() Check { return &c16{} } }

type c16 struct {
	mu    sync.Mutex
	modes map[string]map[string]int // predicate → instantiation pattern → calls generated
}

func (*c16) ID() string    { return "C16" }
func (*c16) Level() string { return "exploration" }
func (*c16) Rule() string {
	return "scenario = predicate + per-argument choice lists (unbound variable; the value of a tuple of the relation; non-matching values incl. byte-offset decoys; partially instantiated forms: lists with variable elements, partial lists, improper lists); calls = product of the choices (core = all 2^n bound/unbound patterns, the rest sampled when the product is large) plus variants where two unbound arguments are one variable; a call is kept when it is inside the predicate's modes. Families: 'exhaustive' (both tiers) = every atom of <=3 characters over {a,b,é} and every list of <=3 elements over {a,b,c}, with every tuple of the relation and every instantiation pattern the modes admit (atom_length, atom_concat, sub_atom, atom_chars, atom_codes, append, length, nth0, nth1, member, select), every between/3 range within -3..3, succ/2 on 0..6, char_code/2 on 18 characters of all UTF-8 widths, functor/arg/=.. on 24 fixed terms; 'limits' = integers at +-2^63, 2^31, 2^32 and around 0 for between, succ, nth0, nth1, arg, atom_length, length, sub_atom, char_code; 'gray' = no tuple exists and the standard demands or allows an error (error and failure accepted, an answer is a violation); 'replacement_character' = text containing U+FFFD; 'sampled' (seeded) = atoms of 0-5 characters over {a,b,é,😀,' '}, lists of 0-5 elements with duplicates, compound, list and variable elements, random compound terms, ranges near the integer limits. Every call is sent with a seeded engine representation of its list arguments (slice, cons cells, char list, code list) and either directly or with every argument bound through a variable first. Infinite relations (append/3, length/2, member/2 with partial lists) are stopped after 5 answers and compared as a set with the 5 smallest tuples. Non-trivial call: the relation restricted to the call has >=2 tuples, or (text predicates) an argument or answer contains a multi-byte character; an item (scenario) is non-trivial if one of its calls is; distinct by scenario hash."
}
func (*c16) Assumptions() []string {
	return []string{
		"the worker's term conversion (verif_in/verif_out) is faithful; call/1, ','/2, =/2, ->/2 and fail/0 work (properties C01-C04)",
		"asserted modes: atom_length(+atom,?nat) atom_concat(?,?,+atom)|(+atom,+atom,-) sub_atom(+atom,?nat,?nat,?nat,?atom) atom_chars/atom_codes(+atom,?list-or-partial-list)|(-,+list) char_code(+char,?int)|(-,+code) functor(+nonvar,?atomic,?int)|(-,+atomic,+nat) arg(+nat,+compound,?) =..(+nonvar,?list-or-partial-list)|(-,+list) append(?,?,?) length(?,?nat) between(+int,+int,?int) nth0/nth1(?int,+list,?) member(?,?) select(?,+list,?)|(?,?,+list) succ(+nat,?nat)|(-,+nat); calls outside are not generated (errors are C05's subject); arg/3 with unbound N is outside (this engine raises instantiation_error, as ISO says)",
		"inside the modes an error is a violation unless no tuple exists and the standard demands or allows an error there (succ(max_int,S), X =.. [foo(a)], X =.. [], functor(T,foo(a),0), functor(T,1,2), nth0(-1,L,E), length([a|b],N)): then error and failure are both accepted and only an answer is a violation",
		"calls for which some order of the unification steps is subject to occurs check (ISO 7.3.3) are skipped: decided conservatively by a congruence closure of the equations followed by a cycle test",
		"for infinite relations the enumeration order by increasing list length is assumed (the order of the textbook definitions and the only fair one); only the set of the first 5 answers is compared",
		"a worker process death (e.g. Go stack overflow) is reported as inconclusive: the property is about answers; engine panics that the engine recovers into errors are judged as errors",
	}
}

// ---------------------------------------------------------------------------------------------------
// small term helpers

func c16IsVar(t *term.Term) bool  { return t.K == term.KVar }
func c16IsAtom(t *term.Term) bool { return t.K == term.KAtom }
func c16IsInt(t *term.Term) bool  { return t.K == term.KInt }
func c16IsNat(t *term.Term) bool  { return t.K == term.KInt && t.I >= 0 }
func c16Atomic(t *term.Term) bool {
	return t.K == term.KAtom || t.K == term.KInt || t.K == term.KFloat
}
func c16VarOr(t *term.Term, f func(*term.Term) bool) bool { return c16IsVar(t) || f(t) }

func c16Atom(rs []rune) *term.Term { return term.A(string(rs)) }

type c16Fresh struct{ n int64 }

const c16FreshBase = int64(1) << 40

func (f *c16Fresh) v() *term.Term { f.n++; return term.V(c16FreshBase + f.n) }
func (f *c16Fresh) vs(n int) []*term.Term {
	out := make([]*term.Term, n)
	for i := range out {
		out[i] = f.v()
	}
	return out
}

func c16Cat(parts ...[]*term.Term) []*term.Term {
	var out []*term.Term
	for _, p := range parts {
		out = append(out, p...)
	}
	return out
}

func c16Occurs(v *term.Term, t *term.Term) bool {
	for _, id := range term.VarsOf(t) {
		if id == v.I {
			return true
		}
	}
	return false
}

// ---------------------------------------------------------------------------------------------------
// the model: candidate tuples of each relation

type c16Status struct {
	Mode bool // the call is inside the asserted modes
	Inf  bool // infinitely many candidates: only the first ones (by size) are listed
	Gray bool // no tuple exists and ISO demands an error here: error or failure accepted
}

var (
	c16Out  = c16Status{}
	c16In   = c16Status{Mode: true}
	c16Gray = c16Status{Mode: true, Gray: true}
)

// c16Cands lists, for a call pred(a...), the most general tuples of the relation that can match the call
// (all of them, or the first lim by size when there are infinitely many). The definitions are the
// mathematical ones: concatenation / sub-sequence of rune sequences, list concatenation, element at an
// index, integer intervals; nothing here looks at how the engine computes them.
func c16Cands(pred string, a []*term.Term, fr *c16Fresh, lim int) ([][]*term.Term, c16Status) {
	var cs [][]*term.Term
	add := func(ts ...*term.Term) { cs = append(cs, ts) }
	switch pred {
	case "atom_length":
		if !c16IsAtom(a[0]) || !c16VarOr(a[1], c16IsNat) {
			return nil, c16Out
		}
		add(a[0], term.I(int64(len([]rune(a[0].S)))))
	case "atom_concat":
		switch {
		case c16IsAtom(a[2]):
			if !c16VarOr(a[0], c16IsAtom) || !c16VarOr(a[1], c16IsAtom) {
				return nil, c16Out
			}
			z := []rune(a[2].S)
			for i := 0; i <= len(z); i++ {
				add(c16Atom(z[:i]), c16Atom(z[i:]), a[2])
			}
		case c16IsVar(a[2]):
			if !c16IsAtom(a[0]) || !c16IsAtom(a[1]) {
				return nil, c16Out
			}
			add(a[0], a[1], term.A(a[0].S+a[1].S))
		default:
			return nil, c16Out
		}
	case "sub_atom":
		if !c16IsAtom(a[0]) || !c16VarOr(a[1], c16IsNat) || !c16VarOr(a[2], c16IsNat) || !c16VarOr(a[3], c16IsNat) || !c16VarOr(a[4], c16IsAtom) {
			return nil, c16Out
		}
		rs := []rune(a[0].S)
		n := len(rs)
		for i := 0; i <= n; i++ {
			for j := i; j <= n; j++ {
				add(a[0], term.I(int64(i)), term.I(int64(j-i)), term.I(int64(n-j)), c16Atom(rs[i:j]))
			}
		}
	case "atom_chars", "atom_codes":
		chars := pred == "atom_chars"
		mk := func(r rune) *term.Term {
			if chars {
				return term.A(string(r))
			}
			return term.I(int64(r))
		}
		elem := func(e *term.Term) (rune, bool) {
			if chars {
				if rs := []rune(e.S); e.K == term.KAtom && len(rs) == 1 {
					return rs[0], true
				}
				return 0, false
			}
			if e.K == term.KInt && e.I > 0 && e.I <= utf8.MaxRune && utf8.ValidRune(rune(e.I)) {
				return rune(e.I), true
			}
			return 0, false
		}
		es, tail := term.ListElems(a[1])
		switch {
		case c16IsAtom(a[0]):
			if !tail.IsAtom("[]") && !c16IsVar(tail) {
				return nil, c16Out
			}
			for _, e := range es {
				if _, ok := elem(e); !ok && !c16IsVar(e) {
					return nil, c16Out
				}
			}
			var l []*term.Term
			for _, r := range a[0].S {
				l = append(l, mk(r))
			}
			add(a[0], term.L(l...))
		case c16IsVar(a[0]):
			if !tail.IsAtom("[]") {
				return nil, c16Out
			}
			var rs []rune
			for _, e := range es {
				r, ok := elem(e)
				if !ok && !chars && e.K == term.KInt {
					return nil, c16Gray // an integer that is not a character code: representation_error(character_code)
				}
				if !ok {
					return nil, c16Out
				}
				rs = append(rs, r)
			}
			add(c16Atom(rs), a[1])
		default:
			return nil, c16Out
		}
	case "char_code":
		switch {
		case c16IsAtom(a[0]):
			rs := []rune(a[0].S)
			if len(rs) != 1 || !c16VarOr(a[1], c16IsInt) {
				return nil, c16Out
			}
			add(a[0], term.I(int64(rs[0])))
		case c16IsVar(a[0]):
			if c16IsInt(a[1]) && (a[1].I < 0 || a[1].I > utf8.MaxRune || !utf8.ValidRune(rune(a[1].I))) {
				return nil, c16Gray // an integer that is not a character code: representation_error(character_code)
			}
			if !c16IsInt(a[1]) || a[1].I <= 0 {
				return nil, c16Out
			}
			add(term.A(string(rune(a[1].I))), a[1])
		default:
			return nil, c16Out
		}
	case "functor":
		t := a[0]
		if !c16IsVar(t) {
			if !c16VarOr(a[1], c16Atomic) || !c16VarOr(a[2], c16IsInt) {
				return nil, c16Out
			}
			if t.K == term.KCmp {
				add(t, term.A(t.S), term.I(int64(len(t.Args))))
			} else {
				add(t, t, term.I(0))
			}
			break
		}
		if !c16IsNat(a[2]) || a[2].I > 16 || c16IsVar(a[1]) {
			return nil, c16Out
		}
		n := int(a[2].I)
		switch {
		case n == 0 && c16Atomic(a[1]):
			add(a[1], a[1], a[2])
		case n > 0 && c16IsAtom(a[1]):
			add(term.C(a[1].S, fr.vs(n)...), a[1], a[2])
		default: // compound name, or a number as the name of a compound: type_error
			return nil, c16Gray
		}
	case "arg":
		if !c16IsNat(a[0]) || a[1].K != term.KCmp {
			return nil, c16Out
		}
		for i, x := range a[1].Args {
			add(term.I(int64(i+1)), a[1], x)
		}
	case "=..":
		t := a[0]
		es, tail := term.ListElems(a[1])
		if !c16IsVar(t) {
			if !tail.IsAtom("[]") && !c16IsVar(tail) {
				return nil, c16Out
			}
			if len(es) > 0 && !c16VarOr(es[0], c16Atomic) {
				return nil, c16Out
			}
			if t.K == term.KCmp {
				add(t, term.L(c16Cat([]*term.Term{term.A(t.S)}, t.Args)...))
			} else {
				add(t, term.L(t))
			}
			break
		}
		if !tail.IsAtom("[]") {
			return nil, c16Out
		}
		switch {
		case len(es) == 0:
			return nil, c16Gray // domain_error(non_empty_list, [])
		case c16IsVar(es[0]):
			return nil, c16Out
		case len(es) == 1 && c16Atomic(es[0]):
			add(es[0], a[1])
		case len(es) > 1 && c16IsAtom(es[0]):
			add(&term.Term{K: term.KCmp, S: es[0].S, Args: es[1:]}, a[1])
		default:
			return nil, c16Gray // type_error(atomic, foo(a)) / type_error(atom, 1)
		}
	case "append":
		xs, xt := term.ListElems(a[0])
		zs, zt := term.ListElems(a[2])
		switch {
		case xt.IsAtom("[]"):
			t := fr.v()
			add(a[0], t, term.PL(t, xs...))
		case zt.IsAtom("[]"):
			for i := 0; i <= len(zs); i++ {
				add(term.L(zs[:i]...), term.L(zs[i:]...), a[2])
			}
		case !c16IsVar(xt):
			// the first argument is not a list and cannot become one: no tuple
		default:
			for i := 0; i < lim; i++ {
				vs, t := fr.vs(i), fr.v()
				add(term.L(vs...), t, term.PL(t, vs...))
			}
			return cs, c16Status{Mode: true, Inf: true}
		}
	case "append_chain":
		// append(Xs, Ys, Z), append(Z, [e1], W1), append(Z, [e2,e3], W2), append(Z, [e4], W3) with Xs, Ys proper lists: the
		// results of append/3 are terms like any other - extending Z again leaves Z, W1 and W2 what they are
		xs, xt := term.ListElems(a[0])
		ys, yt := term.ListElems(a[1])
		if !xt.IsAtom("[]") || !yt.IsAtom("[]") {
			return nil, c16Out
		}
		zs := c16Cat(xs, ys)
		e := func(k int) *term.Term { return term.A(fmt.Sprintf("e%d", k)) }
		add(a[0], a[1], term.L(zs...), term.L(c16Cat(zs, []*term.Term{e(1)})...), term.L(c16Cat(zs, []*term.Term{e(2), e(3)})...), term.L(c16Cat(zs, []*term.Term{e(4)})...))
	case "length":
		if !c16VarOr(a[1], c16IsNat) {
			return nil, c16Out
		}
		es, tail := term.ListElems(a[0])
		switch {
		case tail.IsAtom("[]"):
			add(a[0], term.I(int64(len(es))))
		case c16IsVar(tail) && c16IsInt(a[1]):
			if a[1].I > 64 {
				return nil, c16Out
			}
			if n := int(a[1].I); n >= len(es) {
				add(term.L(c16Cat(es, fr.vs(n-len(es)))...), a[1])
			}
		case c16IsVar(tail):
			if c16Occurs(a[1], a[0]) {
				return nil, c16Out // length(L, L) and relatives
			}
			for i := 0; i < lim; i++ {
				add(term.L(c16Cat(es, fr.vs(i))...), term.I(int64(len(es)+i)))
			}
			return cs, c16Status{Mode: true, Inf: true}
		default:
			// neither a list nor a partial list: no tuple; the Prologue makes type_error(list, L) optional here
			return nil, c16Gray
		}
	case "between":
		if !c16IsInt(a[0]) || !c16IsInt(a[1]) || !c16VarOr(a[2], c16IsInt) {
			return nil, c16Out
		}
		lo, hi := a[0].I, a[1].I
		if lo <= hi {
			if uint64(hi)-uint64(lo) > 256 {
				return nil, c16Out
			}
			for v := lo; ; v++ {
				add(a[0], a[1], term.I(v))
				if v == hi {
					break
				}
			}
		}
	case "nth0", "nth1":
		es, tail := term.ListElems(a[1])
		if !tail.IsAtom("[]") || !c16VarOr(a[0], c16IsInt) {
			return nil, c16Out
		}
		base := int64(0)
		if pred == "nth1" {
			base = 1
		}
		if c16IsInt(a[0]) && a[0].I < 0 {
			return nil, c16Gray // no tuple; some systems demand a non-negative index (type_error) instead of failing
		}
		for i, e := range es {
			add(term.I(base+int64(i)), a[1], e)
		}
	case "member":
		es, tail := term.ListElems(a[1])
		for _, e := range es {
			add(e, a[1])
		}
		if c16IsVar(tail) {
			for j := 0; j < lim; j++ {
				f, t := fr.v(), fr.v()
				add(f, term.PL(t, c16Cat(es, fr.vs(j), []*term.Term{f})...))
			}
			return cs, c16Status{Mode: true, Inf: true}
		}
	case "select":
		ls, lt := term.ListElems(a[1])
		rs, rt := term.ListElems(a[2])
		switch {
		case lt.IsAtom("[]"):
			for i := range ls {
				add(ls[i], a[1], term.L(c16Cat(ls[:i], ls[i+1:])...))
			}
		case rt.IsAtom("[]"):
			for i := 0; i <= len(rs); i++ {
				f := fr.v()
				add(f, term.L(c16Cat(rs[:i], []*term.Term{f}, rs[i:])...), a[2])
			}
		default:
			return nil, c16Out
		}
	case "succ":
		switch {
		case c16IsNat(a[0]):
			if !c16VarOr(a[1], c16IsNat) {
				return nil, c16Out
			}
			if a[0].I == math.MaxInt64 {
				return nil, c16Gray // the successor is not representable
			}
			add(a[0], term.I(a[0].I+1))
		case c16IsVar(a[0]):
			if !c16IsNat(a[1]) {
				return nil, c16Out
			}
			if a[1].I > 0 {
				add(term.I(a[1].I-1), a[1])
			}
		default:
			return nil, c16Out
		}
	default:
		return nil, c16Out
	}
	return cs, c16In
}

// c16Res is the expected behaviour of one call.
type c16Res struct {
	c16Status
	STO    bool           // an expected unification is subject to occurs check: undefined
	Tuples [][]*term.Term // expected answers = instantiated argument tuples (the first k for Inf)
}

// c16Solve restricts the relation to the call: unify the argument tuple with every candidate.
func c16Solve(pred string, args []*term.Term, k int) c16Res {
	fr := &c16Fresh{}
	cs, st := c16Cands(pred, args, fr, k+10)
	res := c16Res{c16Status: st}
	if !st.Mode {
		return res
	}
	tup := &term.Term{K: term.KCmp, S: "t", Args: args}
	simple := c16Simple(args)
	if !simple && pred == "select" {
		// the textbook definition also equates the two lists element by element while it walks down both
		ls, _ := term.ListElems(args[1])
		rs, _ := term.ListElems(args[2])
		var pairs [][2]*term.Term
		for i := 0; i < len(ls) && i < len(rs); i++ {
			pairs = append(pairs, [2]*term.Term{ls[i], rs[i]})
		}
		if c16MayCycle(pairs) {
			res.STO = true
			return res
		}
	}
	for _, c := range cs {
		if !simple {
			pairs := make([][2]*term.Term, len(args))
			for i := range args {
				pairs[i] = [2]*term.Term{args[i], c[i]}
			}
			if c16MayCycle(pairs) {
				res.STO = true
				return res
			}
		}
		s, r := term.Unify(tup, &term.Term{K: term.KCmp, S: "t", Args: c})
		switch r {
		case term.STO:
			res.STO = true
			return res
		case term.Unifiable:
			ans := make([]*term.Term, len(args))
			for i, a := range args {
				ans[i] = s.Apply(a)
			}
			res.Tuples = append(res.Tuples, ans)
		}
		if st.Inf && len(res.Tuples) == k {
			return res
		}
	}
	if st.Inf {
		// fewer than k answers among the first candidates: the enumeration need not terminate; not asserted
		res.Mode = false
	}
	return res
}

// c16Simple: every argument is ground or a variable of its own; then no unification order can bind a
// variable to a term containing it (the candidates only add fresh variables).
func c16Simple(args []*term.Term) bool {
	seen := map[int64]bool{}
	for _, a := range args {
		switch {
		case a.K == term.KVar:
			if seen[a.I] {
				return false
			}
			seen[a.I] = true
		case len(term.VarsOf(a)) > 0:
			return false
		}
	}
	return true
}

// c16MayCycle reports whether solving the equations can, in SOME order of the unification steps, bind a
// variable to a term that contains it (ISO 7.3.3 "subject to occurs check": the outcome is undefined and an
// engine without occurs check may build a cyclic term). Conservative and independent of the order: close the
// equations under congruence with union-find, ignoring functor clashes, then look for a cycle in the class graph.
func c16MayCycle(pairs [][2]*term.Term) bool {
	ids := map[*term.Term]int{}
	vids := map[int64]int{}
	var parent []int
	var cmps [][]*term.Term
	nodeOf := func(t *term.Term) int {
		if t.K == term.KVar {
			if id, ok := vids[t.I]; ok {
				return id
			}
			vids[t.I] = len(parent)
		} else {
			if id, ok := ids[t]; ok {
				return id
			}
			ids[t] = len(parent)
		}
		parent = append(parent, len(parent))
		if t.K == term.KCmp {
			cmps = append(cmps, []*term.Term{t})
		} else {
			cmps = append(cmps, nil)
		}
		return len(parent) - 1
	}
	find := func(x int) int {
		for parent[x] != x {
			parent[x] = parent[parent[x]]
			x = parent[x]
		}
		return x
	}
	work := append([][2]*term.Term{}, pairs...)
	for len(work) > 0 {
		p := work[len(work)-1]
		work = work[:len(work)-1]
		a, b := find(nodeOf(p[0])), find(nodeOf(p[1]))
		if a == b {
			continue
		}
		for _, x := range cmps[a] {
			for _, y := range cmps[b] {
				if x.S == y.S && len(x.Args) == len(y.Args) {
					for i := range x.Args {
						work = append(work, [2]*term.Term{x.Args[i], y.Args[i]})
					}
				}
			}
		}
		parent[b] = a
		cmps[a] = append(cmps[a], cmps[b]...)
		cmps[b] = nil
	}
	state := map[int]int{}
	var visit func(c int) bool
	visit = func(c int) bool {
		c = find(c)
		switch state[c] {
		case 1:
			return true
		case 2:
			return false
		}
		state[c] = 1
		for _, t := range cmps[c] {
			for _, a := range t.Args {
				if visit(nodeOf(a)) {
					return true
				}
			}
		}
		state[c] = 2
		return false
	}
	for i := 0; i < len(parent); i++ {
		if visit(i) {
			return true
		}
	}
	return false
}

var c16Esc = regexp.MustCompile(`\\x([0-9a-f]+)\\`)

// c16Pretty turns the \x<hex>\ escapes of printable non-ASCII characters back into the characters (messages only).
func c16Pretty(s string) string {
	return c16Esc.ReplaceAllStringFunc(s, func(m string) string {
		n, err := strconv.ParseInt(m[2:len(m)-1], 16, 32)
		if err != nil || n < 0xa1 || n == 0xfffd || !unicode.IsPrint(rune(n)) {
			return m
		}
		return string(rune(n))
	})
}

func c16Canon(ts []*term.Term) string {
	c := term.Canon(ts...)
	var sb strings.Builder
	for i, t := range c {
		if i > 0 {
			sb.WriteString(", ")
		}
		sb.WriteString(t.String())
	}
	return c16Pretty(sb.String())
}

func c16Multiset(ts [][]*term.Term) []string {
	out := make([]string, len(ts))
	for i, t := range ts {
		out[i] = c16Canon(t)
	}
	sort.Strings(out)
	return out
}

func c16SameStrings(a, b []string) bool {
	if len(a) != len(b) {
		return false
	}
	for i := range a {
		if a[i] != b[i] {
			return false
		}
	}
	return true
}

// ---------------------------------------------------------------------------------------------------
// scenarios and generation

type c16Scn struct {
	Pred    string
	Family  string
	Choices [][]*term.Term // per argument
	Cap     int            // maximal number of calls (0 = the full product)
}

type c16Call struct {
	Args []*term.Term `json:"args"`
	K    int          `json:"k,omitempty"` // >0: infinite relation, the first K answers are compared
}

type c16Meta struct {
	Pred   string    `json:"pred"`
	Family string    `json:"family"`
	Calls  []c16Call `json:"calls"`
}

const c16K = 5

var (
	c16Small = []rune{'a', 'b', 'é'}
	c16Big   = []rune{'a', 'b', 'é', '😀', ' '}
)

func c16Strings(alpha []rune, max int) []string {
	out := []string{""}
	prev := []string{""}
	for l := 1; l <= max; l++ {
		var cur []string
		for _, p := range prev {
			for _, r := range alpha {
				cur = append(cur, p+string(r))
			}
		}
		out = append(out, cur...)
		prev = cur
	}
	return out
}

func c16Lists(elems []*term.Term, max int) [][]*term.Term {
	out := [][]*term.Term{nil}
	prev := [][]*term.Term{nil}
	for l := 1; l <= max; l++ {
		var cur [][]*term.Term
		for _, p := range prev {
			for _, e := range elems {
				cur = append(cur, c16Cat(p, []*term.Term{e}))
			}
		}
		out = append(out, cur...)
		prev = cur
	}
	return out
}

func c16V(i int64) *term.Term { return term.V(i) }

// uniq removes structurally equal duplicates, keeping order.
func c16Uniq(ts []*term.Term) []*term.Term {
	var out []*term.Term
	for _, t := range ts {
		dup := false
		for _, u := range out {
			if term.Equal(t, u) {
				dup = true
				break
			}
		}
		if !dup {
			out = append(out, t)
		}
	}
	return out
}

type c16Gen struct {
	r     *rand.Rand
	modes map[string]map[string]int
}

func (g *c16Gen) pick(ts []*term.Term) *term.Term { return ts[g.r.Intn(len(ts))] }

func (g *c16Gen) randAtom(alpha []rune, max int) string {
	n := g.r.Intn(max + 1)
	rs := make([]rune, n)
	for i := range rs {
		rs[i] = alpha[g.r.Intn(len(alpha))]
	}
	return string(rs)
}

// otherAtom returns an atom different from s over the same alphabet.
func (g *c16Gen) otherAtom(s string, alpha []rune) *term.Term {
	for {
		o := g.randAtom(alpha, 3)
		if o != s {
			return term.A(o)
		}
	}
}

var c16ElemPool = []*term.Term{term.A("a"), term.A("b"), term.A("c"), term.I(1), term.A("é"), term.C("f", term.A("x")), term.L(term.A("a")), term.A("[]"), term.F(1.5)}

// randList: 0..max elements with duplicates; withVars adds variable elements (ids from 20 upwards).
func (g *c16Gen) randList(max int, withVars bool) []*term.Term {
	n := g.r.Intn(max + 1)
	pool := c16ElemPool[:3+g.r.Intn(len(c16ElemPool)-2)]
	out := make([]*term.Term, n)
	nv := int64(0)
	for i := range out {
		switch {
		case withVars && g.r.Intn(4) == 0:
			if nv > 0 && g.r.Intn(3) == 0 {
				out[i] = term.V(20 + g.r.Int63n(nv))
			} else {
				out[i] = term.V(20 + nv)
				nv++
			}
		case withVars && g.r.Intn(8) == 0:
			// a variable inside a compound element occurs nowhere else (keeps every unification free of
			// occurs-check situations whatever order the engine chooses)
			out[i] = term.C("f", term.V(80+int64(i)))
		default:
			out[i] = pool[g.r.Intn(len(pool))]
		}
	}
	return out
}

// holes replaces some elements of a list by fresh variables (ids from 40 upwards).
func (g *c16Gen) holes(es []*term.Term) *term.Term {
	out := append([]*term.Term{}, es...)
	// every third time all holes are ONE variable (the elements at those positions then have to be equal)
	shared := g.r.Intn(3) == 0
	for i := range out {
		if g.r.Intn(2) == 0 {
			out[i] = term.V(40 + int64(i))
			if shared {
				out[i] = term.V(40)
			}
		}
	}
	return term.L(out...)
}

// sameVar returns the list of len(es) elements that are all the same variable.
func (g *c16Gen) sameVar(es []*term.Term) *term.Term {
	out := make([]*term.Term, len(es))
	for i := range out {
		out[i] = term.V(46)
	}
	return term.L(out...)
}

// partial returns a prefix of es followed by a variable tail.
func (g *c16Gen) partial(es []*term.Term, tailVar int64) *term.Term {
	return term.PL(term.V(tailVar), es[:g.r.Intn(len(es)+1)]...)
}

func c16Ints(ns ...int64) []*term.Term {
	out := make([]*term.Term, len(ns))
	for i, n := range ns {
		out[i] = term.I(n)
	}
	return out
}

// --- per-predicate scenario builders ---------------------------------------------------------------

func (g *c16Gen) atomLength(s string, fam string) *c16Scn {
	n := int64(utf8.RuneCountInString(s))
	ns := []*term.Term{c16V(1), term.I(n), term.I(n + 1), term.I(int64(len(s))), term.I(0)}
	if n > 0 {
		ns = append(ns, term.I(n-1))
	}
	return &c16Scn{Pred: "atom_length", Family: fam, Choices: [][]*term.Term{{term.A(s)}, c16Uniq(ns)}}
}

func (g *c16Gen) atomConcat(s string, alpha []rune, fam string, cap int) *c16Scn {
	rs := []rune(s)
	pre, suf := []*term.Term{c16V(0)}, []*term.Term{c16V(1)}
	for i := 0; i <= len(rs); i++ {
		pre = append(pre, c16Atom(rs[:i]))
		suf = append(suf, c16Atom(rs[i:]))
	}
	pre = append(pre, term.A(s+"a"), g.otherAtom(s, alpha))
	suf = append(suf, term.A("a"+s), g.otherAtom(s, alpha))
	return &c16Scn{Pred: "atom_concat", Family: fam, Cap: cap, Choices: [][]*term.Term{c16Uniq(pre), c16Uniq(suf), {term.A(s), c16V(2), g.otherAtom(s, alpha)}}}
}

// subAtom: one tuple (i, j) of the relation on s; all 16 instantiation patterns plus sampled near misses.
func (g *c16Gen) subAtom(s string, i, j int, alpha []rune, fam string, cap int) *c16Scn {
	rs := []rune(s)
	n := len(rs)
	alt := func(x int) *term.Term {
		for {
			y := g.r.Intn(n + 2)
			if y != x {
				return term.I(int64(y))
			}
		}
	}
	sub := string(rs[i:j])
	subs := []*term.Term{c16V(4), term.A(sub), g.otherAtom(sub, alpha), term.A(sub + "a")}
	if n > 0 {
		a, b := g.r.Intn(n+1), g.r.Intn(n+1)
		if a > b {
			a, b = b, a
		}
		subs = append(subs, c16Atom(rs[a:b]))
	}
	// byte offsets as decoys where they differ from the character offsets
	bi, bl, ba := len(string(rs[:i])), len(sub), len(string(rs[j:]))
	return &c16Scn{Pred: "sub_atom", Family: fam, Cap: cap, Choices: [][]*term.Term{
		{term.A(s)},
		c16Uniq([]*term.Term{c16V(1), term.I(int64(i)), alt(i), term.I(int64(bi))}),
		c16Uniq([]*term.Term{c16V(2), term.I(int64(j - i)), alt(j - i), term.I(int64(bl))}),
		c16Uniq([]*term.Term{c16V(3), term.I(int64(n - j)), alt(n - j), term.I(int64(ba))}),
		c16Uniq(subs),
	}}
}

func (g *c16Gen) atomText(pred, s string, alpha []rune, fam string, cap int) *c16Scn {
	mk := term.Chars
	if pred == "atom_codes" {
		mk = term.Codes
	}
	o := g.otherAtom(s, alpha)
	es, _ := term.ListElems(mk(s))
	ls := []*term.Term{c16V(1), mk(s), mk(o.S), g.holes(es), g.partial(es, 50), mk(s + "a"), g.sameVar(es), g.holes(es)}
	if len(es) > 0 {
		ls = append(ls, term.L(es[:len(es)-1]...), term.PL(term.V(51), g.holes(es[:len(es)-1]).Args...))
	}
	return &c16Scn{Pred: pred, Family: fam, Cap: cap, Choices: [][]*term.Term{{term.A(s), c16V(0), o}, c16Uniq(ls)}}
}

func (g *c16Gen) charCode(r rune, fam string) *c16Scn {
	o := c16Big[g.r.Intn(len(c16Big))]
	return &c16Scn{Pred: "char_code", Family: fam, Choices: [][]*term.Term{
		c16Uniq([]*term.Term{c16V(0), term.A(string(r)), term.A(string(o))}),
		c16Uniq([]*term.Term{c16V(1), term.I(int64(r)), term.I(int64(o)), term.I(int64(len(string(r)))), term.I(int64(string(r)[0]))}),
	}}
}

var c16Terms = func() []*term.Term {
	a, i, v := term.A, term.I, term.V
	c := func(name string, args ...*term.Term) *term.Term { return &term.Term{K: term.KCmp, S: name, Args: args} }
	return []*term.Term{
		a("foo"), a("[]"), a("é"), a("😀 b"), a(""), i(0), i(-1), i(math.MaxInt64), term.F(1.5),
		c("foo", a("a")), c("foo", v(30), a("b")), c("é", i(1), i(2), i(3)), term.L(a("a"), a("b")), term.Cons(v(30), v(31)),
		c("f", c("g", a("x"))), c("f", v(30), v(30), v(31)), c(".", a("a")), c("-", i(1)), c("f", a("a"), a("b"), a("c"), a("d"), a("e")),
		c("g", a("é"), term.Chars("é😀"), a("[]")), c("[]", i(1)), c("{}", a("x")), c("f", v(30), v(31), v(32), v(33)), c("😀", a("a"), term.F(-0.5)),
	}
}()

func (g *c16Gen) functor(t *term.Term, fam string) *c16Scn {
	name, ar := t, int64(0)
	if t.K == term.KCmp {
		name, ar = term.A(t.S), int64(len(t.Args))
	}
	return &c16Scn{Pred: "functor", Family: fam, Choices: [][]*term.Term{
		{t, c16V(100)},
		c16Uniq([]*term.Term{c16V(101), name, term.A("bar"), term.I(7)}),
		c16Uniq([]*term.Term{c16V(102), term.I(ar), term.I(ar + 1), term.I(0)}),
	}}
}

func (g *c16Gen) arg(t *term.Term, fam string) *c16Scn {
	ns := c16Ints(0, int64(len(t.Args))+1, math.MaxInt64)
	xs := []*term.Term{c16V(102), term.A("zzz"), term.C("f", c16V(103))}
	for i, x := range t.Args {
		ns = append(ns, term.I(int64(i+1)))
		xs = append(xs, x)
	}
	return &c16Scn{Pred: "arg", Family: fam, Cap: 40, Choices: [][]*term.Term{c16Uniq(ns), {t}, c16Uniq(xs)}}
}

func (g *c16Gen) univ(t *term.Term, fam string) *c16Scn {
	var l []*term.Term
	if t.K == term.KCmp {
		l = c16Cat([]*term.Term{term.A(t.S)}, t.Args)
	} else {
		l = []*term.Term{t}
	}
	ls := []*term.Term{c16V(101), term.L(l...), g.holes(l), g.partial(l, 110), term.PL(term.V(111), term.V(112)), term.L(c16Cat(l, []*term.Term{term.A("extra")})...),
		term.L(c16Cat([]*term.Term{term.A("bar")}, l[1:])...), term.L(l[:len(l)-1]...)}
	return &c16Scn{Pred: "=..", Family: fam, Choices: [][]*term.Term{{t, c16V(100)}, c16Uniq(ls)}}
}

// appendScn: base tuple (xs, ys, xs++ys).
func (g *c16Gen) appendScn(xs, ys []*term.Term, fam string, cap int) *c16Scn {
	zs := c16Cat(xs, ys)
	o := term.L(g.randList(3, false)...)
	return &c16Scn{Pred: "append", Family: fam, Cap: cap, Choices: [][]*term.Term{
		c16Uniq([]*term.Term{c16V(0), term.L(xs...), g.partial(xs, 60), o, g.holes(xs), term.PL(term.A("foo"), xs...)}),
		c16Uniq([]*term.Term{c16V(1), term.L(ys...), g.partial(ys, 61), o, term.A("foo")}),
		c16Uniq([]*term.Term{c16V(2), term.L(zs...), g.partial(zs, 62), o, g.holes(zs), term.PL(term.A("foo"), zs...)}),
	}}
}

func (g *c16Gen) length(es []*term.Term, fam string) *c16Scn {
	n := int64(len(es))
	ls := []*term.Term{c16V(0), term.L(es...), term.PL(term.A("foo"), es...), term.PL(term.I(0), es...)}
	for i := 0; i <= len(es); i++ {
		ls = append(ls, term.PL(term.V(60), es[:i]...))
	}
	ns := []*term.Term{c16V(1), term.I(n), term.I(n + 1), term.I(n + 2), term.I(0)}
	if n > 0 {
		ns = append(ns, term.I(n-1))
	}
	return &c16Scn{Pred: "length", Family: fam, Choices: [][]*term.Term{c16Uniq(ls), c16Uniq(ns)}}
}

func (g *c16Gen) between(lo, hi int64, fam string) *c16Scn {
	xs := []*term.Term{c16V(2), term.I(lo), term.I(hi), term.I(lo/2 + hi/2)}
	if lo > math.MinInt64 {
		xs = append(xs, term.I(lo-1))
	}
	if hi < math.MaxInt64 {
		xs = append(xs, term.I(hi+1))
	}
	if lo < math.MaxInt64 {
		xs = append(xs, term.I(lo+1))
	}
	xs = append(xs, term.I(0), term.I(math.MaxInt64), term.I(math.MinInt64))
	return &c16Scn{Pred: "between", Family: fam, Choices: [][]*term.Term{{term.I(lo)}, {term.I(hi)}, c16Uniq(xs)}}
}

func (g *c16Gen) nth(pred string, es []*term.Term, fam string, cap int) *c16Scn {
	base := int64(0)
	if pred == "nth1" {
		base = 1
	}
	ns := []*term.Term{c16V(0), term.I(base - 1), term.I(base + int64(len(es))), term.I(math.MaxInt64), term.I(math.MinInt64), term.I(0), term.I(1)}
	xs := []*term.Term{c16V(2), term.A("zzz"), term.C("f", c16V(70))}
	for i, e := range es {
		ns = append(ns, term.I(base+int64(i)))
		xs = append(xs, e)
	}
	return &c16Scn{Pred: pred, Family: fam, Cap: cap, Choices: [][]*term.Term{c16Uniq(ns), {term.L(es...)}, c16Uniq(xs)}}
}

func (g *c16Gen) member(es []*term.Term, fam string) *c16Scn {
	xs := []*term.Term{c16V(0), term.A("zzz"), term.C("f", c16V(70))}
	xs = append(xs, es...)
	ls := []*term.Term{term.L(es...), g.partial(es, 60), term.PL(term.V(60), es...), term.PL(term.A("foo"), es...)}
	return &c16Scn{Pred: "member", Family: fam, Choices: [][]*term.Term{c16Uniq(xs), c16Uniq(ls)}}
}

func (g *c16Gen) selectScn(es []*term.Term, fam string, cap int) *c16Scn {
	xs := []*term.Term{c16V(0), term.A("zzz"), term.C("f", c16V(70))}
	xs = append(xs, es...)
	ls := []*term.Term{c16V(1), term.L(es...), g.partial(es, 60), g.holes(es)}
	rs := []*term.Term{c16V(2), term.L(es...), term.L(g.randList(3, false)...)}
	for i := range es {
		rest := c16Cat(es[:i], es[i+1:])
		rs = append(rs, term.L(rest...))
		if i == 0 {
			rs = append(rs, g.partial(rest, 61), g.holes(rest))
		}
	}
	return &c16Scn{Pred: "select", Family: fam, Cap: cap, Choices: [][]*term.Term{c16Uniq(xs), c16Uniq(ls), c16Uniq(rs)}}
}

func (g *c16Gen) succ(x int64, fam string) *c16Scn {
	xs := []*term.Term{c16V(0), term.I(x)}
	ss := []*term.Term{c16V(1), term.I(x), term.I(0)}
	if x < math.MaxInt64 {
		xs = append(xs, term.I(x+1))
		ss = append(ss, term.I(x+1))
	}
	if x > 0 {
		xs = append(xs, term.I(x-1))
		ss = append(ss, term.I(x-1))
	}
	return &c16Scn{Pred: "succ", Family: fam, Choices: [][]*term.Term{c16Uniq(xs), c16Uniq(ss)}}
}

// --- the scenario lists ------------------------------------------------------------------------------

// exhaustive: the small finite space, independent of the tier (the seed only picks the decoy values).
func (g *c16Gen) exhaustive() []*c16Scn {
	var out []*c16Scn
	const fam = "exhaustive"
	for _, s := range c16Strings(c16Small, 3) {
		rs := []rune(s)
		out = append(out, g.atomLength(s, fam), g.atomConcat(s, c16Small, fam, 0), g.atomText("atom_chars", s, c16Small, fam, 0), g.atomText("atom_codes", s, c16Small, fam, 0))
		for i := 0; i <= len(rs); i++ {
			for j := i; j <= len(rs); j++ {
				out = append(out, g.subAtom(s, i, j, c16Small, fam, 22))
			}
		}
	}
	for nx := 0; nx <= 6; nx++ {
		for ny := 0; ny <= 3; ny++ {
			var xs, ys []*term.Term
			for i := 0; i < nx; i++ {
				xs = append(xs, term.A(fmt.Sprintf("x%d", i)))
			}
			for i := 0; i < ny; i++ {
				ys = append(ys, term.A(fmt.Sprintf("y%d", i)))
			}
			zs := c16Cat(xs, ys)
			w1 := term.L(c16Cat(zs, []*term.Term{term.A("e1")})...)
			out = append(out, &c16Scn{Pred: "append_chain", Family: fam, Cap: 8, Choices: [][]*term.Term{
				{term.L(xs...)}, {term.L(ys...)}, {c16V(2), term.L(zs...)}, {c16V(3), w1}, {c16V(4)}, {c16V(5), term.L(c16Cat(zs, []*term.Term{term.A("e4")})...), w1}}})
		}
	}
	abc := []*term.Term{term.A("a"), term.A("b"), term.A("c")}
	for _, l := range c16Lists(abc, 3) {
		out = append(out, g.length(l, fam), g.nth("nth0", l, fam, 0), g.nth("nth1", l, fam, 0), g.member(l, fam), g.selectScn(l, fam, 0))
		for i := 0; i <= len(l); i++ {
			out = append(out, g.appendScn(l[:i], l[i:], fam, 30))
		}
	}
	for lo := int64(-3); lo <= 3; lo++ {
		for hi := int64(-3); hi <= 3; hi++ {
			out = append(out, g.between(lo, hi, fam))
		}
	}
	for x := int64(0); x <= 6; x++ {
		out = append(out, g.succ(x, fam))
	}
	for _, r := range []rune{'a', 'b', 'é', '😀', ' ', 'A', '0', '\n', 'ÿ', 'Ā', '߿', 'ࠀ', '￿', '\U00010000', '\U0010ffff', '\x01', '\x7f', '\u0080'} {
		out = append(out, g.charCode(r, fam))
	}
	for _, t := range c16Terms {
		out = append(out, g.functor(t, fam), g.univ(t, fam))
		if t.K == term.KCmp {
			out = append(out, g.arg(t, fam))
		}
	}
	for n := int64(0); n <= 5; n++ {
		for _, name := range []*term.Term{term.A("foo"), term.A("é"), term.A("[]"), term.A("."), term.I(3), term.F(2.5)} {
			out = append(out, &c16Scn{Pred: "functor", Family: fam, Choices: [][]*term.Term{{c16V(0)}, {name}, {term.I(n)}}})
		}
	}
	return out
}

// limits: integers at the 64-bit limits and around 0.
func (g *c16Gen) limits() []*c16Scn {
	var out []*c16Scn
	const fam = "limits"
	max, min := int64(math.MaxInt64), int64(math.MinInt64)
	for _, p := range [][2]int64{{max - 1, max}, {max, max}, {max - 3, max}, {max - 2, max - 1}, {min, min + 1}, {min, min}, {min, min + 3}, {min + 1, min + 2},
		{max, min}, {max, max - 1}, {min + 1, min}, {-1, 1}, {0, 0}, {-2, 0}, {0, 1}, {1, 0}, {max, 0}, {0, min}, {-100, -90}, {90, 120}} {
		out = append(out, g.between(p[0], p[1], fam))
	}
	for _, x := range []int64{0, 1, 2, max - 2, max - 1, max, 1 << 31, 1<<32 - 1, 1 << 62} {
		out = append(out, g.succ(x, fam))
	}
	big := c16Ints(max, max-1, min, min+1, 1<<32, 1<<31, -1<<31, 1<<62, 256, 255)
	l := []*term.Term{term.A("a"), term.A("b")}
	for _, n := range big {
		for _, pred := range []string{"nth0", "nth1"} {
			out = append(out, &c16Scn{Pred: pred, Family: fam, Choices: [][]*term.Term{{n}, {term.L(l...), term.L()}, {c16V(2), term.A("a")}}})
		}
		if n.I >= 0 {
			out = append(out,
				&c16Scn{Pred: "arg", Family: fam, Choices: [][]*term.Term{{n}, {term.C("f", l...)}, {c16V(2), term.A("a")}}},
				&c16Scn{Pred: "atom_length", Family: fam, Choices: [][]*term.Term{{term.A("aé"), term.A("")}, {n}}},
				&c16Scn{Pred: "length", Family: fam, Choices: [][]*term.Term{{term.L(l...), term.L()}, {n}}},
				&c16Scn{Pred: "sub_atom", Family: fam, Cap: 24, Choices: [][]*term.Term{{term.A("aé")}, {c16V(1), n, term.I(0)}, {c16V(2), n, term.I(1)}, {c16V(3), n, term.I(0)}, {c16V(4), term.A("é")}}})
		}
	}
	for _, n := range c16Ints(1, 2, 127, 128, 255, 256, 0x7ff, 0x800, 0xd7ff, 0xe000, 0xfffd-1, 0xffff, 0x10000, 0x10ffff) {
		out = append(out, &c16Scn{Pred: "char_code", Family: fam, Choices: [][]*term.Term{{c16V(0), term.A("a")}, {n}}})
	}
	return out
}

// gray: no tuple exists and ISO demands an error; accepted outcomes: error or failure, never an answer.
func (g *c16Gen) gray() []*c16Scn {
	var out []*c16Scn
	const fam = "gray"
	a, fa := term.A, term.C("foo", term.A("a"))
	for _, l := range []*term.Term{term.L(fa), term.L(fa, a("b")), term.L(term.I(1), a("a")), term.L(term.F(1.5), a("a"), a("b")), term.L(), term.L(term.L(a("a")), a("b")),
		term.L(term.C("é", term.I(1))), term.L(term.C("foo", term.V(5)))} {
		out = append(out, &c16Scn{Pred: "=..", Family: fam, Choices: [][]*term.Term{{c16V(0)}, {l}}})
	}
	for _, na := range [][2]*term.Term{{fa, term.I(0)}, {fa, term.I(1)}, {term.I(1), term.I(1)}, {term.F(1.5), term.I(2)}, {term.L(a("a")), term.I(0)}} {
		out = append(out, &c16Scn{Pred: "functor", Family: fam, Choices: [][]*term.Term{{c16V(0)}, {na[0]}, {na[1]}}})
	}
	out = append(out, &c16Scn{Pred: "succ", Family: fam, Choices: [][]*term.Term{{term.I(math.MaxInt64)}, {c16V(1), term.I(0), term.I(math.MaxInt64), term.I(math.MinInt64 + 0)}}})
	// integers that are not character codes: negative, surrogates, beyond U+10FFFF, and integers whose low 32 bits are a
	// character code (a conversion to a 32-bit rune must not make them one)
	for _, n := range c16Ints(-1, -97, 0xd800, 0xdbff, 0xdc00, 0xdfff, 0x110000, 1<<31, 1<<32, 1<<32+97, 1<<32+0xe9, 1<<33+0x1f600, 1<<62+97, math.MaxInt64, math.MinInt64, math.MinInt64+97, -1<<32+97) {
		out = append(out, &c16Scn{Pred: "char_code", Family: fam, Choices: [][]*term.Term{{c16V(0)}, {n}}},
			&c16Scn{Pred: "atom_codes", Family: fam, Choices: [][]*term.Term{{c16V(0)}, {term.L(n), term.L(term.I(97), n), term.L(n, term.I(0xe9), term.I(98))}}})
	}
	return out
}

// replacement: U+FFFD is an ordinary three-byte character although Go's utf8 package also uses its code as
// the "decoding failed" value; text containing it must behave like any other text.
func (g *c16Gen) replacement() []*c16Scn {
	var out []*c16Scn
	const fam = "replacement_character"
	alpha := []rune{'a', '\ufffd'}
	for _, s := range []string{"\ufffd", "a\ufffd", "\ufffda\ufffd"} {
		rs := []rune(s)
		out = append(out, g.atomLength(s, fam), g.atomConcat(s, alpha, fam, 0), g.atomText("atom_chars", s, alpha, fam, 0), g.atomText("atom_codes", s, alpha, fam, 0))
		for i := 0; i <= len(rs); i++ {
			for j := i; j <= len(rs); j++ {
				out = append(out, g.subAtom(s, i, j, alpha, fam, 22))
			}
		}
	}
	l := []*term.Term{term.A("\ufffd"), term.A("a"), term.A("\ufffd")}
	out = append(out, g.charCode('\ufffd', fam), g.member(l, fam), g.selectScn(l, fam, 0), g.nth("nth0", l, fam, 0), g.functor(term.A("\ufffd"), fam), g.univ(term.C("\ufffd", term.A("\ufffd")), fam))
	return out
}

var c16Weights = []struct {
	pred string
	w    int
}{{"atom_length", 3}, {"atom_concat", 8}, {"sub_atom", 10}, {"atom_chars", 5}, {"atom_codes", 5}, {"char_code", 1}, {"functor", 3}, {"arg", 3}, {"=..", 4},
	{"append", 10}, {"length", 6}, {"between", 5}, {"nth0", 5}, {"nth1", 5}, {"member", 6}, {"select", 8}, {"succ", 2}}

func (g *c16Gen) randTerm() *term.Term {
	if g.r.Intn(3) == 0 {
		return g.pick(c16Terms)
	}
	name := []string{"f", "é", "foo bar", ".", "-", "[]", "😀"}[g.r.Intn(7)]
	args := g.randList(5, true)
	if len(args) == 0 {
		return term.A(name)
	}
	return &term.Term{K: term.KCmp, S: name, Args: args}
}

// sampled: one random scenario beyond the exhaustive space.
func (g *c16Gen) sampled() *c16Scn {
	const fam = "sampled"
	tot := 0
	for _, w := range c16Weights {
		tot += w.w
	}
	k := g.r.Intn(tot)
	pred := ""
	for _, w := range c16Weights {
		if k < w.w {
			pred = w.pred
			break
		}
		k -= w.w
	}
	switch pred {
	case "atom_length":
		return g.atomLength(g.randAtom(c16Big, 5), fam)
	case "atom_concat":
		return g.atomConcat(g.randAtom(c16Big, 5), c16Big, fam, 24)
	case "sub_atom":
		s := []rune(g.randAtom(c16Big, 5))
		i, j := g.r.Intn(len(s)+1), g.r.Intn(len(s)+1)
		if i > j {
			i, j = j, i
		}
		return g.subAtom(string(s), i, j, c16Big, fam, 24)
	case "atom_chars", "atom_codes":
		return g.atomText(pred, g.randAtom(c16Big, 5), c16Big, fam, 0)
	case "char_code":
		return g.charCode(rune(1+g.r.Intn(0x2ff)), fam)
	case "functor":
		return g.functor(g.randTerm(), fam)
	case "arg":
		for {
			if t := g.randTerm(); t.K == term.KCmp {
				return g.arg(t, fam)
			}
		}
	case "=..":
		return g.univ(g.randTerm(), fam)
	case "append":
		return g.appendScn(g.randList(3, g.r.Intn(3) == 0), g.randList(3, g.r.Intn(3) == 0), fam, 24)
	case "length":
		return g.length(g.randList(5, g.r.Intn(2) == 0), fam)
	case "between":
		lo := int64(g.r.Intn(41) - 20)
		switch g.r.Intn(6) {
		case 0:
			lo = math.MaxInt64 - int64(g.r.Intn(12))
		case 1:
			lo = math.MinInt64 + int64(g.r.Intn(12))
		}
		hi := lo
		if d := int64(g.r.Intn(14) - 2); d < 0 || lo <= math.MaxInt64-d {
			hi = lo + d
		} else {
			hi = math.MaxInt64
		}
		return g.between(lo, hi, fam)
	case "nth0", "nth1":
		return g.nth(pred, g.randList(5, g.r.Intn(2) == 0), fam, 24)
	case "member":
		return g.member(g.randList(5, g.r.Intn(2) == 0), fam)
	case "select":
		return g.selectScn(g.randList(5, g.r.Intn(2) == 0), fam, 24)
	default:
		x := int64(g.r.Intn(100))
		if g.r.Intn(3) == 0 {
			x = math.MaxInt64 - int64(g.r.Intn(5))
		}
		return g.succ(x, fam)
	}
}

// --- from a scenario to an item -----------------------------------------------------------------------

// calls expands a scenario: the full product of the choices, or (when larger than Cap) the product of the
// first two choices of every argument plus random picks; then aliasing variants; kept when inside the modes.
func (g *c16Gen) calls(s *c16Scn) []c16Call {
	n := len(s.Choices)
	total := 1
	for _, c := range s.Choices {
		total *= len(c)
	}
	var tuples [][]*term.Term
	product := func(limit int) {
		idx := make([]int, n)
		for {
			t := make([]*term.Term, n)
			for i := range t {
				t[i] = s.Choices[i][idx[i]]
			}
			tuples = append(tuples, t)
			i := n - 1
			for ; i >= 0; i-- {
				m := len(s.Choices[i])
				if limit > 0 && m > limit {
					m = limit
				}
				idx[i]++
				if idx[i] < m {
					break
				}
				idx[i] = 0
			}
			if i < 0 {
				return
			}
		}
	}
	if s.Cap <= 0 || total <= s.Cap {
		product(0)
	} else {
		product(2)
		for tries := 0; len(tuples) < s.Cap && tries < 4*s.Cap; tries++ {
			t := make([]*term.Term, n)
			for i := range t {
				t[i] = g.pick(s.Choices[i])
			}
			tuples = append(tuples, t)
		}
	}
	// aliasing: two unbound arguments share one variable
	for _, t := range tuples {
		if g.r.Intn(8) != 0 {
			continue
		}
		var vs []int
		for i, a := range t {
			if c16IsVar(a) {
				vs = append(vs, i)
			}
		}
		if len(vs) < 2 {
			continue
		}
		g.r.Shuffle(len(vs), func(i, j int) { vs[i], vs[j] = vs[j], vs[i] })
		u := append([]*term.Term{}, t...)
		u[vs[1]] = u[vs[0]]
		if r := c16Solve(s.Pred, u, c16K); r.Mode && !r.Inf && !r.STO {
			tuples = append(tuples, u)
		}
	}
	seen := map[string]bool{}
	var out []c16Call
	for _, t := range tuples {
		key := term.C("t", t...).String()
		if seen[key] {
			continue
		}
		seen[key] = true
		r := c16Solve(s.Pred, t, c16K)
		if !r.Mode || r.STO {
			continue
		}
		c := c16Call{Args: t}
		if r.Inf {
			c.K = c16K
		}
		out = append(out, c)
	}
	return out
}

const c16Budget = 300000

func c16JSON(v interface{}) json.RawMessage {
	b, err := json.Marshal(v)
	if err != nil {
		panic(err)
	}
	return b
}

func c16Shift(t *term.Term, by int64) *term.Term {
	return term.Map(t, func(id int64) *term.Term { return term.V(id + by) })
}

var c16Reps = []string{"", "", "cons", "chars", "codes"}

// item builds the worker case: input k is g(Goal, Args); the goal is pred(Args...) either directly or with
// every argument bound through a fresh variable first; list arguments get a seeded engine representation.
func (g *c16Gen) item(s *c16Scn) *Item {
	calls := g.calls(s)
	if len(calls) == 0 {
		return nil
	}
	if g.modes != nil {
		for _, call := range calls {
			if g.modes[s.Pred] == nil {
				g.modes[s.Pred] = map[string]int{}
			}
			g.modes[s.Pred][c16Mask(call.Args)]++
		}
	}
	c := &proto.Case{Kind: "relations"} // kind "prolog" + verif_seen/1 (cmd/vworker/relcase.go)
	if s.Pred == "append_chain" {
		c.Setup = []string{"append_chain(Xs, Ys, Z, W1, W2, W3) :- append(Xs, Ys, Z), append(Z, [e1], W1), append(Z, [e2, e3], W2), append(Z, [e4], W3).\n"}
	}
	for k, call := range calls {
		by := int64(k+1) * 1000
		args := make([]*term.Term, len(call.Args))
		gargs := make([]*term.Term, len(call.Args))
		for i, a := range call.Args {
			args[i] = c16Shift(a, by)
			gargs[i] = args[i]
			if gargs[i].IsList() {
				gargs[i] = term.WithRep(gargs[i], c16Reps[g.r.Intn(len(c16Reps))])
			}
		}
		var goal *term.Term
		if g.r.Intn(3) == 0 {
			// indirect: T1 = A1, ..., Tn = An, p(T1, ..., Tn)
			ts := make([]*term.Term, len(args))
			for i := range ts {
				ts[i] = term.V(by + 900 + int64(i))
			}
			goal = &term.Term{K: term.KCmp, S: s.Pred, Args: ts}
			for i := len(args) - 1; i >= 0; i-- {
				goal = term.C(",", term.C("=", ts[i], gargs[i]), goal)
			}
		} else {
			goal = &term.Term{K: term.KCmp, S: s.Pred, Args: gargs}
		}
		c.Inputs = append(c.Inputs, term.C("g", goal, term.L(args...)))
		if call.K > 0 {
			// an infinite enumeration: stop after K answers from inside the query, then let it run to its end
			c.Steps = append(c.Steps, proto.Step{Query: fmt.Sprintf("verif_in(%d, g(G, As)), ( call(G), verif_out(s, As), verif_seen(%d) -> verif_out(stopped, []) ; true ), fail.", k, call.K), StepBudget: c16Budget})
		} else {
			c.Steps = append(c.Steps, proto.Step{Query: fmt.Sprintf("verif_in(%d, g(G, As)), call(G), verif_out(s, As), fail.", k), StepBudget: c16Budget})
		}
	}
	return &Item{Cases: []*proto.Case{c}, Meta: c16JSON(&c16Meta{Pred: s.Pred, Family: s.Family, Calls: calls}), Note: s.Pred + " / " + s.Family}
}

func (c *c16) Generate(cx *Ctx, chunk int) []*Item {
	nSampled := 900
	if cx.Thorough() {
		nSampled = 36000
	}
	const chunkSize = 3000
	var scns []*c16Scn
	c.mu.Lock()
	defer c.mu.Unlock()
	if c.modes == nil {
		c.modes = map[string]map[string]int{}
	}
	g := &c16Gen{modes: c.modes}
	if chunk == 0 {
		g.r = cx.Rng("c16/fixed")
		scns = append(scns, g.exhaustive()...)
		scns = append(scns, g.limits()...)
		scns = append(scns, g.gray()...)
		scns = append(scns, g.replacement()...)
		cx.exhaustive = true
	}
	lo, hi := chunk*chunkSize, (chunk+1)*chunkSize
	if lo >= nSampled {
		if chunk == 0 {
			lo, hi = 0, 0
		} else {
			c.noteModes(cx)
			return nil
		}
	}
	if hi > nSampled {
		hi = nSampled
	}
	var items []*Item
	for _, s := range scns {
		if it := g.item(s); it != nil {
			items = append(items, it)
		}
	}
	// the sampled scenarios are independent (one generator per index): build them in parallel, keep the order
	sampled := make([]*Item, hi-lo)
	gens := make([]*c16Gen, runtime.NumCPU())
	var wg sync.WaitGroup
	for w := range gens {
		gens[w] = &c16Gen{modes: map[string]map[string]int{}}
		wg.Add(1)
		go func(w int) {
			defer wg.Done()
			for i := lo + w; i < hi; i += len(gens) {
				gens[w].r = cx.Rng(fmt.Sprintf("c16/%d", i))
				sampled[i-lo] = gens[w].item(gens[w].sampled())
			}
		}(w)
	}
	wg.Wait()
	for _, gw := range gens {
		for p, ms := range gw.modes {
			if c.modes[p] == nil {
				c.modes[p] = map[string]int{}
			}
			for m, n := range ms {
				c.modes[p][m] += n
			}
		}
	}
	for _, it := range sampled {
		if it != nil {
			items = append(items, it)
		}
	}
	return items
}

// noteModes records which instantiation patterns were exercised (+ ground, - unbound, ? partially instantiated).
func (c *c16) noteModes(cx *Ctx) {
	var preds []string
	for p := range c.modes {
		preds = append(preds, p)
	}
	sort.Strings(preds)
	for _, p := range preds {
		var ms []string
		for m := range c.modes[p] {
			ms = append(ms, m)
		}
		sort.Strings(ms)
		var sb strings.Builder
		for _, m := range ms {
			fmt.Fprintf(&sb, " (%s)x%d", m, c.modes[p][m])
		}
		cx.Note(fmt.Sprintf("calls per instantiation pattern, %s/%d:%s", p, len(ms[0]), sb.String()))
	}
}

// ---------------------------------------------------------------------------------------------------
// judging

func c16CallText(pred string, args []*term.Term) string {
	return c16Pretty(term.Text(&term.Term{K: term.KCmp, S: pred, Args: args}, qvar))
}

func c16MultiByte(ts ...*term.Term) bool {
	for _, t := range ts {
		switch t.K {
		case term.KAtom:
			if len(t.S) != utf8.RuneCountInString(t.S) {
				return true
			}
		case term.KInt:
			if t.I >= 0x80 && t.I <= utf8.MaxRune {
				// a character code of a multi-byte character (only meaningful for the text predicates)
				return true
			}
		case term.KCmp:
			if len(t.S) != utf8.RuneCountInString(t.S) || c16MultiByte(t.Args...) {
				return true
			}
		}
	}
	return false
}

var c16TextPreds = map[string]bool{"atom_length": true, "atom_concat": true, "sub_atom": true, "atom_chars": true, "atom_codes": true, "char_code": true}

// match: is there a substitution s of the variables of p with p.s == t (t's variables are constants)?
func c16Match(p, t *term.Term, m map[int64]*term.Term) bool {
	if p.K == term.KVar {
		if b, ok := m[p.I]; ok {
			return term.Equal(b, t)
		}
		m[p.I] = t
		return true
	}
	if p.K != t.K {
		return false
	}
	if p.K != term.KCmp {
		return term.Equal(p, t)
	}
	if p.S != t.S || len(p.Args) != len(t.Args) {
		return false
	}
	for i := range p.Args {
		if !c16Match(p.Args[i], t.Args[i], m) {
			return false
		}
	}
	return true
}

func c16Mask(args []*term.Term) string {
	var sb strings.Builder
	for _, a := range args {
		switch {
		case c16IsVar(a):
			sb.WriteByte('-')
		case len(term.VarsOf(a)) > 0:
			sb.WriteByte('?')
		default:
			sb.WriteByte('+')
		}
	}
	return sb.String()
}

type c16Obs struct {
	tuples   [][]*term.Term
	complete bool // finite call that ran to the end without error
}

func (c *c16) Judge(cx *Ctx, it *Item, outs []*run.Outcome) Verdict {
	var m c16Meta
	if err := decodeMeta(it, &m); err != nil {
		return Verdict{Status: Inconclusive, Msg: err.Error()}
	}
	out := outs[0]
	if out.Crash != nil {
		if out.Crash.Hung {
			return Verdict{Status: Inconclusive, Msg: "watchdog fired (wall clock) — no logical evidence"}
		}
		// the property is about answers, not about crashes (engine panics are recovered into errors and judged below)
		return Verdict{Status: c16CrashStatus, Msg: fmt.Sprintf("worker process died while running %s calls: %s | %s", m.Pred, out.Crash.Exit, oneLine(firstLines(out.Crash.Stderr, 4)))}
	}
	res := out.Res
	if res == nil || res.Fatal != "" || len(res.Steps) != len(m.Calls) {
		return Verdict{Status: Inconclusive, Msg: "worker: incomplete result"}
	}
	v := Verdict{Status: Held, Extra: map[string]int64{}}
	var problems []string
	var sample, firstSample map[string]interface{}
	sampleScore := 0
	obs := make([]c16Obs, len(m.Calls))
	inconclusive := ""
	for k, call := range m.Calls {
		st := res.Steps[k]
		text := c16CallText(m.Pred, call.Args)
		exp := c16Solve(m.Pred, call.Args, call.K)
		if !exp.Mode || exp.STO || exp.Inf != (call.K > 0) {
			inconclusive = "call outside the asserted modes in a stored item: " + text
			continue
		}
		var got [][]*term.Term
		stopped := false
		for _, e := range st.Events {
			if e.Tag == "s" && e.T != nil {
				es, _ := term.ListElems(e.T)
				got = append(got, es)
			}
			if e.Tag == "stopped" {
				stopped = true
			}
		}
		expS, gotS := c16Multiset(exp.Tuples), c16Multiset(got)
		end := "no more answers"
		switch {
		case st.BudgetHit:
			end = fmt.Sprintf("step budget of %d exhausted", c16Budget)
		case st.Err != nil && st.Err.Exception != nil:
			end = "error " + c16Pretty(canonTuple([]*term.Term{formalOf(st.Err.Exception)}))
		case st.Err != nil:
			end = "go error " + st.Err.Text
		case stopped:
			end = "more"
		}
		v.Extra["calls"]++
		v.Extra["calls_"+m.Pred]++
		v.Extra["answers_compared"] += int64(len(got))
		v.Extra["family_"+m.Family]++
		nontrivial := len(exp.Tuples) >= 2
		if c16TextPreds[m.Pred] {
			mb := c16MultiByte(call.Args...)
			for _, t := range exp.Tuples {
				mb = mb || c16MultiByte(t...)
			}
			if mb {
				nontrivial = true
				v.Extra["calls_multibyte_text"]++
			}
		}
		if nontrivial {
			v.NonTrivial = true
			v.Extra["calls_nontrivial"]++
		}
		smp := map[string]interface{}{"call": text, "expected": expS, "observed": gotS, "end": end}
		if firstSample == nil {
			firstSample = smp
		}
		if score := len(exp.Tuples); nontrivial && (sample == nil || score > sampleScore) {
			sample, sampleScore = smp, score
		}
		bad := func(format string, a ...interface{}) {
			problems = append(problems, fmt.Sprintf("%s: ", text)+fmt.Sprintf(format, a...))
			if len(problems) == 1 {
				sample = smp
			}
		}
		switch {
		case call.K > 0:
			v.Extra["calls_infinite_prefix"]++
			switch {
			case st.BudgetHit && !res.Hooks:
				inconclusive = "step limit without logical clock"
			case end != "more":
				bad("the relation is infinite but the enumeration ended with %q after %d answers; observed %v", end, len(got), gotS)
			case !c16SameStrings(expS, gotS):
				bad("first %d answers: expected {%s}, observed {%s}", call.K, strings.Join(expS, " | "), strings.Join(gotS, " | "))
			}
		case st.BudgetHit:
			if !res.Hooks {
				inconclusive = "step limit without logical clock"
				break
			}
			bad("did not terminate within %d steps (%d answers so far); the relation has %d tuples {%s}", c16Budget, len(got), len(expS), strings.Join(expS, " | "))
		case st.Err != nil:
			switch {
			case len(got) > 0 || len(expS) > 0:
				bad("ended with %s after %d answers; the relation has %d tuples: expected {%s}, observed {%s}", end, len(got), len(expS), strings.Join(expS, " | "), strings.Join(gotS, " | "))
			case !exp.Gray:
				bad("ended with %s; the call is inside the predicate's modes and the relation has no matching tuple: it must fail", end)
			default:
				// no tuple exists and ISO demands an error here; failing would be accepted as well
				v.Extra["not_asserted_error_or_failure_where_no_tuple_exists"]++
			}
		case !c16SameStrings(expS, gotS):
			bad("expected %d answers {%s}, observed %d answers {%s}", len(expS), strings.Join(expS, " | "), len(gotS), strings.Join(gotS, " | "))
		default:
			obs[k] = c16Obs{tuples: got, complete: true}
		}
		if exp.Gray {
			v.Extra["calls_gray"]++
		}
	}
	// oracle 2: subset law between every pair (general call, more instantiated call) of the scenario
	for i, ci := range m.Calls {
		if !obs[i].complete {
			continue
		}
		ti := &term.Term{K: term.KCmp, S: "t", Args: ci.Args}
		for j, cj := range m.Calls {
			if i == j || !obs[j].complete {
				continue
			}
			tj := &term.Term{K: term.KCmp, S: "t", Args: cj.Args}
			if !c16Match(ti, tj, map[int64]*term.Term{}) || term.Variant(ti, tj) {
				continue
			}
			var want [][]*term.Term
			sto := false
			for _, a := range obs[i].tuples {
				ra := c16Shift(&term.Term{K: term.KCmp, S: "t", Args: a}, c16FreshBase*2)
				s, r := term.Unify(tj, ra)
				if r == term.STO {
					sto = true
					break
				}
				if r == term.Unifiable {
					w := make([]*term.Term, len(cj.Args))
					for x, arg := range cj.Args {
						w[x] = s.Apply(arg)
					}
					want = append(want, w)
				}
			}
			if sto {
				v.Extra["subset_pairs_skipped_sto"]++
				continue
			}
			v.Extra["subset_pairs"]++
			if len(want) != len(obs[i].tuples) {
				v.Extra["subset_pairs_proper_subset"]++
			}
			wantS, gotS := c16Multiset(want), c16Multiset(obs[j].tuples)
			if !c16SameStrings(wantS, gotS) {
				problems = append(problems, fmt.Sprintf("subset law: %s answered {%s}; the more instantiated %s must answer the matching subset {%s} but answered {%s}",
					c16CallText(m.Pred, ci.Args), strings.Join(c16Multiset(obs[i].tuples), " | "), c16CallText(m.Pred, cj.Args), strings.Join(wantS, " | "), strings.Join(gotS, " | ")))
			}
		}
	}
	if sample == nil {
		sample = firstSample
	}
	v.Sample = sample
	switch {
	case len(problems) > 0:
		v.Status = Violated
		v.Msg = problems[0]
		if len(problems) > 1 {
			v.Msg += fmt.Sprintf(" (+%d further deviations in this scenario)", len(problems)-1)
			n := len(problems)
			if n > 6 {
				n = 6
			}
			v.Msg += "\n" + strings.Join(problems[1:n], "\n")
		}
	case inconclusive != "":
		v.Status = Inconclusive
		v.Msg = inconclusive
	}
	return v
}

// c16CrashStatus: a dead worker is no evidence about answers (C16_CRASH_IS_VIOLATION=1 turns it into a
// violation so that a replay file is written while debugging).
var c16CrashStatus = func() Status {
	if os.Getenv("C16_CRASH_IS_VIOLATION") != "" {
		return Violated
	}
	return Inconclusive
}()
