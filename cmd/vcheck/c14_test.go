package main

import "testing"

func TestC14CanonVars(t *testing.T) {
	for _, c := range [][2]string{
		{"f(_G12,_G7,_G12)", "f(_V0,_V1,_V0)"},
		{"f(_12,_7,_12)\n", "f(_V0,_V1,_V0)\n"},
		{"X=_G5;Y='_G5';Z=foo_12", "X=_V0;Y='_G5';Z=foo_12"},
		{"'it\\'s _3',_3", "'it\\'s _3',_V0"},
		{"[0'a,_4]", "[0'a,_V0]"},
		{"a_1 _x _G _1a _22", "a_1 _x _G _1a _V0"},
		{"", ""},
	} {
		if got := c14CanonVars(c[0]); got != c[1] {
			t.Errorf("canon(%q) = %q, want %q", c[0], got, c[1])
		}
	}
	if got := c14Norm("A=sh_zq1w0r02_ka;S=<stream>(0xc000123abc);V=_G99", "zq1w0r02"); got != "A=sh_#T#_ka;S=<stream>;V=_V0" {
		t.Errorf("norm: %q", got)
	}
}

const c14SampleLog = `==================
WARNING: DATA RACE
Write at 0x000000872a98 by goroutine 638:
  github.com/ichiban/prolog/engine.NewAtom()
      /repo/engine/atom.go:237 +0x28a
  main.concGoroutine()
      /verif/cmd/vworker/concurrent.go:368 +0x1083

Previous read at 0x000000872a98 by goroutine 637:
  runtime.mapaccess2_faststr()
      /usr/lib/go/src/runtime/map_faststr.go:108 +0x0
  github.com/ichiban/prolog/engine.Atom.String()
      /repo/engine/atom.go:302 +0x1e4
  main.concGoroutine()
      /verif/cmd/vworker/concurrent.go:368 +0x1083

Goroutine 638 (running) created at:
  main.concPass()
      /verif/cmd/vworker/concurrent.go:305 +0x344
==================
==================
WARNING: DATA RACE
Read at 0x00c000012345 by goroutine 9:
  main.helper()
      /verif/cmd/vworker/x.go:1 +0x1

Previous write at 0x00c000012345 by main goroutine:
  main.other()
      /verif/cmd/vworker/x.go:2 +0x1
==================
`

func TestC14ParseRaces(t *testing.T) {
	rs := c14ParseRaces(c14SampleLog)
	if len(rs) != 2 {
		t.Fatalf("blocks: %d", len(rs))
	}
	if rs[0].Key != "github.com/ichiban/prolog/engine.Atom.String <-> github.com/ichiban/prolog/engine.NewAtom" || !rs[0].Engine {
		t.Errorf("key 0: %q engine=%v", rs[0].Key, rs[0].Engine)
	}
	if rs[1].Key != "main.helper <-> main.other" || rs[1].Engine {
		t.Errorf("key 1: %q engine=%v", rs[1].Key, rs[1].Engine)
	}
}
