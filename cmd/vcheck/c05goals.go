package main

import (
	"encoding/json"
	"fmt"
	"math"
	"os"
	"path/filepath"
	"regexp"
	"strings"

	"verif/internal/proto"
	"verif/internal/run"
	"verif/internal/term"
)

// Workload B of C05: registered predicates × argument shapes, arithmetic grid, hand-written corner goals.

// ---- shapes ------------------------------------------------------------------------------------------

type c05Shape struct {
	ID      string
	T       *term.Term // variables < 9000 are renamed per argument position; >= 9000 are shared between positions
	Size    int        // approximate size in bytes of the structure the worker builds
	Thrower bool       // calling it throws a ball that is not an error/2 term
	File    bool       // needs the scratch file c05_in.txt
	Heavy   bool       // seconds of CPU when written: arity-1 predicates only
}

func c05Gen(kind string, n int) *term.Term { return term.C("$c05", term.A(kind), term.I(int64(n))) }

func c05Rep(t *term.Term, rep string) *term.Term { return term.WithRep(t, rep) }

var c05ShapeList []*c05Shape
var c05ShapeByID = map[string]*c05Shape{}

func c05AddShape(id string, t *term.Term, opts ...func(*c05Shape)) {
	s := &c05Shape{ID: id, T: t, Size: 8 * term.Size(t)}
	for _, o := range opts {
		o(s)
	}
	if _, dup := c05ShapeByID[id]; dup {
		panic("duplicate shape " + id)
	}
	c05ShapeList = append(c05ShapeList, s)
	c05ShapeByID[id] = s
}

func c05Sized(n int) func(*c05Shape) { return func(s *c05Shape) { s.Size = n } }
func c05Throws(s *c05Shape)          { s.Thrower = true }
func c05NeedsFile(s *c05Shape)       { s.File = true }
func c05IsHeavy(s *c05Shape)         { s.Heavy = true }

func init() {
	A, I, F, V, C, L, PL := term.A, term.I, term.F, term.V, term.C, term.L, term.PL
	add := c05AddShape
	// unbound
	add("var", V(0))
	add("shared_var", V(9000))
	// atoms
	add("a", A("a"))
	add("[]", A("[]"))
	add("''", A(""))
	add("op_atom", A("+"))
	add("multibyte_atom", A("é日本"))
	add("long_atom", c05Gen("long_atom", 10000), c05Sized(10000))
	add("atom_4000", c05Gen("long_atom", 4000), c05Sized(4000))
	add("user_input", A("user_input"))
	add("user_output", A("user_output"))
	add("end_of_file", A("end_of_file"))
	add("spaced_atom", A("hello world"))
	add("{}", A("{}"))
	add("dyn", A("dyn"))
	add("xfx", A("xfx"))
	add("fy", A("fy"))
	add("read", A("read"))
	add("write", A("write"))
	add("append", A("append"))
	add("true", A("true"))
	add("fail", A("fail"))
	add("!", A("!"))
	add("<", A("<"))
	add("double_quotes", A("double_quotes"))
	add("codes", A("codes"))
	add("c05_in.txt", A("c05_in.txt"), c05NeedsFile)
	// integers
	add("0", I(0))
	add("1", I(1))
	add("-1", I(-1))
	add("2", I(2))
	add("max_int", I(math.MaxInt64))
	add("min_int", I(math.MinInt64))
	add("255", I(255))
	add("256", I(256))
	add("1200", I(1200))
	add("97", I(97))
	add("1000000", I(1000000))
	add("0x110000", I(0x110000))
	add("0xD800", I(0xD800))
	add("2^32+65", I(1<<32+65))
	// floats
	add("0.0", F(0))
	add("-0.0", F(math.Copysign(0, -1)))
	add("1.5", F(1.5))
	add("1.0e308", F(1e308))
	add("-1.0e308", F(-1e308))
	add("5.0e-324", F(5e-324))
	// compounds
	add("f(a)", C("f", A("a")))
	add("f(_)", C("f", V(0)))
	add("f(X,X)", C("f", V(0), V(0)))
	add("foo(a,b,c)", C("foo", A("a"), A("b"), A("c")))
	add("a-b", C("-", A("a"), A("b")))
	add("a/1", C("/", A("a"), I(1)))
	add("foo/bar", C("/", A("foo"), A("bar")))
	add("dyn/1", C("/", A("dyn"), I(1)))
	add("stat/1", C("/", A("stat"), I(1)))
	add("atom_length/2", C("/", A("atom_length"), I(2)))
	add("a/ -1", C("/", A("a"), I(-1)))
	add("_/_", C("/", V(0), V(1)))
	add("_:_", C(":", V(0), V(1)))
	add("(a:-b)", C(":-", A("a"), A("b")))
	add("(dyn(_):-true)", C(":-", C("dyn", V(0)), A("true")))
	add("(dyn(3):-_)", C(":-", C("dyn", I(3)), V(0)))
	add("(foo:-1)", C(":-", A("foo"), I(1)))
	add("(_:-true)", C(":-", V(0), A("true")))
	add("dyn(_)", C("dyn", V(0)))
	add("dyn([a|_])", C("dyn", PL(V(0), A("a"))))
	add("dyn([a,b|_]cons)", C("dyn", c05Rep(PL(V(0), A("a"), A("b")), "cons")))
	add("dyn(\"abc\"chars)", C("dyn", c05Rep(term.Chars("abc"), "chars")))
	add("dyn(\"abc\"codes)", C("dyn", c05Rep(term.Codes("abc"), "codes")))
	add("(dyn([a|_]):-true)", C(":-", C("dyn", PL(V(0), A("a"))), A("true")))
	add("(dyn(4):-[a|_]=\"abc\")", C(":-", C("dyn", I(4)), C("=", PL(V(0), A("a")), c05Rep(term.Chars("abc"), "chars"))))
	add("stat(_)", C("stat", V(0)))
	add("(a,1)", C(",", A("a"), I(1)))
	add("(1;a)", C(";", I(1), A("a")))
	add("(a-->b)", C("-->", A("a"), A("b")))
	add("(a-->[x],b,{c},!)", C("-->", A("a"), C(",", L(A("x")), C(",", A("b"), C(",", C("{}", A("c")), A("!"))))))
	add("(1-->b)", C("-->", I(1), A("b")))
	add("(a,[x]-->b)", C("-->", C(",", A("a"), L(A("x"))), A("b")))
	add("_^true", C("^", V(0), A("true")))
	add("'$VAR'(1)", C("$VAR", I(1)))
	add("'$VAR'(-1)", C("$VAR", I(-1)))
	add("'$VAR'(a)", C("$VAR", A("a")))
	add("{a}", C("{}", A("a")))
	add("-(1)", C("-", I(1)))
	add("- - a", C("-", C("-", A("a"))))
	add("1-(-1)", C("-", I(1), I(-1)))
	add("1+2", C("+", I(1), I(2)))
	add("1<< -1", C("<<", I(1), I(-1)))
	add("1/0", C("/", I(1), I(0)))
	add("foo+1", C("+", A("foo"), I(1)))
	// option terms
	add("alias(c05al)", C("alias", A("c05al")))
	add("alias(user_input)", C("alias", A("user_input")))
	add("type(binary)", C("type", A("binary")))
	add("force(true)", C("force", A("true")))
	add("quoted(true)", C("quoted", A("true")))
	add("quoted(_)", C("quoted", V(0)))
	add("max_depth(3)", C("max_depth", I(3)))
	add("eof_action(error)", C("eof_action", A("error")))
	add("reposition(true)", C("reposition", A("true")))
	add("position(_)", C("position", V(0)))
	add("end_of_stream(_)", C("end_of_stream", V(0)))
	add("file_name(_)", C("file_name", V(0)))
	add("mode(read)", C("mode", A("read")))
	add("input", A("input"))
	add("variable_names(_)", C("variable_names", V(0)))
	// lists
	add("[a,b,c]", L(A("a"), A("b"), A("c")))
	add("[a,b,c]cons", c05Rep(L(A("a"), A("b"), A("c")), "cons"))
	add("[a|_]", PL(V(0), A("a")))
	add("[a|_]cons", c05Rep(PL(V(0), A("a")), "cons"))
	add("[a|b]", PL(A("b"), A("a")))
	add("[a|b]cons", c05Rep(PL(A("b"), A("a")), "cons"))
	add("\"abc\"chars", c05Rep(term.Chars("abc"), "chars"))
	add("\"abc\"codes", c05Rep(term.Codes("abc"), "codes"))
	add("[a,b]chars_generic", c05Rep(term.Chars("ab"), "cons"))
	add("[97,98]", L(I(97), I(98)))
	add("[_,a]", L(V(0), A("a")))
	add("[_|_]", PL(V(1), V(0)))
	add("[a-1,b-2]", L(C("-", A("a"), I(1)), C("-", A("b"), I(2))))
	add("[b-1,a-2,b-0]", L(C("-", A("b"), I(1)), C("-", A("a"), I(2)), C("-", A("b"), I(0))))
	add("['X'=_,'Y'=_]", L(C("=", A("X"), V(0)), C("=", A("Y"), V(1))))
	add("[quoted(true)]", L(C("quoted", A("true"))))
	add("[quoted(true),ignore_ops(true),numbervars(true),max_depth(2)]", L(C("quoted", A("true")), C("ignore_ops", A("true")), C("numbervars", A("true")), C("max_depth", I(2))))
	add("[variable_names(['X'=_])]", L(C("variable_names", L(C("=", A("X"), V(0))))))
	add("[variable_names([x])]", L(C("variable_names", L(A("x")))))
	add("[variable_names(['X'=_|_])]", L(C("variable_names", PL(V(1), C("=", A("X"), V(0))))))
	add("[variable_names([1=_])]", L(C("variable_names", L(C("=", I(1), V(0))))))
	add("[max_depth(-1)]", L(C("max_depth", I(-1))))
	add("[max_depth(a)]", L(C("max_depth", A("a"))))
	add("[variables(_),variable_names(_),singletons(_)]", L(C("variables", V(0)), C("variable_names", V(1)), C("singletons", V(2))))
	add("[alias(c05al)]", L(C("alias", A("c05al"))))
	add("[alias(user_input)]", L(C("alias", A("user_input"))))
	add("[alias(_)]", L(C("alias", V(0))))
	add("[type(binary)]", L(C("type", A("binary"))))
	add("[type(text),reposition(true),eof_action(reset)]", L(C("type", A("text")), C("reposition", A("true")), C("eof_action", A("reset"))))
	add("[eof_action(error)]", L(C("eof_action", A("error"))))
	add("[force(true)]", L(C("force", A("true"))))
	add("[force(_)]", L(C("force", V(0))))
	add("[foo]", L(A("foo")))
	add("[a,a,b]", L(A("a"), A("a"), A("b")))
	add("[c,1,b,2.0,f(x),_]", L(A("c"), I(1), A("b"), F(2.0), C("f", A("x")), V(0)))
	add("[[a],[b]]", L(L(A("a")), L(A("b"))))
	add("['1','2']", L(A("1"), A("2")))
	add("\"12\"codes", c05Rep(term.Codes("12"), "codes"))
	add("\" 1\"chars", c05Rep(term.Chars(" 1"), "chars"))
	add("\"0'a\"chars", c05Rep(term.Chars("0'a"), "chars"))
	add("\"0'\"chars", c05Rep(term.Chars("0'"), "chars"))
	add("\"-\"chars", c05Rep(term.Chars("-"), "chars"))
	add("\"- 1\"chars", c05Rep(term.Chars("- 1"), "chars"))
	add("\"1e\"chars", c05Rep(term.Chars("1e"), "chars"))
	add("\"1.\"chars", c05Rep(term.Chars("1."), "chars"))
	add("\"0x\"codes", c05Rep(term.Codes("0x"), "codes"))
	add("\"1 \"codes", c05Rep(term.Codes("1 "), "codes"))
	add("\"/**/1\"codes", c05Rep(term.Codes("/**/1"), "codes"))
	add("\"foo. \"chars", c05Rep(term.Chars("foo. "), "chars"))
	add("['ab']", L(A("ab")))
	add("[-1]", L(I(-1)))
	add("[0x110000]", L(I(0x110000)))
	add("[0]", L(I(0)))
	add("[true,fail]", L(A("true"), A("fail")))
	add("[f(_)|_]", PL(V(1), C("f", V(0))))
	add("[dyn/1,foo/2]", L(C("/", A("dyn"), I(1)), C("/", A("foo"), I(2))))
	add("[a,b|[c]]mixed", c05Rep(PL(L(A("c")), A("a"), A("b")), "cons"))
	add("long_list", c05Gen("long_list", 10000), c05Sized(160000))
	add("long_cons", c05Gen("long_cons", 10000), c05Sized(480000))
	add("long_pairs", c05Gen("long_pairs", 10000), c05Sized(640000))
	add("long_chars", c05Gen("long_chars", 10000), c05Sized(10000))
	add("long_codes", c05Gen("long_codes", 10000), c05Sized(10000))
	// streams
	add("stream_in", c05Gen("stream_in", 0))
	add("stream_bin_in", c05Gen("stream_bin_in", 0))
	add("stream_out", c05Gen("stream_out", 0))
	add("stream_bin_out", c05Gen("stream_bin_out", 0))
	add("user_in_stream", c05Gen("user_in", 0))
	add("user_out_stream", c05Gen("user_out", 0))
	add("file_in_stream", c05Gen("file_in", 0), c05NeedsFile)
	add("file_out_stream", c05Gen("file_out", 0))
	add("closed_stream", c05Gen("file_closed", 0), c05NeedsFile)
	add("f(stream)", C("f", c05Gen("stream_in", 0)))
	// callable goals
	add("member(_,[a,b])", C("member", V(0), L(A("a"), A("b"))))
	add("(a,b)", C(",", A("a"), A("b")))
	add("(true;fail)", C(";", A("true"), A("fail")))
	add("(true->true;fail)", C(";", C("->", A("true"), A("true")), A("fail")))
	add("\\+fail", C("\\+", A("fail")))
	add("call(true)", C("call", A("true")))
	add("repeat", A("repeat"))
	add("throw(c05_ball)", C("throw", A("c05_ball")), c05Throws)
	add("atom_length(1,_)", C("atom_length", I(1), V(0)))
	add("(!,fail)", C(",", A("!"), A("fail")))
	add("=(_)", C("=", V(0)))
	add("_=a", C("=", V(0), A("a")))
	add("assertz(dyn(9))", C("assertz", C("dyn", I(9))))
	// big (the engine's writer is quadratic in the nesting depth: depth 1000 costs 0.1 CPU-s to write, depth 5000
	// several seconds, so the deepest shapes go to the arity-1 predicates and the corner goals only)
	add("deep", c05Gen("deep", 1000), c05Sized(24000))
	add("deep_list", c05Gen("deep_list", 1000), c05Sized(24000))
	add("deep_right", c05Gen("deep_right", 1000), c05Sized(40000))
	add("deep_left", c05Gen("deep_left", 1000), c05Sized(40000))
	add("conj", c05Gen("conj", 1000), c05Sized(24000))
	add("wide", c05Gen("wide", 10000), c05Sized(160000))
	add("deep_5000", c05Gen("deep", 5000), c05Sized(120000), c05IsHeavy)
	add("deep_list_5000", c05Gen("deep_list", 5000), c05Sized(120000), c05IsHeavy)
	add("deep_right_5000", c05Gen("deep_right", 5000), c05Sized(200000), c05IsHeavy)
	add("deep_left_5000", c05Gen("deep_left", 5000), c05Sized(200000), c05IsHeavy)
	add("conj_10000", c05Gen("conj", 10000), c05Sized(240000), c05IsHeavy)
}

// reduced sets
var (
	c05R2 = []string{"var", "a", "[]", "op_atom", "0", "1", "-1", "max_int", "1.5", "f(a)", "a/1", "[a,b,c]", "[a|_]", "\"abc\"chars"}
	c05R3 = []string{"var", "a", "[]", "0", "-1", "max_int", "1.5", "f(a)", "a/1", "[a,b,c]", "[a|_]", "[a|b]", "\"abc\"chars", "stream_out", "member(_,[a,b])", "(a,1)", "user_input"}
	c05T4 = []string{"var", "a", "op_atom", "1"}
	c05M  = []string{"var", "shared_var", "a", "[]", "''", "op_atom", "user_input", "user_output", "dyn", "xfx", "read", "write", "true", "0", "1", "-1", "max_int", "min_int", "1200", "97",
		"0.0", "1.5", "1.0e308", "f(a)", "f(_)", "a-b", "a/1", "dyn/1", "dyn(_)", "(a,1)", "[a,b,c]", "[a,b,c]cons", "[a|_]", "[a|b]", "\"abc\"chars", "\"abc\"codes", "[97,98]",
		"[a-1,b-2]", "[quoted(true)]", "['1','2']", "stream_in", "stream_out", "user_in_stream", "member(_,[a,b])", "throw(c05_ball)"}
)

// c05QuickSize: the engine's term writer and acyclic_term/1 are quadratic in the length of a list and in the nesting
// depth (a 10^4-element list needs > 45 CPU-seconds to be written), so the quick tier builds the big shapes of
// the matrix at a third of their size; the thorough tier uses the full sizes.
func c05QuickSize(kind string, n int) int {
	switch {
	case strings.HasPrefix(kind, "long_") && kind != "long_atom" && n == 10000:
		return 3000
	case kind == "conj" && n == 10000:
		return 3000
	case strings.HasPrefix(kind, "deep") && n == 5000:
		return 2000
	}
	return n
}

// place renames the variables of a shape for argument position pos (and, in the quick tier, scales the big ones).
func (s *c05Shape) place(pos int, quick bool) (*term.Term, int) {
	if quick && s.T.IsCmp("$c05", 2) {
		kind, n := s.T.Args[0].S, int(s.T.Args[1].I)
		if m := c05QuickSize(kind, n); m != n {
			return c05Gen(kind, m), s.Size * m / n
		}
	}
	return s.placeVars(pos), s.Size
}

func (s *c05Shape) placeVars(pos int) *term.Term {
	return term.Map(s.T, func(id int64) *term.Term {
		if id >= 9000 {
			return term.V(id)
		}
		return term.V(id + int64(100*(pos+1)))
	})
}

func c05ShapeText(t *term.Term) string {
	if t.IsCmp("$c05", 2) {
		return fmt.Sprintf("<%s %d>", t.Args[0].S, t.Args[1].I)
	}
	return ""
}

const c05GoalSetup = ":- dynamic(dyn/1).\ndyn(1).\ndyn(2).\nstat(1).\nstat(2).\nc05p(X) :- stat(X).\n"
const c05GoalInput = "foo(X, Y). 'b c'. [1,2|T]. \"str\". "

var c05GoalFiles = map[string]string{"c05_in.txt": "hello(world). foo. \"s\". 0'a. [X|Y].\n",
	// files that load themselves or each other, and files that are not Prolog text
	"c05_self.pl":  ":- ensure_loaded(c05_self).\nc05_self_loaded.\n",
	"c05_self2.pl": ":- consult(c05_self2).\nc05_self2_loaded.\n",
	"c05_self3.pl": "c05_self3_before.\n:- [c05_self3].\nc05_self3_after.\n",
	"c05_self4.pl": ":- initialization(consult(c05_self4)).\nc05_self4_loaded.\n",
	"c05_a.pl":     ":- ensure_loaded(c05_b).\nc05_a_loaded.\n",
	"c05_b.pl":     ":- ensure_loaded(c05_c).\nc05_b_loaded.\n",
	"c05_c.pl":     ":- consult([c05_a, c05_b]).\nc05_c_loaded.\n",
	"c05_bad.pl":   "c05_bad_before.\nfoo(. bar\n",
	"c05_bad2.pl":  "\xff\xfe(",
	"c05_bad3.pl":  ":- foo(.\n",
	"c05_bad4.pl":  "c05_bad4 :- \"unterminated\n",
}

// c05GoalItem builds the case for pred(shapes…).
func c05GoalItem(family, name string, ids []string, via string, quick bool) *Item {
	p := c05GoalP{Setup: []string{c05GoalSetup}, Name: name, Via: via, Budget: c05GoalBudget, Input: c05GoalInput}
	m := c05Meta{Family: family, Pred: fmt.Sprintf("%s/%d", name, len(ids)), Shapes: ids}
	var parts []string
	size := 0
	needFile := false
	for i, id := range ids {
		s := c05ShapeByID[id]
		if s == nil {
			panic("unknown shape " + id)
		}
		t, sz := s.place(i, quick)
		p.Args = append(p.Args, t)
		if sz != s.Size {
			parts = append(parts, "<"+s.ID+" scaled to "+fmt.Sprint(t.Args[1].I)+">")
		} else {
			parts = append(parts, "<"+s.ID+">")
		}
		size += sz
		m.Thrower = m.Thrower || s.Thrower
		needFile = needFile || s.File
	}
	if name == "throw" {
		m.NoVocab = true // the ball is the argument itself
	}
	m.Goal = term.AtomText(name)
	if len(parts) > 0 {
		m.Goal += "(" + strings.Join(parts, ", ") + ")"
	}
	m.Size = size
	c := &proto.Case{Kind: "c05goal"}
	if needFile {
		c.Files = c05GoalFiles
	}
	c.P, _ = json.Marshal(&p)
	meta, _ := json.Marshal(&m)
	return &Item{Cases: []*proto.Case{c}, Meta: meta, Note: m.Goal}
}

// c05TextGoal builds the case for a hand-written goal text.
func c05TextGoal(family, text, input string, args ...*term.Term) *Item {
	if input == "" {
		input = c05GoalInput
	}
	p := c05GoalP{Setup: []string{c05GoalSetup}, Via: "text", Text: text + " .", Budget: c05GoalBudget, Input: input, Args: args}
	m := c05Meta{Family: family, Goal: text, NoVocab: strings.Contains(text, "throw"), Size: len(text)}
	for _, a := range args {
		if a.IsCmp("$c05", 2) {
			m.Size += c05GenSize(a.Args[0].S, int(a.Args[1].I))
			m.Goal += " % verif_in: " + c05ShapeText(a)
		}
	}
	c := &proto.Case{Kind: "c05goal", Files: c05GoalFiles}
	c.P, _ = json.Marshal(&p)
	meta, _ := json.Marshal(&m)
	return &Item{Cases: []*proto.Case{c}, Meta: meta, Note: text}
}

// c05GenSize: bytes of the structure a '$c05'(Kind, N) marker stands for.
func c05GenSize(kind string, n int) int {
	switch kind {
	case "long_atom", "long_chars", "long_codes":
		return n
	case "long_list", "wide":
		return 16 * n
	case "long_cons":
		return 48 * n
	case "long_pairs":
		return 64 * n
	case "deep", "deep_list", "conj":
		return 24 * n
	case "deep_right", "deep_left":
		return 40 * n
	}
	return 16
}

// ---- the matrix --------------------------------------------------------------------------------------

func (c *c05) genGoals(cx *Ctx) []*Item {
	var items []*Item
	seen := map[string]bool{}
	emit := func(name string, ids []string, via string) {
		k := via + " " + name + " " + strings.Join(ids, "\x00")
		if seen[k] {
			return
		}
		seen[k] = true
		items = append(items, c05GoalItem("goal-matrix", name, append([]string(nil), ids...), via, !cx.Thorough()))
	}
	var full, all []string // all = full + the heavy shapes
	for _, s := range c05ShapeList {
		all = append(all, s.ID)
		if !s.Heavy {
			full = append(full, s.ID)
		}
	}
	thorough := cx.Thorough()
	for _, pr := range c.procs {
		if pr.Name == "halt" && pr.Arity <= 1 {
			cx.AddExtra("procedures_excluded_halt", 1)
			continue
		}
		r := cx.Rng("c05/matrix/" + pr.pi())
		pick := func(set []string) string { return set[r.Intn(len(set))] }
		n := pr.Arity
		switch {
		case n == 0:
			emit(pr.Name, nil, "direct")
			emit(pr.Name, nil, "call")
		case n == 1:
			for _, s := range all {
				emit(pr.Name, []string{s}, "direct")
			}
		case n == 2:
			set := c05R2
			if thorough {
				set = c05M
			}
			for _, a := range set {
				for _, b := range set {
					emit(pr.Name, []string{a, b}, "direct")
				}
			}
			// every shape of the full list next to a partner drawn from it (thorough: in both positions, 2 partners each;
			// quick: a seeded half of the shapes, one position)
			if thorough {
				for k := 0; k < 2; k++ {
					for _, s := range full {
						emit(pr.Name, []string{s, pick(full)}, "direct")
						emit(pr.Name, []string{pick(full), s}, "direct")
					}
				}
			} else {
				for _, s := range full {
					if r.Intn(2) == 0 {
						continue
					}
					row := []string{pick(full), pick(full)}
					row[r.Intn(2)] = s
					emit(pr.Name, row, "direct")
				}
			}
		case n == 3:
			set := c05R3[:16]
			if thorough {
				for _, a := range set {
					for _, b := range set {
						for _, d := range set {
							emit(pr.Name, []string{a, b, d}, "direct")
						}
					}
				}
			} else {
				for _, row := range c05Covering(c05R3, 3) {
					emit(pr.Name, row, "direct")
				}
			}
			if thorough {
				for k := 0; k < 1; k++ {
					for _, s := range full {
						for pos := 0; pos < 3; pos++ {
							row := []string{pick(full), pick(full), pick(full)}
							row[pos] = s
							emit(pr.Name, row, "direct")
						}
					}
				}
			} else {
				for _, s := range full {
					if r.Intn(2) == 0 {
						continue
					}
					row := []string{pick(full), pick(full), pick(full)}
					row[r.Intn(3)] = s
					emit(pr.Name, row, "direct")
				}
			}
		default:
			rows := c05Covering(c05R3, n)
			if !thorough {
				// a seeded third of the covering rows
				var sub [][]string
				for _, row := range rows {
					if r.Intn(3) == 0 {
						sub = append(sub, row)
					}
				}
				rows = sub
			}
			for _, row := range rows {
				emit(pr.Name, row, "direct")
			}
			if n <= 5 {
				// all combinations of a few arguments that pass the first validations, to reach the bodies
				for _, row := range c05Product(c05T4, n) {
					emit(pr.Name, row, "direct")
				}
			}
			for _, s := range full {
				if !thorough && r.Intn(2) == 0 {
					continue
				}
				row := make([]string, n)
				for i := range row {
					row[i] = pick(c05M)
				}
				row[r.Intn(n)] = s
				emit(pr.Name, row, "direct")
			}
		}
	}
	// a sample of the same goals as one term through call/1 (arguments compiled as constants)
	rc := cx.Rng("c05/matrix/call")
	for _, it := range items {
		if rc.Intn(20) != 0 {
			continue
		}
		var m c05Meta
		_ = decodeMeta(it, &m)
		i := strings.LastIndexByte(m.Pred, '/')
		items = append(items, c05GoalItem("goal-matrix", m.Pred[:i], m.Shapes, "call", !cx.Thorough()))
	}
	// ... and inside catch/3: every goal of the predicates that take file names or streams, a sample of the rest
	rk := cx.Rng("c05/matrix/catch")
	hostPreds := map[string]bool{"open": true, "consult": true, "close": true, "set_stream_position": true, "set_input": true, "set_output": true,
		"flush_output": true, "stream_property": true, "read_term": true, "write_term": true, "put_char": true, "put_byte": true, "get_char": true,
		"get_byte": true, "peek_char": true, "peek_byte": true, "nl": true}
	for _, it := range items {
		var m c05Meta
		_ = decodeMeta(it, &m)
		i := strings.LastIndexByte(m.Pred, '/')
		if i < 0 || len(it.Cases) == 0 {
			continue
		}
		var gp c05GoalP
		if json.Unmarshal(it.Cases[0].P, &gp) != nil || gp.Via != "direct" {
			continue
		}
		if hostPreds[m.Pred[:i]] && (cx.Thorough() || rk.Intn(4) == 0) || rk.Intn(20) == 0 {
			items = append(items, c05GoalItem("goal-matrix", m.Pred[:i], m.Shapes, "catch", !cx.Thorough()))
		}
	}
	cx.AddExtra("shapes", int64(len(c05ShapeList)))
	items = append(items, c.genArith(cx)...)
	items = append(items, c.genCorner(cx)...)
	return items
}

// c05Product returns all rows of length cols over set.
func c05Product(set []string, cols int) [][]string {
	rows := [][]string{{}}
	for k := 0; k < cols; k++ {
		var next [][]string
		for _, r := range rows {
			for _, s := range set {
				next = append(next, append(append([]string(nil), r...), s))
			}
		}
		rows = next
	}
	return rows
}

// c05Covering returns rows over set (padded to the prime 17) in which every pair of columns shows every
// pair of values: row(i,j) = (j, i, i+j, i+2j, …) mod 17 — a strength-2 orthogonal array for up to 18 columns.
func c05Covering(set []string, cols int) [][]string {
	const p = 17
	vals := make([]string, p)
	for i := range vals {
		vals[i] = set[i%len(set)]
	}
	var rows [][]string
	for i := 0; i < p; i++ {
		for j := 0; j < p; j++ {
			row := make([]string, cols)
			for k := 0; k < cols; k++ {
				switch k {
				case 0:
					row[k] = vals[j]
				default:
					row[k] = vals[(i+(k-1)*j)%p]
				}
			}
			rows = append(rows, row)
		}
	}
	return rows
}

// ---- arithmetic grid ---------------------------------------------------------------------------------

var (
	c05Unary  = strings.Fields(`- + abs sign float_integer_part float_fractional_part float floor truncate round ceiling sin cos atan exp log sqrt \ asin acos tan foo`)
	c05Binary = strings.Fields(`+ - * // / rem mod ** >> << /\ \/ div max min ^ atan2 xor foo`)
)

func c05Numbers() []*term.Term {
	I, F := term.I, term.F
	return []*term.Term{I(0), I(1), I(-1), I(2), I(3), I(63), I(64), I(-64), I(math.MaxInt64), I(math.MinInt64), I(1 << 32), I(-7),
		F(0), F(math.Copysign(0, -1)), F(1.5), F(-1.5), F(1e308), F(-1e308), F(5e-324), F(1e10), F(9.3e18)}
}

func (c *c05) genArith(cx *Ctx) []*Item {
	nums := c05Numbers()
	var items []*Item
	r := cx.Rng("c05/arith")
	keep := func() bool { return cx.Thorough() || r.Intn(3) == 0 }
	mk := func(e *term.Term) {
		p := c05GoalP{Name: "is", Via: "direct", Args: []*term.Term{term.V(1), e}, Budget: c05GoalBudget}
		m := c05Meta{Family: "goal-arith", Pred: "is/2", Goal: "_ is " + e.String(), Size: 64}
		cs := &proto.Case{Kind: "c05goal"}
		cs.P, _ = json.Marshal(&p)
		meta, _ := json.Marshal(&m)
		items = append(items, &Item{Cases: []*proto.Case{cs}, Meta: meta, Note: m.Goal})
	}
	for _, f := range c05Unary {
		for _, x := range nums {
			mk(term.C(f, x))
		}
	}
	for _, f := range c05Binary {
		for _, x := range nums {
			for _, y := range nums {
				if keep() {
					mk(term.C(f, x, y))
				}
			}
		}
	}
	// comparison of the extremes (mixed integer/float)
	for _, op := range []string{"=:=", "<", ">="} {
		for _, x := range nums {
			for _, y := range nums {
				if r.Intn(4) != 0 {
					continue
				}
				p := c05GoalP{Name: op, Via: "direct", Args: []*term.Term{x, y}, Budget: c05GoalBudget}
				m := c05Meta{Family: "goal-arith", Pred: op + "/2", Goal: x.String() + " " + op + " " + y.String(), Size: 64}
				cs := &proto.Case{Kind: "c05goal"}
				cs.P, _ = json.Marshal(&p)
				meta, _ := json.Marshal(&m)
				items = append(items, &Item{Cases: []*proto.Case{cs}, Meta: meta, Note: m.Goal})
			}
		}
	}
	return items
}

// ---- hand-written corner goals -----------------------------------------------------------------------

type c05CornerGoal struct {
	Text  string
	Input string
	Args  []*term.Term
}

// c05MustReturn: corner goals made of library predicates on finite arguments only, with no goal that can run forever: they
// have to return by themselves (family "goal-corner-finite": a step-budget hit is a violation, as for the matrix)
var c05MustReturn = []string{
	"N = L, length(L, N)", "N = L, length([a|L], N)", "L = N, length([a|L], N)", "length(L, L)", "length([a,b|X], X)", "X = Y, length([a,b|X], Y)",
	"L = [a|L1], N = L1, length(L, N)", "length(L, N), N >= 2, !", "T = N, length([a,b,c|T], N)", "atom_length(A, A)", "X = Y, atom_length(X, Y)",
	"append(X, [a|X], [b])", "X = f(Y), Y = 1, X = f(1)", "msort([c,a,b|T], L)", "sort(L, L)", "N = T, nth0(N, [a,b|T], E)", "N = T, nth1(N, [a|T], E)",
	"succ(X, X)", "X = Y, succ(X, Y)", "between(1, N, N)", "N = M, between(1, N, M)", "atom_chars(X, X)", "X = Y, atom_chars(X, Y)", "number_codes(X, X)",
	"copy_term(X, X), X = f(X1), X1 = a", "functor(F, F, 1)", "functor(F, foo, F)", "X = Y, functor(X, foo, Y)", "T =.. T", "X = Y, X =.. Y", "arg(N, f(N), A)",
	"sub_atom(abc, B, B, B, S)", "atom_concat(X, X, abab)", "atom_concat(X, Y, X)", "keysort(L, L)", "length(L, 3), L = [A|L2], length(L2, N)",
}

func (c *c05) genCorner(cx *Ctx) []*Item {
	var items []*Item
	for _, g := range c05MustReturn {
		items = append(items, c05TextGoal("goal-corner-finite", g, ""))
	}
	for _, g := range c05Corner {
		items = append(items, c05TextGoal("goal-corner", g, ""))
	}
	for _, g := range c05CornerWith {
		items = append(items, c05TextGoal("goal-corner", g.Text, g.Input, g.Args...))
	}
	return items
}

var c05CornerWith = []c05CornerGoal{
	{Text: "read(X)", Input: "foo("},
	{Text: "read(X)", Input: "a b."},
	{Text: "read(X)", Input: "'abc"},
	{Text: "read(X)", Input: "X = [-"},
	{Text: "read(X)", Input: "[- "},
	{Text: "read(X)", Input: "\"abc"},
	{Text: "read(X)", Input: "/* abc"},
	{Text: "read(X)", Input: "0'"},
	{Text: "read(X)", Input: "."},
	{Text: "read(X)", Input: "foo :- ."},
	{Text: "read(X)", Input: "a. b. c"},
	{Text: "read(X), read(Y), read(Z), read(W)", Input: "a. b. c"},
	{Text: "read(X)", Input: "\xff\xfe."},
	{Text: "read(X)", Input: "a\x00b."},
	{Text: "read(X)", Input: ""},
	{Text: "read(X), read(Y), read(Z)", Input: ""},
	{Text: "read_term(user_input, X, [variable_names(Vs), singletons(S), variables(V)])", Input: "f(X, Y, X, _)."},
	{Text: "get_char(A), get_char(B), get_char(C), get_char(D)", Input: "ab"},
	{Text: "peek_char(A), get_char(B), peek_char(C), get_char(D), peek_char(E), get_char(F)", Input: "a"},
	{Text: "get_char(A)", Input: "\xff"},
	{Text: "peek_char(A)", Input: "\xff"},
	{Text: "get_code(A), peek_code(B)", Input: "\xe9"},
	{Text: "at_end_of_stream", Input: ""},
	{Text: "at_end_of_stream", Input: "x"},
	{Text: "get_char(_), at_end_of_stream, get_char(E), at_end_of_stream", Input: "x"},
	{Text: "verif_in(0, A), atom_length(A, N)", Args: []*term.Term{c05Gen("long_atom", 1000000)}},
	{Text: "verif_in(0, A), open(A, write, S)", Args: []*term.Term{c05Gen("long_atom", 10000)}},
	{Text: "verif_in(0, A), open(A, read, S)", Args: []*term.Term{c05Gen("long_atom", 10000)}},
	{Text: "verif_in(0, A), consult(A)", Args: []*term.Term{c05Gen("long_atom", 10000)}},
	{Text: "verif_in(0, A), sub_atom(A, B, 2, 0, S)", Args: []*term.Term{c05Gen("long_atom", 300)}},
	{Text: "verif_in(0, A), sub_atom(A, B, L, C, S)", Args: []*term.Term{c05Gen("long_atom", 4000)}},
	{Text: "verif_in(0, A), sub_atom(A, B, 1, C, S)", Args: []*term.Term{c05Gen("long_atom", 4000)}},
	{Text: "verif_in(0, A), sub_atom(A, B, L, C, S)", Args: []*term.Term{c05Gen("long_atom", 10000)}},
	{Text: "verif_in(0, A), atom_concat(X, Y, A)", Args: []*term.Term{c05Gen("long_atom", 10000)}},
	{Text: "verif_in(0, T), copy_term(T, U), T == U, U = T, ground(T), acyclic_term(T), term_variables(T, Vs)", Args: []*term.Term{c05Gen("deep", 5000)}},
	{Text: "verif_in(0, T), assertz(dyn(T)), dyn(X), X == T, clause(dyn(Y), true), retract(dyn(T))", Args: []*term.Term{c05Gen("deep", 5000)}},
	{Text: "verif_in(0, T), asserta((dyn(0) :- T)), clause(dyn(0), B)", Args: []*term.Term{c05Gen("conj", 10000)}},
	{Text: "verif_in(0, T), write_canonical(T), writeq(T), write_term(T, [max_depth(3)])", Args: []*term.Term{c05Gen("deep", 2000)}},
	{Text: "verif_in(0, T), write_canonical(T), print_message(a, b)", Args: []*term.Term{c05Gen("long_cons", 3000)}},
	{Text: "verif_in(0, T), X is T", Args: []*term.Term{c05Gen("deep_left", 5000)}},
	{Text: "verif_in(0, T), T =.. L, U =.. L, functor(T, N, A), functor(V, N, A), arg(10000, T, X)", Args: []*term.Term{c05Gen("wide", 10000)}},
	{Text: "verif_in(0, L), length(L, N), sort(L, S), append(L, L, LL), nth0(9999, L, E), nth1(I, L, 5000)", Args: []*term.Term{c05Gen("long_list", 10000)}},
	{Text: "verif_in(0, L), keysort(L, S), findall(K, member(K-_, S), Ks)", Args: []*term.Term{c05Gen("long_pairs", 10000)}},
	{Text: "verif_in(0, L), atom_codes(A, L), atom_length(A, N), atom_chars(A, Cs), atom_codes(B, Cs)", Args: []*term.Term{c05Gen("long_codes", 10000)}},
	{Text: "verif_in(0, L), maplist(=(z), L)", Args: []*term.Term{c05Gen("long_chars", 10000)}},
	{Text: "verif_in(0, G), call(G)", Args: []*term.Term{c05Gen("conj", 10000)}},
	{Text: "verif_in(0, S), read(S, X), read(S, Y), read(S, Z), read(S, W), read(S, V), read(S, U)", Args: []*term.Term{c05Gen("stream_in", 0)}},
	{Text: "verif_in(0, S), get_byte(S, A), peek_byte(S, B), get_byte(S, B), get_byte(S, C), get_byte(S, D), get_byte(S, E), get_byte(S, F), get_byte(S, G)", Args: []*term.Term{c05Gen("stream_bin_in", 0)}},
	{Text: "verif_in(0, S), close(S), close(S)", Args: []*term.Term{c05Gen("file_out", 0)}},
	{Text: "verif_in(0, S), close(S), write(S, a)", Args: []*term.Term{c05Gen("file_out", 0)}},
	{Text: "verif_in(0, S), close(S), flush_output(S)", Args: []*term.Term{c05Gen("file_out", 0)}},
	{Text: "verif_in(0, S), close(S), stream_property(S, P)", Args: []*term.Term{c05Gen("file_out", 0)}},
	{Text: "verif_in(0, S), read(S, X), close(S), read(S, Y)", Args: []*term.Term{c05Gen("file_in", 0)}},
	{Text: "verif_in(0, S), set_stream_position(S, -1)", Args: []*term.Term{c05Gen("file_in", 0)}},
	{Text: "verif_in(0, S), set_stream_position(S, 9223372036854775807), read(S, X)", Args: []*term.Term{c05Gen("file_in", 0)}},
	{Text: "verif_in(0, S), set_stream_position(S, 3), read(S, X), stream_property(S, position(P))", Args: []*term.Term{c05Gen("file_in", 0)}},
	{Text: "verif_in(0, S), set_input(S), read(X), close(S), read(Y)", Args: []*term.Term{c05Gen("file_in", 0)}},
	{Text: "verif_in(0, S), set_output(S), write(a), close(S), write(b), nl", Args: []*term.Term{c05Gen("file_out", 0)}},
	{Text: "verif_in(0, S), compare(O, S, S), S == S, sort([S, a, 1, S], L), copy_term(S, T), T == S", Args: []*term.Term{c05Gen("stream_out", 0)}},
	{Text: "verif_in(0, S), write(S), writeq(f(S)), write_canonical([S]), assertz(dyn(S)), dyn(X)", Args: []*term.Term{c05Gen("stream_out", 0)}},
}

var c05Corner = []string{
	// term construction and inspection
	"functor(T, foo, 1000000)", "functor(T, foo, 10000000)", "functor(T, foo, -1)", "functor(T, f(a), 1)", "functor(T, 1, 1)", "functor(T, 1.5, 0)", "functor(T, N, 1)",
	"functor(T, foo, a)", "functor(T, foo(a), 0)", "functor(T, foo, 9223372036854775807)", "functor(T, [], 2)", "functor(T, '.', 2)", "functor([a|b], N, A)", "functor(T, foo, 1.0)",
	"arg(0, f(a), X)", "arg(-1, f(a), X)", "arg(9223372036854775807, f(a), X)", "arg(a, f(a), X)", "arg(1, a, X)", "arg(N, f(a), X)", "arg(1, [a,b], X)", "arg(2, \"ab\", X)", "arg(3, [a|T], X)",
	"X =.. Y", "X =.. [a|_]", "X =.. [a|b]", "X =.. [1, 2]", "X =.. [f(a)]", "X =.. []", "X =.. [1]", "X =.. [foo, 1|_]", "f(a) =.. [g|T]", "f(a) =.. [f|b]", "a =.. [a|b]", "X =.. [f(a), 1]", "X =.. [[]]", "X =.. [[], 1]", "\"ab\" =.. L",
	"copy_term(X, Y)", "copy_term(f(X, Y, X), Z)", "copy_term([a|T], Z)", "copy_term(\"abc\", Z)",
	"length(L, 1000000)", "length(L, L)", "length([a|L], L)", "length(L, -1)", "length(a, N)", "length([a|b], N)", "length(L, a)", "length([a,b|T], 1)", "length(L, 1.5)",
	"length(L, 9223372036854775807)", "length([a|T], 9223372036854775807)", "length(\"abc\", N)", "length([a,b|T], N)", "length(L, 4611686018427387904)", "length(L, 1152921504606846976)",
	"atom_length(abc, -1)", "atom_length(abc, a)", "atom_length(1, X)", "atom_length(f(a), X)", "atom_length(X, Y)", "atom_length('', N)", "atom_length(abc, 9223372036854775807)",
	"sub_atom(abc, -1, _, _, S)", "sub_atom(abc, B, -1, A, S)", "sub_atom(abc, 1, 5, _, S)", "sub_atom(abc, B, L, A, 1)", "sub_atom('', B, L, A, S)", "sub_atom(abc, B, 2, 0, S)", "sub_atom(X, B, L, A, S)",
	"sub_atom(abc, a, L, A, S)", "sub_atom(abc, B, L, A, bc)", "sub_atom(abc, B, L, A, xyz)", "sub_atom(abc, B, L, A, '')", "sub_atom(abc, B, L, A, abcd)", "sub_atom('', B, L, A, a)", "sub_atom(abc, 1, L, A, bc)", "sub_atom(abcabc, B, L, A, bc)", "sub_atom(abc, B, L, 9223372036854775807, S)", "sub_atom(1, B, L, A, S)", "sub_atom(abc, B, L, A, f(x))", "sub_atom('é日本', B, 1, A, S)",
	"atom_concat(X, Y, Z)", "atom_concat(a, X, Y)", "atom_concat(X, Y, abc)", "atom_concat(1, a, X)", "atom_concat(a, f(b), X)", "atom_concat(X, Y, 1)", "atom_concat(a, b, 1)", "atom_concat(X, Y, 'é日')", "atom_concat(X, b, abc)",
	"char_code(X, -1)", "char_code(X, 1114112)", "char_code(X, 55296)", "char_code(ab, X)", "char_code(X, 4294967361)", "char_code(X, Y)", "char_code(a, b)", "char_code(1, X)", "char_code('', X)", "char_code(X, 0)", "char_code(X, 65533)",
	"atom_chars(X, ['ab'])", "atom_chars(X, [a|_])", "atom_chars(X, [a|b])", "atom_chars(X, [a, 1])", "atom_chars(X, Y)", "atom_chars(1, X)", "atom_chars(f(a), X)", "atom_chars(abc, [a|b])", "atom_chars(abc, [a, 'bc'])", "atom_chars('', X)", "atom_chars(X, [])",
	"atom_chars(1, ['1'])", "atom_chars(1.0, X)",
	"atom_codes(X, [0'a, -1])", "atom_codes(X, [1114112])", "atom_codes(X, [a])", "atom_codes(X, [0'a|_])", "atom_codes(abc, [0'a|b])", "atom_codes(X, [55296])", "atom_codes(X, [0])", "atom_codes(abc, [-1|_])", "atom_codes(1, X)",
	"number_codes(X, [0'1|_])", "number_codes(X, [a])", "number_codes(X, \"1x\")", "number_codes(X, [0' , 0'1])", "number_codes(X, \"0'\")", "number_codes(X, \"0x\")", "number_codes(X, [])", "number_codes(X, [-1])",
	"number_codes(X, [0'0, 0''', 0'a])", "number_codes(X, \"0'ab\")", "number_codes(X, \"- 1\")", "number_codes(X, \"-\")", "number_codes(X, \"- -1\")", "number_codes(X, \"1.0e\")", "number_codes(X, \"1.e5\")",
	"number_codes(X, \"0b\")", "number_codes(X, \"0o8\")", "number_codes(X, \"/*c*/ 1\")", "number_codes(X, \"% c\\n1\")", "number_codes(X, \"1 \")", "number_codes(X, \"1.\")", "number_codes(X, \"1. \")", "number_codes(X, \"0'\\\\\")",
	"number_codes(X, \"0'\\\\x41\\\\\")", "number_codes(X, \"0'\\\\x\")", "number_codes(X, \"99999999999999999999\")", "number_codes(X, \"-9223372036854775808\")", "number_codes(X, \"1.0e999\")", "number_codes(X, \"0'''\")", "number_codes(X, \"0''\")",
	"number_codes(a, X)", "number_codes(X, Y)", "number_codes(1, [0'1|b])", "number_codes(1, [a|_])", "number_codes(1.5, X)", "number_codes(-0.0, X)", "number_codes(1.0e308, X)", "number_codes(X, [1114112])", "number_codes(f(x), \"1\")",
	"number_chars(X, ['-'])", "number_chars(X, ['-', ' ', '1'])", "number_chars(X, [])", "number_chars(X, ['1', '.'])", "number_chars(X, ['0', '''', a])", "number_chars(X, ['0', ''''])", "number_chars(X, ['1', e, '5'])",
	"number_chars(X, ['1'|_])", "number_chars(X, ['1'|b])", "number_chars(X, [1])", "number_chars(X, ['12'])", "number_chars(X, [' ', '1'])", "number_chars(X, ['\\n', '1'])", "number_chars(X, ['0', x])", "number_chars(X, ['0', '''', '\\\\'])",
	"number_chars(X, ['+', '1'])", "number_chars(X, ['(', '1', ')'])", "number_chars(X, [a])", "number_chars(1, X)", "number_chars(1, ['1', '2'])", "number_chars(a, ['1'])", "number_chars(1, ['é'])", "number_chars(X, ['１'])",
	// operators
	"op(1200, xfx, [])", "op(1200, xfx, [[]])", "op(1201, xfx, a)", "op(-1, xfx, a)", "op(200, xfx, ',')", "op(200, foo, a)", "op(200, xfx, [a|_])", "op(200, xfx, [a|b])", "op(0, xfx, nonop)", "op(200, xf, +)",
	"op(1000, xfy, '|')", "op(1001, xfy, '|')", "op(200, fy, '{}')", "op(200, xfx, 1)", "op(200, xfx, _)", "op(_, xfx, a)", "op(200, _, a)", "op(a, xfx, a)", "op(200, 1, a)", "op(200, xfx, [a, 1])", "op(200, fx, '|')", "op(0, xfy, '|')",
	"op(200, xfx, [a, a, a])", "op(700, xfx, [=, is])", "op(0, xfx, =), X = 1", "op(200, xf, f), op(200, xfx, f)", "op(1200, fy, a), op(1200, yf, a)", "op(9223372036854775807, xfx, a)", "op(200, xfx, [])",
	"current_op(P, T, 1)", "current_op(1201, T, O)", "current_op(P, foo, O)", "current_op(a, T, O)", "current_op(P, T, O)", "current_op(P, T, f(x))", "current_op(1.5, T, O)", "current_op(P, 1, O)", "current_op(-1, T, O)", "current_op(200, xfy, ^)",
	// streams
	"stream_property(foo, P)", "stream_property(S, foo)", "stream_property(S, alias(1))", "stream_property(S, position(a))", "stream_property(user_input, P)", "stream_property(S, P)", "stream_property(S, alias(A))",
	"stream_property(S, file_name(1))", "stream_property(S, f(a, b))", "stream_property(1, P)", "stream_property(S, 1)", "stream_property(S, input)", "stream_property(S, type(T))", "stream_property(S, type(1))",
	"set_stream_position(user_input, 0)", "set_stream_position(S, foo)", "current_input(S), set_stream_position(S, -1)", "current_input(S), set_stream_position(S, a)", "set_stream_position(foo, 0)", "set_stream_position(user_input, _)",
	"read_term(X, [foo])", "read_term(X, [variables(a)])", "read_term(X, foo)", "read_term(X, [singletons(_)|_])", "read_term(user_output, X, [])", "read_term(X, [variable_names(1)])", "read_term(X, [variables(V), variables(W)])",
	"read_term(X, [f(a, b)])", "read_term(X, [_])", "read_term(X, _)", "read_term(X, [singletons(S)|foo])", "read_term(_, X, [])", "read_term(foo, X, [])", "read_term(f(x), X, [])", "read_term(1, X, [])", "read(user_output, X)", "read(1)", "read(foo)",
	"write_term(a, [variable_names([a])])", "write_term(f(X), [variable_names(['X'=X|_])])", "write_term(f(X), [variable_names(['X'=X|foo])])", "write_term(a, [variable_names([1=X])])", "write_term(a, [max_depth(-1)])",
	"write_term([1,2,3], [max_depth(1)])", "write_term(f(f(f(a))), [max_depth(2)])", "write_term(a, [max_depth(9223372036854775807)])", "write_term(a, [quoted(maybe)])", "write_term(a, [quoted])", "write_term(a, [numbervars(true)])",
	"write_term('$VAR'(-1), [numbervars(true)])", "write_term('$VAR'(9223372036854775807), [numbervars(true)])", "write_term('$VAR'(a), [numbervars(true)])", "write_term('$VAR'(1.5), [numbervars(true)])", "write_term('$VAR'(_), [numbervars(true)])",
	"write_term('$VAR'(25), [numbervars(true)])", "write_term('$VAR'(26), [numbervars(true)])", "write_term('$VAR'(1, 2), [numbervars(true)])", "write_term('$VAR', [numbervars(true)])", "write_term('$VAR'(-9223372036854775808), [numbervars(true)])",
	"write_term(- (1), [])", "write_term(1 - -1, [])", "write_term(a, foo)", "write_term(a, [a|b])", "write_term(a, [quoted(true)|_])", "write_term(a, _)", "write_term(a, [_])", "write_term(a, [quoted(_)])", "write_term(a, [max_depth(a)])",
	"write_term(f(X, Y), [variable_names(['X'=X, 'X'=Y])])", "write_term(f(X), [variable_names(['a b'=X])])", "write_term(X, [variable_names([foo=X])])", "write_term(f(X), [variable_names(['X'=1])])", "write_term(a, [variable_names(_)])",
	"write_term(a, [variable_names([_])])", "write_term(a, [variable_names([_=_])])", "write_term(a, [variable_names(['X'=_, _])])", "write_term(a, [variable_names([f(x)=_])])", "write_term(a, [variable_names(foo)])",
	"write_term(foo, a, [])", "write_term(_, a, [])", "write_term(user_input, a, [])", "write_term(1, a, [])", "write_term([a|b], [max_depth(1)])", "write_term([a,b,c|T], [max_depth(2)])", "write_term(\"abc\", [max_depth(2)])", "write_term({a,b}, [])",
	"write_term(f(:-, (:-), [:-], - - a, 1 - (2 - 3), (a , b), (a :- b, c ; d -> e), \\+ (a), - (-(1)), 2 ** -1, 1 = :- , [(a , b)], {-}, '$VAR'(3), \"s\", 'a b', [], '[]', {}, '{}'(x), -(3), - 3, 1.0e10, -0.0), [quoted(true)])",
	"write_canonical(f(X, Y, X, _, 'A', \"str\", [a|T], {x}, - 1, -(1), 1 - 2, 'hello world', [], '\\n', ''))", "writeq('\\x0\\')", "writeq('\\x7f\\')", "writeq(- (1))", "writeq(-(-(1)))", "writeq(1 - (-1))", "writeq(- a)", "writeq(-(-(a)))", "writeq([-])", "writeq(-[1])",
	"writeq(f(',', '|', '[]', '{}', ;, !, (a|b)))", "writeq((a :- b :- c))", "writeq(:-(:-(a)))", "writeq((:- :- a))", "writeq(\\+ \\+ a)", "writeq(1 rem 2 mod 3)", "writeq(- (1) ^ 2)", "writeq(1.0e100)", "writeq(1.0e-100)", "writeq(9223372036854775807)", "writeq(-9223372036854775808)",
	"open(f, read, S, [foo])", "open(f, write, S, [alias(user_input)])", "open(f, write, S, [type(foo)])", "open(f, write, S, [alias(_)])", "open(f, foo, S)", "open(f, write, s)", "open(1, write, S)", "open('', write, S)", "open('.', write, S)",
	"open('/', read, S)", "open('/', write, S)", "open('a/b/c', write, S)", "open(f, write, S, [eof_action(foo)])", "open(f, write, S, [reposition(foo)])", "open(f, write, S, [alias(a), alias(a)])", "open(f, write, S, [alias(a)]), open(g, write, T, [alias(a)])",
	"open('a\\x0\\b', write, S)", "open(f, write, S, [type(binary)]), put_byte(S, 0), put_char(S, a)", "open(f, write, S, [type(binary)]), write(S, a)", "open(f, write, S), put_byte(S, 0)", "open(f, append, S), write(S, a), close(S), open(f, read, T), read(T, X), close(T)",
	"open(f, write, S, _)", "open(f, write, S, [_])", "open(f, write, S, [alias(a)|_])", "open(f, write, S, [alias(a)|b])", "open(f, write, S, foo)", "open(f, write, S, [alias(1)])", "open(f, write, S, [type(_)])", "open(f, write, S, [alias(a, b)])",
	"open(_, write, S)", "open(f, _, S)", "open(f(x), write, S)", "open(f, 1, S)", "open(nofile, read, S)", "open(f, write, S, [reposition(true)]), set_stream_position(S, 0)", "open('c05_in.txt', read, S, [eof_action(error)]), read(S, A), read(S, B), read(S, C), read(S, D), read(S, E), read(S, F), read(S, G)",
	"open('c05_in.txt', read, S, [type(binary), eof_action(eof_code)]), get_byte(S, A), peek_byte(S, B), get_char(S, C)", "open('c05_in.txt', read, S, [reposition(true)]), get_char(S, A), set_stream_position(S, 0), get_char(S, B), A == B",
	"open('c05_in.txt', read, S), stream_property(S, P), P = file_name(F), close(S)", "open('c05_in.txt', read, S), at_end_of_stream(S)", "open('c05_in.txt', read, S), put_char(S, a)", "open('c05_in.txt', read, S), flush_output(S)", "open('c05_in.txt', write, S), get_char(S, C)",
	"close(foo)", "close(S, [force(foo)])", "close(user_input, [force(foo)])", "close(user_input, [foo])", "close(user_input, foo)", "close(user_input)", "close(user_output)", "close(user_output), write(a)", "close(user_input), read(X)", "close(_)", "close(1)", "close(f(x))",
	"close(user_input, _)", "close(user_input, [_])", "close(user_input, [force(true)|_])", "close(user_input, [force(true)|b])", "close(user_input, [force(_)])", "close(user_input, [force(true, false)])", "close(user_input, [force(1)])", "close(user_input, [f(a)])", "close(user_input), close(user_input)",
	"close(user_output), current_output(S), write(S, a), flush_output", "close(user_input), current_input(S), stream_property(S, P)", "close(user_input), stream_property(S, alias(user_input))", "close(user_output), nl",
	"set_input(foo)", "set_input(user_output)", "set_input(_)", "set_input(1)", "set_output(user_input)", "set_input(f(a))", "set_output(_)", "set_output(foo)", "set_output(1.5)", "current_input(1)", "current_output(foo)", "current_input(S), current_output(S)",
	"get_char(user_output, C)", "get_char(C), get_char(D), get_char(E)", "get_char(user_input, 1)", "get_char(user_input, ab)", "get_char(_, C)", "peek_char(ab)", "get_byte(user_input, B)", "get_byte(B)", "get_byte(a)", "get_byte(256)", "get_byte(-2)", "peek_byte(_)",
	"put_byte(user_output, 1)", "put_byte(_)", "put_byte(256)", "put_byte(-1)", "put_byte(a)", "put_char(user_input, a)", "put_char(ab)", "put_char(1)", "put_char(_)", "put_char('')", "put_code(-1)", "put_code(1114112)", "put_code(55296)", "put_code(a)", "put_code(_)", "put_code(0)",
	"nl(foo)", "nl(_)", "nl(1)", "nl(user_input)", "get_code(X)", "peek_code(X)", "get_code(user_output, X)", "get_code(a)", "get_code(-2)", "peek_code(f(x))", "get_char(foo, X)", "peek_byte(foo, X)", "flush_output(user_input)", "flush_output(_)", "flush_output(foo)", "flush_output(1)",
	"at_end_of_stream(foo)", "at_end_of_stream(_)", "at_end_of_stream(user_output)", "at_end_of_stream(1)", "at_end_of_stream(user_input)",
	// control
	"call(foo(1,2), a,b,c,d,e,f,g)", "call(1, a)", "call((a,1))", "call((fail,1))", "call((true;1))", "call(call, call, true)", "call(atom_length, abc, N)", "call(atom_length(abc), N, extra)", "call(',', true, true)", "call(;, fail, true)", "call((->), true, true)",
	"call(call(call(call(call(call(call(call, call), call), call), call), call), call), true)", "call(!)", "call((!, fail ; true))", "call(_)", "call(f(_), 1)", "call([], a)", "call(1.5, a)", "call(\"abc\")", "call([a])", "call('.'(a, []))", "call((a :- b))", "call((:- a))", "call(f, _, _, _, _, _, _, _)",
	"call_nth(true, 0)", "call_nth(true, -1)", "call_nth(true, a)", "call_nth(repeat, 3)", "call_nth(member(X,[a,b]), N)", "call_nth(1, 1)", "call_nth(_, 1)", "call_nth(true, 2)", "call_nth(member(X, [a,b,c]), 2)", "call_nth(fail, N)", "call_nth(true, 1.5)", "call_nth(repeat, 9223372036854775807)",
	"catch(true, _, _)", "catch(throw(a), b, true)", "catch(_, _, _)", "catch(1, _, true)", "catch(throw(_), _, true)", "catch(throw(a), a, 1)", "catch(throw(a), a, throw(b))", "catch(throw(f(X)), f(a), true)", "catch(atom_length(1, _), error(E, _), true)", "catch(atom_length(1, _), E, throw(E))",
	"catch((X = 1 ; throw(a)), _, true)", "catch(throw(a), _, fail)", "catch(call(1), error(type_error(T, C), _), true)", "catch(catch(throw(a), b, true), a, true)", "catch(findall(X, throw(x), _), x, true)", "throw(_)", "throw(error(my_error, ctx))", "throw(error(type_error(foo, bar), _))",
	"findall(X, _, L)", "findall(X, 1, L)", "findall(X, true, [a|b])", "findall(X, true, foo)", "findall(X, (a,1), L)", "findall(X, member(X, [a,b]), [Y|T])", "findall(X, member(X, [a,b]), [a,b|foo])", "findall(X-Y, member(X, [1,2]), L)", "findall(X, (member(X, [1,2]), !), L)",
	"bagof(X, _, L)", "bagof(X, Y^Z, L)", "bagof(X, 1, L)", "setof(X, fail, L)", "setof(X, member(X, [b,a,c]), [a|T])", "bagof(X, member(X, [a]), foo)", "setof(X-Y, member(X, [1,2]), L)", "bagof(f(X,Y), (X=a;Y=b), L)", "bagof(X, Y^foo(X,Y), L)", "bagof(X, Y^Z^member(X-Y-Z, [1-2-3]), L)",
	"bagof(X, member(X, [a]), [a|b])", "setof(X, Y^member(X-Y, [b-1, a-2, b-3]), L)", "bagof(X, member(X-Y, [b-1, a-2, b-3]), L)", "setof(X, X^member(X, [a]), L)", "bagof(X, (Y^member(X, [a])), L)", "bagof(X, 1^true, L)", "bagof(X, _^_, L)", "setof(_, true, L)",
	"once(_)", "once(1)", "\\+ _", "\\+ 1", "\\+ (a, 1)", "call((!, 1))", "G = (a, 1), G", "G = 1, G", "G = (true ; 1), G", "(true ; 1)", "(fail -> 1 ; true)", "(1 -> true ; true)", "(true -> 1)", "X, true", "(true, X)", "\\+ (!, fail)", "once((member(X, [a,b]), X == b))", "false ; true", "(repeat, !)",
	"succ(X, 0)", "succ(X, -1)", "succ(9223372036854775807, X)", "succ(a, X)", "succ(X, Y)", "succ(-1, X)", "succ(1, a)", "succ(X, 1.5)", "succ(1, 1)", "succ(0, X)", "succ(X, 9223372036854775807)", "succ(1.0, X)", "succ(X, -9223372036854775808)",
	"nth0(-1, [a], X)", "nth1(0, [a], X)", "nth0(N, [a|_], X)", "nth0(N, [a|b], X)", "nth0(9223372036854775807, [a], X)", "nth0(a, [a], X)", "nth1(N, L, X)", "nth0(0, [a|_], X)", "nth0(1, [a|_], X)", "nth0(1, [a|b], X)", "nth1(1, a, X)", "nth1(1.0, [a], X)", "nth0(0, L, X)", "nth1(N, \"abc\", b)",
	"between(1, inf, X)", "between(1, 2, a)", "between(a, 2, X)", "between(1, 9223372036854775807, X)", "between(9223372036854775807, 9223372036854775807, X)", "between(9223372036854775806, 9223372036854775807, X)", "between(1, _, X)", "between(_, 1, X)", "between(1, 2, 1.5)",
	"between(-9223372036854775808, 9223372036854775807, 0)", "between(2, 1, X)", "between(1.0, 2, X)", "findall(X, between(1, 100000, X), L), length(L, N)", "between(1, 3, X), X > 2",
	// arithmetic corners
	"X is 1 << -1", "X is 1 >> -1", "X is 1 << 64", "X is 1 << 9223372036854775807", "X is 1 >> 9223372036854775807", "X is -1 >> 70", "X is 1 << 63", "X is 1 << -9223372036854775808", "X is 1 >> -9223372036854775808", "X is 1 << 1.0", "X is 1.0 << 1",
	"X is 2 ** -1", "X is 0 ** -1", "X is 0 ^ -1", "X is 2 ^ -1", "X is 1 ^ -9223372036854775808", "X is -1 ^ -9223372036854775808", "X is -1 ^ 9223372036854775807", "X is 2 ^ 63", "X is 2 ^ 64", "X is 0 ^ 0", "X is 0.0 ** 0", "X is 2 ^ 1.5", "X is 2 ** 3", "X is 3 ^ 9223372036854775807", "X is 1 ^ 9223372036854775807",
	"X is -9223372036854775808 // -1", "X is -9223372036854775808 rem -1", "X is -9223372036854775808 mod -1", "X is -9223372036854775808 div -1", "X is 7 mod 0", "X is 7 rem 0", "X is 7 // 0", "X is 7 div 0", "X is 7 / 0", "X is 7 / 0.0", "X is 7.0 / 0", "X is 0 / 0", "X is 0.0 / 0.0",
	"X is abs(-9223372036854775808)", "X is - (-9223372036854775808)", "X is sign(-9223372036854775808)", "X is truncate(1.0e308)", "X is round(1.0e20)", "X is floor(-1.0e308)", "X is ceiling(9.3e18)", "X is integer(1.5)", "X is max(1, 1.0)", "X is min(a, 1)", "X is max(1, a)",
	"X is foo", "X is [1]", "X is \"a\"", "X is [1,2]", "X is pi", "X is e", "X is cot(1)", "X is 1 + a", "X is 1.0 // 2", "X is log(0)", "X is log(-1)", "X is log(0.0)", "X is sqrt(-1)", "X is sqrt(-0.0)", "X is asin(2)", "X is acos(-2)", "X is atan2(0, 0)", "X is atan2(0.0, 0.0)", "X is atan2(a, 1)",
	"X is 9223372036854775807 + 1", "X is 9223372036854775807 * 2", "X is -9223372036854775808 - 1", "X is -9223372036854775808 * -1", "X is gcd(1, 2)", "X is 1 xor a", "X is \\ a", "X is \\ 1.5", "X is 1 /\\ 1.5", "X is 1.5 \\/ 1", "X is float_integer_part(1)", "X is float_fractional_part(1)",
	"X is exp(1000)", "X is exp(-1000)", "X is 10.0 ** 400", "X is 1.0e308 * 10", "X is 1.0e308 + 1.0e308", "X is -1.0e308 - 1.0e308", "X is 5.0e-324 / 2", "X is 5.0e-324 * 0.5", "X is 1.0e-308 * 1.0e-308", "X is float(9223372036854775807)", "X is tan(1.5707963267948966)",
	"X is _", "X is f(1, 2, 3)", "X is 1 + _", "X is foo(1)", "X is foo(1, 2)", "X is 1.5 mod 2", "X is 1 rem 1.5", "X is '+'(1)", "X is - a", "X is abs(a)", "1 is 1.0", "1.0 is 1", "a is 1", "f(X) is 1", "X is (1, 2)", "X is {1}", "X is 1 - (-1)", "X is - - 1", "X is - (1)", "X is -(-(-(1)))",
	"1 =:= a", "a < 1", "_ > 1", "1 =< foo(1)", "1.0 =:= 1", "9223372036854775807 =:= 9223372036854775807.0", "9223372036854775807 < 9223372036854775808.0", "-0.0 =:= 0.0", "1 =\\= 1.0", "1 < 1 + a", "f(x) >= 1", "[1] =:= 1", "\"a\" =:= 97",
	// database
	"assertz((foo :- 1))", "assertz((foo, bar))", "assertz((X :- true))", "assertz((1 :- true))", "assertz((foo :- X))", "assertz(atom_length(a, b))", "asserta(_)", "assertz((a :- (b, 1)))", "assertz((a :- b, ! ; c -> d))", "assertz((a :- \\+ 1))", "assertz((a :- call(1)))",
	"assertz(foo(X, Y, X)), foo(1, 2, Z)", "assertz((foo(X) :- X)), foo(true)", "assertz((foo(X) :- X)), foo(1)", "assertz((foo :- (true ; 1)))", "assertz((foo :- (1 -> true ; true)))", "assertz(stat(3))", "assertz(dyn(3)), dyn(3)", "assertz((dyn(X) :- X > 1, !, fail))", "assertz(\"abc\")", "assertz([a])",
	"assertz((a --> b))", "assertz(1.5)", "assertz((foo :- bar :- baz))", "assertz((:- foo))", "assertz(foo:bar)", "asserta((dyn(0) :- dyn(0))), dyn(X)", "assertz((dyn(5) :- throw(oops))), catch(dyn(5), oops, true)",
	"retract((x :- in))", "retract(_)", "retract((_ :- true))", "retract(atom_length(_, _))", "retract(1)", "retract((1 :- true))", "retract(dyn(X))", "retract(dyn(X)), retract(dyn(Y)), retract(dyn(Z))", "retract((dyn(X) :- B))", "retract(stat(_))", "retract((dyn(1) :- 1))", "retract(dyn(X)), assertz(dyn(X)), fail",
	"retractall(dyn(_))", "retractall(_)", "retractall(1)", "retractall(stat(_))", "retractall(atom_length(_, _))", "retractall(nonexistent(_))", "retractall((dyn(_) :- true))",
	"abolish(foo/a)", "abolish(foo/(-1))", "abolish(atom_length/2)", "abolish(_)", "abolish(foo/_)", "abolish(_/1)", "abolish(1/1)", "abolish(foo)", "abolish(foo/9223372036854775807)", "abolish(dyn/1), dyn(X)", "abolish(stat/1)", "abolish(foo/1.5)", "abolish(f(x)/1)", "abolish(nonexistent/3)", "abolish((a, b))",
	"clause(_, B)", "clause(1, B)", "clause(atom_length(_, _), B)", "clause(foo, 1)", "clause(foo(_), B)", "clause(dyn(X), B)", "clause(stat(X), B)", "clause(dyn(X), true)", "clause(dyn(X), f(Y))", "clause(dyn(_), 1.5)", "clause(c05p(X), B)", "clause(member(X, Y), B)", "clause(\"abc\", B)", "clause((a, b), B)",
	"current_predicate(1)", "current_predicate(foo/a)", "current_predicate(_/a)", "current_predicate(a/b/c)", "current_predicate(X)", "current_predicate(dyn/N)", "current_predicate(N/1)", "current_predicate(foo/(-1))", "current_predicate(f(x)/1)", "current_predicate(atom_length/2)", "current_predicate(foo)", "current_predicate(1/1)", "current_predicate(_/_/_)",
	// sorting, lists
	"keysort([a], L)", "keysort([a-1|_], L)", "keysort([a-1|b], L)", "keysort(_, L)", "keysort([b-1, a-2], [_|foo])", "keysort([b-1, a-2], [c|_])", "keysort([b-1, a-2], [_-_, _])", "keysort([_], L)", "keysort([a-1], [a])", "keysort([a-1], foo)", "keysort([], L)", "keysort([f(a, b)], L)", "keysort([1-a, 1.0-b, a-c, \"s\"-d, f(x)-e, Z-f], L)",
	"sort([b,a|_], L)", "sort(a, L)", "sort([b,a], foo)", "sort([b,a], [a|b])", "sort(_, L)", "sort([b,a], [_|_])", "sort([c, 1, b, 2.0, f(x), Z, \"s\", [], '[]', {}, 1.0, 1, g(a, b), g(a), h(a)], L)", "sort([a|b], L)", "sort([], L)", "sort([X, Y, X], L)",
	"append(X, Y, Z)", "append([a|X], Y, foo)", "append(a, b, c)", "append([a|b], [], X)", "append(X, [b], [a,b])", "append([a], b, X)", "append(X, Y, [a|T])", "append(\"ab\", \"cd\", X)", "append(X, \"cd\", \"abcd\")", "append([a|_], [], X)", "append(X, X, [a, a])", "append([a,b], X, [a|Y])",
	"member(X, a)", "member(X, [a|b])", "member(X, L)", "member(a, \"abc\")", "member(X, \"abc\")", "select(X, [a|b], L)", "select(a, L, M)", "select(X, \"abc\", R)", "select(a, a, X)", "member(_, _)", "select(_, _, _)",
	"maplist(foo, [a])", "maplist(_, [a])", "maplist(1, [a])", "maplist(atom, [a|b])", "maplist(atom, [a|_])", "maplist(=(X), L)", "maplist(atom, \"abc\")", "maplist(atom_length, [a, bb], L)", "maplist(atom_length, [a, 1], L)", "maplist(succ, L, [1, 2])", "maplist(=, [a, b], L, M)", "maplist(atom, a)", "maplist(atom, _)",
	"maplist(f, [a], [b], [c], [d], [e], [f], [g])", "maplist(call, [true, fail])", "maplist(call, [true, 1])", "maplist(=(_), [a, b])", "maplist(maplist(atom), [[a], [b, c]])", "maplist(throw, [a])",
	"term_variables(f(X,Y), [a|b])", "term_variables(f(X), foo)", "term_variables(X, [X|foo])", "term_variables(f(X, g(Y, X), _), L)", "term_variables(a, L)", "term_variables(f(X, Y), [Y, X])", "term_variables(\"abc\", L)", "term_variables([X|T], L)", "term_variables(X, X)", "term_variables(f(X), [_|_])",
	"compare(foo, a, b)", "compare(1, a, b)", "compare(<=, a, b)", "compare(O, 1, 1.0)", "compare(O, 1.0, 1)", "compare(=, a, a)", "compare(O, f(a), g(a))", "compare(O, \"abc\", [a,b,c])", "compare(O, [a|X], [a|Y])", "compare(O, X, X)", "compare(_, _, _)", "compare(f(x), a, b)", "compare(O, -0.0, 0.0)", "compare(O, 9223372036854775807, 9223372036854775807.0)",
	"subsumes_term(f(X), f(a))", "subsumes_term(f(a), f(X))", "subsumes_term(X, f(X))", "subsumes_term(f(X, Y), f(Z, Z))", "subsumes_term(f(X, X), f(Y, Z))", "subsumes_term(\"abc\", [a|T])", "unify_with_occurs_check(X, f(X))", "unify_with_occurs_check(f(X, Y), f(Y, g(X)))", "unify_with_occurs_check([X|T], \"abc\")", "unify_with_occurs_check(X, X)",
	"X = \"abc\", X = [a|T], T = [b|U]", "\"abc\" = [a, b, c]", "[a|T] = \"abc\", T == \"bc\"", "X = f(Y), Y = g(Z), Z = a, X == f(g(a))", "f(X, b) = f(a, Y)", "[] = '[]'", "\"\" = []", "X \\= a", "a \\= a", "f(X) \\= f(Y)", "X == X", "X \\== Y", "a @< b", "f(a) @> 1", "1 @=< 1.0", "1.0 @>= 1", "X @< Y",
	"atom(a)", "atom(1)", "atom(_)", "atom([])", "atom(\"\")", "atomic(\"abc\")", "compound(\"abc\")", "compound([])", "callable(\"abc\")", "callable((a, 1))", "number(1.5)", "var(_)", "nonvar(_)", "ground(f(_))", "ground(\"abc\")", "float(1)", "integer(1.0)", "acyclic_term(f(X, X))", "acyclic_term(\"abc\")", "acyclic_term([a,b|T])", "acyclic_term([a, b, c])", "acyclic_term([[a]])",
	// flags, conversions
	"char_conversion(a, b)", "char_conversion(ab, c)", "char_conversion(_, c)", "char_conversion(1, c)", "char_conversion(a, _)", "char_conversion(a, 1)", "char_conversion(a, bc)", "char_conversion(a, a)", "char_conversion('', a)", "current_char_conversion(ab, X)", "current_char_conversion(X, Y)",
	"current_char_conversion(a, 1)", "current_char_conversion(X, ab)", "current_char_conversion(1, X)", "current_char_conversion('', X)", "current_char_conversion(a, X)", "current_char_conversion(é, X)", "current_char_conversion(X, a)", "char_conversion(a, b), current_char_conversion(a, X)",
	"set_prolog_flag(char_conversion, on), char_conversion(a, b), read(X)", "set_prolog_flag(char_conversion, on), char_conversion('(', ')'), read(X)", "set_prolog_flag(char_conversion, on), char_conversion('.', ','), read(X)", "set_prolog_flag(char_conversion, on), char_conversion('''', a), read(X)",
	"set_prolog_flag(bounded, false)", "set_prolog_flag(foo, bar)", "set_prolog_flag(_, a)", "set_prolog_flag(1, a)", "set_prolog_flag(double_quotes, foo)", "set_prolog_flag(double_quotes, 1)", "set_prolog_flag(unknown, _)", "set_prolog_flag(unknown, fail), nonexistent_c05", "set_prolog_flag(unknown, warning), nonexistent_c05(1)",
	"set_prolog_flag(double_quotes, atom), read(X), read(Y), read(Z), read(W)", "set_prolog_flag(double_quotes, codes), read(X), read(Y), read(Z), read(W)", "set_prolog_flag(debug, on)", "set_prolog_flag(debug, 1)", "set_prolog_flag(max_arity, 1)", "set_prolog_flag(f(x), on)", "set_prolog_flag(unknown, f(x))",
	"current_prolog_flag(foo, X)", "current_prolog_flag(1, X)", "current_prolog_flag(F, V)", "current_prolog_flag(max_integer, a)", "current_prolog_flag(f(x), V)", "current_prolog_flag(bounded, true)", "current_prolog_flag(max_arity, X)", "current_prolog_flag(_, _)",
	// load graphs with cycles, loaded files that are not Prolog text, host errors under catch/3, findall/3, \\+
	"consult(c05_self), c05_self_loaded", "consult(c05_self2)", "consult(c05_self3), c05_self3_after", "consult(c05_self4)", "consult(c05_a), c05_a_loaded, c05_b_loaded, c05_c_loaded", "consult([c05_b, c05_a, c05_c])",
	"consult([c05_self, c05_self])", "[c05_c]", "catch(consult(c05_a), E, true)", "findall(x, consult(c05_b), L)", "\\+ consult(c05_c)",
	"consult(c05_bad)", "consult(c05_bad2)", "consult(c05_bad3)", "consult(c05_bad4)", "catch(consult(c05_bad), E, true)", "catch(consult(c05_bad2), _, true)", "catch(consult(c05_bad3), E, (write(E), nl))", "catch(consult(c05_bad4), error(E, _), true)",
	"findall(x, consult(c05_bad), L)", "\\+ consult(c05_bad)", "\\+ \\+ consult(c05_bad2)", "catch(findall(x, consult(c05_bad), L), E, true)", "catch(catch(consult(c05_bad), error(type_error(_, _), _), true), E, true)", "catch(consult([c05_self, c05_bad, c05_a]), E, true)",
	"catch(open('\\x0\\', read, S), E, true)", "catch(open('\\x0\\', write, S), _, true)", "catch(open('c05_bad.pl/x', read, S), E, true)", "catch(open('c05_bad.pl/x', write, S), E, true)", "catch(open('.', write, S), E, true)", "catch(open('/', append, S), E, true)",
	"findall(S, open('\\x0\\', read, S), L)", "\\+ open('c05_bad.pl/x', read, _)", "catch(consult('\\x0\\'), E, true)", "catch(consult('c05_bad.pl/x'), E, true)", "catch(consult('.'), E, true)", "catch((open('c05_in.txt', read, S), close(S), close(S)), E, true)",
	"catch((open('c05_in.txt', read, S), close(S), get_char(S, C)), E, true)", "catch((open('c05_w.txt', write, S), close(S), put_char(S, a)), E, true)", "catch((open('c05_in.txt', read, S, [reposition(true)]), stream_property(S, position(P)), close(S), set_stream_position(S, P)), E, true)",
	// consult, grammars
	"consult(nofile)", "consult([a|_])", "consult([a|b])", "consult(_)", "consult(1)", "consult([])", "consult(f(a))", "[nofile]", "[nofile|_]", "consult('c05_in.txt')", "consult(['c05_in.txt', 'c05_in.txt'])", "consult('.')", "consult('/')", "consult('')", "consult([_])", "consult(\"abc\")",
	"expand_term((a --> b), X)", "expand_term((a --> 1), X)", "expand_term((a, b --> c), X)", "expand_term((1 --> a), X)", "expand_term((X --> a), Y)", "expand_term((a --> X), Y)", "expand_term((a --> [b|c]), X)", "expand_term((a --> \"str\", \\+ b, {c}, !, call(d, e)), X)", "expand_term((a --> b | c), X)",
	"expand_term((a, [b] --> c), X)", "expand_term((a --> (b -> c ; d)), X)", "expand_term(_, X)", "expand_term((a --> [b|_]), X)", "expand_term((a --> []), X)", "expand_term((a, [b|_] --> c), X)", "expand_term((a, b, c --> d), X)", "expand_term(([a] --> b), X)", "expand_term((a --> {1}), X)", "expand_term((a --> call(1)), X)",
	"expand_term((a --> b, 1), X)", "expand_term((a --> (b ; 1)), X)", "expand_term((a --> \\+ 1), X)", "expand_term((a(X) --> b(X), !, [c]), Y)", "expand_term(a, a)", "expand_term(1, X)", "expand_term((a :- b), X)", "expand_term((_ , _ --> a), X)", "expand_term((a, 1 --> b), X)", "expand_term((a, _ --> b), X)",
	"phrase(_, L)", "phrase(1, L)", "phrase(foo, a)", "phrase([a], [a|b])", "phrase(([a],[b]), L)", "phrase((a;b), L, R)", "phrase(\\+ a, [], [])", "phrase({true}, X, Y)", "phrase(call(foo), X, Y)", "phrase([a|_], X)", "phrase(\"ab\", X, [])", "phrase([], X)", "phrase(!, X, Y)", "phrase(([a] -> [b] ; [c]), X)",
	"phrase([a], L, foo)", "phrase([a], foo, R)", "phrase([a|b], X)", "phrase(([a], 1), X)", "phrase((_ , [a]), X)", "phrase(f(x), L, R)", "phrase(1.5, L, R)", "phrase(\"ab\", \"abc\", R)", "phrase(([a] ; 1), [a], R)", "phrase({1}, X, Y)", "phrase(call(1), X, Y)", "phrase(\\+ 1, X, Y)",
	// parsing through the goal text itself: literals that the reader must build
	"X = 0'a", "X = 0'''", "X = 0'\\n", "X = 0x7FFFFFFFFFFFFFFF", "X = 0x8000000000000000", "X = 0b11", "X = 0o777", "X = 1.0e308", "X = 1.0e309", "X = 1.0e-400", "X = 123456789012345678901234567890", "X = -9223372036854775808", "X = - 9223372036854775808", "X = 9223372036854775808",
	"X = 'a\\x41\\b'", "X = 'a\\101\\b'", "X = '\\x110000\\'", "X = '\\xD800\\'", "X = '\\x0\\'", "X = '\\777777777777\\'", "X = '\\x7FFFFFFFFFFFFFFFF\\'", "X = \"a\\x110000\\b\"", "X = 0'\\x110000\\", "X = 0'\\xFFFFFFFFFF\\", "X = '\\400000000\\'", "X = \"\\xD800\\\"", "X = 0'\\xD800\\",
}

// ---- static procedure list (fallback when the hooks are unavailable) --------------------------------

var c05RegisterRe = regexp.MustCompile("Register([0-8])\\(engine\\.NewAtom\\((\"(?:[^\"\\\\]|\\\\.)*\"|`[^`]*`)\\)")

func c05StaticProcs() ([]c05Proc, error) {
	repo := run.RepoDir()
	src, err := os.ReadFile(filepath.Join(repo, "interpreter.go"))
	if err != nil {
		return nil, err
	}
	seen := map[string]bool{}
	var out []c05Proc
	add := func(name string, arity int, user bool) {
		p := c05Proc{Name: name, Arity: arity, User: user}
		if !seen[p.pi()] {
			seen[p.pi()] = true
			out = append(out, p)
		}
	}
	for _, m := range c05RegisterRe.FindAllStringSubmatch(string(src), -1) {
		name := m[2]
		if name[0] == '`' {
			name = name[1 : len(name)-1]
		} else {
			var s string
			if err := json.Unmarshal([]byte(name), &s); err != nil {
				continue
			}
			name = s
		}
		add(name, int(m[1][0]-'0'), false)
	}
	boot, err := os.ReadFile(filepath.Join(repo, "bootstrap.pl"))
	if err != nil {
		return nil, err
	}
	// clauses start in column 0; continuation lines are indented; directives start with ":-"
	inComment := false
	for _, line := range strings.Split(string(boot), "\n") {
		if inComment {
			if strings.Contains(line, "*/") {
				inComment = false
			}
			continue
		}
		if strings.HasPrefix(line, "/*") {
			inComment = !strings.Contains(line, "*/")
			continue
		}
		if line == "" || line[0] == ' ' || line[0] == '\t' || line[0] == '%' || strings.HasPrefix(line, ":-") {
			continue
		}
		head := line
		if i := strings.Index(head, ":-"); i >= 0 {
			head = head[:i]
		} else if i := strings.LastIndex(head, "."); i >= 0 {
			head = head[:i]
		}
		t, _, err := term.ParseTerm(strings.TrimSpace(head))
		if err != nil {
			return nil, fmt.Errorf("bootstrap.pl: cannot read clause head %q: %v", head, err)
		}
		switch t.K {
		case term.KAtom:
			add(t.S, 0, true)
		case term.KCmp:
			add(t.S, len(t.Args), true)
		}
	}
	return out, nil
}
