package main

import (
	"encoding/json"
	"fmt"
	"math/rand"
	"strings"

	"verif/internal/proto"
	"verif/internal/ref"
	"verif/internal/run"
	"verif/internal/term"
)

func init() { checks["C04"] = func() Check { return &c04{} } }

type c04 struct{}

func (*c04) ID() string    { return "C04" }
func (*c04) Level() string { return "exploration" }
func (*c04) Rule() string {
	return "a fixed list of catch/throw skeletons (throw directly / after k answers / in the continuation after catch exit / after backtracking into the catch goal; ball unifies, does not, or only with an outer catcher; ball sharing variables with goal and catcher; rethrow from Recovery; throw under \\+, findall, call/N, cut, nested catch; built-in errors in each position) plus 400 (thorough 4000) texts of 1-4 directives / initialization goals drawn from the skeletons run through ExecContext (event log up to the first uncaught ball, Exec error carrying it, no later goal), plus seeded random compositions over {w(K) logging, m/1 n/1 generators, throw, built-in error calls, catch/3, ',', ';', \\+, findall, call, once, helper predicates with clause-level cut}. Engine and reference interpreter must agree on the event log (which goals ran, in order, with which bindings), the answer sequence and the final error (Formal only for error(Formal,_)). Non-trivial: the reference executed >=1 throw that crossed or matched >=1 catch frame; distinct by program+query hash."
}
func (*c04) Assumptions() []string {
	return []string{
		"reference interpreter implements ISO 7.8.9/7.8.10 (self-tested on the ISO examples each run)",
		"error Context terms are implementation defined and not compared",
	}
}

var c04Fixed = []string{
	"catch(true, _, w(c)), throw(x)",
	"catch(m(X), _, w(c)), w(X), X > 1, throw(x)",
	"catch(m(X), B, (w(caught(B)), X = 0)), w(X), X > 1, throw(b(X))",
	"catch((m(X), X > 1, throw(b(X))), b(Y), w(got(X, Y)))",
	"catch((m(X), w(X), X > 1, throw(b(X))), b(2), w(r))",
	"catch((m(X), w(X), X > 1, throw(b(X))), b(3), w(r))",
	"catch(catch(throw(a), b, w(inner)), a, w(outer))",
	"catch(catch(throw(a), a, throw(b)), b, w(outer))",
	"catch(catch(throw(a), a, throw(b)), a, w(outer))",
	"catch(catch(throw(a), _, w(inner)), _, w(outer)), throw(z)",
	"X = 1, catch(throw(f(X, Y)), f(A, B), w(A-B))",
	"catch((X = 1, throw(f(X, Y))), f(A, B), w(X-A-B))",
	"catch(throw(f(Y)), f(Z), true), Y = 1, w(Z)",
	"catch(throw(_), E, w(E))",
	"catch(\\+ throw(a), a, w(r))",
	"catch(\\+ (m(X), X > 2, throw(a(X))), a(Y), w(r(Y)))",
	"catch(findall(X, (m(X), X > 1, throw(a(X))), L), a(Y), w(r(Y, L)))",
	"findall(X, catch((m(X), X > 1, throw(a)), a, X = 0), L), w(L)",
	"catch(call((m(X), !, throw(a(X)))), a(Y), w(Y))",
	"catch(h5(X), B, w(B))", "catch(h6(1), error(E, _), w(E))", "catch((n(A), h5(X)), B, w(A-B)), w(after)", "catch(catch(h5(X), nomatch, w(no)), two_cuts(Y), w(outer(Y)))",
	"catch(h1(X), B, w(B))", "catch(h2(X), B, w(B))", "h3(X)", "catch(h3(X), B, w(B))", "catch(h4(X), B, w(B)), w(X), X > 1, throw(late)",
	"catch(X is foo + 1, error(E, _), w(E))",
	"catch(atom_length(1, _), error(type_error(T, V), _), w(T-V))",
	"catch(atom_length(_, _), error(E, _), w(E))",
	"catch(arg(x, f(a), _), error(E, _), w(E))",
	"catch(call(1), error(E, _), w(E))",
	"catch(undefined_pred_xyz, error(E, _), w(E))",
	"catch(functor(_, _, _), error(E, _), w(E))",
	"catch(atom_length(1, _), error(instantiation_error, _), w(no))",
	"catch(catch(atom_length(1, _), error(instantiation_error, _), w(no)), error(type_error(_, _), _), w(yes))",
	"atom_length(1, _)", "catch(true, _, true), atom_length(1, _)", "m(X), catch(true, _, w(c)), X > 1, atom_length(X, foo)",
	"catch(m(X), _, w(c)), X > 2, atom_length(X, foo)",
	"catch((m(X), w(in(X))), _, w(c)), w(out(X)), X >= 2, throw(oops(X))",
	"catch((m(X) ; throw(end)), end, w(e)), w(X), fail",
	"catch((m(X), X > 2, throw(t)), t, (w(rec), m(Y), w(Y))), Y > 1",
	"catch(throw(a), a, throw(b))", "catch(throw(a), a, (w(r), fail))", "catch(throw(a), a, fail) ; w(alt)",
	"catch(once((m(X), X > 1, throw(o(X)))), o(Y), w(Y))",
	"once(catch((m(X), X > 1), _, true)), throw(after(X))",
	"catch((catch(m(X), _, w(i)), X > 1, throw(mid(X))), mid(Y), w(o(Y)))",
	"catch(catch((m(X), X > 1), _, w(i)), E, w(o(E))), throw(out(X))",
	"m(X), catch((X > 1, throw(x(X))), x(2), w(two))",
	// the Goal of catch/3 is unbound or not callable: the error is raised inside the catch and its own Catcher sees it
	"catch(G, error(E, _), w(caught(E)))", "catch(1, error(E, _), w(E))", "catch((true, 1), error(E, _), w(e))", "catch((fail ; 2), error(E, _), w(e))",
	"G = 3, catch(G, error(E, _), w(E))", "catch(catch(G, nomatch, w(no)), error(E, _), w(outer(E)))", "catch(catch(1, error(E, _), w(inner(E))), _, w(outer))",
	"findall(x, catch(G, _, w(c)), L), w(L)", "\\+ catch(1, _, fail)", "pc(_)", "pc(1)", "pc((m(X), w(X)))", "pc((w(a), 1))", "m(X), pc(X)",
	"call(catch, G, error(E, _), w(c(E)))", "catch(pc(G), _, w(outer)), w(after)", "catch((m(X), pc(Y)), _, w(outer)), w(X)",
	// evaluation errors of the arithmetic COMPARISONS are balls like those of is/2
	"catch(1 =:= 1 // 0, error(evaluation_error(E), _), w(E))", "catch(1 < 1 // 0, error(E, _), w(E))", "catch(2 > foo, error(type_error(T, V), _), w(T-V))",
	"catch(1 =< 9223372036854775807 + 1, error(evaluation_error(E), _), w(E))", "catch(catch(1 >= 1 mod 0, error(type_error(_, _), _), w(inner)), error(evaluation_error(E), _), w(outer(E)))",
	"catch(1 =\\= 1 / 0, error(E, _), w(E))", "catch((m(X), X > 3 - 3 // (X - 2)), error(evaluation_error(E), _), w(X-E))", "m(X), catch(X < 1 // (X - 1), error(evaluation_error(E), _), w(X-E))",
	"1 =:= 1 // 0", "catch(_ < 1, error(E, _), w(E))",
	// a ball error(Formal, Context) with an unbound Context is delivered as it is: the Catcher is unified with a copy of exactly it
	"catch(catch(throw(error(my_error, _)), error(my_error, mine), w(inner)), _, w(outer))", "catch(throw(error(e, _)), error(e, C), (var(C) -> w(free) ; w(bound(C))))",
	"catch(catch(throw(error(my_error, _)), error(my_error, throw/1), w(inner)), _, w(outer))", "catch(throw(error(e, C0)), error(e, C), true), w(C0-C)", "X = f(_), catch(throw(error(X, _)), error(f(a), ctx), w(X))",
	"catch(catch(throw(error(e1, _)), error(e1, c1), throw(error(e2, _))), error(e2, c2), w(got))", "catch(h7, error(my_error, mine), w(inner))",
	// call_nth/2 with a bound count commits to the N-th solution of ITS goal only: the catch/3 calls and choice points around it stay
	// (the reference knows call_nth/2 for finite goals without side effects: findall + nth)
	"catch((call_nth(m(X), 2), throw(after(X))), after(Y), w(Y))", "catch((m(Z), call_nth(m(X), 2), Z > 1, throw(t(Z, X))), t(A, B), w(A-B))",
	"catch(catch((call_nth(m(X), 1), throw(in(X))), nomatch, w(no)), in(V), w(outer(V)))", "m(Z), call_nth(m(X), 2), w(Z-X)", "catch((call_nth(m(X), N), N >= 2, throw(at(N, X))), at(A, B), w(A-B))",
	"catch((call_nth(m(X), 3), atom_length(X, foo)), error(E, _), w(E))", "findall(X, (m(Z), call_nth(m(X), 2)), L), w(L)",
	// an all-solutions call abandoned by a ball that is caught INSIDE the goal of an outer all-solutions call, which goes on collecting
	"findall(X, (m(X), catch(findall(Y, (n(Y), X > 1, throw(bad(X, Y))), _), bad(_, _), true)), L), w(L)",
	"findall(X-L1, (m(X), catch(findall(Y, (m(Y), (Y > X -> throw(big(Y)) ; true)), L1), big(B), L1 = caught(B))), L), w(L)",
	"bagof(X, (m(X), catch(setof(Y, (n(Y), X =:= 2, throw(s(Y))), _), s(_), true)), L), w(L)",
	"findall(X, (m(X), catch(findall(Y, (n(Y), atom_length(X, Y)), _), error(_, _), true)), L), findall(Z, m(Z), L2), w(L-L2)",
	"catch(findall(Y, (m(Y), Y > 1, throw(out(Y))), _), out(V), true), findall(Z, m(Z), L), w(V-L)",
	"findall(X, (m(X), \\+ catch(findall(Y, (n(Y), throw(t(X))), _), t(2), fail)), L), w(L)",
}

const c04Base = `
m(1). m(2). m(3).
n(a). n(b).
h1(X) :- catch(m(X), _, true), !, throw(after_cut(X)).
h2(X) :- m(X), X > 1, !, throw(cut_then(X)).
h2(0).
h3(X) :- catch((m(X), X > 1, throw(inner(X))), inner(Y), (w(rec(Y)), X = Y)).
h3(9).
h4(X) :- m(X).
h4(X) :- throw(h4_second(X)).
t(K, X) :- m(X), X >= K, throw(big(X)).
t(_, 0).
h5(X) :- m(X), !, X > 0, !, throw(two_cuts(X)).
h6(X) :- integer(X), !, X > 0, !, atom_length(X, foo).
pc(G) :- catch(G, error(E, _), w(pc(E))).
h7 :- m(X), X > 1, throw(error(my_error, _)).
`

type c04Gen struct {
	r    *rand.Rand
	nv   int
	wctr int
	cctr int
}

func (g *c04Gen) v() string {
	if g.nv > 0 && g.r.Intn(100) < 70 {
		return fmt.Sprintf("X%d", g.r.Intn(g.nv))
	}
	if g.nv < 4 {
		g.nv++
	}
	return fmt.Sprintf("X%d", g.nv-1)
}

func (g *c04Gen) ball() string {
	switch g.r.Intn(7) {
	case 0:
		return "b1"
	case 1:
		return "b2"
	case 2:
		return "f(" + g.v() + ")"
	case 3:
		return "f(" + g.v() + ", " + g.v() + ")"
	case 4:
		return "g(1)"
	case 5:
		return "error(type_error(atom, 1), _)"
	default:
		return "b3"
	}
}

func (g *c04Gen) catcher() string {
	switch g.r.Intn(9) {
	case 0:
		return "b1"
	case 1:
		return "b2"
	case 2:
		return "f(" + g.v() + ")"
	case 3:
		return "f(" + g.v() + ", " + g.v() + ")"
	case 4:
		return "_"
	case 5:
		return "error(" + g.v() + ", _)"
	case 6:
		return "error(type_error(" + g.v() + ", " + g.v() + "), _)"
	case 7:
		return "g(" + g.v() + ")"
	default:
		// a catcher that takes the whole ball gets a variable of its own: a variable holding a complete
		// error term (with its implementation-defined Context) must not take part in later unifications
		g.cctr++
		return fmt.Sprintf("B%d", g.cctr)
	}
}

func (g *c04Gen) w() string {
	g.wctr++
	if g.nv > 0 && g.r.Intn(2) == 0 {
		return fmt.Sprintf("w(e%d(%s))", g.wctr, g.v())
	}
	return fmt.Sprintf("w(e%d)", g.wctr)
}

var c04Errors = []string{"1 =:= 1 // 0", "2 > foo", "1 < 1 mod 0", "atom_length(1, _)", "atom_length(_, _)", "_ is foo + 1", "arg(x, f(a), _)", "call(1)", "undefined_pred_xyz", "functor(_, _, _)", "_ is 1 // 0"}

func (g *c04Gen) recovery(depth int) string {
	switch g.r.Intn(7) {
	case 0:
		return "true"
	case 1:
		return "fail"
	case 2:
		return "throw(" + g.ball() + ")"
	case 3:
		return "(" + g.w() + ", m(" + g.v() + "))"
	case 4:
		if depth > 0 {
			return g.goal(depth - 1)
		}
		return g.w()
	default:
		return g.w()
	}
}

func (g *c04Gen) goal(depth int) string {
	k := g.r.Intn(100)
	switch {
	case k < 14:
		return g.w()
	case k < 26:
		return "m(" + g.v() + ")"
	case k < 30:
		return "n(" + g.v() + ")"
	case k < 42:
		return "throw(" + g.ball() + ")"
	case k < 48:
		return c04Errors[g.r.Intn(len(c04Errors))]
	case k < 53:
		return g.v() + " > 1"
	case k < 56:
		return g.v() + " = " + []string{"1", "2", "a", "f(b1)"}[g.r.Intn(4)]
	case depth <= 0:
		return g.w()
	case k < 74:
		goal, catcher, rec := g.conj(depth-1), g.catcher(), g.recovery(depth-1)
		if strings.HasPrefix(catcher, "B") && g.r.Intn(2) == 0 {
			// log what the catcher was bound to (the copy of the ball; error Contexts are normalised away)
			rec = "w(caught(" + catcher + ")), " + rec
		}
		if g.r.Intn(10) == 0 {
			// a Goal that is unbound or not callable when catch/3 is called
			goal = []string{"_", "1", "_", "true, 1", "fail ; 2", "w(a), 2"}[g.r.Intn(6)] // (a shared variable may be bound to a list, which this engine consults)
			if !strings.ContainsAny(goal, ",;") {
				return "catch(" + goal + ", " + catcher + ", (" + rec + "))"
			}
		}
		return "catch((" + goal + "), " + catcher + ", (" + rec + "))"
	case k < 79:
		return "(" + g.conj(depth-1) + " ; " + g.conj(depth-1) + ")"
	case k < 83:
		return "\\+ " + "(" + g.conj(depth-1) + ")"
	case k < 88:
		return "findall(" + g.v() + ", (" + g.conj(depth-1) + "), " + g.v() + ")"
	case k < 91:
		return "call((" + g.conj(depth-1) + "))"
	case k < 94:
		return "once((" + g.conj(depth-1) + "))"
	case k < 97:
		return []string{"h1", "h2", "h3", "h4"}[g.r.Intn(4)] + "(" + g.v() + ")"
	default:
		return "t(" + []string{"1", "2", "3", "4"}[g.r.Intn(4)] + ", " + g.v() + ")"
	}
}

func (g *c04Gen) conj(depth int) string {
	n := 1 + g.r.Intn(3)
	var gs []string
	for i := 0; i < n; i++ {
		gs = append(gs, g.goal(depth))
	}
	return strings.Join(gs, ", ")
}

// helper predicate with clause-level cut, to be called from the query
func (g *c04Gen) helper() []string {
	var out []string
	n := 1 + g.r.Intn(2)
	for i := 0; i < n; i++ {
		g.nv = 1 // X0 is the head argument
		var gs []string
		k := 1 + g.r.Intn(3)
		cutAt := g.r.Intn(k + 1)
		cut2 := -1
		if g.r.Intn(3) == 0 {
			cut2 = g.r.Intn(k + 1) // a second (possibly third) cut in the same clause
		}
		for j := 0; j < k; j++ {
			if j == cutAt || j == cut2 {
				gs = append(gs, "!")
			}
			gs = append(gs, g.goal(1))
		}
		if cut2 == k {
			gs = append(gs, "!", g.goal(1))
		}
		out = append(out, "hh(X0) :- "+strings.Join(gs, ", "))
	}
	return out
}

func (c *c04) Generate(cx *Ctx, chunk int) []*Item {
	if chunk > 0 {
		return nil
	}
	if err := refSelfTest(); err != nil {
		cx.Note("reference self-test failed: " + err.Error())
		return nil
	}
	base := term.MustProgram(c04Base)
	var metas []*DiffMeta
	for _, q := range c04Fixed {
		t, nv, qv := parseQuery(q)
		metas = append(metas, &DiffMeta{Program: base, Query: t, NVars: nv, QVars: qv, Max: 20, Family: "fixed"})
	}
	n := 10000
	if cx.Thorough() {
		n = 120000
	}
	for i := 0; i < n; i++ {
		g := &c04Gen{r: cx.Rng(fmt.Sprintf("c04/%d", i))}
		prog := base
		useHelper := g.r.Intn(4) == 0
		if useHelper {
			for _, h := range g.helper() {
				t, _, err := term.ParseTerm(h)
				if err != nil {
					panic(h + ": " + err.Error())
				}
				prog = append(append([]*term.Term{}, prog...), t)
			}
		}
		g.nv = 0
		q := g.conj(2)
		if useHelper {
			q = "catch(hh(" + g.v() + "), " + g.catcher() + ", " + g.w() + "), " + q
		}
		t, nv, qv := parseQuery(q)
		metas = append(metas, &DiffMeta{Program: prog, Query: t, NVars: nv, QVars: qv, Max: 20, Family: "random"})
	}
	items := prepareDiffItems(metas, 60000, ref.Options{})
	return append(items, c.execItems(cx, base)...)
}

// c04ExecMeta is one text run through Exec: goals as directives or initialization/1 goals, each executed like once/1;
// the first goal that ends in an uncaught ball ends Exec with an error carrying it and no later goal runs.
type c04ExecMeta struct {
	Family    string   `json:"family"`
	Text      string   `json:"text"`
	ExpEvents []string `json:"exp_events"`
	ExpErr    string   `json:"exp_err"` // canonical ball, "" = Exec returns nil
	Crossed   bool     `json:"crossed"`
	Goals     int      `json:"goals"`
	ThrowAt   int      `json:"throw_at"` // index of the goal that throws, -1 = none
}

// execItems builds the Exec family from the fixed skeletons: every goal whose reference run either delivers a first
// answer or ends in an uncaught ball before it (a failing goal is left out: what Exec does with it is not in the statement).
func (c *c04) execItems(cx *Ctx, base []*term.Term) []*Item {
	type goal struct {
		text    string
		events  []string
		err     string
		crossed bool
		steps   int64
	}
	var ok, bad []goal
	for _, q := range c04Fixed {
		t, nv, qv := parseQuery(q)
		d := &DiffMeta{Program: base, Query: t, NVars: nv, QVars: qv, Max: 1}
		o, err := d.refRun(60000, ref.Options{})
		if err != nil || o.M.Unsupported != "" || o.OutOfBudget || len(o.Events) == 0 {
			continue
		}
		g := goal{text: term.Text(t, qvar), crossed: o.M.ThrowCrossed >= 1, steps: o.M.Steps}
		for _, e := range o.Events[0] {
			g.events = append(g.events, canonTuple([]*term.Term{e}))
		}
		switch {
		case len(o.Answers) >= 1:
			ok = append(ok, g)
		case o.Err != nil:
			g.err = canonTuple([]*term.Term{formalOf(o.Err)})
			bad = append(bad, g)
		}
	}
	if len(ok) == 0 || len(bad) == 0 {
		cx.Note("exec family: no usable goals")
		return nil
	}
	n := 400
	if cx.Thorough() {
		n = 4000
	}
	var items []*Item
	for i := 0; i < n; i++ {
		r := cx.Rng(fmt.Sprintf("c04/exec/%d", i))
		ng := 1 + r.Intn(4)
		throwAt := -1
		if r.Intn(5) > 0 {
			throwAt = r.Intn(ng)
		}
		init := r.Intn(3) > 0 // initialization/1 goals (run after the load, in order) or plain directives
		m := c04ExecMeta{Family: "exec_directive", Goals: ng, ThrowAt: throwAt}
		if init {
			m.Family = "exec_initialization"
		}
		var sb strings.Builder
		var steps int64
		stopped := false
		for j := 0; j < ng; j++ {
			g := ok[r.Intn(len(ok))]
			if j == throwAt {
				g = bad[r.Intn(len(bad))]
			}
			if init {
				sb.WriteString(":- initialization((" + g.text + ")).\n")
			} else {
				sb.WriteString(":- " + g.text + ".\n")
			}
			if j%2 == 1 {
				sb.WriteString(fmt.Sprintf("c04_fact_%d(%d).\n", j, j))
			}
			if stopped {
				continue
			}
			steps += g.steps
			m.ExpEvents = append(m.ExpEvents, g.events...)
			m.Crossed = m.Crossed || g.crossed
			if g.err != "" {
				m.ExpErr = g.err
				stopped = true
			}
		}
		m.Text = sb.String()
		cs := &proto.Case{Kind: "prolog", Setup: []string{programText(base)}}
		cs.Steps = []proto.Step{{Exec: m.Text, StepBudget: 2000*steps + 200000}}
		meta, _ := json.Marshal(&m)
		items = append(items, &Item{Cases: []*proto.Case{cs}, Meta: meta})
	}
	return items
}

func (c *c04) judgeExec(m *c04ExecMeta, out *run.Outcome) Verdict {
	v := Verdict{Extra: map[string]int64{"family_" + m.Family: 1}}
	v.Sample = map[string]interface{}{"text": m.Text, "expected_events": m.ExpEvents, "expected_error": m.ExpErr}
	if out.Crash != nil {
		if out.Crash.Hung {
			v.Status, v.Msg = Inconclusive, "watchdog fired (wall clock) — no logical evidence"
			return v
		}
		v.Status, v.Msg = Violated, "worker process died: "+out.Crash.Exit+"\n"+firstLines(out.Crash.Stderr, 12)
		return v
	}
	res := out.Res
	if res.Fatal != "" || len(res.Steps) < 1 {
		v.Status, v.Msg = Inconclusive, "worker: "+res.Fatal
		return v
	}
	for i, e := range res.Setup {
		if e != nil {
			v.Status, v.Msg = Violated, fmt.Sprintf("loading the program failed (setup %d): %s", i, e.Text)
			return v
		}
	}
	st := res.Steps[0]
	if st.BudgetHit {
		v.Status, v.Msg = Inconclusive, "step budget exhausted"
		if res.Hooks {
			v.Status, v.Msg = Violated, fmt.Sprintf("Exec did not return within %d steps | text: %s", st.Steps, oneLine(m.Text))
		}
		return v
	}
	var gotEv []string
	for _, e := range st.Events {
		if e.Tag != "$answer" && e.T != nil {
			gotEv = append(gotEv, canonTuple([]*term.Term{e.T}))
		}
	}
	gotErr := ""
	switch {
	case st.Err != nil && st.Err.Exception != nil:
		gotErr = canonTuple([]*term.Term{formalOf(st.Err.Exception)})
	case st.Err != nil:
		gotErr = "go error " + st.Err.Text
	}
	v.Sample.(map[string]interface{})["observed_events"] = gotEv
	v.Sample.(map[string]interface{})["observed_error"] = gotErr
	v.NonTrivial = m.Crossed
	v.Extra["exec_goals_run"] = int64(m.Goals)
	if m.ExpErr != "" {
		v.Extra["uncaught_errors_compared"] = 1
		if m.ThrowAt < m.Goals-1 {
			v.Extra["exec_throw_before_later_goals"] = 1
		}
	}
	switch {
	case gotErr != m.ExpErr:
		v.Status, v.Msg = Violated, fmt.Sprintf("Exec: expected error %q, observed %q | text: %s", m.ExpErr, gotErr, oneLine(m.Text))
	case strings.Join(gotEv, "\n") != strings.Join(m.ExpEvents, "\n"):
		v.Status, v.Msg = Violated, fmt.Sprintf("Exec: event logs differ: expected %v, observed %v | text: %s", m.ExpEvents, gotEv, oneLine(m.Text))
	default:
		v.Status = Held
	}
	return v
}

func (c *c04) Judge(cx *Ctx, it *Item, outs []*run.Outcome) Verdict {
	var em c04ExecMeta
	if err := decodeMeta(it, &em); err == nil && strings.HasPrefix(em.Family, "exec_") {
		return c.judgeExec(&em, outs[0])
	}
	var m c01Meta
	if err := decodeMeta(it, &m); err != nil {
		return Verdict{Status: Inconclusive, Msg: err.Error()}
	}
	o, err := m.refRun(m.RefBudget, ref.Options{})
	if err != nil {
		return Verdict{Status: Inconclusive, Msg: err.Error()}
	}
	r := compareRun(&m.DiffMeta, o, outs[0], true)
	v := Verdict{Status: r.Status, Msg: r.Msg}
	v.NonTrivial = o.M.ThrowCrossed >= 1
	v.Extra = map[string]int64{"answers_compared": int64(len(o.Answers)), "ref_throws": int64(o.M.Throws), "ref_catch_frames_crossed": int64(o.M.ThrowCrossed), "family_" + m.Family: 1}
	if o.Err != nil {
		v.Extra["uncaught_errors_compared"] = 1
	}
	prog := programText(m.Program[len(term.MustProgram(c04Base)):])
	v.Sample = map[string]interface{}{"extra_clauses": prog, "query": term.Text(m.Query, qvar), "expected": r.Expected, "observed": r.Observed}
	if v.Status == Violated {
		v.Msg = fmt.Sprintf("%s | query: %s | extra clauses: %s", r.Msg, term.Text(m.Query, qvar), oneLine(prog))
	}
	return v
}
