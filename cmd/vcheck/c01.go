package main

import (
	"encoding/json"
	"fmt"
	"math/rand"
	"runtime"
	"sort"
	"sync"

	"verif/internal/ref"
	"verif/internal/run"
	"verif/internal/term"
)

func init() { checks["C01"] = func() Check { return &c01{} } }

type c01 struct{}

func (*c01) ID() string    { return "C01" }
func (*c01) Level() string { return "exploration" }
func (*c01) Rule() string {
	return "seeded random pure programs (1-4 predicates, arity 0-3, 1-4 clauses, nested compound/list/partial-list arguments, shared variables, recursion, nested ';', call/N, variable goals) + a fixed family of classic programs at several sizes + every sixth random program once more in the form \"load, run the query once, then define one predicate that other clauses call again by a later Exec text, run the query\" (expected: the answers of the program as it stands after the second text), each run on the engine and on an independent reference SLD interpreter; answer sequences, termination and final status compared. Non-trivial: the reference produced >=1 answer AND backtracked into >=1 untried clause alternative; distinct by hash of program+query."
}
func (*c01) Assumptions() []string {
	return []string{
		"the reference interpreter (internal/ref) implements ISO SLD resolution correctly; it is self-tested on pinned ISO examples before every run",
		"programs whose reference run is subject to occurs check (STO) are skipped as undefined by ISO",
		"when the reference runs out of its step budget only the answers found so far are compared (prefix case)",
	}
}

const refBudgetGenerated = 20000

type c01Meta struct {
	DiffMeta
	RefAnswers int   `json:"ref_answers"`
	RefSteps   int64 `json:"ref_steps"`
	RefOOB     bool  `json:"ref_oob"`
	RefBudget  int64 `json:"ref_budget"`
}

func (c *c01) Generate(cx *Ctx, chunk int) []*Item {
	nGen, nClassic := 6000, 150
	if cx.Thorough() {
		nGen, nClassic = 150000, 2000
	}
	const chunkSize = 10000
	if chunk == 0 {
		if err := refSelfTest(); err != nil {
			cx.Note("reference self-test failed: " + err.Error())
			return nil
		}
	}
	lo := chunk * chunkSize
	if lo >= nGen+nClassic {
		return nil
	}
	hi := lo + chunkSize
	if hi > nGen+nClassic {
		hi = nGen + nClassic
	}
	metas := make([]*DiffMeta, 0, hi-lo)
	for i := lo; i < hi; i++ {
		if i < nGen {
			g := &progGen{r: cx.Rng(fmt.Sprintf("c01/%d", i))}
			cl, q, nv := g.program()
			// compare exactly the variables that occur in the query
			qv := term.VarsOf(q)
			sort.Slice(qv, func(a, b int) bool { return qv[a] < qv[b] })
			if qv == nil {
				qv = []int64{}
			}
			metas = append(metas, &DiffMeta{Program: cl, Query: q, NVars: nv, QVars: qv, Max: 25, Family: "generated", Assert: i%10 == 9})
			if i%6 == 3 {
				if rd := c01Redefined(g.r, cl, q, nv, qv); rd != nil {
					metas = append(metas, rd)
				}
			}
		} else {
			metas = append(metas, classicCase(cx, i-nGen))
		}
	}
	return prepareDiffItems(metas, refBudgetGenerated, ref.Options{})
}

// c01Redefined: the program is loaded, the query is run once (a directive), THEN one predicate that other clauses call is
// defined again by a later Exec text (which replaces its clauses): the query must be answered from the program as it
// stands now, whatever the first run left behind in the clauses that were not reloaded.
func c01Redefined(r *rand.Rand, cl []*term.Term, q *term.Term, nv int, qv []int64) *DiffMeta {
	head := func(c *term.Term) *term.Term {
		if c.IsCmp(":-", 2) {
			return c.Args[0]
		}
		return c
	}
	pi := func(h *term.Term) string { return fmt.Sprintf("%s/%d", h.S, len(h.Args)) }
	byPI := map[string][]*term.Term{}
	var order []string
	for _, c := range cl {
		if c.IsCmp(":-", 1) {
			return nil // declarations: not for this family
		}
		k := pi(head(c))
		if byPI[k] == nil {
			order = append(order, k)
		}
		byPI[k] = append(byPI[k], c)
	}
	// predicates called from the body of a clause of another predicate
	var called []string
	for _, k := range order {
		used := false
		for _, c := range cl {
			if !c.IsCmp(":-", 2) || pi(head(c)) == k {
				continue
			}
			var walk func(t *term.Term)
			walk = func(t *term.Term) {
				if t.K == term.KCmp || t.K == term.KAtom {
					if pi(t) == k {
						used = true
					}
					for _, a := range t.Args {
						walk(a)
					}
				}
			}
			walk(c.Args[1])
		}
		if used {
			called = append(called, k)
		}
	}
	if len(called) == 0 {
		return nil
	}
	k := called[r.Intn(len(called))]
	old := byPI[k]
	var fresh []*term.Term
	for i := len(old) - 1; i >= 0; i-- {
		fresh = append(fresh, old[i])
	}
	if len(fresh) > 1 {
		fresh = fresh[1:]
	} else {
		fresh = append(fresh, fresh[0])
	}
	// the old program must let the warm-up run end
	pre := &DiffMeta{Program: cl, Query: q, NVars: nv, QVars: qv, Max: 25}
	if o, err := pre.refRun(refBudgetGenerated, ref.Options{}); err != nil || o.M.Unsupported != "" || o.OutOfBudget || !(o.Exhausted || o.Err != nil) {
		return nil // the warm-up directive enumerates every answer: the search has to end
	}
	var now []*term.Term
	for _, c := range cl {
		if pi(head(c)) != k {
			now = append(now, c)
		}
	}
	now = append(now, fresh...)
	warm := ":- catch((" + term.Text(q, qvar) + ", fail ; true), _, true)."
	return &DiffMeta{Program: now, Query: q, NVars: nv, QVars: qv, Max: 25, Family: "redefined",
		SetupOverride: []string{programText(cl), warm, programText(fresh)}}
}

// prepareDiffItems runs the reference first (in parallel) so that each case carries a step budget derived
// from the reference's effort, and prefix cases pull exactly the answers the reference found.
func prepareDiffItems(metas []*DiffMeta, budget int64, opt ref.Options) []*Item {
	items := make([]*Item, len(metas))
	var wg sync.WaitGroup
	sem := make(chan struct{}, runtime.NumCPU())
	for i, d := range metas {
		wg.Add(1)
		sem <- struct{}{}
		go func(i int, d *DiffMeta) {
			defer wg.Done()
			defer func() { <-sem }()
			b := budget
			if d.Family == "classic" {
				b = 400000
			}
			o, err := d.refRun(b, opt)
			if err != nil || o.M.Unsupported != "" {
				return
			}
			if o.OutOfBudget && (len(o.Answers) == 0 || d.Unordered || d.Family == "history") {
				return // nothing to compare
			}
			m := c01Meta{DiffMeta: *d, RefAnswers: len(o.Answers), RefSteps: o.M.Steps, RefOOB: o.OutOfBudget, RefBudget: b}
			it := d.item()
			st := &it.Cases[0].Steps[0]
			if o.OutOfBudget {
				st.Max = len(o.Answers)
			}
			st.StepBudget = 2000*o.M.Steps + 200000
			it.Meta, _ = json.Marshal(&m)
			items[i] = it
		}(i, d)
	}
	wg.Wait()
	out := items[:0]
	for _, it := range items {
		if it != nil {
			out = append(out, it)
		}
	}
	return out
}

func (c *c01) Judge(cx *Ctx, it *Item, outs []*run.Outcome) Verdict {
	var m c01Meta
	if err := decodeMeta(it, &m); err != nil {
		return Verdict{Status: Inconclusive, Msg: err.Error()}
	}
	o, err := m.refRun(m.RefBudget, ref.Options{})
	if err != nil {
		return Verdict{Status: Inconclusive, Msg: err.Error()}
	}
	r := compareRun(&m.DiffMeta, o, outs[0], false)
	v := Verdict{Status: r.Status, Msg: r.Msg}
	v.NonTrivial = len(o.Answers) >= 1 && o.M.ClauseRetries >= 1
	v.Extra = map[string]int64{"answers_compared": int64(len(o.Answers))}
	if r.Prefix {
		v.Extra["prefix_cases"] = 1
	}
	switch m.Family {
	case "generated":
	case "redefined":
		v.Extra["redefined_after_a_first_run_cases"] = 1
	default:
		v.Extra["classic_cases"] = 1
	}
	if m.Assert {
		v.Extra["loaded_via_assertz"] = 1
	}
	v.Sample = map[string]interface{}{"program": programText(m.Program), "query": term.Text(m.Query, qvar), "expected": r.Expected, "observed": r.Observed}
	if v.Status == Violated {
		v.Msg = fmt.Sprintf("%s | program: %s | query: %s", r.Msg, oneLine(programText(m.Program)), term.Text(m.Query, qvar))
	}
	return v
}

func oneLine(s string) string {
	out := make([]rune, 0, len(s))
	for _, r := range s {
		if r == '\n' {
			r = ' '
		}
		out = append(out, r)
	}
	if len(out) > 600 {
		out = append(out[:600], '…')
	}
	return string(out)
}
