package main

import (
	"encoding/json"
	"fmt"
	"runtime"
	"sort"
	"sync"

	"verif/internal/ref"
	"verif/internal/run"
	"verif/internal/term"
)

func init() { checks["C01"] = func() Check { return &c01{} } }

type c01 struct{}

func (*c01) ID() string    { return "C01" }
func (*c01) Level() string { return "exploration" }
func (*c01) Rule() string {
	return "seeded random pure programs (1-4 predicates, arity 0-3, 1-4 clauses, nested compound/list/partial-list arguments, shared variables, recursion, nested ';', call/N, variable goals) + a fixed family of classic programs at several sizes, each run on the engine and on an independent reference SLD interpreter; answer sequences, termination and final status compared. Non-trivial: the reference produced >=1 answer AND backtracked into >=1 untried clause alternative; distinct by hash of program+query."
}
func (*c01) Assumptions() []string {
	return []string{
		"the reference interpreter (internal/ref) implements ISO SLD resolution correctly; it is self-tested on pinned ISO examples before every run",
		"programs whose reference run is subject to occurs check (STO) are skipped as undefined by ISO",
		"when the reference runs out of its step budget only the answers found so far are compared (prefix case)",
	}
}

const refBudgetGenerated = 20000

type c01Meta struct {
	DiffMeta
	RefAnswers int   `json:"ref_answers"`
	RefSteps   int64 `json:"ref_steps"`
	RefOOB     bool  `json:"ref_oob"`
	RefBudget  int64 `json:"ref_budget"`
}

func (c *c01) Generate(cx *Ctx, chunk int) []*Item {
	nGen, nClassic := 6000, 150
	if cx.Thorough() {
		nGen, nClassic = 150000, 2000
	}
	const chunkSize = 10000
	if chunk == 0 {
		if err := refSelfTest(); err != nil {
			cx.Note("reference self-test failed: " + err.Error())
			return nil
		}
	}
	lo := chunk * chunkSize
	if lo >= nGen+nClassic {
		return nil
	}
	hi := lo + chunkSize
	if hi > nGen+nClassic {
		hi = nGen + nClassic
	}
	metas := make([]*DiffMeta, 0, hi-lo)
	for i := lo; i < hi; i++ {
		if i < nGen {
			g := &progGen{r: cx.Rng(fmt.Sprintf("c01/%d", i))}
			cl, q, nv := g.program()
			// compare exactly the variables that occur in the query
			qv := term.VarsOf(q)
			sort.Slice(qv, func(a, b int) bool { return qv[a] < qv[b] })
			if qv == nil {
				qv = []int64{}
			}
			metas = append(metas, &DiffMeta{Program: cl, Query: q, NVars: nv, QVars: qv, Max: 25, Family: "generated", Assert: i%10 == 9})
		} else {
			metas = append(metas, classicCase(cx, i-nGen))
		}
	}
	return prepareDiffItems(metas, refBudgetGenerated, ref.Options{})
}

// prepareDiffItems runs the reference first (in parallel) so that each case carries a step budget derived
// from the reference's effort, and prefix cases pull exactly the answers the reference found.
func prepareDiffItems(metas []*DiffMeta, budget int64, opt ref.Options) []*Item {
	items := make([]*Item, len(metas))
	var wg sync.WaitGroup
	sem := make(chan struct{}, runtime.NumCPU())
	for i, d := range metas {
		wg.Add(1)
		sem <- struct{}{}
		go func(i int, d *DiffMeta) {
			defer wg.Done()
			defer func() { <-sem }()
			b := budget
			if d.Family == "classic" {
				b = 400000
			}
			o, err := d.refRun(b, opt)
			if err != nil || o.M.Unsupported != "" {
				return
			}
			if o.OutOfBudget && (len(o.Answers) == 0 || d.Unordered || d.Family == "history") {
				return // nothing to compare
			}
			m := c01Meta{DiffMeta: *d, RefAnswers: len(o.Answers), RefSteps: o.M.Steps, RefOOB: o.OutOfBudget, RefBudget: b}
			it := d.item()
			st := &it.Cases[0].Steps[0]
			if o.OutOfBudget {
				st.Max = len(o.Answers)
			}
			st.StepBudget = 2000*o.M.Steps + 200000
			it.Meta, _ = json.Marshal(&m)
			items[i] = it
		}(i, d)
	}
	wg.Wait()
	out := items[:0]
	for _, it := range items {
		if it != nil {
			out = append(out, it)
		}
	}
	return out
}

func (c *c01) Judge(cx *Ctx, it *Item, outs []*run.Outcome) Verdict {
	var m c01Meta
	if err := decodeMeta(it, &m); err != nil {
		return Verdict{Status: Inconclusive, Msg: err.Error()}
	}
	o, err := m.refRun(m.RefBudget, ref.Options{})
	if err != nil {
		return Verdict{Status: Inconclusive, Msg: err.Error()}
	}
	r := compareRun(&m.DiffMeta, o, outs[0], false)
	v := Verdict{Status: r.Status, Msg: r.Msg}
	v.NonTrivial = len(o.Answers) >= 1 && o.M.ClauseRetries >= 1
	v.Extra = map[string]int64{"answers_compared": int64(len(o.Answers))}
	if r.Prefix {
		v.Extra["prefix_cases"] = 1
	}
	if m.Family != "generated" {
		v.Extra["classic_cases"] = 1
	}
	if m.Assert {
		v.Extra["loaded_via_assertz"] = 1
	}
	v.Sample = map[string]interface{}{"program": programText(m.Program), "query": term.Text(m.Query, qvar), "expected": r.Expected, "observed": r.Observed}
	if v.Status == Violated {
		v.Msg = fmt.Sprintf("%s | program: %s | query: %s", r.Msg, oneLine(programText(m.Program)), term.Text(m.Query, qvar))
	}
	return v
}

func oneLine(s string) string {
	out := make([]rune, 0, len(s))
	for _, r := range s {
		if r == '\n' {
			r = ' '
		}
		out = append(out, r)
	}
	if len(out) > 600 {
		out = append(out[:600], '…')
	}
	return string(out)
}
