package main

// C07 — arithmetic is exact or raises an evaluation error; comparisons are numeric.
//
// The controller builds expression TERMS (never text: the reader's number conversion is another property),
// sends a few hundred to 2048 evaluations per case through verif_in/2 and lets one failure-driven query
// evaluate them all, logging result or ball per goal. The oracle (c07_model.go) is an exact, set-valued model
// on math/big and Go float64.

import (
	"encoding/json"
	"fmt"
	"math"
	"math/rand"
	"sort"
	"strings"

	"verif/internal/proto"
	"verif/internal/run"
	"verif/internal/term"
)

func init() { checks["C07"] = func() Check { return &c07{} } }

type c07 struct {
	plan []func() []*Item
}

func (*c07) ID() string    { return "C07" }
func (*c07) Level() string { return "exploration" }
func (*c07) Rule() string {
	return "(1) the complete boundary grid: every binary integer functor (+ - * // div mod rem min max ^ /\\ \\/ xor >> << and / ** atan2) on all pairs of the integer grid {0, +-1,2,3,7,31,32,53,62,63,64, +-(2^31-1..2^31+1), +-(2^32-1..2^32+1), +-3037000499/500, +-(2^53-1..2^53+1), +-(2^62-1..2^62+1), max-1, max, min+1, min}; both shifts for every grid integer x every count 0..63; every unary functor on every grid integer and grid float; + - * / min max ** ^ atan2 on all float x float, integer x float and float x integer grid pairs (float grid: +-{0.0, min and max subnormal, min normal, 1e-154, 0.1, 0.49999999999999994, 0.5, 1, 1.5, 2.5, 2^52-0.5, 2^52+1, 2^53, 2^63 and both neighbours, 1e154, 2^512, 2^969, 2^970, 2^1023, max and its predecessor}); all six comparisons on all pairs of the union grid. (2) seeded random operand pairs per functor aimed at the overflow/underflow/rounding boundaries (products near 2^63, sums near max/min, bases^exponents near 2^63, floats whose product/quotient/sum is within a few ulps of the overflow or underflow threshold, floats within ulps of 2^63 and of n+1/2, integers against float(n)+-ulp). (3) seeded random typed expression trees of depth 2..5 over all evaluable functors (leaves dense around 0 plus the grids plus uniform 64-bit patterns), as `X is T` and as `T1 op T2`. Operands are injected as terms (verif_in/2). Oracle: exact model (math/big integers, Go float64 = IEEE-754 binary64 for floats, set-valued where the statement leaves a choice); result compared as decimal integer / float bit pattern, errors by Formal. Non-trivial evaluation: asserted AND at least one leaf is a float, a negative integer or |n| >= 2^31; an item (one batch of <= 2048 evaluations run by one query) is non-trivial when it contains one; distinct by batch hash; the number of non-trivial evaluations is reported as nontrivial_evaluations."
}
func (*c07) Assumptions() []string {
	return []string{
		"Go's float64 + - * / sqrt, math.Floor/Ceil/Trunc/Round and int64->float64 conversion on the controller host are IEEE-754 binary64 correctly rounded operations (no FMA contraction: every model operation is a single rounded operation)",
		"flag integer_rounding_function = toward_zero (// and rem truncate, div and mod floor)",
		"not constrained by the statement, hence not asserted beyond `a number or an evaluation_error/type_error comes back` (counted as not_asserted, by reason under partly_or_not_asserted:<reason>): ^ with negative exponent and |base| /= 1, shifts with a count outside 0..63, integer-only functors with a float operand, float-only functors (floor.. float_integer_part..) with an integer operand",
		"partially asserted: a shift by 0..63 whose exact result does not fit must not return a value (any error accepted); integer / integer accepts the float quotient (fl(x)/fl(y) or the correctly rounded exact quotient) or the exact integer quotient when divisible; mixed min/max accept either operand when they compare equal and the chosen operand as is or converted to float; round/1 accepts both half-away-from-zero and floor(x+1/2) on exact ties; sign, float_integer_part, float_fractional_part, sqrt accept either sign of a zero result; x / 0.0 accepts zero_divisor or the IEEE class (float_overflow, undefined for 0/0)",
		"WEAK: sin cos tan asin acos atan atan2 exp log ** and ^ with a float operand are compared with Go's own math package to <= 1 ulp (the engine uses the same library, so this only detects wrong function/argument wiring and wrong error classes: NaN/Inf => some evaluation_error, underflow only for zero/subnormal results)",
		"when both operands of a functor raise different errors either error is accepted (ISO does not fix the evaluation order of operands)",
		"error Context terms are not compared; for type errors (only possible in not-asserted cases) nothing but the class is looked at",
	}
}

// ---------------------------------------------------------------------------------------------------
// Item layouts. Every evaluation logs exactly one event verif_out(r, R), in order: R is the number computed by
// is/2, `true`/`false` for a comparison (`fail` if is/2 failed) or x(Ball). The k-th event belongs to the k-th
// goal. Layout "list": Inputs[0] = [Goal, ...] (Goal = is(V, Expr) or Op(E1, E2)). The grid is kept compact:
// layout "cross-is": Inputs = Op, Xs, Ys and the query itself forms Op(X, Y) for all pairs (row-major) with
// =../2; layout "cross-cmp": Inputs = Xs, Ys and the query applies all six comparison operators to every pair
// (one event per pair that carries the six truth values).

const (
	c07QueryList    = "verif_in(0, L), member(G, L), catch((G = is(X, _) -> (call(G) -> R = X ; R = fail) ; (call(G) -> R = true ; R = false)), B, R = x(B)), verif_out(r, R), fail."
	c07QueryCrossIs = "verif_in(0, Op), verif_in(1, Xs), verif_in(2, Ys), member(X, Xs), member(Y, Ys), E =.. [Op, X, Y], catch((V is E -> R = V ; R = fail), B, R = x(B)), verif_out(r, R), fail."
	// all six comparisons of one pair in one pass, in the order of c07Cmp; one event r(T1,..,T6) (1/0) or x(Ball)
	c07QueryCrossCmp = "verif_in(0, Xs), verif_in(1, Ys), member(X, Xs), member(Y, Ys), catch(((X =:= Y -> T1 = 1 ; T1 = 0), (X =\\= Y -> T2 = 1 ; T2 = 0), (X < Y -> T3 = 1 ; T3 = 0), (X =< Y -> T4 = 1 ; T4 = 0), (X > Y -> T5 = 1 ; T5 = 0), (X >= Y -> T6 = 1 ; T6 = 0), R = r(T1, T2, T3, T4, T5, T6)), B, R = x(B)), verif_out(r, R), fail."
)

const (
	c07Batch      = 400  // goals per "list" item
	c07CrossBatch = 2048 // evaluations per "cross" item (at most)
)

type c07Meta struct {
	Family string `json:"family"`
	Layout string `json:"layout"`
}

func c07IsGoal(e *term.Term) *term.Term { return term.C("is", term.V(0), e) }

func c07Item(family, layout, query string, inputs ...*term.Term) *Item {
	c := &proto.Case{Kind: "prolog", Inputs: inputs, Steps: []proto.Step{{Query: query, Max: 1, StepBudget: 500_000_000}}}
	meta, _ := json.Marshal(&c07Meta{Family: family, Layout: layout})
	return &Item{Cases: []*proto.Case{c}, Meta: meta, Note: family}
}

func c07Items(family string, goals []*term.Term) []*Item {
	var items []*Item
	for lo := 0; lo < len(goals); lo += c07Batch {
		hi := c07Min(lo+c07Batch, len(goals))
		items = append(items, c07Item(family, "list", c07QueryList, term.L(goals[lo:hi]...)))
	}
	return items
}

// c07Cross returns the items that evaluate X is op(x, y) on all pairs xs x ys; with op == "" the items that
// apply all six comparisons to all pairs.
func c07Cross(family, op string, xs, ys []*term.Term) []*Item {
	per := len(ys)
	if op == "" {
		per *= len(c07Cmp)
	}
	rows := c07CrossBatch / per
	if rows < 1 {
		rows = 1
	}
	var items []*Item
	for lo := 0; lo < len(xs); lo += rows {
		hi := c07Min(lo+rows, len(xs))
		if op == "" {
			items = append(items, c07Item(family, "cross-cmp", c07QueryCrossCmp, term.L(xs[lo:hi]...), term.L(ys...)))
		} else {
			items = append(items, c07Item(family, "cross-is", c07QueryCrossIs, term.A(op), term.L(xs[lo:hi]...), term.L(ys...)))
		}
	}
	return items
}

// c07GoalsOf reconstructs the goals of an item, in evaluation order, from its inputs.
func c07GoalsOf(it *Item, m *c07Meta) ([]*term.Term, error) {
	if len(it.Cases) != 1 {
		return nil, fmt.Errorf("malformed item")
	}
	in := it.Cases[0].Inputs
	switch {
	case m.Layout == "list" && len(in) == 1:
		goals, _ := term.ListElems(in[0])
		return goals, nil
	case m.Layout == "cross-is" && len(in) == 3 && in[0].K == term.KAtom:
		xs, _ := term.ListElems(in[1])
		ys, _ := term.ListElems(in[2])
		goals := make([]*term.Term, 0, len(xs)*len(ys))
		for _, x := range xs {
			for _, y := range ys {
				goals = append(goals, c07IsGoal(term.C(in[0].S, x, y)))
			}
		}
		return goals, nil
	case m.Layout == "cross-cmp" && len(in) == 2:
		xs, _ := term.ListElems(in[0])
		ys, _ := term.ListElems(in[1])
		goals := make([]*term.Term, 0, len(xs)*len(ys)*len(c07Cmp))
		for _, x := range xs {
			for _, y := range ys {
				for _, op := range c07Cmp {
					goals = append(goals, term.C(op, x, y))
				}
			}
		}
		return goals, nil
	}
	return nil, fmt.Errorf("malformed item (layout %q)", m.Layout)
}

// ---------------------------------------------------------------------------------------------------
// Grids.

var (
	c07IntBin    = []string{"+", "-", "*", "//", "div", "mod", "rem", "min", "max", "^", "/\\", "\\/", "xor", ">>", "<<"}
	c07OtherBin  = []string{"/", "**", "atan2"}
	c07FloatBin  = []string{"+", "-", "*", "/", "min", "max", "**", "^", "atan2"}
	c07IntOnly   = []string{"//", "div", "mod", "rem", "/\\", "\\/", "xor", ">>", "<<"}
	c07Unary     = []string{"-", "+", "abs", "sign", "\\", "float", "float_integer_part", "float_fractional_part", "floor", "ceiling", "round", "truncate", "sqrt", "sin", "cos", "tan", "asin", "acos", "atan", "exp", "log"}
	c07Cmp       = []string{"=:=", "=\\=", "<", "=<", ">", ">="}
	c07F2I       = []string{"floor", "ceiling", "round", "truncate"}
	c07WeakUnary = []string{"sin", "cos", "tan", "asin", "acos", "atan", "exp", "log"}
)

func c07Ints() []int64 {
	pos := []int64{1, 2, 3, 7, 31, 32, 53, 62, 63, 64,
		1<<31 - 1, 1 << 31, 1<<31 + 1, 1<<32 - 1, 1 << 32, 1<<32 + 1, 3037000499, 3037000500,
		1<<53 - 1, 1 << 53, 1<<53 + 1, 1<<62 - 1, 1 << 62, 1<<62 + 1, math.MaxInt64 - 1, math.MaxInt64}
	out := []int64{0, math.MinInt64}
	for _, p := range pos {
		out = append(out, p, -p)
	}
	sort.Slice(out, func(i, j int) bool { return out[i] < out[j] })
	return out
}

func c07Floats() []float64 {
	two63 := math.Ldexp(1, 63)
	pos := []float64{0, math.SmallestNonzeroFloat64, math.Float64frombits(0x000fffffffffffff), math.Float64frombits(0x0010000000000000),
		1e-154, 0.1, 0.49999999999999994, 0.5, 1, 1.5, 2.5,
		math.Ldexp(1, 52) + 1, math.Ldexp(1, 52) - 0.5, math.Ldexp(1, 53),
		math.Nextafter(two63, 0), two63, math.Nextafter(two63, math.Inf(1)),
		1e154, math.Ldexp(1, 512), math.Ldexp(1, 969), math.Ldexp(1, 970), math.Ldexp(1, 1023),
		math.Nextafter(math.MaxFloat64, 0), math.MaxFloat64}
	var out []float64
	for _, p := range pos {
		out = append(out, p, -p)
	}
	sort.Slice(out, func(i, j int) bool {
		if out[i] != out[j] {
			return out[i] < out[j]
		}
		return math.Signbit(out[i]) && !math.Signbit(out[j])
	})
	return out
}

func c07IntTerms() []*term.Term {
	var ts []*term.Term
	for _, n := range c07Ints() {
		ts = append(ts, term.I(n))
	}
	return ts
}

func c07FloatTerms() []*term.Term {
	var ts []*term.Term
	for _, f := range c07Floats() {
		ts = append(ts, term.F(f))
	}
	return ts
}

func c07Pairs(op string, xs, ys []*term.Term) []*term.Term {
	goals := make([]*term.Term, 0, len(xs)*len(ys))
	for _, x := range xs {
		for _, y := range ys {
			goals = append(goals, c07IsGoal(term.C(op, x, y)))
		}
	}
	return goals
}

// c07Grid returns the items of the complete boundary grid.
func c07Grid() []*Item {
	var items []*Item
	ints, floats := c07IntTerms(), c07FloatTerms()
	union := append(append([]*term.Term{}, ints...), floats...)
	for _, op := range append(append([]string{}, c07IntBin...), c07OtherBin...) {
		items = append(items, c07Cross("grid/int.int/"+op, op, ints, ints)...)
	}
	var counts []*term.Term
	for s := int64(0); s < 64; s++ {
		counts = append(counts, term.I(s))
	}
	items = append(items, c07Cross("grid/shift-count/<<", "<<", ints, counts)...)
	items = append(items, c07Cross("grid/shift-count/>>", ">>", ints, counts)...)
	for _, op := range c07Unary {
		var gi, gf []*term.Term
		for _, x := range ints {
			gi = append(gi, c07IsGoal(term.C(op, x)))
		}
		for _, x := range floats {
			gf = append(gf, c07IsGoal(term.C(op, x)))
		}
		items = append(items, c07Items("grid/unary.int/"+op, gi)...)
		items = append(items, c07Items("grid/unary.float/"+op, gf)...)
	}
	for _, op := range c07FloatBin {
		items = append(items, c07Cross("grid/float.float/"+op, op, floats, floats)...)
		items = append(items, c07Cross("grid/int.float/"+op, op, ints, floats)...)
		items = append(items, c07Cross("grid/float.int/"+op, op, floats, ints)...)
	}
	// integer-only functors with a float operand: not constrained by the statement; a reduced grid keeps the
	// "a number or an ISO error comes back" sanity rule exercised
	fs := []*term.Term{term.F(math.Copysign(0, -1)), term.F(1), term.F(1.5), term.F(math.Ldexp(1, 63)), term.F(-math.MaxFloat64)}
	is := []*term.Term{term.I(0), term.I(1), term.I(-1), term.I(math.MinInt64)}
	for _, op := range c07IntOnly {
		goals := c07Pairs(op, fs, is)
		goals = append(goals, c07Pairs(op, is, fs)...)
		goals = append(goals, c07Pairs(op, fs, fs)...)
		items = append(items, c07Items("grid/ill-typed/"+op, goals)...)
	}
	return append(items, c07Cross("grid/compare/all-six", "", union, union)...)
}

// ---------------------------------------------------------------------------------------------------
// Random leaves, operand pairs and trees.

type c07Gen struct{ r *rand.Rand }

func (g *c07Gen) pick(ws ...int) int {
	t := 0
	for _, w := range ws {
		t += w
	}
	k := g.r.Intn(t)
	for i, w := range ws {
		if k < w {
			return i
		}
		k -= w
	}
	return len(ws) - 1
}

func c07Clamp(f float64) int64 {
	switch {
	case f >= 9.2233720368547748e18:
		return math.MaxInt64
	case f <= -9.2233720368547758e18:
		return math.MinInt64
	}
	return int64(f)
}

var c07IntBounds = []int64{1 << 31, 1 << 32, 1 << 53, 1 << 62, 3037000500, math.MaxInt64, math.MinInt64, -(1 << 31), -(1 << 53), -(1 << 62)}

// bigInt is a 64-bit integer that is not small.
func (g *c07Gen) bigInt() int64 {
	switch g.pick(30, 20, 20, 30) {
	case 0: // +-2^k + d (wraps around at the ends on purpose: still a valid 64-bit integer)
		n := int64(uint64(1)<<uint(g.r.Intn(64))) + int64(g.r.Intn(5)-2)
		if g.r.Intn(2) == 0 {
			n = -n
		}
		return n
	case 1:
		gr := c07Ints()
		return gr[g.r.Intn(len(gr))]
	case 2:
		return int64(uint64(c07IntBounds[g.r.Intn(len(c07IntBounds))]) + uint64(g.r.Intn(9)-4))
	default:
		return int64(g.r.Uint64())
	}
}

func (g *c07Gen) intVal() int64 {
	if g.r.Intn(100) < 45 {
		return int64(g.r.Intn(33) - 16)
	}
	return g.bigInt()
}

func (g *c07Gen) finiteBits() float64 {
	for {
		f := math.Float64frombits(g.r.Uint64())
		if !math.IsNaN(f) && !math.IsInf(f, 0) {
			return f
		}
	}
}

func (g *c07Gen) ulps(f float64, max int) float64 {
	n := g.r.Intn(2*max+1) - max
	for ; n > 0; n-- {
		f = math.Nextafter(f, math.Inf(1))
	}
	for ; n < 0; n++ {
		f = math.Nextafter(f, math.Inf(-1))
	}
	if math.IsInf(f, 0) {
		return math.Copysign(math.MaxFloat64, f)
	}
	return f
}

func (g *c07Gen) sign(f float64) float64 {
	if g.r.Intn(2) == 0 {
		return -f
	}
	return f
}

// bigFloat is a finite float that is not a small "nice" number.
func (g *c07Gen) bigFloat() float64 {
	switch g.pick(25, 35, 15, 25) {
	case 0:
		gr := c07Floats()
		return gr[g.r.Intn(len(gr))]
	case 1:
		return g.finiteBits()
	case 2: // +-2^k in the whole exponent range, a few ulps off
		return g.sign(g.ulps(math.Ldexp(1, g.r.Intn(2098)-1074), 2))
	default: // around the integer boundaries and around n + 1/2
		switch g.r.Intn(4) {
		case 0:
			return g.sign(g.ulps(math.Ldexp(1, 63), 3))
		case 1:
			return g.sign(g.ulps(math.Ldexp(1, 52+g.r.Intn(3)), 4))
		case 2:
			return g.sign(float64(g.r.Intn(1<<20)) + 0.5)
		default:
			return g.sign(g.ulps(float64(g.r.Intn(1000))+0.5, 1))
		}
	}
}

func (g *c07Gen) floatVal() float64 {
	if g.r.Intn(100) < 35 {
		return float64(g.r.Intn(81)-40) / 4
	}
	return g.bigFloat()
}

func (g *c07Gen) intLeaf() *term.Term   { return term.I(g.intVal()) }
func (g *c07Gen) floatLeaf() *term.Term { return term.F(g.floatVal()) }

// genI builds an expression whose value (if any) is an integer, genF one whose value is a float; a small
// fraction is ill-typed on purpose.
func (g *c07Gen) genI(d int) *term.Term {
	if d <= 0 || g.r.Intn(100) < 22 {
		return g.intLeaf()
	}
	sub := func() *term.Term { return g.genI(d - 1) }
	switch g.pick(30, 20, 6, 9, 5, 6, 12, 10, 2) {
	case 0:
		return term.C([]string{"+", "-", "*"}[g.r.Intn(3)], sub(), sub())
	case 1:
		return term.C([]string{"//", "div", "mod", "rem"}[g.r.Intn(4)], sub(), sub())
	case 2:
		return term.C([]string{"min", "max"}[g.r.Intn(2)], sub(), sub())
	case 3:
		return term.C([]string{"/\\", "\\/", "xor"}[g.r.Intn(3)], sub(), sub())
	case 4:
		e := term.I(int64(g.r.Intn(7)))
		if g.r.Intn(5) == 0 {
			e = sub()
		}
		return term.C("^", sub(), e)
	case 5:
		s := term.I(int64(g.r.Intn(64)))
		if g.r.Intn(7) == 0 {
			s = sub()
		}
		return term.C([]string{"<<", ">>"}[g.r.Intn(2)], sub(), s)
	case 6:
		return term.C([]string{"-", "abs", "sign", "\\", "+"}[g.r.Intn(5)], sub())
	case 7:
		return term.C(c07F2I[g.r.Intn(4)], g.genF(d-1))
	default:
		return g.genF(d - 1)
	}
}

func (g *c07Gen) genF(d int) *term.Term {
	if d <= 0 || g.r.Intn(100) < 22 {
		return g.floatLeaf()
	}
	sub := func() *term.Term { return g.genF(d - 1) }
	switch g.pick(45, 6, 10, 12, 6, 5, 6, 4, 3, 3) {
	case 0:
		op := []string{"+", "-", "*", "/"}[g.r.Intn(4)]
		switch g.r.Intn(4) {
		case 0:
			return term.C(op, g.genI(d-1), sub())
		case 1:
			return term.C(op, sub(), g.genI(d-1))
		default:
			return term.C(op, sub(), sub())
		}
	case 1:
		return term.C([]string{"min", "max"}[g.r.Intn(2)], sub(), sub())
	case 2:
		return term.C([]string{"-", "abs", "sign", "+"}[g.r.Intn(4)], sub())
	case 3:
		if g.r.Intn(6) == 0 {
			return term.C("float", sub())
		}
		return term.C("float", g.genI(d-1))
	case 4:
		return term.C([]string{"float_integer_part", "float_fractional_part"}[g.r.Intn(2)], sub())
	case 5:
		if g.r.Intn(3) == 0 {
			return term.C("sqrt", g.genI(d-1))
		}
		return term.C("sqrt", sub())
	case 6:
		return term.C(c07WeakUnary[g.r.Intn(len(c07WeakUnary))], sub())
	case 7:
		return term.C([]string{"atan2", "**", "^"}[g.r.Intn(3)], sub(), sub())
	case 8:
		return term.C("/", g.genI(d-1), g.genI(d-1))
	default:
		if g.r.Intn(2) == 0 {
			return term.C([]string{"min", "max"}[g.r.Intn(2)], g.genI(d-1), sub())
		}
		return term.C([]string{"min", "max"}[g.r.Intn(2)], sub(), g.genI(d-1))
	}
}

// tree returns an expression with at least one functor.
func (g *c07Gen) tree(d int) *term.Term {
	for {
		var t *term.Term
		if g.r.Intn(100) < 60 {
			t = g.genI(d)
		} else {
			t = g.genF(d)
		}
		if t.K == term.KCmp {
			return t
		}
	}
}

func (g *c07Gen) treeGoal() *term.Term {
	if g.r.Intn(4) == 0 {
		d := 1 + g.r.Intn(4)
		return term.C(c07Cmp[g.r.Intn(6)], g.tree(d), g.tree(1+g.r.Intn(d)))
	}
	return c07IsGoal(g.tree(2 + g.r.Intn(4)))
}

// intPair returns operands for a binary integer functor aimed at its interesting boundary.
func (g *c07Gen) intPair(op string) (int64, int64) {
	a := g.bigInt()
	switch op {
	case "+":
		if g.r.Intn(2) == 0 { // a + b within +-3 of max or min
			lim := int64(math.MaxInt64)
			if a < 0 {
				lim = math.MinInt64
			}
			return a, int64(uint64(lim) - uint64(a) + uint64(g.r.Intn(7)-3))
		}
	case "-":
		if g.r.Intn(2) == 0 { // a - b within +-3 of max or min
			lim := int64(math.MaxInt64)
			if g.r.Intn(2) == 0 {
				lim = math.MinInt64
			}
			return a, int64(uint64(a) - uint64(lim) + uint64(g.r.Intn(7)-3))
		}
	case "*":
		if a != 0 && g.r.Intn(3) != 0 { // a * b within a few multiples of a of +-2^63
			q := c07Clamp(math.Ldexp(1, 63) / float64(a))
			return a, int64(uint64(q) + uint64(g.r.Intn(7)-3))
		}
	case "//", "div", "mod", "rem":
		switch g.r.Intn(4) {
		case 0:
			return a, int64(g.r.Intn(33) - 16)
		case 1:
			return a, int64(uint64(a) + uint64(g.r.Intn(5)-2))
		case 2:
			return a, g.bigInt() >> uint(g.r.Intn(63))
		}
	case "^":
		switch g.r.Intn(5) {
		case 0:
			return int64(g.r.Intn(7) - 3), int64(g.r.Intn(140) - 70)
		case 1, 2, 3: // base^exponent close to 2^63
			e := int64(2 + g.r.Intn(62))
			b := int64(math.Pow(2, 63/float64(e))) + int64(g.r.Intn(5)-2)
			if g.r.Intn(2) == 0 {
				b = -b
			}
			return b, e + int64(g.r.Intn(3)-1)
		default:
			return int64(g.r.Intn(3) - 1), g.bigInt()
		}
	case "<<", ">>":
		if g.r.Intn(10) != 0 {
			return a >> uint(g.r.Intn(64)), int64(g.r.Intn(64))
		}
		return a, int64(g.r.Intn(200) - 100)
	}
	if g.r.Intn(4) == 0 {
		return a, int64(g.r.Intn(33) - 16)
	}
	return a, g.bigInt()
}

// floatPair returns operands for a binary float functor aimed at overflow/underflow/rounding boundaries.
func (g *c07Gen) floatPair(op string) (float64, float64) {
	x := g.bigFloat()
	fin := func(f float64) float64 {
		if math.IsInf(f, 0) || math.IsNaN(f) {
			return g.bigFloat()
		}
		return f
	}
	switch op {
	case "*":
		switch g.r.Intn(4) {
		case 0:
			if x != 0 { // |x*y| within a few ulps of the overflow threshold
				return x, fin(g.ulps(math.MaxFloat64/x, 3))
			}
		case 1:
			if x != 0 { // |x*y| around the smallest subnormal
				return x, fin(g.ulps(math.SmallestNonzeroFloat64*float64(1+g.r.Intn(3))/x, 3))
			}
		}
	case "/":
		switch g.r.Intn(4) {
		case 0:
			return x, fin(g.ulps(x/math.MaxFloat64, 3))
		case 1:
			if x != 0 {
				return x, fin(g.ulps(x/math.SmallestNonzeroFloat64/float64(1+g.r.Intn(3)), 3))
			}
		}
	case "+", "-":
		if g.r.Intn(3) == 0 { // sum/difference within a few ulps of +-max
			big := g.sign(g.ulps(math.MaxFloat64, 4))
			small := g.sign(g.ulps(math.Ldexp(1, 969+g.r.Intn(4)), 3))
			if g.r.Intn(2) == 0 {
				return big, small
			}
			return small, big
		}
	}
	return x, g.floatVal()
}

func (g *c07Gen) pairGoals(n int) []*term.Term {
	goals := make([]*term.Term, 0, n)
	I, F := term.I, term.F
	for len(goals) < n {
		switch g.pick(40, 25, 10, 10, 15) {
		case 0: // integer functor, integer operands
			ops := append(append([]string{}, c07IntBin...), "/", "**")
			op := ops[g.r.Intn(len(ops))]
			a, b := g.intPair(op)
			goals = append(goals, c07IsGoal(term.C(op, I(a), I(b))))
		case 1: // float functor, float or mixed operands
			op := c07FloatBin[g.r.Intn(len(c07FloatBin))]
			x, y := g.floatPair(op)
			switch g.r.Intn(5) {
			case 0:
				goals = append(goals, c07IsGoal(term.C(op, I(g.intVal()), F(y))))
			case 1:
				goals = append(goals, c07IsGoal(term.C(op, F(x), I(g.intVal()))))
			default:
				goals = append(goals, c07IsGoal(term.C(op, F(x), F(y))))
			}
		case 2: // float -> integer
			goals = append(goals, c07IsGoal(term.C(c07F2I[g.r.Intn(4)], F(g.bigFloat()))))
		case 3: // other unary
			op := c07Unary[g.r.Intn(len(c07Unary))]
			if g.r.Intn(2) == 0 {
				goals = append(goals, c07IsGoal(term.C(op, I(g.intVal()))))
			} else {
				goals = append(goals, c07IsGoal(term.C(op, F(g.floatVal()))))
			}
		default: // comparisons: integer against float(n) +- ulps, equal and neighbouring values
			op := c07Cmp[g.r.Intn(6)]
			n := g.intVal()
			var a, b *term.Term
			switch g.r.Intn(5) {
			case 0:
				a, b = I(n), F(g.ulps(float64(n), 2))
			case 1:
				a, b = F(g.ulps(float64(n), 2)), I(n)
			case 2:
				a, b = I(n), I(int64(uint64(n)+uint64(g.r.Intn(3)-1)))
			case 3:
				x := g.floatVal()
				a, b = F(x), F(g.ulps(x, 1))
			default:
				a, b = I(n), F(g.floatVal())
			}
			goals = append(goals, term.C(op, a, b))
		}
	}
	return goals
}

// ---------------------------------------------------------------------------------------------------

func (c *c07) Generate(cx *Ctx, chunk int) []*Item {
	if c.plan == nil {
		c.plan = []func() []*Item{c07Grid}
		nTrees, nPairs := 20000, 40000
		if cx.Thorough() {
			nTrees, nPairs = 500_000, 1_500_000
		}
		const perChunk = 60000 // evaluations per generated chunk
		for lo := 0; lo < nPairs; lo += perChunk {
			lo, n := lo, c07Min(perChunk, nPairs-lo)
			c.plan = append(c.plan, func() []*Item {
				g := &c07Gen{r: cx.Rng(fmt.Sprintf("c07/pairs/%d", lo))}
				return c07Items("random/pairs", g.pairGoals(n))
			})
		}
		for lo := 0; lo < nTrees; lo += perChunk {
			lo, n := lo, c07Min(perChunk, nTrees-lo)
			c.plan = append(c.plan, func() []*Item {
				g := &c07Gen{r: cx.Rng(fmt.Sprintf("c07/trees/%d", lo))}
				goals := make([]*term.Term, 0, n)
				for i := 0; i < n; i++ {
					goals = append(goals, g.treeGoal())
				}
				return c07Items("random/trees", goals)
			})
		}
		cx.Note("the boundary grid (families grid/*) is enumerated completely in every tier; random/pairs and random/trees are seeded samples")
		cx.Note("transcendental functions, ** and ^ with a float operand are only compared with Go's own math package (<= 1 ulp): weak by construction, see assumptions")
	}
	if chunk >= len(c.plan) {
		return nil
	}
	return c.plan[chunk]()
}

func c07Min(a, b int) int {
	if a < b {
		return a
	}
	return b
}

// ---------------------------------------------------------------------------------------------------
// Judge.

type c07Obs struct {
	seen  bool
	truth int        // 1 = succeeded, 0 = failed (events t / f)
	val   *term.Term // result of is/2 (event t)
	ball  *term.Term // event x
}

func (o *c07Obs) text(isGoal bool) string {
	switch {
	case !o.seen:
		return "(not observed)"
	case o.ball != nil:
		if o.ball.IsCmp("error", 2) {
			return "error " + o.ball.Args[0].String()
		}
		return "ball " + o.ball.String()
	case isGoal && o.truth == 1 && o.val != nil:
		return c07NumText(o.val)
	case o.truth == 1:
		return "true"
	}
	return "false"
}

func c07NumText(t *term.Term) string {
	if t.K == term.KFloat {
		return fmt.Sprintf("%s [bits %016x]", c07FloatText(t.F), math.Float64bits(t.F))
	}
	return t.String()
}

func c07FloatText(f float64) string {
	switch {
	case math.IsNaN(f):
		return "NaN"
	case math.IsInf(f, 1):
		return "+Inf"
	case math.IsInf(f, -1):
		return "-Inf"
	}
	return term.FloatText(f)
}

type c07Deviation struct {
	Goal     string `json:"goal"`
	Expected string `json:"expected"`
	Observed string `json:"observed"`
	Sig      string `json:"kind"`
}

func (c *c07) Judge(cx *Ctx, it *Item, outs []*run.Outcome) Verdict {
	var m c07Meta
	_ = decodeMeta(it, &m)
	o := outs[0]
	if o.Crash != nil {
		if o.Crash.Hung {
			return Verdict{Status: Inconclusive, Msg: "watchdog fired (wall clock) — no logical evidence"}
		}
		// a Go panic / fatal error escaping from an evaluation is neither the exact result nor the stated error;
		// a worker that disappeared for any other reason (killed from outside) says nothing about arithmetic
		if strings.Contains(o.Crash.Stderr, "panic:") || strings.Contains(o.Crash.Stderr, "fatal error:") {
			return Verdict{Status: Violated, Msg: "worker process died while evaluating arithmetic (" + m.Family + "): " + o.Crash.Exit + "\n" + firstLines(o.Crash.Stderr, 12)}
		}
		return Verdict{Status: Inconclusive, Msg: "worker process ended without a Go panic trace (" + o.Crash.Exit + ")"}
	}
	res := o.Res
	if res == nil || res.Fatal != "" || len(res.Steps) != 1 {
		return Verdict{Status: Inconclusive, Msg: "worker: no usable result"}
	}
	elems, err := c07GoalsOf(it, &m)
	if err != nil {
		return Verdict{Status: Inconclusive, Msg: err.Error()}
	}
	obs := make([]c07Obs, len(elems))
	st := res.Steps[0]
	per := 1 // goals per event
	if m.Layout == "cross-cmp" {
		per = len(c07Cmp)
	}
	k := 0
	for _, ev := range st.Events {
		if ev.Tag != "r" || ev.T == nil {
			continue
		}
		if k+per > len(obs) {
			return Verdict{Status: Inconclusive, Msg: "more outcomes logged than goals sent"}
		}
		for j := 0; j < per; j++ {
			ob := &obs[k]
			k++
			ob.seen = true
			switch {
			case ev.T.IsCmp("x", 1):
				ob.ball = ev.T.Args[0]
			case per > 1 && ev.T.IsCmp("r", per) && ev.T.Args[j].K == term.KInt:
				ob.truth = int(ev.T.Args[j].I)
			case per > 1:
				return Verdict{Status: Inconclusive, Msg: "unexpected event " + ev.T.String()}
			case ev.T.IsAtom("true"):
				ob.truth = 1
			case ev.T.IsAtom("false") || ev.T.IsAtom("fail"):
				ob.truth = 0
			default:
				ob.truth, ob.val = 1, ev.T
			}
		}
	}
	aborted := ""
	switch {
	case st.BudgetHit:
		aborted = "step budget exhausted"
	case st.Err != nil:
		aborted = "query ended with " + st.Err.Text
	}

	group := m.Family
	if parts := strings.SplitN(group, "/", 3); len(parts) == 3 { // grid/<operand types>/<functor>
		group = parts[0] + "/" + parts[1]
	}
	extra := map[string]int64{"arith_evaluations": int64(len(elems)), "family:" + group: int64(len(elems))}
	var devs []c07Deviation
	explained := make([]int, len(c07DevModels)) // deviations each deviation model accounts for
	var samples []interface{}
	sampled := map[string]bool{}
	nontrivial, unobserved := 0, 0
	strict := &c07Model{}
	expect := func(md *c07Model, goal *term.Term) *c07Expect {
		if goal.IsCmp("is", 2) {
			return md.expectIs(goal.Args[1])
		}
		return md.expectCmp(goal.S, goal.Args[0], goal.Args[1])
	}
	for i, goal := range elems {
		isGoal := goal.IsCmp("is", 2)
		ob := &obs[i]
		exp := expect(strict, goal)
		cls := exp.class()
		extra["op:"+c07Root(goal)]++
		extra["expect:"+cls]++
		if m.Family == "random/trees" {
			extra[fmt.Sprintf("trees:depth_%d", c07Depth(goal)-1)]++
			extra["trees:expect:"+cls]++
		}
		if exp.set.why != "" {
			extra["partly_or_not_asserted:"+exp.set.why]++
		}
		if exp.asserted() {
			extra["asserted"]++
		} else {
			extra["not_asserted"]++
		}
		if !ob.seen {
			if aborted == "" {
				devs = append(devs, c07Deviation{Goal: goal.String(), Expected: exp.text(), Observed: "no outcome logged", Sig: c07Root(goal) + ": no outcome"})
			} else {
				unobserved++
			}
			continue
		}
		nt := exp.asserted() && c07NonTrivialLeaves(goal)
		if nt {
			nontrivial++
		}
		if exp.accepts(ob, isGoal) {
			if nt && !sampled[cls] && len(samples) < 3 {
				sampled[cls] = true
				samples = append(samples, map[string]interface{}{"goal": goal.String(), "expected": exp.text(), "observed": ob.text(isGoal)})
			}
			continue
		}
		devs = append(devs, c07Deviation{Goal: goal.String(), Expected: exp.text(), Observed: ob.text(isGoal), Sig: c07Root(goal) + ": " + c07ObsKind(ob, isGoal) + " where " + cls + " expected"})
		for k := range c07DevModels {
			if expect(&c07DevModels[k].model, goal).accepts(ob, isGoal) {
				explained[k]++
			}
		}
	}
	extra["nontrivial_evaluations"] = int64(nontrivial)
	v := Verdict{Extra: extra, NonTrivial: nontrivial > 0}
	if len(samples) > 0 {
		v.Sample = map[string]interface{}{"family": m.Family, "evaluations": samples}
	}
	if aborted != "" {
		// the loop was cut short: the first goal without an outcome is the one that ended it
		extra["unobserved_after_abort"] = int64(unobserved)
		v.Status = Violated
		first := ""
		for i := range elems {
			if !obs[i].seen {
				first = elems[i].String()
				break
			}
		}
		v.Msg = fmt.Sprintf("%s: the evaluation loop was cut short (%s) at goal %s; catch/3 with a variable catcher did not see it", m.Family, aborted, first)
		if st.BudgetHit {
			v.Status = Inconclusive
		}
		return v
	}
	if len(devs) == 0 {
		v.Status = Held
		return v
	}
	v.Status = Violated
	for k := range c07DevModels {
		// a class is named only when EVERY deviation of the batch is exactly what that deviation model predicts
		// (the models are ordered from the most specific to their combination)
		if explained[k] == len(devs) {
			v.Class = c07DevModels[k].name
			break
		}
	}
	sigs := map[string]int{}
	for _, d := range devs {
		sigs[d.Sig]++
	}
	var ss []string
	for s, n := range sigs {
		ss = append(ss, fmt.Sprintf("%s (x%d)", s, n))
	}
	sort.Strings(ss)
	if len(ss) > 6 {
		ss = append(ss[:6], "…")
	}
	v.Msg = fmt.Sprintf("%s: %d of %d evaluations deviate; first: %s expected %s, observed %s | kinds: %s",
		m.Family, len(devs), len(elems), devs[0].Goal, devs[0].Expected, devs[0].Observed, strings.Join(ss, "; "))
	if len(devs) > 12 {
		devs = devs[:12]
	}
	v.Sample = map[string]interface{}{"family": m.Family, "deviations": devs}
	return v
}

// c07DevModels are the named deviation models: behaviours of the engine that contradict the statement but are
// pinned by the repository's own unit tests (so a repair changes a test expectation).
var c07DevModels = []struct {
	name  string
	model c07Model
}{
	{"pow_unit_base_min_exponent", c07Model{devPowMin: true}},
	{"float_add_exact_overflow_precheck", c07Model{devAddPre: true}},
	{"float_add_exact_overflow_precheck+pow_unit_base_min_exponent", c07Model{devPowMin: true, devAddPre: true}},
}

func c07Depth(t *term.Term) int {
	d := 0
	if t.K == term.KCmp {
		for _, a := range t.Args {
			if k := c07Depth(a); k > d {
				d = k
			}
		}
		d++
	}
	return d
}

func c07Root(goal *term.Term) string {
	if goal.IsCmp("is", 2) {
		e := goal.Args[1]
		if e.K == term.KCmp {
			return fmt.Sprintf("%s/%d", e.S, len(e.Args))
		}
		return "leaf"
	}
	return goal.S + "/2"
}

func c07ObsKind(o *c07Obs, isGoal bool) string {
	switch {
	case o.ball != nil && o.ball.IsCmp("error", 2):
		f := o.ball.Args[0]
		if f.IsCmp("type_error", 2) {
			return "type_error(" + f.Args[0].String() + ",_)"
		}
		return f.String()
	case o.ball != nil:
		return "non-error ball"
	case !isGoal:
		return o.text(false)
	case o.truth == 0 || o.val == nil:
		return "failure"
	case o.val.K == term.KInt:
		return "wrong integer"
	case o.val.K == term.KFloat:
		return "wrong float"
	}
	return "non-number"
}

// c07NonTrivialLeaves: at least one leaf is a float, a negative integer or an integer of magnitude >= 2^31.
func c07NonTrivialLeaves(t *term.Term) bool {
	switch t.K {
	case term.KFloat:
		return true
	case term.KInt:
		return t.I < 0 || t.I >= 1<<31
	case term.KCmp:
		for _, a := range t.Args {
			if c07NonTrivialLeaves(a) {
				return true
			}
		}
	}
	return false
}
