package main

import (
	"encoding/json"
	"fmt"
	"math"
	"math/big"
	"math/rand"
	"os"
	"sort"
	"strconv"
	"strings"
	"sync"

	"verif/internal/proto"
	"verif/internal/run"
	"verif/internal/term"
)

// C06 — the text written by writeq/1,2, write_canonical/1,2 and write_term/2,3 with quoted(true) reads back
// (read_term/2,3, read/1,2) as a variant of the term written, under the same operator table and flags;
// number_chars/2 and number_codes/2 turn every number into text that they turn back into the same number.
//
// The terms are injected as trees (the engine's reader is not on the input side); the worker kind
// "roundtrip" (cmd/vworker/roundtrip.go) writes, keeps the bytes, reads them back in the same interpreter
// and reports text + tree. The oracle is term.Variant in this process.

func init() { checks["C06"] = func() Check { return &c06{} } }

type c06 struct {
	kfOnce  sync.Once
	kf      *knownFindings
	hosOnce sync.Once
	hostile []float64
}

func (*c06) ID() string    { return "C06" }
func (*c06) Level() string { return "exploration" }
func (*c06) Rule() string {
	return "terms are built as trees by a seeded generator (never parsed on the way in): (1) a fixed list of classic hard shapes (- - a, -(1), - (1), 1 - -1, a- - -b, (a-b)-c, a-(b-c), (a:-b):-c, f((a,b)), f(:-), [-], - + 1, (a|b), '|' and ',' as atoms and functors, {a,b}, '{}'(x), '[]'(x), '.'(a,b) ...) under the default table with and without a prelude op(200,xf,!!) op(700,xfx,===) op(200,xfy,and) op(900,fy,not) op(699,fy,~~) op(201,xf,@@) op(200,yfx,lft) op(400,xfy,rgt); (2) the enumeration outer-operator x inner-operator x operand position over every operator of the case's table (complete for the default table + prelude, 80 sampled per random table), operand leaves sampled from 22 kinds (atoms, numbers of both signs, zeros, variables, operator atoms, lists, curly terms, min/max integers ...); (3) random terms of depth <=4 over atoms of every lexical class (solo, graphic, alphanumeric, needing quotes, escapes, control characters, empty, non-ASCII letters and non-letters), 64-bit integers incl. min/max, finite floats incl. hostile ones, shared variables, operator compounds in operator and in functional notation, operators as atoms, lists, partial lists, curly terms, '$VAR'(N) (not under writeq). Each case runs under the default operator table or a table reached by a seeded sequence of valid op/3 directives (new symbolic/alphanumeric/quoted operators of all 7 specifiers, redefinitions, removals, prefix+infix and prefix+postfix atoms) and a double_quotes value. Every term is written in up to 5 modes (writeq, write_canonical, write_term quoted(true), write_term quoted(true)+ignore_ops(true), write_term quoted(true)+variable_names naming every variable; to user_output or an explicit stream) and read back from W+' .' by read_term/2,3 or read/1,2 in the same interpreter; the term read must be a variant of the term written (floats by bit pattern). Numbers: N -> number_chars/number_codes -> text -> N' must be bit-identical; the float list contains doubles whose shortest decimal lies within 2^-9 ulp of a rounding midpoint (math/big), powers of ten, subnormals, extremes and random bit patterns. Non-trivial: the term contains an operator compound (written in operator notation under the case's table) as an operand of another operator compound, or an atom that is not a plain unquoted token, or a float; numbers: every float. Distinct by hash of (operator directives, double_quotes, term)."
}
func (*c06) Assumptions() []string {
	return []string{
		"the controller's model of op/3 (ISO 8.14.3) is only used to aim the generator and to decide non-triviality; the worker reports current_op/3 after the directives and a disagreement with the model makes the case inconclusive",
		"'$VAR'(N) terms are not written by writeq (numbervars(true) output is by definition not re-readable): counted as not_asserted",
		"strconv (Go standard library) is trusted to tell whether a written float text denotes the original double; it only selects the message, the verdict is the bit comparison",
	}
}

func (c *c06) known() *knownFindings {
	c.kfOnce.Do(func() { c.kf = loadKnownFindings("C06") })
	return c.kf
}

// ---------------------------------------------------------------------------------------------------
// operator table model (only aims the generator and classifies; the oracle does not depend on it)

type c06Op struct {
	P    int    `json:"p"`
	Spec string `json:"spec"`
}

// c06Ops maps an atom to its [prefix, postfix, infix] definitions (P == 0: none).
type c06Ops map[string][3]c06Op

type c06Dir struct {
	P    int    `json:"p"`
	Spec string `json:"spec"`
	Name string `json:"name"`
}

func c06Class(spec string) int {
	switch spec {
	case "fx", "fy":
		return 0
	case "xf", "yf":
		return 1
	}
	return 2
}

var c06Specs = []string{"fx", "fy", "xf", "yf", "xfx", "xfy", "yfx"}

func c06DefaultOps() c06Ops {
	o := c06Ops{}
	def := func(p int, spec string, names ...string) {
		for _, n := range names {
			e := o[n]
			e[c06Class(spec)] = c06Op{p, spec}
			o[n] = e
		}
	}
	def(1200, "xfx", ":-", "-->")
	def(1200, "fx", ":-", "?-")
	def(1105, "xfy", "|")
	def(1100, "xfy", ";")
	def(1050, "xfy", "->")
	def(1000, "xfy", ",")
	def(900, "fy", `\+`)
	def(700, "xfx", "=", `\=`, "==", `\==`, "@<", "@=<", "@>", "@>=", "=..", "is", "=:=", `=\=`, "<", "=<", ">", ">=")
	def(600, "xfy", ":")
	def(500, "yfx", "+", "-", `/\`, `\/`)
	def(400, "yfx", "*", "/", "//", "div", "rem", "mod", "<<", ">>")
	def(200, "xfx", "**")
	def(200, "xfy", "^")
	def(200, "fy", "+", "-", `\`)
	return o
}

// apply performs op(P, Spec, Name) on the model; false = the directive is not valid (ISO 8.14.3.3 / 6.3.4.3).
func (o c06Ops) apply(d c06Dir) bool {
	cl := c06Class(d.Spec)
	switch d.Name {
	case ",", "[]", "{}":
		return false
	case "|":
		if cl != 2 || (d.P > 0 && d.P < 1001) {
			return false
		}
	}
	e := o[d.Name]
	if cl == 2 && e[1].P > 0 || cl == 1 && e[2].P > 0 {
		return false
	}
	if d.P == 0 {
		e[cl] = c06Op{}
	} else {
		e[cl] = c06Op{d.P, d.Spec}
	}
	if e == ([3]c06Op{}) {
		delete(o, d.Name)
	} else {
		o[d.Name] = e
	}
	return true
}

func (o c06Ops) clone() c06Ops {
	n := make(c06Ops, len(o))
	for k, v := range o {
		n[k] = v
	}
	return n
}

func (o c06Ops) list() []string {
	var out []string
	for name, e := range o {
		for _, d := range e {
			if d.P > 0 {
				out = append(out, fmt.Sprintf("%d %s %s", d.P, d.Spec, name))
			}
		}
	}
	sort.Strings(out)
	return out
}

// isOp reports whether the atom is an operator of any class.
func (o c06Ops) isOp(name string) bool { _, ok := o[name]; return ok }

// asOp returns the definition under which the writer would use operator notation for name/arity.
func (o c06Ops) asOp(name string, arity int) (c06Op, bool) {
	e, ok := o[name]
	if !ok {
		return c06Op{}, false
	}
	if arity == 2 && e[2].P > 0 {
		return e[2], true
	}
	if arity == 1 {
		if e[0].P > 0 {
			return e[0], true
		}
		if e[1].P > 0 {
			return e[1], true
		}
	}
	return c06Op{}, false
}

// ---------------------------------------------------------------------------------------------------
// atoms by lexical class

type c06AtomClass struct {
	Name  string
	Atoms []string
}

var c06Atoms = []c06AtomClass{
	{"solo", []string{"!", ";", "[]", "{}", ",", "|"}},
	{"graphic", []string{"+", "-", "*", "/", `\`, "^", "<", ">", "=", "~", ":", ".", "?", "@", "#", "&", "$",
		"-->", "=..", "..", "...", ":-", "?-", `\+`, `\=`, "==", `\==`, "@<", "@>=", "->", "**", "//", `/\`, `\/`, "<<", ">>",
		"=:=", `=\=`, "=<", ">=", "*/", "-/", "+-", "--", `\\`, "-.", ".-", "$$", "<->", "∀", "⊕"}},
	{"alnum", []string{"a", "b", "c", "x", "e", "foo", "fooBar", "foo_bar1", "a1", "is", "mod", "rem", "div", "xor", "dynamic",
		"end_of_file", "b1", "o7", "xff", "e1", "aB_9"}},
	{"needs_quotes", []string{"A", "Abc", "_", "_x", "_G1", "_123", "1a", "0'", "0'a", "0b1", "hello world", "a.b", "a-b", "a b", "don't",
		"'", "''", `"`, "`", `a"b`, "a`b", "[", "]", "(", ")", "{", "}", "()", "[ ]", "[a]", "{a}", "{ }", " ", "  ", "a ", " a",
		"/*", "/* */", "/**/", "%", "% x", "a%", "1", "12", "-1", "1.0", "1.0e10", "[]a", "a,b", "a|b", "||", ",,", "!!", ";;", "a!", "!a"}},
	{"escapes", []string{"a\\b", `\n`, "a\nb", "\n", "\t", "a\tb", "\r\n", "\x00", "\x01", "\x07", "\x08", "\x0b", "\x0c", "\x1b", "\x7f",
		"a\x00b", "it's", `\'`, `'\`, "\\\n", "\\x41\\"}},
	{"empty", []string{""}},
	{"nonascii_letter", []string{"é", "λ", "日", "日本語", "éa", "aé", "λx", "ñandú", "ß", "ж", "א", "ʰ", "É", "Éa", "Λ", "aΛ", "ǅ", "ǅa"}},
	{"nonascii_other", []string{"€", "😀", "\u00a0", "a\u00a0b", "×", "→", "٣", "²", "a\u0301", "\u0301", "\u200b", "\u2028", "\u0085", "\u3000",
		"\ufeff", "\U0010ffff", "«»", "a😀", "😀a", "\u00ad", "…", "§", "¬", "\ufffd", "a\ufffdb",
		// characters this implementation counts as graphic (the mathematical operator blocks) inside atoms that need quotes
		"a∀", "∀a", "x ⊕ y", "X⨀", "∀ ", "⊕1", "é∀", "∀'", "a⊕b", "⨀ ⨀"}},
}

// c06Plain reports whether the atom is written without quotes by any ISO writer: an ASCII letter-digit
// token starting with a small letter, a graphic token (not beginning a comment), or one of [] {} ! ;
func c06Plain(s string) bool {
	switch s {
	case "[]", "{}", "!", ";":
		return true
	case "":
		return false
	}
	alnum, graphic := true, true
	for i, r := range s {
		if !(r >= 'a' && r <= 'z' || i > 0 && (r >= 'A' && r <= 'Z' || r >= '0' && r <= '9' || r == '_')) {
			alnum = false
		}
		if !strings.ContainsRune(`#$&*+-./:<=>?@^~\`, r) {
			graphic = false
		}
	}
	if graphic && strings.HasPrefix(s, "/*") {
		return false
	}
	return alnum || graphic
}

// ---------------------------------------------------------------------------------------------------
// generator

type c06Gen struct {
	made []*term.Term // compounds generated so far for the current term (candidates for repetition)
	r    *rand.Rand
	ops  c06Ops
	pre  []string // names with a prefix definition
	post []string
	inf  []string
	all  []string
	nv   int64
	fl   []float64 // hostile floats to draw from
}

func newC06Gen(r *rand.Rand, ops c06Ops, hostile []float64) *c06Gen {
	g := &c06Gen{r: r, ops: ops, fl: hostile}
	for name := range ops {
		g.all = append(g.all, name)
	}
	sort.Strings(g.all)
	for _, name := range g.all {
		e := ops[name]
		if e[0].P > 0 {
			g.pre = append(g.pre, name)
		}
		if e[1].P > 0 {
			g.post = append(g.post, name)
		}
		if e[2].P > 0 {
			g.inf = append(g.inf, name)
		}
	}
	return g
}

func (g *c06Gen) pick(ss []string) string { return ss[g.r.Intn(len(ss))] }

func (g *c06Gen) anyAtom() string {
	k := g.r.Intn(100)
	switch {
	case k < 30:
		return g.pick(c06Atoms[2].Atoms) // alnum
	case k < 45 && len(g.all) > 0:
		return g.pick(g.all) // an operator as an atom
	default:
		cl := c06Atoms[g.r.Intn(len(c06Atoms))]
		return g.pick(cl.Atoms)
	}
}

var c06Ints = []int64{0, 1, -1, 2, 7, 10, -10, 42, 97, 255, 1000, -1000, math.MaxInt32, math.MinInt32, 1 << 32, 1<<53 + 1, -(1<<53 + 1),
	1000000000000000000, math.MaxInt64, math.MaxInt64 - 1, math.MinInt64, math.MinInt64 + 1}

var c06Floats = []float64{0.0, math.Copysign(0, -1), 1.0, -1.0, 1.5, -1.5, 0.1, -0.1, 2.5, 10.0, 100.0, 1.0e10, 1.0e-10, -1.0e10, 1.0e15, 1.0e16, 1.0e20, 1.0e21, 1.0e22, 1.0e23,
	1.0e100, 1.0e-100, 123456789.0, 0.000001, 0.0001, 1.0e-5, 3.141592653589793, 2.718281828459045, 5.877638936736441, math.MaxFloat64, -math.MaxFloat64,
	math.SmallestNonzeroFloat64, -math.SmallestNonzeroFloat64, 2.2250738585072014e-308, 2.225073858507201e-308, 4.9e-324, 1.7976931348623157e308, 9007199254740993.0, 0.3, 1.0 / 3.0}

func (g *c06Gen) integer() int64 {
	switch k := g.r.Intn(10); {
	case k < 5:
		return c06Ints[g.r.Intn(len(c06Ints))]
	case k < 8:
		return int64(g.r.Intn(41) - 20)
	default:
		return int64(g.r.Uint64())
	}
}

func c06RandomFinite(r *rand.Rand) float64 {
	for {
		f := math.Float64frombits(r.Uint64())
		if !math.IsNaN(f) && !math.IsInf(f, 0) {
			return f
		}
	}
}

func (g *c06Gen) float() float64 {
	switch k := g.r.Intn(10); {
	case k < 5:
		return c06Floats[g.r.Intn(len(c06Floats))]
	case k < 7 && len(g.fl) > 0:
		return g.fl[g.r.Intn(len(g.fl))]
	case k < 8:
		return float64(g.r.Intn(2001)-1000) / 8
	default:
		return c06RandomFinite(g.r)
	}
}

func (g *c06Gen) variable() *term.Term {
	if g.nv > 0 && g.r.Intn(2) == 0 {
		return term.V(int64(g.r.Intn(int(g.nv))))
	}
	g.nv++
	return term.V(g.nv - 1)
}

// leaf returns an atomic term or a variable; operator atoms and numbers of both signs are frequent.
func (g *c06Gen) leaf() *term.Term {
	switch k := g.r.Intn(100); {
	case k < 30:
		return term.A(g.anyAtom())
	case k < 42 && len(g.all) > 0:
		return term.A(g.pick(g.all))
	case k < 64:
		return term.I(g.integer())
	case k < 80:
		return term.F(g.float())
	case k < 92:
		return g.variable()
	default:
		return term.A(g.pick([]string{"a", "b", "[]", "{}", "-", "+"}))
	}
}

func (g *c06Gen) functorName() string {
	switch k := g.r.Intn(100); {
	case k < 50:
		return g.pick([]string{"f", "g", "foo", "p", "point"})
	case k < 65 && len(g.all) > 0:
		return g.pick(g.all)
	case k < 75:
		return g.pick([]string{"[]", "{}", ".", ",", "|", "!", ";", "$VAR", "-", "+", "is", ":-", `\+`})
	default:
		return g.anyAtom()
	}
}

func (g *c06Gen) term(depth int) *term.Term {
	t := g.term1(depth)
	if t.K == term.KCmp && depth <= 2 && len(g.made) < 16 {
		g.made = append(g.made, t)
	}
	return t
}

func (g *c06Gen) term1(depth int) *term.Term {
	if depth <= 0 {
		return g.leaf()
	}
	// the same sub-term again (as when a variable bound to a compound occurs twice): the worker builds equal
	// compounds of one case as ONE object
	if len(g.made) > 0 && g.r.Intn(100) < 7 {
		return g.made[g.r.Intn(len(g.made))]
	}
	switch k := g.r.Intn(100); {
	case k < 22:
		return g.leaf()
	case k < 45 && len(g.inf) > 0:
		return term.C(g.pick(g.inf), g.term(depth-1), g.term(depth-1))
	case k < 58 && len(g.pre) > 0:
		return term.C(g.pick(g.pre), g.term(depth-1))
	case k < 64 && len(g.post) > 0:
		return term.C(g.pick(g.post), g.term(depth-1))
	case k < 72:
		// operator atom as the functor of a compound whose arity does not fit, or a plain functor
		n := 1 + g.r.Intn(3)
		args := make([]*term.Term, n)
		for i := range args {
			args[i] = g.term(depth - 1)
		}
		return term.C(g.functorName(), args...)
	case k < 80:
		n := 1 + g.r.Intn(2)
		args := make([]*term.Term, n)
		for i := range args {
			args[i] = g.term(depth - 1)
		}
		return term.C(g.pick([]string{"f", "g", "foo"}), args...)
	case k < 90:
		n := 1 + g.r.Intn(3)
		es := make([]*term.Term, n)
		for i := range es {
			es[i] = g.term(depth - 1)
		}
		tail := term.Nil
		if g.r.Intn(4) == 0 {
			tail = g.term(depth - 1)
		}
		l := term.PL(tail, es...)
		if g.r.Intn(3) == 0 {
			l = term.WithRep(l, "cons")
		}
		return l
	case k < 95:
		return term.C("{}", g.term(depth-1))
	case k < 97:
		return term.C("$VAR", term.I(int64(g.r.Intn(60))))
	default:
		return g.leaf()
	}
}

// c06OpEntry is one (name, class) of a table.
type c06OpEntry struct {
	Name string
	c06Op
}

func (o c06Ops) entries() []c06OpEntry {
	var out []c06OpEntry
	var names []string
	for n := range o {
		names = append(names, n)
	}
	sort.Strings(names)
	for _, n := range names {
		for _, d := range o[n] {
			if d.P > 0 {
				out = append(out, c06OpEntry{n, d})
			}
		}
	}
	return out
}

func c06Arity(spec string) int {
	if len(spec) == 3 {
		return 2
	}
	return 1
}

// build makes the compound of an operator entry with the given operands (the last len(args) needed).
func (e c06OpEntry) build(args ...*term.Term) *term.Term {
	return term.C(e.Name, args[:c06Arity(e.Spec)]...)
}

// enumLeaves are the operand kinds of the outer x inner enumeration.
func c06EnumLeaves(ops c06Ops, r *rand.Rand) [][2]*term.Term {
	opAtom := term.A("-")
	var names []string
	for n := range ops {
		names = append(names, n)
	}
	sort.Strings(names)
	if len(names) > 0 {
		opAtom = term.A(names[r.Intn(len(names))])
	}
	return [][2]*term.Term{
		{term.A("a"), term.A("b")},
		{term.I(1), term.I(2)},
		{term.I(-1), term.I(-2)},
		{term.F(1.0), term.F(2.5)},
		{term.F(-1.0), term.F(-2.5)},
		{term.I(0), term.F(0.0)},
		{term.V(0), term.V(1)},
		{opAtom, opAtom},
		{term.A("A b"), term.A("[]")},
		{term.C("f", term.A("a")), term.L(term.A("a"))},
		{term.C("{}", term.A("a")), term.A("{}")},
		{term.A("#"), term.A("-.")},
		{term.A("e"), term.A("E")},
		{term.A(""), term.A("hello world")},
		{term.I(0), term.F(math.Copysign(0, -1))},
		{term.F(1.0e10), term.F(-1.0e-10)},
		{term.I(math.MinInt64), term.I(math.MaxInt64)},
		{term.A(","), term.A("|")},
		{term.A("!"), term.A(";")},
		{term.PL(term.V(0), term.A("a")), term.C("$VAR", term.I(1))},
		{term.C("-", term.I(1)), term.C("-", term.A("a"))},
		{term.C("-", term.I(1), term.I(2)), term.C(",", term.A("a"), term.A("b"))},
	}
}

// enumerate returns outer(inner(leaves)) for every pair of entries and every operand position.
func c06Enumerate(ops c06Ops, r *rand.Rand, limit int) []*term.Term {
	es := ops.entries()
	leaves := c06EnumLeaves(ops, r)
	var out []*term.Term
	for _, outer := range es {
		for _, inner := range es {
			lv := leaves[r.Intn(len(leaves))]
			in := inner.build(lv[0], lv[1])
			other := leaves[r.Intn(len(leaves))][1]
			if c06Arity(outer.Spec) == 1 {
				out = append(out, outer.build(in))
			} else {
				out = append(out, outer.build(in, other), outer.build(other, in))
			}
		}
		// the operator applied to plain leaves of every kind
		for _, lv := range leaves {
			out = append(out, outer.build(lv[0], lv[1]))
		}
	}
	if limit > 0 && len(out) > limit {
		r.Shuffle(len(out), func(i, j int) { out[i], out[j] = out[j], out[i] })
		out = out[:limit]
	}
	return out
}

// c06Fixed is the list of classic hard shapes (valid under any table; the interesting readings are under
// the default table plus the prelude c06FixedDirs).
func c06Fixed() []*term.Term {
	A, I, F, C, L := term.A, term.I, term.F, term.C, term.L
	a, b, c := A("a"), A("b"), A("c")
	neg := func(t *term.Term) *term.Term { return C("-", t) }
	sub := func(x, y *term.Term) *term.Term { return C("-", x, y) }
	fa, l12 := C("f", a), L(I(1), I(2))
	ab := term.WithRep(term.Chars("ab"), "chars")
	ts := []*term.Term{
		// the same compound at two non-nested positions
		C("g", fa, fa), C("g", fa, C("h", fa)), C("-", l12, l12), C("f", ab, ab), L(fa, fa, fa), C("+", C("*", a, b), C("*", a, b)), C("f", C("-", fa), C("-", fa)),
		neg(neg(a)), C(`\+`, C(`\+`, a)), neg(neg(I(1))), neg(I(1)), I(-1), neg(a), neg(I(-1)), neg(F(1.0)), neg(F(-1.0)), neg(I(0)), neg(F(0.0)),
		neg(F(math.Copysign(0, -1))), F(math.Copysign(0, -1)),
		sub(I(1), I(-1)), sub(a, neg(neg(b))), sub(sub(a, b), c), sub(a, sub(b, c)), sub(I(1), sub(I(2), I(3))), sub(a, neg(I(1))), sub(a, I(-1)),
		sub(neg(I(1)), a), sub(I(-1), a), sub(neg(a), b),
		C(":-", C(":-", a, b), c), C(":-", a, C(":-", b, c)), C(":-", a), C(":-", C(":-", a)), C(":-", A(":-")), C(":-", A(":-"), A(":-")),
		C("f", C(",", a, b)), C("f", C(":-", a, b)), C("f", C(":-", a)), C("f", A(":-")), C("f", A("+")), C("f", A("-")), C("f", neg(I(1))), C("f", I(-1)),
		C("f", C("|", a, b)), C("f", A("|")), C("f", A(",")), C("f", C(";", a, b)), C("f", C("->", a, b)),
		term.PL(b, a), L(C(",", a, b)), L(C(":-", a, b)), L(A("-")), L(A(":-")), L(A("|")), L(A(",")), L(A("[]")), L(A("{}")), L(C("|", a, b)),
		term.PL(C(",", a, b), a), term.PL(A("-"), a), term.PL(C("|", a, b), a), L(neg(I(1)), I(-1), neg(a)),
		C("{}", C(",", a, b)), C("{}", a), C("{}", A("x")), C("[]", A("x")), C("{}", a, b), C("{}", A("-")), C("{}", C(":-", a, b)), C("{}", A("{}")), C("{}", A("}")),
		C(".", a), C(".", a, b, c), term.WithRep(term.PL(b, a), "cons"), term.WithRep(L(a, b), "cons"),
		C("+", A("+"), A("+")), neg(A("+")), neg(C("+", I(1))), C("+", neg(A("+"))), C(`\+`, A("+")), C(`\+`, C(",", a, b)), C(`\+`, A(`\+`)), C(`\+`, L(a)),
		C(`\+`, C("f", a)), C(`\+`, C("{}", a)), neg(L(a)), neg(C("{}", a)), neg(C("f", a)), neg(A("[]")), neg(A("{}")), neg(C("a", I(1))),
		C("+", I(1), I(2), I(3)), C("-", I(1), I(2), I(3)), C("is", A("!")), neg(C("is", A("!"))), C("is", I(10), F(1.0)), C("mod", F(1.5), F(1.5)), C("mod", I(1), I(-1)),
		C("is", a, neg(I(1))), C("is", a, I(-1)), C("is", V0(), C("+", V0(), I(1))), C("=", V0(), V1()), C("is", F(1.0), F(-1.0)), C("rem", F(-1.5), I(-2)),
		C(",", a, b), C(",", a), C(",", a, b, c), A(","), C(",", A(","), A(",")), C("|", a, b), A("|"), C("|", a), C("|", A("|"), A("|")), C(";", A(";"), A(";")),
		C("!", a), C(";", a), C("[]", a, b), C("{}", L()), A("[]"), A("{}"), A("'"), A(""), C("", a), C("", A("")), C("A", A("B")), C("hello world", A("_x")),
		C("^", neg(I(1)), I(2)), neg(C("^", I(1), I(2))), C("^", I(-1), I(2)), C("^", neg(a), I(2)), C("^", I(2), neg(I(1))), C("^", I(2), I(-1)), C("**", I(-1), I(-1)),
		C("^", C("^", I(1), I(2)), I(3)), C("^", I(1), C("^", I(2), I(3))), C("*", C("+", a, b), c), C("+", C("*", a, b), c), C("*", a, C("+", b, c)), C("*", a, C("*", b, c)),
		C("=", C("=", a, b), c), C("=", a, C("=", b, c)), C(";", C("->", a, b), c), C("->", C(";", a, b), c), C(",", C(",", a, b), c), C(",", a, C(",", b, c)),
		C(":", C(":", a, b), c), C("-", C(":", a, b)), C(`\`, C(`\`, a)), C(`\`, neg(a)), neg(C(`\`, a)), C(`\`, I(-1)), C(`\`, I(1)), C("+", I(1)), C("+", I(-1)), C("+", F(1.0)),
		C("-", C("-", C("-", I(1)))), C("-", C("+", C("-", a))), C("- ", a), C("1", a), C("0'", a),
		C("!!", a), C("!!", C("!!", a)), neg(C("!!", a)), C("!!", neg(a)), C("!!", neg(I(1))), C("!!", I(-1)), C("!!", C("+", a, b)), C("+", C("!!", a), b), C("+", a, C("!!", b)),
		C("===", a, b), C("===", C("===", a, b), c), C("and", a, C("and", b, c)), C("and", C("and", a, b), c), C("and", I(1), I(2)), C("and", F(1.0), F(2.0)), C("and", I(-1), I(-2)),
		C("not", C("not", a)), C("not", I(1)), C("not", I(-1)), C("not", C(",", a, b)), C("not", L(a)), C("not", A("not")), C("not", A("x"), A("y")),
		C("=", C("~~", a), b), C("~~", C("=", a, b)), C("=", a, C("~~", b)), C("@@", C("^", a, b)), C("^", a, C("@@", b)), C("@@", neg(a)), neg(C("@@", a)), C("@@", C("@@", neg(a))),
		C("$VAR", I(1)), C("$VAR", I(27)), C("$VAR", I(-1)), C("$VAR", a), C("$VAR", V0()), C("f", C("$VAR", I(0)), C("$VAR", I(25))), C("$VAR", I(1), I(2)),
		C("f", V0(), V1(), V0()), L(V0(), V1()), term.PL(V0(), V0()), C("-", V0()), C("-", V0(), V0()), C("is", V0(), V1()), C("mod", V0(), V1()), C("dynamic", V0()),
		C("f", A("é"), A("É"), A("日本語"), A("€"), A("😀"), A(" ")), A("\n"), A("a\\b"), A("don't"), A("\x00"), A("/*"), A("%"), A("0'"),
		C("e", F(1.0)), C("f", F(1.0e10), F(1.0e-10), F(1.0e22), F(123456789.0)), C("-", F(1.0e10)), C("-", F(5.877638936736441)), F(5.877638936736441),
		I(math.MinInt64), I(math.MaxInt64), neg(I(math.MinInt64)), neg(I(math.MaxInt64)), C("-", I(1), I(math.MinInt64)),
		term.WithRep(term.L(A("h"), A("i")), "chars"), term.WithRep(term.L(I(104), I(105)), "codes"), L(I(104), I(105)), L(A("h"), A("i")),
		C("f", A("a"), A("[]"), L(L()), L(L(), L())),
	}
	return ts
}

func V0() *term.Term { return term.V(0) }
func V1() *term.Term { return term.V(1) }

// the fixed operator prelude that gives the shapes of c06Fixed their intended reading
// (~~ and @@ sit one priority step below/above the standard 700 and 200 operators: the boundary where a
// reader that compares binding priorities instead of operator priorities goes wrong)
var c06FixedDirs = []c06Dir{{200, "xf", "!!"}, {700, "xfx", "==="}, {200, "xfy", "and"}, {900, "fy", "not"}, {699, "fy", "~~"}, {201, "xf", "@@"},
	// a yfx operator at the priority of the xfy operators ^ and 'and', an xfy operator at the priority of the yfx operators * and /
	{200, "yfx", "lft"}, {400, "xfy", "rgt"}}

// ---- operator tables -----------------------------------------------------------------------------------

var c06OpNames = []string{
	// new symbolic
	"===", "~>", "<->", "$", "#", "@@", `\\`, "..", "&", "?", "~", "!!", "<>", "--", "++", "=>", "∀",
	// existing ones (redefinition / removal / a second class)
	"-", "+", "*", "/", "=", ":-", "-->", `\+`, "is", "mod", "^", "**", ";", "->", "|", ":", `\`, "<", ">>", "?-", "=..",
	// alphanumeric
	"and", "or", "not", "e", "x", "b1", "o7", "xff", "e1", "dynamic", "f", "a", "é", "日",
	// need quotes / solo
	"A", "_x", "hello world", "don't", "\n", "", "!", "[", "(", "E", "0'", ".",
}

var c06Priorities = []int{1, 2, 100, 199, 200, 201, 399, 400, 401, 499, 500, 501, 699, 700, 701, 899, 900, 999, 1000, 1001, 1050, 1100, 1105, 1199, 1200}

// c06RandomDirs returns a sequence of valid op/3 directives and the table they lead to.
func c06RandomDirs(r *rand.Rand) ([]c06Dir, c06Ops) {
	ops := c06DefaultOps()
	var n int
	switch k := r.Intn(100); {
	case k < 30:
		n = 0
	case k < 65:
		n = 1 + r.Intn(3)
	default:
		n = 4 + r.Intn(9)
	}
	var dirs []c06Dir
	for tries := 0; len(dirs) < n && tries < 10*n; tries++ {
		d := c06Dir{Name: c06OpNames[r.Intn(len(c06OpNames))], Spec: c06Specs[r.Intn(len(c06Specs))]}
		switch k := r.Intn(10); {
		case k < 1:
			d.P = 0
		case k < 8:
			d.P = c06Priorities[r.Intn(len(c06Priorities))]
		default:
			d.P = 1 + r.Intn(1200)
		}
		if d.P == 0 && ops[d.Name][c06Class(d.Spec)].P == 0 {
			continue // removing what is not there exercises nothing
		}
		if !ops.apply(d) {
			continue
		}
		dirs = append(dirs, d)
	}
	return dirs, ops
}

// ---- hostile floats ------------------------------------------------------------------------------------

// c06MidpointDistance returns how far (in units of one ulp of x) the decimal text s lies from the nearest
// rounding boundary of the decimal→binary conversion (the midpoints between x and its neighbours).
func c06MidpointDistance(x float64, s string) float64 {
	const prec = 320 // the decision needs about 2^-70 relative accuracy; the decimal is rounded once to 320 bits
	d, _, err := big.ParseFloat(s, 10, prec, big.ToNearestEven)
	if err != nil || x == 0 || math.IsInf(x, 0) {
		return 1
	}
	ax := math.Abs(x)
	up := math.Nextafter(ax, math.Inf(1))
	down := math.Nextafter(ax, 0)
	if math.IsInf(up, 0) {
		return 1
	}
	d.Abs(d)
	bf := func(f float64) *big.Float { return new(big.Float).SetPrec(prec).SetFloat64(f) }
	half := bf(0.5)
	mhi := new(big.Float).SetPrec(prec).Add(bf(ax), bf(up)) // exact: both operands have 53 bits
	mhi.Mul(mhi, half)
	mlo := new(big.Float).SetPrec(prec).Add(bf(ax), bf(down))
	mlo.Mul(mlo, half)
	ulp := new(big.Float).SetPrec(prec).Sub(bf(up), bf(ax))
	dhi := new(big.Float).SetPrec(prec).Sub(mhi, d)
	dlo := new(big.Float).SetPrec(prec).Sub(d, mlo)
	m := dhi
	if dlo.Cmp(dhi) < 0 {
		m = dlo
	}
	m.Quo(m, ulp)
	f, _ := m.Float64()
	return f
}

// c06Hostile searches n random doubles (seeded) for those whose shortest decimal lies within 2^-9 ulp of a
// rounding midpoint. A conversion that truncates or rounds twice misreads a good share of them.
func c06Hostile(r *rand.Rand, candidates int) []float64 {
	out := []float64{5.877638936736441}
	for i := 0; i < candidates; i++ {
		x := c06RandomFinite(r)
		if i%4 == 0 {
			// moderate magnitudes too (the exponent range of random bit patterns is mostly extreme)
			x = math.Ldexp(1+r.Float64(), r.Intn(80)-40)
			if r.Intn(2) == 0 {
				x = -x
			}
		}
		s := strconv.FormatFloat(x, 'e', -1, 64)
		if d := c06MidpointDistance(x, s); d >= 0 && d < 1.0/512 {
			out = append(out, x)
		}
	}
	return out
}

// ---------------------------------------------------------------------------------------------------
// items

type c06Meta struct {
	Dirs   []c06Dir     `json:"dirs,omitempty"` // op/3 directives applied to the default table, in order
	DQ     string       `json:"dq"`
	Terms  []*term.Term `json:"terms,omitempty"`
	Family []string     `json:"family,omitempty"`
	Base   int          `json:"base"` // selects the write/read predicate variants (kept for replay)
	Nums   []*term.Term `json:"nums,omitempty"`
}

// worker payload / result (mirrors cmd/vworker/roundtrip.go)
type c06WTerm struct {
	T     *term.Term `json:"t"`
	Modes int        `json:"modes"`
	V     int        `json:"v"`
}
type c06Payload struct {
	Dirs    []c06Dir     `json:"dirs,omitempty"`
	Terms   []c06WTerm   `json:"terms,omitempty"`
	Nums    []*term.Term `json:"nums,omitempty"`
	WantOps bool         `json:"want_ops,omitempty"`
}
type c06Obs struct {
	Mode   int        `json:"mode"`
	Via    string     `json:"via"`
	W      string     `json:"w"`
	WB     []byte     `json:"wb,omitempty"`
	WErr   *proto.Err `json:"werr,omitempty"`
	R      *term.Term `json:"r,omitempty"`
	RErr   *proto.Err `json:"rerr,omitempty"`
	Budget bool       `json:"budget,omitempty"`
}
type c06Num struct {
	Chars    *term.Term `json:"chars,omitempty"`
	CharsN   *term.Term `json:"chars_n,omitempty"`
	CharsErr *proto.Err `json:"chars_err,omitempty"`
	Codes    *term.Term `json:"codes,omitempty"`
	CodesN   *term.Term `json:"codes_n,omitempty"`
	CodesErr *proto.Err `json:"codes_err,omitempty"`
}
type c06WOp struct {
	P    int    `json:"p"`
	Spec string `json:"spec"`
	Name string `json:"name"`
}
type c06Result struct {
	DirErrs []*proto.Err `json:"dir_errs,omitempty"`
	Ops     []c06WOp     `json:"ops,omitempty"`
	Terms   [][]c06Obs   `json:"terms,omitempty"`
	Nums    []c06Num     `json:"nums,omitempty"`
}

var c06ModeNames = [...]string{"writeq", "write_canonical", "write_term[quoted(true)]", "write_term[quoted(true),ignore_ops(true)]",
	"write_term[quoted(true),variable_names(all)]"}

// c06HasDollarVar reports whether t contains a '$VAR'/1 compound.
func c06HasDollarVar(t *term.Term) bool {
	if t.K != term.KCmp {
		return false
	}
	if t.S == "$VAR" && len(t.Args) == 1 {
		return true
	}
	for _, a := range t.Args {
		if c06HasDollarVar(a) {
			return true
		}
	}
	return false
}

// c06Modes is the set of write modes asserted for t: writeq is skipped for '$VAR'/1 terms, the
// variable_names mode only runs when there is a variable to name.
func c06Modes(t *term.Term) int {
	m := 0b01111
	if c06HasDollarVar(t) {
		m &^= 1
	}
	if len(term.VarsOf(t)) > 0 {
		m |= 0b10000
	}
	return m
}

func (m *c06Meta) item() *Item {
	c := &proto.Case{Kind: "roundtrip", Flags: [][2]string{{"double_quotes", m.DQ}}}
	p := c06Payload{Dirs: m.Dirs, Nums: m.Nums, WantOps: true}
	for i, t := range m.Terms {
		p.Terms = append(p.Terms, c06WTerm{T: t, Modes: c06Modes(t), V: m.Base + i})
	}
	c.P, _ = json.Marshal(&p)
	meta, _ := json.Marshal(m)
	note := fmt.Sprintf("%d terms, %d numbers, double_quotes=%s, %d op/3 directives", len(m.Terms), len(m.Nums), m.DQ, len(m.Dirs))
	return &Item{Cases: []*proto.Case{c}, Meta: meta, Note: note}
}

func (m *c06Meta) table() c06Ops {
	ops := c06DefaultOps()
	for _, d := range m.Dirs {
		ops.apply(d)
	}
	return ops
}

const (
	c06TermsPerCase = 250
	c06NumsPerCase  = 2500
)

var c06DQ = []string{"codes", "chars", "atom"}

func (c *c06) Generate(cx *Ctx, chunk int) []*Item {
	// tiers: quick = 1 chunk of 40 000 terms + 30 000 numbers; thorough = 20 chunks of 50 000 + 100 000
	nTerms, nNums, chunks := 40000, 30000, 1
	if cx.Thorough() {
		nTerms, nNums, chunks = 50000, 100000, 20
	}
	if chunk >= chunks {
		return nil
	}
	c.hosOnce.Do(func() {
		c.hostile = c06Hostile(cx.Rng("c06/hostile"), map[bool]int{false: 150000, true: 600000}[cx.Thorough()])
		cx.AddExtra("hostile_floats_in_pool", int64(len(c.hostile)))
	})
	hostile := c.hostile
	var items []*Item
	base := chunk * nTerms
	caseNo := 0
	emit := func(dirs []c06Dir, ts []*term.Term, fam []string) {
		for lo := 0; lo < len(ts); lo += c06TermsPerCase {
			hi := lo + c06TermsPerCase
			if hi > len(ts) {
				hi = len(ts)
			}
			m := &c06Meta{Dirs: dirs, DQ: c06DQ[caseNo%3], Terms: ts[lo:hi], Family: fam[lo:hi], Base: base}
			base += hi - lo
			caseNo++
			items = append(items, m.item())
		}
	}
	fams := func(n int, f string) []string {
		out := make([]string, n)
		for i := range out {
			out[i] = f
		}
		return out
	}
	total := 0
	if chunk == 0 {
		// (1) fixed shapes under the default table (+ the small fixed prelude), for every double_quotes value
		fixed := c06Fixed()
		for i := 0; i < 3; i++ {
			emit(c06FixedDirs, fixed, fams(len(fixed), "fixed"))
		}
		emit(nil, fixed, fams(len(fixed), "fixed"))
		total += 4 * len(fixed)
		// (2) outer x inner enumeration under the default table + prelude (complete), all leaves sampled
		ops := c06DefaultOps()
		for _, d := range c06FixedDirs {
			ops.apply(d)
		}
		en := c06Enumerate(ops, cx.Rng("c06/enum-default"), 0)
		emit(c06FixedDirs, en, fams(len(en), "enum_default"))
		total += len(en)
	}
	// (3) per random table: a slice of the enumeration + random terms
	for k := 0; total < nTerms; k++ {
		r := cx.Rng(fmt.Sprintf("c06/%d/%d", chunk, k))
		dirs, ops := c06RandomDirs(r)
		g := newC06Gen(r, ops, hostile)
		var ts []*term.Term
		var fam []string
		if len(dirs) > 0 {
			for _, t := range c06Enumerate(ops, r, 80) {
				ts = append(ts, t)
				fam = append(fam, "enum_random_table")
			}
		}
		for len(ts) < c06TermsPerCase {
			g.nv = 0
			g.made = nil // repetition only within one term
			ts = append(ts, g.term(1+g.r.Intn(4)))
			if len(dirs) > 0 {
				fam = append(fam, "random_random_table")
			} else {
				fam = append(fam, "random_default_table")
			}
		}
		emit(dirs, ts, fam)
		total += len(ts)
	}
	// numbers
	r := cx.Rng(fmt.Sprintf("c06/nums/%d", chunk))
	var nums []*term.Term
	if chunk == 0 {
		for _, f := range c06Floats {
			nums = append(nums, term.F(f))
		}
		for _, n := range c06Ints {
			nums = append(nums, term.I(n))
		}
		for e := -323; e <= 308; e++ {
			if f, err := strconv.ParseFloat(fmt.Sprintf("1e%d", e), 64); err == nil {
				nums = append(nums, term.F(f), term.F(-f))
			}
		}
		for e := -1074; e <= 1023; e += 7 {
			nums = append(nums, term.F(math.Ldexp(1, e)), term.F(math.Nextafter(math.Ldexp(1, e), 0)))
		}
		for _, f := range hostile {
			nums = append(nums, term.F(f))
		}
	}
	for len(nums) < nNums {
		switch k := r.Intn(10); {
		case k < 2:
			nums = append(nums, term.I(int64(r.Uint64())))
		case k < 3:
			nums = append(nums, term.I(int64(r.Intn(2001)-1000)))
		case k < 5:
			nums = append(nums, term.F(hostile[r.Intn(len(hostile))]))
		case k < 7:
			x := math.Ldexp(1+r.Float64(), r.Intn(120)-60)
			if r.Intn(2) == 0 {
				x = -x
			}
			nums = append(nums, term.F(x))
		case k < 8:
			// short decimals
			f, _ := strconv.ParseFloat(fmt.Sprintf("%d.%de%d", r.Intn(1000), r.Intn(1000), r.Intn(60)-30), 64)
			nums = append(nums, term.F(f))
		default:
			nums = append(nums, term.F(c06RandomFinite(r)))
		}
	}
	for lo := 0; lo < len(nums); lo += c06NumsPerCase {
		hi := lo + c06NumsPerCase
		if hi > len(nums) {
			hi = len(nums)
		}
		m := &c06Meta{DQ: c06DQ[caseNo%3], Nums: nums[lo:hi]}
		caseNo++
		items = append(items, m.item())
	}
	return items
}

// ---------------------------------------------------------------------------------------------------
// oracle

// c06NonTrivial implements the stated rule.
func c06NonTrivial(t *term.Term, ops c06Ops) bool {
	found := false
	var walk func(t *term.Term, underOp bool)
	walk = func(t *term.Term, underOp bool) {
		if found {
			return
		}
		switch t.K {
		case term.KFloat:
			found = true
		case term.KAtom:
			if !c06Plain(t.S) {
				found = true
			}
		case term.KCmp:
			if !c06Plain(t.S) && !t.IsCmp(".", 2) {
				found = true
				return
			}
			_, isOp := ops.asOp(t.S, len(t.Args))
			if t.IsCmp(".", 2) || t.IsCmp("{}", 1) {
				isOp = false
			}
			if isOp && underOp {
				found = true
				return
			}
			for _, a := range t.Args {
				walk(a, isOp)
			}
		}
	}
	walk(t, false)
	return found
}

func c06ErrText(e *proto.Err) string {
	if e == nil {
		return ""
	}
	if e.Exception != nil {
		return dropErrorContext(e.Exception).String()
	}
	return e.Text
}

// c06Failure describes one failing (term, mode).
type c06Failure struct {
	Mode     int    `json:"mode"`
	ModeName string `json:"mode_name"`
	Via      string `json:"via"`
	Written  string `json:"written"`
	ReadBack string `json:"read_back,omitempty"`
	Error    string `json:"error,omitempty"`
	What     string `json:"what"`
}

func c06Text(o *c06Obs) string {
	if o.WB != nil {
		return string(o.WB)
	}
	return o.W
}

// judgeTerm applies the oracle to the observations of one term.
func (c *c06) judgeTerm(m *c06Meta, ops c06Ops, t *term.Term, fam string, obs []c06Obs) Verdict {
	v := Verdict{Status: Held, Extra: map[string]int64{"terms": 1, "family_" + fam: 1}}
	// the key starts with the size of the witness so that the smallest ones are listed first
	v.Key = fmt.Sprintf("C06|%05d|%02d|", term.Size(t), len(m.Dirs)) + strings.Join(c06DirTexts(m.Dirs), ";") + "|" + m.DQ + "|" + term.JSON(t)
	v.NonTrivial = c06NonTrivial(t, ops)
	if v.NonTrivial {
		v.Extra["nontrivial_terms"] = 1
	}
	modes := c06Modes(t)
	if modes&1 == 0 {
		v.Extra["not_asserted_writeq_of_$VAR_term"] = 1
	}
	var fails []c06Failure
	inconclusive := ""
	seen := 0
	for i := range obs {
		o := &obs[i]
		if o.Mode < 0 || o.Mode >= len(c06ModeNames) || modes&(1<<o.Mode) == 0 {
			continue
		}
		seen |= 1 << o.Mode
		v.Extra["roundtrips_"+c06ModeNames[o.Mode]]++
		v.Extra["via_"+o.Via]++
		f := c06Failure{Mode: o.Mode, ModeName: c06ModeNames[o.Mode], Via: o.Via, Written: c06Text(o)}
		switch {
		case o.Budget:
			inconclusive = fmt.Sprintf("%s: step budget / guard hit", f.ModeName)
			continue
		case o.WErr != nil:
			f.What, f.Error = "the output predicate did not succeed", c06ErrText(o.WErr)
		case o.RErr != nil:
			f.What, f.Error = "the text written is not accepted by the reader", c06ErrText(o.RErr)
		case o.R == nil:
			inconclusive = "worker reported neither a term nor an error"
			continue
		case !term.Variant(t, o.R):
			f.What, f.ReadBack = "the term read back is not a variant of the term written", o.R.String()
		default:
			continue
		}
		fails = append(fails, f)
	}
	if seen != modes && inconclusive == "" {
		inconclusive = fmt.Sprintf("worker reported modes %05b, expected %05b", seen, modes)
	}
	sample := map[string]interface{}{"term": t.String(), "op_directives": c06DirTexts(m.Dirs), "double_quotes": m.DQ,
		"expected": "each written text + ' .' reads back as a variant of the term"}
	var written []string
	for i := range obs {
		o := &obs[i]
		back := c06ErrText(o.RErr)
		if o.WErr != nil {
			back = "write failed: " + c06ErrText(o.WErr)
		} else if o.R != nil {
			back = o.R.String()
		}
		written = append(written, fmt.Sprintf("%s (%s) wrote %s and read back %s", c06ModeNames[o.Mode%len(c06ModeNames)], o.Via, c06Text(o), back))
	}
	sample["observed"] = written
	v.Sample = sample
	if len(fails) > 0 {
		v.Status = Violated
		sample["failures"] = fails
		f := fails[0]
		got := f.Error
		if got == "" {
			got = "read back " + f.ReadBack
		}
		v.Msg = fmt.Sprintf("%s of %s wrote %q; %s: %s  [ops: %s; double_quotes=%s; %d of %d modes fail]", f.ModeName, t.String(), f.Written, f.What, got,
			strings.Join(c06DirTexts(m.Dirs), " "), m.DQ, len(fails), len(obs))
		v.Class = c06Classify(t, ops, fails)
		v.Extra["violating_terms"] = 1
		if os.Getenv("C06_DEBUG") != "" {
			for _, f := range fails {
				got := f.Error
				if got == "" {
					got = f.ReadBack
				}
				fmt.Fprintf(os.Stderr, "FAIL\t%s\t%d\t%s\t%q\t%s\t%s\n", v.Class, f.Mode, t.String(), f.Written, got, strings.Join(c06DirTexts(m.Dirs), " "))
			}
		}
		return v
	}
	if inconclusive != "" {
		v.Status, v.Msg = Inconclusive, inconclusive+" for "+t.String()
	}
	return v
}

func c06DirTexts(ds []c06Dir) []string {
	var out []string
	for _, d := range ds {
		out = append(out, fmt.Sprintf("op(%d,%s,%s)", d.P, d.Spec, term.AtomText(d.Name)))
	}
	return out
}

// c06Classify names the defect class of a failing term — "" unless a precise predicate on the term matches.
func c06Classify(t *term.Term, ops c06Ops, fails []c06Failure) string {
	// U+FFFD in an atom: the lexer uses the replacement character as its marker for an invalid escape
	// sequence, so neither the raw character nor its \xfffd\ escape is accepted inside quotes. Predicted
	// observation: every mode that quotes the atom fails in the reader with a syntax error.
	if c06HasAtom(t, func(s string) bool { return strings.ContainsRune(s, '\ufffd') }) {
		all := true
		for _, f := range fails {
			if !strings.Contains(f.Error, "syntax_error") || !strings.Contains(f.Written, "fffd") && !strings.ContainsRune(f.Written, '\ufffd') {
				all = false
			}
		}
		if all {
			return "atom_contains_replacement_character"
		}
	}
	return ""
}

// c06HasAtom reports whether an atom or functor name of t satisfies p.
func c06HasAtom(t *term.Term, p func(string) bool) bool {
	switch t.K {
	case term.KAtom:
		return p(t.S)
	case term.KCmp:
		if !t.IsCmp(".", 2) && p(t.S) {
			return true
		}
		for _, a := range t.Args {
			if c06HasAtom(a, p) {
				return true
			}
		}
	}
	return false
}

func c06ListText(l *term.Term, chars bool) (string, bool) {
	if l == nil {
		return "", false
	}
	es, tail := term.ListElems(l)
	if !tail.IsAtom("[]") {
		return "", false
	}
	var sb strings.Builder
	for _, e := range es {
		switch {
		case chars && e.K == term.KAtom:
			sb.WriteString(e.S)
		case !chars && e.K == term.KInt && e.I >= 0 && e.I <= 0x10ffff:
			sb.WriteRune(rune(e.I))
		default:
			return "", false
		}
	}
	return sb.String(), true
}

// judgeNum: N -> text -> N' through number_chars and number_codes.
func (c *c06) judgeNum(n *term.Term, r *c06Num) Verdict {
	v := Verdict{Status: Held, Extra: map[string]int64{"numbers": 1}}
	v.Key = "C06|num|" + term.JSON(n)
	v.NonTrivial = n.K == term.KFloat
	type side struct {
		name string
		text *term.Term
		back *term.Term
		err  *proto.Err
		char bool
	}
	sample := map[string]interface{}{"number": n.String(), "expected": "number_chars/number_codes give text that they turn back into the identical number"}
	var msgs []string
	for _, s := range []side{{"number_chars", r.Chars, r.CharsN, r.CharsErr, true}, {"number_codes", r.Codes, r.CodesN, r.CodesErr, false}} {
		v.Extra["roundtrips_"+s.name]++
		txt, ok := c06ListText(s.text, s.char)
		switch {
		case s.err != nil:
			msgs = append(msgs, fmt.Sprintf("%s(%s, L), %s(N, L) did not succeed: %s (text %q)", s.name, n.String(), s.name, c06ErrText(s.err), txt))
		case s.back == nil || !ok:
			msgs = append(msgs, fmt.Sprintf("%s(%s, L) gave L = %v, not a text", s.name, n.String(), s.text))
		case !term.Equal(n, s.back):
			why := ""
			if n.K == term.KFloat {
				if f, err := strconv.ParseFloat(txt, 64); err == nil && math.Float64bits(f) == math.Float64bits(n.F) {
					why = " (the text denotes the original double: the conversion text→number is off)"
				} else {
					why = " (the text does not denote the original double)"
				}
			}
			msgs = append(msgs, fmt.Sprintf("%s(%s, L) gave %q and %s(N, L) gave N = %s [bits %s vs %s]%s", s.name, n.String(), txt, s.name, s.back.String(), term.JSON(n), term.JSON(s.back), why))
		}
		sample["observed_"+s.name] = txt
	}
	v.Sample = sample
	if len(msgs) > 0 {
		v.Status, v.Msg = Violated, strings.Join(msgs, " | ")
		v.Extra["violating_numbers"] = 1
	}
	return v
}

func (c *c06) subItem(m *c06Meta, i int) *Item {
	sm := &c06Meta{Dirs: m.Dirs, DQ: m.DQ, Terms: m.Terms[i : i+1], Family: m.Family[i : i+1], Base: m.Base + i}
	return sm.item()
}

func (c *c06) Judge(cx *Ctx, it *Item, outs []*run.Outcome) Verdict {
	var m c06Meta
	if err := decodeMeta(it, &m); err != nil {
		return Verdict{Status: Inconclusive, Msg: err.Error()}
	}
	out := outs[0]
	if out.Crash != nil {
		if out.Crash.Hung {
			return Verdict{Status: Inconclusive, Msg: "watchdog fired (wall clock) — no logical evidence"}
		}
		return Verdict{Status: Inconclusive, Msg: "worker process died while running a batch: " + out.Crash.Exit + "\n" + firstLines(out.Crash.Stderr, 8), Extra: map[string]int64{"worker_crash": 1}}
	}
	if out.Res.Fatal != "" {
		return Verdict{Status: Inconclusive, Msg: "worker: " + out.Res.Fatal}
	}
	var res c06Result
	if err := json.Unmarshal(out.Res.R, &res); err != nil {
		return Verdict{Status: Inconclusive, Msg: "worker result: " + err.Error()}
	}
	for i, e := range res.DirErrs {
		if e != nil && i < len(m.Dirs) {
			return Verdict{Status: Inconclusive, Msg: fmt.Sprintf("directive %s was rejected: %s", c06DirTexts(m.Dirs)[i], c06ErrText(e))}
		}
	}
	ops := m.table()
	// the engine's table must be the modelled one (otherwise the generator aimed at something else)
	var got []string
	for _, o := range res.Ops {
		got = append(got, fmt.Sprintf("%d %s %s", o.P, o.Spec, o.Name))
	}
	sort.Strings(got)
	if want := ops.list(); strings.Join(got, "\n") != strings.Join(want, "\n") {
		return Verdict{Status: Inconclusive, Msg: fmt.Sprintf("operator table after %v differs from the model: engine %v, model %v", c06DirTexts(m.Dirs), got, want)}
	}
	if len(res.Terms) != len(m.Terms) || len(res.Nums) != len(m.Nums) {
		return Verdict{Status: Inconclusive, Msg: "worker result does not match the item"}
	}
	single := len(m.Terms)+len(m.Nums) == 1 || cx.nontrivial == nil
	var first *Verdict
	batch := Verdict{Status: Held, Extra: map[string]int64{"cases": 1, "op_directives": int64(len(m.Dirs)), "double_quotes_" + m.DQ: 1}}
	if len(m.Dirs) > 0 {
		batch.Extra["cases_with_modified_operator_table"] = 1
	}
	kf := c.known()
	for i, t := range m.Terms {
		fam := "replay"
		if i < len(m.Family) {
			fam = m.Family[i]
		}
		v := c.judgeTerm(&m, ops, t, fam, res.Terms[i])
		if single {
			if first == nil || v.Status == Violated && first.Status != Violated {
				vv := v
				first = &vv
			}
			continue
		}
		if v.Status != Violated {
			cx.record(kf, it, v, nil)
			continue
		}
		// a violation is recorded with an item of its own (this one term), so that the replay file is minimal
		sub := c.subItem(&m, i)
		sr, _ := json.Marshal(&c06Result{Terms: res.Terms[i : i+1]})
		cx.record(kf, sub, v, []*run.Outcome{{Case: sub.Cases[0], Res: &proto.Result{R: sr, Hooks: out.Res.Hooks}}})
	}
	for i, n := range m.Nums {
		v := c.judgeNum(n, &res.Nums[i])
		if single {
			if first == nil || v.Status == Violated && first.Status != Violated {
				vv := v
				first = &vv
			}
			continue
		}
		if v.Status == Held {
			// numbers are cheap and many: held ones are only counted
			for k, x := range v.Extra {
				batch.Extra[k] += x
			}
			if v.NonTrivial {
				batch.Extra["nontrivial_numbers"]++
			}
			if batch.Sample == nil && v.NonTrivial {
				batch.Sample = v.Sample
			}
			continue
		}
		sm := &c06Meta{DQ: m.DQ, Nums: m.Nums[i : i+1]}
		sub := sm.item()
		sr, _ := json.Marshal(&c06Result{Nums: res.Nums[i : i+1]})
		cx.record(kf, sub, v, []*run.Outcome{{Case: sub.Cases[0], Res: &proto.Result{R: sr, Hooks: out.Res.Hooks}}})
	}
	if single && first != nil {
		return *first
	}
	return batch
}
