// vcheck is the controller: it generates cases, runs them in worker processes built from the tree under
// test, applies the oracles and writes evidence. It never links the code under test.
package main

import (
	"encoding/json"
	"fmt"
	"os"
	"sort"
	"strconv"
	"time"

	"verif/internal/run"
)

var checks = map[string]func() Check{}

func usage() {
	var ids []string
	for id := range checks {
		ids = append(ids, id)
	}
	sort.Strings(ids)
	fmt.Fprintf(os.Stderr, "usage: vcheck <property> [--tier quick|thorough] [--replay file] [--race]\nproperties: %v\n", ids)
	os.Exit(2)
}

func main() {
	if len(os.Args) < 2 {
		usage()
	}
	id := os.Args[1]
	mk, ok := checks[id]
	if !ok {
		usage()
	}
	tier := os.Getenv("VERIF_TIER")
	if tier == "" {
		tier = "quick"
	}
	replay := ""
	race := false
	for i := 2; i < len(os.Args); i++ {
		switch os.Args[i] {
		case "--tier":
			i++
			if i < len(os.Args) {
				tier = os.Args[i]
			}
		case "--replay":
			i++
			if i < len(os.Args) {
				replay = os.Args[i]
			}
		case "--race":
			race = true
		default:
			usage()
		}
	}
	if tier != "quick" && tier != "thorough" {
		usage()
	}
	seed := int64(1)
	if s := os.Getenv("VERIF_SEED"); s != "" {
		if n, err := strconv.ParseInt(s, 10, 64); err == nil {
			seed = n
		}
	}
	ch := mk()
	if r, ok := ch.(interface{ WantsRace(tier string) bool }); ok && r.WantsRace(tier) {
		race = true
	}
	w, err := run.BuildWorker(race)
	if err != nil {
		// the tree under test does not compile: nothing can be decided
		fmt.Fprintln(os.Stderr, "vcheck: "+err.Error())
		os.Exit(2)
	}
	defer w.Cleanup()
	cx := &Ctx{Tier: tier, Seed: seed, Worker: w, Pool: run.NewPool(w), Race: race}
	if t, ok := ch.(interface{ Tune(cx *Ctx) }); ok {
		t.Tune(cx)
	}
	code := 0
	if replay != "" {
		code = doReplay(ch, cx, replay)
	} else {
		code = runCheck(ch, cx)
	}
	w.Cleanup()
	os.Exit(code)
}

// doReplay re-executes the item of a replay file against the current tree and re-applies the oracle.
func doReplay(ch Check, cx *Ctx, path string) int {
	b, err := os.ReadFile(path)
	if err != nil {
		fmt.Fprintln(os.Stderr, err)
		return 2
	}
	var rep struct {
		Item *Item  `json:"item"`
		Seed int64  `json:"seed"`
		Tier string `json:"tier"`
	}
	if err := json.Unmarshal(b, &rep); err != nil || rep.Item == nil {
		fmt.Fprintln(os.Stderr, "bad replay file:", err)
		return 2
	}
	cx.start = time.Now()
	for i, c := range rep.Item.Cases {
		c.ID = fmt.Sprintf("replay.c%d", i)
	}
	outs := cx.Pool.Run(rep.Item.Cases)
	v := safeJudge(ch, cx, rep.Item, outs)
	out, _ := json.MarshalIndent(map[string]interface{}{"status": [...]string{"held", "violated", "inconclusive"}[v.Status],
		"message": v.Msg, "class": v.Class, "sample": v.Sample, "outcomes": summarizeOuts(outs)}, "", " ")
	fmt.Println(string(out))
	if v.Status == Violated {
		fmt.Printf("VIOLATION property=%s replay=%s\n", ch.ID(), path)
		return 1
	}
	return 0
}
