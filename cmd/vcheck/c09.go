package main

import (
	"fmt"
	"math/rand"
	"strings"

	"verif/internal/ref"
	"verif/internal/run"
	"verif/internal/term"
)

func init() { checks["C09"] = func() Check { return &c09{} } }

type c09 struct{}

func (*c09) ID() string    { return "C09" }
func (*c09) Level() string { return "exploration" }
func (*c09) Rule() string {
	return "histories of 2-10 database operations over the dynamic predicates p/1 and q/1 with the clause pool {p(1) p(2) p(3) p(X) p(1)(duplicate) p(X):-q(X) p(9):-assertz(p(10)) p(8):-retract(p(1)) q(1) q(2)}: asserta/assertz/retract/retractall/abolish executed sequentially and inside (p(X), Op, fail ; true), (retract(p(X)), Op, fail ; true), (clause(p(X),B), Op, fail ; true), nested two deep, with updates issued from within the predicate being enumerated; every solution seen by every open call is logged (w/1), every update's outcome is logged, and the final listing of both predicates (clause/2 enumeration) is part of the answer. All histories of length <=2 over a reduced statement pool are enumerated, longer ones are seeded. The engine must equal the reference model (generation-stamped logical update view) in one of its two allowed modes for an open retract that reaches an already-erased clause (skip / succeed without removing). Non-trivial: >=1 update executed while a call, clause/2 or retract/1 on the same predicate was open; distinct by history hash."
}
func (*c09) Assumptions() []string {
	return []string{
		"reference database implements the logical update view of ISO 7.5.4 (self-tested on the ISO examples each run)",
		"abolish/1 of a procedure that does not exist is not asserted (the engine raises permission_error where ISO succeeds; not part of the statement)",
		"when an open retract/1 reaches a clause of its snapshot that was erased meanwhile, both 'skip' and 'succeed without removing' are accepted, consistently per history",
	}
}

const c09Base = `
:- dynamic(p/1).
:- dynamic(q/1).
:- dynamic(z/0).
`

var c09Clauses = []string{"p(1)", "p(2)", "p(3)", "p(_)", "p(1)", "(p(X) :- q(X))", "(p(9) :- assertz(p(10)))", "(p(8) :- retract(p(1)))", "q(1)", "q(2)", "p(0)", "(p(7) :- asserta(q(7)))",
	// one clause with a disjunctive body (stored as one compiled clause per alternative)
	"(p(X) :- (X = 5 ; X = 6))", "(q(X) :- (X = 3 ; p(4)))",
	// clauses of arity 0: as terms the facts are all the same atom
	"z", "z", "(z :- w(zbody))", "(z :- true)",
	// disjunctive bodies made of arity-0 goals under heads of several sizes (compiled alternatives must not share storage)
	"(p(g(a, _, _)) :- (z ; fail))", "(p(g(b, _, _)) :- (fail ; z))", "(p(h(a, b, c, d, e, f, g, _)) :- (fail ; z ; fail))", "(q(g(_, _, c)) :- (z ; z))"}

type c09Gen struct {
	r   *rand.Rand
	ctr int
}

func (g *c09Gen) pick(ss ...string) string { return ss[g.r.Intn(len(ss))] }

func (g *c09Gen) clause() string { return c09Clauses[g.r.Intn(len(c09Clauses))] }

func (g *c09Gen) v() string {
	g.ctr++
	return fmt.Sprintf("X%d", g.ctr)
}

// op is one update whose outcome is logged.
func (g *c09Gen) op() string {
	g.ctr++
	tag := fmt.Sprintf("o%d", g.ctr)
	var goal string
	switch g.r.Intn(12) {
	case 10, 11:
		// a call with an instantiated first argument (first solution only)
		goal = g.pick("p(1)", "p(2)", "p(3)", "p(0)", "p(10)", "q(1)", "q(2)", "q(7)", "p(1)", "p(2)")
	case 0, 1:
		goal = "asserta(" + g.clause() + ")"
	case 2, 3:
		goal = "assertz(" + g.clause() + ")"
	case 4, 5, 6:
		goal = "retract(" + g.pick("p(1)", "p(2)", "p(3)", "p(_)", "p(10)", "q(_)", "q(1)", "(p(_) :- q(_))", "(p(_) :- _)", "p(0)", "(p(_) :- (_ ; _))", "(q(_) :- _)", "z", "z", "(z :- _)") + ")"
	case 7:
		if g.r.Intn(3) == 0 {
			// the clause term reaches retract/1 through a variable
			goal = fmt.Sprintf("(C%s = %s, retract(C%s))", tag, g.pick("p(1)", "(p(_) :- q(_))", "(p(_) :- _)", "(q(_) :- _)", "(z :- _)", "z", "(p(_) :- (_ ; _))", "p(_)"), tag)
			break
		}
		goal = "retractall(" + g.pick("p(_)", "p(1)", "q(_)", "p(2)", "z") + ")"
	case 8:
		goal = "abolish(" + g.pick("p/1", "q/1") + ")"
	default:
		goal = "asserta(" + g.pick("p(0)", "q(0)", "z") + ")"
	}
	return fmt.Sprintf("(catch(%s, error(E%s, _), (w(%s(err(E%s))), fail)) -> w(%s(yes)) ; w(%s(no)))", goal, tag, tag, tag, tag, tag)
}

func (g *c09Gen) ops(n int) string {
	var ss []string
	for i := 0; i < n; i++ {
		ss = append(ss, g.op())
	}
	return strings.Join(ss, ", ")
}

// stmt is one statement of the history.
func (g *c09Gen) stmt(depth int) string {
	x := g.v()
	pred := g.pick("p", "p", "p", "q")
	guard := func(body string) string {
		// errors inside a loop (e.g. existence error after abolish) end the loop and are logged
		g.ctr++
		return fmt.Sprintf("catch((%s), error(EL%d, _), w(loop_err(EL%d)))", body, g.ctr, g.ctr)
	}
	inner := func() string {
		if depth > 0 && g.r.Intn(3) == 0 {
			return g.stmt(depth - 1)
		}
		return g.ops(1 + g.r.Intn(2))
	}
	if g.r.Intn(8) == 0 {
		// the same loops over z/0
		switch g.r.Intn(4) {
		case 0:
			return guard(fmt.Sprintf("(z, w(see(z)), %s, fail ; true)", inner()))
		case 1:
			b := g.v()
			return guard(fmt.Sprintf("(clause(z, %s), w(cl(z, %s)), %s, fail ; true)", b, b, inner()))
		case 2:
			return guard(fmt.Sprintf("(retract(z), w(gone(z)), %s, fail ; true)", inner()))
		default:
			b := g.v()
			return guard(fmt.Sprintf("(retract((z :- %s)), w(gone(z, %s)), %s, fail ; true)", b, b, inner()))
		}
	}
	switch g.r.Intn(10) {
	case 0, 1, 2:
		return g.ops(1 + g.r.Intn(2))
	case 3, 4, 5:
		if g.r.Intn(4) == 0 {
			// all solutions of a call with an instantiated argument
			k := g.pick("1", "2", "3", "0")
			return guard(fmt.Sprintf("(%s(%s), w(hit(%s, %s)), %s, fail ; true)", pred, k, pred, k, inner()))
		}
		return guard(fmt.Sprintf("(%s(%s), w(see(%s, %s)), %s, fail ; true)", pred, x, pred, x, inner()))
	case 6, 7:
		return guard(fmt.Sprintf("(retract(%s(%s)), w(gone(%s, %s)), %s, fail ; true)", pred, x, pred, x, inner()))
	case 8:
		b := g.v()
		return guard(fmt.Sprintf("(clause(%s(%s), %s), w(cl(%s, %s, %s)), %s, fail ; true)", pred, x, b, pred, x, b, inner()))
	default:
		return guard(fmt.Sprintf("(retract((%s(%s) :- %s)), w(gone(%s, %s)), %s, fail ; true)", pred, x, g.v(), pred, x, inner()))
	}
}

func (g *c09Gen) history(n int) string {
	var ss []string
	for i := 0; i < n; i++ {
		ss = append(ss, g.stmt(1))
	}
	ss = append(ss, "catch(findall(A-B, clause(p(A), B), LP), error(EP, _), LP = err(EP))", "catch(findall(A-B, clause(q(A), B), LQ), error(EQ, _), LQ = err(EQ))", "catch(findall(B, clause(z, B), LZ), error(EZ, _), LZ = err(EZ))")
	return strings.Join(ss, ", ")
}

type c09Meta struct {
	c01Meta
}

func (c *c09) Generate(cx *Ctx, chunk int) []*Item {
	if chunk > 0 {
		return nil
	}
	if err := refSelfTest(); err != nil {
		cx.Note("reference self-test failed: " + err.Error())
		return nil
	}
	base := term.MustProgram(c09Base)
	initial := [][]string{{"p(1)", "p(2)", "p(3)"}, {"p(1)", "p(_)", "p(1)", "(p(X) :- q(X))", "q(1)", "q(2)"}, {}, {"p(2)", "(p(9) :- assertz(p(10)))", "(p(8) :- retract(p(1)))", "p(1)"}, {"q(1)", "(p(X) :- q(X))", "p(3)", "(p(7) :- asserta(q(7)))"},
		{"z", "(z :- w(zbody))", "z", "p(1)"},
		{"z", "(p(g(a, _, _)) :- (z ; fail))", "(p(g(b, _, _)) :- (fail ; z))", "(p(h(a, b, c, d, e, f, g, _)) :- (fail ; z ; fail))", "p(2)"}}
	var metas []*DiffMeta
	add := func(init []string, q string, family string, viaAssert bool) {
		prog := append([]*term.Term{}, base...)
		for _, cl := range init {
			prog = append(prog, term.MustParse(cl))
		}
		t, nv, _ := parseQuery(q)
		// compare only the final listings LP, LQ (all other variables are loop variables)
		_, names, _ := term.ParseTerm(q)
		var qv []int64
		for i, n := range names {
			if n == "LP" || n == "LQ" || n == "LZ" {
				qv = append(qv, int64(i))
			}
		}
		metas = append(metas, &DiffMeta{Program: prog, Query: t, NVars: nv, QVars: qv, Max: 3, Family: "history", Assert: viaAssert})
		_ = family
	}
	// the ISO / observed-defect witnesses first
	fixed := []string{
		"(retract(p(X)), w(X), asserta(p(0)), fail ; true)",
		"(retract(p(X)), w(X), retract(p(2)), fail ; true)",
		"(p(X), w(X), retract(p(2)), fail ; true)",
		"(p(X), w(X), assertz(p(4)), fail ; true)",
		"(p(X), w(X), asserta(p(4)), fail ; true)",
		"(p(X), w(X), retractall(p(_)), fail ; true)",
		"(retract(p(X)), w(X), retractall(p(_)), assertz(p(5)), fail ; true)",
		"(p(X), w(X), abolish(p/1), fail ; true)",
		"(retract(p(X)), w(X), (p(Y), w(in(Y)), fail ; true), fail ; true)",
		"(clause(p(X), B), w(X-B), retract(p(X)), fail ; true)",
		"asserta(p(a)), assertz(p(z)), retract(p(1)), retract(p(1))",
		"(retract(p(1)), w(r1), fail ; true), (retract(p(_)), w(r2), fail ; true)",
		"(retract(z), w(rz), asserta(z), fail ; true)",
		"(retract((z :- B)), w(rz(B)), asserta(z), assertz(z), fail ; true)",
		"(z, w(sz), retract(z), asserta(z), fail ; true)",
	}
	tail := ", catch(findall(A-B, clause(p(A), B), LP), error(EP, _), LP = err(EP)), catch(findall(A-B, clause(q(A), B), LQ), error(EQ, _), LQ = err(EQ)), catch(findall(B, clause(z, B), LZ), error(EZ, _), LZ = err(EZ))"
	for i, q := range fixed {
		for j, init := range initial {
			add(init, q+tail, "fixed", (i+j)%3 == 0)
		}
	}
	// exhaustive: all histories of 1 and 2 statements from a reduced deterministic statement pool
	pool := []string{
		"asserta(p(0))", "assertz(p(4))", "(retract(p(1)) -> w(y) ; w(n))", "(retract(p(_)) -> w(y) ; w(n))", "retractall(p(1))",
		"(p(X1), w(s(X1)), asserta(p(0)), fail ; true)", "(p(X2), w(s(X2)), (retract(p(3)) -> true ; true), fail ; true)",
		"(retract(p(X3)), w(g(X3)), assertz(p(5)), fail ; true)", "(retract(p(X4)), w(g(X4)), (retract(p(2)) -> true ; true), fail ; true)",
		"(retract(p(X5)), w(g(X5)), asserta(p(6)), fail ; true)", "(clause(p(X6), B6), w(c(X6, B6)), retractall(p(_)), fail ; true)",
		"(p(X7), w(s(X7)), (p(Y7), w(t(Y7)), (retract(p(Y7)) -> true ; true), fail ; true), fail ; true)",
		"(p(1) -> w(y1) ; w(n1))", "(p(2), w(h2), fail ; true)", "(retract(p(2)) -> assertz(p(2)) ; assertz(p(1)))",
		"(C8 = (p(_) :- _), retract(C8) -> w(y8) ; w(n8))",
	}
	for _, init := range initial {
		for _, a := range pool {
			add(init, a+tail, "exhaustive-1", false)
			for _, b := range pool {
				b2 := strings.NewReplacer("X1", "Z1", "X2", "Z2", "X3", "Z3", "X4", "Z4", "X5", "Z5", "X6", "Z6", "B6", "C6", "X7", "Z7", "Y7", "W7").Replace(b)
				add(init, a+", "+b2+tail, "exhaustive-2", false)
			}
		}
	}
	cx.exhaustive = true
	n := 10000
	if cx.Thorough() {
		n = 250000
	}
	for i := 0; i < n; i++ {
		g := &c09Gen{r: cx.Rng(fmt.Sprintf("c09/%d", i))}
		init := initial[g.r.Intn(len(initial))]
		add(init, g.history(1+g.r.Intn(4)), "random", g.r.Intn(4) == 0)
	}
	return prepareDiffItems(metas, 20000, ref.Options{})
}

func (c *c09) Judge(cx *Ctx, it *Item, outs []*run.Outcome) Verdict {
	var m c01Meta
	if err := decodeMeta(it, &m); err != nil {
		return Verdict{Status: Inconclusive, Msg: err.Error()}
	}
	var first diffResult
	var o *ref.Outcome
	for mode := 0; mode < 2; mode++ {
		var err error
		o, err = m.refRun(m.RefBudget, ref.Options{RetractErasedSucceeds: mode == 1})
		if err != nil {
			return Verdict{Status: Inconclusive, Msg: err.Error()}
		}
		r := compareRun(&m.DiffMeta, o, outs[0], true)
		if mode == 0 {
			first = r
		}
		if r.Status != Violated {
			first = r
			break
		}
	}
	r := first
	v := Verdict{Status: r.Status, Msg: r.Msg}
	v.NonTrivial = o.M.OpenUpdates >= 1
	v.Extra = map[string]int64{"ref_updates_while_open": int64(o.M.OpenUpdates), "family_" + m.Family: 1}
	prog := programText(m.Program)
	v.Sample = map[string]interface{}{"initial_database": prog, "history": term.Text(m.Query, qvar), "expected": r.Expected, "observed": r.Observed}
	if v.Status == Violated {
		v.Msg = fmt.Sprintf("%s | history: %s | initial database: %s", r.Msg, term.Text(m.Query, qvar), oneLine(prog))
	}
	return v
}
