package main

import (
	"bytes"
	"context"
	"errors"
	"fmt"
	"io"
	"math"
	"os"
	"strconv"
	"strings"
	"time"

	"github.com/ichiban/prolog"
	"github.com/ichiban/prolog/engine"

	"verif/internal/proto"
	"verif/internal/term"
)

func init() { kinds["prolog"] = runPrologCase }

// session is one interpreter with the verif_in/verif_out predicates and captured I/O.
type session struct {
	p      *prolog.Interpreter
	cv     *conv
	inputs []engine.Term
	events []proto.Event
	out    bytes.Buffer
}

func newSession(c *proto.Case) *session {
	s := &session{cv: newConv()}
	var in io.Reader = strings.NewReader("")
	if c.UserInput != nil {
		in = makeReader(c.UserInput)
	}
	s.p = prolog.New(in, &s.out)
	if c.UserInput != nil && c.UserInput.Binary {
		s.p.SetUserInput(engine.NewInputBinaryStream(in))
	}
	for _, t := range c.Inputs {
		s.inputs = append(s.inputs, s.cv.fromTree(t))
	}
	s.p.Register2(engine.NewAtom("verif_in"), func(vm *engine.VM, i, t engine.Term, k engine.Cont, env *engine.Env) *engine.Promise {
		n, ok := env.Resolve(i).(engine.Integer)
		if !ok || n < 0 || int(n) >= len(s.inputs) {
			return engine.Error(errors.New("verif_in: bad index"))
		}
		return engine.Unify(vm, t, s.inputs[n], k, env)
	})
	s.p.Register2(engine.NewAtom("verif_out"), func(vm *engine.VM, tag, t engine.Term, k engine.Cont, env *engine.Env) *engine.Promise {
		name := "?"
		if a, ok := env.Resolve(tag).(engine.Atom); ok {
			name = a.String()
		}
		s.events = append(s.events, proto.Event{Tag: name, T: s.cv.toTree(t, env)})
		return k(env)
	})
	// w/1: the one-argument logging form used in generated control programs.
	s.p.Register1(engine.NewAtom("w"), func(vm *engine.VM, t engine.Term, k engine.Cont, env *engine.Env) *engine.Promise {
		s.events = append(s.events, proto.Event{Tag: "w", T: s.cv.toTree(t, env)})
		return k(env)
	})
	for _, f := range c.Flags {
		_ = s.p.Exec(fmt.Sprintf(":- set_prolog_flag(%s, %s).", f[0], f[1]))
	}
	return s
}

// capture is the Scanner used to read answers as trees.
type capture struct {
	t *term.Term
}

var curConv *conv

func (c *capture) Scan(vm *engine.VM, t engine.Term, env *engine.Env) error {
	c.t = curConv.toTree(t, env)
	return nil
}

func errOf(cv *conv, err error) *proto.Err {
	if err == nil {
		return nil
	}
	e := &proto.Err{Text: err.Error(), GoType: fmt.Sprintf("%T", err)}
	var ex engine.Exception
	if errors.As(err, &ex) {
		e.Exception = cv.toTree(ex.Term(), nil)
	}
	return e
}

const defaultBudget = 2_000_000

func (s *session) begin(budget int64) (context.Context, context.CancelFunc) {
	if budget <= 0 {
		budget = defaultBudget
	}
	var ctx context.Context
	var cancel context.CancelFunc
	if hooksOn {
		ctx, cancel = context.WithCancel(context.Background())
	} else {
		// no logical clock available: a generous wall-clock limit (its firing is reported as budget_hit
		// and treated as inconclusive by the controller)
		ctx, cancel = context.WithTimeout(context.Background(), 20*time.Second)
	}
	beginState(ctx, budget, cancel)
	return ctx, cancel
}

func (s *session) runStep(st *proto.Step) proto.StepResult {
	var r proto.StepResult
	s.events = nil
	outStart := s.out.Len()
	ctx, cancel := s.begin(st.StepBudget)
	defer cancel()
	args, err := goArgs(st.Args)
	if err != nil {
		r.Err = &proto.Err{Text: "verif: " + err.Error()}
		return r
	}
	curConv = s.cv
	switch {
	case st.Exec != "":
		err := s.p.ExecContext(ctx, st.Exec, args...)
		r.Err = errOf(s.cv, err)
	default:
		sols, err := s.p.QueryContext(ctx, st.Query, args...)
		if err != nil {
			r.Err = errOf(s.cv, err)
			break
		}
		max := st.Max
		if max <= 0 {
			max = 10000
		}
		for len(r.Answers) < max {
			if !sols.Next() {
				r.Exhausted = true
				break
			}
			m := map[string]capture{}
			if err := sols.Scan(m); err != nil {
				r.Err = &proto.Err{Text: "scan: " + err.Error()}
				break
			}
			// one conversion context per answer keeps variable identity consistent across the variables
			a := map[string]*term.Term{}
			for k, v := range m {
				a[k] = v.t
			}
			r.Answers = append(r.Answers, a)
			s.events = append(s.events, proto.Event{Tag: "$answer"})
		}
		if e := sols.Err(); e != nil && r.Err == nil {
			r.Err = errOf(s.cv, e)
		}
		if err := sols.Close(); err != nil {
			r.CloseErr = err.Error()
		}
	}
	r.Events = s.events
	r.Output = append([]byte(nil), s.out.Bytes()[outStart:]...)
	ss := curState()
	r.Steps = ss.steps
	r.BudgetHit = ss.hit || (!hooksOn && ctx.Err() != nil)
	return r
}

func runPrologCase(c *proto.Case) *proto.Result {
	res := &proto.Result{}
	for name, content := range c.Files {
		if err := os.WriteFile(name, []byte(content), 0o644); err != nil {
			res.Fatal = err.Error()
			return res
		}
	}
	s := newSession(c)
	counters = &proto.Counters{}
	defer func() { counters = nil }()
	installHooks()
	defer uninstallHooks()
	for _, text := range c.Setup {
		ctx, cancel := s.begin(0)
		err := s.p.ExecContext(ctx, text)
		cancel()
		res.Setup = append(res.Setup, errOf(s.cv, err))
	}
	for i := range c.Steps {
		res.Steps = append(res.Steps, s.runStep(&c.Steps[i]))
	}
	res.Counters = counters
	return res
}

// goArgs turns typed JSON arguments into the Go values handed to the placeholder API.
func goArgs(as []proto.Arg) ([]interface{}, error) {
	var out []interface{}
	for _, a := range as {
		v, err := goArg(a)
		if err != nil {
			return nil, err
		}
		out = append(out, v)
	}
	return out, nil
}

func goArg(a proto.Arg) (interface{}, error) {
	switch a.T {
	case "string":
		if a.B != nil {
			return string(a.B), nil
		}
		return a.S, nil
	case "int":
		return int(a.I), nil
	case "int8":
		return int8(a.I), nil
	case "int16":
		return int16(a.I), nil
	case "int32":
		return int32(a.I), nil
	case "int64":
		return a.I, nil
	case "uint":
		return uint(a.I), nil
	case "bool":
		return a.I != 0, nil
	case "nil":
		return nil, nil
	case "float64", "float32":
		u, err := strconv.ParseUint(a.F, 16, 64)
		if err != nil {
			return nil, err
		}
		f := math.Float64frombits(u)
		if a.T == "float32" {
			return float32(f), nil
		}
		return f, nil
	case "list":
		l := make([]interface{}, 0, len(a.E))
		for _, e := range a.E {
			v, err := goArg(e)
			if err != nil {
				return nil, err
			}
			l = append(l, v)
		}
		return l, nil
	case "strings":
		l := make([]string, 0, len(a.E))
		for _, e := range a.E {
			l = append(l, e.S)
		}
		return l, nil
	case "ints":
		l := make([]int, 0, len(a.E))
		for _, e := range a.E {
			l = append(l, int(e.I))
		}
		return l, nil
	case "array3":
		var arr [3]int
		for i := range arr {
			if i < len(a.E) {
				arr[i] = int(a.E[i].I)
			}
		}
		return arr, nil
	}
	return nil, fmt.Errorf("unknown arg type %q", a.T)
}

// --- host readers -----------------------------------------------------------------------------------

func makeReader(src *proto.Source) io.Reader {
	switch {
	case src.Reader == "onebyte":
		return &oneByteReader{b: src.Data}
	case src.Reader == "eofwithdata":
		return &eofWithDataReader{b: src.Data}
	case strings.HasPrefix(src.Reader, "erroring:"):
		n, _ := strconv.Atoi(strings.TrimPrefix(src.Reader, "erroring:"))
		return &erroringReader{b: src.Data, failAt: n}
	case src.Reader == "chunk3":
		return &chunkReader{b: src.Data, n: 3}
	default:
		return bytes.NewReader(src.Data)
	}
}

type oneByteReader struct {
	b []byte
	i int
}

func (r *oneByteReader) Read(p []byte) (int, error) {
	if r.i >= len(r.b) {
		return 0, io.EOF
	}
	if len(p) == 0 {
		return 0, nil
	}
	p[0] = r.b[r.i]
	r.i++
	return 1, nil
}

type chunkReader struct {
	b []byte
	i int
	n int
}

func (r *chunkReader) Read(p []byte) (int, error) {
	if r.i >= len(r.b) {
		return 0, io.EOF
	}
	n := r.n
	if n > len(p) {
		n = len(p)
	}
	n = copy(p[:n], r.b[r.i:])
	r.i += n
	return n, nil
}

// eofWithDataReader returns io.EOF together with the last bytes, as io.Reader allows.
type eofWithDataReader struct {
	b []byte
	i int
}

func (r *eofWithDataReader) Read(p []byte) (int, error) {
	if r.i >= len(r.b) {
		return 0, io.EOF
	}
	n := copy(p, r.b[r.i:])
	r.i += n
	if r.i >= len(r.b) {
		return n, io.EOF
	}
	return n, nil
}

type erroringReader struct {
	b      []byte
	i      int
	failAt int
}

var errInjected = errors.New("injected read error")

func (r *erroringReader) Read(p []byte) (int, error) {
	if r.i >= r.failAt || r.i >= len(r.b) {
		return 0, errInjected
	}
	end := r.failAt
	if end > len(r.b) {
		end = len(r.b)
	}
	n := copy(p, r.b[r.i:end])
	r.i += n
	return n, nil
}
