package main

// Worker kind "cancel" (property C13). One call (QueryContext+Next / QuerySolutionContext / ExecContext) is made
// with a context that is cancelled at a chosen instant of the logical clock (trampoline steps counted by the
// verif step hook, see cancelcase_on.go); the worker reports how many further steps and observable goals ran
// before the call returned, what it returned, and the answers of follow-up calls on the same interpreter.
// Without the hooks (cancelcase_off.go) the instant is a wall-clock delay and nothing can be decided.

import (
	"context"
	"encoding/json"
	"errors"
	"os"
	"runtime"
	"strings"
	"sync"
	"sync/atomic"
	"syscall"
	"time"

	"github.com/ichiban/prolog/engine"

	"verif/internal/proto"
)

func init() { kinds["cancel"] = runCancelCase }

const (
	cancelDefaultBudget = 5_000_000
	cancelCPULimit      = 6.0               // CPU seconds burnt after the cancellation without a step and without returning → "stuck: cpu"
	cancelStallCPU      = 1.0               // CPU seconds without a single step before the instant → cancel right now
	cancelIdleAfter     = 5 * time.Second   // nothing returned and (almost) no CPU used since the cancellation → "stuck: idle"
	cancelIdleCPU       = 0.05              // CPU seconds
	cancelWallLimit     = 100 * time.Second // only stops the experiment → "stuck: wall" (never a verdict)
)

// stepDeadlineCtx is a context that expires with DeadlineExceeded exactly when the experiment says so.
type stepDeadlineCtx struct {
	context.Context
	done chan struct{}
	mu   sync.Mutex
	err  error
	dl   time.Time
}

func newStepDeadlineCtx() *stepDeadlineCtx {
	return &stepDeadlineCtx{Context: context.Background(), done: make(chan struct{}), dl: time.Now().Add(time.Hour)}
}
func (c *stepDeadlineCtx) Done() <-chan struct{}       { return c.done }
func (c *stepDeadlineCtx) Deadline() (time.Time, bool) { return c.dl, true }
func (c *stepDeadlineCtx) Err() error {
	c.mu.Lock()
	defer c.mu.Unlock()
	return c.err
}
func (c *stepDeadlineCtx) expire() {
	c.mu.Lock()
	defer c.mu.Unlock()
	if c.err == nil {
		c.err = context.DeadlineExceeded
		c.dl = time.Now()
		close(c.done)
	}
}

type cancelCtxKey struct{}

// cancelRun is the state of one experiment. Fields read by more than one goroutine are atomics; the plain ones
// below mu (and out.Answers) are guarded by mu, because the goroutine of a query may still be winding down (after
// Close) when the caller already reads the results.
type cancelRun struct {
	id  string
	pl  *proto.CancelPayload
	s   *session
	out *proto.CancelResult

	ctx     context.Context
	fire    func() // cancels / expires ctx
	release []context.CancelFunc

	steps        atomic.Int64
	cancelAt     atomic.Int64 // logical time of the cancellation; -1 = not yet
	cancelWallNs atomic.Int64
	cancelCPUus  atomic.Int64
	returned     atomic.Bool
	stray        atomic.Int64
	budgetHit    atomic.Bool
	forced       atomic.Bool // the watchdog chose the instant because the logical clock stood still
	abortOnce    sync.Once

	mu              sync.Mutex
	evidenceTaken   bool
	eventsAtCancel  int
	answersAtCancel int
	bytesAtCancel   int
	stackDepth      int
	forceDepth      int
	maxDepth        int
	rng             uint64
	goscheds        int64
	goalCalls       int64 // executions of cancel_at/1

	wake          chan struct{} // async mode: closed by the hook at step N
	quit          chan struct{} // closed when the call has returned
	cancellerDone chan struct{}
	watchdogDone  chan struct{}
}

func processCPU() float64 {
	var ru syscall.Rusage
	if err := syscall.Getrusage(syscall.RUSAGE_SELF, &ru); err != nil {
		return 0
	}
	return float64(ru.Utime.Sec+ru.Stime.Sec) + float64(ru.Utime.Usec+ru.Stime.Usec)/1e6
}

func (r *cancelRun) makeContext() {
	switch r.pl.Ctx {
	case "child":
		parent, cancel := context.WithCancel(context.Background())
		mid, cancelMid := context.WithCancel(parent)
		r.ctx = context.WithValue(mid, cancelCtxKey{}, 1)
		r.fire = cancel
		r.release = append(r.release, cancelMid, cancel)
	case "deadline":
		c := newStepDeadlineCtx()
		r.ctx, r.fire = c, c.expire
	case "deadline_past":
		ctx, cancel := context.WithDeadline(context.Background(), time.Now().Add(-time.Hour))
		r.ctx, r.fire = ctx, func() {}
		r.release = append(r.release, cancel)
	case "timeout":
		ctx, cancel := context.WithTimeout(context.Background(), time.Duration(r.pl.N)*time.Microsecond)
		r.ctx, r.fire = ctx, func() {}
		r.release = append(r.release, cancel)
	default: // cancel
		ctx, cancel := context.WithCancel(context.Background())
		r.ctx, r.fire = ctx, cancel
		r.release = append(r.release, cancel)
	}
}

// markCancel records the instant of the cancellation. onEngine says that the caller is the goroutine running
// the engine (or that the engine is known to be parked), so that the event log may be read; mu is held then.
func (r *cancelRun) markCancel(at int64, onEngine bool) {
	r.cancelWallNs.Store(time.Now().UnixNano())
	r.cancelCPUus.Store(int64(processCPU() * 1e6))
	if onEngine {
		r.takeEvidence()
	}
	r.cancelAt.Store(at)
}

func (r *cancelRun) takeEvidence() {
	if r.evidenceTaken {
		return
	}
	r.evidenceTaken = true
	r.eventsAtCancel = len(r.s.events)
	r.answersAtCancel = len(r.out.Answers)
	r.bytesAtCancel = r.s.out.Len()
}

// abort ends the experiment when the call does not come back: it reports what was seen, in the framing of
// main.go (the BEGIN line is already out), and exits; the pool re-runs the rest of the batch in a new process.
func (r *cancelRun) abort(why string) {
	r.abortOnce.Do(func() {
		o := r.out
		ca := r.cancelAt.Load()
		o.Cancelled = ca >= 0
		o.CancelStep = ca
		o.Steps = r.steps.Load()
		if ca >= 0 {
			o.StepsAfter = o.Steps - ca
			o.WallAfterNs = time.Now().UnixNano() - r.cancelWallNs.Load()
			o.CPUAfter = processCPU() - float64(r.cancelCPUus.Load())/1e6
		}
		if r.mu.TryLock() { // the aborting goroutine may be the hook, which holds mu
			o.StackDepth, o.ForceDepth = r.stackDepth, r.forceDepth
			r.mu.Unlock()
		}
		o.Returned = false
		o.Forced = r.forced.Load()
		switch why {
		case "steps":
			o.Ignored = true
		default:
			o.Stuck = why
		}
		buf := make([]byte, 256<<10)
		buf = buf[:runtime.Stack(buf, true)]
		o.Dump = string(buf)
		if e := r.ctx.Err(); e != nil {
			o.CtxErr = e.Error()
		}
		res := &proto.Result{ID: r.id, Hooks: hooksOn}
		res.R, _ = json.Marshal(o)
		b, err := json.Marshal(res)
		if err != nil {
			b, _ = json.Marshal(&proto.Result{ID: r.id, Fatal: "marshal: " + err.Error()})
		}
		os.Stdout.Write(append(b, '\n'))
		if scratch != "" {
			os.RemoveAll(scratch)
		}
		os.Exit(0)
	})
}

// watchdog stops an experiment whose call does not return although the context is cancelled and no trampoline
// step is being taken (a loop inside Go that the step hook cannot see, or a call parked for good). The wall
// clock only stops the experiment; the controller decides from the CPU time burnt and the goroutine states.
func (r *cancelRun) watchdog() {
	defer close(r.watchdogDone)
	t := time.NewTicker(50 * time.Millisecond)
	defer t.Stop()
	lastSteps, cpuMark, armed := int64(-1), processCPU(), false
	for {
		select {
		case <-r.quit:
			return
		case <-t.C:
			if r.returned.Load() {
				continue
			}
			if r.cancelAt.Load() < 0 {
				// The logical clock stands still while CPU is being burnt: the engine is busy inside one step and the
				// chosen instant may never come. Any instant is a legitimate one: cancel now and keep observing.
				now := processCPU()
				if n := r.steps.Load(); n != lastSteps {
					lastSteps, cpuMark = n, now
				} else if now-cpuMark >= cancelStallCPU && r.pl.Mode != "never" && r.pl.Mode != "timer" {
					r.forced.Store(true)
					r.markCancel(n, false)
					r.fire()
				}
				continue
			}
			now := processCPU()
			cpu := now - float64(r.cancelCPUus.Load())/1e6
			wall := time.Duration(time.Now().UnixNano() - r.cancelWallNs.Load())
			if n := r.steps.Load(); n != lastSteps || !armed {
				// still taking steps (the step limit watches that), or first look after the cancellation
				lastSteps, cpuMark, armed = n, now, true
			}
			switch {
			case now-cpuMark >= cancelCPULimit:
				r.abort("cpu")
			case wall >= cancelIdleAfter && cpu < cancelIdleCPU:
				r.abort("idle")
			case wall >= cancelWallLimit:
				r.abort("wall")
			}
		}
	}
}

func (r *cancelRun) scan(m map[string]capture) map[string]string {
	a := map[string]string{}
	for k, v := range m {
		if v.t != nil {
			a[k] = v.t.String()
		}
	}
	return a
}

// call makes the API call under test and returns its error.
func (r *cancelRun) call() error {
	pl, o, s := r.pl, r.out, r.s
	curConv = s.cv
	switch pl.API {
	case "exec":
		return s.p.ExecContext(r.ctx, pl.Text)
	case "solution":
		sol := s.p.QuerySolutionContext(r.ctx, pl.Text)
		if err := sol.Err(); err != nil {
			return err
		}
		m := map[string]capture{}
		if err := sol.Scan(m); err != nil {
			return errors.New("scan: " + err.Error())
		}
		r.mu.Lock()
		o.Answers = append(o.Answers, r.scan(m))
		r.mu.Unlock()
		return nil
	default: // query
		sols, err := s.p.QueryContext(r.ctx, pl.Text)
		if err != nil {
			return err
		}
		max := pl.Max
		if max <= 0 {
			max = 1
		}
		for got := 0; got < max; {
			if !sols.Next() {
				o.Exhausted = true
				break
			}
			m := map[string]capture{}
			if err := sols.Scan(m); err != nil {
				return errors.New("scan: " + err.Error())
			}
			r.mu.Lock()
			o.Answers = append(o.Answers, r.scan(m))
			got = len(o.Answers)
			if pl.Mode == "between" && int64(got) == pl.N && r.cancelAt.Load() < 0 {
				// the query goroutine is parked between two answers: cancel now, then ask for the next answer
				r.markCancel(r.steps.Load(), true)
				r.fire()
			}
			r.mu.Unlock()
		}
		err = sols.Err()
		if cerr := sols.Close(); cerr != nil {
			o.CloseErr = cerr.Error()
		}
		return err
	}
}

func runCancelCase(c *proto.Case) *proto.Result {
	res := &proto.Result{}
	var pl proto.CancelPayload
	if err := json.Unmarshal(c.P, &pl); err != nil {
		res.Fatal = "cancel payload: " + err.Error()
		return res
	}
	for name, content := range c.Files {
		if err := os.WriteFile(name, []byte(content), 0o644); err != nil {
			res.Fatal = err.Error()
			return res
		}
	}
	if pl.Budget <= 0 {
		pl.Budget = cancelDefaultBudget
	}
	if pl.Limit <= 0 {
		pl.Limit = 100_000
	}
	s := newSession(c)
	o := &proto.CancelResult{}
	r := &cancelRun{id: c.ID, pl: &pl, s: s, out: o, rng: pl.Seed*2862933555777941757 + 3037000493,
		wake: make(chan struct{}), quit: make(chan struct{}), cancellerDone: make(chan struct{}), watchdogDone: make(chan struct{})}
	r.cancelAt.Store(-1)
	r.makeContext()
	// cancel_at(K): the program itself cancels the context, at the K-th execution of this goal (mode "goal"): an
	// instant in the middle of a trampoline step, after which the rest of the step still runs.
	s.p.Register1(engine.NewAtom("cancel_at"), func(_ *engine.VM, t engine.Term, k engine.Cont, env *engine.Env) *engine.Promise {
		n, ok := env.Resolve(t).(engine.Integer)
		if !ok {
			return engine.Error(errors.New("cancel_at: integer expected"))
		}
		r.mu.Lock()
		r.goalCalls++
		hit := pl.Mode == "goal" && r.goalCalls == int64(n) && r.cancelAt.Load() < 0
		if hit {
			r.forceDepth = forceFrames()
			r.markCancel(r.steps.Load(), true)
		}
		r.mu.Unlock()
		if hit {
			r.fire()
		}
		return k(env)
	})
	for _, text := range pl.Setup {
		o.SetupErr = append(o.SetupErr, errOf(s.cv, s.p.Exec(text)))
	}
	s.events = nil
	if pl.Mode == "before" {
		r.fire()
		r.mu.Lock()
		r.markCancel(0, true)
		r.mu.Unlock()
	}
	goroutines := runtime.NumGoroutine() // main and whatever the runtime keeps; the helpers below come and go
	go r.watchdog()
	if pl.Mode == "async" {
		go func() {
			defer close(r.cancellerDone)
			select {
			case <-r.wake:
				r.fire()
				// the instant is taken after cancel() has returned: steps in flight are not counted against the engine
				r.markCancel(r.steps.Load(), false)
			case <-r.quit:
			}
		}()
	} else {
		close(r.cancellerDone)
	}
	r.installClock()

	err := r.call()

	r.returned.Store(true)
	total := r.steps.Load()
	close(r.quit)
	<-r.cancellerDone
	<-r.watchdogDone
	ca := r.cancelAt.Load()
	if ca >= 0 {
		o.WallAfterNs = time.Now().UnixNano() - r.cancelWallNs.Load()
	}
	// The goroutine of a query may still be winding down (Close after the last wanted answer): give it a bounded
	// chance to end, so that its steps are counted and the hook variable is not rewritten under its feet. A
	// goroutine that keeps taking steps for the returned call shows up in StepsAfterReturn.
	for i := 0; i < 400 && runtime.NumGoroutine() > goroutines; i++ {
		if i < 50 {
			runtime.Gosched()
		} else {
			time.Sleep(200 * time.Microsecond)
		}
	}
	r.steps.Load() // (atomic: orders this goroutine after the last hook call of one that has ended)
	r.removeClock()

	r.mu.Lock()
	defer r.mu.Unlock()
	o.Returned = true
	o.Steps = total
	o.StepsAfterReturn = r.stray.Load()
	o.BudgetHit = r.budgetHit.Load()
	o.Forced = r.forced.Load()
	if ca >= 0 {
		r.takeEvidence()
		o.Cancelled = true
		o.CancelStep = ca
		o.StepsAfter = total - ca
		if o.StepsAfter < 0 {
			o.StepsAfter = 0
		}
		o.EventsBefore = r.eventsAtCancel
		o.EventsAfter = len(s.events) - r.eventsAtCancel
		o.BytesAfter = s.out.Len() - r.bytesAtCancel
		o.AnswersAfter = len(o.Answers) - r.answersAtCancel
	} else {
		o.EventsBefore = len(s.events)
	}
	for i := len(s.events) - 4; i < len(s.events); i++ {
		if i >= 0 && s.events[i].T != nil {
			o.LastEvents = append(o.LastEvents, s.events[i].T.String())
		}
	}
	o.StackDepth, o.ForceDepth = r.stackDepth, r.forceDepth
	o.Goscheds = r.goscheds
	o.Err = errOf(s.cv, err)
	if ce := r.ctx.Err(); ce != nil {
		o.CtxErr = ce.Error()
		o.ErrIsCtx = err != nil && errors.Is(err, ce)
		o.ErrSame = err == ce
	}
	for _, f := range r.release {
		f()
	}

	// follow-up calls on the same interpreter, with the ordinary step-budget hook
	installHooks()
	counters = &proto.Counters{}
	for i := range pl.Follow {
		o.Follow = append(o.Follow, s.runStep(&pl.Follow[i]))
	}
	uninstallHooks()
	counters.Steps += total
	if r.maxDepth > counters.MaxDepth {
		counters.MaxDepth = r.maxDepth
	}
	res.Counters = counters
	counters = nil
	res.R, _ = json.Marshal(o)
	return res
}

// forceFrames counts the Promise.Force activations on the current goroutine's call stack, i.e. how deeply
// trampolines are nested at this instant.
func forceFrames() int {
	pcs := make([]uintptr, 512)
	pcs = pcs[:runtime.Callers(3, pcs)]
	frames := runtime.CallersFrames(pcs)
	k := 0
	for {
		f, more := frames.Next()
		if strings.HasSuffix(f.Function, "engine.(*Promise).Force") {
			k++
		}
		if !more {
			break
		}
	}
	return k
}
