package main

import (
	"github.com/ichiban/prolog/engine"

	"verif/internal/proto"
)

// Kind "relations" (property C16) is kind "prolog" plus one Go predicate, verif_seen(K): true iff the event
// log of the current step already holds at least K verif_out records. A query of the form
//
//	( call(G), verif_out(s, As), verif_seen(5) -> verif_out(stopped, []) ; true ), fail
//
// therefore stops an infinite enumeration after exactly five answers from inside the query and then runs
// to its normal end: the solver goroutine has finished before the step returns, no Solutions is closed
// early, and nothing of the step runs concurrently with the next one.
func init() { kinds["relations"] = runRelationsCase }

func runRelationsCase(c *proto.Case) *proto.Result {
	res := &proto.Result{}
	s := newSession(c)
	counters = &proto.Counters{}
	defer func() { counters = nil }()
	installHooks()
	defer uninstallHooks()
	s.p.Register1(engine.NewAtom("verif_seen"), func(vm *engine.VM, k engine.Term, cont engine.Cont, env *engine.Env) *engine.Promise {
		n, ok := env.Resolve(k).(engine.Integer)
		if !ok {
			return engine.Bool(false)
		}
		seen := 0
		for _, e := range s.events {
			if e.Tag != "$answer" {
				seen++
			}
		}
		if seen >= int(n) {
			return cont(env)
		}
		return engine.Bool(false)
	})
	for _, text := range c.Setup {
		ctx, cancel := s.begin(0)
		err := s.p.ExecContext(ctx, text)
		cancel()
		res.Setup = append(res.Setup, errOf(s.cv, err))
	}
	for i := range c.Steps {
		res.Steps = append(res.Steps, s.runStep(&c.Steps[i]))
	}
	res.Counters = counters
	return res
}
