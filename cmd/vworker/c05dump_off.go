//go:build !verif

package main

import "verif/internal/proto"

// Without the verif hooks the procedure table cannot be read; the controller falls back to the sources.
func init() {
	kinds["c05dump"] = func(c *proto.Case) *proto.Result {
		return &proto.Result{Fatal: "c05dump: hooks unavailable"}
	}
}

func c05LightHooks() {}
