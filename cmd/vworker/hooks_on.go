//go:build verif

package main

import (
	"context"
	"sync/atomic"

	"github.com/ichiban/prolog/engine"

	"verif/internal/proto"
)

const hooksOn = true

// stepState is the logical clock and the step-budget canceller of the current API call. The hooks only
// count trampoline iterations that belong to the context of the current call: after Solutions.Close the
// query goroutine of the previous call may still make one or two iterations concurrently with the next
// call; those are ignored (they would otherwise race on the counters).
type stepState struct {
	ctx      context.Context
	steps    int64
	budget   int64
	cancel   context.CancelFunc
	hit      bool
	maxDepth int
	onStep   func(n int64, depth int) // extra observer (cancel cases)
	counters *proto.Counters
}

var curp atomic.Pointer[stepState]

// cur returns the state of the current call (never nil).
func curState() *stepState {
	if st := curp.Load(); st != nil {
		return st
	}
	return &stepState{}
}

var counters *proto.Counters

func beginState(ctx context.Context, budget int64, cancel context.CancelFunc) *stepState {
	st := &stepState{ctx: ctx, budget: budget, cancel: cancel, counters: counters}
	curp.Store(st)
	return st
}

func installHooks() {
	engine.VerifOnStep = func(ctx context.Context, depth int) {
		st := curp.Load()
		if st == nil || st.ctx != ctx {
			return
		}
		st.steps++
		if depth > st.maxDepth {
			st.maxDepth = depth
		}
		if c := st.counters; c != nil {
			c.Steps++
			if depth > c.MaxDepth {
				c.MaxDepth = depth
			}
		}
		if st.budget > 0 && st.steps >= st.budget && !st.hit {
			st.hit = true
			if st.cancel != nil {
				st.cancel()
			}
		}
		if st.onStep != nil {
			st.onStep(st.steps, depth)
		}
	}
	// The other hooks carry no context. They fire synchronously inside a trampoline iteration, i.e. between
	// two step hooks of the same goroutine; a stale goroutine is at most finishing its last iteration, in
	// which no cut, recover or VM instruction can occur any more (its continuation has already returned).
	engine.VerifOnCut = func(before, after int) {
		st := curp.Load()
		if st == nil || st.counters == nil {
			return
		}
		c := st.counters
		c.Cuts++
		d := before - after
		if d > 16 {
			d = 16
		}
		if c.CutPopped == nil {
			c.CutPopped = map[int]int64{}
		}
		c.CutPopped[d]++
	}
	engine.VerifOnRecover = func(before, after int, handled bool) {
		st := curp.Load()
		if st == nil || st.counters == nil {
			return
		}
		st.counters.Recovers++
		if handled {
			st.counters.Handled++
		}
	}
	engine.VerifOnOp = func(op byte) {
		st := curp.Load()
		if st == nil || st.counters == nil {
			return
		}
		c := st.counters
		if c.Ops == nil {
			c.Ops = map[string]int64{}
		}
		name := "?"
		if int(op) < len(engine.VerifOpcodeNames) {
			name = engine.VerifOpcodeNames[op]
		}
		c.Ops[name]++
	}
}

func uninstallHooks() {
	curp.Store(nil)
	engine.VerifOnStep, engine.VerifOnCut, engine.VerifOnRecover, engine.VerifOnOp = nil, nil, nil, nil
}
