//go:build verif

package main

import (
	"context"

	"github.com/ichiban/prolog/engine"

	"verif/internal/proto"
)

const hooksOn = true

// stepState is the logical clock and the step-budget canceller of the current API call.
type stepState struct {
	steps    int64
	budget   int64
	cancel   context.CancelFunc
	hit      bool
	maxDepth int
	onStep   func(n int64) // extra observer (cancel cases)
}

var cur stepState
var counters *proto.Counters

func installHooks() {
	engine.VerifOnStep = func(ctx context.Context, depth int) {
		cur.steps++
		if depth > cur.maxDepth {
			cur.maxDepth = depth
		}
		if counters != nil {
			counters.Steps++
			if depth > counters.MaxDepth {
				counters.MaxDepth = depth
			}
		}
		if cur.budget > 0 && cur.steps >= cur.budget && !cur.hit {
			cur.hit = true
			if cur.cancel != nil {
				cur.cancel()
			}
		}
		if cur.onStep != nil {
			cur.onStep(cur.steps)
		}
	}
	engine.VerifOnCut = func(before, after int) {
		if counters == nil {
			return
		}
		counters.Cuts++
		d := before - after
		if d > 16 {
			d = 16
		}
		if counters.CutPopped == nil {
			counters.CutPopped = map[int]int64{}
		}
		counters.CutPopped[d]++
	}
	engine.VerifOnRecover = func(before, after int, handled bool) {
		if counters == nil {
			return
		}
		counters.Recovers++
		if handled {
			counters.Handled++
		}
	}
	engine.VerifOnOp = func(op byte) {
		if counters == nil {
			return
		}
		if counters.Ops == nil {
			counters.Ops = map[string]int64{}
		}
		name := "?"
		if int(op) < len(engine.VerifOpcodeNames) {
			name = engine.VerifOpcodeNames[op]
		}
		counters.Ops[name]++
	}
}

func uninstallHooks() {
	engine.VerifOnStep, engine.VerifOnCut, engine.VerifOnRecover, engine.VerifOnOp = nil, nil, nil, nil
}
