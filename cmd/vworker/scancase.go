package main

// Worker kinds of property C15 (Go values crossing the API):
//
//	"goapi": like kind "prolog" (Flags, Setup, Inputs, Steps) but the placeholder arguments of each step may
//	         be any Go value describable by proto.Arg, including typed nested slices/arrays and the types
//	         the API is expected to refuse; a panic inside Query/Exec is reported, not fatal.
//	"scan":  runs one query, takes the first answer and Scans it into every requested destination type,
//	         reporting what the destination holds in a typed, text-free form (proto.GoVal).
//
// Only the public API is used: Interpreter.QueryContext/ExecContext, Solutions.Next/Scan/Close.

import (
	"encoding/json"
	"fmt"
	"math"
	"reflect"
	"sort"
	"strconv"
	"strings"

	"github.com/ichiban/prolog"

	"verif/internal/proto"
	"verif/internal/term"
)

func init() {
	kinds["goapi"] = runGoAPICase
	kinds["scan"] = runScanCase
}

// --- Go values from proto.Arg -------------------------------------------------------------------------

type c15Struct struct {
	A int
	B string
}

type c15String string
type c15Int int16

var goBaseTypes = map[string]reflect.Type{
	"interface{}": reflect.TypeOf((*interface{})(nil)).Elem(),
	"string":      reflect.TypeOf(""),
	"int":         reflect.TypeOf(int(0)),
	"int8":        reflect.TypeOf(int8(0)),
	"int16":       reflect.TypeOf(int16(0)),
	"int32":       reflect.TypeOf(int32(0)),
	"int64":       reflect.TypeOf(int64(0)),
	"uint":        reflect.TypeOf(uint(0)),
	"uint8":       reflect.TypeOf(uint8(0)),
	"uint16":      reflect.TypeOf(uint16(0)),
	"uint32":      reflect.TypeOf(uint32(0)),
	"uint64":      reflect.TypeOf(uint64(0)),
	"float32":     reflect.TypeOf(float32(0)),
	"float64":     reflect.TypeOf(float64(0)),
	"bool":        reflect.TypeOf(false),
	"namedstring": reflect.TypeOf(c15String("")),
	"namedint":    reflect.TypeOf(c15Int(0)),
}

// goType resolves a type name: a base type, "[]T" or "[N]T".
func goType(name string) (reflect.Type, error) {
	switch {
	case strings.HasPrefix(name, "[]"):
		et, err := goType(name[2:])
		if err != nil {
			return nil, err
		}
		return reflect.SliceOf(et), nil
	case strings.HasPrefix(name, "["):
		i := strings.IndexByte(name, ']')
		if i < 0 {
			return nil, fmt.Errorf("bad type %q", name)
		}
		n, err := strconv.Atoi(name[1:i])
		if err != nil {
			return nil, fmt.Errorf("bad type %q", name)
		}
		et, err := goType(name[i+1:])
		if err != nil {
			return nil, err
		}
		return reflect.ArrayOf(n, et), nil
	}
	if t, ok := goBaseTypes[name]; ok {
		return t, nil
	}
	return nil, fmt.Errorf("unknown type %q", name)
}

// goArgX extends goArg (prologcase.go) by typed slices/arrays and by types the API should refuse.
func goArgX(a proto.Arg) (interface{}, error) {
	if strings.HasPrefix(a.T, "[") {
		t, err := goType(a.T)
		if err != nil {
			return nil, err
		}
		var v reflect.Value
		if t.Kind() == reflect.Slice {
			if a.S == "nil" {
				return reflect.Zero(t).Interface(), nil
			}
			v = reflect.MakeSlice(t, len(a.E), len(a.E))
		} else {
			if len(a.E) != t.Len() {
				return nil, fmt.Errorf("%s needs %d elements", a.T, t.Len())
			}
			v = reflect.New(t).Elem()
		}
		for i, e := range a.E {
			ev, err := goArgX(e)
			if err != nil {
				return nil, err
			}
			if ev == nil {
				continue // nil interface element
			}
			rv := reflect.ValueOf(ev)
			if !rv.Type().AssignableTo(t.Elem()) {
				return nil, fmt.Errorf("element %d of %s has type %s", i, a.T, rv.Type())
			}
			v.Index(i).Set(rv)
		}
		return v.Interface(), nil
	}
	switch a.T {
	case "uint8":
		return uint8(a.I), nil
	case "uint16":
		return uint16(a.I), nil
	case "uint32":
		return uint32(a.I), nil
	case "uint64":
		return uint64(a.I), nil
	case "uintptr":
		return uintptr(a.I), nil
	case "complex128":
		return complex(float64(a.I), 1), nil
	case "struct":
		return c15Struct{A: int(a.I), B: a.S}, nil
	case "ptr":
		n := int(a.I)
		return &n, nil
	case "strptr":
		s := a.S
		return &s, nil
	case "map":
		return map[string]int{a.S: int(a.I)}, nil
	case "func":
		return func() {}, nil
	case "chan":
		return make(chan int), nil
	case "error":
		return fmt.Errorf("%s", a.S), nil
	case "namedstring":
		if a.B != nil {
			return c15String(a.B), nil
		}
		return c15String(a.S), nil
	case "namedint":
		return c15Int(a.I), nil
	}
	return goArg(a)
}

func goArgsX(as []proto.Arg) ([]interface{}, error) {
	var out []interface{}
	for _, a := range as {
		v, err := goArgX(a)
		if err != nil {
			return nil, err
		}
		out = append(out, v)
	}
	return out, nil
}

// --- kind "goapi" -------------------------------------------------------------------------------------

// panicErr marks a recovered panic so that the controller can tell it from a returned error.
const panicPrefix = "PANIC: "

func (s *session) runStepX(st *proto.Step) (r proto.StepResult) {
	s.events = nil
	outStart := s.out.Len()
	ctx, cancel := s.begin(st.StepBudget)
	defer cancel()
	args, err := goArgsX(st.Args)
	if err != nil {
		r.Err = &proto.Err{Text: "verif: " + err.Error()}
		return r
	}
	curConv = s.cv
	finish := func() {
		r.Events = s.events
		r.Output = append([]byte(nil), s.out.Bytes()[outStart:]...)
		// the context is cancelled only by the step budget (hooks) or the wall-clock limit (no hooks); the
		// deferred cancel has not run yet
		r.BudgetHit = ctx.Err() != nil
	}
	defer func() {
		if p := recover(); p != nil {
			r.Err = &proto.Err{Text: panicPrefix + fmt.Sprint(p), GoType: "panic"}
			finish()
		}
	}()
	switch {
	case st.Exec != "":
		r.Err = errOf(s.cv, s.p.ExecContext(ctx, st.Exec, args...))
	default:
		sols, err := s.p.QueryContext(ctx, st.Query, args...)
		if err != nil {
			r.Err = errOf(s.cv, err)
			break
		}
		max := st.Max
		if max <= 0 {
			max = 10000
		}
		for len(r.Answers) < max {
			if !sols.Next() {
				r.Exhausted = true
				break
			}
			m := map[string]capture{}
			if err := sols.Scan(m); err != nil {
				r.Err = &proto.Err{Text: "scan: " + err.Error()}
				break
			}
			a := map[string]*term.Term{}
			for k, v := range m {
				a[k] = v.t
			}
			r.Answers = append(r.Answers, a)
			s.events = append(s.events, proto.Event{Tag: "$answer"})
		}
		if e := sols.Err(); e != nil && r.Err == nil {
			r.Err = errOf(s.cv, e)
		}
		if err := sols.Close(); err != nil {
			r.CloseErr = err.Error()
		}
	}
	finish()
	return r
}

func runGoAPICase(c *proto.Case) *proto.Result {
	res := &proto.Result{}
	s := newSession(c)
	counters = &proto.Counters{}
	defer func() { counters = nil }()
	installHooks()
	defer uninstallHooks()
	for _, text := range c.Setup {
		ctx, cancel := s.begin(0)
		err := s.p.ExecContext(ctx, text)
		cancel()
		res.Setup = append(res.Setup, errOf(s.cv, err))
	}
	for i := range c.Steps {
		res.Steps = append(res.Steps, s.runStepX(&c.Steps[i]))
	}
	res.Counters = counters
	return res
}

// --- kind "scan" --------------------------------------------------------------------------------------

// dump reports a Go value structurally.
func dump(v reflect.Value) *proto.GoVal {
	switch v.Kind() {
	case reflect.Invalid:
		return &proto.GoVal{K: "nil"}
	case reflect.Interface:
		if v.IsNil() {
			return &proto.GoVal{K: "nil"}
		}
		return dump(v.Elem())
	case reflect.Int, reflect.Int8, reflect.Int16, reflect.Int32, reflect.Int64:
		return &proto.GoVal{K: v.Type().String(), I: strconv.FormatInt(v.Int(), 10)}
	case reflect.Uint, reflect.Uint8, reflect.Uint16, reflect.Uint32, reflect.Uint64, reflect.Uintptr:
		return &proto.GoVal{K: v.Type().String(), I: strconv.FormatUint(v.Uint(), 10)}
	case reflect.Float32:
		return &proto.GoVal{K: v.Type().String(), F: fmt.Sprintf("%08x", math.Float32bits(float32(v.Float())))}
	case reflect.Float64:
		return &proto.GoVal{K: v.Type().String(), F: fmt.Sprintf("%016x", math.Float64bits(v.Float()))}
	case reflect.String:
		return &proto.GoVal{K: v.Type().String(), B: []byte(v.String())}
	case reflect.Bool:
		return &proto.GoVal{K: v.Type().String(), T: v.Bool()}
	case reflect.Slice, reflect.Array:
		g := &proto.GoVal{K: v.Type().String(), Nil: v.Kind() == reflect.Slice && v.IsNil()}
		for i := 0; i < v.Len(); i++ {
			g.E = append(g.E, *dump(v.Index(i)))
		}
		return g
	default:
		return &proto.GoVal{K: "other:" + v.Type().String()}
	}
}

type destFn func(sols *prolog.Solutions, name string) []proto.ScanCell

func guardedScan(sols *prolog.Solutions, dest interface{}) (err error) {
	defer func() {
		if p := recover(); p != nil {
			err = fmt.Errorf("%s%v", panicPrefix, p)
		}
	}()
	return sols.Scan(dest)
}

// scanT scans the current solution into a struct field (tagged and untagged) and a map element of type T.
// The destinations are pre-filled so that a stale or merely appended-to value is visible.
func scanT[T any](pre func() T) destFn {
	return func(sols *prolog.Solutions, name string) []proto.ScanCell {
		var cells []proto.ScanCell

		var st struct {
			Val T `prolog:"X"`
		}
		st.Val = pre()
		c := proto.ScanCell{Dest: name, Shape: "struct"}
		if err := guardedScan(sols, &st); err != nil {
			c.Err = err.Error()
		} else {
			c.Val = dump(reflect.ValueOf(&st.Val).Elem())
		}
		cells = append(cells, c)

		// another struct type with another layout, scanned from the SAME Solutions (whatever is kept per query must not depend
		// on the layout of the first destination); Pad belongs to no variable and has to stay as it is
		var sf struct {
			Pad string
			X   T
		}
		sf.Pad = "pad"
		sf.X = pre()
		c = proto.ScanCell{Dest: name, Shape: "field"}
		if err := guardedScan(sols, &sf); err != nil {
			c.Err = err.Error()
		} else if sf.Pad != "pad" {
			c.Err = ""
			c.Val = &proto.GoVal{K: "other:a field that belongs to no variable was overwritten with " + strconv.Quote(sf.Pad)}
		} else {
			c.Val = dump(reflect.ValueOf(&sf.X).Elem())
		}
		cells = append(cells, c)

		m := map[string]T{}
		c = proto.ScanCell{Dest: name, Shape: "map"}
		if err := guardedScan(sols, m); err != nil {
			c.Err = err.Error()
		} else {
			for k := range m {
				c.Keys = append(c.Keys, k)
			}
			sort.Strings(c.Keys)
			if v, ok := m["X"]; ok {
				c.Val = dump(reflect.ValueOf(&v).Elem())
			}
			c.All = map[string]*proto.GoVal{}
			for k := range m {
				v := m[k]
				c.All[k] = dump(reflect.ValueOf(&v).Elem())
			}
		}
		cells = append(cells, c)
		return cells
	}
}

func zero[T any]() func() T { return func() (z T) { return } }

var scanDests = map[string]destFn{
	"interface{}":     scanT(func() interface{} { return "prefilled" }),
	"string":          scanT(func() string { return "prefilled" }),
	"int":             scanT(func() int { return 77 }),
	"int8":            scanT(func() int8 { return 77 }),
	"int16":           scanT(func() int16 { return 77 }),
	"int32":           scanT(func() int32 { return 77 }),
	"int64":           scanT(func() int64 { return 77 }),
	"uint":            scanT(func() uint { return 77 }),
	"uint8":           scanT(func() uint8 { return 77 }),
	"uint64":          scanT(func() uint64 { return 77 }),
	"float32":         scanT(func() float32 { return 77.5 }),
	"float64":         scanT(func() float64 { return 77.5 }),
	"bool":            scanT(func() bool { return true }),
	"TermString":      scanT(func() prolog.TermString { return "prefilled" }),
	"[]interface{}":   scanT(func() []interface{} { return []interface{}{"pre", 7} }),
	"[]string":        scanT(func() []string { return []string{"pre", "filled"} }),
	"[]int":           scanT(func() []int { return []int{7, 7, 7} }),
	"[]int8":          scanT(func() []int8 { return []int8{7, 7, 7} }),
	"[]int16":         scanT(func() []int16 { return []int16{7} }),
	"[]int32":         scanT(func() []int32 { return []int32{7} }),
	"[]int64":         scanT(func() []int64 { return []int64{7, 7} }),
	"[]uint8":         scanT(func() []uint8 { return []uint8{7} }),
	"[]float32":       scanT(func() []float32 { return []float32{7.5} }),
	"[]float64":       scanT(func() []float64 { return []float64{7.5, 7.5} }),
	"[][]int":         scanT(func() [][]int { return [][]int{{7}, {7, 7}} }),
	"[][]int8":        scanT(func() [][]int8 { return [][]int8{{7}} }),
	"[][]string":      scanT(func() [][]string { return [][]string{{"pre"}} }),
	"[][]float64":     scanT(func() [][]float64 { return [][]float64{{7.5}} }),
	"[][]interface{}": scanT(func() [][]interface{} { return [][]interface{}{{"pre"}} }),
	"[][][]int":       scanT(func() [][][]int { return [][][]int{{{7}}} }),
	"[]int(nil)":      scanT(zero[[]int]()),
	"[3]int":          scanT(func() [3]int { return [3]int{7, 7, 7} }),
}

func runScanCase(c *proto.Case) *proto.Result {
	res := &proto.Result{}
	var p proto.ScanPayload
	if err := json.Unmarshal(c.P, &p); err != nil {
		res.Fatal = "scan payload: " + err.Error()
		return res
	}
	s := newSession(c)
	installHooks()
	defer uninstallHooks()
	for _, text := range c.Setup {
		ctx, cancel := s.begin(0)
		err := s.p.ExecContext(ctx, text)
		cancel()
		res.Setup = append(res.Setup, errOf(s.cv, err))
	}
	var out proto.ScanResult
	defer func() { res.R, _ = json.Marshal(&out) }()
	args, err := goArgsX(p.Args)
	if err != nil {
		res.Fatal = "scan args: " + err.Error()
		return res
	}
	ctx, cancel := s.begin(0)
	defer cancel()
	sols, err := s.p.QueryContext(ctx, p.Query, args...)
	if err != nil {
		out.QueryErr = errOf(s.cv, err)
		return res
	}
	defer sols.Close()
	if !sols.Next() {
		out.NoAnswer = true
		out.QueryErr = errOf(s.cv, sols.Err())
		return res
	}
	curConv = s.cv
	m := map[string]capture{}
	if err := sols.Scan(m); err != nil {
		res.Fatal = "structural read of the answer failed: " + err.Error()
		return res
	}
	out.Answer = map[string]*term.Term{}
	for k, v := range m {
		out.Answer[k] = v.t
	}
	for _, d := range p.Dests {
		f, ok := scanDests[d]
		if !ok {
			res.Fatal = "unknown destination type " + d
			return res
		}
		out.Cells = append(out.Cells, f(sols, d)...)
	}
	return res
}
