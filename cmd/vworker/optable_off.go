//go:build !verif

package main

import "github.com/ichiban/prolog/engine"

// verifOpsTerm: the accessor is not available without the verif tag.
func verifOpsTerm(vm *engine.VM) (engine.Term, bool) { return nil, false }
