package main

import (
	"bytes"
	"encoding/json"
	"fmt"
	"os"
	"runtime"
	"strings"
	"sync"
	"syscall"
	"time"

	"github.com/ichiban/prolog"

	"verif/internal/proto"
)

// Kind "c05text" (property C05, workload A): raw BYTES are handed to Exec and to Query of fresh interpreters.
// The bytes travel as base64 ([]byte in JSON), so invalid UTF-8 and NUL reach the engine unchanged.

func init() { kinds["c05text"] = runC05Text }

// C05TextP is the payload of a c05text case.
type C05TextP struct {
	Prelude []string    `json:"prelude,omitempty"` // Exec'ed first on every fresh interpreter (op/3 directives, flags)
	B       []byte      `json:"b"`                 // the text
	Modes   []string    `json:"modes"`             // exec | query | querydot (query with " ." appended)
	Args    []proto.Arg `json:"args,omitempty"`    // placeholder arguments
	Budget  int64       `json:"budget,omitempty"`  // trampoline steps before the context is cancelled
	Max     int         `json:"max,omitempty"`     // answers pulled from a query
}

// C05Call is the observation of one API call.
type C05Call struct {
	Mode      string     `json:"mode"`
	Prelude   []string   `json:"prelude_err,omitempty"`
	Answers   int        `json:"answers,omitempty"`
	Exhausted bool       `json:"exhausted,omitempty"`
	Err       *proto.Err `json:"err,omitempty"`
	CloseErr  string     `json:"close_err,omitempty"`
	BudgetHit bool       `json:"budget_hit,omitempty"`
	Steps     int64      `json:"nsteps,omitempty"`
	Lingering bool       `json:"lingering,omitempty"` // the query goroutine was still alive 2 s after Close
}

// c05CaseCPU: CPU-seconds a case may use before the kernel ends the worker.
const c05CaseCPU = 45

// c05HardCap bounds the address space of the worker so that a runaway allocation ends this process with
// "fatal error: out of memory" instead of taking the machine down: 16 workers x 3 GiB still fit the box (the
// race build needs a huge virtual address range for its shadow memory and is left alone).
var c05HardCapOnce sync.Once

func c05HardCap() {
	c05HardCapOnce.Do(func() {
		if c05Race {
			return
		}
		const lim = 3 << 30
		_ = syscall.Setrlimit(syscall.RLIMIT_AS, &syscall.Rlimit{Cur: lim, Max: lim})
	})
}

// c05ArmCPU is the CPU-clock watchdog of a case: once the process has used `allow` more CPU-seconds than it has
// now, the kernel sends SIGXCPU (soft RLIMIT_CPU, re-armed for every case; the hard limit is left alone because
// raising it again needs a privilege the sandbox does not grant) and the default action of that signal ends the
// process ("signal: CPU time limit exceeded"). Unlike the controller's wall-clock watchdog this does not depend
// on the load of the machine. Where it cannot be set up the wall-clock watchdog and the /proc CPU reading remain.
var c05ArmState int // 0 = not tried, 1 = armed, 2 = unavailable

func c05ArmCPU(allow int) {
	if c05ArmState == 0 && os.Getenv("VERIF_C05_NOCPULIMIT") != "" {
		c05ArmState = 2 // diagnosis: let the wall-clock watchdog end a spinning case with a goroutine dump
	}
	if c05ArmState == 0 {
		c05ArmState = 1
		if err := c05SigDefault(syscall.SIGXCPU); err != nil {
			c05ArmState = 2
			fmt.Fprintln(os.Stderr, "c05-note no CPU-time limit:", err)
		}
	}
	if c05ArmState != 1 {
		return
	}
	if c05Race {
		allow *= 8
	}
	var ru syscall.Rusage
	var rl syscall.Rlimit
	if syscall.Getrusage(syscall.RUSAGE_SELF, &ru) != nil || syscall.Getrlimit(syscall.RLIMIT_CPU, &rl) != nil {
		return
	}
	rl.Cur = uint64(ru.Utime.Sec+ru.Stime.Sec) + 2 + uint64(allow)
	if err := syscall.Setrlimit(syscall.RLIMIT_CPU, &rl); err != nil {
		c05ArmState = 2
		fmt.Fprintln(os.Stderr, "c05-note no CPU-time limit:", err)
	}
}

// c05Settle waits until the goroutines of closed queries have ended (the goroutine count is back at what it
// was when the first case of this process began): the next case re-installs the step hooks and swaps the
// counters, which must not happen under the feet of a goroutine that is still winding down. It gives up after
// 2 s and reports false (a goroutine that never ends).
var c05BaseGoroutines int

func c05Settle() bool {
	if c05BaseGoroutines == 0 {
		c05BaseGoroutines = runtime.NumGoroutine()
		return true
	}
	deadline := time.Now().Add(2 * time.Second)
	for runtime.NumGoroutine() > c05BaseGoroutines {
		if time.Now().After(deadline) {
			return false
		}
		runtime.Gosched()
	}
	return true
}

func c05Mark(id, what string) { fmt.Fprintf(os.Stderr, "c05-mark %s %s\n", id, what) }

func c05Interp(prelude []string) (*prolog.Interpreter, *bytes.Buffer, []string) {
	var out bytes.Buffer
	p := prolog.New(strings.NewReader(""), &out)
	var errs []string
	for _, t := range prelude {
		if err := p.Exec(t); err != nil {
			errs = append(errs, clip(err.Error(), 300))
		}
	}
	return p, &out, errs
}

func clip(s string, n int) string {
	if len(s) <= n {
		return s
	}
	return s[:n*3/4] + " …[" + fmt.Sprint(len(s)-n) + " bytes]… " + s[len(s)-n/4:]
}

func runC05Text(c *proto.Case) *proto.Result {
	res := &proto.Result{}
	var p C05TextP
	if err := json.Unmarshal(c.P, &p); err != nil {
		res.Fatal = "c05text: " + err.Error()
		return res
	}
	c05HardCap()
	c05ArmCPU(c05CaseCPU)
	c05Settle()
	installHooks() // never uninstalled, counters never reset to nil: see c05Settle
	c05LightHooks()
	counters = &proto.Counters{}
	args, err := goArgs(p.Args)
	if err != nil {
		res.Fatal = "c05text: " + err.Error()
		return res
	}
	max := p.Max
	if max <= 0 {
		max = 3
	}
	var calls []C05Call
	var ip *prolog.Interpreter
	var perr []string
	for _, mode := range p.Modes {
		c05Mark(c.ID, mode)
		if ip == nil || mode == "exec" || mode == "query" {
			// exec gets its own interpreter; query and querydot share one
			ip, _, perr = c05Interp(p.Prelude)
		}
		r := C05Call{Mode: mode, Prelude: perr}
		s := &session{p: ip, cv: newConv()}
		ctx, cancel := s.begin(p.Budget)
		text := string(p.B)
		switch mode {
		case "exec":
			r.Err = c05Err(ip.ExecContext(ctx, text, args...))
		case "query", "querydot":
			if mode == "querydot" {
				text += " ."
			}
			sols, err := ip.QueryContext(ctx, text, args...)
			if err != nil {
				r.Err = c05Err(err)
				break
			}
			for r.Answers < max {
				if !sols.Next() {
					r.Exhausted = true
					break
				}
				r.Answers++
			}
			r.Err = c05Err(sols.Err())
			if err := sols.Close(); err != nil {
				r.CloseErr = err.Error()
			}
			r.Lingering = !c05Settle()
		default:
			r.Err = &proto.Err{Text: "verif: unknown mode " + mode}
		}
		r.Steps = curState().steps
		r.BudgetHit = curState().hit || (!hooksOn && ctx.Err() != nil)
		cancel()
		calls = append(calls, r)
	}
	c05Mark(c.ID, "done")
	res.R, _ = json.Marshal(calls)
	res.Counters = counters
	return res
}
